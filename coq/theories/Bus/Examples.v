(* Bus/Examples.v -- non-vacuity: each main Bus theorem is instantiated on a concrete,
   reachable, non-trivial state, its hypotheses are proved there (by computation and
   [reachable_ok]) and the theorem is applied.  An implication whose hypotheses no reachable
   state meets would say nothing; these examples show the hypotheses are met along an
   ordinary history (ordered subscription with a dead-letter policy, same-key messages,
   lease, acknowledgement, snapshot, seek). *)
From MB Require Import Base.
From MB.Bus Require Import State Ops Step Defs L_Tables L_Good L_Helpers L_Step T_Inv.
From MB.Bus Require Import T_C01 T_C02 T_C03 T_C04 T_C05 T_C06 T_C13 T_C14 T_Spec T_Live.
Local Open Scope string_scope.
Open Scope list_scope.
Open Scope Z_scope.

Module Ex.
  Definition tn : str := "projects/p/topics/t".
  Definition dn : str := "projects/p/topics/dead".
  Definition sn : str := "projects/p/subscriptions/s".
  Definition zn : str := "projects/p/subscriptions/z".
  Definition nn : str := "projects/p/snapshots/n".
  (* ordered, dead-letter policy (topic dead, 5 attempts) *)
  Definition q0 := mkSubreq sn tn 0 0 true [] "" false None (Some (dn, 5)) None.
  Definition qz := mkSubreq zn dn 0 0 false [] "" false None None None.
  Definition pm1 := mkPubmsg "1" true [] "k" 1 10%N 300.
  Definition pm2 := mkPubmsg "2" true [] "k" 1 11%N 301.
  Definition pm3 := mkPubmsg "3" true [] "" 1 12%N 302.
  Definition fr0 : fresh_dels := [(10%N, 3%N, 20%N); (11%N, 3%N, 21%N); (12%N, 3%N, 22%N)].
  Definition h_setup : hist :=
    [ (100, CreateTopic tn [] false 1%N);
      (110, CreateTopic dn [] false 2%N);
      (200, CreateSub q0 3%N 200);
      (210, CreateSub qz 4%N 210) ].
  Definition st_setup := run empty_state h_setup.
  Definition o_pub := Publish tn [pm1; pm2; pm3] fr0.
  Definition o_pull1 := Pull sn 10 [20%N; 22%N] [] 400 [] [].
  Definition o_ack1 := Ack sn (Some [20%N]) 500.
  Definition h_traffic : hist := [ (300, o_pub); (400, o_pull1); (500, o_ack1) ].
  Definition st_pub := run st_setup [ (300, o_pub) ].
  Definition st_leased := run st_setup [ (300, o_pub); (400, o_pull1) ].
  Definition st_acked := run st_setup h_traffic.
End Ex.
Import Ex.


Example all_legal_here : all_legal_b empty_state (h_setup ++ h_traffic) = true.
Proof. vm_compute; reflexivity. Qed.

Lemma reach_prefix (h : hist) : all_legal_b empty_state h = true -> reachable (run empty_state h).
Proof. intros H. exact (reachable_by _ h H eq_refl). Qed.

Example reach_setup : reachable st_setup.   Proof. apply (reach_prefix h_setup). vm_compute; reflexivity. Qed.
Example reach_pub : reachable st_pub.
Proof. apply (reachable_by st_pub (h_setup ++ [(300, o_pub)])); vm_compute; reflexivity. Qed.
Example reach_leased : reachable st_leased.
Proof. apply (reachable_by st_leased (h_setup ++ [(300, o_pub); (400, o_pull1)])); vm_compute; reflexivity. Qed.
Example reach_acked : reachable st_acked.
Proof. apply (reachable_by st_acked (h_setup ++ h_traffic)); vm_compute; reflexivity. Qed.

(* ---- C01: publish_delivers on the ordered subscription ---- *)
Example c01_publish_delivers_here :
  exists t s, find_live_topic st_setup tn = Some t /\ receives st_setup t pm2 s /\
    exists d, In d (dels (post st_setup 300 o_pub)) /\ is_new_delivery pm2 s d.
Proof.
  destruct (find_live_topic st_setup tn) as [t|] eqn:Ht; [|vm_compute in Ht; discriminate].
  destruct (find_live_sub st_setup sn) as [s|] eqn:Hs; [|vm_compute in Hs; discriminate].
  exists t, s. split; [reflexivity|].
  assert (R : receives st_setup t pm2 s).
  { vm_compute in Ht, Hs. injection Ht as <-. injection Hs as <-. unfold receives.
    repeat split; vm_compute; auto. }
  split; [exact R|].
  apply (publish_delivers st_setup 300 tn [pm1; pm2; pm3] fr0 t).
  - reflexivity.
  - exact Ht.
  - intros p [<-|[<-|[<-|[]]]]; reflexivity.
  - vm_compute; reflexivity.
  - right; left; reflexivity.
  - exact R.
Qed.

(* a concrete delivery of a concrete state, by id *)
Ltac pick_del st i d Hd :=
  let l := eval vm_compute in (filter (fun x => N.eqb (d_id x) i) (dels st)) in
  match l with
  | [?x] => pose (d := x); assert (Hd : In d (dels st)) by (vm_compute; tauto)
  end.

(* ---- C01: an acknowledgement of delivery 20 does not settle delivery 21 (blocked behind it)
        nor delivery 22 (leased): the hypotheses of only_rightful_settlement hold for them ---- *)
Example c01_only_rightful_settlement_here :
  exists d', In d' (dels (post st_leased 500 o_ack1)) /\ d_id d' = 22%N /\ d_completed d' = None /\
             outstanding (post st_leased 500 o_ack1) 500 d' = true.
Proof.
  pick_del st_leased 22%N d Hd.
  destruct (only_rightful_settlement st_leased 500 o_ack1 d) as (d' & H1 & H2 & _ & _ & H5 & _ & _ & _ & H9).
  - apply reachable_ok. exact reach_leased.
  - vm_compute; reflexivity.
  - exact Hd.
  - vm_compute; reflexivity.
  - vm_compute; reflexivity.
  - exists d'. repeat split; assumption.
Qed.

(* ---- C02 / C04 / C14: the first pull hands out deliveries 20 and 22 (21 is blocked) ---- *)
Definition p_first : pulled :=
  match pulled_of (answer st_pub 400 o_pull1) with p :: _ => p | [] => mkPulled 0%N 0%N 0 "" [] "" 0 end.

Example pull_hypotheses_here :
  ids_unique st_pub /\ legal st_pub 400 o_pull1 /\
  In p_first (pulled_of (answer st_pub 400 o_pull1)) /\ p_ack p_first = 20%N /\
  length (pulled_of (answer st_pub 400 o_pull1)) = 2%nat.
Proof.
  split; [apply reachable_ok; exact reach_pub|].
  repeat split; vm_compute; auto.
Qed.

Example c02_pull_sound_here :
  exists s d m, find_live_sub st_pub sn = Some s /\ In d (dels st_pub) /\ In m (msgs st_pub) /\
    d_id d = 20%N /\ p_payload p_first = m_payload m /\ p_attempt p_first = 1.
Proof.
  destruct pull_hypotheses_here as (U & L & I & A & _).
  destruct (pull_sound st_pub 400 sn 10 [20%N; 22%N] [] 400 [] [] p_first U L I)
    as (s & d & m & H1 & H2 & H3 & H4 & _ & _ & _ & _ & H9 & _ & _ & _ & H13).
  exists s, d, m. rewrite A in H4. repeat split; assumption || reflexivity.
Qed.

Example c04_pull_lease_here :
  exists d', In d' (dels (post st_pub 400 o_pull1)) /\ d_id d' = 20%N /\ d_attempts d' = 1 /\
             d_last d' = Some 400 /\ 400 < d_attempt_at d'.
Proof.
  destruct pull_hypotheses_here as (U & L & I & A & _).
  destruct (pull_lease st_pub 400 sn 10 [20%N; 22%N] [] 400 [] [] p_first U L I)
    as (s & d & d' & H1 & H2 & H3 & H4 & H5 & H6 & _ & H8 & _ & H10 & _ & _ & _ & _ & _ & _ & H17).
  exists d'. rewrite A in H3. rewrite H3 in H6.
  assert (E : d' = nth 0 (dels (post st_pub 400 o_pull1)) d').
  { vm_compute in H5. destruct H5 as [<-|[<-|[<-|[]]]]; try reflexivity; vm_compute in H6; discriminate. }
  repeat split; try assumption.
  - rewrite E. vm_compute. reflexivity.
  - rewrite E. vm_compute. reflexivity.
Qed.

Example c14_pull_within_retention_here :
  exists d, In d (dels st_pub) /\ d_id d = 20%N /\ 400 < d_expires d.
Proof.
  destruct pull_hypotheses_here as (U & L & I & A & _).
  destruct (pull_within_retention st_pub 400 sn 10 [20%N; 22%N] [] 400 [] [] p_first U L I) as (d & H1 & H2 & H3).
  exists d. rewrite A in H2. auto.
Qed.

(* ---- C05 over a history: after delivery 20 is acknowledged a pull hands out 21; its
        earlier same-key delivery (20) is no longer active.  All hypotheses of the history
        theorem (quiet, disciplined, ordered subscription, initial invariant) are met. ---- *)
Definition o_pull2 := Pull sn 10 [21%N] [] 600 [] [].
Definition h5 : hist := h_traffic ++ [ (600, o_pull2) ].
Ltac each_in H := vm_compute in H; repeat (destruct H as [H|H]; [subst|]); try contradiction.

Example c05_history_hypotheses_here :
  ids_unique st_setup /\ all_legal st_setup h5 /\ times_nondecreasing 250 h5 /\
  (forall s now o, In (s, now, o) (trace st_setup h5) -> quiet s now o /\ disciplined s o 3%N) /\
  (forall s now o, In (s, now, o) (trace st_setup h5) ->
     exists sb, get_sub s 3%N = Some sb /\ s_ordered sb = true) /\
  order_inv st_setup 250 3%N.
Proof.
  split; [apply reachable_ok; exact reach_setup|].
  split; [apply all_legal_b_sound; vm_compute; reflexivity|].
  split; [cbn; lia|].
  split; [|split].
  - intros s now o Hin. cbn [h5 h_traffic app trace] in Hin.
    destruct Hin as [E|[E|[E|[E|[]]]]]; injection E as <- <- <-.
    all: unfold o_pub, o_pull1, o_ack1, o_pull2; split;
      [ unfold quiet; split; [|split; [|split]];
        [ intros w Hw; each_in Hw; lia
        | cbn; lia
        | intros d w Hd Hw; each_in Hw; each_in Hd; vm_compute; intros; reflexivity
        | intros d Hd; each_in Hd; vm_compute; reflexivity ]
      | unfold disciplined; split; [|split; [|split; [|split; [|split]]]];
        [ intros d Hd Hs; try (each_in Hd; vm_compute; intros; congruence); exact I
        | exact I
        | reflexivity
        | intros s0 Hs; vm_compute in Hs; injection Hs as <-; reflexivity
        | intros s0 Hs; vm_compute in Hs; injection Hs as <-;
          try (intros w w' Hw Hw'; each_in Hw; each_in Hw'; vm_compute; reflexivity); exact I
        | try exact I; intros m i Hf; exact Hf ] ].
  - intros s now o Hin. cbn [h5 h_traffic app trace] in Hin.
    destruct Hin as [E|[E|[E|[E|[]]]]]; injection E as <- <- <-;
      (eexists; split; [vm_compute; reflexivity|reflexivity]).
  - apply order_inv_init. intros d Hd. vm_compute in Hd. contradiction.
Qed.

Example c05_no_overtake_history_here :
  forall d0, In d0 (dels st_acked) -> d_sub d0 = 3%N -> d_msg d0 = 10%N -> active 600 d0 = false.
Proof.
  intros d0 Hd0 Hs0 Hm0.
  destruct c05_history_hypotheses_here as (U & L & T & Q & O & I0).
  pick_del st_acked 21%N d Hd.
  apply (C05_no_overtake h5 st_setup 250 3%N U L T) with
    (s := st_acked) (now := 600) (o := o_pull2) (d := d)
    (p := mkPulled 21%N 11%N 1 "2" [] "k" 301); try assumption.
  - intros x Hx. vm_compute in Hx. contradiction.
  - cbn [h5 h_traffic app trace]. right; right; right; left. reflexivity.
  - vm_compute. left; reflexivity.
  - reflexivity.
  - reflexivity.
  - each_in Hd0; try (vm_compute in Hm0; discriminate).
    unfold earlier_same_key. split; [reflexivity|]. split; [|vm_compute; reflexivity].
    exists "k". split; vm_compute; reflexivity.
Qed.

(* ---- C03: delivery 20, acknowledged at 500, is never handed out again by the later pull ---- *)
Example c03_final_here :
  forall p, In p (pulled_of (answer st_acked 600 o_pull2)) -> p_ack p <> 20%N.
Proof.
  intros p Hp.
  pick_del st_acked 20%N d Hd.
  apply (C03_final [(600, o_pull2)] st_acked d) with (s := st_acked) (now := 600) (o := o_pull2).
  - apply reachable_ok. exact reach_acked.
  - apply all_legal_b_sound. vm_compute; reflexivity.
  - exact Hd.
  - vm_compute; discriminate.
  - intros s now o [E|[]]. injection E as <- <- <-. reflexivity.
  - intros s now o [E|[]]. injection E as <- <- <-. vm_compute. tauto.
  - left; reflexivity.
  - exact Hp.
Qed.

(* ---- C06: dead-lettering delivery 22 of subscription s into topic dead reaches subscription z ---- *)
Example c06_dl_forwards_here :
  exists d m, In d (dels st_leased) /\ d_id d = 22%N /\ get_msg st_leased (d_msg d) = Some m /\
    length (dl_receivers st_leased 2%N m) = 1%nat /\
    forall s, In s (dl_receivers st_leased 2%N m) ->
      exists d', In d' (dels (fst (fst (fst (dead_letter st_leased d 2%N 700 [(12%N, 4%N, 30%N)]))))) /\
                 ~ In d' (dels st_leased) /\ d_msg d' = d_msg d /\ d_sub d' = s_id s /\ d_attempts d' = 0.
Proof.
  pick_del st_leased 22%N d Hd.
  destruct (get_msg st_leased (d_msg d)) as [m|] eqn:Hm; [|vm_compute in Hm; discriminate].
  exists d, m. split; [exact Hd|]. split; [reflexivity|]. split; [exact Hm|].
  split; [vm_compute in Hm; injection Hm as <-; vm_compute; reflexivity|].
  intros s Hs.
  assert (L : snd (dead_letter st_leased d 2%N 700 [(12%N, 4%N, 30%N)]) = []) by (vm_compute; reflexivity).
  destruct (dl_forwards st_leased d 2%N 700 [(12%N, 4%N, 30%N)] m Hd Hm L s Hs)
    as (d' & H1 & H2 & H3 & H4 & H5 & _).
  exists d'. repeat split; assumption.
Qed.

(* ---- C13: a snapshot of s taken after the acknowledgement of 20 records exactly the
        acknowledgement state (20 acknowledged; 21, 22 not) ---- *)
Definition o_snap := CreateSnap nn sn [] 40%N 650.

Example c13_snapshot_meaning_here :
  exists n, find_snap (post st_acked 650 o_snap) nn = Some n /\
    forall d, In d (dels st_acked) -> d_sub d = 3%N -> 650 < d_expires d ->
      (d_completed d = None <-> n_before n <= d_published d /\ mem_id (d_msg d) (n_acked n) = false).
Proof.
  destruct (find_live_sub st_acked sn) as [s|] eqn:Hs; [|vm_compute in Hs; discriminate].
  assert (Es : s_id s = 3%N) by (vm_compute in Hs; injection Hs as <-; reflexivity).
  assert (U : ids_unique st_acked) by (apply reachable_ok; exact reach_acked).
  assert (L : legal st_acked 650 o_snap) by (vm_compute; reflexivity).
  assert (P : plain st_acked (s_id s)).
  { rewrite Es. unfold plain. split; [|split].
    - intros d m Hd Hsd Hm. each_in Hd; vm_compute in Hm; injection Hm as <-; vm_compute; auto.
    - intros d1 d2 Hd1 Hd2 _ _ Hmm. each_in Hd1; each_in Hd2; vm_compute in Hmm; try discriminate; reflexivity.
    - intros d Hd _. each_in Hd; vm_compute; reflexivity. }
  assert (W : forall d, In d (dels st_acked) -> d_published d < 650).
  { intros d Hd. each_in Hd; vm_compute; reflexivity. }
  destruct (answer st_acked 650 o_snap) eqn:Ha; try (vm_compute in Ha; discriminate).
  destruct (snapshot_meaning st_acked 650 nn sn [] 40%N 650 s _ _ _ _ U L Hs P W Ha) as (n & H1 & _ & _ & _ & H5).
  exists n. split; [exact H1|]. intros d Hd Hsd. apply H5; [exact Hd|rewrite Es; exact Hsd].
Qed.

(* ---- C01 over a history: delivery 22 (leased, not acknowledged) survives the acknowledgement
        of 20 and the later pull: every hypothesis of C01_never_lost holds ---- *)
Example c01_never_lost_here :
  exists d', In d' (dels (run st_leased [(500, o_ack1); (600, o_pull2)])) /\ d_id d' = 22%N /\
             d_completed d' = None.
Proof.
  pick_del st_leased 22%N d Hd.
  destruct (C01_never_lost [(500, o_ack1); (600, o_pull2)] st_leased 450 d)
    as (d' & H1 & H2 & _ & _ & H5 & _).
  - apply reachable_ok. exact reach_leased.
  - apply all_legal_b_sound. vm_compute; reflexivity.
  - cbn; lia.
  - exact Hd.
  - reflexivity.
  - vm_compute. reflexivity.
  - intros s now o d0 Hin Hd0 Hid _. cbn [trace] in Hin.
    destruct Hin as [E|[E|[]]]; injection E as <- <- <-; each_in Hd0; try (vm_compute in Hid; discriminate);
      vm_compute; reflexivity.
  - intros s now o Hin. cbn [trace] in Hin.
    destruct Hin as [E|[E|[]]]; injection E as <- <- <-; vm_compute; reflexivity.
  - exists d'. auto.
Qed.

(* ---- C13: seeking s back to the snapshot keeps the acknowledged delivery 20 acknowledged ---- *)
Definition st_snapped := post st_acked 650 o_snap.
Example c13_seek_snap_keeps_acked_here :
  exists d, In d (dels st_snapped) /\ d_id d = 20%N /\ d_completed d <> None /\
            In d (dels (post st_snapped 700 (SeekSnap sn nn 700))).
Proof.
  pick_del st_snapped 20%N d Hd.
  destruct (find_live_sub st_snapped sn) as [s|] eqn:Hs; [|vm_compute in Hs; discriminate].
  destruct (find_snap st_snapped nn) as [n|] eqn:Hn; [|vm_compute in Hn; discriminate].
  exists d. split; [exact Hd|]. split; [reflexivity|]. split; [vm_compute; discriminate|].
  apply (seek_snap_keeps_acked st_snapped 700 sn nn 700 s n d); try reflexivity; try assumption.
  - vm_compute; discriminate.
  - vm_compute in Hn. injection Hn as <-. left. vm_compute. reflexivity.
Qed.


(* ---- C01 drain: delivery 21 (held back behind 20) survives the acknowledgement of 20 and is
        handed out, with its payload, by the next pull ---- *)
Example c01_drain_here :
  exists p, In p (pulled_of (answer st_acked 600 o_pull2)) /\ p_ack p = 21%N /\ p_payload p = "2".
Proof.
  pick_del st_leased 21%N d Hd.
  destruct (get_msg st_acked (d_msg d)) as [m|] eqn:Hm; [|vm_compute in Hm; discriminate].
  destruct (find_live_sub st_acked sn) as [s|] eqn:Hs; [|vm_compute in Hs; discriminate].
  assert (Em : m_payload m = "2") by (vm_compute in Hm; injection Hm as <-; reflexivity).
  destruct (C01_drain [(500, o_ack1)] st_leased 450 d 600 sn 10 [21%N] [] 600 [] [] s m)
    as [(d' & Hin' & Hid' & Hdue & _)|(p & H1 & H2 & _ & H4 & _)].
  - apply reachable_ok. exact reach_leased.
  - apply all_legal_b_sound. vm_compute; reflexivity.
  - cbn; lia.
  - exact Hd.
  - reflexivity.
  - vm_compute. reflexivity.
  - intros s0 now o d0 Hin Hd0 Hid _. cbn [trace] in Hin.
    destruct Hin as [E|[]]; injection E as <- <- <-; each_in Hd0; try (vm_compute in Hid; discriminate);
      vm_compute; reflexivity.
  - intros s0 now o Hin. cbn [trace] in Hin. destruct Hin as [E|[]]; injection E as <- <- <-; vm_compute; reflexivity.
  - vm_compute; reflexivity.
  - reflexivity.
  - lia.
  - exact Hs.
  - vm_compute in Hs. injection Hs as <-. reflexivity.
  - vm_compute; reflexivity.
  - intros d' Hd' Hid. vm_compute in Hs. injection Hs as <-.
    each_in Hd'; try (vm_compute in Hid; discriminate). split; vm_compute; [discriminate|reflexivity].
  - vm_compute in Hs. injection Hs as <-. vm_compute. discriminate.
  - exact Hm.
  - intros m' Hm'. each_in Hm'; vm_compute; split; discriminate.
  - exfalso. each_in Hin'; try (vm_compute in Hid'; discriminate); vm_compute in Hdue; discriminate.
  - exists p. rewrite <- Em. auto.
Qed.


(* ---- T_Spec: delivery 21, outstanding after the traffic, is accounted for -- its row was
        created by a step of the history (the Publish); the initial state had no deliveries
        and the history has no seek ---- *)
Example spec_upper_bound_here :
  exists s now o, In (s, now, o) (trace st_setup h_traffic) /\
    has_id d_id 21%N (dels s) = false /\ has_id d_id 21%N (dels (post s now o)) = true.
Proof.
  pick_del st_acked 21%N d Hd.
  destruct (outstanding_after_history h_traffic st_setup 600 d)
    as [(d0 & H0 & _)|[H|(s & now & o & d0 & Hin & Hd0 & Hid & Hs)]].
  - apply reachable_ok. exact reach_setup.
  - apply reachable_ok. exact reach_setup.
  - apply all_legal_b_sound. vm_compute; reflexivity.
  - exact Hd.
  - vm_compute; reflexivity.
  - vm_compute in H0. contradiction.
  - exact H.
  - exfalso. cbn [h_traffic trace] in Hin.
    destruct Hin as [E|[E|[E|[]]]]; injection E as <- <- <-; vm_compute in Hs; discriminate.
Qed.

Print Assumptions c01_publish_delivers_here.
Print Assumptions c01_never_lost_here.
Print Assumptions c05_no_overtake_history_here.
Print Assumptions c13_snapshot_meaning_here.

(* ---- T_Live: on st_pub the subscription holds three outstanding deliveries, all due at 400; 21
   waits behind 20 (same key): the backlog does not block itself, and the legal pull serves it ---- *)
Example c01_backlog_never_deadlocks_here :
  (exists s, find_live_sub st_pub sn = Some s /\
     (exists d, In d (dels st_pub) /\ d_id d = 21%N /\ T_Live.live_on s 400 d = true /\ pred_blocks st_pub 400 d = true) /\
     (exists d, In d (dels st_pub) /\ eligible st_pub s 400 d = true)) /\
  (exists d, In d (dels st_pub) /\
     exists p, In p (pulled_of (answer st_pub 400 o_pull1)) /\ p_ack p = d_id d).
Proof.
  destruct (find_live_sub st_pub sn) as [s|] eqn:Es; [|vm_compute in Es; discriminate].
  assert (Hex : exists d, In d (dels st_pub) /\ T_Live.live_on s 400 d = true).
  { vm_compute in Es. injection Es as <-. eexists. split; [left; reflexivity|vm_compute; reflexivity]. }
  assert (Hdue : forall d, In d (dels st_pub) -> T_Live.live_on s 400 d = true -> d_attempt_at d <= 400).
  { vm_compute in Es. injection Es as <-. intros d Hd _. vm_compute in Hd.
    repeat (destruct Hd as [<-|Hd]; [vm_compute; discriminate|]). destruct Hd. }
  split.
  - exists s. split; [reflexivity|]. split.
    + vm_compute in Es. injection Es as <-.
      eexists. split; [right; left; reflexivity|]. repeat split; vm_compute; reflexivity.
    + exact (T_Live.C01_ordered_backlog_never_deadlocks st_pub s 400 reach_pub Hex Hdue).
  - destruct pull_hypotheses_here as (U & L & _).
    assert (H110 : 1 <= 10) by (apply Z.leb_le; reflexivity).
    destruct (T_Live.C01_pull_serves_a_due_backlog st_pub 400 sn 10 [20%N; 22%N] [] 400 [] [] s
                reach_pub L eq_refl H110 Es Hex Hdue) as [d [Hd [_ [[Hdl _]|[_ [p [Hp [Ha _]]]]]]]].
    + vm_compute in Es. injection Es as <-. vm_compute. discriminate.
    + intros m' Hm'. vm_compute in Hm'. repeat (destruct Hm' as [<-|Hm']; [vm_compute; split; [discriminate|discriminate]|]). destruct Hm'.
    + exfalso. vm_compute in Es. injection Es as <-. vm_compute in Hd.
      repeat (destruct Hd as [<-|Hd]; [vm_compute in Hdl; discriminate|]). destruct Hd.
    + exists d. split; [exact Hd|]. exists p. split; assumption.
Qed.
