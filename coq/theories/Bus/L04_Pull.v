(* Bus/L04_Pull.v -- row-level description of nack_each and apply_results. *)
From MB Require Import Base.
From MB.Bus Require Import State Ops Step Defs L04_Lists L04_Evo.
Local Open Scope string_scope.
Open Scope list_scope.
Open Scope Z_scope.

(* ---- arithmetic of the backoff ---- *)
Lemma eff_pos d o : 0 < d -> 0 < eff d o.
Proof.
  intros Hd. unfold eff. destruct o as [v|]; [|exact Hd].
  destruct (0 <? v) eqn:E; [apply Z.ltb_lt in E; exact E|exact Hd].
Qed.

Lemma nominal_delay_nonneg minb maxb n : 0 <= nominal_delay minb maxb n.
Proof.
  unfold nominal_delay. apply Z.min_glb.
  - apply Z.lt_le_incl. apply eff_pos. unfold default_max_delay, sec. lia.
  - apply Z_div_nonneg_nonneg.
    + apply Z.mul_nonneg_nonneg.
      * apply Z.lt_le_incl. apply eff_pos. unfold default_min_delay, sec. lia.
      * apply Z.pow_nonneg. lia.
    + apply Z.pow_nonneg. lia.
Qed.

Lemma fuzz_legal_bounds nom f : fuzz_legal nom f = true -> - float_tol <= f < sec + float_tol.
Proof.
  unfold fuzz_legal. intros H.
  apply andb_true_iff in H. destruct H as [H _].
  apply andb_true_iff in H. destruct H as [H1 H2].
  apply Z.leb_le in H1. apply Z.ltb_lt in H2. lia.
Qed.

(* ---- rows untouched outside a set of ids; attempts never change ---- *)
Definition keepP (C : list id) (x x' : del) : Prop :=
  d_attempts x' = d_attempts x /\ (~ In (d_id x) C -> x' = x).

Lemma upd_one_keepP i (f : del -> del) x x' :
  (forall y, d_attempts (f y) = d_attempts y) ->
  x' = (if N.eqb (d_id x) i then f x else x) -> keepP [i] x x'.
Proof.
  intros Hf ->. unfold keepP. destruct (N.eqb (d_id x) i) eqn:E.
  - split; [apply Hf|]. intros Hn. exfalso. apply Hn. left. apply N.eqb_eq in E. congruence.
  - split; reflexivity.
Qed.

Lemma full_dl_topic s : full_dl s = true -> exists dlt, s_dl_topic s = Some dlt.
Proof.
  unfold full_dl. destruct (s_max_attempts s); [|discriminate].
  destruct (s_dl_topic s) as [t|]; [|discriminate]. intros _. exists t. reflexivity.
Qed.

Definition nackN (s : sub) (d : del) : Z := nominal_delay (s_minb s) (s_maxb s) (d_attempts d).

(* one iteration of nack_each's loop body *)
Lemma nack_one_evo st d s wnow fz fr st1 fr1 w1 n1 :
  (if full_dl s && (max_attempts_of s <=? d_attempts d) then
     match s_dl_topic s with
     | Some dlt => dead_letter st d dlt wnow fr
     | None => (st, fr, [], [])
     end
   else
     (set_dels st (upd_where (fun x => N.eqb (d_id x) (d_id d))
                             (d_set_attempt_at (wnow + nackN s d + fuzz_of (d_id d) fz)) (dels st)),
      fr, [], if fuzz_legal (nackN s d) (fuzz_of (d_id d) fz) then [] else ["illegal-fuzz"%string]))
  = (st1, fr1, w1, n1) ->
  subs st1 = subs st /\ incl (fids fr1) (fids fr) /\
  evo (keepP [d_id d]) (fids fr) (dels st) (dels st1) /\
  (In d (dels st) -> n1 = [] ->
   if full_dl s && (max_attempts_of s <=? d_attempts d)
   then In (d_set_completed wnow d) (dels st1)
   else In (d_set_attempt_at (wnow + nackN s d + fuzz_of (d_id d) fz) d) (dels st1) /\
        fuzz_legal (nackN s d) (fuzz_of (d_id d) fz) = true).
Proof.
  intros H. destruct (full_dl s && (max_attempts_of s <=? d_attempts d)) eqn:Ec.
  - apply andb_true_iff in Ec. destruct Ec as [Ec _].
    destruct (full_dl_topic s Ec) as [dlt Edl]. rewrite Edl in H.
    apply dead_letter_evo in H. destruct H as [S1 [I1 V1]].
    split; [exact S1|]. split; [exact I1|]. split.
    + eapply evo_mono; [exact V1| |apply incl_refl].
      intros x x' _ HP. eapply upd_one_keepP; [|exact HP]. reflexivity.
    + intros Hd _. destruct V1 as [V1 _]. destruct (V1 d Hd) as [x' [Hx' [_ HP]]].
      unfold DL in HP. rewrite N.eqb_refl in HP. subst x'. exact Hx'.
  - inversion H; subst. cbn [set_dels subs dels].
    split; [reflexivity|]. split; [apply incl_refl|]. split.
    + eapply evo_mono; [apply evo_upd; reflexivity| |apply incl_refl].
      intros x x' _ HP. eapply upd_one_keepP; [|exact HP]. reflexivity.
    + intros Hd Hn. split.
      * pose proof (in_upd_where_intro (fun x => N.eqb (d_id x) (d_id d))
                      (d_set_attempt_at (wnow + nackN s d + fuzz_of (d_id d) fz)) (dels st) d Hd) as Hi.
        cbv beta in Hi. rewrite N.eqb_refl in Hi. exact Hi.
      * destruct (fuzz_legal (nackN s d) (fuzz_of (d_id d) fz)); [reflexivity|discriminate].
Qed.

Lemma keepP_trans i C x x1 x2 :
  d_id x1 = d_id x -> keepP [i] x x1 -> keepP C x1 x2 -> keepP (i :: C) x x2.
Proof.
  intros He [A1 A2] [B1 B2]. split; [congruence|].
  intros Hn. assert (x1 = x) by (apply A2; intros [H|[]]; apply Hn; left; exact H).
  subst x1. apply B2. intros H. apply Hn. right. exact H.
Qed.

Lemma nack_each_evo now wnow fz : forall ds st fr st' fr' w n,
  nack_each st ds now wnow fz fr = (st', fr', w, n) ->
  subs st' = subs st /\ incl (fids fr') (fids fr) /\
  evo (keepP (map d_id ds)) (fids fr) (dels st) (dels st').
Proof.
  assert (Z0 : forall C st fr, subs st = subs st /\ incl (fids fr) (fids fr) /\
                             evo (keepP C) (fids fr) (dels st) (dels st)).
  { intros. split; [reflexivity|]. split; [apply incl_refl|]. apply evo_refl.
    intros x; split; reflexivity. }
  induction ds as [|d r IH]; intros st fr st' fr' w n H; cbn [nack_each] in H.
  - inversion H; subst. apply Z0.
  - destruct (get_sub st (d_sub d)) as [s|]; [|inversion H; subst; apply Z0].
    cbv zeta in H.
    match type of H with context [match ?X with (_, _) => _ end] =>
      destruct X as [[[st1 fr1] w1] n1] eqn:E1 end.
    destruct (nack_each st1 r now wnow fz fr1) as [[[st2 fr2] w2] n2] eqn:E2.
    inversion H; subst.
    apply nack_one_evo in E1. destruct E1 as [S1 [I1 [V1 _]]].
    apply IH in E2. destruct E2 as [S2 [I2 V2]].
    split; [congruence|]. split; [eapply incl_tran; eauto|].
    eapply evo_trans; [exact V1|eapply evo_F_mono; eauto|].
    intros x x1 x2 E1 _ P1 P2. cbn [map]. eapply keepP_trans; eauto.
Qed.

Lemma nack_each_law now wnow fz : forall ds st fr st' fr' w n,
  nack_each st ds now wnow fz fr = (st', fr', w, n) -> n = [] ->
  NoDup (map d_id ds) -> (forall c, In c ds -> In c (dels st)) ->
  forall c s, In c ds -> get_sub st (d_sub c) = Some s ->
    if full_dl s && (max_attempts_of s <=? d_attempts c)
    then In (d_set_completed wnow c) (dels st')
    else In (d_set_attempt_at (wnow + nackN s c + fuzz_of (d_id c) fz) c) (dels st') /\
         fuzz_legal (nackN s c) (fuzz_of (d_id c) fz) = true.
Proof.
  induction ds as [|d r IH]; intros st fr st' fr' w n H Hn Hd Hin c s Hc Hs; [destruct Hc|].
  cbn [nack_each] in H.
  destruct (get_sub st (d_sub d)) as [s0|] eqn:Es0; [|revert Hn; inversion H; subst; discriminate].
  cbv zeta in H.
  match type of H with context [match ?X with (_, _) => _ end] =>
    destruct X as [[[st1 fr1] w1] n1] eqn:E1 end.
  destruct (nack_each st1 r now wnow fz fr1) as [[[st2 fr2] w2] n2] eqn:E2.
  revert Hn. inversion H; subst. intros Hn. apply app_eq_nil in Hn. destruct Hn as [Hn1 Hn2].
  apply nack_one_evo in E1. destruct E1 as [S1 [I1 [V1 L1]]].
  cbn [map] in Hd. apply NoDup_cons_iff in Hd. destruct Hd as [Hnotin Hd'].
  destruct Hc as [<-|Hc].
  - rewrite Es0 in Hs. inversion Hs; subst s0.
    specialize (L1 (Hin d (or_introl eq_refl)) Hn1).
    apply nack_each_evo in E2. destruct E2 as [_ [_ [V2 _]]].
    assert (K : forall y, In y (dels st1) -> d_id y = d_id d -> In y (dels st')).
    { intros y Hy Ey. destruct (V2 y Hy) as [y' [Hy' [_ [_ Q]]]].
      rewrite (Q ltac:(rewrite Ey; exact Hnotin)) in Hy'. exact Hy'. }
    destruct (full_dl s && (max_attempts_of s <=? d_attempts d)).
    + apply K; [exact L1|reflexivity].
    + destruct L1 as [L1 L2]. split; [|exact L2]. apply K; [exact L1|reflexivity].
  - assert (Hin1 : forall c0, In c0 r -> In c0 (dels st1)).
    { intros c0 Hc0. destruct V1 as [V1 _].
      destruct (V1 c0 (Hin c0 (or_intror Hc0))) as [y [Hy [_ [_ Q]]]].
      rewrite Q in Hy; [exact Hy|].
      intros [E|[]]. apply Hnotin. rewrite E. apply in_map. exact Hc0. }
    apply (IH st1 fr1 st' fr' w2 n2 E2 Hn2 Hd' Hin1 c s Hc).
    unfold get_sub in *. rewrite S1. exact Hs.
Qed.

(* ---- apply_results: an induction principle following its case structure ---- *)
Section AR.
  Variables (s : sub) (strict : bool) (maxb : Z) (now wnow : time) (fz : fuzzes).
  Definition nomL (d : del) : Z := nominal_delay (s_minb s) (s_maxb s) (d_attempts d + 1).
  Definition leaseL (d x : del) : del := d_lease wnow (wnow + nomL d + fuzz_of (d_id d) fz) x.
  Definition lease_note (d : del) : notes :=
    if fuzz_legal (nomL d) (fuzz_of (d_id d) fz) then [] else ["illegal-fuzz"%string].
  Definition lease_state (st : state) (d : del) : state :=
    set_dels st (upd_where (fun x => N.eqb (d_id x) (d_id d)) (leaseL d) (dels st)).
  Definition dl_cond (d : del) : bool := full_dl s && (max_attempts_of s <=? d_attempts d).

  Variable Q : list del -> state -> fresh_dels -> state -> fresh_dels -> list pulled -> notes -> Prop.
  Hypothesis Q_nil : forall st fr, Q [] st fr st fr [] [].
  Hypothesis Q_missing : forall d r st fr, Q (d :: r) st fr st fr [] ["pull-message-missing"%string].
  Hypothesis Q_skip : forall d r st fr st' fr' ps n,
    Q r st fr st' fr' ps n -> Q (d :: r) st fr st' fr' ps n.
  Hypothesis Q_dl : forall d r dlt st fr st1 fr1 w1 n1 st' fr' ps w2 n2 bytes,
    dl_cond d = true ->
    dead_letter st d dlt wnow fr = (st1, fr1, w1, n1) ->
    apply_results st1 s r false strict bytes maxb now wnow fz fr1 = (st', fr', ps, w2, n2) ->
    Q r st1 fr1 st' fr' ps n2 -> Q (d :: r) st fr st' fr' ps (n1 ++ n2).
  Hypothesis Q_lease : forall d r p st fr st' fr' ps w2 n2 bytes,
    dl_cond d = false -> p_ack p = d_id d -> p_attempt p = d_attempts d + 1 ->
    apply_results (lease_state st d) s r false strict bytes maxb now wnow fz fr = (st', fr', ps, w2, n2) ->
    Q r (lease_state st d) fr st' fr' ps n2 ->
    Q (d :: r) st fr st' fr' (p :: ps) (lease_note d ++ n2).

  Lemma AR_ind : forall cands st first bytes fr st' fr' ps w n,
    apply_results st s cands first strict bytes maxb now wnow fz fr = (st', fr', ps, w, n) ->
    Q cands st fr st' fr' ps n.
  Proof.
    induction cands as [|d r IH]; intros st first bytes fr st' fr' ps w n H; cbn [apply_results] in H.
    - inversion H; subst. apply Q_nil.
    - destruct (get_msg st (d_msg d)) as [m|]; [|inversion H; subst; apply Q_missing].
      destruct ((strict || negb first) && (maxb <? bytes + m_size m)).
      + apply Q_skip. eapply IH. exact H.
      + destruct (full_dl s && (max_attempts_of s <=? d_attempts d)) eqn:Ec.
        * assert (Ef := Ec). apply andb_true_iff in Ef. destruct Ef as [Ef _].
          destruct (full_dl_topic s Ef) as [dlt Edl]. rewrite Edl in H.
          destruct (dead_letter st d dlt wnow fr) as [[[st1 fr1] w1] n1] eqn:E1.
          destruct (apply_results st1 s r false strict bytes maxb now wnow fz fr1)
            as [[[[st2 fr2] ps2] w2] n2] eqn:E2.
          inversion H; subst.
          eapply Q_dl; [exact Ec|exact E1|exact E2|]. eapply IH. exact E2.
        * cbv zeta in H.
          change (d_lease wnow (wnow + nominal_delay (s_minb s) (s_maxb s) (d_attempts d + 1) +
                                fuzz_of (d_id d) fz)) with (leaseL d) in H.
          change (set_dels st (upd_where (fun x => N.eqb (d_id x) (d_id d)) (leaseL d) (dels st)))
            with (lease_state st d) in H.
          destruct (apply_results (lease_state st d) s r false strict (bytes + m_size m) maxb now wnow fz fr)
            as [[[[st2 fr2] ps2] w2] n2] eqn:E2.
          inversion H; subst.
          eapply Q_lease; [exact Ec|reflexivity|reflexivity|exact E2|]. eapply IH. exact E2.
  Qed.
End AR.

(* ---- what a pull does to the rows ---- *)
Definition PullR (wnow : time) (C : list id) (ps : list pulled) (x x' : del) : Prop :=
  (~ In (d_id x) C -> x' = x) /\
  d_attempts x' = d_attempts x + Z.of_nat (count_occ N.eq_dec (map p_ack ps) (d_id x)) /\
  (d_attempt_at x' = d_attempt_at x \/ (In (d_id x) C /\ wnow - float_tol <= d_attempt_at x')).

Lemma PullR_nil wnow C x : PullR wnow C [] x x.
Proof.
  split; [reflexivity|]. split; [cbn; lia|left; reflexivity].
Qed.

Lemma PullR_skip wnow i C ps x x' : PullR wnow C ps x x' -> PullR wnow (i :: C) ps x x'.
Proof.
  intros [A [B Cc]]. split; [intros Hn; apply A; intros Hi; apply Hn; right; exact Hi|].
  split; [exact B|]. destruct Cc as [Cc|[Ci Cc]]; [left; exact Cc|right; split; [right; exact Ci|exact Cc]].
Qed.

Lemma PullR_dl wnow d C ps x x1 x' :
  d_id x1 = d_id x -> DL (d_id d) wnow x x1 -> PullR wnow C ps x1 x' ->
  PullR wnow (d_id d :: C) ps x x'.
Proof.
  intros He HD [A [B Cc]]. unfold DL in HD.
  assert (Ha : d_attempts x1 = d_attempts x /\ d_attempt_at x1 = d_attempt_at x).
  { subst x1. destruct (N.eqb (d_id x) (d_id d)); split; reflexivity. }
  destruct Ha as [Ha1 Ha2]. split.
  - intros Hn. destruct (N.eqb (d_id x) (d_id d)) eqn:E.
    + exfalso. apply Hn. left. apply N.eqb_eq in E. congruence.
    + subst x1. apply A. intros Hi. apply Hn. right. exact Hi.
  - split; [rewrite B, Ha1, He; reflexivity|].
    destruct Cc as [Cc|[Ci Cc]]; [left; congruence|].
    right. split; [right; rewrite <- He; exact Ci|exact Cc].
Qed.

Lemma PullR_lease s wnow fz d p C ps x x1 x' :
  p_ack p = d_id d -> d_id x1 = d_id x ->
  x1 = (if N.eqb (d_id x) (d_id d) then leaseL s wnow fz d x else x) ->
  fuzz_legal (nomL s d) (fuzz_of (d_id d) fz) = true ->
  PullR wnow C ps x1 x' -> PullR wnow (d_id d :: C) (p :: ps) x x'.
Proof.
  intros Hp He Hx1 Hf [A [B Cc]]. unfold PullR. cbn [map]. rewrite Hp.
  destruct (N.eqb (d_id x) (d_id d)) eqn:E.
  - apply N.eqb_eq in E. split; [intros Hn; exfalso; apply Hn; left; congruence|].
    assert (Ha : d_attempts x1 = d_attempts x + 1 /\ wnow - float_tol <= d_attempt_at x1).
    { subst x1. unfold leaseL. cbn [d_lease d_attempts d_attempt_at]. split; [reflexivity|].
      apply fuzz_legal_bounds in Hf. pose proof (nominal_delay_nonneg (s_minb s) (s_maxb s) (d_attempts d + 1)).
      unfold nomL. lia. }
    destruct Ha as [Ha1 Ha2]. split.
    + rewrite count_occ_cons_eq by congruence. rewrite B, Ha1, He, Nat2Z.inj_succ. unfold State.id. lia.
    + right. split; [left; congruence|]. destruct Cc as [Cc|[_ Cc]]; [rewrite Cc; exact Ha2|exact Cc].
  - apply N.eqb_neq in E. subst x1.
    split; [intros Hn; apply A; intros Hi; apply Hn; right; exact Hi|]. split.
    + rewrite count_occ_cons_neq by congruence. exact B.
    + destruct Cc as [Cc|[Ci Cc]]; [left; exact Cc|right; split; [right; exact Ci|exact Cc]].
Qed.

Lemma lease_note_nil s fz d n2 :
  lease_note s fz d ++ n2 = [] -> fuzz_legal (nomL s d) (fuzz_of (d_id d) fz) = true /\ n2 = [].
Proof.
  intros H. apply app_eq_nil in H. destruct H as [H1 H2]. split; [|exact H2].
  unfold lease_note in H1. destruct (fuzz_legal (nomL s d) (fuzz_of (d_id d) fz)); [reflexivity|discriminate].
Qed.

Lemma lease_state_evo s wnow fz st d F :
  evo (fun x x' => x' = if N.eqb (d_id x) (d_id d) then leaseL s wnow fz d x else x) F
      (dels st) (dels (lease_state s wnow fz st d)).
Proof.
  unfold lease_state. cbn [set_dels dels].
  apply (evo_upd F (fun x => N.eqb (d_id x) (d_id d)) (leaseL s wnow fz d)). reflexivity.
Qed.

Lemma AR_evo s strict maxb now wnow fz cands st first bytes fr st' fr' ps w n :
  apply_results st s cands first strict bytes maxb now wnow fz fr = (st', fr', ps, w, n) -> n = [] ->
  subs st' = subs st /\ incl (fids fr') (fids fr) /\
  evo (PullR wnow (map d_id cands) ps) (fids fr) (dels st) (dels st').
Proof.
  intros H.
  refine (AR_ind s strict maxb now wnow fz
    (fun cands st fr st' fr' ps n => n = [] ->
       subs st' = subs st /\ incl (fids fr') (fids fr) /\
       evo (PullR wnow (map d_id cands) ps) (fids fr) (dels st) (dels st'))
    _ _ _ _ _ cands st first bytes fr st' fr' ps w n H); clear.
  - intros st fr _. split; [reflexivity|]. split; [apply incl_refl|].
    apply evo_refl. intros x. apply PullR_nil.
  - intros; discriminate.
  - intros d r st fr st' fr' ps n IHQ Hn. destruct (IHQ Hn) as [S1 [I1 V1]].
    split; [exact S1|]. split; [exact I1|].
    eapply evo_mono; [exact V1| |apply incl_refl]. intros x x' _ HP. cbn [map]. apply PullR_skip. exact HP.
  - intros d r dlt st fr st1 fr1 w1 n1 st' fr' ps w2 n2 bytes _ E1 _ IHQ Hn.
    apply app_eq_nil in Hn. destruct Hn as [_ Hn2].
    apply dead_letter_evo in E1. destruct E1 as [S1 [I1 V1]].
    destruct (IHQ Hn2) as [S2 [I2 V2]].
    split; [congruence|]. split; [eapply incl_tran; eauto|].
    eapply evo_trans; [exact V1|eapply evo_F_mono; eauto|].
    intros x x1 x2 E1 _ P1 P2. cbn [map]. eapply PullR_dl; eauto.
  - intros d r p st fr st' fr' ps w2 n2 bytes _ Hp _ _ IHQ Hn.
    apply lease_note_nil in Hn. destruct Hn as [Hf Hn2].
    destruct (IHQ Hn2) as [S2 [I2 V2]].
    split; [exact S2|]. split; [exact I2|].
    eapply evo_trans; [apply lease_state_evo|exact V2|].
    intros x x1 x2 E1 _ P1 P2. cbn [map]. cbv beta in P1.
    eapply (PullR_lease s wnow fz d p (map d_id r) ps x x1 x2 Hp E1 P1 Hf P2).
Qed.

(* the acks handed out are distinct ids of candidates *)
Lemma AR_acks s strict maxb now wnow fz cands st first bytes fr st' fr' ps w n :
  apply_results st s cands first strict bytes maxb now wnow fz fr = (st', fr', ps, w, n) ->
  NoDup (map d_id cands) ->
  NoDup (map p_ack ps) /\ incl (map p_ack ps) (map d_id cands).
Proof.
  intros H.
  refine (AR_ind s strict maxb now wnow fz
    (fun cands st fr st' fr' ps n => NoDup (map d_id cands) ->
       NoDup (map p_ack ps) /\ incl (map p_ack ps) (map d_id cands))
    _ _ _ _ _ cands st first bytes fr st' fr' ps w n H); clear.
  - intros _ _ _. split; [constructor|apply incl_refl].
  - intros d r _ _ _. split; [constructor|]. intros x [].
  - intros d r _ _ _ _ ps _ IHQ Hd. cbn [map] in *. apply NoDup_cons_iff in Hd.
    destruct (IHQ (proj2 Hd)) as [A B]. split; [exact A|]. apply incl_tl. exact B.
  - intros d r _ _ _ _ _ _ _ _ _ ps _ _ _ _ _ _ IHQ Hd. cbn [map] in *. apply NoDup_cons_iff in Hd.
    destruct (IHQ (proj2 Hd)) as [A B]. split; [exact A|]. apply incl_tl. exact B.
  - intros d r p _ _ _ _ ps _ _ _ _ Hp _ _ IHQ Hd. cbn [map] in *. apply NoDup_cons_iff in Hd.
    destruct Hd as [Hn Hd]. destruct (IHQ Hd) as [A B]. rewrite Hp. split.
    + constructor; [|exact A]. intros Hi. apply Hn. apply B. exact Hi.
    + intros y [Hy|Hy]; [left; exact Hy|right; apply B; exact Hy].
Qed.

(* each returned message is a candidate, leased exactly once *)
Lemma AR_lease s strict maxb now wnow fz cands st first bytes fr st' fr' ps w n :
  apply_results st s cands first strict bytes maxb now wnow fz fr = (st', fr', ps, w, n) ->
  n = [] -> NoDup (map d_id cands) -> (forall c, In c cands -> In c (dels st)) ->
  forall p, In p ps -> exists c, In c cands /\ p_ack p = d_id c /\ p_attempt p = d_attempts c + 1 /\
    In (leaseL s wnow fz c c) (dels st') /\ fuzz_legal (nomL s c) (fuzz_of (d_id c) fz) = true /\
    dl_cond s c = false.
Proof.
  intros H.
  refine (AR_ind s strict maxb now wnow fz
    (fun cands st fr st' fr' ps n =>
       n = [] -> NoDup (map d_id cands) -> (forall c, In c cands -> In c (dels st)) ->
       forall p, In p ps -> exists c, In c cands /\ p_ack p = d_id c /\ p_attempt p = d_attempts c + 1 /\
         In (leaseL s wnow fz c c) (dels st') /\ fuzz_legal (nomL s c) (fuzz_of (d_id c) fz) = true /\
         dl_cond s c = false)
    _ _ _ _ _ cands st first bytes fr st' fr' ps w n H); clear.
  - intros _ _ _ _ _ p [].
  - intros _ _ _ _ _ _ _ p [].
  - intros d r st fr st' fr' ps n IHQ Hn Hd Hin p Hp. cbn [map] in Hd. apply NoDup_cons_iff in Hd.
    destruct (IHQ Hn (proj2 Hd) (fun c Hc => Hin c (or_intror Hc)) p Hp) as [c [Hc R]].
    exists c. split; [right; exact Hc|exact R].
  - intros d r dlt st fr st1 fr1 w1 n1 st' fr' ps w2 n2 bytes _ E1 _ IHQ Hn Hd Hin p Hp.
    apply app_eq_nil in Hn. destruct Hn as [_ Hn2].
    cbn [map] in Hd. apply NoDup_cons_iff in Hd. destruct Hd as [Hnot Hd].
    apply dead_letter_evo in E1. destruct E1 as [_ [_ [V1 _]]].
    assert (Hin1 : forall c, In c r -> In c (dels st1)).
    { intros c Hc. destruct (V1 c (Hin c (or_intror Hc))) as [y [Hy [_ HD]]].
      unfold DL in HD. destruct (N.eqb (d_id c) (d_id d)) eqn:E.
      - exfalso. apply Hnot. apply N.eqb_eq in E. rewrite <- E. apply in_map. exact Hc.
      - subst y. exact Hy. }
    destruct (IHQ Hn2 Hd Hin1 p Hp) as [c [Hc R]].
    exists c. split; [right; exact Hc|exact R].
  - intros d r p st fr st' fr' ps w2 n2 bytes Ec Hpa Hpt E2 IHQ Hn Hd Hin p0 Hp0.
    apply lease_note_nil in Hn. destruct Hn as [Hf Hn2].
    cbn [map] in Hd. apply NoDup_cons_iff in Hd. destruct Hd as [Hnot Hd].
    pose proof (lease_state_evo s wnow fz st d []) as [V1 _].
    destruct Hp0 as [<-|Hp0].
    + exists d. split; [left; reflexivity|]. split; [exact Hpa|]. split; [exact Hpt|].
      split; [|split; [exact Hf|exact Ec]].
      destruct (V1 d (Hin d (or_introl eq_refl))) as [y [Hy [_ Ey]]].
      rewrite N.eqb_refl in Ey. subst y.
      apply AR_evo in E2; [|exact Hn2]. destruct E2 as [_ [_ [V2 _]]].
      destruct (V2 _ Hy) as [y' [Hy' [_ [Fr _]]]].
      rewrite Fr in Hy'; [exact Hy'|]. exact Hnot.
    + assert (Hin1 : forall c, In c r -> In c (dels (lease_state s wnow fz st d))).
      { intros c Hc. destruct (V1 c (Hin c (or_intror Hc))) as [y [Hy [_ Ey]]].
        destruct (N.eqb (d_id c) (d_id d)) eqn:E.
        - exfalso. apply Hnot. apply N.eqb_eq in E. rewrite <- E. apply in_map. exact Hc.
        - subst y. exact Hy. }
      destruct (IHQ Hn2 Hd Hin1 p0 Hp0) as [c [Hc R]].
      exists c. split; [right; exact Hc|exact R].
Qed.
