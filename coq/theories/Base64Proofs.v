(* Base64Proofs.v -- proofs about the Base64 model. *)
From MB Require Import Base Base64.
Require Import ZifyN ZifyNat ZifyBool.
Local Ltac Zify.zify_post_hook ::= Z.div_mod_to_equations.
Open Scope N_scope.

(* ---- finite sweeps over the 64 six-bit values ---- *)

Definition sixbits : list N := map N.of_nat (seq 0 64).

Lemma in_sixbits : forall v, v < 64 -> In v sixbits.
Proof.
  intros v Hv. unfold sixbits. rewrite <- (N2Nat.id v). apply in_map.
  apply in_seq. lia.
Qed.

Lemma sweep : forall (p : N -> bool), forallb p sixbits = true -> forall v, v < 64 -> p v = true.
Proof.
  intros p H v Hv. rewrite forallb_forall in H. apply H. apply in_sixbits. exact Hv.
Qed.

Definition opt_N_eqb (a b : option N) : bool := opt_eqb N.eqb a b.

Lemma opt_N_eqb_eq : forall a b, opt_N_eqb a b = true -> a = b.
Proof.
  intros [a|] [b|]; cbn; intros H; try discriminate; auto.
  apply N.eqb_eq in H. subst. reflexivity.
Qed.

Theorem val_char : forall v, v < 64 -> b64_val (b64_char v) = Some v.
Proof.
  intros v Hv. apply opt_N_eqb_eq.
  apply (sweep (fun v => opt_N_eqb (b64_val (b64_char v)) (Some v)));
    [vm_compute; reflexivity | exact Hv].
Qed.

Lemma b64_val_pad : b64_val pad = None.
Proof. vm_compute. reflexivity. Qed.

Lemma char_not_pad : forall v, b64_char v <> pad.
Proof.
  intros v. unfold b64_char, pad.
  destruct (N.ltb_spec v 26); [lia|].
  destruct (N.ltb_spec v 52); [lia|].
  destruct (N.ltb_spec v 62); [lia|].
  destruct (N.eqb_spec v 62); lia.
Qed.

Lemma char_ge64 : forall v, 64 <= v -> b64_char v = 47.
Proof.
  intros v Hv. unfold b64_char.
  destruct (N.ltb_spec v 26); [lia|].
  destruct (N.ltb_spec v 52); [lia|].
  destruct (N.ltb_spec v 62); [lia|].
  destruct (N.eqb_spec v 62); [lia|]. reflexivity.
Qed.

Theorem char_alphabet : forall v, in_alphabet (b64_char v) = true.
Proof.
  intros v. destruct (N.lt_ge_cases v 64) as [H|H].
  - unfold in_alphabet. rewrite val_char by exact H. reflexivity.
  - rewrite char_ge64 by exact H. vm_compute. reflexivity.
Qed.

Lemma pad_not_alphabet : in_alphabet pad = false.
Proof. vm_compute. reflexivity. Qed.

Lemma char_not_newline : forall v, is_newline (b64_char v) = false.
Proof.
  intros v. destruct (N.lt_ge_cases v 64) as [H|H].
  - apply negb_true_iff.
    apply (sweep (fun v => negb (is_newline (b64_char v))));
      [vm_compute; reflexivity | exact H].
  - rewrite char_ge64 by exact H. vm_compute. reflexivity.
Qed.

Ltac nb :=
  repeat (match goal with
          | |- context [?a <? ?b] => destruct (N.ltb_spec a b)
          | |- context [?a <=? ?b] => destruct (N.leb_spec a b)
          | |- context [?a =? ?b] => destruct (N.eqb_spec a b)
          end; cbn [andb orb]).

Theorem b64_val_lt64 : forall c v, b64_val c = Some v -> v < 64.
Proof.
  intros c v. unfold b64_val. nb; intros Hx; try discriminate; inversion Hx; lia.
Qed.

(* b64_char is the inverse of b64_val on the alphabet *)
Theorem char_val : forall c v, b64_val c = Some v -> b64_char v = c.
Proof.
  intros c v. unfold b64_val.
  nb; intros Hx; try discriminate; inversion Hx; subst v; clear Hx;
    unfold b64_char; nb; lia.
Qed.

(* ---- group lemmas ---- *)

Lemma group3 : forall a b c, a < 256 -> b < 256 -> c < 256 ->
  dec_full (b64_char (a / 4)) (b64_char ((a mod 4) * 16 + b / 16))
           (b64_char ((b mod 16) * 4 + c / 64)) (b64_char (c mod 64)) = Some [a; b; c].
Proof.
  intros a b c Ha Hb Hc. unfold dec_full.
  rewrite !val_char by lia.
  f_equal. f_equal; [lia|]. f_equal; [lia|]. f_equal. lia.
Qed.

Lemma group2 : forall a b, a < 256 -> b < 256 ->
  dec_last (b64_char (a / 4)) (b64_char ((a mod 4) * 16 + b / 16))
           (b64_char ((b mod 16) * 4)) pad = Some [a; b].
Proof.
  intros a b Ha Hb. unfold dec_last.
  rewrite N.eqb_refl.
  destruct (N.eqb_spec (b64_char ((b mod 16) * 4)) pad) as [E|_];
    [exfalso; exact (char_not_pad _ E)|].
  rewrite !val_char by lia.
  f_equal. f_equal; [lia|]. f_equal. lia.
Qed.

Lemma group1 : forall a, a < 256 ->
  dec_last (b64_char (a / 4)) (b64_char ((a mod 4) * 16)) pad pad = Some [a].
Proof.
  intros a Ha. unfold dec_last. rewrite N.eqb_refl.
  rewrite !val_char by lia.
  f_equal. f_equal. lia.
Qed.

Lemma dec_last_nopad : forall c0 c1 c2 c3, c3 <> pad ->
  dec_last c0 c1 c2 c3 = dec_full c0 c1 c2 c3.
Proof.
  intros c0 c1 c2 c3 H. unfold dec_last.
  destruct (N.eqb_spec c3 pad); [contradiction|reflexivity].
Qed.

Lemma decode_cons4 : forall c0 c1 c2 c3 r, c3 <> pad ->
  decode (c0 :: c1 :: c2 :: c3 :: r) =
  match dec_full c0 c1 c2 c3, decode r with
  | Some g, Some t => Some (g ++ t)%list
  | _, _ => None
  end.
Proof.
  intros c0 c1 c2 c3 r H. destruct r as [|x r].
  - cbn [decode]. rewrite dec_last_nopad by exact H.
    destruct (dec_full c0 c1 c2 c3); [rewrite app_nil_r|]; reflexivity.
  - reflexivity.
Qed.

(* ---- induction in steps of three ---- *)

Lemma list_ind3 : forall (A : Type) (P : list A -> Prop),
  P [] -> (forall a, P [a]) -> (forall a b, P [a; b]) ->
  (forall a b c r, P r -> P (a :: b :: c :: r)) ->
  forall l, P l.
Proof.
  intros A P H0 H1 H2 H3 l.
  assert (H : P l /\ (forall a, P (a :: l)) /\ (forall a b, P (a :: b :: l))).
  { induction l as [|x l (IH0 & IH1 & IH2)].
    - repeat split; auto.
    - repeat split; auto. }
  apply H.
Qed.

(* ---- main theorems ---- *)

Theorem decode_encode : forall bs, Forall (fun b => b < 256) bs ->
  decode (encode bs) = Some bs.
Proof.
  intros bs. pattern bs. apply list_ind3; clear bs.
  - reflexivity.
  - intros a H. inversion H; subst. cbn [encode decode]. apply group1; auto.
  - intros a b H. inversion H as [|? ? Ha H']; subst. inversion H' as [|? ? Hb _]; subst.
    cbn [encode decode]. apply group2; auto.
  - intros a b c r IH H.
    inversion H as [|? ? Ha H1]; subst. inversion H1 as [|? ? Hb H2]; subst.
    inversion H2 as [|? ? Hc H3]; subst.
    cbn [encode]. rewrite decode_cons4 by apply char_not_pad.
    rewrite group3 by assumption. rewrite IH by assumption. reflexivity.
Qed.

Theorem encode_inj : forall bs bs',
  Forall (fun b => b < 256) bs -> Forall (fun b => b < 256) bs' ->
  encode bs = encode bs' -> bs = bs'.
Proof.
  intros bs bs' H H' E. apply decode_encode in H. apply decode_encode in H'.
  rewrite E in H. rewrite H in H'. inversion H'. reflexivity.
Qed.

Theorem encode_length : forall bs,
  (length (encode bs) = 4 * ((length bs + 2) / 3))%nat.
Proof.
  intros bs. pattern bs. apply list_ind3; clear bs.
  - reflexivity.
  - intros; reflexivity.
  - intros; reflexivity.
  - intros a b c r IH. cbn [encode length]. rewrite IH. lia.
Qed.

Theorem encode_alphabet : forall bs,
  Forall (fun c => in_alphabet c = true \/ c = pad) (encode bs).
Proof.
  intros bs. pattern bs. apply list_ind3; clear bs.
  - constructor.
  - intros a. cbn [encode].
    repeat (apply Forall_cons; [first [left; apply char_alphabet | right; reflexivity]|]).
    constructor.
  - intros a b. cbn [encode].
    repeat (apply Forall_cons; [first [left; apply char_alphabet | right; reflexivity]|]).
    constructor.
  - intros a b c r IH. cbn [encode].
    repeat (apply Forall_cons; [left; apply char_alphabet|]). exact IH.
Qed.

(* padding occurs only in the last two positions: stated as "the encoding of
   a whole number of 3-byte groups contains no padding" *)
Theorem encode_no_pad_mod3 : forall bs, (length bs mod 3 = 0)%nat ->
  Forall (fun c => in_alphabet c = true) (encode bs).
Proof.
  intros bs. pattern bs. apply list_ind3; clear bs.
  - constructor.
  - intros a H. cbn in H. discriminate.
  - intros a b H. cbn in H. discriminate.
  - intros a b c r IH H. cbn [encode].
    repeat (apply Forall_cons; [apply char_alphabet|]). apply IH.
    cbn [length] in H. lia.
Qed.

Lemma encode_no_newline : forall bs,
  filter (fun c => negb (is_newline c)) (encode bs) = encode bs.
Proof.
  assert (Hp : is_newline pad = false) by (vm_compute; reflexivity).
  intros bs. pattern bs. apply list_ind3; clear bs.
  - reflexivity.
  - intros a. cbn [encode filter]. rewrite !char_not_newline, Hp. reflexivity.
  - intros a b. cbn [encode filter]. rewrite !char_not_newline, Hp. reflexivity.
  - intros a b c r IH. cbn [encode filter]. rewrite !char_not_newline.
    cbn [negb]. rewrite IH. reflexivity.
Qed.

Theorem decode_go_encode : forall bs, Forall (fun b => b < 256) bs ->
  decode_go (encode bs) = Some bs.
Proof.
  intros bs H. unfold decode_go. rewrite encode_no_newline. apply decode_encode. exact H.
Qed.

(* decoding yields bytes *)
Lemma dec_full_bytes : forall c0 c1 c2 c3 g, dec_full c0 c1 c2 c3 = Some g ->
  Forall (fun b => b < 256) g /\ length g = 3%nat.
Proof.
  intros c0 c1 c2 c3 g. unfold dec_full.
  destruct (b64_val c0) as [v0|] eqn:E0; [|discriminate].
  destruct (b64_val c1) as [v1|] eqn:E1; [|discriminate].
  destruct (b64_val c2) as [v2|] eqn:E2; [|discriminate].
  destruct (b64_val c3) as [v3|] eqn:E3; [|discriminate].
  apply b64_val_lt64 in E0, E1, E2, E3.
  intros H; inversion H; subst; clear H. split; [|reflexivity].
  repeat constructor; lia.
Qed.

Lemma dec_last_bytes : forall c0 c1 c2 c3 g, dec_last c0 c1 c2 c3 = Some g ->
  Forall (fun b => b < 256) g /\ (1 <= length g <= 3)%nat.
Proof.
  intros c0 c1 c2 c3 g. unfold dec_last.
  destruct (c3 =? pad).
  - destruct (c2 =? pad).
    + destruct (b64_val c0) as [v0|] eqn:E0; [|discriminate].
      destruct (b64_val c1) as [v1|] eqn:E1; [|discriminate].
      apply b64_val_lt64 in E0, E1.
      intros H; inversion H; subst; clear H. split; [|cbn; lia].
      repeat constructor; lia.
    + destruct (b64_val c0) as [v0|] eqn:E0; [|discriminate].
      destruct (b64_val c1) as [v1|] eqn:E1; [|discriminate].
      destruct (b64_val c2) as [v2|] eqn:E2; [|discriminate].
      apply b64_val_lt64 in E0, E1, E2.
      intros H; inversion H; subst; clear H. split; [|cbn; lia].
      repeat constructor; lia.
  - intros H. apply dec_full_bytes in H. destruct H as [H1 H2]. split; auto. lia.
Qed.

Lemma list_ind4 : forall (A : Type) (P : list A -> Prop),
  P [] -> (forall a, P [a]) -> (forall a b, P [a; b]) -> (forall a b c, P [a; b; c]) ->
  (forall a b c d r, P r -> P (a :: b :: c :: d :: r)) ->
  forall l, P l.
Proof.
  intros A P H0 H1 H2 H3 H4 l.
  assert (H : P l /\ (forall a, P (a :: l)) /\ (forall a b, P (a :: b :: l)) /\
              (forall a b c, P (a :: b :: c :: l))).
  { induction l as [|x l (IH0 & IH1 & IH2 & IH3)].
    - repeat split; auto.
    - repeat split; auto. }
  apply H.
Qed.

Theorem decode_bytes : forall cs bs, decode cs = Some bs ->
  Forall (fun b => b < 256) bs.
Proof.
  intros cs. pattern cs. apply list_ind4; clear cs.
  - intros bs H. inversion H. constructor.
  - intros a bs H. discriminate.
  - intros a b bs H. discriminate.
  - intros a b c bs H. discriminate.
  - intros c0 c1 c2 c3 r IH bs H. destruct r as [|x r].
    + cbn [decode] in H. apply dec_last_bytes in H. apply H.
    + change (match dec_full c0 c1 c2 c3, decode (x :: r) with
              | Some g, Some t => Some (g ++ t)%list
              | _, _ => None
              end = Some bs) in H.
      destruct (dec_full c0 c1 c2 c3) as [g|] eqn:Eg; [|discriminate].
      destruct (decode (x :: r)) as [t|] eqn:Et; [|discriminate].
      inversion H; subst. apply Forall_app. split.
      * apply dec_full_bytes in Eg. apply Eg.
      * apply IH. reflexivity.
Qed.

(* a successful strict decode consumed a multiple of four characters *)
Theorem decode_length_mod4 : forall cs bs, decode cs = Some bs ->
  (length cs mod 4 = 0)%nat.
Proof.
  intros cs. pattern cs. apply list_ind4; clear cs.
  - reflexivity.
  - intros a bs H. discriminate.
  - intros a b bs H. discriminate.
  - intros a b c bs H. discriminate.
  - intros c0 c1 c2 c3 r IH bs H. destruct r as [|x r].
    + reflexivity.
    + change (match dec_full c0 c1 c2 c3, decode (x :: r) with
              | Some g, Some t => Some (g ++ t)%list
              | _, _ => None
              end = Some bs) in H.
      destruct (dec_full c0 c1 c2 c3) as [g|]; [|discriminate].
      destruct (decode (x :: r)) as [t|] eqn:Et; [|discriminate].
      specialize (IH t eq_refl). cbn [length] in *. lia.
Qed.

(* ---- string level ---- *)

Lemma bytes_of_str_bounded : forall s, Forall (fun b => b < 256) (bytes_of_str s).
Proof.
  intros s. unfold bytes_of_str. apply Forall_forall. intros b Hb.
  apply in_map_iff in Hb. destruct Hb as (a & <- & _). apply N_ascii_bounded.
Qed.

Lemma str_of_bytes_of_str : forall s, str_of_bytes (bytes_of_str s) = s.
Proof.
  intros s. unfold str_of_bytes, bytes_of_str. rewrite map_map.
  rewrite (map_ext _ (fun a => a)) by apply ascii_N_embedding.
  rewrite map_id. apply string_of_list_ascii_of_string.
Qed.

Lemma bytes_of_str_of_bytes : forall bs, Forall (fun b => b < 256) bs ->
  bytes_of_str (str_of_bytes bs) = bs.
Proof.
  intros bs H. unfold str_of_bytes, bytes_of_str.
  rewrite list_ascii_of_string_of_list_ascii, map_map.
  induction H as [|b bs Hb _ IH]; cbn [map]; [reflexivity|].
  rewrite IH. f_equal. apply N_ascii_embedding. exact Hb.
Qed.

Lemma encode_bounded : forall bs, Forall (fun c => c < 256) (encode bs).
Proof.
  intros bs. eapply Forall_impl; [|apply encode_alphabet].
  intros c [H|H].
  - unfold in_alphabet in H. destruct (b64_val c) as [v|] eqn:E; [|discriminate].
    pose proof (b64_val_lt64 c v E) as Hv. apply char_val in E. subst c.
    unfold b64_char.
    repeat match goal with
    | |- context [?a <? ?b] => destruct (N.ltb_spec a b)
    | |- context [?a =? ?b] => destruct (N.eqb_spec a b)
    end; lia.
  - subst c. reflexivity.
Qed.

Theorem b64decode_b64encode : forall s, b64decode (b64encode s) = Some s.
Proof.
  intros s. unfold b64decode, b64encode.
  rewrite bytes_of_str_of_bytes by apply encode_bounded.
  rewrite decode_encode by apply bytes_of_str_bounded.
  rewrite str_of_bytes_of_str. reflexivity.
Qed.
