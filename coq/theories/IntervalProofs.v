(* IntervalProofs.v -- proofs about the Interval codec model (C17). *)
From MB Require Import Base Interval.
From Coq Require Import ZifyN ZifyNat ZifyBool.
Ltac Zify.zify_post_hook ::= Z.div_mod_to_equations.
Open Scope string_scope.
Open Scope Z_scope.

(* ------------------------------------------------------------------ *)
(* constants                                                           *)
(* ------------------------------------------------------------------ *)

Lemma two63 : 2 ^ 63 = 9223372036854775808. Proof. reflexivity. Qed.
Lemma two64 : 2 ^ 64 = 18446744073709551616. Proof. reflexivity. Qed.

Ltac norm63 :=
  change (2 ^ 64) with 18446744073709551616 in *;
  change (2 ^ 63) with 9223372036854775808 in *.

(* ------------------------------------------------------------------ *)
(* strings                                                             *)
(* ------------------------------------------------------------------ *)

Lemma sapp_assoc (a b c : str) : (a ++ b) ++ c = a ++ (b ++ c).
Proof. induction a; cbn; congruence. Qed.

Lemma sapp_nil_r (a : str) : a ++ "" = a.
Proof. induction a; cbn; congruence. Qed.

Lemma sapp_cons c (a b : str) : String c a ++ b = String c (a ++ b).
Proof. reflexivity. Qed.

Lemma sapp_nil_l (a : str) : "" ++ a = a.
Proof. reflexivity. Qed.

Lemma slength_app (a b : str) :
  String.length (a ++ b) = (String.length a + String.length b)%nat.
Proof. induction a; cbn; congruence. Qed.

Lemma str_forallb_app p (a b : str) :
  str_forallb p (a ++ b) = str_forallb p a && str_forallb p b.
Proof. induction a; cbn; [reflexivity|]. rewrite IHa. apply andb_assoc. Qed.

Lemma str_forallb_impl (p q : ascii -> bool) s :
  (forall c, p c = true -> q c = true) ->
  str_forallb p s = true -> str_forallb q s = true.
Proof.
  intros H. induction s; cbn; [reflexivity|].
  rewrite !andb_true_iff. intros [? ?]. auto.
Qed.

(* ------------------------------------------------------------------ *)
(* digits                                                              *)
(* ------------------------------------------------------------------ *)

Lemma digit_char_ok d :
  0 <= d <= 9 -> is_digit (digit_char d) = true /\ digit_val (digit_char d) = d.
Proof.
  intros H.
  assert (d = 0 \/ d = 1 \/ d = 2 \/ d = 3 \/ d = 4 \/
          d = 5 \/ d = 6 \/ d = 7 \/ d = 8 \/ d = 9) as C by lia.
  repeat destruct C as [C | C]; subst; split; reflexivity.
Qed.

Ltac ascii_cases c := destruct c as [[] [] [] [] [] [] [] []]; vm_compute; congruence.

Lemma is_digit_not_dot c : is_digit c = true -> is_dot c = false.
Proof. ascii_cases c. Qed.

Lemma is_digit_not_sign c :
  is_digit c = true -> Ascii.eqb c "-"%char = false /\ Ascii.eqb c "+"%char = false.
Proof. destruct c as [[] [] [] [] [] [] [] []]; vm_compute; intuition congruence. Qed.

Lemma pow10_pos k : 0 < 10 ^ Z.of_nat k.
Proof. apply Z.pow_pos_nonneg; lia. Qed.

Lemma pow10_S k : 10 ^ Z.of_nat (S k) = 10 * 10 ^ Z.of_nat k.
Proof. rewrite Nat2Z.inj_succ, Z.pow_succ_r; lia. Qed.

Lemma split_digit k n :
  0 <= n < 10 ^ Z.of_nat (S k) ->
  0 <= n / 10 ^ Z.of_nat k <= 9 /\
  0 <= n mod 10 ^ Z.of_nat k < 10 ^ Z.of_nat k /\
  n = (n / 10 ^ Z.of_nat k) * 10 ^ Z.of_nat k + n mod 10 ^ Z.of_nat k.
Proof.
  rewrite pow10_S. pose proof (pow10_pos k) as Hp.
  generalize dependent (10 ^ Z.of_nat k). intros p Hp Hn.
  assert (0 <= n / p) by (apply Z.div_pos; lia).
  assert (n / p < 10) by (apply Z.div_lt_upper_bound; lia).
  pose proof (Z.mod_pos_bound n p Hp).
  pose proof (Z.div_mod n p ltac:(lia)).
  repeat split; lia.
Qed.

(* unfolding equations (avoid [simpl] on anything mentioning big constants) *)
Lemma pad_digits_S k n :
  pad_digits (S k) n =
  String (digit_char (n / 10 ^ Z.of_nat k)) (pad_digits k (n mod 10 ^ Z.of_nat k)).
Proof. reflexivity. Qed.

Lemma frac_digits_S k v :
  frac_digits (S k) v =
  if v =? 0 then ""
  else String (digit_char (v / 10 ^ Z.of_nat k)) (frac_digits k (v mod 10 ^ Z.of_nat k)).
Proof. reflexivity. Qed.

Lemma fmt_int_aux_S k n :
  fmt_int_aux (S k) n =
  if n <? 10 ^ Z.of_nat (S k) then fmt_int_aux k n else pad_digits (S (S k)) n.
Proof. reflexivity. Qed.

Lemma leading_int_cons x c s :
  leading_int x (String c s) =
  if is_digit c then
    if x >? 2 ^ 63 / 10 then None
    else if x * 10 + digit_val c >? 2 ^ 63 then None
         else leading_int (x * 10 + digit_val c) s
  else Some (x, String c s).
Proof. reflexivity. Qed.

Lemma leading_fraction_cons x sc c s :
  leading_fraction x sc false (String c s) =
  if is_digit c then
    if x >? (2 ^ 63 - 1) / 10 then leading_fraction x sc true s
    else if x * 10 + digit_val c >? 2 ^ 63 then leading_fraction x sc true s
         else leading_fraction (x * 10 + digit_val c) (sc * 10) false s
  else (x, sc, String c s).
Proof. reflexivity. Qed.

Lemma digits_val_cons x c s :
  digits_val x (String c s) = digits_val (x * 10 + digit_val c) s.
Proof. reflexivity. Qed.

Lemma span_digits_cons c s :
  span_digits (String c s) =
  if is_digit c then let (a, b) := span_digits s in (String c a, b) else ("", String c s).
Proof. reflexivity. Qed.

Lemma span_unit_cons c s :
  span_unit (String c s) =
  if is_dot c || is_digit c then ("", String c s)
  else let (u, r) := span_unit s in (String c u, r).
Proof. reflexivity. Qed.

(* [rest] does not begin with a digit *)
Definition no_digit_start (s : str) : Prop := starts_digit s = false.

Lemma leading_int_stop x s : no_digit_start s -> leading_int x s = Some (x, s).
Proof.
  unfold no_digit_start. destruct s as [|c s]; [reflexivity|]. cbn [starts_digit].
  intros H. rewrite leading_int_cons, H. reflexivity.
Qed.

Lemma span_digits_stop s : no_digit_start s -> span_digits s = ("", s).
Proof.
  unfold no_digit_start. destruct s as [|c s]; [reflexivity|]. cbn [starts_digit].
  intros H. rewrite span_digits_cons, H. reflexivity.
Qed.

(* ---- pad_digits ---- *)

Lemma pad_all_digits k : forall n,
  0 <= n < 10 ^ Z.of_nat k -> all_digits (pad_digits k n) = true.
Proof.
  induction k; intros n Hn; [reflexivity|].
  destruct (split_digit k n Hn) as (Hq & Hr & _).
  rewrite pad_digits_S. unfold all_digits in *. cbn [str_forallb].
  rewrite (proj1 (digit_char_ok _ Hq)), IHk by assumption. reflexivity.
Qed.

Lemma leading_int_pad k : forall x n rest,
  0 <= x -> 0 <= n < 10 ^ Z.of_nat k -> x * 10 ^ Z.of_nat k + n <= 2 ^ 63 ->
  leading_int x (pad_digits k n ++ rest) = leading_int (x * 10 ^ Z.of_nat k + n) rest.
Proof.
  induction k; intros x n rest Hx Hn Hb.
  - change (10 ^ Z.of_nat 0) with 1 in *. cbn [pad_digits]. rewrite sapp_nil_l.
    f_equal. lia.
  - destruct (split_digit k n Hn) as (Hq & Hr & He).
    rewrite pad_digits_S, sapp_cons, leading_int_cons.
    rewrite pow10_S in Hb. pose proof (pow10_pos k) as Hp.
    set (p := 10 ^ Z.of_nat k) in *. set (q := n / p) in *. set (r := n mod p) in *.
    destruct (digit_char_ok q Hq) as [Hd Hv]. rewrite Hd, Hv.
    norm63. change (9223372036854775808 / 10) with 922337203685477580.
    assert (Hb' : (x * 10 + q) * p + r <= 9223372036854775808) by lia.
    assert (x * 10 + q <= 9223372036854775808) by nia.
    destruct (Z.gtb_spec x 922337203685477580); [lia|].
    destruct (Z.gtb_spec (x * 10 + q) 9223372036854775808); [lia|].
    rewrite IHk by lia. f_equal. rewrite pow10_S. fold p. lia.
Qed.

Lemma digits_val_pad k : forall x n,
  0 <= n < 10 ^ Z.of_nat k ->
  digits_val x (pad_digits k n) = x * 10 ^ Z.of_nat k + n.
Proof.
  induction k; intros x n Hn.
  - change (10 ^ Z.of_nat 0) with 1 in *. cbn [pad_digits digits_val]. lia.
  - destruct (split_digit k n Hn) as (Hq & Hr & He).
    rewrite pad_digits_S, digits_val_cons, (proj2 (digit_char_ok _ Hq)).
    rewrite IHk by assumption. rewrite pow10_S. lia.
Qed.

(* ---- fmt_int ---- *)

Lemma fmt_int_aux_spec k : forall n,
  0 <= n < 10 ^ Z.of_nat (S k) ->
  all_digits (fmt_int_aux k n) = true /\
  starts_digit (fmt_int_aux k n) = true /\
  digits_val 0 (fmt_int_aux k n) = n /\
  (forall rest, n <= 2 ^ 63 ->
     leading_int 0 (fmt_int_aux k n ++ rest) = leading_int n rest).
Proof.
  induction k; intros n Hn.
  - change (10 ^ Z.of_nat 1) with 10 in Hn.
    assert (Hd : 0 <= n <= 9) by lia.
    destruct (digit_char_ok n Hd) as [H1 H2].
    cbn [fmt_int_aux all_digits str_forallb starts_digit digits_val].
    rewrite H1, H2. repeat split; try reflexivity.
    intros rest Hb. rewrite sapp_cons, sapp_nil_l, leading_int_cons, H1, H2.
    norm63. change (9223372036854775808 / 10) with 922337203685477580.
    change (0 * 10 + n) with n.
    destruct (Z.gtb_spec 0 922337203685477580); [lia|].
    destruct (Z.gtb_spec n 9223372036854775808); [lia|]. reflexivity.
  - rewrite fmt_int_aux_S. destruct (Z.ltb_spec n (10 ^ Z.of_nat (S k))).
    + apply IHk. lia.
    + assert (Hs : starts_digit (pad_digits (S (S k)) n) = true).
      { destruct (split_digit (S k) n Hn) as (Hq & _ & _).
        rewrite pad_digits_S. cbn [starts_digit]. apply (digit_char_ok _ Hq). }
      repeat split.
      * apply pad_all_digits; assumption.
      * assumption.
      * rewrite digits_val_pad by assumption. lia.
      * intros rest Hb. rewrite leading_int_pad by lia. f_equal.
Qed.

Definition u64ish (n : Z) : Prop := 0 <= n < 10 ^ 20.

Lemma fmt_int_all_digits n : u64ish n -> all_digits (fmt_int n) = true.
Proof. intros H. apply (fmt_int_aux_spec 19 n H). Qed.

Lemma fmt_int_starts_digit n : u64ish n -> starts_digit (fmt_int n) = true.
Proof. intros H. apply (fmt_int_aux_spec 19 n H). Qed.

Lemma fmt_int_digits_val n : u64ish n -> digits_val 0 (fmt_int n) = n.
Proof. intros H. apply (fmt_int_aux_spec 19 n H). Qed.

Lemma fmt_int_leading n rest :
  0 <= n <= 2 ^ 63 -> no_digit_start rest ->
  leading_int 0 (fmt_int n ++ rest) = Some (n, rest).
Proof.
  intros H Hr. assert (Hu : u64ish n) by (unfold u64ish; norm63; lia).
  destruct (fmt_int_aux_spec 19 n Hu) as (_ & _ & _ & L).
  unfold fmt_int. rewrite L by lia. apply leading_int_stop. assumption.
Qed.

Lemma starts_digit_app a b : starts_digit a = true -> starts_digit (a ++ b) = true.
Proof. destruct a; [discriminate|]. cbn. auto. Qed.

Lemma starts_digit_nonempty a : starts_digit a = true -> str_nonempty a = true.
Proof. destruct a; [discriminate|]. reflexivity. Qed.

Lemma starts_digit_length a : starts_digit a = true -> (1 <= String.length a)%nat.
Proof. destruct a; [discriminate|]. cbn. lia. Qed.

(* ------------------------------------------------------------------ *)
(* fractions                                                           *)
(* ------------------------------------------------------------------ *)

Lemma leading_fraction_stop x sc s :
  no_digit_start s -> leading_fraction x sc false s = (x, sc, s).
Proof.
  unfold no_digit_start. destruct s as [|c s]; [reflexivity|]. cbn [starts_digit].
  intros H. rewrite leading_fraction_cons, H. reflexivity.
Qed.

Lemma frac_digits_starts k v :
  0 <= v < 10 ^ Z.of_nat k -> v <> 0 -> starts_digit (frac_digits k v) = true.
Proof.
  destruct k; intros Hv Hn.
  - change (10 ^ Z.of_nat 0) with 1 in Hv. lia.
  - destruct (split_digit k v Hv) as (Hq & _ & _).
    rewrite frac_digits_S. destruct (Z.eqb_spec v 0); [contradiction|].
    cbn [starts_digit]. apply (digit_char_ok _ Hq).
Qed.

Lemma frac_digits_all_digits k : forall v,
  0 <= v < 10 ^ Z.of_nat k -> all_digits (frac_digits k v) = true.
Proof.
  induction k; intros v Hv; [reflexivity|].
  destruct (split_digit k v Hv) as (Hq & Hr & _).
  rewrite frac_digits_S. destruct (Z.eqb_spec v 0); [reflexivity|].
  unfold all_digits in *. cbn [str_forallb].
  rewrite (proj1 (digit_char_ok _ Hq)), IHk by assumption. reflexivity.
Qed.

(* parsing the trimmed expansion of v yields (f, sc') with f / sc' = v / 10^k
   exactly (when started from x = 0, sc = 1) *)
Lemma leading_fraction_frac k : forall x sc v rest,
  0 <= x -> 0 < sc -> 0 <= v < 10 ^ Z.of_nat k ->
  x * 10 ^ Z.of_nat k + v < 10 ^ 18 ->
  no_digit_start rest ->
  exists f sc',
    leading_fraction x sc false (frac_digits k v ++ rest) = (f, sc', rest) /\
    f * 10 ^ Z.of_nat k * sc = (x * 10 ^ Z.of_nat k + v) * sc' /\ 0 < sc'.
Proof.
  induction k; intros x sc v rest Hx Hsc Hv Hb Hrest.
  - change (10 ^ Z.of_nat 0) with 1 in *. cbn [frac_digits]. rewrite sapp_nil_l.
    exists x, sc. rewrite leading_fraction_stop by assumption.
    repeat split; lia.
  - rewrite frac_digits_S. destruct (Z.eqb_spec v 0) as [E|E].
    + subst v. rewrite sapp_nil_l. exists x, sc.
      rewrite leading_fraction_stop by assumption. repeat split; first [lia | ring].
    + destruct (split_digit k v Hv) as (Hq & Hr & He).
      rewrite sapp_cons, leading_fraction_cons.
      rewrite pow10_S in Hb. rewrite pow10_S. pose proof (pow10_pos k) as Hp.
      set (p := 10 ^ Z.of_nat k) in *. set (q := v / p) in *. set (r := v mod p) in *.
      destruct (digit_char_ok q Hq) as [Hd Hdv]. rewrite Hd, Hdv.
      change (10 ^ 18) with 1000000000000000000 in *.
      norm63. change ((9223372036854775808 - 1) / 10) with 922337203685477580.
      assert (Hb' : (x * 10 + q) * p + r < 1000000000000000000) by lia.
      assert (x * 10 + q < 1000000000000000000) by nia.
      destruct (Z.gtb_spec x 922337203685477580); [lia|].
      destruct (Z.gtb_spec (x * 10 + q) 9223372036854775808); [lia|].
      destruct (IHk (x * 10 + q) (sc * 10) r rest) as (f & sc' & E1 & E2 & E3);
        try assumption; try lia.
      exists f, sc'. split; [exact E1|]. split; [|exact E3].
      replace (x * (10 * p) + v) with ((x * 10 + q) * p + r) by lia.
      rewrite <- E2. ring.
Qed.

(* ------------------------------------------------------------------ *)
(* one "<int>[.<frac>]<unit>" segment of the ParseDuration loop        *)
(* ------------------------------------------------------------------ *)

Definition seg (n v : Z) (k : nat) (U : str) : str := fmt_int n ++ fmt_frac v k ++ U.

Definition unit_char (c : ascii) : bool := negb (is_dot c || is_digit c).

Definition unit_chars_ok (U : str) : bool := str_nonempty U && str_forallb unit_char U.

Definition rest_ok (rest : str) : bool :=
  match rest with
  | EmptyString => true
  | String c _ => is_dot c || is_digit c
  end.

Lemma span_unit_app U : forall rest,
  str_forallb unit_char U = true -> rest_ok rest = true ->
  span_unit (U ++ rest) = (U, rest).
Proof.
  induction U as [|c U IH]; intros rest HU Hr.
  - rewrite sapp_nil_l. destruct rest as [|c r]; [reflexivity|].
    cbn [rest_ok] in Hr. rewrite span_unit_cons, Hr. reflexivity.
  - cbn [str_forallb] in HU. apply andb_true_iff in HU. destruct HU as [Hc HU].
    unfold unit_char in Hc. apply negb_true_iff in Hc.
    rewrite sapp_cons, span_unit_cons, Hc, IH by assumption. reflexivity.
Qed.

Lemma unit_start U rest :
  unit_chars_ok U = true ->
  exists c r, U ++ rest = String c r /\ is_dot c = false /\ is_digit c = false.
Proof.
  unfold unit_chars_ok. destruct U as [|c U]; [discriminate|].
  cbn [str_nonempty str_forallb andb]. intros H. apply andb_true_iff in H.
  destruct H as [H _]. unfold unit_char in H. apply negb_true_iff, orb_false_iff in H.
  exists c, (U ++ rest). rewrite sapp_cons. tauto.
Qed.

Lemma parse_loop_seg fuel d n v k U unit w rest :
  unit_chars_ok U = true -> unit_val U = Some unit -> rest_ok rest = true ->
  unit = w * 10 ^ Z.of_nat k -> 0 < w -> (k <= 18)%nat ->
  0 <= d -> 0 <= n -> 0 <= v < 10 ^ Z.of_nat k ->
  d + n * unit + v * w <= 2 ^ 63 ->
  parse_loop (S fuel) d (seg n v k U ++ rest) =
  parse_loop fuel (d + n * unit + v * w) rest.
Proof.
  intros HU Hunit Hrest Hw Hwpos Hk Hd Hn Hv Hb.
  pose proof (pow10_pos k) as Hp.
  assert (Hupos : 0 < unit) by nia.
  assert (Hnu : n * unit <= 2 ^ 63) by nia.
  assert (Hn63 : 0 <= n <= 2 ^ 63) by nia.
  assert (Hguard : (n >? 2 ^ 63 / unit) = false).
  { destruct (Z.gtb_spec n (2 ^ 63 / unit)) as [G|G]; [|reflexivity].
    assert (n <= 2 ^ 63 / unit) by (apply Z.div_le_lower_bound; lia). lia. }
  unfold seg. rewrite !sapp_assoc.
  destruct (unit_start U rest HU) as (cu & ru & EU & Hcu1 & Hcu2).
  assert (HUs : str_forallb unit_char U = true).
  { unfold unit_chars_ok in HU. apply andb_true_iff in HU. tauto. }
  assert (HUn : str_nonempty U = true).
  { unfold unit_chars_ok in HU. apply andb_true_iff in HU. tauto. }
  assert (Hnd : no_digit_start (U ++ rest)).
  { unfold no_digit_start. rewrite EU. exact Hcu2. }
  set (tail := fmt_frac v k ++ U ++ rest).
  assert (Hsd : starts_digit (fmt_int n ++ tail) = true).
  { apply starts_digit_app, fmt_int_starts_digit. unfold u64ish. norm63. lia. }
  destruct (Z.eqb_spec v 0) as [Ev|Ev].
  - (* no fraction *)
    assert (Etail : tail = U ++ rest).
    { unfold tail, fmt_frac. subst v. reflexivity. }
    assert (Hli : leading_int 0 (fmt_int n ++ tail) = Some (n, tail)).
    { apply fmt_int_leading; [assumption|]. rewrite Etail. assumption. }
    destruct (fmt_int n ++ tail) as [|c0 s0] eqn:E; [discriminate|].
    cbn [starts_digit] in Hsd.
    cbn [parse_loop]. rewrite Hsd, orb_true_r. cbn [negb].
    rewrite Hli. clearbody tail. subst tail. rewrite EU at 1. cbv beta iota.
    rewrite Hcu1. cbv beta iota.
    cbn [starts_digit]. rewrite Hsd. cbn [negb andb].
    rewrite span_unit_app by assumption.
    rewrite HUn. cbn [negb]. rewrite Hunit, Hguard.
    change (0 >? 0) with false. cbv beta iota zeta.
    assert (Em : (d + n * unit) mod 2 ^ 64 = d + n * unit).
    { apply Z.mod_small. norm63. nia. }
    rewrite Em.
    destruct (Z.gtb_spec (d + n * unit) (2 ^ 63)); [nia|].
    f_equal. subst v. ring.
  - (* with fraction *)
    assert (Etail : tail = String "."%char (frac_digits k v ++ U ++ rest)).
    { unfold tail, fmt_frac. destruct (Z.eqb_spec v 0); [contradiction|]. reflexivity. }
    assert (Hli : leading_int 0 (fmt_int n ++ tail) = Some (n, tail)).
    { apply fmt_int_leading; [assumption|]. rewrite Etail. reflexivity. }
    destruct (leading_fraction_frac k 0 1 v (U ++ rest)) as (f & sc & E1 & E2 & E3);
      try assumption; try lia.
    { change (10 ^ 18) with (10 ^ Z.of_nat 18).
      assert (10 ^ Z.of_nat k <= 10 ^ Z.of_nat 18) by (apply Z.pow_le_mono_r; lia). lia. }
    assert (Hpost : starts_digit (frac_digits k v ++ U ++ rest) = true).
    { apply starts_digit_app, frac_digits_starts; assumption. }
    assert (Ef : f * 10 ^ Z.of_nat k = v * sc) by lia.
    assert (Hfpos : 0 < f) by nia.
    assert (Efu : f * unit / sc = v * w).
    { replace (f * unit) with (v * w * sc) by (rewrite Hw; nia).
      apply Z.div_mul. lia. }
    destruct (fmt_int n ++ tail) as [|c0 s0] eqn:E; [discriminate|].
    cbn [starts_digit] in Hsd.
    cbn [parse_loop]. rewrite Hsd, orb_true_r. cbn [negb].
    rewrite Hli. clearbody tail. subst tail. cbv beta iota.
    change (is_dot "."%char) with true. cbv beta iota.
    rewrite E1. cbn [starts_digit]. rewrite Hsd, Hpost. cbn [negb andb].
    rewrite span_unit_app by assumption.
    rewrite HUn. cbn [negb]. rewrite Hunit, Hguard.
    destruct (Z.gtb_spec f 0); [|lia].
    rewrite Efu.
    destruct (Z.gtb_spec (n * unit + v * w) (2 ^ 63)); [nia|].
    assert (Em : (d + (n * unit + v * w)) mod 2 ^ 64 = d + (n * unit + v * w)).
    { apply Z.mod_small. norm63. nia. }
    rewrite Em.
    destruct (Z.gtb_spec (d + (n * unit + v * w)) (2 ^ 63)); [nia|].
    f_equal. ring.
Qed.

(* ------------------------------------------------------------------ *)
(* fuel                                                                *)
(* ------------------------------------------------------------------ *)

Lemma parse_loop_nil f d : parse_loop f d "" = Some d.
Proof. destruct f; reflexivity. Qed.

(* more fuel never changes a successful result *)
Lemma parse_loop_fuel_mono f : forall d s r,
  parse_loop f d s = Some r -> forall f', (f <= f')%nat -> parse_loop f' d s = Some r.
Proof.
  induction f; intros d s r H f' Hf.
  - destruct s; [|discriminate]. cbn in H. rewrite parse_loop_nil. exact H.
  - destruct s as [|c0 s0]; [cbn in H; rewrite parse_loop_nil; exact H|].
    destruct f' as [|f']; [lia|].
    cbn [parse_loop] in H |- *.
    repeat match type of H with
           | context [match ?x with _ => _ end] => destruct x eqn:?; try discriminate
           end.
    eapply IHf; [eassumption|lia].
Qed.

(* ------------------------------------------------------------------ *)
(* T1: ParseDuration inverts Duration.String                           *)
(* ------------------------------------------------------------------ *)

Lemma step_int fuel d n U unit rest :
  unit_chars_ok U = true -> unit_val U = Some unit -> 0 < unit -> rest_ok rest = true ->
  0 <= d -> 0 <= n -> d + n * unit <= 2 ^ 63 ->
  parse_loop (S fuel) d (seg n 0 0 U ++ rest) = parse_loop fuel (d + n * unit) rest.
Proof.
  intros. rewrite (parse_loop_seg fuel d n 0 0 U unit unit rest);
    try assumption; try (change (10 ^ Z.of_nat 0) with 1); try lia.
  f_equal; lia.
Qed.

Lemma step_frac fuel d n v k U rest :
  unit_chars_ok U = true -> unit_val U = Some (10 ^ Z.of_nat k) -> (k <= 18)%nat ->
  rest_ok rest = true ->
  0 <= d -> 0 <= n -> 0 <= v < 10 ^ Z.of_nat k ->
  d + n * 10 ^ Z.of_nat k + v <= 2 ^ 63 ->
  parse_loop (S fuel) d (seg n v k U ++ rest) =
  parse_loop fuel (d + n * 10 ^ Z.of_nat k + v) rest.
Proof.
  intros. rewrite (parse_loop_seg fuel d n v k U (10 ^ Z.of_nat k) 1 rest);
    try assumption; try lia.
  f_equal; lia.
Qed.

Lemma seg_starts n v k U rest :
  u64ish n -> starts_digit (seg n v k U ++ rest) = true.
Proof.
  intros H. unfold seg. rewrite sapp_assoc.
  apply starts_digit_app, fmt_int_starts_digit, H.
Qed.

Lemma starts_digit_rest_ok s : starts_digit s = true -> rest_ok s = true.
Proof. destruct s; [reflexivity|]. cbn. intros ->. apply orb_true_r. Qed.

Lemma seg_rest_ok n v k U rest : u64ish n -> rest_ok (seg n v k U ++ rest) = true.
Proof. intros. apply starts_digit_rest_ok, seg_starts. assumption. Qed.

Lemma seg_app_length n v k U rest :
  u64ish n -> (S (String.length rest) <= String.length (seg n v k U ++ rest))%nat.
Proof.
  intros H. unfold seg. rewrite !slength_app.
  pose proof (starts_digit_length _ (fmt_int_starts_digit n H)). lia.
Qed.

Lemma magnitude_parse u :
  0 < u <= 2 ^ 63 ->
  starts_digit (format_magnitude u) = true /\
  exists f, (f <= String.length (format_magnitude u))%nat /\
            parse_loop f 0 (format_magnitude u) = Some u.
Proof.
  intros Hu. norm63. unfold format_magnitude.
  assert (U64 : forall n, 0 <= n <= 9223372036854775808 -> u64ish n).
  { intros n Hn. unfold u64ish. change (10 ^ 20) with 100000000000000000000. lia. }
  destruct (Z.ltb_spec u 1000000000) as [H1|H1].
  - destruct (Z.eqb_spec u 0); [lia|].
    destruct (Z.ltb_spec u 1000) as [H2|H2]; [|destruct (Z.ltb_spec u 1000000) as [H3|H3]].
    + (* ns *)
      change (fmt_int u ++ "ns") with (seg u 0 0 "ns").
      rewrite <- (sapp_nil_r (seg u 0 0 "ns")).
      split; [apply seg_starts, U64; lia|]. exists 1%nat. split.
      * etransitivity; [|apply seg_app_length, U64; lia]. cbn; lia.
      * rewrite (step_int 0 0 u "ns" 1 ""); try reflexivity; try lia.
        rewrite parse_loop_nil. f_equal. lia.
    + (* µs *)
      fold (seg (u / 1000) (u mod 1000) 3 micro_s).
      rewrite <- (sapp_nil_r (seg _ _ 3 micro_s)).
      split; [apply seg_starts, U64; lia|]. exists 1%nat. split.
      * etransitivity; [|apply seg_app_length, U64; lia]. cbn; lia.
      * rewrite (step_frac 0 0 (u / 1000) (u mod 1000) 3 micro_s "");
          try reflexivity; change (10 ^ Z.of_nat 3) with 1000; try lia.
        rewrite parse_loop_nil. f_equal. lia.
    + (* ms *)
      fold (seg (u / 1000000) (u mod 1000000) 6 "ms").
      rewrite <- (sapp_nil_r (seg _ _ 6 "ms")).
      split; [apply seg_starts, U64; lia|]. exists 1%nat. split.
      * etransitivity; [|apply seg_app_length, U64; lia]. cbn; lia.
      * rewrite (step_frac 0 0 (u / 1000000) (u mod 1000000) 6 "ms" "");
          try reflexivity; change (10 ^ Z.of_nat 6) with 1000000; try lia.
        rewrite parse_loop_nil. f_equal. lia.
  - (* at least one second *)
    cbv zeta.
    remember (u / 1000000000) as secs eqn:Es.
    remember (u mod 1000000000) as fr eqn:Efr.
    remember (secs / 60) as m eqn:Em.
    remember (secs mod 60) as s' eqn:Es'.
    remember (m / 60) as h eqn:Eh.
    remember (m mod 60) as m' eqn:Em'.
    fold (seg s' fr 9 "s").
    rewrite <- (sapp_nil_r (seg s' fr 9 "s")).
    assert (Hlast : forall fuel d, 0 <= d -> d + s' * 1000000000 + fr <= 9223372036854775808 ->
              parse_loop (S fuel) d (seg s' fr 9 "s" ++ "") = Some (d + s' * 1000000000 + fr)).
    { intros fuel d Hd Hb.
      rewrite (step_frac fuel d s' fr 9 "s" "");
        try reflexivity; change (10 ^ Z.of_nat 9) with 1000000000; norm63; try lia.
      apply parse_loop_nil. }
    destruct (Z.ltb_spec 0 h) as [Hh|Hh]; destruct (Z.ltb_spec 0 m) as [Hm|Hm]; try lia.
    + (* h m s *)
      change (fmt_int h ++ "h") with (seg h 0 0 "h").
      change (fmt_int m' ++ "m") with (seg m' 0 0 "m").
      split; [apply seg_starts, U64; lia|]. exists 3%nat. split.
      * etransitivity; [|apply seg_app_length, U64; lia].
        apply le_n_S.
        etransitivity; [|apply seg_app_length, U64; lia].
        apply le_n_S.
        etransitivity; [|apply seg_app_length, U64; lia]. lia.
      * rewrite (step_int 2 0 h "h" 3600000000000); try reflexivity; norm63; try lia;
          [|apply seg_rest_ok, U64; lia].
        rewrite (step_int 1 _ m' "m" 60000000000); try reflexivity; norm63; try lia;
          [|apply seg_rest_ok, U64; lia].
        rewrite Hlast by lia. f_equal. lia.
    + (* m s *)
      rewrite sapp_nil_l.
      change (fmt_int m' ++ "m") with (seg m' 0 0 "m").
      split; [apply seg_starts, U64; lia|]. exists 2%nat. split.
      * etransitivity; [|apply seg_app_length, U64; lia].
        apply le_n_S.
        etransitivity; [|apply seg_app_length, U64; lia]. lia.
      * rewrite (step_int 1 0 m' "m" 60000000000); try reflexivity; norm63; try lia;
          [|apply seg_rest_ok, U64; lia].
        rewrite Hlast by lia. f_equal. lia.
    + (* s *)
      rewrite !sapp_nil_l.
      split; [apply seg_starts, U64; lia|]. exists 1%nat. split.
      * etransitivity; [|apply seg_app_length, U64; lia]. lia.
      * rewrite Hlast by lia. f_equal. lia.
Qed.

Lemma sign_split_digit s : starts_digit s = true -> sign_split s = (false, s).
Proof.
  destruct s as [|c s]; [discriminate|]. cbn [starts_digit sign_split]. intros H.
  destruct (is_digit_not_sign c H) as [-> ->]. reflexivity.
Qed.

(* T1 *)
Theorem duration_roundtrip :
  forall d, - 2 ^ 63 <= d < 2 ^ 63 -> parse_go_duration (format_duration d) = Some d.
Proof.
  intros d Hd. unfold format_duration. destruct (Z.ltb_spec d 0) as [Hneg|Hpos].
  - destruct (magnitude_parse (Z.abs d)) as (Hs & f & Hf & Hp); [norm63; lia|].
    unfold parse_go_duration. cbn [sign_split].
    change (Ascii.eqb "-"%char "-"%char) with true. cbv iota.
    set (body := format_magnitude (Z.abs d)) in *.
    apply parse_loop_fuel_mono with (f' := String.length body) in Hp; [|assumption].
    destruct (String.eqb_spec body "0") as [E|E].
    { rewrite E in Hp. vm_compute in Hp. discriminate. }
    rewrite (starts_digit_nonempty _ Hs). cbn [negb]. rewrite Hp.
    f_equal. unfold wrap64. norm63. lia.
  - destruct (Z.eq_dec d 0) as [E0|E0]; [subst d; vm_compute; reflexivity|].
    destruct (magnitude_parse d) as (Hs & f & Hf & Hp); [norm63; lia|].
    unfold parse_go_duration. rewrite (sign_split_digit _ Hs).
    set (body := format_magnitude d) in *.
    apply parse_loop_fuel_mono with (f' := String.length body) in Hp; [|assumption].
    destruct (String.eqb_spec body "0") as [E|E].
    { rewrite E in Hp. vm_compute in Hp. discriminate. }
    rewrite (starts_digit_nonempty _ Hs). cbn [negb]. rewrite Hp.
    destruct (Z.gtb_spec d (2 ^ 63 - 1)); [norm63; lia|]. reflexivity.
Qed.

(* ------------------------------------------------------------------ *)
(* the alphabet of Duration.String                                     *)
(* ------------------------------------------------------------------ *)

(* digit, '.', '-', or one of the unit bytes n s m h C2 B5 *)
Definition dur_char (c : ascii) : bool :=
  is_digit c || is_dot c || Ascii.eqb c "-"%char ||
  Ascii.eqb c "n"%char || Ascii.eqb c "s"%char || Ascii.eqb c "m"%char ||
  Ascii.eqb c "h"%char || Ascii.eqb c "194"%char || Ascii.eqb c "181"%char.

Lemma is_digit_dur_char c : is_digit c = true -> dur_char c = true.
Proof. unfold dur_char. intros ->. reflexivity. Qed.

Lemma seg_chars n v k U :
  u64ish n -> 0 <= v < 10 ^ Z.of_nat k -> str_forallb dur_char U = true ->
  str_forallb dur_char (seg n v k U) = true.
Proof.
  intros Hn Hv HU. unfold seg. rewrite !str_forallb_app, HU.
  rewrite (str_forallb_impl is_digit dur_char _ is_digit_dur_char (fmt_int_all_digits n Hn)).
  unfold fmt_frac. destruct (Z.eqb_spec v 0); [reflexivity|].
  cbn [str_forallb].
  rewrite (str_forallb_impl is_digit dur_char _ is_digit_dur_char (frac_digits_all_digits k v Hv)).
  reflexivity.
Qed.

Lemma magnitude_chars u :
  0 <= u <= 2 ^ 63 -> str_forallb dur_char (format_magnitude u) = true.
Proof.
  intros Hu. norm63. unfold format_magnitude.
  assert (U64 : forall n, 0 <= n <= 9223372036854775808 -> u64ish n).
  { intros n Hn. unfold u64ish. change (10 ^ 20) with 100000000000000000000. lia. }
  destruct (Z.ltb_spec u 1000000000) as [H1|H1].
  - destruct (Z.eqb_spec u 0); [reflexivity|].
    destruct (Z.ltb_spec u 1000) as [H2|H2]; [|destruct (Z.ltb_spec u 1000000) as [H3|H3]].
    + change (fmt_int u ++ "ns") with (seg u 0 0 "ns").
      apply seg_chars; [apply U64; lia | change (10 ^ Z.of_nat 0) with 1; lia | reflexivity].
    + fold (seg (u / 1000) (u mod 1000) 3 micro_s).
      apply seg_chars; [apply U64; lia | change (10 ^ Z.of_nat 3) with 1000; lia | reflexivity].
    + fold (seg (u / 1000000) (u mod 1000000) 6 "ms").
      apply seg_chars; [apply U64; lia | change (10 ^ Z.of_nat 6) with 1000000; lia | reflexivity].
  - cbv zeta.
    remember (u / 1000000000) as secs eqn:Es.
    remember (u mod 1000000000) as fr eqn:Efr.
    remember (secs / 60) as m eqn:Em.
    remember (secs mod 60) as s' eqn:Es'.
    remember (m / 60) as h eqn:Eh.
    remember (m mod 60) as m' eqn:Em'.
    fold (seg s' fr 9 "s").
    change (fmt_int h ++ "h") with (seg h 0 0 "h").
    change (fmt_int m' ++ "m") with (seg m' 0 0 "m").
    rewrite !str_forallb_app.
    assert (str_forallb dur_char (seg s' fr 9 "s") = true) as ->.
    { apply seg_chars; [apply U64; lia | change (10 ^ Z.of_nat 9) with 1000000000; lia | reflexivity]. }
    assert (str_forallb dur_char (seg h 0 0 "h") = true) as Hh.
    { apply seg_chars; [apply U64; lia | change (10 ^ Z.of_nat 0) with 1; lia | reflexivity]. }
    assert (str_forallb dur_char (seg m' 0 0 "m") = true) as Hm.
    { apply seg_chars; [apply U64; lia | change (10 ^ Z.of_nat 0) with 1; lia | reflexivity]. }
    destruct (0 <? h); destruct (0 <? m); rewrite ?Hh, ?Hm; reflexivity.
Qed.

Theorem format_duration_chars :
  forall d, - 2 ^ 63 <= d < 2 ^ 63 -> str_forallb dur_char (format_duration d) = true.
Proof.
  intros d Hd. unfold format_duration. destruct (Z.ltb_spec d 0).
  - cbn [str_forallb]. rewrite magnitude_chars by (norm63; lia). reflexivity.
  - apply magnitude_chars. norm63; lia.
Qed.

(* ------------------------------------------------------------------ *)
(* T2: a text without ':' never matches pgIntervalRegexp               *)
(* ------------------------------------------------------------------ *)

Definition not_colon (c : ascii) : bool := negb (Ascii.eqb c ":"%char).
Definition no_colon (s : str) : bool := str_forallb not_colon s.

Lemma dur_char_not_colon c : dur_char c = true -> not_colon c = true.
Proof. ascii_cases c. Qed.

Lemma eat_no_colon p : forall s r, eat p s = Some r -> no_colon s = true -> no_colon r = true.
Proof.
  induction p as [|a p IH]; intros s r H Hs.
  - destruct s; cbn in H; congruence.
  - destruct s as [|b s]; [discriminate|]. cbn [eat] in H.
    destruct (Ascii.eqb a b); [|discriminate].
    unfold no_colon in Hs. cbn [str_forallb] in Hs. apply andb_true_iff in Hs.
    eapply IH; [eassumption|]. apply Hs.
Qed.

Lemma eat_colon_none s : no_colon s = true -> eat ":" s = None.
Proof.
  destruct s as [|c s]; [reflexivity|]. unfold no_colon. cbn [str_forallb eat].
  intros H. apply andb_true_iff in H. destruct H as [H _].
  unfold not_colon in H. apply negb_true_iff in H.
  rewrite Ascii.eqb_sym, H. reflexivity.
Qed.

Lemma span_digits_no_colon s : forall a b,
  span_digits s = (a, b) -> no_colon s = true -> no_colon b = true.
Proof.
  induction s as [|c s IH]; intros a b H Hs.
  - cbn in H. inversion H. reflexivity.
  - rewrite span_digits_cons in H. destruct (is_digit c).
    + destruct (span_digits s) as [a' b'] eqn:E. inversion H; subst.
      unfold no_colon in Hs. cbn [str_forallb] in Hs. apply andb_true_iff in Hs.
      eapply IH; [reflexivity|apply Hs].
    + inversion H; subst. assumption.
Qed.

Lemma signed_tok_no_colon s t r :
  signed_tok s = Some (t, r) -> no_colon s = true -> no_colon r = true.
Proof.
  unfold signed_tok. intros H Hs.
  destruct s as [|c s'].
  - cbn in H. discriminate.
  - destruct (Ascii.eqb c "+"%char || Ascii.eqb c "-"%char).
    + destruct (span_digits s') as [ds r'] eqn:E.
      destruct (str_nonempty ds); [|discriminate]. inversion H; subst.
      unfold no_colon in Hs. cbn [str_forallb] in Hs. apply andb_true_iff in Hs.
      eapply span_digits_no_colon; [eassumption|apply Hs].
    + destruct (span_digits (String c s')) as [ds r'] eqn:E.
      destruct (str_nonempty ds); [|discriminate]. inversion H; subst.
      eapply span_digits_no_colon; eassumption.
Qed.

Lemma eat_unit_no_colon w s r :
  eat_unit w s = Some r -> no_colon s = true -> no_colon r = true.
Proof.
  unfold eat_unit. intros H Hs.
  destruct (eat (String " "%char w) s) as [r0|] eqn:E0; [|discriminate].
  pose proof (eat_no_colon _ _ _ E0 Hs) as H0.
  destruct (eat "s " r0) as [r1|] eqn:E1.
  - inversion H; subst. eapply eat_no_colon; eassumption.
  - eapply eat_no_colon; eassumption.
Qed.

Lemma pg_stage3_no_colon y mo dd t r : no_colon r = true -> pg_stage3 y mo dd t r = None.
Proof. intros H. unfold pg_stage3, pg_time. rewrite (eat_colon_none _ H). reflexivity. Qed.

Lemma pg_stage2_no_colon y mo t r : no_colon r = true -> pg_stage2 y mo t r = None.
Proof.
  intros H. unfold pg_stage2.
  destruct (eat_unit "day" r) as [r'|] eqn:E.
  - pose proof (eat_unit_no_colon _ _ _ E H) as H'.
    destruct (signed_tok r') as [[t' r'']|] eqn:E'; [|reflexivity].
    apply pg_stage3_no_colon. eapply signed_tok_no_colon; eassumption.
  - apply pg_stage3_no_colon. assumption.
Qed.

Lemma pg_stage1_no_colon y t r : no_colon r = true -> pg_stage1 y t r = None.
Proof.
  intros H. unfold pg_stage1.
  destruct (eat_unit "mon" r) as [r'|] eqn:E.
  - pose proof (eat_unit_no_colon _ _ _ E H) as H'.
    destruct (signed_tok r') as [[t' r'']|] eqn:E'; [|reflexivity].
    apply pg_stage2_no_colon. eapply signed_tok_no_colon; eassumption.
  - apply pg_stage2_no_colon. assumption.
Qed.

Theorem pg_match_no_colon s : no_colon s = true -> pg_match s = None.
Proof.
  intros H. unfold pg_match.
  destruct (signed_tok s) as [[t r]|] eqn:E0; [|reflexivity].
  pose proof (signed_tok_no_colon _ _ _ E0 H) as H0.
  destruct (eat_unit "year" r) as [r'|] eqn:E.
  - pose proof (eat_unit_no_colon _ _ _ E H0) as H'.
    destruct (signed_tok r') as [[t' r'']|] eqn:E'; [|reflexivity].
    apply pg_stage1_no_colon. eapply signed_tok_no_colon; eassumption.
  - apply pg_stage1_no_colon. assumption.
Qed.

Lemma format_duration_no_colon d :
  - 2 ^ 63 <= d < 2 ^ 63 -> no_colon (format_duration d) = true.
Proof.
  intros H. unfold no_colon.
  apply (str_forallb_impl dur_char not_colon _ dur_char_not_colon).
  apply format_duration_chars. assumption.
Qed.

(* T2 *)
Theorem format_not_pg :
  forall d, - 2 ^ 63 <= d < 2 ^ 63 -> parse_pg (format_duration d) = PgNoMatch.
Proof.
  intros d H. unfold parse_pg.
  rewrite (pg_match_no_colon _ (format_duration_no_colon d H)). reflexivity.
Qed.

(* T3 *)
Theorem scan_value :
  forall d, - 2 ^ 63 <= d < 2 ^ 63 -> scan_interval (value_interval d) = Some d.
Proof.
  intros d H. unfold scan_interval, value_interval.
  rewrite (format_not_pg d H). apply duration_roundtrip. assumption.
Qed.

(* ------------------------------------------------------------------ *)
(* T4: non-negative PostgreSQL renderings are parsed exactly           *)
(* ------------------------------------------------------------------ *)

Lemma span_digits_app a : forall rest,
  all_digits a = true -> no_digit_start rest -> span_digits (a ++ rest) = (a, rest).
Proof.
  induction a as [|c a IH]; intros rest Ha Hr.
  - rewrite sapp_nil_l. apply span_digits_stop. assumption.
  - unfold all_digits in Ha. cbn [str_forallb] in Ha. apply andb_true_iff in Ha.
    destruct Ha as [Hc Ha]. rewrite sapp_cons, span_digits_cons, Hc, IH by assumption.
    reflexivity.
Qed.

Lemma all_digits_starts ds :
  all_digits ds = true -> str_nonempty ds = true -> starts_digit ds = true.
Proof.
  destruct ds as [|c ds]; [discriminate|]. unfold all_digits. cbn.
  intros H _. apply andb_true_iff in H. tauto.
Qed.

Lemma signed_tok_digits ds rest :
  all_digits ds = true -> str_nonempty ds = true -> no_digit_start rest ->
  signed_tok (ds ++ rest) = Some (ds, rest).
Proof.
  intros Ha Hn Hr. pose proof (all_digits_starts ds Ha Hn) as Hs.
  unfold signed_tok. destruct ds as [|c ds]; [discriminate|].
  cbn [starts_digit] in Hs. rewrite sapp_cons.
  destruct (is_digit_not_sign c Hs) as [E1 E2]. rewrite E1, E2. cbn [orb].
  rewrite <- sapp_cons, span_digits_app by assumption. reflexivity.
Qed.

Lemma atoi_digits ds :
  all_digits ds = true -> str_nonempty ds = true ->
  0 <= digits_val 0 ds < 2 ^ 63 -> atoi ds = Some (digits_val 0 ds).
Proof.
  intros Ha Hn Hv. unfold atoi.
  rewrite (sign_split_digit _ (all_digits_starts ds Ha Hn)), Hn, Ha. cbn [andb].
  norm63.
  match goal with |- context [?a <? ?b] => destruct (Z.ltb_spec a b); [lia|] end.
  match goal with |- context [?a >? ?b] => destruct (Z.gtb_spec a b); [lia|] end.
  reflexivity.
Qed.

Lemma adjust_empty d sc : adjust (Some d) "" sc = Some d.
Proof. reflexivity. Qed.

Lemma adjust_digits d ds sc :
  all_digits ds = true -> str_nonempty ds = true ->
  0 <= digits_val 0 ds < 2 ^ 63 ->
  0 <= d + digits_val 0 ds * sc < 2 ^ 63 ->
  adjust (Some d) ds sc = Some (d + digits_val 0 ds * sc).
Proof.
  intros Ha Hn Hv Hb. unfold adjust. rewrite Hn. cbn [negb].
  rewrite atoi_digits by assumption. f_equal. unfold wrap64. norm63. lia.
Qed.

(* pad2 *)
Lemma pad2_spec n :
  0 <= n < 2 ^ 63 ->
  all_digits (pad2 n) = true /\ str_nonempty (pad2 n) = true /\ digits_val 0 (pad2 n) = n.
Proof.
  intros Hn. assert (Hu : u64ish n).
  { unfold u64ish. change (10 ^ 20) with 100000000000000000000. norm63. lia. }
  pose proof (fmt_int_all_digits n Hu) as H1.
  pose proof (starts_digit_nonempty _ (fmt_int_starts_digit n Hu)) as H2.
  pose proof (fmt_int_digits_val n Hu) as H3.
  unfold pad2. destruct (n <? 10); [|tauto].
  unfold all_digits in *. cbn [str_forallb str_nonempty]. rewrite H1.
  repeat split. rewrite digits_val_cons. exact H3.
Qed.

(* fraction digits *)
Definition frac_part (frac : list N) : str :=
  match frac with
  | [] => ""
  | _ => String "."%char (render_digits frac)
  end.

Lemma render_digits_spec frac :
  Forall (fun x => (x < 10)%N) frac ->
  all_digits (render_digits frac) = true /\
  String.length (render_digits frac) = List.length frac /\
  forall acc, digits_val acc (render_digits frac) =
              fold_left (fun a d => a * 10 + Z.of_N d) frac acc.
Proof.
  induction 1 as [|x l Hx Hl IH].
  - repeat split.
  - destruct IH as (I1 & I2 & I3).
    assert (Hd : 0 <= Z.of_N x <= 9) by lia.
    destruct (digit_char_ok _ Hd) as [D1 D2].
    cbn [render_digits fold_right]. fold (render_digits l).
    unfold all_digits in *. cbn [str_forallb String.length List.length fold_left].
    rewrite D1, I1, I2. repeat split. intros acc.
    rewrite digits_val_cons, D2. apply I3.
Qed.

Lemma no_digit_start_frac_part frac : no_digit_start (frac_part frac).
Proof. destruct frac; reflexivity. Qed.

Lemma eat_colon_ok X : eat ":" (":" ++ X) = Some X.
Proof. reflexivity. Qed.

Lemma pg_time_ok mi s frac :
  0 <= mi < 2 ^ 63 -> 0 <= s < 2 ^ 63 -> Forall (fun x => (x < 10)%N) frac ->
  pg_time (":" ++ pad2 mi ++ ":" ++ pad2 s ++ frac_part frac) =
  Some (pad2 mi, pad2 s, render_digits frac).
Proof.
  intros Hmi Hs Hf.
  destruct (pad2_spec mi Hmi) as (A1 & A2 & _).
  destruct (pad2_spec s Hs) as (B1 & B2 & _).
  destruct (render_digits_spec frac Hf) as (C1 & C2 & _).
  unfold pg_time. rewrite eat_colon_ok.
  rewrite signed_tok_digits by (try assumption; reflexivity).
  rewrite eat_colon_ok.
  rewrite signed_tok_digits by (try assumption; apply no_digit_start_frac_part).
  destruct frac as [|d0 l]; [reflexivity|].
  unfold frac_part. change (is_dot "."%char) with true. cbv beta iota.
  rewrite <- (sapp_nil_r (render_digits (d0 :: l))) at 1.
  rewrite span_digits_app by (try assumption; reflexivity).
  assert (str_nonempty (render_digits (d0 :: l)) = true) as -> by reflexivity.
  reflexivity.
Qed.

(* group tokens *)
Definition gtok (n : N) : str := if (n =? 0)%N then "" else fmt_int (Z.of_N n).

Definition time_str (h mi s : N) (frac : list N) : str :=
  pad2 (Z.of_N h) ++ ":" ++ pad2 (Z.of_N mi) ++ ":" ++ pad2 (Z.of_N s) ++ frac_part frac.

Lemma render_pg_eq y mo dd h mi s frac :
  render_pg y mo dd h mi s frac =
  render_group y " year " " years " ++ render_group mo " mon " " mons " ++
  render_group dd " day " " days " ++ time_str h mi s frac.
Proof. reflexivity. Qed.

Definition head_in (l : list str) (r : str) : Prop :=
  exists lit X, In lit l /\ r = lit ++ X.

Definition heads3 : list str := [" day "; " days "; ":"].
Definition heads2 : list str := " mon " :: " mons " :: heads3.

Lemma eat_year_none r : head_in heads2 r -> eat_unit "year" r = None.
Proof.
  intros (lit & X & Hin & ->). cbn in Hin.
  repeat destruct Hin as [<-|Hin]; try reflexivity. contradiction.
Qed.

Lemma eat_mon_none r : head_in heads3 r -> eat_unit "mon" r = None.
Proof.
  intros (lit & X & Hin & ->). cbn in Hin.
  repeat destruct Hin as [<-|Hin]; try reflexivity. contradiction.
Qed.

Lemma eat_day_none X : eat_unit "day" (":" ++ X) = None.
Proof. reflexivity. Qed.

Lemma head_in_incl l l' r : incl l l' -> head_in l r -> head_in l' r.
Proof. intros Hi (lit & X & Hin & ->). exists lit, X. auto. Qed.

Lemma tok_group n sing plur X :
  n <> 0%N -> Z.of_N n < 2 ^ 63 ->
  (forall Y, no_digit_start (sing ++ Y)) -> (forall Y, no_digit_start (plur ++ Y)) ->
  signed_tok (render_group n sing plur ++ X) =
  Some (fmt_int (Z.of_N n), (if (n =? 1)%N then sing else plur) ++ X).
Proof.
  intros Hn Hb Hs Hp. unfold render_group.
  destruct (N.eqb_spec n 0); [contradiction|].
  assert (Hu : u64ish (Z.of_N n)).
  { unfold u64ish. change (10 ^ 20) with 100000000000000000000. norm63. lia. }
  rewrite sapp_assoc. apply signed_tok_digits.
  - apply fmt_int_all_digits, Hu.
  - apply starts_digit_nonempty, fmt_int_starts_digit, Hu.
  - destruct (n =? 1)%N; auto.
Qed.

Section Stages.
  Variables (dd h mi s : N) (frac : list N).
  Hypothesis Hdd : Z.of_N dd < 2 ^ 63.
  Hypothesis Hh : Z.of_N h < 2 ^ 63.
  Hypothesis Hmi : Z.of_N mi < 2 ^ 63.
  Hypothesis Hs : Z.of_N s < 2 ^ 63.
  Hypothesis Hfrac : Forall (fun x => (x < 10)%N) frac.

  Let TIME := time_str h mi s frac.
  Let fields (y' mo' dd' : str) :=
    mk_pg_fields y' mo' dd' (pad2 (Z.of_N h)) (pad2 (Z.of_N mi)) (pad2 (Z.of_N s))
                 (render_digits frac).

  Lemma tok_time :
    signed_tok TIME =
    Some (pad2 (Z.of_N h),
          ":" ++ pad2 (Z.of_N mi) ++ ":" ++ pad2 (Z.of_N s) ++ frac_part frac).
  Proof.
    destruct (pad2_spec (Z.of_N h)) as (A1 & A2 & _); [lia|].
    unfold TIME, time_str. apply signed_tok_digits; try assumption. reflexivity.
  Qed.

  Lemma stage3_ok y' mo' dd' t :
    pg_stage3 y' mo' dd' t
      (":" ++ pad2 (Z.of_N mi) ++ ":" ++ pad2 (Z.of_N s) ++ frac_part frac) =
    Some (mk_pg_fields y' mo' dd' t (pad2 (Z.of_N mi)) (pad2 (Z.of_N s)) (render_digits frac)).
  Proof. unfold pg_stage3. rewrite pg_time_ok by (try assumption; lia). reflexivity. Qed.

  Lemma stage2_ok y' mo' :
    exists t r,
      signed_tok (render_group dd " day " " days " ++ TIME) = Some (t, r) /\
      head_in heads3 r /\
      pg_stage2 y' mo' t r = Some (fields y' mo' (gtok dd)).
  Proof.
    destruct (N.eqb_spec dd 0) as [E|E].
    - rewrite E. unfold render_group, gtok. cbn [N.eqb]. rewrite sapp_nil_l.
      eexists _, _. split; [apply tok_time|]. split.
      + eexists ":", _. split; [cbn; tauto|reflexivity].
      + unfold pg_stage2. rewrite eat_day_none. apply stage3_ok.
    - eexists _, _. split; [apply tok_group; try assumption; intros; reflexivity|]. split.
      + destruct (dd =? 1)%N; eexists _, _; (split; [|reflexivity]); cbn; tauto.
      + unfold pg_stage2, gtok. destruct (N.eqb_spec dd 0); [contradiction|].
        assert (Eeat : eat_unit "day" ((if (dd =? 1)%N then " day " else " days ") ++ TIME)
                       = Some TIME) by (destruct (dd =? 1)%N; reflexivity).
        rewrite Eeat, tok_time. apply stage3_ok.
  Qed.

  Variable mo : N.
  Hypothesis Hmo : Z.of_N mo < 2 ^ 63.

  Lemma stage1_ok y' :
    exists t r,
      signed_tok (render_group mo " mon " " mons " ++
                  render_group dd " day " " days " ++ TIME) = Some (t, r) /\
      head_in heads2 r /\
      pg_stage1 y' t r = Some (fields y' (gtok mo) (gtok dd)).
  Proof.
    destruct (N.eqb_spec mo 0) as [E|E].
    - rewrite E. unfold render_group at 1. unfold gtok at 1. cbn [N.eqb]. rewrite sapp_nil_l.
      destruct (stage2_ok y' "") as (t & r & T1 & T2 & T3).
      exists t, r. split; [exact T1|]. split.
      + eapply head_in_incl; [|exact T2]. unfold heads2. intros x Hx. right. right. exact Hx.
      + unfold pg_stage1. rewrite (eat_mon_none r T2). exact T3.
    - set (X := render_group dd " day " " days " ++ TIME).
      eexists _, _. split; [apply tok_group; try assumption; intros; reflexivity|]. split.
      + destruct (mo =? 1)%N; eexists _, _; (split; [|reflexivity]); cbn; tauto.
      + unfold pg_stage1. unfold gtok at 1. destruct (N.eqb_spec mo 0); [contradiction|].
        assert (Eeat : eat_unit "mon" ((if (mo =? 1)%N then " mon " else " mons ") ++ X)
                       = Some X) by (destruct (mo =? 1)%N; reflexivity).
        rewrite Eeat.
        destruct (stage2_ok y' (fmt_int (Z.of_N mo))) as (t & r & T1 & T2 & T3).
        unfold X. rewrite T1. exact T3.
  Qed.

  Variable y : N.
  Hypothesis Hy : Z.of_N y < 2 ^ 63.

  Lemma pg_match_render :
    pg_match (render_pg y mo dd h mi s frac) = Some (fields (gtok y) (gtok mo) (gtok dd)).
  Proof.
    rewrite render_pg_eq. fold TIME. unfold pg_match.
    destruct (N.eqb_spec y 0) as [E|E].
    - rewrite E. unfold render_group at 1. unfold gtok at 1. cbn [N.eqb]. rewrite sapp_nil_l.
      destruct (stage1_ok "") as (t & r & T1 & T2 & T3).
      rewrite T1, (eat_year_none r T2). exact T3.
    - set (X := render_group mo " mon " " mons " ++ render_group dd " day " " days " ++ TIME).
      rewrite tok_group by (try assumption; intros; reflexivity).
      unfold gtok at 1. destruct (N.eqb_spec y 0); [contradiction|].
      assert (Eeat : eat_unit "year" ((if (y =? 1)%N then " year " else " years ") ++ X)
                     = Some X) by (destruct (y =? 1)%N; reflexivity).
      rewrite Eeat.
      destruct (stage1_ok (fmt_int (Z.of_N y))) as (t & r & T1 & T2 & T3).
      unfold X. rewrite T1. exact T3.
  Qed.
End Stages.

Lemma adjust_gtok d n sc :
  0 <= d -> 0 <= sc -> Z.of_N n < 2 ^ 63 -> d + Z.of_N n * sc < 2 ^ 63 ->
  adjust (Some d) (gtok n) sc = Some (d + Z.of_N n * sc).
Proof.
  intros Hd Hsc Hn Hb. unfold gtok. destruct (N.eqb_spec n 0) as [E|E].
  - subst n. rewrite adjust_empty. f_equal. lia.
  - assert (Hu : u64ish (Z.of_N n)).
    { unfold u64ish. change (10 ^ 20) with 100000000000000000000. norm63. lia. }
    rewrite adjust_digits; rewrite ?fmt_int_digits_val by assumption; try reflexivity.
    + apply fmt_int_all_digits, Hu.
    + apply starts_digit_nonempty, fmt_int_starts_digit, Hu.
    + lia.
    + nia.
Qed.

Lemma adjust_pad2 d n sc :
  0 <= d -> 0 <= sc -> Z.of_N n < 2 ^ 63 -> d + Z.of_N n * sc < 2 ^ 63 ->
  adjust (Some d) (pad2 (Z.of_N n)) sc = Some (d + Z.of_N n * sc).
Proof.
  intros Hd Hsc Hn Hb.
  destruct (pad2_spec (Z.of_N n)) as (A1 & A2 & A3); [lia|].
  rewrite adjust_digits; rewrite ?A3; try assumption; try reflexivity.
  - lia.
  - nia.
Qed.

Lemma fold_digits_nonneg l : forall acc,
  0 <= acc -> 0 <= fold_left (fun a d => a * 10 + Z.of_N d) l acc.
Proof. induction l; intros acc H; cbn [fold_left]; [assumption|]. apply IHl. lia. Qed.

Lemma digits_num_nonneg l : 0 <= digits_num l.
Proof. apply fold_digits_nonneg. lia. Qed.

Lemma frac_scale n : (n <= 9)%nat -> ns_second / 10 ^ Z.of_nat n = 10 ^ (9 - Z.of_nat n).
Proof.
  intros H. unfold ns_second. change 1000000000 with (10 ^ 9).
  symmetry. apply Z.pow_sub_r; lia.
Qed.

(* T4 *)
Theorem pg_nonneg_exact :
  forall (y mo dd h mi s : N) (frac : list N),
    Forall (fun x => (x < 10)%N) frac -> (List.length frac <= 9)%nat ->
    pg_exact y mo dd h mi s frac < 2 ^ 63 ->
    parse_pg (render_pg y mo dd h mi s frac) = PgOk (pg_exact y mo dd h mi s frac).
Proof.
  intros y mo dd h mi s frac Hf Hl Hb.
  pose proof (digits_num_nonneg frac) as Hdn.
  assert (HK : 0 < 10 ^ (9 - Z.of_nat (List.length frac))) by (apply Z.pow_pos_nonneg; lia).
  assert (HF : 0 <= frac_ns frac) by (unfold frac_ns; nia).
  unfold pg_exact in *.
  unfold ns_year, ns_month, ns_day, ns_hour, ns_minute in *.
  assert (Hs1 : ns_second = 1000000000) by reflexivity. rewrite Hs1 in *.
  norm63.
  unfold parse_pg. rewrite pg_match_render by first [assumption | norm63; lia].
  unfold pg_eval. cbn [pf_years pf_months pf_days pf_hours pf_minutes pf_seconds pf_subsecs].
  unfold ns_year, ns_month, ns_day, ns_hour, ns_minute. rewrite Hs1.
  rewrite adjust_gtok by (norm63; lia).
  rewrite adjust_gtok by (norm63; lia).
  rewrite adjust_gtok by (norm63; lia).
  rewrite adjust_pad2 by (norm63; lia).
  rewrite adjust_pad2 by (norm63; lia).
  rewrite adjust_pad2 by (norm63; lia).
  destruct (render_digits_spec frac Hf) as (C1 & C2 & C3).
  rewrite C2.
  destruct frac as [|d0 l].
  - cbn [List.length Nat.eqb]. unfold frac_ns, digits_num. cbn [fold_left].
    f_equal. lia.
  - set (fr := d0 :: l) in *.
    assert ((List.length fr =? 0)%nat = false) as -> by reflexivity.
    assert ((9 <? List.length fr)%nat = false) as -> by (apply Nat.ltb_ge; exact Hl).
    rewrite <- Hs1, frac_scale by assumption.
    assert (Hv : digits_val 0 (render_digits fr) = digits_num fr) by apply C3.
    unfold frac_ns in *.
    rewrite adjust_digits; rewrite ?Hv; try assumption; try reflexivity; norm63; nia.
Qed.

(* ------------------------------------------------------------------ *)
(* T5: refutations by computation                                      *)
(* ------------------------------------------------------------------ *)

(* the sign of the time part is applied to the hours field only: PostgreSQL's
   "-00:00:01" (minus one second) is scanned as PLUS one second *)
Theorem pg_sign_refuted : scan_interval "-00:00:01" = Some 1000000000.
Proof. vm_compute. reflexivity. Qed.

(* "-01:02:03" means -(1h 2m 3s) = -3723s in PostgreSQL, but scans as -1h +2m +3s *)
Theorem pg_sign_refuted_2 :
  scan_interval "-01:02:03" = Some (-3477000000000) /\
  -3477000000000 <> - (1 * ns_hour + 2 * ns_minute + 3 * ns_second).
Proof. split; [vm_compute; reflexivity | vm_compute; discriminate]. Qed.

(* adjustDuration wraps silently: a rendering whose exact value does not fit in
   int64 is nevertheless accepted, with a wrong (here even negative) value.
   293 years is a perfectly valid PostgreSQL interval. *)
Theorem pg_wrap_refuted :
  render_pg 293 0 0 0 0 0 [] = "293 years 00:00:00" /\
  pg_exact 293 0 0 0 0 0 [] = 9240048000000000000 /\
  ~ int64 (pg_exact 293 0 0 0 0 0 []) /\
  parse_pg "293 years 00:00:00" = PgOk (-9206696073709551616) /\
  scan_interval "293 years 00:00:00" = Some (-9206696073709551616).
Proof.
  repeat split; try (vm_compute; reflexivity).
  unfold int64. vm_compute. intros [_ H]. discriminate H.
Qed.

Theorem pg_wrap_refuted_2 :
  render_pg 9999999 0 0 0 0 0 [] = "9999999 years 00:00:00" /\
  pg_exact 9999999 0 0 0 0 0 [] = 315359968464000000000000 /\
  ~ int64 (pg_exact 9999999 0 0 0 0 0 []) /\
  parse_pg "9999999 years 00:00:00" = PgOk (-5568220138494427136).
Proof.
  repeat split; try (vm_compute; reflexivity).
  unfold int64. vm_compute. intros [_ H]. discriminate H.
Qed.

(* ------------------------------------------------------------------ *)
(* fuel: [String.length s] iterations always suffice                   *)
(* ------------------------------------------------------------------ *)

Lemma leading_int_length s : forall x v r,
  leading_int x s = Some (v, r) -> (String.length r <= String.length s)%nat.
Proof.
  induction s as [|c s IH]; intros x v r H.
  - cbn in H. inversion H. lia.
  - rewrite leading_int_cons in H. destruct (is_digit c).
    + destruct (x >? 2 ^ 63 / 10); [discriminate|].
      destruct (x * 10 + digit_val c >? 2 ^ 63); [discriminate|].
      apply IH in H. cbn [String.length]. lia.
    + inversion H. lia.
Qed.

Lemma leading_fraction_length s : forall x sc o f sc' r,
  leading_fraction x sc o s = (f, sc', r) -> (String.length r <= String.length s)%nat.
Proof.
  induction s as [|c s IH]; intros x sc o f sc' r H.
  - cbn in H. inversion H. lia.
  - cbn [leading_fraction] in H. cbn [String.length].
    destruct (is_digit c).
    + destruct o; [apply IH in H; lia|].
      destruct (x >? (2 ^ 63 - 1) / 10); [apply IH in H; lia|].
      destruct (x * 10 + digit_val c >? 2 ^ 63); apply IH in H; lia.
    + inversion H. cbn [String.length]. lia.
Qed.

Lemma span_unit_length s : forall u r,
  span_unit s = (u, r) -> String.length s = (String.length u + String.length r)%nat.
Proof.
  induction s as [|c s IH]; intros u r H.
  - cbn in H. inversion H. reflexivity.
  - rewrite span_unit_cons in H. destruct (is_dot c || is_digit c).
    + inversion H. reflexivity.
    + destruct (span_unit s) as [u' r'] eqn:E. inversion H; subst.
      cbn [String.length]. rewrite (IH u' r eq_refl). reflexivity.
Qed.

Lemma nonempty_length u : str_nonempty u = true -> (1 <= String.length u)%nat.
Proof. destruct u; [discriminate|]. cbn. lia. Qed.

Lemma parse_loop_fuel_any n : forall s d f1 f2,
  (String.length s <= n)%nat -> (String.length s <= f1)%nat -> (String.length s <= f2)%nat ->
  parse_loop f1 d s = parse_loop f2 d s.
Proof.
  induction n as [|n IH]; intros s d f1 f2 Hn H1 H2.
  - destruct s; [|cbn in Hn; lia]. rewrite !parse_loop_nil. reflexivity.
  - destruct s as [|c0 s0]; [rewrite !parse_loop_nil; reflexivity|].
    cbn [String.length] in *.
    destruct f1 as [|f1]; [lia|]. destruct f2 as [|f2]; [lia|].
    cbn [parse_loop].
    destruct (negb (is_dot c0 || is_digit c0)); [reflexivity|].
    destruct (leading_int 0 (String c0 s0)) as [[v s1]|] eqn:E1; [|reflexivity].
    apply leading_int_length in E1. cbn [String.length] in E1.
    (* the rest of the iteration, for any (f, scale, s2, post) with s2 short *)
    assert (Tail : forall (f sc : Z) (s2 : str) (post : bool),
      (String.length s2 <= S (String.length s0))%nat ->
      (if negb (starts_digit (String c0 s0)) && negb post then None else
       let (u, s3) := span_unit s2 in
       if negb (str_nonempty u) then None else
       match unit_val u with
       | None => None
       | Some unit =>
         if v >? 2 ^ 63 / unit then None else
         match (if f >? 0
                then if v * unit + f * unit / sc >? 2 ^ 63 then None
                     else Some (v * unit + f * unit / sc)
                else Some (v * unit)) with
         | None => None
         | Some v3 =>
           if (d + v3) mod 2 ^ 64 >? 2 ^ 63 then None
           else parse_loop f1 ((d + v3) mod 2 ^ 64) s3
         end
       end) =
      (if negb (starts_digit (String c0 s0)) && negb post then None else
       let (u, s3) := span_unit s2 in
       if negb (str_nonempty u) then None else
       match unit_val u with
       | None => None
       | Some unit =>
         if v >? 2 ^ 63 / unit then None else
         match (if f >? 0
                then if v * unit + f * unit / sc >? 2 ^ 63 then None
                     else Some (v * unit + f * unit / sc)
                else Some (v * unit)) with
         | None => None
         | Some v3 =>
           if (d + v3) mod 2 ^ 64 >? 2 ^ 63 then None
           else parse_loop f2 ((d + v3) mod 2 ^ 64) s3
         end
       end)).
    { intros f sc s2 post Hs2.
      destruct (negb (starts_digit (String c0 s0)) && negb post); [reflexivity|].
      destruct (span_unit s2) as [u s3] eqn:E3. apply span_unit_length in E3.
      destruct (str_nonempty u) eqn:E4; cbn [negb]; [|reflexivity].
      apply nonempty_length in E4.
      destruct (unit_val u) as [unit|]; [|reflexivity].
      destruct (v >? 2 ^ 63 / unit); [reflexivity|].
      destruct (if f >? 0
                then if v * unit + f * unit / sc >? 2 ^ 63 then None
                     else Some (v * unit + f * unit / sc)
                else Some (v * unit)) as [v3|]; [|reflexivity].
      destruct ((d + v3) mod 2 ^ 64 >? 2 ^ 63); [reflexivity|].
      apply IH; lia. }
    destruct s1 as [|c1 s1'].
    + apply Tail. cbn [String.length]. lia.
    + cbn [String.length] in E1. destruct (is_dot c1).
      * destruct (leading_fraction 0 1 false s1') as [[f sc] r] eqn:E2.
        apply leading_fraction_length in E2. apply Tail. lia.
      * apply Tail. cbn [String.length]. lia.
Qed.

(* the fuel used by [parse_go_duration] is never exhausted: any larger fuel
   gives the same answer, so [None] always denotes a genuine parse error *)
Theorem parse_loop_fuel_enough s d f :
  (String.length s <= f)%nat -> parse_loop f d s = parse_loop (String.length s) d s.
Proof. intros H. apply (parse_loop_fuel_any f); lia. Qed.
