(* Base64.v -- model of encoding/base64 StdEncoding (alphabet A-Z a-z 0-9 + /,
   '=' padding).  Bytes and characters are N in 0..255. *)
From MB Require Import Base.
Open Scope N_scope.

Definition pad : N := 61.   (* '=' *)

(* 6-bit value -> ASCII code *)
Definition b64_char (v : N) : N :=
  if v <? 26 then 65 + v              (* 'A'.. *)
  else if v <? 52 then 71 + v         (* 'a'.. = 97 + (v - 26) *)
  else if v <? 62 then v - 4          (* '0'.. = 48 + (v - 52) *)
  else if v =? 62 then 43             (* '+' *)
  else 47.                            (* '/' *)

(* ASCII code -> 6-bit value *)
Definition b64_val (c : N) : option N :=
  if (65 <=? c) && (c <=? 90) then Some (c - 65)
  else if (97 <=? c) && (c <=? 122) then Some (c - 71)
  else if (48 <=? c) && (c <=? 57) then Some (c + 4)
  else if c =? 43 then Some 62
  else if c =? 47 then Some 63
  else None.

Definition in_alphabet (c : N) : bool :=
  match b64_val c with Some _ => true | None => false end.

Fixpoint encode (bs : list N) : list N :=
  match bs with
  | a :: b :: c :: r =>
      b64_char (a / 4)
      :: b64_char ((a mod 4) * 16 + b / 16)
      :: b64_char ((b mod 16) * 4 + c / 64)
      :: b64_char (c mod 64)
      :: encode r
  | [a; b] =>
      [b64_char (a / 4); b64_char ((a mod 4) * 16 + b / 16); b64_char ((b mod 16) * 4); pad]
  | [a] =>
      [b64_char (a / 4); b64_char ((a mod 4) * 16); pad; pad]
  | [] => []
  end.

(* a full group of four alphabet characters -> three bytes *)
Definition dec_full (c0 c1 c2 c3 : N) : option (list N) :=
  match b64_val c0, b64_val c1, b64_val c2, b64_val c3 with
  | Some v0, Some v1, Some v2, Some v3 =>
      Some [v0 * 4 + v1 / 16; (v1 mod 16) * 16 + v2 / 4; (v2 mod 4) * 64 + v3]
  | _, _, _, _ => None
  end.

(* the final group may be "xx==" (one byte) or "xxx=" (two bytes); like Go's
   non-strict StdEncoding the unused trailing bits are ignored *)
Definition dec_last (c0 c1 c2 c3 : N) : option (list N) :=
  if c3 =? pad then
    if c2 =? pad then
      match b64_val c0, b64_val c1 with
      | Some v0, Some v1 => Some [v0 * 4 + v1 / 16]
      | _, _ => None
      end
    else
      match b64_val c0, b64_val c1, b64_val c2 with
      | Some v0, Some v1, Some v2 => Some [v0 * 4 + v1 / 16; (v1 mod 16) * 16 + v2 / 4]
      | _, _, _ => None
      end
  else dec_full c0 c1 c2 c3.

(* strict: length a multiple of 4, padding only at the very end, every other
   character in the alphabet *)
Fixpoint decode (cs : list N) : option (list N) :=
  match cs with
  | [] => Some []
  | c0 :: c1 :: c2 :: c3 :: r =>
      match r with
      | [] => dec_last c0 c1 c2 c3
      | _ :: _ =>
          match dec_full c0 c1 c2 c3, decode r with
          | Some g, Some t => Some (g ++ t)
          | _, _ => None
          end
      end
  | _ => None
  end.

(* Go's decoder additionally skips '\r' and '\n' anywhere in the input *)
Definition is_newline (c : N) : bool := (c =? 10) || (c =? 13).
Definition decode_go (cs : list N) : option (list N) :=
  decode (filter (fun c => negb (is_newline c)) cs).

(* ---- string-level wrappers (Go strings are byte sequences) ---- *)
Definition bytes_of_str (s : str) : list N := map N_of_ascii (list_ascii_of_string s).
Definition str_of_bytes (bs : list N) : str := string_of_list_ascii (map ascii_of_N bs).

Definition b64encode (s : str) : str := str_of_bytes (encode (bytes_of_str s)).
Definition b64decode (s : str) : option str :=
  match decode (bytes_of_str s) with
  | Some bs => Some (str_of_bytes bs)
  | None => None
  end.

(* ---- RFC 4648 test vectors and rejection cases ---- *)
Open Scope string_scope.
Example enc_empty : b64encode "" = "".
Proof. vm_compute. reflexivity. Qed.
Example enc_f : b64encode "f" = "Zg==".
Proof. vm_compute. reflexivity. Qed.
Example enc_fo : b64encode "fo" = "Zm8=".
Proof. vm_compute. reflexivity. Qed.
Example enc_foo : b64encode "foo" = "Zm9v".
Proof. vm_compute. reflexivity. Qed.
Example enc_foob : b64encode "foob" = "Zm9vYg==".
Proof. vm_compute. reflexivity. Qed.
Example enc_fooba : b64encode "fooba" = "Zm9vYmE=".
Proof. vm_compute. reflexivity. Qed.
Example enc_foobar : b64encode "foobar" = "Zm9vYmFy".
Proof. vm_compute. reflexivity. Qed.
Example enc_bytes_foobar :
  encode [102; 111; 111; 98; 97; 114] = [90; 109; 57; 118; 89; 109; 70; 121].
Proof. vm_compute. reflexivity. Qed.
Example enc_high : encode [255; 255; 254] = bytes_of_str "///+".
Proof. vm_compute. reflexivity. Qed.
Example enc_zero : encode [0; 0; 0] = bytes_of_str "AAAA".
Proof. vm_compute. reflexivity. Qed.

Example dec_foobar : b64decode "Zm9vYmFy" = Some "foobar".
Proof. vm_compute. reflexivity. Qed.
Example dec_fo : b64decode "Zm8=" = Some "fo".
Proof. vm_compute. reflexivity. Qed.
Example dec_f : b64decode "Zg==" = Some "f".
Proof. vm_compute. reflexivity. Qed.
Example dec_f_trailing_bits : b64decode "Zh==" = Some "f".   (* non-strict *)
Proof. vm_compute. reflexivity. Qed.
Example dec_fo_trailing_bits : b64decode "Zm9=" = Some "fo".  (* non-strict *)
Proof. vm_compute. reflexivity. Qed.
Example dec_bad_len : b64decode "Zm9vY" = None.
Proof. vm_compute. reflexivity. Qed.
Example dec_no_padding : b64decode "Zg" = None.
Proof. vm_compute. reflexivity. Qed.
Example dec_bad_char : b64decode "Zm9-" = None.
Proof. vm_compute. reflexivity. Qed.
Example dec_pad_inside : b64decode "Zg==Zg==" = None.
Proof. vm_compute. reflexivity. Qed.
Example dec_pad_middle : b64decode "Zg=v" = None.
Proof. vm_compute. reflexivity. Qed.
Example dec_pad_early : b64decode "Z===" = None.
Proof. vm_compute. reflexivity. Qed.
Example dec_all_pad : b64decode "====" = None.
Proof. vm_compute. reflexivity. Qed.
Example dec_strict_newline : decode [90; 109; 10; 57; 118] = None.
Proof. vm_compute. reflexivity. Qed.
Example dec_go_newline : decode_go [90; 109; 10; 57; 118; 13; 10] = Some [102; 111; 111].
Proof. vm_compute. reflexivity. Qed.
