(* Base.v -- shared definitions for the mmmbbb model. Stdlib only. *)
From Coq Require Export String Ascii List ZArith NArith Bool Lia.
Export ListNotations.

(* ---- strings are Go strings: sequences of bytes ---- *)
Definition str := string.

Definition hexval (a : ascii) : option N :=
  let n := N_of_ascii a in
  if (48 <=? n)%N && (n <=? 57)%N then Some (n - 48)%N
  else if (97 <=? n)%N && (n <=? 102)%N then Some (n - 87)%N
  else if (65 <=? n)%N && (n <=? 70)%N then Some (n - 55)%N
  else None.

(* [hx "6162"] = "ab": lets the harness write arbitrary bytes in a cases file *)
Fixpoint hx (s : string) : string :=
  match s with
  | String a (String b r) =>
      match hexval a, hexval b with
      | Some x, Some y => String (ascii_of_N (16 * x + y)) (hx r)
      | _, _ => EmptyString
      end
  | _ => EmptyString
  end.

Fixpoint str_prefix (p s : string) : bool :=
  match p, s with
  | EmptyString, _ => true
  | String a p', String b s' => Ascii.eqb a b && str_prefix p' s'
  | String _ _, EmptyString => false
  end.

Definition seqb := String.eqb.

(* association lists model Go maps; the harness always emits unique keys *)
Definition smap := list (str * str).
Fixpoint lookup (k : str) (m : smap) : option str :=
  match m with
  | [] => None
  | (k', v) :: m' => if String.eqb k k' then Some v else lookup k m'
  end.

Definition opt_eqb {A} (eqb : A -> A -> bool) (a b : option A) : bool :=
  match a, b with
  | None, None => true
  | Some x, Some y => eqb x y
  | _, _ => false
  end.

Fixpoint list_eqb {A} (eqb : A -> A -> bool) (a b : list A) : bool :=
  match a, b with
  | [], [] => true
  | x :: a', y :: b' => eqb x y && list_eqb eqb a' b'
  | _, _ => false
  end.

Definition pair_eqb {A B} (ea : A -> A -> bool) (eb : B -> B -> bool) (a b : A * B) : bool :=
  ea (fst a) (fst b) && eb (snd a) (snd b).

Definition smap_eqb : smap -> smap -> bool := list_eqb (pair_eqb String.eqb String.eqb).
