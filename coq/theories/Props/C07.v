(* Props/C07.v -- property C07 (filter evaluation): theorem statements only. *)
From MB Require Import Base.
From MB.Filter Require Import Utf8 Ast Lex Parse Print Eval Sem Proofs.
Open Scope N_scope.

(* evaluating a parsed filter never returns the error *)
Theorem C07_eval_total :
  forall ts c a, parse_tokens ts = Some c -> exists b, eval c a = Some b.
Proof. intros ts c a H. apply eval_total. exact (parse_tokens_wf ts c H). Qed.
Print Assumptions C07_eval_total.

(* the evaluator computes the reference semantics, reading != as coded *)
Theorem C07_eval_is_sem :
  forall c a, wf_cond c = true -> eval c a = Some (sem AsCoded (den c) a).
Proof. exact eval_is_sem. Qed.
Print Assumptions C07_eval_is_sem.

Theorem C07_eval_is_sem_parsed :
  forall ts c a, parse_tokens ts = Some c -> eval c a = Some (sem AsCoded (den c) a).
Proof. intros ts c a H. apply eval_is_sem. exact (parse_tokens_wf ts c H). Qed.
Print Assumptions C07_eval_is_sem_parsed.

(* F2: the documented reading of != (NOT =) is refuted ... *)
Theorem C07_documented_neq_refuted :
  exists c a, wf_cond c = true /\ eval c a <> Some (sem Documented (den c) a).
Proof. exact eval_is_sem_documented_refuted. Qed.
Print Assumptions C07_documented_neq_refuted.

(* ... and holds on every message carrying all attributes the filter compares with != *)
Theorem C07_documented_neq_partial :
  forall c a, wf_cond c = true ->
    (forall k, In k (neq_keys c) -> lookup k a <> None) ->
    eval c a = Some (sem Documented (den c) a).
Proof. exact eval_is_sem_documented_partial. Qed.
Print Assumptions C07_documented_neq_partial.

Theorem C07_paren : forall c a, eval (paren false c) a = eval c a.
Proof. exact eval_paren. Qed.
Print Assumptions C07_paren.

Theorem C07_double_negation :
  forall c a, eval (paren true (paren true c)) a = eval c a.
Proof. exact eval_double_negation. Qed.
Print Assumptions C07_double_negation.

Theorem C07_de_morgan_and :
  forall t1 t2 a b1 b2,
    eval_term t1 a = Some b1 -> eval_term t2 a = Some b2 ->
    eval (paren true (Cond t1 KAnd (TCons t2 TNil))) a =
    eval (Cond (neg_term t1) KOr (TCons (neg_term t2) TNil)) a.
Proof. exact eval_de_morgan_and. Qed.
Print Assumptions C07_de_morgan_and.

Theorem C07_de_morgan_or :
  forall t1 t2 a b1 b2,
    eval_term t1 a = Some b1 -> eval_term t2 a = Some b2 ->
    eval (paren true (Cond t1 KOr (TCons t2 TNil))) a =
    eval (Cond (neg_term t1) KAnd (TCons (neg_term t2) TNil)) a.
Proof. exact eval_de_morgan_or. Qed.
Print Assumptions C07_de_morgan_or.

Theorem C07_and_all :
  forall t ts a, wf_cond (Cond t KAnd ts) = true ->
    eval (Cond t KAnd ts) a = Some (forallb (tval a) (t :: terms_list ts)).
Proof. exact eval_and_all. Qed.
Print Assumptions C07_and_all.

Theorem C07_or_any :
  forall t ts a, wf_cond (Cond t KOr ts) = true ->
    eval (Cond t KOr ts) a = Some (existsb (tval a) (t :: terms_list ts)).
Proof. exact eval_or_any. Qed.
Print Assumptions C07_or_any.

Theorem C07_minus_is_not :
  forall ts, parse_tokens (TPu 45 :: ts) = parse_tokens (TId (cps "NOT") :: ts).
Proof. exact parse_minus_is_not. Qed.
Print Assumptions C07_minus_is_not.

Theorem C07_eval_ext :
  forall c a a', (forall k, lookup k a = lookup k a') -> eval c a = eval c a'.
Proof. exact eval_ext. Qed.
Print Assumptions C07_eval_ext.
