(* Props/C19pure.v -- property C19 (HTTP push), pure parts: adaptive window,
   status classification, base64 round trip.  Theorem statements only. *)
From MB Require Import Base Push PushProofs Base64 Base64Proofs.

Theorem C19_window_invariant :
  forall evs, (forall ev, In ev evs -> (1 <= snd ev)%Z) ->
    (1 <= window_run evs <= 1000)%Z.
Proof. exact window_inv. Qed.
Print Assumptions C19_window_invariant.

Theorem C19_window_invariant_every_prefix :
  forall evs1 evs2, (forall ev, In ev (evs1 ++ evs2) -> (1 <= snd ev)%Z) ->
    (1 <= window_run evs1 <= 1000)%Z.
Proof. exact window_prefix_inv. Qed.
Print Assumptions C19_window_invariant_every_prefix.

Theorem C19_window_flow_control :
  forall evs ev mm mb,
    (forall e, In e (evs ++ [ev]) -> (1 <= snd e)%Z) ->
    window_fc (window_run evs) ev = Some (mm, mb) ->
    (1 <= mm <= 1000)%Z /\ mb = max_bytes /\ mm = window_run (evs ++ [ev]).
Proof. exact window_fc_inv. Qed.
Print Assumptions C19_window_flow_control.

Theorem C19_window_closed_form :
  forall w k, (1 <= w <= 1000)%Z -> (0 <= k)%Z ->
    window_step w (FastAck, k) = Z.min 1000 (w + k) /\
    window_step w (SlowAck, k) = Z.max 1 (w - k) /\
    window_step w (Nack, k) = Z.max 1 (w - 10 * k).
Proof. exact window_step_closed. Qed.
Print Assumptions C19_window_closed_form.

Theorem C19_status_classification :
  forall e s d, acked (classify e s d) = true <-> e = false /\ success_status s = true.
Proof. exact classify_acked_iff. Qed.
Print Assumptions C19_status_classification.

Theorem C19_status_classification_range :
  forall s, (100 <= s <= 599)%Z ->
    (success_status s = true <->
     s = 102 \/ s = 200 \/ s = 201 \/ s = 202 \/ s = 204)%Z.
Proof. exact classify_status_range. Qed.
Print Assumptions C19_status_classification_range.

Theorem C19_status_nack :
  forall e s d, classify e s d = Nack <-> e = true \/ success_status s = false.
Proof. exact classify_nack_iff. Qed.
Print Assumptions C19_status_nack.

Theorem C19_base64_roundtrip :
  forall bs, Forall (fun b => (b < 256)%N) bs -> decode (encode bs) = Some bs.
Proof. exact decode_encode. Qed.
Print Assumptions C19_base64_roundtrip.

Theorem C19_base64_roundtrip_go_decoder :
  forall bs, Forall (fun b => (b < 256)%N) bs -> decode_go (encode bs) = Some bs.
Proof. exact decode_go_encode. Qed.
Print Assumptions C19_base64_roundtrip_go_decoder.

Theorem C19_base64_roundtrip_str :
  forall s, b64decode (b64encode s) = Some s.
Proof. exact b64decode_b64encode. Qed.
Print Assumptions C19_base64_roundtrip_str.

Theorem C19_base64_length :
  forall bs, length (encode bs) = (4 * ((length bs + 2) / 3))%nat.
Proof. exact encode_length. Qed.
Print Assumptions C19_base64_length.

Theorem C19_base64_alphabet :
  forall bs, Forall (fun c => in_alphabet c = true \/ c = pad) (encode bs).
Proof. exact encode_alphabet. Qed.
Print Assumptions C19_base64_alphabet.
