(* Props/C17codec.v -- property C17 (Interval codec: Value / Scan): theorem
   statements only.  Model: Interval.v; proofs: IntervalProofs.v. *)
From MB Require Import Base Interval IntervalProofs.
Open Scope string_scope.
Open Scope Z_scope.

(* T1: time.ParseDuration inverts time.Duration.String on all of int64 *)
Theorem C17_duration_roundtrip :
  forall d, - 2 ^ 63 <= d < 2 ^ 63 -> parse_go_duration (format_duration d) = Some d.
Proof. exact duration_roundtrip. Qed.
Print Assumptions C17_duration_roundtrip.

(* T2: the text produced by Value() never takes the PostgreSQL regexp branch *)
Theorem C17_format_not_pg :
  forall d, - 2 ^ 63 <= d < 2 ^ 63 -> parse_pg (format_duration d) = PgNoMatch.
Proof. exact format_not_pg. Qed.
Print Assumptions C17_format_not_pg.

(* T3: Scan(Value(d)) = d for every int64 d *)
Theorem C17_scan_value :
  forall d, - 2 ^ 63 <= d < 2 ^ 63 -> scan_interval (value_interval d) = Some d.
Proof. exact scan_value. Qed.
Print Assumptions C17_scan_value.

(* the alphabet of Value(): digits, '.', '-', and the unit bytes n s m h C2 B5 *)
Theorem C17_format_duration_chars :
  forall d, - 2 ^ 63 <= d < 2 ^ 63 -> str_forallb dur_char (format_duration d) = true.
Proof. exact format_duration_chars. Qed.
Print Assumptions C17_format_duration_chars.

(* the fuel of the ParseDuration loop model is never exhausted *)
Theorem C17_parse_loop_fuel_enough :
  forall s d f, (String.length s <= f)%nat ->
    parse_loop f d s = parse_loop (String.length s) d s.
Proof. exact parse_loop_fuel_enough. Qed.
Print Assumptions C17_parse_loop_fuel_enough.

(* T4: a non-negative PostgreSQL rendering whose exact value fits in int64 is
   scanned to exactly that value (every field then fits in int64 as well) *)
Theorem C17_pg_nonneg_exact :
  forall (y mo dd h mi s : N) (frac : list N),
    Forall (fun x => (x < 10)%N) frac -> (List.length frac <= 9)%nat ->
    pg_exact y mo dd h mi s frac < 2 ^ 63 ->
    parse_pg (render_pg y mo dd h mi s frac) = PgOk (pg_exact y mo dd h mi s frac).
Proof. exact pg_nonneg_exact. Qed.
Print Assumptions C17_pg_nonneg_exact.

(* T5a: REFUTED -- the sign of the time part is applied to the hours field only *)
Theorem C17_pg_sign_refuted : scan_interval "-00:00:01" = Some 1000000000.
Proof. exact pg_sign_refuted. Qed.
Print Assumptions C17_pg_sign_refuted.

Theorem C17_pg_sign_refuted_2 :
  scan_interval "-01:02:03" = Some (-3477000000000) /\
  -3477000000000 <> - (1 * ns_hour + 2 * ns_minute + 3 * ns_second).
Proof. exact pg_sign_refuted_2. Qed.
Print Assumptions C17_pg_sign_refuted_2.

(* T5b: REFUTED -- out-of-range values are accepted, silently wrapped *)
Theorem C17_pg_wrap_refuted :
  render_pg 293 0 0 0 0 0 [] = "293 years 00:00:00" /\
  pg_exact 293 0 0 0 0 0 [] = 9240048000000000000 /\
  ~ int64 (pg_exact 293 0 0 0 0 0 []) /\
  parse_pg "293 years 00:00:00" = PgOk (-9206696073709551616) /\
  scan_interval "293 years 00:00:00" = Some (-9206696073709551616).
Proof. exact pg_wrap_refuted. Qed.
Print Assumptions C17_pg_wrap_refuted.

Theorem C17_pg_wrap_refuted_2 :
  render_pg 9999999 0 0 0 0 0 [] = "9999999 years 00:00:00" /\
  pg_exact 9999999 0 0 0 0 0 [] = 315359968464000000000000 /\
  ~ int64 (pg_exact 9999999 0 0 0 0 0 []) /\
  parse_pg "9999999 years 00:00:00" = PgOk (-5568220138494427136).
Proof. exact pg_wrap_refuted_2. Qed.
Print Assumptions C17_pg_wrap_refuted_2.
