(* Props/C18.v -- property C18 (fault injection counts): theorem statements only. *)
From MB Require Import Base Faults FaultsProofs.
Open Scope Z_scope.

Theorem C18_match :
  forall d op ps, dmatch d op ps = true <->
    0 < d_count d /\ d_op d = op /\
    (forall k v, In (k, v) (d_params d) -> lookup k ps = Some v).
Proof. intros d op ps. rewrite dmatch_spec, smatch_spec. tauto. Qed.
Print Assumptions C18_match.

Theorem C18_nonmatching_never_failed :
  forall c op ps j n, reachable c -> In (TDone op ps (Some j) n) (c_thr c) ->
    exists d, nth_error (c_set c) j = Some d /\ smatch d op ps = true.
Proof. exact lts_only_matching_fail. Qed.
Print Assumptions C18_nonmatching_never_failed.

Theorem C18_exact_count :
  forall c j, reachable c ->
    Z.of_nat (fired c j) = Z.max 0 (Z.min (init_at j c) (Z.of_nat (decs_at j c))).
Proof. exact lts_exact_fired. Qed.
Print Assumptions C18_exact_count.

Theorem C18_nofault_means_exhausted :
  forall c op ps n, reachable c -> In (TDone op ps None n) (c_thr c) ->
    (n <= length (c_set c))%nat /\
    forall k d, (k < n)%nat -> nth_error (c_set c) k = Some d -> smatch d op ps = true ->
                d_count d <= 0.
Proof. exact lts_nofault_exhausted. Qed.
Print Assumptions C18_nofault_means_exhausted.

Theorem C18_min_N_matching :
  forall d ls,
    forallb (fun l => negb (is_add l)) ls = true ->
    let c := lrun (LAdd d :: ls) in
    quiescent c = true ->
    fired c 0 =
    Nat.min (Z.to_nat (Z.max 0 (d_count d)))
            (length (filter (fun c => smatch d (fst c) (snd c)) (flat_map call_of ls))).
Proof. exact C18_single_description. Qed.
Print Assumptions C18_min_N_matching.

Theorem C18_listing :
  forall s op i n, In (i, n) (current s op) <->
    exists d, nth_error s i = Some d /\ d_op d = op /\ 0 < d_count d /\ n = d_count d.
Proof. exact current_spec. Qed.
Print Assumptions C18_listing.
