(* Props/C04backoff.v -- property C04 (retry backoff schedule): theorem statements only. *)
From MB Require Import Base Backoff BackoffProofs.
Open Scope Z_scope.

Theorem C04_backoff_le_max :
  forall minb maxb n, 0 <= n -> nominal minb maxb n <= eff default_max maxb.
Proof. exact nominal_le_max. Qed.
Print Assumptions C04_backoff_le_max.

Theorem C04_backoff_ge_min :
  forall minb maxb n, 0 <= n ->
    Z.min (eff default_min minb) (eff default_max maxb) <= nominal minb maxb n.
Proof. exact nominal_ge_min. Qed.
Print Assumptions C04_backoff_ge_min.

Theorem C04_backoff_pos :
  forall minb maxb n, 0 <= n -> 0 < nominal minb maxb n.
Proof. exact nominal_pos. Qed.
Print Assumptions C04_backoff_pos.

Theorem C04_backoff_mono :
  forall minb maxb n n', 0 <= n -> n <= n' ->
    nominal minb maxb n <= nominal minb maxb n'.
Proof. exact nominal_mono. Qed.
Print Assumptions C04_backoff_mono.

Theorem C04_backoff_exact_until_cap :
  forall minb maxb n, 0 <= n ->
    eff default_min minb * 11 ^ n / 10 ^ n <= eff default_max maxb ->
    nominal minb maxb n = eff default_min minb * 11 ^ n / 10 ^ n.
Proof. exact nominal_exact_until_cap. Qed.
Print Assumptions C04_backoff_exact_until_cap.

Theorem C04_backoff_saturates :
  forall minb maxb,
    exists n0, 0 <= n0 /\
      forall n, n0 <= n -> nominal minb maxb n = eff default_max maxb.
Proof. exact nominal_saturates. Qed.
Print Assumptions C04_backoff_saturates.

Theorem C04_backoff_defaults :
  nominal None None 1 = 11 * sec /\ nominal None None 0 = 10 * sec.
Proof. exact nominal_defaults. Qed.
Print Assumptions C04_backoff_defaults.

Theorem C04_backoff_defaults_saturation :
  forall n, 0 <= n -> (nominal None None n = 600 * sec <-> 43 <= n).
Proof. exact nominal_defaults_saturation. Qed.
Print Assumptions C04_backoff_defaults_saturation.

Theorem C04_retry_at_bounds :
  forall now nom fuzz, fuzz_ok nom fuzz = true ->
    now + nom <= retry_at now nom fuzz < now + nom + sec.
Proof. exact retry_at_bounds. Qed.
Print Assumptions C04_retry_at_bounds.
