(* Props/C08.v -- property C08 (filter syntax: codec, lexer, parser, printer, grammar):
   theorem statements only. *)
From MB Require Import Base.
From MB.Filter Require Import Utf8 Ast Lex Parse Print Proofs.
From MB.Filter Require Import Grammar GrammarProofs RoundTrip.
Open Scope N_scope.

(* ---- UTF-8 codec ---- *)
Theorem C08_utf8_dec_enc :
  forall bs cs, utf8_dec bs = Some cs -> utf8_enc cs = bs.
Proof. exact utf8_dec_enc. Qed.
Print Assumptions C08_utf8_dec_enc.

Theorem C08_utf8_enc_dec :
  forall cs, forallb valid_rune cs = true -> utf8_dec (utf8_enc cs) = Some cs.
Proof. exact utf8_enc_dec. Qed.
Print Assumptions C08_utf8_enc_dec.

Theorem C08_utf8_dec_valid :
  forall bs cs, utf8_dec bs = Some cs -> forallb valid_rune cs = true.
Proof. exact utf8_dec_valid. Qed.
Print Assumptions C08_utf8_dec_valid.

(* ---- parser output ---- *)
Theorem C08_parsed_wf :
  forall ts c, parse_tokens ts = Some c -> wf_cond c = true.
Proof. exact parse_tokens_wf. Qed.
Print Assumptions C08_parsed_wf.

Theorem C08_parsed_utf8 :
  forall ts c, parse_tokens ts = Some c -> forall s, In s (cond_strs c) -> utf8_ok s.
Proof. exact parse_tokens_utf8. Qed.
Print Assumptions C08_parsed_utf8.

(* ---- print / parse round trip, token level ---- *)
Theorem C08_roundtrip_tokens :
  forall (uletter udigit : N -> bool) c,
    wf_cond c = true -> (forall s, In s (cond_strs c) -> utf8_ok s) ->
    parse_tokens (cond_tokens uletter udigit c) = Some c.
Proof. exact roundtrip_tokens. Qed.
Print Assumptions C08_roundtrip_tokens.

Theorem C08_roundtrip_parsed :
  forall (uletter udigit : N -> bool) ts c,
    parse_tokens ts = Some c -> parse_tokens (cond_tokens uletter udigit c) = Some c.
Proof. exact roundtrip_parsed. Qed.
Print Assumptions C08_roundtrip_parsed.

Theorem C08_print_total :
  forall (uletter udigit uprint : N -> bool) c,
    wf_cond c = true -> exists s, print_filter uletter udigit uprint c = Some s.
Proof. exact print_total. Qed.
Print Assumptions C08_print_total.

(* ---- fuel is never the reason for a rejection ---- *)
Theorem C08_lex_fuel :
  forall (uletter udigit : N -> bool) cs f,
    (length cs < f)%nat ->
    lex_from uletter udigit f cs = lex_from uletter udigit (S (length cs)) cs.
Proof. exact lex_from_fuel. Qed.
Print Assumptions C08_lex_fuel.

Theorem C08_parse_fuel :
  forall ts f, (3 * length ts + 3 <= f)%nat ->
    parse_cond f ts = parse_cond (3 * length ts + 3) ts.
Proof. exact parse_cond_fuel. Qed.
Print Assumptions C08_parse_fuel.

(* ---- the parser accepts exactly the (relaxed) documented grammar ---- *)
Theorem C08_parse_sound :
  forall ts c, parse_tokens ts = Some c -> G_cond ts c.
Proof. exact parse_sound. Qed.
Print Assumptions C08_parse_sound.

Theorem C08_parse_complete :
  forall ts c, G_cond ts c -> parse_tokens ts = Some c.
Proof. exact parse_complete. Qed.
Print Assumptions C08_parse_complete.

Theorem C08_grammar_unambiguous :
  forall ts c c', G_cond ts c -> G_cond ts c' -> c = c'.
Proof. exact G_cond_unambiguous. Qed.
Print Assumptions C08_grammar_unambiguous.

(* ---- relaxed vs strict (documented) grammar ---- *)
Theorem C08_strict_in_relaxed :
  forall ts c, Gs_cond ts c -> G_cond ts c.
Proof. exact strict_relaxed. Qed.
Print Assumptions C08_strict_in_relaxed.

(* stated for token lists the scanner can produce ([tok_lexable]); over arbitrary token
   lists it is false, see the STATEMENT-ISSUE note in Filter/GrammarProofs.v *)
Theorem C08_relaxed_vs_strict :
  forall ts c, Forall tok_lexable ts -> G_cond ts c ->
    exists ts', Gs_cond ts' c /\ length ts' = length ts /\
      Forall2 (fun t t' => t' = t \/ (exists v, t = TStr v /\ tok_value t' = v)) ts ts'.
Proof. exact relaxed_strict. Qed.
Print Assumptions C08_relaxed_vs_strict.

Theorem C08_relaxed_vs_strict_needs_lexable :
  exists ts c, G_cond ts c /\
    ~ (exists ts', Gs_cond ts' c /\ length ts' = length ts /\
         Forall2 (fun t t' => t' = t \/ (exists v, t = TStr v /\ tok_value t' = v)) ts ts').
Proof. exact relaxed_strict_needs_lexable. Qed.
Print Assumptions C08_relaxed_vs_strict_needs_lexable.

Theorem C08_lexer_output_lexable :
  forall (uletter udigit : N -> bool) s ts,
    lex uletter udigit s = Some ts -> Forall tok_lexable ts.
Proof. exact lex_lexable. Qed.
Print Assumptions C08_lexer_output_lexable.

Theorem C08_parse_string_strict :
  forall (uletter udigit : N -> bool) s c,
    parse_string uletter udigit s = Some c ->
    exists ts ts', lex uletter udigit s = Some ts /\ Gs_cond ts' c /\
      length ts' = length ts /\
      Forall2 (fun t t' => t' = t \/ (exists v, t = TStr v /\ tok_value t' = v)) ts ts'.
Proof. exact parse_string_strict. Qed.
Print Assumptions C08_parse_string_strict.

(* ---- print / parse round trip, string level ---- *)
Theorem C08_roundtrip_string_lex :
  forall (uletter udigit uprint : N -> bool) c s,
    wf_cond c = true -> (forall x, In x (cond_strs c) -> utf8_ok x) ->
    print_filter uletter udigit uprint c = Some s ->
    lex uletter udigit s = Some (cond_tokens uletter udigit c).
Proof. exact roundtrip_string_lex. Qed.
Print Assumptions C08_roundtrip_string_lex.

Theorem C08_roundtrip_string :
  forall (uletter udigit uprint : N -> bool) c s,
    wf_cond c = true -> (forall x, In x (cond_strs c) -> utf8_ok x) ->
    print_filter uletter udigit uprint c = Some s ->
    parse_string uletter udigit s = Some c.
Proof. exact roundtrip_string. Qed.
Print Assumptions C08_roundtrip_string.

Theorem C08_roundtrip_string_parsed :
  forall (uletter udigit uprint : N -> bool) s0 c,
    parse_string uletter udigit s0 = Some c ->
    exists s, print_filter uletter udigit uprint c = Some s /\
              parse_string uletter udigit s = Some c.
Proof. exact roundtrip_string_parsed. Qed.
Print Assumptions C08_roundtrip_string_parsed.
