(* Adapter.v -- model of services/grpc-subscriber.go streamWrapper.adaptIn: the translation of
   one StreamingPullRequest into the MessageStreamRequest the streamer (Streamer.v) consumes.
   No proofs here.

   An ack id string is observed as [Some n] (a well-formed UUID, n its index in the harness's
   pool) or [None] (does not parse). Any error is [None]: the request is refused as a whole and
   the stream ends. *)
From MB Require Import Base Streamer.
Open Scope list_scope.
Open Scope Z_scope.

Record sp_req := mkSp {
  sp_max_msgs : Z; sp_max_bytes : Z;          (* max_outstanding_messages / _bytes *)
  sp_acks : list (option N);                  (* ack_ids *)
  sp_mod_ids : list (option N);               (* modify_deadline_ack_ids *)
  sp_mod_secs : list Z }.                     (* modify_deadline_seconds *)

Record ms_req := mkMs {
  ms_fc : option fcl;                         (* FlowControl *)
  ms_ack : list N;                            (* Ack *)
  ms_delay : list N;                          (* Delay *)
  ms_delay_secs : Z }.                        (* DelaySeconds: one value for the whole request *)

Fixpoint all_some {A} (l : list (option A)) : option (list A) :=
  match l with
  | [] => Some []
  | None :: _ => None
  | Some x :: r => match all_some r with Some r' => Some (x :: r') | None => None end
  end.

(* "we don't support per-message delay, so take the max delay of the set", starting from 0 *)
Definition max_secs (l : list Z) : Z := fold_left Z.max l 0.

Definition adapt_in (initial : bool) (r : sp_req) : option ms_req :=
  match all_some (sp_acks r) with
  | None => None
  | Some acks =>
      if negb (Nat.eqb (length (sp_mod_secs r)) (length (sp_mod_ids r))) then None else
      match all_some (sp_mod_ids r) with
      | None => None
      | Some dl =>
          Some (mkMs (if initial then Some (effective_fc (sp_max_msgs r) (sp_max_bytes r)) else None)
                     acks dl
                     (match dl with [] => 0 | _ => max_secs (sp_mod_secs r) end))
      end
  end.

(* what the streamer's reader does with the translated request (message-streamer.go, reader
   goroutine): a request is a NACK of its Delay ids iff DelaySeconds <= 0 *)
Definition is_nack (m : ms_req) : bool := negb (Nat.eqb (length (ms_delay m)) 0) && (ms_delay_secs m <=? 0).

(* ---- comparison with the observed translation *)
Definition fcl_eqb (a b : fcl) : bool := (fm a =? fm b) && (fb a =? fb b).
Definition ms_eqb (a b : ms_req) : bool :=
  opt_eqb fcl_eqb (ms_fc a) (ms_fc b) && list_eqb N.eqb (ms_ack a) (ms_ack b) &&
  list_eqb N.eqb (ms_delay a) (ms_delay b) && (ms_delay_secs a =? ms_delay_secs b).

Definition acase := (bool * sp_req * option ms_req)%type.
Definition adapter_bad (cs : list (N * acase)) : list N :=
  flat_map (fun ic => let '(i, (ini, r, obs)) := ic in
                      if opt_eqb ms_eqb (adapt_in ini r) obs then [] else [i]) cs.

(* ---- the bridge to the streamer's flow-control accounting (Streamer.v) ----
   The reader goroutine deletes from [pending] the ids of Ack, and those of Delay when the request
   is a nack; a positive deadline leaves the accounting alone. *)
Definition reader_removes (m : ms_req) : list N :=
  ms_ack m ++ (if is_nack m then ms_delay m else []).

(* what the client gives up with a request: what it acknowledges, and what it nacks (deadline
   <= 0); a message whose deadline it extends it still holds *)
Definition given_up (acks dl : list N) (secs : list Z) : list N :=
  acks ++ map fst (filter (fun p => snd p <=? 0) (combine dl secs)).
