(* Faults.v -- executable model of faults/set.go and faults/description.go.
   No proofs here (see FaultsProofs.v) so the model still runs when a proof breaks.

   Mirrors:
     Description.match   faults/description.go
     Set.match, Set.Check, Set.Add, Set.Current, Set.prune   faults/set.go
   Modelled, not verified: Go maps (association lists with unique keys), sync/atomic
   (each Load / Add is one atomic LTS step), sync.RWMutex (Add is atomic). *)
From MB Require Import Base.
Open Scope Z_scope.

Definition params := smap.

Record desc := mkDesc { d_op : str; d_params : params; d_count : Z }.

(* every injected parameter is present in the call with an equal value *)
Definition params_sub (dp ps : params) : bool :=
  forallb (fun kv => match lookup (fst kv) ps with
                     | Some v => String.eqb v (snd kv)
                     | None => false
                     end) dp.

(* the part of Description.match that does not look at the count *)
Definition smatch (d : desc) (op : str) (ps : params) : bool :=
  String.eqb (d_op d) op && params_sub (d_params d) ps.

(* Description.match *)
Definition dmatch (d : desc) (op : str) (ps : params) : bool :=
  (0 <? d_count d) && smatch d op ps.

(* The set: descriptions in insertion order. The Go code keeps one slice per
   operation; [smatch] tests the operation, so the first match in the flat list is
   the first match in the per-operation slice. prune() only drops entries whose
   count is <= 0, which [dmatch] and [current] skip anyway, so it is invisible and the
   model never removes. *)
Definition fset := list desc.

Fixpoint find_match (s : fset) (op : str) (ps : params) (i : nat) : option nat :=
  match s with
  | [] => None
  | d :: s' => if dmatch d op ps then Some i else find_match s' op ps (S i)
  end.

Definition dec (d : desc) : desc := mkDesc (d_op d) (d_params d) (d_count d - 1).

Fixpoint dec_at (i : nat) (s : fset) : fset :=
  match s, i with
  | [], _ => []
  | d :: s', O => dec d :: s'
  | d :: s', S i' => d :: dec_at i' s'
  end.

Definition count_at (i : nat) (s : fset) : Z :=
  match nth_error s i with Some d => d_count d | None => 0 end.

(* ---- sequential semantics (one caller at a time) ---- *)

(* Set.Check: result is None (no fault) or Some (index of the description that fired,
   remaining count passed to OnFault) *)
Definition check (s : fset) (op : str) (ps : params) : fset * option (nat * Z) :=
  match find_match s op ps O with
  | None => (s, None)
  | Some i => (dec_at i s, Some (i, count_at i s - 1))
  end.

Definition add (s : fset) (d : desc) : fset := s ++ [d].

(* Set.Current restricted to one operation: the live descriptions, in order, with
   their remaining counts (index in the flat list, remaining) *)
Fixpoint current_from (s : fset) (op : str) (i : nat) : list (nat * Z) :=
  match s with
  | [] => []
  | d :: s' =>
      (if (0 <? d_count d) && String.eqb (d_op d) op then [(i, d_count d)] else [])
        ++ current_from s' op (S i)
  end.
Definition current (s : fset) (op : str) : list (nat * Z) := current_from s op O.

Inductive sop :=
| SAdd (d : desc)
| SCheck (op : str) (ps : params)
| SCurrent (op : str).

Inductive sout :=
| OUnit
| OCheck (r : option (nat * Z))
| OCurrent (l : list (nat * Z)).

Definition sstep (s : fset) (o : sop) : fset * sout :=
  match o with
  | SAdd d => (add s d, OUnit)
  | SCheck op ps => let '(s', r) := check s op ps in (s', OCheck r)
  | SCurrent op => (s, OCurrent (current s op))
  end.

Fixpoint srun (s : fset) (os : list sop) : list sout :=
  match os with
  | [] => []
  | o :: os' => let '(s', r) := sstep s o in r :: srun s' os'
  end.

(* ---- concurrent semantics: any number of callers, atomic-step granularity ---- *)

Inductive tstate :=
| TScan (op : str) (ps : params) (j : nat)      (* inside Set.match, about to load Count of entry j *)
| TMatched (op : str) (ps : params) (j : nat)   (* match returned entry j; about to atomic.AddInt64(-1) *)
| TDone (op : str) (ps : params) (r : option nat) (seen : nat).
    (* returned: r = Some j, fault of entry j ran; r = None, no fault;
       seen = number of entries the last scan covered (ghost) *)

Record cfg := mkCfg {
  c_set : fset;
  c_init : list Z;        (* ghost: count each description was added with *)
  c_decs : list nat;      (* ghost: decrements performed on each description *)
  c_thr : list tstate
}.

Definition cfg0 : cfg := mkCfg [] [] [] [].

Fixpoint upd_nth {A} (i : nat) (f : A -> A) (l : list A) : list A :=
  match l, i with
  | [], _ => []
  | x :: l', O => f x :: l'
  | x :: l', S i' => x :: upd_nth i' f l'
  end.

Inductive label :=
| LAdd (d : desc)                      (* Set.Add *)
| LCall (op : str) (ps : params)       (* a new caller enters Set.Check *)
| LStep (t : nat).                     (* caller t performs its next atomic action *)

(* one atomic action of caller state [ts] against the shared set *)
Definition thread_step (c : cfg) (ts : tstate) : cfg * tstate :=
  match ts with
  | TScan op ps j =>
      match nth_error (c_set c) j with
      | None => (c, TDone op ps None j)
      | Some d => if dmatch d op ps then (c, TMatched op ps j) else (c, TScan op ps (S j))
      end
  | TMatched op ps j =>
      let remaining := count_at j (c_set c) - 1 in
      let c' := mkCfg (dec_at j (c_set c)) (c_init c) (upd_nth j S (c_decs c)) (c_thr c) in
      if remaining <? 0 then (c', TScan op ps O)       (* lost the race: continue *)
      else (c', TDone op ps (Some j) j)
  | TDone _ _ _ _ => (c, ts)
  end.

Definition lstep (c : cfg) (l : label) : cfg :=
  match l with
  | LAdd d => mkCfg (c_set c ++ [d]) (c_init c ++ [d_count d]) (c_decs c ++ [O]) (c_thr c)
  | LCall op ps => mkCfg (c_set c) (c_init c) (c_decs c) (c_thr c ++ [TScan op ps O])
  | LStep t =>
      match nth_error (c_thr c) t with
      | None => c
      | Some ts =>
          let '(c', ts') := thread_step c ts in
          mkCfg (c_set c') (c_init c') (c_decs c') (upd_nth t (fun _ => ts') (c_thr c'))
      end
  end.

Definition lrun (ls : list label) : cfg := fold_left lstep ls cfg0.

Definition fired_by (j : nat) (ts : tstate) : bool :=
  match ts with TDone _ _ (Some k) _ => Nat.eqb j k | _ => false end.
Definition fired (c : cfg) (j : nat) : nat := length (filter (fired_by j) (c_thr c)).

Definition is_done (ts : tstate) : bool := match ts with TDone _ _ _ _ => true | _ => false end.
Definition quiescent (c : cfg) : bool := forallb is_done (c_thr c).

(* what the harness observes for a forced schedule: the result of every caller *)
Definition results (c : cfg) : list (option (option nat)) :=
  map (fun ts => match ts with TDone _ _ r _ => Some r | _ => None end) (c_thr c).

(* run caller t until it next reaches a yield point (TMatched) or returns; fuel bounds
   the scan (length of the set + 2 always suffices, see FaultsProofs) *)
Fixpoint run_to_yield (fuel : nat) (c : cfg) (t : nat) : cfg :=
  match fuel with
  | O => c
  | S f =>
      match nth_error (c_thr c) t with
      | Some (TScan _ _ _) => run_to_yield f (lstep c (LStep t)) t
      | _ => c
      end
  end.

(* a macro step of the forced-schedule harness: resume caller t from its yield point
   (decrement), then let it run to its next yield point or return *)
Definition macro (c : cfg) (t : nat) : cfg :=
  let c1 := match nth_error (c_thr c) t with
            | Some (TMatched _ _ _) => lstep c (LStep t)
            | _ => c
            end in
  run_to_yield (length (c_set c1) + 2) c1 t.
