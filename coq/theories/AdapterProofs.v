(* AdapterProofs.v -- what the StreamingPull request adapter guarantees (model: Adapter.v). *)
From MB Require Import Base Streamer StreamerProofs Adapter.
Open Scope list_scope.
Open Scope Z_scope.

Lemma all_some_map {A} (l : list (option A)) r : all_some l = Some r -> l = map Some r.
Proof.
  revert r. induction l as [|[x|] l IH]; cbn [all_some]; intros r H.
  - injection H as <-. reflexivity.
  - destruct (all_some l) as [r'|]; [|discriminate]. injection H as <-. cbn [map]. f_equal. apply IH. reflexivity.
  - discriminate.
Qed.

Lemma all_some_of_map {A} (r : list A) : all_some (map Some r) = Some r.
Proof. induction r as [|x r IH]; cbn [map all_some]; [reflexivity|]. rewrite IH. reflexivity. Qed.

Lemma fold_max_ge l : forall a, a <= fold_left Z.max l a.
Proof. induction l as [|x l IH]; cbn [fold_left]; intros a; [lia|]. specialize (IH (Z.max a x)). lia. Qed.

Lemma fold_max_in l : forall a x, In x l -> x <= fold_left Z.max l a.
Proof.
  induction l as [|y l IH]; cbn [fold_left In]; intros a x H; [contradiction|].
  destruct H as [->|H]; [|apply IH; exact H].
  pose proof (fold_max_ge l (Z.max a x)). lia.
Qed.

Lemma fold_max_bound l : forall a b, a <= b -> (forall x, In x l -> x <= b) -> fold_left Z.max l a <= b.
Proof.
  induction l as [|y l IH]; cbn [fold_left]; intros a b Ha Hl; [exact Ha|].
  apply IH; [|intros x Hx; apply Hl; right; exact Hx].
  specialize (Hl y (or_introl eq_refl)). lia.
Qed.

Lemma max_secs_nonneg l : 0 <= max_secs l.
Proof. apply fold_max_ge. Qed.

Lemma max_secs_in l x : In x l -> x <= max_secs l.
Proof. apply fold_max_in. Qed.

(* the value is attained: 0 (all entries <= 0) or one of the entries *)
Lemma max_secs_attained l : max_secs l = 0 \/ In (max_secs l) l.
Proof.
  unfold max_secs.
  assert (G : forall a, fold_left Z.max l a = a \/ In (fold_left Z.max l a) l).
  { induction l as [|y l IH]; cbn [fold_left In]; intros a; [left; reflexivity|].
    destruct (IH (Z.max a y)) as [E|E]; [|right; right; exact E].
    rewrite E. destruct (Z.max_spec a y) as [[_ ->]|[_ ->]]; [right; left; reflexivity|left; reflexivity]. }
  apply G.
Qed.

Section Adapt.
  Variables (initial : bool) (r : sp_req) (m : ms_req).
  Hypothesis H : adapt_in initial r = Some m.

  Lemma adapt_run : exists acks dl,
      all_some (sp_acks r) = Some acks /\ all_some (sp_mod_ids r) = Some dl /\
      length (sp_mod_secs r) = length (sp_mod_ids r) /\
      m = mkMs (if initial then Some (effective_fc (sp_max_msgs r) (sp_max_bytes r)) else None) acks dl
               (match dl with [] => 0 | _ => max_secs (sp_mod_secs r) end).
  Proof.
    unfold adapt_in in H.
    destruct (all_some (sp_acks r)) as [acks|]; [|discriminate].
    destruct (Nat.eqb (length (sp_mod_secs r)) (length (sp_mod_ids r))) eqn:E; cbn [negb] in H; [|discriminate].
    destruct (all_some (sp_mod_ids r)) as [dl|]; [|discriminate].
    injection H as <-. exists acks, dl. repeat split. apply Nat.eqb_eq. exact E.
  Qed.

  (* every ack id and every deadline id of the request is forwarded, in order, none added *)
  Theorem adapt_forwards_ids : sp_acks r = map Some (ms_ack m) /\ sp_mod_ids r = map Some (ms_delay m).
  Proof.
    destruct adapt_run as [acks [dl [A [D [_ ->]]]]]. cbn [ms_ack ms_delay].
    split; apply all_some_map; assumption.
  Qed.

  (* flow control is set by the first request of a stream only, with the server's defaults for
     what the client left unset; the limits are valid *)
  Theorem adapt_flow_control :
    ms_fc m = (if initial then Some (effective_fc (sp_max_msgs r) (sp_max_bytes r)) else None) /\
    (forall fc, ms_fc m = Some fc -> limits_ok fc).
  Proof.
    destruct adapt_run as [acks [dl [_ [_ [_ ->]]]]]. cbn [ms_fc]. split; [reflexivity|].
    intros fc E. destruct initial; [|discriminate]. injection E as <-. apply effective_fc_ok.
  Qed.

  (* one deadline for the whole request: the largest requested one, never negative *)
  Theorem adapt_deadline :
    0 <= ms_delay_secs m /\ (forall s, In s (sp_mod_secs r) -> ms_delay m <> [] -> s <= ms_delay_secs m) /\
    (ms_delay_secs m = 0 \/ In (ms_delay_secs m) (sp_mod_secs r)).
  Proof.
    destruct adapt_run as [acks [dl [_ [_ [_ ->]]]]]. cbn [ms_delay_secs ms_delay].
    destruct dl as [|d dl].
    - split; [lia|]. split; [intros s _ C; contradiction C; reflexivity|left; reflexivity].
    - split; [apply max_secs_nonneg|]. split; [intros s Hs _; apply max_secs_in; exact Hs|apply max_secs_attained].
  Qed.

  (* a request that extends the deadline of at least one message is never treated as a nack: no
     message the client explicitly keeps is made redeliverable (and freed from the flow-control
     window) by the adapter; a request is a nack exactly when every entry asks for one *)
  Theorem adapt_extension_never_nack :
    (exists s, In s (sp_mod_secs r) /\ 0 < s) -> is_nack m = false.
  Proof.
    intros [s [Hs Hp]]. destruct adapt_run as [acks [dl [_ [D [L E]]]]].
    destruct adapt_deadline as [_ [Hmax _]].
    unfold is_nack. destruct (ms_delay m) as [|d dl'] eqn:Ed; [reflexivity|]. cbn [length Nat.eqb negb andb].
    apply Z.leb_gt. specialize (Hmax s Hs).
    assert (s <= ms_delay_secs m) by (apply Hmax; discriminate). lia.
  Qed.

  Theorem adapt_nack_iff :
    is_nack m = true <-> ms_delay m <> [] /\ forall s, In s (sp_mod_secs r) -> s <= 0.
  Proof.
    destruct adapt_deadline as [H0 [Hmax Hatt]]. unfold is_nack. split.
    - intros Hn. apply andb_true_iff in Hn as [Hl Hz]. apply Z.leb_le in Hz.
      assert (Hne : ms_delay m <> []) by (destruct (ms_delay m); [discriminate|discriminate]).
      split; [exact Hne|]. intros s Hs. specialize (Hmax s Hs Hne). lia.
    - intros [Hne Hall]. apply andb_true_iff. split.
      + destruct (ms_delay m); [contradiction Hne; reflexivity|reflexivity].
      + apply Z.leb_le. destruct Hatt as [->|Hin]; [lia|]. apply Hall. exact Hin.
  Qed.
End Adapt.

(* a malformed request is refused as a whole *)
Theorem adapt_refuses initial r :
  (In None (sp_acks r) \/ In None (sp_mod_ids r) \/ length (sp_mod_secs r) <> length (sp_mod_ids r)) ->
  adapt_in initial r = None.
Proof.
  assert (G : forall A (l : list (option A)), In None l -> all_some l = None).
  { intros A l. induction l as [|[x|] l IH]; cbn [In all_some]; intros Hn; [contradiction| |reflexivity].
    destruct Hn as [Hn|Hn]; [discriminate|]. rewrite (IH Hn). reflexivity. }
  intros [Hn|[Hn|Hn]]; unfold adapt_in.
  - rewrite (G _ _ Hn). reflexivity.
  - destruct (all_some (sp_acks r)); [|reflexivity].
    destruct (negb _); [reflexivity|]. rewrite (G _ _ Hn). reflexivity.
  - destruct (all_some (sp_acks r)); [|reflexivity].
    apply Nat.eqb_neq in Hn. rewrite Hn. reflexivity.
Qed.

(* and a well-formed one is accepted *)
Theorem adapt_accepts initial mm mb acks dl secs :
  length secs = length dl ->
  exists m, adapt_in initial (mkSp mm mb (map Some acks) (map Some dl) secs) = Some m.
Proof.
  intros L. unfold adapt_in. cbn [sp_acks sp_mod_ids sp_mod_secs sp_max_msgs sp_max_bytes].
  rewrite !all_some_of_map, map_length, L, Nat.eqb_refl. cbn [negb]. eexists. reflexivity.
Qed.

(* non-vacuity: the request of the mixed-modack scenario (nack one, extend one) *)
Example adapt_mixed :
  adapt_in false (mkSp 0 0 [] [Some 1%N; Some 2%N] [0; 60]) = Some (mkMs None [] [1%N; 2%N] 60) /\
  is_nack (mkMs None [] [1%N; 2%N] 60) = false /\
  adapt_in true (mkSp 2 0 [Some 7%N] [Some 1%N] [0]) = Some (mkMs (Some (mkFc 2 (10 * 1024 * 1024))) [7%N] [1%N] 0) /\
  is_nack (mkMs None [] [1%N] 0) = true.
Proof. vm_compute. repeat split. Qed.

(* ---- bridge to the streamer LTS: whatever mixture of acks, nacks and extensions one request
   carries, the reader removes from the flow-control accounting only ids the client gave up -
   so the LServerRemove step it performs is enabled right after the client's own LClientSettle,
   and the flow-control bound (StreamerProofs.Bound) is preserved across the request *)

Lemma filter_all {A} (f : A -> bool) l : (forall x, In x l -> f x = true) -> filter f l = l.
Proof.
  induction l as [|x l IH]; cbn [filter]; intros H; [reflexivity|].
  rewrite (H x (or_introl eq_refl)). f_equal. apply IH. intros y Hy. apply H. right. exact Hy.
Qed.

Lemma map_fst_combine {A B} (l : list A) (l' : list B) : length l = length l' -> map fst (combine l l') = l.
Proof.
  revert l'. induction l as [|x l IH]; intros [|y l'] H; cbn in *; try reflexivity; try discriminate.
  f_equal. apply IH. injection H as H. exact H.
Qed.

Theorem reader_removes_given_up initial r m :
  adapt_in initial r = Some m ->
  incl (reader_removes m) (given_up (ms_ack m) (ms_delay m) (sp_mod_secs r)).
Proof.
  intros H. unfold reader_removes, given_up.
  apply incl_app; [apply incl_appl, incl_refl|].
  destruct (is_nack m) eqn:En; [|intros x []].
  apply incl_appr.
  pose proof (adapt_nack_iff initial r m H) as [Hn _]. destruct (Hn En) as [_ Hall].
  destruct (adapt_forwards_ids initial r m H) as [_ Hids].
  destruct (adapt_run initial r m H) as [acks [dl [_ [_ [L _]]]]].
  assert (Ll : length (ms_delay m) = length (sp_mod_secs r)).
  { rewrite L, Hids, map_length. reflexivity. }
  rewrite filter_all.
  - rewrite (map_fst_combine _ _ Ll). apply incl_refl.
  - intros [i s] Hin. cbn [snd]. apply Z.leb_le. apply Hall. eapply in_combine_r. exact Hin.
Qed.

Lemma mem_in i l : mem i l = true <-> In i l.
Proof.
  unfold mem. rewrite existsb_exists. split.
  - intros [x [Hx E]]. apply N.eqb_eq in E. subst. exact Hx.
  - intros Hi. exists i. split; [exact Hi|apply N.eqb_refl].
Qed.

(* the two steps of one request: the client settles what it gives up, the reader removes what the
   translated request tells it to: always enabled, and the bound survives *)
Theorem request_keeps_bound initial r m s :
  adapt_in initial r = Some m -> Bound s ->
  let g := given_up (ms_ack m) (ms_delay m) (sp_mod_secs r) in
  exists s1 s2, step s (LClientSettle g) = Some s1 /\ step s1 (LServerRemove (reader_removes m)) = Some s2 /\ Bound s2.
Proof.
  intros H HB g.
  assert (E1 : step s (LClientSettle g) = Some (mkS (fc s) (pending s) (filter (fun i => negb (mem i g)) (client s)) (tok s) (pc s))).
  { unfold step. destruct (pc s); reflexivity. }
  eexists. exists (mkS (fc s) (remove_ids (reader_removes m) (pending s)) (filter (fun i => negb (mem i g)) (client s)) true (pc s)).
  split; [exact E1|].
  assert (E2 : step (mkS (fc s) (pending s) (filter (fun i => negb (mem i g)) (client s)) (tok s) (pc s)) (LServerRemove (reader_removes m)) =
               Some (mkS (fc s) (remove_ids (reader_removes m) (pending s)) (filter (fun i => negb (mem i g)) (client s)) true (pc s))).
  { unfold step. cbn [pc client pending fc tok].
    assert (F : forallb (fun i => negb (mem i (filter (fun i0 => negb (mem i0 g)) (client s)))) (reader_removes m) = true).
    { apply forallb_forall. intros i Hi. apply negb_true_iff. apply not_true_is_false. intros Hm.
      apply mem_in in Hm. apply filter_In in Hm as [_ Hng]. apply negb_true_iff in Hng.
      apply (reader_removes_given_up initial r m H) in Hi. fold g in Hi. apply mem_in in Hi. rewrite Hi in Hng. discriminate. }
    destruct (pc s); rewrite F; reflexivity. }
  split; [exact E2|].
  refine (bound_step _ (LServerRemove (reader_removes m)) _ _ I E2).
  exact (bound_step _ (LClientSettle g) _ HB I E1).
Qed.
