(* Push.v -- model of actions/http-push-streamer.go: HTTP status
   classification (Send goroutine) and the adaptive flow-control window
   (Receive).  Durations are Z nanoseconds. *)
From MB Require Import Base.
Open Scope Z_scope.

Inductive outcome := FastAck | SlowAck | Nack.

Definition outcome_eqb (a b : outcome) : bool :=
  match a, b with
  | FastAck, FastAck | SlowAck, SlowAck | Nack, Nack => true
  | _, _ => false
  end.

(* http.StatusProcessing, StatusOK, StatusCreated, StatusAccepted, StatusNoContent *)
Definition success_status (code : Z) : bool :=
  (code =? 102) || (code =? 200) || (code =? 201) || (code =? 202) || (code =? 204).

(* which queue the delivery id is put on *)
Definition classify (transport_err : bool) (status dur : Z) : outcome :=
  if transport_err then Nack
  else if success_status status
       then (if dur <? 1000000000 then FastAck else SlowAck)
       else Nack.

Definition acked (o : outcome) : bool :=
  match o with Nack => false | _ => true end.

Definition window_init : Z := 1.
Definition window_cap : Z := 1000.
Definition max_bytes : Z := 10000000.

(* ev = (kind of batch, batch size k = len(ret.Ack) or len(ret.Nack), k >= 1) *)
Definition window_step (w : Z) (ev : outcome * Z) : Z :=
  let (o, k) := ev in
  match o with
  | FastAck =>
      if w <? 1000 then (let mm := w + k in if 1000 <? mm then 1000 else mm) else w
  | SlowAck =>
      if 1 <? w then (let mm := w - k in if mm <? 1 then 1 else mm) else w
  | Nack =>
      if 1 <? w then (let mm := w - 10 * k in if mm <? 1 then 1 else mm) else w
  end.

(* whether a FlowControl message accompanies the ack/nack batch *)
Definition window_sends_fc (w : Z) (ev : outcome * Z) : bool :=
  match fst ev with
  | FastAck => w <? 1000
  | SlowAck => 1 <? w
  | Nack => 1 <? w
  end.

(* the FlowControl (MaxMessages, MaxBytes) sent with the batch, if any *)
Definition window_fc (w : Z) (ev : outcome * Z) : option (Z * Z) :=
  if window_sends_fc w ev then Some (window_step w ev, max_bytes) else None.

Definition window_run (evs : list (outcome * Z)) : Z :=
  fold_left window_step evs 1.

Example classify_200_fast : classify false 200 5000000 = FastAck.
Proof. vm_compute. reflexivity. Qed.
Example classify_204_slow : classify false 204 1000000000 = SlowAck.
Proof. vm_compute. reflexivity. Qed.
Example classify_102_fast : classify false 102 999999999 = FastAck.
Proof. vm_compute. reflexivity. Qed.
Example classify_203_nack : classify false 203 5 = Nack.
Proof. vm_compute. reflexivity. Qed.
Example classify_500_nack : classify false 500 5 = Nack.
Proof. vm_compute. reflexivity. Qed.
Example classify_err_nack : classify true 200 5 = Nack.
Proof. vm_compute. reflexivity. Qed.

Example window_run_ex1 :
  window_run [(FastAck, 1); (FastAck, 3); (SlowAck, 1); (FastAck, 10); (Nack, 1)] = 4.
Proof. vm_compute. reflexivity. Qed.
Example window_run_ex2 : window_run [(FastAck, 999); (FastAck, 5)] = 1000.
Proof. vm_compute. reflexivity. Qed.
Example window_run_ex3 : window_run [(FastAck, 2000); (Nack, 200)] = 1.
Proof. vm_compute. reflexivity. Qed.
Example window_fc_ex1 : window_fc 1 (SlowAck, 1) = None.
Proof. vm_compute. reflexivity. Qed.
Example window_fc_ex2 : window_fc 1000 (FastAck, 1) = None.
Proof. vm_compute. reflexivity. Qed.
Example window_fc_ex3 : window_fc 5 (Nack, 1) = Some (1, 10000000).
Proof. vm_compute. reflexivity. Qed.
