(* Filter/Utf8.v -- UTF-8 as Go's unicode/utf8 decodes and encodes it. *)
From MB Require Import Base.
Open Scope N_scope.

Fixpoint bytes_of (s : string) : list N :=
  match s with EmptyString => [] | String a r => N_of_ascii a :: bytes_of r end.
Fixpoint str_of (bs : list N) : string :=
  match bs with [] => EmptyString | b :: r => String (ascii_of_N b) (str_of r) end.

Definition cont (b : N) : bool := (128 <=? b) && (b <=? 191).
Definition between (lo x hi : N) : bool := (lo <=? x) && (x <=? hi).

(* a Unicode scalar value: what utf8.ValidRune accepts *)
Definition valid_rune (c : N) : bool :=
  (c <? 55296) || ((57343 <? c) && (c <=? 1114111)).

(* strict decoding: None on any ill-formed sequence (text/scanner reports
   "invalid UTF-8 encoding" for those; utf8.DecodeRune returns RuneError,1) *)
Fixpoint utf8_dec (bs : list N) : option (list N) :=
  match bs with
  | [] => Some []
  | b0 :: r0 =>
      if b0 <? 128 then option_map (cons b0) (utf8_dec r0)
      else if between 194 b0 223 then
        match r0 with
        | b1 :: r1 =>
            if cont b1 then option_map (cons ((b0 - 192) * 64 + (b1 - 128))) (utf8_dec r1)
            else None
        | _ => None
        end
      else if between 224 b0 239 then
        match r0 with
        | b1 :: b2 :: r2 =>
            if between (if b0 =? 224 then 160 else 128) b1 (if b0 =? 237 then 159 else 191)
               && cont b2
            then option_map (cons ((b0 - 224) * 4096 + (b1 - 128) * 64 + (b2 - 128))) (utf8_dec r2)
            else None
        | _ => None
        end
      else if between 240 b0 244 then
        match r0 with
        | b1 :: b2 :: b3 :: r3 =>
            if between (if b0 =? 240 then 144 else 128) b1 (if b0 =? 244 then 143 else 191)
               && cont b2 && cont b3
            then option_map (cons ((b0 - 240) * 262144 + (b1 - 128) * 4096 + (b2 - 128) * 64 + (b3 - 128)))
                            (utf8_dec r3)
            else None
        | _ => None
        end
      else None
  end.

(* utf8.AppendRune / string(rune): invalid runes become U+FFFD *)
Definition enc_rune (c : N) : list N :=
  let c := if valid_rune c then c else 65533 in
  if c <? 128 then [c]
  else if c <? 2048 then [192 + c / 64; 128 + c mod 64]
  else if c <? 65536 then [224 + c / 4096; 128 + (c / 64) mod 64; 128 + c mod 64]
  else [240 + c / 262144; 128 + (c / 4096) mod 64; 128 + (c / 64) mod 64; 128 + c mod 64].

Definition utf8_enc (cs : list N) : list N := flat_map enc_rune cs.

Definition dec_str (s : str) : option (list N) := utf8_dec (bytes_of s).
Definition enc_str (cs : list N) : str := str_of (utf8_enc cs).

(* code points of an ASCII literal *)
Definition cps (s : string) : list N := bytes_of s.
