(* Filter/PrintProofs.v -- string-level round trip  print -> lex:
   the text [print_filter] produces for a condition lexes to [cond_tokens] of it. *)
From MB Require Import Base.
From MB.Filter Require Import Utf8 Ast Lex Print Utf8Proofs LexProofs.
Require Import ZifyN ZifyNat ZifyBool.
Ltac Zify.zify_post_hook ::= Z.div_mod_to_equations.
Open Scope N_scope.

(* ---- every string of the AST is well-formed UTF-8 ---- *)
Definition str_ok (s : str) : Prop := exists cs, dec_str s = Some cs.

Definition basic_dec_ok (b : basic) : Prop :=
  match b with
  | BHas n => str_ok n
  | BVal n _ v => str_ok n /\ str_ok v
  | BPrefix n v => str_ok n /\ str_ok v
  end.

Fixpoint cond_dec_ok (c : cond) : Prop :=
  match c with
  | Cond t _ ts => term_dec_ok t /\ terms_dec_ok ts
  end
with term_dec_ok (t : term) : Prop :=
  match t with
  | TmBasic _ b => basic_dec_ok b
  | TmSub _ c => cond_dec_ok c
  end
with terms_dec_ok (ts : terms) : Prop :=
  match ts with
  | TNil => True
  | TCons t r => term_dec_ok t /\ terms_dec_ok r
  end.

(* ---- generic facts ---- *)
Lemma ascii_enc l : Forall (fun b => b < 128) l -> utf8_enc l = l.
Proof.
  induction 1 as [|b l Hb _ IH]; [reflexivity|].
  unfold utf8_enc in *. cbn [flat_map]. rewrite IH.
  destruct (enc1 b Hb) as [_ ->]. reflexivity.
Qed.

Lemma dec_lenient_strict_n n : forall bs cs, (length bs <= n)%nat ->
  utf8_dec bs = Some cs -> dec_lenient bs = map Rune cs.
Proof.
  induction n as [|n IH]; intros bs cs Hn H.
  - destruct bs; [|cbn in Hn; lia]. cbn in H. inversion H. reflexivity.
  - destruct bs as [|b0 r0]; [cbn in H; inversion H; reflexivity|].
    cbn [utf8_dec] in H. cbn [dec_lenient]. cbn [length] in Hn.
    destruct (b0 <? 128).
    { destruct (utf8_dec r0) as [l|] eqn:D; [|discriminate]. inversion H; subst.
      cbn [map]. f_equal. apply IH; [lia|exact D]. }
    destruct (between 194 b0 223).
    { destruct r0 as [|b1 r1]; [discriminate|].
      destruct (cont b1); [|discriminate].
      destruct (utf8_dec r1) as [l|] eqn:D; [|discriminate]. inversion H; subst.
      cbn [map]. f_equal. apply IH; [cbn [length] in Hn; lia|exact D]. }
    destruct (between 224 b0 239).
    { destruct r0 as [|b1 [|b2 r2]]; try discriminate.
      match type of H with (if ?x then _ else _) = _ => destruct x; [|discriminate] end.
      destruct (utf8_dec r2) as [l|] eqn:D; [|discriminate]. inversion H; subst.
      cbn [map]. f_equal. apply IH; [cbn [length] in Hn; lia|exact D]. }
    destruct (between 240 b0 244); [|discriminate].
    destruct r0 as [|b1 [|b2 [|b3 r3]]]; try discriminate.
    match type of H with (if ?x then _ else _) = _ => destruct x; [|discriminate] end.
    destruct (utf8_dec r3) as [l|] eqn:D; [|discriminate]. inversion H; subst.
    cbn [map]. f_equal. apply IH; [cbn [length] in Hn; lia|exact D].
Qed.

Lemma dec_lenient_strict bs cs : utf8_dec bs = Some cs -> dec_lenient bs = map Rune cs.
Proof. apply (dec_lenient_strict_n (length bs)). apply le_n. Qed.

(* ---- hexadecimal digits ---- *)
Lemma hexdigit_range d : d < 16 -> 48 <= hexdigit d < 128.
Proof. intros H. unfold hexdigit. destruct (N.ltb_spec d 10); lia. Qed.

Lemma hexv_hexdigit d : d < 16 -> hexv (hexdigit d) = Some d.
Proof.
  intros H. unfold hexdigit, hexv. destruct (N.ltb_spec d 10).
  - assert (E : (48 <=? 48 + d) && (48 + d <=? 57) = true) by lia. rewrite E. f_equal. lia.
  - assert (E1 : (48 <=? 87 + d) && (87 + d <=? 57) = false) by lia. rewrite E1.
    assert (E2 : (97 <=? 87 + d) && (87 + d <=? 102) = true) by lia. rewrite E2. f_equal. lia.
Qed.

Lemma hexdigits_range n : forall v, Forall (fun b => 48 <= b < 128) (hexdigits n v).
Proof.
  induction n as [|n IH]; intros v; cbn [hexdigits]; [constructor|].
  apply Forall_app. split; [apply IH|]. constructor; [|constructor].
  apply hexdigit_range. apply N.mod_lt. discriminate.
Qed.

Lemma hexnum_app a : forall b acc,
  hexnum (a ++ b) acc = match hexnum a acc with Some x => hexnum b x | None => None end.
Proof.
  induction a as [|d a IH]; intros b acc; cbn [app hexnum]; [reflexivity|].
  destruct (hexv d); [apply IH|reflexivity].
Qed.

Lemma hexnum_hexdigits n : forall v acc,
  hexnum (hexdigits n v) acc = Some (acc * 16 ^ N.of_nat n + v mod 16 ^ N.of_nat n).
Proof.
  induction n as [|n IH]; intros v acc.
  - cbn [hexdigits hexnum]. change (16 ^ N.of_nat 0) with 1. rewrite N.mod_1_r. f_equal. lia.
  - cbn [hexdigits]. rewrite hexnum_app, IH. cbn [hexnum].
    rewrite hexv_hexdigit by (apply N.mod_lt; discriminate).
    rewrite Nat2N.inj_succ, N.pow_succ_r'. set (p := 16 ^ N.of_nat n).
    rewrite (N.mod_mul_r v 16 p) by (try discriminate; subst p; apply N.pow_nonzero; discriminate).
    f_equal. lia.
Qed.

Lemma hexnum_hexdigits0 n v : v < 16 ^ N.of_nat n -> hexnum (hexdigits n v) 0 = Some v.
Proof. intros H. rewrite hexnum_hexdigits, N.mod_small by exact H. reflexivity. Qed.

(* ---- the scanner on escapes: one-step unfoldings ---- *)
Lemma ss_quote r acc : scan_string (34 :: r) acc = Some (rev acc, r).
Proof. reflexivity. Qed.

Lemma ss_plain c r acc : c <> 34 -> c <> 10 -> c <> 92 ->
  scan_string (c :: r) acc = scan_string r (c :: acc).
Proof.
  intros H1 H2 H3. cbn [scan_string].
  destruct (N.eqb_spec c 34); [contradiction|].
  destruct (N.eqb_spec c 10); [contradiction|].
  destruct (N.eqb_spec c 92); [contradiction|]. reflexivity.
Qed.

Lemma ss_x d1 d2 r acc :
  scan_string (92 :: 120 :: d1 :: d2 :: r) acc =
  match hexnum [d1; d2] 0 with Some v => scan_string r (v :: acc) | None => None end.
Proof. reflexivity. Qed.

Lemma ss_u d1 d2 d3 d4 r acc :
  scan_string (92 :: 117 :: d1 :: d2 :: d3 :: d4 :: r) acc =
  match hexnum [d1; d2; d3; d4] 0 with
  | Some v => if valid_rune v then scan_string r (v :: acc) else None
  | None => None
  end.
Proof. reflexivity. Qed.

Lemma ss_U d1 d2 d3 d4 d5 d6 d7 d8 r acc :
  scan_string (92 :: 85 :: d1 :: d2 :: d3 :: d4 :: d5 :: d6 :: d7 :: d8 :: r) acc =
  match hexnum [d1; d2; d3; d4; d5; d6; d7; d8] 0 with
  | Some v => if valid_rune v then scan_string r (v :: acc) else None
  | None => None
  end.
Proof. reflexivity. Qed.

Lemma hexdigits2 v : exists d1 d2, hexdigits 2 v = [d1; d2].
Proof. cbn [hexdigits app]. eauto. Qed.
Lemma hexdigits4 v : exists d1 d2 d3 d4, hexdigits 4 v = [d1; d2; d3; d4].
Proof. cbn [hexdigits app]. eauto 6. Qed.
Lemma hexdigits8 v : exists d1 d2 d3 d4 d5 d6 d7 d8,
  hexdigits 8 v = [d1; d2; d3; d4; d5; d6; d7; d8].
Proof. cbn [hexdigits app]. eauto 10. Qed.

(* ---- quoting one string, scanned back: depends on [uprint] only ---- *)
Section QuoteScan.
  Variable uprint : N -> bool.

  Local Notation is_print := (is_print uprint).

  (* [quote_rune] at code-point level: the printable branch emits the rune itself *)
  Definition quote_rune_cp (c : N) : list N :=
    if (c =? 34) || (c =? 92) then [92; c]
    else if is_print c then [c]
    else if c =? 7 then [92; 97]
    else if c =? 8 then [92; 98]
    else if c =? 12 then [92; 102]
    else if c =? 10 then [92; 110]
    else if c =? 13 then [92; 114]
    else if c =? 9 then [92; 116]
    else if c =? 11 then [92; 118]
    else if (c <? 32) || (c =? 127) then [92; 120] ++ hexdigits 2 c
    else if c <? 65536 then [92; 117] ++ hexdigits 4 c
    else [92; 85] ++ hexdigits 8 c.

  Lemma is_print_plain c : is_print c = true -> c <> 34 -> c <> 92 ->
    c <> 34 /\ c <> 10 /\ c <> 92 /\ c <> 0.
  Proof.
    unfold Print.is_print. intros P H1 H2.
    destruct (N.ltb_spec c 128); lia.
  Qed.

  Lemma scan_quote_rune c r acc : valid_rune c = true ->
    scan_string (quote_rune_cp c ++ r) acc = scan_string r (c :: acc).
  Proof.
    intros V. unfold quote_rune_cp.
    destruct (N.eqb_spec c 34) as [->|N34]; [reflexivity|].
    destruct (N.eqb_spec c 92) as [->|N92]; [reflexivity|].
    cbn [orb].
    destruct (is_print c) eqn:P.
    { destruct (is_print_plain c P N34 N92) as (A & B & C & _).
      cbn [app]. apply ss_plain; assumption. }
    destruct (N.eqb_spec c 7) as [->|N7]; [reflexivity|].
    destruct (N.eqb_spec c 8) as [->|N8]; [reflexivity|].
    destruct (N.eqb_spec c 12) as [->|N12]; [reflexivity|].
    destruct (N.eqb_spec c 10) as [->|N10]; [reflexivity|].
    destruct (N.eqb_spec c 13) as [->|N13]; [reflexivity|].
    destruct (N.eqb_spec c 9) as [->|N9]; [reflexivity|].
    destruct (N.eqb_spec c 11) as [->|N11]; [reflexivity|].
    destruct ((c <? 32) || (c =? 127)) eqn:Hx.
    { destruct (hexdigits2 c) as (d1 & d2 & E).
      pose proof (hexnum_hexdigits0 2 c) as Hn. rewrite E in *.
      cbn [app]. rewrite ss_x, Hn; [reflexivity|]. change (16 ^ N.of_nat 2) with 256. lia. }
    destruct (N.ltb_spec c 65536) as [L|L].
    { destruct (hexdigits4 c) as (d1 & d2 & d3 & d4 & E).
      pose proof (hexnum_hexdigits0 4 c) as Hn. rewrite E in *.
      cbn [app]. rewrite ss_u, Hn, V; [reflexivity|]. change (16 ^ N.of_nat 4) with 65536. lia. }
    destruct (hexdigits8 c) as (d1 & d2 & d3 & d4 & d5 & d6 & d7 & d8 & E).
    pose proof (hexnum_hexdigits0 8 c) as Hn. rewrite E in *.
    cbn [app]. rewrite ss_U, Hn, V; [reflexivity|].
    change (16 ^ N.of_nat 8) with 4294967296. unfold valid_rune in V. lia.
  Qed.

  Lemma scan_string_quote cs : forall rest acc, forallb valid_rune cs = true ->
    scan_string (flat_map quote_rune_cp cs ++ 34 :: rest) acc = Some (rev acc ++ cs, rest).
  Proof.
    induction cs as [|c cs IH]; intros rest acc H.
    - cbn [flat_map app]. rewrite ss_quote, app_nil_r. reflexivity.
    - cbn [forallb] in H. apply andb_prop in H. destruct H as [V F].
      cbn [flat_map]. rewrite <- app_assoc, (scan_quote_rune _ _ _ V), (IH _ _ F).
      cbn [rev]. rewrite <- app_assoc. reflexivity.
  Qed.

  (* the byte-level [quote_rune] is the UTF-8 encoding of the code-point one *)
  Lemma quote_rune_enc c : utf8_enc (quote_rune_cp c) = quote_rune uprint c.
  Proof.
    unfold quote_rune_cp, quote_rune.
    destruct (N.eqb_spec c 34) as [->|N34]; [reflexivity|].
    destruct (N.eqb_spec c 92) as [->|N92]; [reflexivity|].
    cbn [orb].
    destruct (is_print c).
    { unfold utf8_enc. cbn [flat_map]. apply app_nil_r. }
    repeat match goal with
           | |- context [if ?b then _ else _] => destruct b; [try reflexivity|]
           end.
    all: apply ascii_enc; cbn [app]; repeat (constructor; [lia|]).
    all: eapply Forall_impl; [|apply hexdigits_range]; cbv beta; intros; lia.
  Qed.
End QuoteScan.

Section PrintLex.
  Variable uletter udigit uprint : N -> bool.

  Local Notation is_print := (is_print uprint).
  Local Notation ident_start := (ident_start uletter).
  Local Notation ident_part := (ident_part uletter udigit).
  Local Notation span_ident := (span_ident uletter udigit).
  Local Notation lex_from := (lex_from uletter udigit).
  Local Notation name_is_ident := (name_is_ident uletter udigit).


  (* ---- the printer at code-point level ---- *)
  Definition pquote (cs : list N) : list N := [34] ++ flat_map (quote_rune_cp uprint) cs ++ [34].

  Definition pname (s : str) : list N :=
    match dec_str s with
    | Some cs => if name_is_ident s then cs else pquote cs
    | None => []
    end.

  Definition pstr (s : str) : list N :=
    match dec_str s with Some cs => pquote cs | None => [] end.

  Definition pbasic (b : basic) : list N :=
    match b with
    | BHas n => cps "attributes:" ++ pname n
    | BVal n neq v =>
        cps "attributes." ++ pname n ++ (if neq then cps "!=" else cps "=") ++ pstr v
    | BPrefix n v =>
        cps "hasPrefix(attributes." ++ pname n ++ cps "," ++ pstr v ++ cps ")"
    end.

  Definition pnot (neg : bool) : list N := if neg then cps "NOT " else [].

  Fixpoint pcond (c : cond) : list N :=
    match c with
    | Cond t k ts =>
        pterm t ++
        match k with
        | KNone => []
        | KAnd => pterms (cps " AND ") ts
        | KOr => pterms (cps " OR ") ts
        end
    end
  with pterm (t : term) : list N :=
    match t with
    | TmBasic neg b => pnot neg ++ pbasic b
    | TmSub neg c => pnot neg ++ cps "(" ++ pcond c ++ cps ")"
    end
  with pterms (sep : list N) (ts : terms) : list N :=
    match ts with
    | TNil => []
    | TCons t r => sep ++ pterm t ++ pterms sep r
    end.

  (* ---- (A) the byte-level printer is the UTF-8 encoding of the code-point one ---- *)
  Lemma quote_bytes_enc s cs : dec_str s = Some cs ->
    quote_bytes uprint s = utf8_enc (pquote cs).
  Proof.
    intros D. unfold quote_bytes, pquote. rewrite (dec_lenient_strict _ _ D).
    rewrite !utf8_enc_app. change (utf8_enc [34]) with [34]. f_equal. f_equal.
    clear D. induction cs as [|c cs IH]; [reflexivity|].
    cbn [map flat_map]. rewrite utf8_enc_app, quote_rune_enc, <- IH. reflexivity.
  Qed.

  Lemma format_name_enc s : str_ok s ->
    format_name uletter udigit uprint s = utf8_enc (pname s).
  Proof.
    intros [cs D]. unfold format_name, pname. rewrite D.
    destruct (name_is_ident s).
    - symmetry. apply utf8_dec_enc'. exact D.
    - apply quote_bytes_enc. exact D.
  Qed.

  Lemma pstr_enc s : str_ok s -> quote_bytes uprint s = utf8_enc (pstr s).
  Proof. intros [cs D]. unfold pstr. rewrite D. apply quote_bytes_enc. exact D. Qed.

  Lemma enc_lit s : forallb (fun b => b <? 128) (cps s) = true -> utf8_enc (cps s) = cps s.
  Proof.
    intros H. apply ascii_enc. rewrite forallb_forall in H. apply Forall_forall.
    intros x Hx. apply H in Hx. lia.
  Qed.

  Lemma print_basic_enc b : basic_dec_ok b ->
    print_basic uletter udigit uprint b = utf8_enc (pbasic b).
  Proof.
    destruct b as [n|n neq v|n v]; cbn [basic_dec_ok print_basic pbasic].
    - intros Hn. rewrite utf8_enc_app, enc_lit by reflexivity. rewrite (format_name_enc _ Hn).
      reflexivity.
    - intros [Hn Hv]. rewrite !utf8_enc_app, enc_lit by reflexivity.
      rewrite (format_name_enc _ Hn), (pstr_enc _ Hv).
      destruct neq; rewrite enc_lit by reflexivity; reflexivity.
    - intros [Hn Hv]. rewrite !utf8_enc_app, !enc_lit by reflexivity.
      rewrite (format_name_enc _ Hn), (pstr_enc _ Hv). reflexivity.
  Qed.

  Lemma pnot_enc (neg : bool) : (if neg then cps "NOT " else []) = utf8_enc (pnot neg).
  Proof. destruct neg; reflexivity. Qed.

  (* unfolding equations ([cbn] cannot refold the section-closed mutual fixpoints) *)
  Local Notation print_cond := (print_cond uletter udigit uprint).
  Local Notation print_term := (print_term uletter udigit uprint).
  Local Notation print_terms := (print_terms uletter udigit uprint).

  Lemma print_cond_eq t k ts : print_cond (Cond t k ts) =
    match print_term t with
    | None => None
    | Some a =>
        match k with
        | KNone => Some a
        | KAnd => match ts with
                  | TNil => None
                  | _ => option_map (app a) (print_terms (cps " AND ") ts)
                  end
        | KOr => match ts with
                 | TNil => None
                 | _ => option_map (app a) (print_terms (cps " OR ") ts)
                 end
        end
    end.
  Proof. reflexivity. Qed.

  Lemma print_term_basic neg b : print_term (TmBasic neg b) =
    Some ((if neg then cps "NOT " else []) ++ print_basic uletter udigit uprint b).
  Proof. reflexivity. Qed.

  Lemma print_term_sub neg c : print_term (TmSub neg c) =
    match print_cond c with
    | Some a => Some ((if neg then cps "NOT " else []) ++ cps "(" ++ a ++ cps ")")
    | None => None
    end.
  Proof. reflexivity. Qed.

  Lemma print_terms_nil sep : print_terms sep TNil = Some [].
  Proof. reflexivity. Qed.

  Lemma print_terms_cons sep t r : print_terms sep (TCons t r) =
    match print_term t, print_terms sep r with
    | Some a, Some b => Some (sep ++ a ++ b)
    | _, _ => None
    end.
  Proof. reflexivity. Qed.

  Lemma print_cond_enc : forall c, cond_dec_ok c ->
    forall bs, print_cond c = Some bs -> bs = utf8_enc (pcond c).
  Proof.
    apply (cond_mut
      (fun c => cond_dec_ok c -> forall bs,
         print_cond c = Some bs -> bs = utf8_enc (pcond c))
      (fun t => term_dec_ok t -> forall bs,
         print_term t = Some bs -> bs = utf8_enc (pterm t))
      (fun ts => terms_dec_ok ts -> forall sep bs, utf8_enc sep = sep ->
         print_terms sep ts = Some bs -> bs = utf8_enc (pterms sep ts))).
    - (* Cond *)
      intros t IHt k ts IHts [Ot Ots] bs H. rewrite print_cond_eq in H. cbn [pcond].
      destruct (print_term t) as [a|]; [|discriminate].
      rewrite utf8_enc_app, <- (IHt Ot a eq_refl).
      destruct k.
      + inversion H; subst. symmetry. apply app_nil_r.
      + destruct ts as [|t' r]; [discriminate|].
        destruct (print_terms (cps " AND ") (TCons t' r)) as [b|] eqn:E; [|discriminate].
        cbn [option_map] in H. inversion H; subst. f_equal.
        apply (IHts Ots _ _ eq_refl E).
      + destruct ts as [|t' r]; [discriminate|].
        destruct (print_terms (cps " OR ") (TCons t' r)) as [b|] eqn:E; [|discriminate].
        cbn [option_map] in H. inversion H; subst. f_equal.
        apply (IHts Ots _ _ eq_refl E).
    - (* TmBasic *)
      intros neg b Ob bs H. rewrite print_term_basic in H. cbn [pterm term_dec_ok] in *.
      inversion H; subst. rewrite utf8_enc_app, <- pnot_enc, (print_basic_enc _ Ob). reflexivity.
    - (* TmSub *)
      intros neg c IHc Oc bs H. rewrite print_term_sub in H. cbn [pterm term_dec_ok] in *.
      destruct (print_cond c) as [a|]; [|discriminate].
      inversion H; subst. rewrite !utf8_enc_app, <- pnot_enc, !enc_lit by reflexivity.
      rewrite <- (IHc Oc a eq_refl). reflexivity.
    - (* TNil *)
      intros _ sep bs _ H. rewrite print_terms_nil in H. inversion H. reflexivity.
    - (* TCons *)
      intros t IHt r IHr [Ot Or] sep bs Hs H. rewrite print_terms_cons in H. cbn [pterms].
      destruct (print_term t) as [a|]; [|discriminate].
      destruct (print_terms sep r) as [b|] eqn:E; [|discriminate].
      inversion H; subst. rewrite !utf8_enc_app, Hs, <- (IHt Ot a eq_refl).
      rewrite <- (IHr Or sep b Hs E). reflexivity.
  Qed.

  (* ---- (B) printed code points: valid runes, no NUL, ASCII first ---- *)
  Definition okc (c : N) : bool := valid_rune c && negb (c =? 0).

  Lemma okc_ascii c : 0 < c < 128 -> okc c = true.
  Proof. unfold okc, valid_rune. lia. Qed.

  Lemma okc_lit s : forallb (fun b => (0 <? b) && (b <? 128)) (cps s) = true ->
    forallb okc (cps s) = true.
  Proof.
    intros H. rewrite forallb_forall in *. intros x Hx. apply H in Hx. apply okc_ascii. lia.
  Qed.

  Lemma okc_quote_rune c : valid_rune c = true -> forallb okc (quote_rune_cp uprint c) = true.
  Proof.
    intros V. unfold quote_rune_cp.
    destruct (N.eqb_spec c 34) as [->|N34]; [reflexivity|].
    destruct (N.eqb_spec c 92) as [->|N92]; [reflexivity|].
    cbn [orb].
    destruct (is_print c) eqn:P.
    { destruct (is_print_plain uprint c P N34 N92) as (_ & _ & _ & Z).
      cbn [forallb]. unfold okc. rewrite V. lia. }
    repeat match goal with
           | |- context [if ?b then _ else _] => destruct b; [try reflexivity|]
           end.
    all: cbn [app forallb]; rewrite !okc_ascii by lia; cbn [andb].
    all: apply forallb_forall; intros x Hx; apply okc_ascii.
    all: match type of Hx with In _ (hexdigits ?n ?v) =>
           pose proof (hexdigits_range n v) as F end.
    all: rewrite Forall_forall in F; apply F in Hx; lia.
  Qed.

  Lemma okc_pquote cs : forallb valid_rune cs = true -> forallb okc (pquote cs) = true.
  Proof.
    intros H. unfold pquote. rewrite !forallb_app. cbn [forallb].
    rewrite (okc_ascii 34) by lia. cbn [andb]. rewrite andb_true_r.
    induction cs as [|c cs IH]; [reflexivity|].
    cbn [forallb] in H. apply andb_prop in H. destruct H as [V F].
    cbn [flat_map]. rewrite forallb_app, (okc_quote_rune _ V), (IH F). reflexivity.
  Qed.

  Lemma ident_part_nz c : ident_part c = true -> c <> 0.
  Proof. intros H ->. discriminate H. Qed.

  Lemma ident_start_part c : ident_start c = true -> ident_part c = true.
  Proof. unfold Lex.ident_part, Lex.ident_start. intros ->. reflexivity. Qed.

  Lemma forallb_map_rune (P : N -> bool) a :
    forallb (fun x => match x with Rune c => P c | BadByte _ => false end) (map Rune a)
    = forallb P a.
  Proof. induction a as [|c a IH]; [reflexivity|]. cbn [map forallb]. rewrite IH. reflexivity. Qed.

  Lemma name_is_ident_spec s cs : dec_str s = Some cs -> name_is_ident s = true ->
    exists c a, cs = c :: a /\ ident_start c = true /\ forallb ident_part a = true.
  Proof.
    intros D. unfold Print.name_is_ident. rewrite (dec_lenient_strict _ _ D).
    destruct cs as [|c a]; cbn [map]; [discriminate|].
    rewrite forallb_map_rune. intros H. apply andb_prop in H. destruct H as [H1 H2].
    exists c, a. auto.
  Qed.

  Lemma okc_pname s : str_ok s -> forallb okc (pname s) = true.
  Proof.
    intros [cs D]. unfold pname. rewrite D.
    pose proof (utf8_dec_valid' _ _ D) as V.
    destruct (name_is_ident s) eqn:I; [|apply okc_pquote; exact V].
    destruct (name_is_ident_spec _ _ D I) as (c & a & -> & Hc & Ha).
    assert (F : forallb ident_part (c :: a) = true).
    { cbn [forallb]. rewrite (ident_start_part _ Hc), Ha. reflexivity. }
    rewrite forallb_forall in *. intros x Hx. unfold okc. rewrite (V _ Hx).
    pose proof (ident_part_nz _ (F _ Hx)). lia.
  Qed.

  Lemma okc_pstr s : str_ok s -> forallb okc (pstr s) = true.
  Proof.
    intros [cs D]. unfold pstr. rewrite D. apply okc_pquote. apply (utf8_dec_valid' _ _ D).
  Qed.

  Lemma okc_pbasic b : basic_dec_ok b -> forallb okc (pbasic b) = true.
  Proof.
    destruct b as [n|n neq v|n v]; cbn [basic_dec_ok pbasic].
    - intros Hn. rewrite forallb_app, okc_lit, (okc_pname _ Hn) by reflexivity. reflexivity.
    - intros [Hn Hv]. rewrite !forallb_app, okc_lit, (okc_pname _ Hn), (okc_pstr _ Hv) by reflexivity.
      destruct neq; rewrite okc_lit by reflexivity; reflexivity.
    - intros [Hn Hv]. rewrite !forallb_app, !okc_lit, (okc_pname _ Hn), (okc_pstr _ Hv) by reflexivity.
      reflexivity.
  Qed.

  Lemma okc_pnot neg : forallb okc (pnot neg) = true.
  Proof. destruct neg; [apply okc_lit|]; reflexivity. Qed.

  Lemma okc_pcond : forall c, cond_dec_ok c -> forallb okc (pcond c) = true.
  Proof.
    apply (cond_mut
      (fun c => cond_dec_ok c -> forallb okc (pcond c) = true)
      (fun t => term_dec_ok t -> forallb okc (pterm t) = true)
      (fun ts => terms_dec_ok ts -> forall sep, forallb okc sep = true ->
                 forallb okc (pterms sep ts) = true)).
    - intros t IHt k ts IHts [Ot Ots]. cbn [pcond]. rewrite forallb_app, (IHt Ot). cbn [andb].
      destruct k; [reflexivity| |]; apply (IHts Ots); apply okc_lit; reflexivity.
    - intros neg b Ob. cbn [pterm term_dec_ok] in *.
      rewrite forallb_app, okc_pnot, (okc_pbasic _ Ob). reflexivity.
    - intros neg c IHc Oc. cbn [pterm term_dec_ok] in *.
      rewrite !forallb_app, okc_pnot, !okc_lit, (IHc Oc) by reflexivity. reflexivity.
    - intros _ sep _. reflexivity.
    - intros t IHt r IHr [Ot Or] sep Hs. cbn [pterms].
      rewrite !forallb_app, Hs, (IHt Ot), (IHr Or sep Hs). reflexivity.
  Qed.

  Lemma pcond_valid c : cond_dec_ok c -> forallb valid_rune (pcond c) = true.
  Proof.
    intros H. pose proof (okc_pcond c H) as F. rewrite forallb_forall in *.
    intros x Hx. apply F in Hx. unfold okc in Hx. apply andb_prop in Hx. tauto.
  Qed.

  Lemma pcond_no_nul c : cond_dec_ok c -> existsb (fun x => x =? 0) (pcond c) = false.
  Proof.
    intros H. pose proof (okc_pcond c H) as F. rewrite forallb_forall in F.
    destruct (existsb (fun x => x =? 0) (pcond c)) eqn:E; [|reflexivity].
    apply existsb_exists in E. destruct E as (x & Hx & Z). apply F in Hx. unfold okc in Hx.
    apply andb_prop in Hx. destruct Hx as [_ Hx]. rewrite Z in Hx. discriminate.
  Qed.

  Lemma pbasic_head b : exists h r, pbasic b = h :: r /\ h < 128.
  Proof.
    destruct b; cbn [pbasic].
    - exists 97. eexists. split; [reflexivity|lia].
    - exists 97. eexists. split; [reflexivity|lia].
    - exists 104. eexists. split; [reflexivity|lia].
  Qed.

  Lemma pterm_head t : exists h r, pterm t = h :: r /\ h < 128.
  Proof.
    destruct t as [neg b|neg c]; cbn [pterm].
    - destruct neg; cbn [pnot].
      + exists 78. eexists. split; [reflexivity|lia].
      + destruct (pbasic_head b) as (h & r & -> & L). exists h, r. split; [reflexivity|exact L].
    - destruct neg; cbn [pnot].
      + exists 78. eexists. split; [reflexivity|lia].
      + exists 40. eexists. split; [reflexivity|lia].
  Qed.

  Lemma pcond_head c : exists h r, pcond c = h :: r /\ h < 128.
  Proof.
    destruct c as [t k ts]. cbn [pcond].
    destruct (pterm_head t) as (h & r & -> & L). exists h. eexists. split; [reflexivity|exact L].
  Qed.

  Lemma pcond_no_bom c : match pcond c with h :: _ => h =? 65279 | [] => true end = false.
  Proof. destruct (pcond_head c) as (h & r & -> & L). lia. Qed.


  (* ---- (C) lexing the printed code points ---- *)
  (* fuel-free "cs lexes to ts" *)
  Definition Lx (cs : list N) (ts : list token) : Prop := exists f, lex_from f cs = Some ts.

  (* what may follow an identifier: the end, or a non-identifier character *)
  Definition stop (rest : list N) : Prop :=
    match rest with [] => True | c :: _ => ident_part c = false end.

  Lemma Lx_final cs ts : Lx cs ts -> lex_from (S (length cs)) cs = Some ts.
  Proof.
    intros [f H].
    assert (H' : lex_from (Nat.max f (S (length cs))) cs = Some ts).
    { apply (lex_from_mono _ _ f); [lia|exact H]. }
    rewrite <- H'. apply lex_from_indep; lia.
  Qed.

  Lemma Lx_nil : Lx [] [].
  Proof. exists 1%nat. reflexivity. Qed.

  Lemma Lx_ws c r ts : is_ws c = true -> Lx r ts -> Lx (c :: r) ts.
  Proof. intros W [f H]. exists (S f). cbn [Lex.lex_from]. rewrite W. exact H. Qed.

  (* the identifier-span lemma: identifier characters followed by a non-identifier one *)
  Lemma span_ident_stop a : forall rest, forallb ident_part a = true -> stop rest ->
    span_ident (a ++ rest) = (a, rest).
  Proof.
    induction a as [|c a IH]; intros rest F St; cbn [app].
    - destruct rest as [|d r]; [reflexivity|]. cbn [Lex.span_ident]. cbn [stop] in St.
      rewrite St. reflexivity.
    - cbn [forallb] in F. apply andb_prop in F. destruct F as [F1 F2].
      cbn [Lex.span_ident]. rewrite F1, (IH _ F2 St). reflexivity.
  Qed.

  Lemma ident_start_cases c : ident_start c = true ->
    is_ws c = false /\ is_decimal c = false.
  Proof.
    unfold Lex.ident_start, is_letter, is_ws, is_decimal, ascii_letter.
    destruct (N.ltb_spec c 128) as [L|L]; intros HI.
    - split; lia.
    - split; lia.
  Qed.

  Lemma Lx_ident c a rest ts : ident_start c = true -> forallb ident_part a = true ->
    stop rest -> Lx rest ts -> Lx (c :: a ++ rest) (TId (c :: a) :: ts).
  Proof.
    intros I F St [f H]. exists (S f). cbn [Lex.lex_from].
    destruct (ident_start_cases _ I) as [W _].
    rewrite W, I, (span_ident_stop _ _ F St), H. reflexivity.
  Qed.

  Lemma lex_pu_step c f r :
    is_ws c = false -> ident_start c = false -> is_decimal c = false ->
    c <> 34 -> c <> 39 -> c <> 96 -> c <> 46 -> c <> 47 ->
    lex_from (S f) (c :: r) = option_map (cons (TPu c)) (lex_from f r).
  Proof.
    intros H1 H2 H3 H4 H5 H6 H7 H8. cbn [Lex.lex_from]. rewrite H1, H2, H3.
    destruct (N.eqb_spec c 34); [contradiction|].
    destruct (N.eqb_spec c 39); [contradiction|].
    destruct (N.eqb_spec c 96); [contradiction|].
    destruct (N.eqb_spec c 46); [contradiction|].
    destruct (N.eqb_spec c 47); [contradiction|]. reflexivity.
  Qed.

  Lemma Lx_pu c r ts : In c [58; 61; 33; 44; 40; 41] -> Lx r ts -> Lx (c :: r) (TPu c :: ts).
  Proof.
    intros HI [f H]. exists (S f). cbn [In] in HI.
    repeat (destruct HI as [<-|HI]; [rewrite lex_pu_step, H by (reflexivity || discriminate); reflexivity|]).
    contradiction.
  Qed.

  Lemma Lx_dot d r ts : is_decimal d = false -> Lx (d :: r) ts ->
    Lx (46 :: d :: r) (TPu 46 :: ts).
  Proof.
    intros D [f H]. exists (S f).
    change (lex_from (S f) (46 :: d :: r))
      with (if is_decimal d then None else option_map (cons (TPu 46)) (lex_from f (d :: r))).
    rewrite D, H. reflexivity.
  Qed.

  Lemma Lx_str r v b ts : scan_string r [] = Some (v, b) -> Lx b ts ->
    Lx (34 :: r) (TStr v :: ts).
  Proof.
    intros Sc [f H]. exists (S f).
    change (lex_from (S f) (34 :: r))
      with (match scan_string r [] with
            | Some (v, b) => option_map (cons (TStr v)) (lex_from f b)
            | None => None
            end).
    rewrite Sc, H. reflexivity.
  Qed.

  (* keywords *)
  Lemma Lx_kw (s : string) c a rest ts : cps s = c :: a ->
    ident_start c = true -> forallb ident_part a = true ->
    stop rest -> Lx rest ts -> Lx (cps s ++ rest) (kw s :: ts).
  Proof.
    intros E I F St H. unfold kw. rewrite E. cbn [app]. apply Lx_ident; assumption.
  Qed.

  Ltac kw_tac := eapply Lx_kw; [reflexivity|reflexivity|reflexivity| |].

  Lemma Lx_pquote cs rest ts : forallb valid_rune cs = true -> Lx rest ts ->
    Lx (pquote cs ++ rest) (TStr cs :: ts).
  Proof.
    intros V H. unfold pquote. cbn [app]. rewrite <- app_assoc. cbn [app].
    eapply Lx_str; [|exact H]. rewrite (scan_string_quote uprint _ _ _ V). reflexivity.
  Qed.

  Lemma Lx_pname n rest ts : str_ok n -> stop rest -> Lx rest ts ->
    Lx (pname n ++ rest) (name_token uletter udigit n :: ts).
  Proof.
    intros [cs D] St H. unfold pname, name_token. rewrite D.
    destruct (name_is_ident n) eqn:I.
    - destruct (name_is_ident_spec _ _ D I) as (c & a & -> & Hc & Ha).
      cbn [app]. apply Lx_ident; assumption.
    - apply Lx_pquote; [apply (utf8_dec_valid' _ _ D)|exact H].
  Qed.

  Lemma pname_head n rest : str_ok n ->
    exists d r, pname n ++ rest = d :: r /\ is_decimal d = false.
  Proof.
    intros [cs D]. unfold pname. rewrite D.
    destruct (name_is_ident n) eqn:I.
    - destruct (name_is_ident_spec _ _ D I) as (c & a & -> & Hc & Ha).
      exists c. eexists. split; [reflexivity|]. apply (ident_start_cases _ Hc).
    - exists 34. eexists. split; [reflexivity|reflexivity].
  Qed.

  Lemma Lx_pstr v rest ts : str_ok v -> Lx rest ts ->
    Lx (pstr v ++ rest) (str_token v :: ts).
  Proof.
    intros [cs D] H. unfold pstr, str_token. rewrite D.
    apply Lx_pquote; [apply (utf8_dec_valid' _ _ D)|exact H].
  Qed.

  Lemma Lx_attr_dot n X T : str_ok n -> Lx (pname n ++ X) T ->
    Lx (cps "attributes." ++ pname n ++ X) (kw "attributes" :: pu "." :: T).
  Proof.
    intros Hn H. destruct (pname_head n X Hn) as (d & r & E & Dd). rewrite E in *.
    change (cps "attributes." ++ d :: r) with (cps "attributes" ++ 46 :: d :: r).
    kw_tac; [reflexivity|]. apply Lx_dot; assumption.
  Qed.

  Lemma Lx_pbasic b rest ts : basic_dec_ok b -> stop rest -> Lx rest ts ->
    Lx (pbasic b ++ rest) (basic_tokens uletter udigit b ++ ts).
  Proof.
    destruct b as [n|n neq v|n v]; cbn [basic_dec_ok pbasic basic_tokens].
    - intros Hn St H. rewrite <- app_assoc. cbn [app].
      change (cps "attributes:" ++ pname n ++ rest) with (cps "attributes" ++ 58 :: pname n ++ rest).
      kw_tac; [reflexivity|]. apply Lx_pu; [cbn [In]; tauto|].
      apply Lx_pname; assumption.
    - intros [Hn Hv] St H. rewrite <- !app_assoc.
      change ([kw "attributes"; pu "."; name_token uletter udigit n] ++
              (if neq then [pu "!"; pu "="] else [pu "="]) ++ [str_token v])
        with (kw "attributes" :: pu "." :: name_token uletter udigit n ::
              (if neq then [pu "!"; pu "="] else [pu "="]) ++ [str_token v]).
      cbn [app]. apply Lx_attr_dot; [exact Hn|].
      destruct neq.
      + change (cps "!=" ++ pstr v ++ rest) with (33 :: 61 :: pstr v ++ rest).
        apply Lx_pname; [exact Hn|reflexivity|]. cbn [app].
        apply Lx_pu; [cbn [In]; tauto|]. apply Lx_pu; [cbn [In]; tauto|].
        apply Lx_pstr; assumption.
      + change (cps "=" ++ pstr v ++ rest) with (61 :: pstr v ++ rest).
        apply Lx_pname; [exact Hn|reflexivity|]. cbn [app].
        apply Lx_pu; [cbn [In]; tauto|].
        apply Lx_pstr; assumption.
    - intros [Hn Hv] St H. rewrite <- !app_assoc. cbn [app].
      change (cps "hasPrefix(attributes." ++ pname n ++ cps "," ++ pstr v ++ cps ")" ++ rest)
        with (cps "hasPrefix" ++ 40 :: cps "attributes." ++ pname n ++ 44 :: pstr v ++ 41 :: rest).
      kw_tac; [reflexivity|]. apply Lx_pu; [cbn [In]; tauto|].
      apply Lx_attr_dot; [exact Hn|].
      apply Lx_pname; [exact Hn|reflexivity|].
      apply Lx_pu; [cbn [In]; tauto|].
      apply Lx_pstr; [exact Hv|].
      apply Lx_pu; [cbn [In]; tauto|]. exact H.
  Qed.

  Lemma Lx_pnot (neg : bool) X T : Lx X T ->
    Lx (pnot neg ++ X) ((if neg then [kw "NOT"] else []) ++ T).
  Proof.
    intros H. destruct neg; cbn [pnot app]; [|exact H].
    change (cps "NOT " ++ X) with (cps "NOT" ++ 32 :: X).
    kw_tac; [reflexivity|]. apply Lx_ws; [reflexivity|exact H].
  Qed.

  Lemma Lx_and X T : Lx X T -> Lx (cps " AND " ++ X) (kw "AND" :: T).
  Proof.
    intros H. change (cps " AND " ++ X) with (32 :: cps "AND" ++ 32 :: X).
    apply Lx_ws; [reflexivity|]. kw_tac; [reflexivity|]. apply Lx_ws; [reflexivity|exact H].
  Qed.

  Lemma Lx_or X T : Lx X T -> Lx (cps " OR " ++ X) (kw "OR" :: T).
  Proof.
    intros H. change (cps " OR " ++ X) with (32 :: cps "OR" ++ 32 :: X).
    apply Lx_ws; [reflexivity|]. kw_tac; [reflexivity|]. apply Lx_ws; [reflexivity|exact H].
  Qed.

  Local Notation cond_tokens := (cond_tokens uletter udigit).
  Local Notation term_tokens := (term_tokens uletter udigit).
  Local Notation terms_tokens := (terms_tokens uletter udigit).

  Lemma cond_tokens_eq t k ts : cond_tokens (Cond t k ts) =
    term_tokens t ++
    match k with
    | KNone => []
    | KAnd => terms_tokens (kw "AND") ts
    | KOr => terms_tokens (kw "OR") ts
    end.
  Proof. reflexivity. Qed.

  Lemma term_tokens_basic neg b : term_tokens (TmBasic neg b) =
    (if neg then [kw "NOT"] else []) ++ basic_tokens uletter udigit b.
  Proof. reflexivity. Qed.

  Lemma term_tokens_sub neg c : term_tokens (TmSub neg c) =
    (if neg then [kw "NOT"] else []) ++ [pu "("] ++ cond_tokens c ++ [pu ")"].
  Proof. reflexivity. Qed.

  Lemma terms_tokens_nil sep : terms_tokens sep TNil = [].
  Proof. reflexivity. Qed.

  Lemma terms_tokens_cons sep t r : terms_tokens sep (TCons t r) =
    sep :: term_tokens t ++ terms_tokens sep r.
  Proof. reflexivity. Qed.

  Lemma stop_pterms sep ts rest : (forall X, stop (sep ++ X)) -> stop rest ->
    stop (pterms sep ts ++ rest).
  Proof.
    intros Hs St. destruct ts as [|t r]; cbn [pterms app]; [exact St|].
    rewrite <- app_assoc. apply Hs.
  Qed.

  Lemma Lx_pcond : forall c, cond_dec_ok c -> forall rest ts, stop rest -> Lx rest ts ->
    Lx (pcond c ++ rest) (cond_tokens c ++ ts).
  Proof.
    apply (cond_mut
      (fun c => cond_dec_ok c -> forall rest ts, stop rest -> Lx rest ts ->
         Lx (pcond c ++ rest) (cond_tokens c ++ ts))
      (fun t => term_dec_ok t -> forall rest ts, stop rest -> Lx rest ts ->
         Lx (pterm t ++ rest) (term_tokens t ++ ts))
      (fun l => terms_dec_ok l -> forall sep sk,
         (forall X T, Lx X T -> Lx (sep ++ X) (sk :: T)) -> (forall X, stop (sep ++ X)) ->
         forall rest ts, stop rest -> Lx rest ts ->
         Lx (pterms sep l ++ rest) (terms_tokens sk l ++ ts))).
    - (* Cond *)
      intros t IHt k l IHl [Ot Ol] rest ts St H.
      rewrite cond_tokens_eq. cbn [pcond]. rewrite <- !app_assoc.
      destruct k.
      + cbn [app]. apply IHt; assumption.
      + apply IHt; [exact Ot| |].
        * apply stop_pterms; [intros X; reflexivity|exact St].
        * apply IHl; [exact Ol|exact Lx_and|intros X; reflexivity|exact St|exact H].
      + apply IHt; [exact Ot| |].
        * apply stop_pterms; [intros X; reflexivity|exact St].
        * apply IHl; [exact Ol|exact Lx_or|intros X; reflexivity|exact St|exact H].
    - (* TmBasic *)
      intros neg b Ob rest ts St H. rewrite term_tokens_basic. cbn [pterm term_dec_ok] in *.
      rewrite <- !app_assoc. apply Lx_pnot. apply Lx_pbasic; assumption.
    - (* TmSub *)
      intros neg c IHc Oc rest ts St H. rewrite term_tokens_sub. cbn [pterm term_dec_ok] in *.
      rewrite <- !app_assoc. apply Lx_pnot.
      change (cps "(" ++ pcond c ++ cps ")" ++ rest) with (40 :: pcond c ++ 41 :: rest).
      change ([pu "("] ++ cond_tokens c ++ [pu ")"] ++ ts)
        with (TPu 40 :: cond_tokens c ++ TPu 41 :: ts).
      apply Lx_pu; [cbn [In]; tauto|].
      apply IHc; [exact Oc|reflexivity|].
      apply Lx_pu; [cbn [In]; tauto|exact H].
    - (* TNil *)
      intros _ sep sk _ _ rest ts _ H. rewrite terms_tokens_nil. exact H.
    - (* TCons *)
      intros t IHt r IHr [Ot Or] sep sk Hsep Hst rest ts St H.
      rewrite terms_tokens_cons. cbn [pterms]. rewrite <- !app_assoc. cbn [app].
      rewrite <- app_assoc.
      apply Hsep. apply IHt; [exact Ot| |].
      + apply stop_pterms; assumption.
      + apply IHr; assumption.
  Qed.

  (* ---- the theorem ---- *)
  Lemma print_filter_dec c s : cond_dec_ok c ->
    print_filter uletter udigit uprint c = Some s -> dec_str s = Some (pcond c).
  Proof.
    intros OK P. unfold print_filter in P.
    destruct (print_cond c) as [bs|] eqn:E; [|discriminate]. cbn [option_map] in P.
    inversion P; subst s. rewrite (print_cond_enc c OK bs E).
    unfold dec_str. rewrite bytes_of_str_of by apply utf8_enc_bytes.
    apply utf8_enc_dec'. apply pcond_valid. exact OK.
  Qed.

  Theorem print_lex c s :
    wf_cond c = true -> cond_dec_ok c ->
    print_filter uletter udigit uprint c = Some s ->
    lex uletter udigit s = Some (cond_tokens c).
  Proof.
    intros _ OK P. unfold lex. rewrite (print_filter_dec c s OK P).
    rewrite (pcond_no_nul c OK).
    pose proof (pcond_no_bom c) as B.
    destruct (pcond c) as [|h r] eqn:E; [discriminate B|]. rewrite B. rewrite <- E.
    apply Lx_final.
    pose proof (Lx_pcond c OK [] [] I Lx_nil) as H. rewrite !app_nil_r in H. exact H.
  Qed.

End PrintLex.

Print Assumptions print_lex.
