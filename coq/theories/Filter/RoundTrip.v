(* Filter/RoundTrip.v -- string-level print/parse round trip: PrintProofs.print_lex
   (printed text lexes to cond_tokens) + Proofs.roundtrip_tokens (those parse back). *)
From MB Require Import Base.
From MB.Filter Require Import Utf8 Ast Lex Parse Print Proofs PrintProofs.
Open Scope N_scope.

Lemma dec_ok_of_strs :
  (forall c, (forall s, In s (cond_strs c) -> utf8_ok s) -> cond_dec_ok c) /\
  (forall t, (forall s, In s (term_strs t) -> utf8_ok s) -> term_dec_ok t) /\
  (forall ts, (forall s, In s (terms_strs ts) -> utf8_ok s) -> terms_dec_ok ts).
Proof.
  apply cond_term_terms_ind.
  - intros t IHt k ts IHts U. cbn [cond_strs] in U. cbn [cond_dec_ok].
    split; [apply IHt|apply IHts]; intros; apply U; auto using in_or_app.
  - intros neg b U. cbn [term_dec_ok]. destruct b as [n|n q v|n v];
      cbn [term_strs basic_dec_ok] in *; unfold str_ok; repeat split; apply U; cbn; auto.
  - intros neg c IHc U. cbn [term_dec_ok]. apply IHc. exact U.
  - intros _. exact I.
  - intros t IHt ts IHts U. cbn [terms_strs] in U. cbn [terms_dec_ok].
    split; [apply IHt|apply IHts]; intros; apply U; auto using in_or_app.
Qed.

Section Tables.
  Variable uletter udigit uprint : N -> bool.

  (* the printed text lexes to exactly the tokens of the token-level printer *)
  Theorem roundtrip_string_lex c s :
    wf_cond c = true -> (forall x, In x (cond_strs c) -> utf8_ok x) ->
    print_filter uletter udigit uprint c = Some s ->
    lex uletter udigit s = Some (cond_tokens uletter udigit c).
  Proof.
    intros W U P. apply (print_lex uletter udigit uprint c s W); [|exact P].
    apply (proj1 dec_ok_of_strs). exact U.
  Qed.

  (* ... and so parses back to the same filter *)
  Theorem roundtrip_string c s :
    wf_cond c = true -> (forall x, In x (cond_strs c) -> utf8_ok x) ->
    print_filter uletter udigit uprint c = Some s ->
    parse_string uletter udigit s = Some c.
  Proof.
    intros W U P. unfold parse_string. rewrite (roundtrip_string_lex c s W U P).
    apply roundtrip_tokens; assumption.
  Qed.

  (* end to end: every filter the parser accepts can be printed, and the printed text
     parses back to the same syntax tree *)
  Corollary roundtrip_string_parsed s0 c :
    parse_string uletter udigit s0 = Some c ->
    exists s, print_filter uletter udigit uprint c = Some s /\
              parse_string uletter udigit s = Some c.
  Proof.
    unfold parse_string at 1. destruct (lex uletter udigit s0) as [ts|]; [|discriminate].
    intros H. pose proof (parse_tokens_wf _ _ H) as W. pose proof (parse_tokens_utf8 _ _ H) as U.
    destruct (print_total uletter udigit uprint c W) as [s P]. exists s.
    split; [exact P|]. apply roundtrip_string; assumption.
  Qed.
End Tables.
