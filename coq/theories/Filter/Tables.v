(* Filter/Tables.v -- the instance of the Unicode classifiers used when the model is
   EXECUTED against the implementation. It covers exactly the non-ASCII code points the
   harness generators use (harness/unitable.go holds the same list and refuses to emit
   any other non-ASCII code point); every theorem is stated for arbitrary classifiers. *)
From MB Require Import Base.
Open Scope N_scope.

(* unicode.IsLetter *)
Definition tbl_letter (c : N) : bool :=
  existsb (N.eqb c) [170; 181; 223; 233; 255; 937; 1078; 26085; 26412; 119964].
   (* ª µ ß é ÿ Ω ж 日 本 𝒜 *)
(* unicode.IsDigit *)
Definition tbl_digit (c : N) : bool :=
  existsb (N.eqb c) [1635; 2411].
   (* ٣ ५ *)
(* strconv.IsPrint *)
Definition tbl_print (c : N) : bool :=
  tbl_letter c || tbl_digit c || existsb (N.eqb c) [8364; 9731; 128512; 65533].
   (* € ☃ 😀 U+FFFD; not printable: U+00A0 U+2028 U+FEFF U+0085 U+200B *)
