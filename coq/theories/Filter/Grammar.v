(* Filter/Grammar.v -- the DOCUMENTED filter grammar, stated declaratively as derivation
   relations over complete token lists (no fuel, no remainders, no greediness):

     Condition ::= Term | Term ("AND" Term)+ | Term ("OR" Term)+
     Term      ::= ("NOT" | "-")? ( Basic | "(" Condition ")" )
     Basic     ::= "attributes" ":" Name
                 | "attributes" "." Name ("=" | "!" "=") String
                 | "hasPrefix" "(" "attributes" "." Name "," String ")"
     Name      ::= Ident | String

   The relations are parameterised by how a grammar literal is matched against a token:
     [WL] for the word literals      attributes hasPrefix AND OR NOT
     [PL] for the punctuation literals   : . = ! , ( ) -
   Two instances:
     G_*   relaxed: both match by VALUE ([lit]), whatever the token kind -- this is what
           participle (and the model parser) really does;
     Gs_*  strict: a word literal must be an identifier token, a punctuation literal a
           punctuation token -- this is the documented language. *)
From MB Require Import Base.
From MB.Filter Require Import Utf8 Ast Lex Parse.
Open Scope N_scope.

Section Gen.
  Variable WL PL : string -> token -> bool.

  Inductive GG_basic : list token -> basic -> Prop :=
  | GB_has t0 t1 t2 n :
      WL "attributes" t0 = true -> PL ":" t1 = true -> name_of t2 = Some n ->
      GG_basic [t0; t1; t2] (BHas n)
  | GB_eq t0 t1 t2 t3 t4 n v :
      WL "attributes" t0 = true -> PL "." t1 = true -> name_of t2 = Some n ->
      PL "=" t3 = true -> string_of t4 = Some v ->
      GG_basic [t0; t1; t2; t3; t4] (BVal n false v)
  | GB_neq t0 t1 t2 t3 t4 t5 n v :
      WL "attributes" t0 = true -> PL "." t1 = true -> name_of t2 = Some n ->
      PL "!" t3 = true -> PL "=" t4 = true -> string_of t5 = Some v ->
      GG_basic [t0; t1; t2; t3; t4; t5] (BVal n true v)
  | GB_prefix t0 t1 t2 t3 t4 t5 t6 t7 n v :
      WL "hasPrefix" t0 = true -> PL "(" t1 = true -> WL "attributes" t2 = true ->
      PL "." t3 = true -> name_of t4 = Some n -> PL "," t5 = true ->
      string_of t6 = Some v -> PL ")" t7 = true ->
      GG_basic [t0; t1; t2; t3; t4; t5; t6; t7] (BPrefix n v).

  (* ("NOT" | "-")? *)
  Inductive GG_neg : list token -> bool -> Prop :=
  | GN_none : GG_neg [] false
  | GN_not k : WL "NOT" k = true -> GG_neg [k] true
  | GN_minus k : PL "-" k = true -> GG_neg [k] true.

  Inductive GG_cond : list token -> cond -> Prop :=
  | GC_term a t : GG_term a t -> GG_cond a (Cond t KNone TNil)
  | GC_and a m t more :
      GG_term a t -> GG_more "AND" m more -> GG_cond (a ++ m) (Cond t KAnd more)
  | GC_or a m t more :
      GG_term a t -> GG_more "OR" m more -> GG_cond (a ++ m) (Cond t KOr more)
  (* (w Term)+ *)
  with GG_more : string -> list token -> terms -> Prop :=
  | GM_one w k a t :
      WL w k = true -> GG_term a t -> GG_more w (k :: a) (TCons t TNil)
  | GM_cons w k a t m more :
      WL w k = true -> GG_term a t -> GG_more w m more ->
      GG_more w (k :: a ++ m) (TCons t more)
  with GG_term : list token -> term -> Prop :=
  | GT_basic n neg a b :
      GG_neg n neg -> GG_basic a b -> GG_term (n ++ a) (TmBasic neg b)
  | GT_sub n neg k a c k2 :
      GG_neg n neg -> PL "(" k = true -> GG_cond a c -> PL ")" k2 = true ->
      GG_term (n ++ k :: a ++ [k2]) (TmSub neg c).

  Scheme GG_cond_mut := Minimality for GG_cond Sort Prop
    with GG_more_mut := Minimality for GG_more Sort Prop
    with GG_term_mut := Minimality for GG_term Sort Prop.
  Combined Scheme GG_mutind from GG_cond_mut, GG_more_mut, GG_term_mut.
End Gen.

(* relaxed grammar: literals match by value *)
Definition G_basic := GG_basic lit lit.
Definition G_neg := GG_neg lit lit.
Definition G_cond := GG_cond lit lit.
Definition G_more := GG_more lit lit.
Definition G_term := GG_term lit lit.

(* strict grammar: literals match by kind and value *)
Definition wlit (s : string) (t : token) : bool :=
  match t with TId v => cps_eqb v (cps s) | _ => false end.
Definition plit (s : string) (t : token) : bool :=
  match t with TPu c => cps_eqb [c] (cps s) | _ => false end.

Definition Gs_basic := GG_basic wlit plit.
Definition Gs_neg := GG_neg wlit plit.
Definition Gs_cond := GG_cond wlit plit.
Definition Gs_more := GG_more wlit plit.
Definition Gs_term := GG_term wlit plit.

(* identifier tokens the scanner can produce start with an identifier-start rune; all
   of those are >= 'A' (65), in particular none is a punctuation character *)
Definition tok_lexable (t : token) : Prop :=
  match t with
  | TId (c :: _) => 65 <= c
  | TId [] => False
  | _ => True
  end.

(* what a strict-grammar token may be replaced by in the relaxed language: itself, or
   a string token with the same value *)
Definition quoted_of (t t' : token) : Prop :=
  t' = t \/ (exists v, t = TStr v /\ tok_value t' = v).
