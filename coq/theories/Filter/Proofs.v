(* Filter/Proofs.v -- theorems about the filter model (C07, C08). *)
From MB Require Import Base.
From MB.Filter Require Import Utf8 Ast Lex Parse Print Eval Sem.
From MB.Filter Require Import Utf8Proofs LexProofs ParseProofs.
Open Scope N_scope.

(* ---------- helpers: the evaluator against the reference semantics ---------- *)
Fixpoint all_terms (r : reading) (a : smap) (ts : terms) : bool :=
  match ts with TNil => true | TCons t rest => sem r (den_term t) a && all_terms r a rest end.
Fixpoint any_terms (r : reading) (a : smap) (ts : terms) : bool :=
  match ts with TNil => false | TCons t rest => sem r (den_term t) a || any_terms r a rest end.

Lemma sem_den_and r a ts : forall acc,
  sem r (den_and acc ts) a = sem r acc a && all_terms r a ts.
Proof.
  induction ts as [|t ts IH]; intros acc; cbn [den_and all_terms].
  - rewrite andb_true_r. reflexivity.
  - rewrite IH. cbn [sem]. rewrite andb_assoc. reflexivity.
Qed.

Lemma sem_den_or r a ts : forall acc,
  sem r (den_or acc ts) a = sem r acc a || any_terms r a ts.
Proof.
  induction ts as [|t ts IH]; intros acc; cbn [den_or any_terms].
  - rewrite orb_false_r. reflexivity.
  - rewrite IH. cbn [sem]. rewrite orb_assoc. reflexivity.
Qed.

Fixpoint cond_atoms (c : cond) : list basic :=
  match c with Cond t _ ts => term_atoms t ++ terms_atoms ts end
with term_atoms (t : term) : list basic :=
  match t with TmBasic _ b => [b] | TmSub _ c => cond_atoms c end
with terms_atoms (ts : terms) : list basic :=
  match ts with TNil => [] | TCons t r => term_atoms t ++ terms_atoms r end.

Lemma wf_cond_inv t k ts : wf_cond (Cond t k ts) = true ->
  wf_term t = true /\ wf_terms ts = true /\
  match k with KNone => ts = TNil | _ => terms_len ts <> O end.
Proof.
  cbn [wf_cond]. intros H. apply andb_prop in H. destruct H as [H H3].
  apply andb_prop in H. destruct H as [H1 H2]. repeat split; auto.
  destruct k; destruct ts; cbn in *; try discriminate; auto.
Qed.

Lemma eval_sem_gen r a :
  (forall c, wf_cond c = true ->
     (forall b, In b (cond_atoms c) -> eval_basic b a = sem_atom r b a) ->
     eval c a = Some (sem r (den c) a)) /\
  (forall t, wf_term t = true ->
     (forall b, In b (term_atoms t) -> eval_basic b a = sem_atom r b a) ->
     eval_term t a = Some (sem r (den_term t) a)) /\
  (forall ts, wf_terms ts = true ->
     (forall b, In b (terms_atoms ts) -> eval_basic b a = sem_atom r b a) ->
     forall first, (first = false \/ terms_len ts <> O) ->
     and_terms ts a first = Some (all_terms r a ts) /\
     or_terms ts a first = Some (any_terms r a ts)).
Proof.
  apply cond_term_terms_ind.
  - intros t IHt k ts IHts W A. apply wf_cond_inv in W. destruct W as (W1 & W2 & W3).
    cbn [cond_atoms] in A. cbn [eval].
    rewrite IHt by (auto using in_or_app).
    assert (A2 : forall b, In b (terms_atoms ts) -> eval_basic b a = sem_atom r b a)
      by (auto using in_or_app).
    destruct k; cbn [den].
    + reflexivity.
    + rewrite sem_den_and. destruct (sem r (den_term t) a); cbn [andb]; [|reflexivity].
      apply (IHts W2 A2 true). right. exact W3.
    + rewrite sem_den_or. destruct (sem r (den_term t) a); cbn [orb]; [reflexivity|].
      apply (IHts W2 A2 true). right. exact W3.
  - intros neg b _ A. cbn [eval_term den_term]. rewrite (A b) by (left; reflexivity).
    destruct neg; cbn [neg_if sem].
    + rewrite xorb_true_r. reflexivity.
    + rewrite xorb_false_r. reflexivity.
  - intros neg c IHc W A. cbn [wf_term term_atoms] in *. cbn [eval_term den_term].
    rewrite (IHc W A). destruct neg; cbn [neg_if sem].
    + rewrite xorb_true_r. reflexivity.
    + rewrite xorb_false_r. reflexivity.
  - intros _ _ first [->|H]; [|cbn in H; congruence]. split; reflexivity.
  - intros t IHt ts IHts W A first _. cbn [wf_terms] in W. apply andb_prop in W.
    destruct W as [W1 W2]. cbn [terms_atoms] in A.
    cbn [and_terms or_terms all_terms any_terms].
    rewrite IHt by (auto using in_or_app).
    assert (A2 : forall b, In b (terms_atoms ts) -> eval_basic b a = sem_atom r b a)
      by (auto using in_or_app).
    destruct (IHts W2 A2 false (or_introl eq_refl)) as [E1 E2].
    destruct (sem r (den_term t) a); cbn [andb orb]; split; auto.
Qed.

Lemma eval_basic_ascoded b a : eval_basic b a = sem_atom AsCoded b a.
Proof.
  destruct b as [n|n neq v|n v]; cbn [eval_basic sem_atom]; unfold has, has_val.
  - reflexivity.
  - destruct neq; destruct (lookup n a); reflexivity.
  - reflexivity.
Qed.

Lemma eval_term_total t a : wf_term t = true -> exists b, eval_term t a = Some b.
Proof.
  intros W. eexists. apply (proj1 (proj2 (eval_sem_gen AsCoded a)) t W).
  intros; apply eval_basic_ascoded.
Qed.

(* ================= C07: evaluation ================= *)

(* evaluation never errors on a well-formed filter *)
Theorem eval_total c a : wf_cond c = true -> exists b, eval c a = Some b.
Proof.
  intros W. eexists. apply (proj1 (eval_sem_gen AsCoded a) c W).
  intros; apply eval_basic_ascoded.
Qed.

(* everything the parser returns is well-formed *)
Theorem parse_tokens_wf ts c : parse_tokens ts = Some c -> wf_cond c = true.
Proof. intros H. apply parse_tokens_P in H. apply P_wf in H. exact H. Qed.

(* the evaluator computes the reference semantics (reading AsCoded) *)
Theorem eval_is_sem c a : wf_cond c = true -> eval c a = Some (sem AsCoded (den c) a).
Proof.
  intros W. apply (proj1 (eval_sem_gen AsCoded a) c W).
  intros; apply eval_basic_ascoded.
Qed.

(* F2: under the Documented reading of != the evaluator is wrong exactly when the
   attribute is absent *)
Theorem eval_is_sem_documented_refuted :
  exists c a, wf_cond c = true /\ eval c a <> Some (sem Documented (den c) a).
Proof.
  exists (Cond (TmBasic false (BVal "k"%string true "v"%string)) KNone TNil), [].
  split; [reflexivity|]. cbn. discriminate.
Qed.

(* keys compared with != anywhere in the filter *)
Fixpoint neq_keys (c : cond) : list str :=
  match c with Cond t _ ts => neq_keys_term t ++ neq_keys_terms ts end
with neq_keys_term (t : term) : list str :=
  match t with
  | TmBasic _ (BVal k true _) => [k]
  | TmBasic _ _ => []
  | TmSub _ c => neq_keys c
  end
with neq_keys_terms (ts : terms) : list str :=
  match ts with TNil => [] | TCons t r => neq_keys_term t ++ neq_keys_terms r end.

Lemma atoms_neq_keys :
  (forall c b, In b (cond_atoms c) ->
     match b with BVal k true _ => In k (neq_keys c) | _ => True end) /\
  (forall t b, In b (term_atoms t) ->
     match b with BVal k true _ => In k (neq_keys_term t) | _ => True end) /\
  (forall ts b, In b (terms_atoms ts) ->
     match b with BVal k true _ => In k (neq_keys_terms ts) | _ => True end).
Proof.
  apply cond_term_terms_ind.
  - intros t IHt k ts IHts b H. cbn [cond_atoms neq_keys] in *. apply in_app_or in H.
    destruct H as [H|H]; [apply IHt in H|apply IHts in H];
      destruct b as [|? [] ?|]; auto using in_or_app.
  - intros neg b b' [<-|[]]. destruct b as [|? [] ?|]; cbn; auto.
  - intros neg c IHc b H. exact (IHc b H).
  - intros b [].
  - intros t IHt ts IHts b H. cbn [terms_atoms neq_keys_terms] in *. apply in_app_or in H.
    destruct H as [H|H]; [apply IHt in H|apply IHts in H];
      destruct b as [|? [] ?|]; auto using in_or_app.
Qed.

(* ... and right on every message that carries all the attributes the filter compares
   with != *)
Theorem eval_is_sem_documented_partial c a :
  wf_cond c = true ->
  (forall k, In k (neq_keys c) -> lookup k a <> None) ->
  eval c a = Some (sem Documented (den c) a).
Proof.
  intros W K. apply (proj1 (eval_sem_gen Documented a) c W).
  intros b Hb. pose proof (proj1 atoms_neq_keys c b Hb) as N.
  destruct b as [n|n neq v|n v]; cbn [eval_basic sem_atom]; unfold has, has_val; try reflexivity.
  destruct neq; [|destruct (lookup n a); reflexivity].
  specialize (K n N). destruct (lookup n a); [reflexivity|congruence].
Qed.

(* boolean laws, at the level of filters *)
Definition paren (neg : bool) (c : cond) : cond := Cond (TmSub neg c) KNone TNil.

Theorem eval_paren c a : eval (paren false c) a = eval c a.
Proof.
  unfold paren. cbn [eval eval_term]. destruct (eval c a) as [b|]; [|reflexivity].
  rewrite xorb_false_r. reflexivity.
Qed.

Theorem eval_double_negation c a : eval (paren true (paren true c)) a = eval c a.
Proof.
  unfold paren. cbn [eval eval_term]. destruct (eval c a) as [[]|]; reflexivity.
Qed.

(* NOT (t1 AND t2)  ==  (NOT (t1)) OR (NOT (t2)) *)
Definition neg_term (t : term) : term := TmSub true (Cond t KNone TNil).
Theorem eval_de_morgan_and t1 t2 a b1 b2 :
  eval_term t1 a = Some b1 -> eval_term t2 a = Some b2 ->
  eval (paren true (Cond t1 KAnd (TCons t2 TNil))) a =
  eval (Cond (neg_term t1) KOr (TCons (neg_term t2) TNil)) a.
Proof.
  intros H1 H2. unfold paren, neg_term.
  cbn [eval eval_term and_terms or_terms]. rewrite H1, H2.
  destruct b1, b2; reflexivity.
Qed.
Theorem eval_de_morgan_or t1 t2 a b1 b2 :
  eval_term t1 a = Some b1 -> eval_term t2 a = Some b2 ->
  eval (paren true (Cond t1 KOr (TCons t2 TNil))) a =
  eval (Cond (neg_term t1) KAnd (TCons (neg_term t2) TNil)) a.
Proof.
  intros H1 H2. unfold paren, neg_term.
  cbn [eval eval_term and_terms or_terms]. rewrite H1, H2.
  destruct b1, b2; reflexivity.
Qed.

(* AND / OR lists: on well-formed filters the result is the conjunction / disjunction
   of the terms, hence independent of their order and grouping *)
Fixpoint terms_list (ts : terms) : list term :=
  match ts with TNil => [] | TCons t r => t :: terms_list r end.
Definition tval (a : smap) (t : term) : bool :=
  match eval_term t a with Some b => b | None => false end.

Lemma terms_all_any a ts : wf_terms ts = true ->
  forall first, (first = false \/ terms_len ts <> O) ->
  and_terms ts a first = Some (forallb (tval a) (terms_list ts)) /\
  or_terms ts a first = Some (existsb (tval a) (terms_list ts)).
Proof.
  induction ts as [|t ts IH]; intros W first F.
  - destruct F as [->|F]; [split; reflexivity|cbn in F; congruence].
  - cbn [wf_terms] in W. apply andb_prop in W. destruct W as [W1 W2].
    destruct (eval_term_total t a W1) as [b Hb].
    destruct (IH W2 false (or_introl eq_refl)) as [E1 E2].
    cbn [and_terms or_terms terms_list forallb existsb]. unfold tval at 1 3. rewrite Hb.
    destruct b; cbn [andb orb]; split; auto.
Qed.

Theorem eval_and_all t ts a :
  wf_cond (Cond t KAnd ts) = true ->
  eval (Cond t KAnd ts) a = Some (forallb (tval a) (t :: terms_list ts)).
Proof.
  intros W. apply wf_cond_inv in W. destruct W as (W1 & W2 & W3).
  destruct (eval_term_total t a W1) as [b Hb].
  cbn [eval forallb]. unfold tval at 1. rewrite Hb.
  destruct b; cbn [andb]; [|reflexivity].
  apply (terms_all_any a ts W2 true). right. exact W3.
Qed.
Theorem eval_or_any t ts a :
  wf_cond (Cond t KOr ts) = true ->
  eval (Cond t KOr ts) a = Some (existsb (tval a) (t :: terms_list ts)).
Proof.
  intros W. apply wf_cond_inv in W. destruct W as (W1 & W2 & W3).
  destruct (eval_term_total t a W1) as [b Hb].
  cbn [eval existsb]. unfold tval at 1. rewrite Hb.
  destruct b; cbn [orb]; [reflexivity|].
  apply (terms_all_any a ts W2 true). right. exact W3.
Qed.

(* "-" is NOT *)
Lemma parse_term_minus f ts :
  parse_term f (TPu 45 :: ts) = parse_term f (TId (cps "NOT") :: ts).
Proof. destruct f; [reflexivity|]. rewrite !parse_term_S. reflexivity. Qed.

Theorem parse_minus_is_not ts :
  parse_tokens (TPu 45 :: ts) = parse_tokens (TId (cps "NOT") :: ts).
Proof.
  unfold parse_tokens. cbn [length].
  replace (3 * S (length ts) + 3)%nat with (S (3 * length ts + 5)) by lia.
  rewrite !parse_cond_S, parse_term_minus. reflexivity.
Qed.

(* evaluation only depends on the attribute map as a finite map *)
Lemma eval_ext_gen a a' : (forall k, lookup k a = lookup k a') ->
  (forall c, eval c a = eval c a') /\
  (forall t, eval_term t a = eval_term t a') /\
  (forall ts, forall first, and_terms ts a first = and_terms ts a' first /\
                            or_terms ts a first = or_terms ts a' first).
Proof.
  intros L. apply cond_term_terms_ind.
  - intros t IHt k ts IHts. cbn [eval]. rewrite IHt.
    destruct (eval_term t a') as [[]|]; destruct k; try reflexivity; apply IHts.
  - intros neg b. cbn [eval_term]. do 2 f_equal.
    destruct b; cbn [eval_basic]; rewrite L; reflexivity.
  - intros neg c IHc. cbn [eval_term]. rewrite IHc. reflexivity.
  - intros first. split; reflexivity.
  - intros t IHt ts IHts first. cbn [and_terms or_terms]. rewrite IHt.
    destruct (eval_term t a') as [[]|]; split; try reflexivity; apply IHts.
Qed.

Theorem eval_ext c a a' : (forall k, lookup k a = lookup k a') -> eval c a = eval c a'.
Proof. intros L. apply (eval_ext_gen a a' L). Qed.

(* ================= C08: syntax ================= *)

(* UTF-8 codec *)
Theorem utf8_dec_enc bs cs : utf8_dec bs = Some cs -> utf8_enc cs = bs.
Proof. apply utf8_dec_enc'. Qed.
Theorem utf8_enc_dec cs :
  forallb valid_rune cs = true -> utf8_dec (utf8_enc cs) = Some cs.
Proof. apply utf8_enc_dec'. Qed.
Theorem utf8_dec_valid bs cs : utf8_dec bs = Some cs -> forallb valid_rune cs = true.
Proof. apply utf8_dec_valid'. Qed.

(* strings of a filter *)
Fixpoint cond_strs (c : cond) : list str :=
  match c with Cond t _ ts => term_strs t ++ terms_strs ts end
with term_strs (t : term) : list str :=
  match t with
  | TmBasic _ (BHas n) => [n]
  | TmBasic _ (BVal n _ v) => [n; v]
  | TmBasic _ (BPrefix n v) => [n; v]
  | TmSub _ c => cond_strs c
  end
with terms_strs (ts : terms) : list str :=
  match ts with TNil => [] | TCons t r => term_strs t ++ terms_strs r end.

Definition utf8_ok (s : str) : Prop := exists cs, dec_str s = Some cs.

Lemma enc_str_ok v : utf8_ok (enc_str v).
Proof. eexists. apply dec_enc_str. Qed.

Lemma basic_at_utf8 ts b r : basic_at ts b r ->
  forall neg s, In s (term_strs (TmBasic neg b)) -> utf8_ok s.
Proof.
  intros H neg s I. inversion H; subst; cbn [term_strs In] in I;
    repeat match goal with
           | E : name_of _ = Some _ |- _ => apply name_of_enc in E; destruct E as [? ->]
           | E : string_of _ = Some _ |- _ => apply string_of_enc in E; destruct E as [? ->]
           end;
    repeat (destruct I as [<-|I]; [apply enc_str_ok|]); destruct I.
Qed.

Lemma P_utf8 :
  (forall ts c r, P_cond ts c r -> forall s, In s (cond_strs c) -> utf8_ok s) /\
  (forall w ts m r, P_more w ts m r -> forall s, In s (terms_strs m) -> utf8_ok s) /\
  (forall ts t r, P_term ts t r -> forall s, In s (term_strs t) -> utf8_ok s).
Proof.
  apply P_mutind; intros; cbn [cond_strs terms_strs] in *;
    repeat match goal with
           | I : In _ (_ ++ _) |- _ => apply in_app_or in I; destruct I
           | I : In _ [] |- _ => destruct I
           end; eauto using basic_at_utf8.
Qed.

(* every string in a parsed filter is well-formed UTF-8 *)
Theorem parse_tokens_utf8 ts c :
  parse_tokens ts = Some c -> forall s, In s (cond_strs c) -> utf8_ok s.
Proof. intros H. apply parse_tokens_P in H. exact (proj1 P_utf8 _ _ _ H). Qed.

Section Tables.
  Variable uletter udigit uprint : N -> bool.

  (* print/parse round trip at token level, for every classifier: the tokens the
     printer emits parse back to the same filter *)
  Lemma name_of_name_token n : utf8_ok n -> name_of (name_token uletter udigit n) = Some n.
  Proof.
    intros [cs H]. unfold name_token. rewrite H.
    destruct (name_is_ident uletter udigit n); cbn [name_of]; rewrite (enc_dec_str _ _ H);
      reflexivity.
  Qed.

  Lemma string_of_str_token v : utf8_ok v -> string_of (str_token v) = Some v.
  Proof.
    intros [cs H]. unfold str_token. rewrite H. cbn [string_of].
    rewrite (enc_dec_str _ _ H). reflexivity.
  Qed.

  Lemma basic_tokens_at b r neg :
    (forall s, In s (term_strs (TmBasic neg b)) -> utf8_ok s) ->
    basic_at (basic_tokens uletter udigit b ++ r) b r.
  Proof.
    intros U. destruct b as [n|n neq v|n v]; cbn [term_strs] in U.
    - cbn [basic_tokens app]. apply BA_has; try reflexivity.
      apply name_of_name_token, U. left; reflexivity.
    - assert (Un : utf8_ok n) by (apply U; left; reflexivity).
      assert (Uv : utf8_ok v) by (apply U; right; left; reflexivity).
      destruct neq; cbn [basic_tokens app].
      + apply BA_neq; try reflexivity;
          [apply name_of_name_token, Un|apply string_of_str_token, Uv].
      + apply BA_eq; try reflexivity;
          [apply name_of_name_token, Un|apply string_of_str_token, Uv].
    - assert (Un : utf8_ok n) by (apply U; left; reflexivity).
      assert (Uv : utf8_ok v) by (apply U; right; left; reflexivity).
      cbn [basic_tokens app]. apply BA_prefix; try reflexivity;
        [apply name_of_name_token, Un|apply string_of_str_token, Uv].
  Qed.

  Lemma lit_kw w : lit w (kw w) = true.
  Proof. unfold lit, kw. cbn [tok_value]. apply cps_eqb_eq. reflexivity. Qed.

  Lemma tokens_P :
    (forall c, wf_cond c = true -> (forall s, In s (cond_strs c) -> utf8_ok s) ->
       forall r, stop_andor r -> P_cond (cond_tokens uletter udigit c ++ r) c r) /\
    (forall t, wf_term t = true -> (forall s, In s (term_strs t) -> utf8_ok s) ->
       forall r, P_term (term_tokens uletter udigit t ++ r) t r) /\
    (forall ts, wf_terms ts = true -> (forall s, In s (terms_strs ts) -> utf8_ok s) ->
       forall w r, head_not w r -> terms_len ts <> O ->
       P_more w (terms_tokens uletter udigit (kw w) ts ++ r) ts r).
  Proof.
    apply cond_term_terms_ind.
    - intros t IHt k ts IHts W U r S. apply wf_cond_inv in W. destruct W as (W1 & W2 & W3).
      cbn [cond_strs] in U.
      assert (U1 : forall s, In s (term_strs t) -> utf8_ok s) by (auto using in_or_app).
      assert (U2 : forall s, In s (terms_strs ts) -> utf8_ok s) by (auto using in_or_app).
      cbn [cond_tokens]. rewrite <- app_assoc. destruct k.
      + subst ts. apply PC_none; [apply (IHt W1 U1)|exact S].
      + eapply PC_and; [apply (IHt W1 U1)|]. apply (IHts W2 U2 "AND"%string); [apply S|exact W3].
      + eapply PC_or; [apply (IHt W1 U1)|]. apply (IHts W2 U2 "OR"%string); [apply S|exact W3].
    - intros neg b _ U r. cbn [term_tokens]. rewrite <- app_assoc.
      eapply PT_basic; [|apply (basic_tokens_at b r neg U)].
      destruct neg; [reflexivity|]. destruct b as [n|n [] v|n v]; reflexivity.
    - intros neg c IHc W U r. cbn [wf_term term_strs] in *. cbn [term_tokens].
      rewrite <- !app_assoc.
      eapply PT_sub with (k2 := pu ")").
      + destruct neg; reflexivity.
      + reflexivity.
      + apply (IHc W U). split; reflexivity.
      + reflexivity.
    - intros _ _ w r _ H. cbn in H. congruence.
    - intros t IHt ts IHts W U w r HN _. cbn [wf_terms] in W. apply andb_prop in W.
      destruct W as [W1 W2]. cbn [terms_strs] in U.
      assert (U1 : forall s, In s (term_strs t) -> utf8_ok s) by (auto using in_or_app).
      assert (U2 : forall s, In s (terms_strs ts) -> utf8_ok s) by (auto using in_or_app).
      cbn [terms_tokens]. rewrite <- app_comm_cons, <- app_assoc.
      destruct ts as [|t2 ts2].
      + apply PM_last; [apply lit_kw|apply (IHt W1 U1)|exact HN].
      + eapply PM_cons; [apply lit_kw|apply (IHt W1 U1)|].
        apply (IHts W2 U2 w r HN). discriminate.
  Qed.

  Theorem roundtrip_tokens c :
    wf_cond c = true -> (forall s, In s (cond_strs c) -> utf8_ok s) ->
    parse_tokens (cond_tokens uletter udigit c) = Some c.
  Proof.
    intros W U. apply parse_tokens_P.
    rewrite <- (app_nil_r (cond_tokens uletter udigit c)).
    apply (proj1 tokens_P c W U). split; exact I.
  Qed.

  Corollary roundtrip_parsed ts c :
    parse_tokens ts = Some c -> parse_tokens (cond_tokens uletter udigit c) = Some c.
  Proof.
    intros H. apply roundtrip_tokens; [exact (parse_tokens_wf _ _ H)|exact (parse_tokens_utf8 _ _ H)].
  Qed.

  Lemma print_cond_eq t k ts : print_cond uletter udigit uprint (Cond t k ts) =
    match print_term uletter udigit uprint t with
    | None => None
    | Some a =>
        match k with
        | KNone => Some a
        | KAnd => match ts with
                  | TNil => None
                  | _ => option_map (app a) (print_terms uletter udigit uprint (cps " AND ") ts)
                  end
        | KOr => match ts with
                 | TNil => None
                 | _ => option_map (app a) (print_terms uletter udigit uprint (cps " OR ") ts)
                 end
        end
    end.
  Proof. reflexivity. Qed.

  Lemma print_term_sub_eq neg c : print_term uletter udigit uprint (TmSub neg c) =
    match print_cond uletter udigit uprint c with
    | Some a => Some ((if neg then cps "NOT " else []) ++ cps "(" ++ a ++ cps ")")
    | None => None
    end.
  Proof. reflexivity. Qed.

  Lemma print_terms_cons_eq sep t r : print_terms uletter udigit uprint sep (TCons t r) =
    match print_term uletter udigit uprint t, print_terms uletter udigit uprint sep r with
    | Some a, Some b => Some (sep ++ a ++ b)
    | _, _ => None
    end.
  Proof. reflexivity. Qed.

  Lemma print_total_gen :
    (forall c, wf_cond c = true -> exists a, print_cond uletter udigit uprint c = Some a) /\
    (forall t, wf_term t = true -> exists a, print_term uletter udigit uprint t = Some a) /\
    (forall ts, wf_terms ts = true ->
       forall sep, exists a, print_terms uletter udigit uprint sep ts = Some a).
  Proof.
    apply cond_term_terms_ind.
    - intros t IHt k ts IHts W. apply wf_cond_inv in W. destruct W as (W1 & W2 & W3).
      destruct (IHt W1) as [a Ha]. rewrite print_cond_eq, Ha.
      destruct k.
      + eauto.
      + destruct (IHts W2 (cps " AND ")) as [b Hb].
        destruct ts; [cbn in W3; congruence|]. rewrite Hb. eexists. reflexivity.
      + destruct (IHts W2 (cps " OR ")) as [b Hb].
        destruct ts; [cbn in W3; congruence|]. rewrite Hb. eexists. reflexivity.
    - intros neg b _. eexists. reflexivity.
    - intros neg c IHc W. cbn [wf_term] in W. destruct (IHc W) as [a Ha].
      rewrite print_term_sub_eq, Ha. eauto.
    - intros _ sep. eexists. reflexivity.
    - intros t IHt ts IHts W sep. cbn [wf_terms] in W. apply andb_prop in W.
      destruct W as [W1 W2]. destruct (IHt W1) as [a Ha]. destruct (IHts W2 sep) as [b Hb].
      rewrite print_terms_cons_eq, Ha, Hb. eauto.
  Qed.

  (* the printer never fails on a well-formed filter *)
  Theorem print_total c :
    wf_cond c = true -> exists s, print_filter uletter udigit uprint c = Some s.
  Proof.
    intros W. destruct (proj1 print_total_gen c W) as [a H].
    unfold print_filter. rewrite H. eexists. reflexivity.
  Qed.

  (* fuel is never the reason for a rejection *)
  Theorem lex_from_fuel cs f :
    (length cs < f)%nat -> lex_from uletter udigit f cs = lex_from uletter udigit (S (length cs)) cs.
  Proof. intros H. apply lex_from_indep; [exact H|apply Nat.lt_succ_diag_r]. Qed.
End Tables.

Theorem parse_cond_fuel ts f :
  (3 * length ts + 3 <= f)%nat -> parse_cond f ts = parse_cond (3 * length ts + 3) ts.
Proof. intros H. apply parse_cond_indep; lia. Qed.
