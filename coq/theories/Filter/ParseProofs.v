(* Filter/ParseProofs.v -- a fuel-free relational specification [P_cond]/[P_more]/[P_term]
   of the recursive-descent parser of Parse.v, proved equivalent to it; consumption,
   fuel independence, and well-formedness of parse results. *)
From MB Require Import Base.
From MB.Filter Require Import Utf8 Ast Lex Parse Utf8Proofs.
Open Scope N_scope.

(* ---------- literals ---------- *)
Lemma cps_eqb_eq a b : cps_eqb a b = true <-> a = b.
Proof.
  unfold cps_eqb. revert b. induction a as [|x a IH]; intros [|y b]; cbn [list_eqb];
    split; intros H; try discriminate; auto.
  - apply andb_prop in H. destruct H as [H1 H2]. apply N.eqb_eq in H1. apply IH in H2.
    subst. reflexivity.
  - inversion H; subst. rewrite N.eqb_refl. cbn [andb]. apply IH. reflexivity.
Qed.

Lemma lit_spec s t : lit s t = true <-> tok_value t = cps s.
Proof. unfold lit. apply cps_eqb_eq. Qed.

Lemma lit_diff s s' t : cps s <> cps s' -> lit s t = true -> lit s' t = false.
Proof.
  intros D H. destruct (lit s' t) eqn:E; [|reflexivity].
  apply lit_spec in H. apply lit_spec in E. congruence.
Qed.

(* solve [lit s' t = false] from a hypothesis [lit s t = true] with s <> s' *)
Ltac litf :=
  match goal with
  | H : lit ?s ?t = true |- lit ?s' ?t = false =>
      apply (lit_diff s s' t); [vm_compute; discriminate | exact H]
  end.

(* ---------- Basic ---------- *)
Inductive basic_at : list token -> basic -> list token -> Prop :=
| BA_has t0 t1 t2 n r :
    lit "attributes" t0 = true -> lit ":" t1 = true -> name_of t2 = Some n ->
    basic_at (t0 :: t1 :: t2 :: r) (BHas n) r
| BA_eq t0 t1 t2 t3 t4 n v r :
    lit "attributes" t0 = true -> lit "." t1 = true -> name_of t2 = Some n ->
    lit "=" t3 = true -> string_of t4 = Some v ->
    basic_at (t0 :: t1 :: t2 :: t3 :: t4 :: r) (BVal n false v) r
| BA_neq t0 t1 t2 t3 t4 t5 n v r :
    lit "attributes" t0 = true -> lit "." t1 = true -> name_of t2 = Some n ->
    lit "!" t3 = true -> lit "=" t4 = true -> string_of t5 = Some v ->
    basic_at (t0 :: t1 :: t2 :: t3 :: t4 :: t5 :: r) (BVal n true v) r
| BA_prefix t0 t1 t2 t3 t4 t5 t6 t7 n v r :
    lit "hasPrefix" t0 = true -> lit "(" t1 = true -> lit "attributes" t2 = true ->
    lit "." t3 = true -> name_of t4 = Some n -> lit "," t5 = true ->
    string_of t6 = Some v -> lit ")" t7 = true ->
    basic_at (t0 :: t1 :: t2 :: t3 :: t4 :: t5 :: t6 :: t7 :: r) (BPrefix n v) r.

Ltac bmH H :=
  match type of H with
  | context [match ?x with _ => _ end] =>
      lazymatch x with
      | context [match _ with _ => _ end] => fail
      | _ => destruct x eqn:?
      end
  end.

Lemma parse_basic_at ts b r : parse_basic ts = Some (b, r) -> basic_at ts b r.
Proof.
  unfold parse_basic. intros H.
  repeat (bmH H; try discriminate);
    repeat match goal with
           | E : _ && _ = true |- _ => apply andb_prop in E; destruct E
           end;
    inversion H; subst; econstructor; eauto.
Qed.

Lemma basic_at_parse ts b r : basic_at ts b r -> parse_basic ts = Some (b, r).
Proof.
  intros H. inversion H; subst; unfold parse_basic.
  - rewrite H0, H1, H2. reflexivity.
  - assert (lit ":" t1 = false) by litf. assert (lit "!" t3 = false \/ True) by auto.
    rewrite H0, H1, H5, H2, H3, H4. reflexivity.
  - assert (lit ":" t1 = false) by litf. assert (lit "=" t3 = false) by litf.
    rewrite H0, H1, H6, H7, H2, H3, H4, H5. reflexivity.
  - assert (lit "attributes" t0 = false) by litf.
    rewrite H8, H0, H1, H2, H3, H4, H5, H6, H7. reflexivity.
Qed.

Lemma parse_basic_spec ts b r : parse_basic ts = Some (b, r) <-> basic_at ts b r.
Proof. split; [apply parse_basic_at|apply basic_at_parse]. Qed.

Lemma basic_at_len ts b r : basic_at ts b r -> (length r + 3 <= length ts)%nat.
Proof. intros H; inversion H; subst; cbn [length]; lia. Qed.

Lemma basic_at_head ts b r : basic_at ts b r ->
  exists k l, ts = k :: l /\ (lit "attributes" k = true \/ lit "hasPrefix" k = true).
Proof. intros H; inversion H; subst; eauto. Qed.

Lemma parse_basic_none_head k l :
  lit "attributes" k = false -> lit "hasPrefix" k = false -> parse_basic (k :: l) = None.
Proof.
  intros A B. destruct (parse_basic (k :: l)) as [[b r]|] eqn:E; [|reflexivity].
  apply parse_basic_at, basic_at_head in E. destruct E as (k' & l' & E & [H|H]);
    inversion E; subst; congruence.
Qed.

(* ---------- one-step unfoldings ---------- *)
Definition neg_split (ts : list token) : bool * list token :=
  match ts with
  | k :: r => if lit "NOT" k || lit "-" k then (true, r) else (false, ts)
  | [] => (false, ts)
  end.

Lemma parse_term_S f ts : parse_term (S f) ts =
  let '(neg, ts1) := neg_split ts in
  match parse_basic ts1 with
  | Some (b, r) => Some (TmBasic neg b, r)
  | None =>
      match ts1 with
      | k :: r =>
          if lit "(" k then
            match parse_cond f r with
            | Some (c, k2 :: r2) => if lit ")" k2 then Some (TmSub neg c, r2) else None
            | _ => None
            end
          else None
      | [] => None
      end
  end.
Proof. reflexivity. Qed.

Lemma parse_cond_S f ts : parse_cond (S f) ts =
  match parse_term f ts with
  | None => None
  | Some (t, r) =>
      match r with
      | k :: r' =>
          if lit "AND" k then
            match parse_more f "AND" r with
            | Some (more, r2) => Some (Cond t KAnd more, r2)
            | None => None
            end
          else if lit "OR" k then
            match parse_more f "OR" r with
            | Some (more, r2) => Some (Cond t KOr more, r2)
            | None => None
            end
          else Some (Cond t KNone TNil, r)
      | [] => Some (Cond t KNone TNil, r)
      end
  end.
Proof. reflexivity. Qed.

Lemma parse_more_S f w ts : parse_more (S f) w ts =
  match ts with
  | k :: r =>
      if lit w k then
        match parse_term f r with
        | None => None
        | Some (t, r2) =>
            match r2 with
            | k2 :: _ =>
                if lit w k2 then
                  match parse_more f w r2 with
                  | Some (more, r3) => Some (TCons t more, r3)
                  | None => None
                  end
                else Some (TCons t TNil, r2)
            | [] => Some (TCons t TNil, r2)
            end
        end
      else None
  | [] => None
  end.
Proof. reflexivity. Qed.

Lemma neg_split_cases ts neg ts1 : neg_split ts = (neg, ts1) ->
  (neg = false /\ ts1 = ts /\
   match ts with k :: _ => lit "NOT" k = false /\ lit "-" k = false | [] => True end) \/
  (exists k, neg = true /\ ts = k :: ts1 /\ (lit "NOT" k = true \/ lit "-" k = true)).
Proof.
  unfold neg_split. destruct ts as [|k r].
  - intros H; inversion H; auto.
  - destruct (lit "NOT" k || lit "-" k) eqn:E; intros H; inversion H; subst.
    + right. exists k. apply orb_prop in E. auto.
    + left. apply orb_false_elim in E. auto.
Qed.

Lemma neg_split_len ts neg ts1 : neg_split ts = (neg, ts1) -> (length ts1 <= length ts)%nat.
Proof.
  intros H. apply neg_split_cases in H.
  destruct H as [(_ & -> & _)|(k & _ & -> & _)]; cbn [length]; lia.
Qed.

(* ---------- the fuel-free specification ---------- *)
Definition head_not (w : string) (r : list token) : Prop :=
  match r with [] => True | k :: _ => lit w k = false end.
Definition stop_andor (r : list token) : Prop := head_not "AND" r /\ head_not "OR" r.

Inductive P_cond : list token -> cond -> list token -> Prop :=
| PC_none ts t r : P_term ts t r -> stop_andor r -> P_cond ts (Cond t KNone TNil) r
| PC_and ts t r more r2 :
    P_term ts t r -> P_more "AND" r more r2 -> P_cond ts (Cond t KAnd more) r2
| PC_or ts t r more r2 :
    P_term ts t r -> P_more "OR" r more r2 -> P_cond ts (Cond t KOr more) r2
with P_more : string -> list token -> terms -> list token -> Prop :=
| PM_last w k ts t r :
    lit w k = true -> P_term ts t r -> head_not w r -> P_more w (k :: ts) (TCons t TNil) r
| PM_cons w k ts t r more r2 :
    lit w k = true -> P_term ts t r -> P_more w r more r2 ->
    P_more w (k :: ts) (TCons t more) r2
with P_term : list token -> term -> list token -> Prop :=
| PT_basic ts neg ts1 b r :
    neg_split ts = (neg, ts1) -> basic_at ts1 b r -> P_term ts (TmBasic neg b) r
| PT_sub ts neg k ts1 c k2 r :
    neg_split ts = (neg, k :: ts1) -> lit "(" k = true ->
    P_cond ts1 c (k2 :: r) -> lit ")" k2 = true -> P_term ts (TmSub neg c) r.

Scheme P_cond_mut := Minimality for P_cond Sort Prop
  with P_more_mut := Minimality for P_more Sort Prop
  with P_term_mut := Minimality for P_term Sort Prop.
Combined Scheme P_mutind from P_cond_mut, P_more_mut, P_term_mut.

Lemma P_more_head w r more r2 : P_more w r more r2 ->
  exists k r', r = k :: r' /\ lit w k = true.
Proof. intros H; inversion H; subst; eauto. Qed.

(* ---------- parser => specification ---------- *)
Lemma parse_P f :
  (forall ts c r, parse_cond f ts = Some (c, r) -> P_cond ts c r) /\
  (forall w ts m r, parse_more f w ts = Some (m, r) -> P_more w ts m r) /\
  (forall ts t r, parse_term f ts = Some (t, r) -> P_term ts t r).
Proof.
  induction f as [|f (IC & IM & IT)]; [repeat split; intros; discriminate|].
  repeat split.
  - intros ts c r H. rewrite parse_cond_S in H.
    destruct (parse_term f ts) as [[t r1]|] eqn:E; [|discriminate]. apply IT in E.
    destruct r1 as [|k r1'].
    { inversion H; subst. apply PC_none; [exact E|split; exact I]. }
    destruct (lit "AND" k) eqn:A.
    { destruct (parse_more f "AND" (k :: r1')) as [[more r2]|] eqn:M; [|discriminate].
      inversion H; subst. eapply PC_and; eauto. }
    destruct (lit "OR" k) eqn:O.
    { destruct (parse_more f "OR" (k :: r1')) as [[more r2]|] eqn:M; [|discriminate].
      inversion H; subst. eapply PC_or; eauto. }
    inversion H; subst. apply PC_none; [exact E|split; assumption].
  - intros w ts m r H. rewrite parse_more_S in H.
    destruct ts as [|k r0]; [discriminate|].
    destruct (lit w k) eqn:L; [|discriminate].
    destruct (parse_term f r0) as [[t r2]|] eqn:E; [|discriminate]. apply IT in E.
    destruct r2 as [|k2 r3].
    { inversion H; subst. eapply PM_last; eauto. exact I. }
    destruct (lit w k2) eqn:L2.
    { destruct (parse_more f w (k2 :: r3)) as [[more r4]|] eqn:M; [|discriminate].
      inversion H; subst. eapply PM_cons; eauto. }
    inversion H; subst. eapply PM_last; eauto.
  - intros ts t r H. rewrite parse_term_S in H.
    destruct (neg_split ts) as [neg ts1] eqn:N.
    destruct (parse_basic ts1) as [[b r1]|] eqn:B.
    { inversion H; subst. eapply PT_basic; eauto. apply parse_basic_at. exact B. }
    destruct ts1 as [|k r1]; [discriminate|].
    destruct (lit "(" k) eqn:L; [|discriminate].
    destruct (parse_cond f r1) as [[c [|k2 r2]]|] eqn:C; try discriminate.
    destruct (lit ")" k2) eqn:L2; [|discriminate].
    inversion H; subst. eapply PT_sub; eauto.
Qed.

(* ---------- specification => parser, with enough fuel ---------- *)
Lemma P_parse :
  (forall ts c r, P_cond ts c r ->
     exists f0, forall f, (f0 <= f)%nat -> parse_cond f ts = Some (c, r)) /\
  (forall w ts m r, P_more w ts m r ->
     exists f0, forall f, (f0 <= f)%nat -> parse_more f w ts = Some (m, r)) /\
  (forall ts t r, P_term ts t r ->
     exists f0, forall f, (f0 <= f)%nat -> parse_term f ts = Some (t, r)).
Proof.
  apply P_mutind.
  - intros ts t r _ [f0 IH] [SA SO]. exists (S f0). intros [|f] Hf; [lia|].
    rewrite parse_cond_S, (IH f) by lia.
    destruct r as [|k r']; [reflexivity|]. cbn [head_not] in SA, SO. rewrite SA, SO. reflexivity.
  - intros ts t r more r2 _ [f1 IH1] HM [f2 IH2]. exists (S (Nat.max f1 f2)).
    intros [|f] Hf; [lia|]. rewrite parse_cond_S, (IH1 f) by lia.
    destruct (P_more_head _ _ _ _ HM) as (k & r' & -> & L). rewrite L, (IH2 f) by lia. reflexivity.
  - intros ts t r more r2 _ [f1 IH1] HM [f2 IH2]. exists (S (Nat.max f1 f2)).
    intros [|f] Hf; [lia|]. rewrite parse_cond_S, (IH1 f) by lia.
    destruct (P_more_head _ _ _ _ HM) as (k & r' & -> & L).
    assert (lit "AND" k = false) by litf.
    rewrite H, L, (IH2 f) by lia. reflexivity.
  - intros w k ts t r L _ [f0 IH] HN. exists (S f0). intros [|f] Hf; [lia|].
    rewrite parse_more_S, L, (IH f) by lia.
    destruct r as [|k2 r']; [reflexivity|]. cbn [head_not] in HN. rewrite HN. reflexivity.
  - intros w k ts t r more r2 L _ [f1 IH1] HM [f2 IH2]. exists (S (Nat.max f1 f2)).
    intros [|f] Hf; [lia|]. rewrite parse_more_S, L, (IH1 f) by lia.
    destruct (P_more_head _ _ _ _ HM) as (k2 & r' & -> & L2). rewrite L2, (IH2 f) by lia.
    reflexivity.
  - intros ts neg ts1 b r N B. exists 1%nat. intros [|f] Hf; [lia|].
    rewrite parse_term_S, N, (basic_at_parse _ _ _ B). reflexivity.
  - intros ts neg k ts1 c k2 r N L _ [f0 IH] L2. exists (S f0). intros [|f] Hf; [lia|].
    rewrite parse_term_S, N.
    assert (lit "attributes" k = false) by litf. assert (lit "hasPrefix" k = false) by litf.
    rewrite parse_basic_none_head by assumption.
    rewrite L, (IH f) by lia. rewrite L2. reflexivity.
Qed.

(* ---------- every sub-parse consumes input ---------- *)
Lemma P_len :
  (forall ts c r, P_cond ts c r -> (length r < length ts)%nat) /\
  (forall w ts m r, P_more w ts m r -> (length r < length ts)%nat) /\
  (forall ts t r, P_term ts t r -> (length r < length ts)%nat).
Proof.
  apply P_mutind; intros; cbn [length] in *; try lia.
  - apply neg_split_len in H. apply basic_at_len in H0. lia.
  - apply neg_split_len in H. cbn [length] in *. lia.
Qed.

Lemma parse_term_len f ts t r : parse_term f ts = Some (t, r) -> (length r < length ts)%nat.
Proof. intros H. apply (proj2 (proj2 (parse_P f))) in H. apply P_len in H. exact H. Qed.

Lemma parse_cond_len f ts c r : parse_cond f ts = Some (c, r) -> (length r < length ts)%nat.
Proof. intros H. apply (proj1 (parse_P f)) in H. apply P_len in H. exact H. Qed.

(* ---------- fuel independence ---------- *)
Lemma parse_indep f : forall f',
  (forall ts, (2 * length ts + 2 <= f)%nat -> (2 * length ts + 2 <= f')%nat ->
              parse_cond f ts = parse_cond f' ts) /\
  (forall w ts, (2 * length ts + 1 <= f)%nat -> (2 * length ts + 1 <= f')%nat ->
                parse_more f w ts = parse_more f' w ts) /\
  (forall ts, (2 * length ts + 1 <= f)%nat -> (2 * length ts + 1 <= f')%nat ->
              parse_term f ts = parse_term f' ts).
Proof.
  induction f as [|f IH]; intros f'; [repeat split; intros; lia|].
  destruct f' as [|f']; [repeat split; intros; lia|].
  destruct (IH f') as (IC & IM & IT). repeat split.
  - intros ts H H'. rewrite !parse_cond_S, (IT ts) by lia.
    destruct (parse_term f' ts) as [[t r]|] eqn:E; [|reflexivity].
    apply parse_term_len in E.
    destruct r as [|k r']; [reflexivity|].
    destruct (lit "AND" k). { rewrite (IM "AND"%string (k :: r')) by lia. reflexivity. }
    destruct (lit "OR" k). { rewrite (IM "OR"%string (k :: r')) by lia. reflexivity. }
    reflexivity.
  - intros w ts H H'. rewrite !parse_more_S.
    destruct ts as [|k r]; [reflexivity|]. cbn [length] in *.
    destruct (lit w k); [|reflexivity]. rewrite (IT r) by lia.
    destruct (parse_term f' r) as [[t r2]|] eqn:E; [|reflexivity].
    apply parse_term_len in E.
    destruct r2 as [|k2 r3]; [reflexivity|].
    destruct (lit w k2); [|reflexivity].
    rewrite (IM w (k2 :: r3)) by lia. reflexivity.
  - intros ts H H'. rewrite !parse_term_S.
    destruct (neg_split ts) as [neg ts1] eqn:N. apply neg_split_len in N.
    destruct (parse_basic ts1) as [[b r]|]; [reflexivity|].
    destruct ts1 as [|k r]; [reflexivity|]. cbn [length] in *.
    destruct (lit "(" k); [|reflexivity].
    rewrite (IC r) by lia. reflexivity.
Qed.

Lemma parse_cond_indep f f' ts :
  (2 * length ts + 2 <= f)%nat -> (2 * length ts + 2 <= f')%nat ->
  parse_cond f ts = parse_cond f' ts.
Proof. apply parse_indep. Qed.

(* ---------- parse_tokens, fuel-free ---------- *)
Lemma parse_tokens_P ts c : parse_tokens ts = Some c <-> P_cond ts c [].
Proof.
  unfold parse_tokens. split.
  - destruct (parse_cond (3 * length ts + 3) ts) as [[c' [|? ?]]|] eqn:E; try discriminate.
    intros H; inversion H; subst. apply (proj1 (parse_P _)) in E. exact E.
  - intros H. apply P_parse in H. destruct H as [f0 H].
    rewrite (parse_cond_indep _ (Nat.max f0 (3 * length ts + 3))) by lia.
    rewrite H by lia. reflexivity.
Qed.

(* ---------- parse results are well-formed ---------- *)
Lemma P_wf :
  (forall ts c r, P_cond ts c r -> wf_cond c = true) /\
  (forall w ts m r, P_more w ts m r -> wf_terms m = true /\ terms_len m <> O) /\
  (forall ts t r, P_term ts t r -> wf_term t = true).
Proof.
  apply P_mutind; intros; cbn [wf_cond wf_term wf_terms terms_len] in *.
  - rewrite H0. reflexivity.
  - destruct H2 as [A B]. rewrite H0, A. destruct (terms_len more); [congruence|reflexivity].
  - destruct H2 as [A B]. rewrite H0, A. destruct (terms_len more); [congruence|reflexivity].
  - rewrite H1. split; [reflexivity|discriminate].
  - destruct H3 as [A B]. rewrite H1, A. split; [reflexivity|discriminate].
  - reflexivity.
  - assumption.
Qed.

(* names and values produced by the parser are encodings of code point lists *)
Lemma name_of_enc t n : name_of t = Some n -> exists v, n = enc_str v.
Proof. destruct t; cbn; intros H; inversion H; eauto. Qed.
Lemma string_of_enc t n : string_of t = Some n -> exists v, n = enc_str v.
Proof. destruct t; cbn; intros H; inversion H; eauto. Qed.
