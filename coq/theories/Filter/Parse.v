(* Filter/Parse.v -- recursive-descent parser over tokens mirroring the participle grammar
   of filter/grammar.go:
     Condition = Term ( ("AND" Term)+ | ("OR" Term)+ )?
     Term      = ("NOT" | "-")? ( Basic | "(" Condition ")" )
     Basic     = "attributes" ":" (Ident|String)
               | "attributes" "." (Ident|String) ("=" | "!" "=") String
               | "hasPrefix" "(" "attributes" "." (Ident|String) "," String ")"
   Faithful to participle: a grammar literal matches a token of ANY kind whose value
   equals it (so the unquoted string token "AND" matches the literal AND -- finding F14);
   the references Ident / String match by kind. *)
From MB Require Import Base.
From MB.Filter Require Import Utf8 Ast Lex.
Open Scope N_scope.

Definition cps_eqb (a b : list N) : bool := list_eqb N.eqb a b.

(* participle literal.Parse: l.t == EOF, so only the value is compared *)
Definition lit (s : string) (t : token) : bool := cps_eqb (tok_value t) (cps s).

(* @(Ident|String) *)
Definition name_of (t : token) : option str :=
  match t with TId v => Some (enc_str v) | TStr v => Some (enc_str v) | TPu _ => None end.
(* @String *)
Definition string_of (t : token) : option str :=
  match t with TStr v => Some (enc_str v) | _ => None end.

Definition parse_basic (ts : list token) : option (basic * list token) :=
  match ts with
  | t0 :: t1 :: t2 :: r3 =>
      if lit "attributes" t0 && lit ":" t1 then
        match name_of t2 with Some n => Some (BHas n, r3) | None => None end
      else if lit "attributes" t0 && lit "." t1 then
        match name_of t2, r3 with
        | Some n, t3 :: r4 =>
            if lit "=" t3 then
              match r4 with
              | t4 :: r5 => match string_of t4 with Some v => Some (BVal n false v, r5) | None => None end
              | [] => None
              end
            else if lit "!" t3 then
              match r4 with
              | t4 :: t5 :: r6 =>
                  if lit "=" t4 then
                    match string_of t5 with Some v => Some (BVal n true v, r6) | None => None end
                  else None
              | _ => None
              end
            else None
        | _, _ => None
        end
      else if lit "hasPrefix" t0 && lit "(" t1 && lit "attributes" t2 then
        match r3 with
        | t3 :: t4 :: t5 :: t6 :: t7 :: r8 =>
            if lit "." t3 && lit "," t5 && lit ")" t7 then
              match name_of t4, string_of t6 with
              | Some n, Some v => Some (BPrefix n v, r8)
              | _, _ => None
              end
            else None
        | _ => None
        end
      else None
  | _ => None
  end.

Fixpoint parse_cond (fuel : nat) (ts : list token) : option (cond * list token) :=
  match fuel with
  | O => None
  | S f =>
      match parse_term f ts with
      | None => None
      | Some (t, r) =>
          match r with
          | k :: r' =>
              if lit "AND" k then
                match parse_more f "AND" r with
                | Some (more, r2) => Some (Cond t KAnd more, r2)
                | None => None
                end
              else if lit "OR" k then
                match parse_more f "OR" r with
                | Some (more, r2) => Some (Cond t KOr more, r2)
                | None => None
                end
              else Some (Cond t KNone TNil, r)
          | [] => Some (Cond t KNone TNil, r)
          end
      end
  end
(* (kw Term)+ as far as it goes; the caller has seen the first kw *)
with parse_more (fuel : nat) (kw : string) (ts : list token) : option (terms * list token) :=
  match fuel with
  | O => None
  | S f =>
      match ts with
      | k :: r =>
          if lit kw k then
            match parse_term f r with
            | None => None
            | Some (t, r2) =>
                match r2 with
                | k2 :: _ =>
                    if lit kw k2 then
                      match parse_more f kw r2 with
                      | Some (more, r3) => Some (TCons t more, r3)
                      | None => None
                      end
                    else Some (TCons t TNil, r2)
                | [] => Some (TCons t TNil, r2)
                end
            end
          else None
      | [] => None
      end
  end
with parse_term (fuel : nat) (ts : list token) : option (term * list token) :=
  match fuel with
  | O => None
  | S f =>
      let '(neg, ts1) :=
        match ts with
        | k :: r => if lit "NOT" k || lit "-" k then (true, r) else (false, ts)
        | [] => (false, ts)
        end in
      match parse_basic ts1 with
      | Some (b, r) => Some (TmBasic neg b, r)
      | None =>
          match ts1 with
          | k :: r =>
              if lit "(" k then
                match parse_cond f r with
                | Some (c, k2 :: r2) => if lit ")" k2 then Some (TmSub neg c, r2) else None
                | _ => None
                end
              else None
          | [] => None
          end
      end
  end.

Definition parse_tokens (ts : list token) : option cond :=
  match parse_cond (3 * length ts + 3) ts with
  | Some (c, []) => Some c
  | _ => None
  end.

Section WithTables.
  Variable uletter udigit : N -> bool.
  (* filter.Parser.ParseString: None = an error is returned *)
  Definition parse_string (s : str) : option cond :=
    match lex uletter udigit s with
    | Some ts => parse_tokens ts
    | None => None
    end.
End WithTables.
