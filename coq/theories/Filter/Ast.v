(* Filter/Ast.v -- abstract syntax mirroring filter/grammar.go.
     Condition{Term, And|Or}  ->  Cond t k ts     (k = KNone: neither list populated)
     Term{Not, Basic|Sub}     ->  TmBasic neg b | TmSub neg c
     BasicExpression{Has|Value|Predicate} -> BHas | BVal | BPrefix
   The Go structs can also represent unpopulated nodes; the parser never produces them
   and the evaluator's error branches for them are represented by [eval] returning None
   on an empty And/Or list (Filter/Eval.v). *)
From MB Require Import Base.

Inductive basic :=
| BHas (name : str)                               (* attributes:name *)
| BVal (name : str) (neq : bool) (value : str)    (* attributes.name = "v" / != "v" *)
| BPrefix (name : str) (value : str).             (* hasPrefix(attributes.name, "v") *)

Inductive conn := KNone | KAnd | KOr.

Inductive cond : Type :=
| Cond (t : term) (k : conn) (ts : terms)
with term : Type :=
| TmBasic (neg : bool) (b : basic)
| TmSub (neg : bool) (c : cond)
with terms : Type :=
| TNil
| TCons (t : term) (ts : terms).

Scheme cond_mut := Induction for cond Sort Prop
  with term_mut := Induction for term Sort Prop
  with terms_mut := Induction for terms Sort Prop.
Combined Scheme cond_term_terms_ind from cond_mut, term_mut, terms_mut.

Definition basic_eqb (a b : basic) : bool :=
  match a, b with
  | BHas n, BHas m => String.eqb n m
  | BVal n q v, BVal m r w => String.eqb n m && Bool.eqb q r && String.eqb v w
  | BPrefix n v, BPrefix m w => String.eqb n m && String.eqb v w
  | _, _ => false
  end.

Definition conn_eqb (a b : conn) : bool :=
  match a, b with
  | KNone, KNone | KAnd, KAnd | KOr, KOr => true
  | _, _ => false
  end.

Fixpoint cond_eqb (a b : cond) {struct a} : bool :=
  match a, b with
  | Cond t k ts, Cond t' k' ts' => term_eqb t t' && conn_eqb k k' && terms_eqb ts ts'
  end
with term_eqb (a b : term) {struct a} : bool :=
  match a, b with
  | TmBasic n x, TmBasic m y => Bool.eqb n m && basic_eqb x y
  | TmSub n c, TmSub m d => Bool.eqb n m && cond_eqb c d
  | _, _ => false
  end
with terms_eqb (a b : terms) {struct a} : bool :=
  match a, b with
  | TNil, TNil => true
  | TCons t ts, TCons t' ts' => term_eqb t t' && terms_eqb ts ts'
  | _, _ => false
  end.

Fixpoint terms_len (ts : terms) : nat :=
  match ts with TNil => O | TCons _ r => S (terms_len r) end.

(* what the parser produces: a connective comes with a non-empty term list, no
   connective with an empty one *)
Fixpoint wf_cond (c : cond) : bool :=
  match c with
  | Cond t k ts =>
      wf_term t && wf_terms ts &&
      match k with KNone => Nat.eqb (terms_len ts) 0 | _ => negb (Nat.eqb (terms_len ts) 0) end
  end
with wf_term (t : term) : bool :=
  match t with TmBasic _ _ => true | TmSub _ c => wf_cond c end
with wf_terms (ts : terms) : bool :=
  match ts with TNil => true | TCons t r => wf_term t && wf_terms r end.
