(* Filter/Print.v -- mirrors filter/as-filter.go (AsFilter, formatAttrName) and the part
   of strconv.Quote it relies on. strconv.IsPrint for code points >= 128 is a parameter. *)
From MB Require Import Base.
From MB.Filter Require Import Utf8 Ast Lex.
Open Scope N_scope.

(* Go's range-over-string / utf8.DecodeRune: an ill-formed byte yields (RuneError, width 1) *)
Inductive rune_or_byte := Rune (c : N) | BadByte (b : N).

Fixpoint dec_lenient (bs : list N) : list rune_or_byte :=
  match bs with
  | [] => []
  | b0 :: r0 =>
      if b0 <? 128 then Rune b0 :: dec_lenient r0
      else if between 194 b0 223 then
        match r0 with
        | b1 :: r1 =>
            if cont b1 then Rune ((b0 - 192) * 64 + (b1 - 128)) :: dec_lenient r1
            else BadByte b0 :: dec_lenient r0
        | _ => BadByte b0 :: dec_lenient r0
        end
      else if between 224 b0 239 then
        match r0 with
        | b1 :: b2 :: r2 =>
            if between (if b0 =? 224 then 160 else 128) b1 (if b0 =? 237 then 159 else 191)
               && cont b2
            then Rune ((b0 - 224) * 4096 + (b1 - 128) * 64 + (b2 - 128)) :: dec_lenient r2
            else BadByte b0 :: dec_lenient r0
        | _ => BadByte b0 :: dec_lenient r0
        end
      else if between 240 b0 244 then
        match r0 with
        | b1 :: b2 :: b3 :: r3 =>
            if between (if b0 =? 240 then 144 else 128) b1 (if b0 =? 244 then 143 else 191)
               && cont b2 && cont b3
            then Rune ((b0 - 240) * 262144 + (b1 - 128) * 4096 + (b2 - 128) * 64 + (b3 - 128))
                   :: dec_lenient r3
            else BadByte b0 :: dec_lenient r0
        | _ => BadByte b0 :: dec_lenient r0
        end
      else BadByte b0 :: dec_lenient r0
  end.

Definition hexdigit (d : N) : N := if d <? 10 then 48 + d else 87 + d.   (* lower case *)
Fixpoint hexdigits (n : nat) (v : N) : list N :=
  match n with
  | O => []
  | S k => hexdigits k (v / 16) ++ [hexdigit (v mod 16)]
  end.

Section Printer.
  Variable uletter udigit : N -> bool.
  Variable uprint : N -> bool.      (* strconv.IsPrint on code points >= 128 *)

  Definition is_print (c : N) : bool := if c <? 128 then (32 <=? c) && (c <=? 126) else uprint c.

  (* strconv.appendEscapedRune with quote = double quote, ASCIIonly = false *)
  Definition quote_rune (c : N) : list N :=
    if (c =? 34) || (c =? 92) then [92; c]
    else if is_print c then enc_rune c
    else if c =? 7 then [92; 97]
    else if c =? 8 then [92; 98]
    else if c =? 12 then [92; 102]
    else if c =? 10 then [92; 110]
    else if c =? 13 then [92; 114]
    else if c =? 9 then [92; 116]
    else if c =? 11 then [92; 118]
    else if (c <? 32) || (c =? 127) then [92; 120] ++ hexdigits 2 c
    else if c <? 65536 then [92; 117] ++ hexdigits 4 c
    else [92; 85] ++ hexdigits 8 c.

  Definition quote_item (x : rune_or_byte) : list N :=
    match x with
    | Rune c => quote_rune c
    | BadByte b => [92; 120] ++ hexdigits 2 b
    end.

  (* strconv.Quote, as bytes *)
  Definition quote_bytes (s : str) : list N :=
    [34] ++ flat_map quote_item (dec_lenient (bytes_of s)) ++ [34].

  (* formatAttrName, after the fix of F3: the empty name is quoted *)
  Definition name_is_ident (s : str) : bool :=
    match dec_lenient (bytes_of s) with
    | [] => false
    | Rune c :: r =>
        ident_start uletter c &&
        forallb (fun x => match x with Rune c => ident_part uletter udigit c | BadByte _ => false end) r
    | BadByte _ :: _ => false
    end.

  Definition format_name (s : str) : list N :=
    if name_is_ident s then bytes_of s else quote_bytes s.

  Definition print_basic (b : basic) : list N :=
    match b with
    | BHas n => cps "attributes:" ++ format_name n
    | BVal n neq v =>
        cps "attributes." ++ format_name n ++ (if neq then cps "!=" else cps "=") ++ quote_bytes v
    | BPrefix n v =>
        cps "hasPrefix(attributes." ++ format_name n ++ cps "," ++ quote_bytes v ++ cps ")"
    end.

  (* Condition.AsFilter / Term.AsFilter / appendTerms; None = the Go error for an
     unpopulated sequence *)
  Fixpoint print_cond (c : cond) : option (list N) :=
    match c with
    | Cond t k ts =>
        match print_term t with
        | None => None
        | Some a =>
            match k with
            | KNone => Some a
            | KAnd => match ts with
                      | TNil => None
                      | _ => option_map (app a) (print_terms (cps " AND ") ts)
                      end
            | KOr => match ts with
                     | TNil => None
                     | _ => option_map (app a) (print_terms (cps " OR ") ts)
                     end
            end
        end
    end
  with print_term (t : term) : option (list N) :=
    match t with
    | TmBasic neg b => Some ((if neg then cps "NOT " else []) ++ print_basic b)
    | TmSub neg c =>
        match print_cond c with
        | Some a => Some ((if neg then cps "NOT " else []) ++ cps "(" ++ a ++ cps ")")
        | None => None
        end
    end
  with print_terms (sep : list N) (ts : terms) : option (list N) :=
    match ts with
    | TNil => Some []
    | TCons t r =>
        match print_term t, print_terms sep r with
        | Some a, Some b => Some (sep ++ a ++ b)
        | _, _ => None
        end
    end.

  Definition print_filter (c : cond) : option str := option_map str_of (print_cond c).

  (* the same printer at token level: what the text above lexes to *)
  Definition name_token (s : str) : token :=
    match dec_str s with
    | Some cs => if name_is_ident s then TId cs else TStr cs
    | None => TStr []   (* never for parsed filters: their strings are well-formed UTF-8 *)
    end.
  Definition str_token (s : str) : token :=
    match dec_str s with Some cs => TStr cs | None => TStr [] end.
  Definition kw (s : string) : token := TId (cps s).
  Definition pu (s : string) : token := match cps s with c :: _ => TPu c | [] => TPu 0 end.

  Definition basic_tokens (b : basic) : list token :=
    match b with
    | BHas n => [kw "attributes"; pu ":"; name_token n]
    | BVal n neq v =>
        [kw "attributes"; pu "."; name_token n] ++ (if neq then [pu "!"; pu "="] else [pu "="])
          ++ [str_token v]
    | BPrefix n v =>
        [kw "hasPrefix"; pu "("; kw "attributes"; pu "."; name_token n; pu ","; str_token v; pu ")"]
    end.

  Fixpoint cond_tokens (c : cond) : list token :=
    match c with
    | Cond t k ts =>
        term_tokens t ++
        match k with
        | KNone => []
        | KAnd => terms_tokens (kw "AND") ts
        | KOr => terms_tokens (kw "OR") ts
        end
    end
  with term_tokens (t : term) : list token :=
    match t with
    | TmBasic neg b => (if neg then [kw "NOT"] else []) ++ basic_tokens b
    | TmSub neg c => (if neg then [kw "NOT"] else []) ++ [pu "("] ++ cond_tokens c ++ [pu ")"]
    end
  with terms_tokens (sep : token) (ts : terms) : list token :=
    match ts with
    | TNil => []
    | TCons t r => sep :: term_tokens t ++ terms_tokens sep r
    end.
End Printer.
