(* Filter/Check.v -- executable comparison of the filter model with what the Go package
   did on the same inputs (used by the C07 / C08 correspondence checks). *)
From MB Require Import Base.
From MB.Filter Require Import Utf8 Ast Lex Parse Print Eval Sem Tables.
Open Scope list_scope.

Definition parse_default (s : str) : option cond := parse_string tbl_letter tbl_digit s.
Definition print_default (c : cond) : option str := print_filter tbl_letter tbl_digit tbl_print c.

(* ---- acceptance outside the DOCUMENTED grammar (finding F14) ----
   The documented filter grammar has no comments, and its keywords and punctuation are bare
   tokens. The implementation (participle over text/scanner) skips Go comments and lets a
   quoted string stand for a keyword or punctuation mark whose text it spells. A source is
   strictly documented when it has no comment and no string token sits in a literal position:
   the latter is tested by re-parsing with every string token replaced by a string that
   spells nothing (value positions accept any string, literal positions do not). *)
Fixpoint has_comment_from (fuel : nat) (instr : bool) (cs : list N) : bool :=
  match fuel with
  | O => false
  | S f =>
      match cs with
      | [] => false
      | c :: r =>
          if instr then
            if (c =? 92)%N then match r with _ :: r' => has_comment_from f true r' | [] => false end
            else if (c =? 34)%N then has_comment_from f false r
            else has_comment_from f true r
          else if (c =? 34)%N then has_comment_from f true r
          else if (c =? 47)%N then
            match r with
            | c2 :: _ => if (c2 =? 47)%N || (c2 =? 42)%N then true else has_comment_from f false r
            | [] => false
            end
          else has_comment_from f false r
      end
  end.
Definition has_comment (s : str) : bool :=
  match dec_str s with Some cs => has_comment_from (S (length cs)) false cs | None => false end.

Definition neutral (t : token) : token :=
  match t with TStr _ => TStr (cps "_a_string_") | _ => t end.

Definition strict_accepts (s : str) : bool :=
  negb (has_comment s) &&
  match lex tbl_letter tbl_digit s with
  | Some ts => match parse_tokens ts, parse_tokens (map neutral ts) with Some _, Some _ => true | _, _ => false end
  | None => false
  end.

Record fcase := mkFcase {
  f_src : str;
  f_ast : option cond;                       (* ParseString result (None = error) *)
  f_evals : list (smap * option bool);       (* Evaluate on these attribute maps (None = error) *)
  f_print : option str;                      (* AsFilter output *)
  f_reparse : bool }.                        (* AsFilter output parsed back to an equal AST *)

(* discrepancy codes:
   1 accept/reject or AST differs        2 evaluation differs from the model's evaluator
   3 printed text differs                4 printed text does not parse back to the same filter
   5 evaluation differs from the DOCUMENTED semantics (Sem.Documented)   6 evaluation errors
   7 accepted although not a sentence of the DOCUMENTED grammar (comment, or a quoted string in
     the place of a keyword / punctuation mark)
   8 the MEANING of the text differs: what the implementation's evaluator answered is not what the
     model's evaluator answers on the model's parse of the same text (equal to 2 as long as both
     parsers agree; catches a parser that reads another filter out of the text) *)
Definition fcheck (c : fcase) : list nat :=
  let m := parse_default (f_src c) in
  (if opt_eqb cond_eqb m (f_ast c) then [] else [1%nat]) ++
  match m, f_ast c with
  | Some am, Some _ =>
      if forallb (fun e => opt_eqb Bool.eqb (eval am (fst e)) (snd e)) (f_evals c) then [] else [8%nat]
  | _, _ => []
  end ++
  match f_ast c with
  | None => []
  | Some a =>
      (if strict_accepts (f_src c) then [] else [7%nat]) ++
      (if forallb (fun e => opt_eqb Bool.eqb (eval a (fst e)) (snd e)) (f_evals c) then [] else [2%nat]) ++
      (if opt_eqb String.eqb (print_default a) (f_print c) then [] else [3%nat]) ++
      (if f_reparse c && opt_eqb cond_eqb (match print_default a with Some t => parse_default t | None => None end) (Some a)
       then [] else [4%nat]) ++
      (if forallb (fun e => opt_eqb Bool.eqb (Some (sem Documented (den a) (fst e))) (snd e)) (f_evals c)
       then [] else [5%nat]) ++
      (if forallb (fun e => match snd e with Some _ => true | None => false end) (f_evals c) then [] else [6%nat])
  end.

Definition fbad (cs : list (nat * fcase)) : list (nat * list nat) :=
  flat_map (fun ic => match fcheck (snd ic) with [] => [] | l => [(fst ic, l)] end) cs.
