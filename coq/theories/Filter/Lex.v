(* Filter/Lex.v -- the tokens participle's default lexer (text/scanner with GoTokens,
   SkipComments, GoWhitespace) produces for a filter, after participle.Unquote(String).
   Works on code points (Utf8.utf8_dec of the source; ill-formed UTF-8 is a scanner error).

   Token kinds that no element of the grammar can match -- Int, Float, Char, RawString --
   make the parse fail whatever follows (grammar literals match by value and the values
   of those tokens start with a digit, a dot and a digit, a quote or a back-quote; the references
   are Ident|String only), so the model rejects as soon as it meets one: [lex] = None
   means "ParseString returns an error".

   The Unicode letter/digit tables (unicode.IsLetter / IsDigit for code points >= 128) are
   parameters; theorems hold for every classifier, the correspondence check instantiates
   them with a table covering the code points its generator uses. *)
From MB Require Import Base.
From MB.Filter Require Import Utf8.
Open Scope N_scope.

Inductive token :=
| TId (v : list N)      (* scanner.Ident, value = its text *)
| TStr (v : list N)     (* scanner.String, value unquoted *)
| TPu (c : N).          (* any other single character *)

Definition tok_value (t : token) : list N :=
  match t with TId v => v | TStr v => v | TPu c => [c] end.

Definition is_ws (c : N) : bool := (c =? 9) || (c =? 10) || (c =? 13) || (c =? 32).
Definition is_decimal (c : N) : bool := (48 <=? c) && (c <=? 57).
Definition ascii_letter (c : N) : bool :=
  ((65 <=? c) && (c <=? 90)) || ((97 <=? c) && (c <=? 122)).

Definition octval (c : N) : option N := if (48 <=? c) && (c <=? 55) then Some (c - 48) else None.
Definition hexv (c : N) : option N :=
  if (48 <=? c) && (c <=? 57) then Some (c - 48)
  else if (97 <=? c) && (c <=? 102) then Some (c - 87)
  else if (65 <=? c) && (c <=? 70) then Some (c - 55)
  else None.

Fixpoint hexnum (ds : list N) (acc : N) : option N :=
  match ds with
  | [] => Some acc
  | d :: r => match hexv d with Some x => hexnum r (16 * acc + x) | None => None end
  end.

Section Lexer.
  Variable uletter : N -> bool.   (* unicode.IsLetter on code points >= 128 *)
  Variable udigit : N -> bool.    (* unicode.IsDigit on code points >= 128 *)

  Definition is_letter (c : N) : bool := if c <? 128 then ascii_letter c else uletter c.
  Definition is_digit (c : N) : bool := if c <? 128 then is_decimal c else udigit c.
  (* scanner.isIdentRune *)
  Definition ident_start (c : N) : bool := (c =? 95) || is_letter c.
  Definition ident_part (c : N) : bool := (c =? 95) || is_letter c || is_digit c.

  Fixpoint span_ident (cs : list N) : list N * list N :=
    match cs with
    | c :: r => if ident_part c then let '(a, b) := span_ident r in (c :: a, b) else ([], cs)
    | [] => ([], [])
    end.

  (* scanString + scanEscape + participle's unquote (strconv.UnquoteChar per char,
     result appended as string(rune)); [cs] starts after the opening quote *)
  Fixpoint scan_string (cs : list N) (acc : list N) : option (list N * list N) :=
    match cs with
    | [] => None                                   (* literal not terminated *)
    | c :: r =>
        if c =? 34 then Some (rev acc, r)
        else if c =? 10 then None                  (* newline in string *)
        else if c =? 92 then
          match r with
          | [] => None
          | e :: r1 =>
              if e =? 97 then scan_string r1 (7 :: acc)          (* \a *)
              else if e =? 98 then scan_string r1 (8 :: acc)     (* \b *)
              else if e =? 102 then scan_string r1 (12 :: acc)   (* \f *)
              else if e =? 110 then scan_string r1 (10 :: acc)   (* \n *)
              else if e =? 114 then scan_string r1 (13 :: acc)   (* \r *)
              else if e =? 116 then scan_string r1 (9 :: acc)    (* \t *)
              else if e =? 118 then scan_string r1 (11 :: acc)   (* \v *)
              else if e =? 92 then scan_string r1 (92 :: acc)    (* \\ *)
              else if e =? 34 then scan_string r1 (34 :: acc)    (* escaped double quote *)
              else if (48 <=? e) && (e <=? 55) then              (* \ooo *)
                match r1 with
                | d1 :: d2 :: r3 =>
                    match octval d1, octval d2 with
                    | Some x1, Some x2 =>
                        let v := (e - 48) * 64 + x1 * 8 + x2 in
                        if v <=? 255 then scan_string r3 (v :: acc) else None
                    | _, _ => None
                    end
                | _ => None
                end
              else if e =? 120 then                              (* \xhh *)
                match r1 with
                | d1 :: d2 :: r3 =>
                    match hexnum [d1; d2] 0 with
                    | Some v => scan_string r3 (v :: acc)
                    | None => None
                    end
                | _ => None
                end
              else if e =? 117 then                              (* \uhhhh *)
                match r1 with
                | d1 :: d2 :: d3 :: d4 :: r5 =>
                    match hexnum [d1; d2; d3; d4] 0 with
                    | Some v => if valid_rune v then scan_string r5 (v :: acc) else None
                    | None => None
                    end
                | _ => None
                end
              else if e =? 85 then                               (* \Uhhhhhhhh *)
                match r1 with
                | d1 :: d2 :: d3 :: d4 :: d5 :: d6 :: d7 :: d8 :: r9 =>
                    match hexnum [d1; d2; d3; d4; d5; d6; d7; d8] 0 with
                    | Some v => if valid_rune v then scan_string r9 (v :: acc) else None
                    | None => None
                    end
                | _ => None
                end
              else None                                          (* invalid char escape *)
          end
        else scan_string r (c :: acc)
    end.

  (* after two slashes: skip to (not including) the newline or the end *)
  Fixpoint skip_line (cs : list N) : list N :=
    match cs with
    | c :: r => if c =? 10 then cs else skip_line r
    | [] => []
    end.

  (* after slash-star: skip past the closing star-slash; None = comment not terminated *)
  Fixpoint skip_block (cs : list N) : option (list N) :=
    match cs with
    | a :: r =>
        match r with
        | b :: r' => if (a =? 42) && (b =? 47) then Some r' else skip_block r
        | [] => None
        end
    | [] => None
    end.

  Fixpoint lex_from (fuel : nat) (cs : list N) : option (list token) :=
    match fuel with
    | O => None
    | S f =>
        match cs with
        | [] => Some []
        | c :: r =>
            if is_ws c then lex_from f r
            else if ident_start c then
              let '(a, b) := span_ident r in option_map (cons (TId (c :: a))) (lex_from f b)
            else if is_decimal c then None                       (* Int / Float *)
            else if c =? 34 then
              match scan_string r [] with
              | Some (v, b) => option_map (cons (TStr v)) (lex_from f b)
              | None => None
              end
            else if c =? 39 then None                            (* Char *)
            else if c =? 96 then None                            (* RawString *)
            else if c =? 46 then
              match r with
              | d :: _ => if is_decimal d then None              (* Float such as .5 *)
                          else option_map (cons (TPu 46)) (lex_from f r)
              | [] => Some [TPu 46]
              end
            else if c =? 47 then
              match r with
              | d :: r' =>
                  if d =? 47 then lex_from f (skip_line r')
                  else if d =? 42 then
                    match skip_block r' with Some b => lex_from f b | None => None end
                  else option_map (cons (TPu 47)) (lex_from f r)
              | [] => Some [TPu 47]
              end
            else option_map (cons (TPu c)) (lex_from f r)
        end
    end.

  (* the whole front end: bytes -> code points (strict UTF-8, no NUL, leading BOM
     dropped) -> tokens *)
  Definition lex (s : str) : option (list token) :=
    match dec_str s with
    | None => None
    | Some cs =>
        if existsb (fun c => c =? 0) cs then None
        else
          let cs := match cs with c :: r => if c =? 65279 then r else cs | [] => cs end in
          lex_from (S (length cs)) cs
    end.
End Lexer.
