(* Filter/LexProofs.v -- structural facts about the lexer: every sub-scanner consumes
   input, so the fuel of [lex_from] is never the reason for a rejection. *)
From MB Require Import Base.
From MB.Filter Require Import Utf8 Lex.
Open Scope N_scope.

(* destruct the innermost scrutinee of a match occurring in hypothesis H *)
Ltac bm H :=
  match type of H with
  | context [match ?x with _ => _ end] =>
      lazymatch x with
      | context [match _ with _ => _ end] => fail
      | _ => destruct x eqn:?
      end
  end.

Lemma scan_string_len n : forall cs acc v b, (length cs <= n)%nat ->
  scan_string cs acc = Some (v, b) -> (length b < length cs)%nat.
Proof.
  induction n as [|n IH]; intros cs acc v b Hn H.
  - destruct cs; [discriminate|cbn in Hn; lia].
  - destruct cs as [|c r]; [discriminate|]. cbn [scan_string] in H.
    repeat (bm H; try discriminate); subst; cbn [length] in *;
      try (apply IH in H; [lia|cbn [length]; lia]).
    inversion H; subst; lia.
Qed.

Lemma scan_string_shorter cs acc v b :
  scan_string cs acc = Some (v, b) -> (length b < length cs)%nat.
Proof. apply (scan_string_len (length cs)). apply le_n. Qed.

Lemma skip_line_len cs : (length (skip_line cs) <= length cs)%nat.
Proof.
  induction cs as [|c r IH]; cbn [skip_line]; [apply le_n|].
  destruct (c =? 10); cbn [length] in *; lia.
Qed.

Lemma skip_block_len cs b : skip_block cs = Some b -> (length b < length cs)%nat.
Proof.
  revert b. induction cs as [|a r IH]; intros b H; [discriminate|].
  cbn [skip_block] in H. destruct r as [|b0 r']; [discriminate|].
  destruct ((a =? 42) && (b0 =? 47)).
  - inversion H; subst. cbn [length]. lia.
  - apply IH in H. cbn [length] in *. lia.
Qed.

Section L.
  Variable uletter udigit : N -> bool.

  Lemma span_ident_app cs a b : span_ident uletter udigit cs = (a, b) -> cs = a ++ b.
  Proof.
    revert a b. induction cs as [|c r IH]; intros a b H; cbn [span_ident] in H.
    - inversion H. reflexivity.
    - destruct (ident_part uletter udigit c).
      + destruct (span_ident uletter udigit r) as [a' b'] eqn:E. inversion H; subst.
        cbn [app]. f_equal. apply IH. reflexivity.
      + inversion H. reflexivity.
  Qed.

  Lemma span_ident_len cs a b :
    span_ident uletter udigit cs = (a, b) -> (length b <= length cs)%nat.
  Proof. intros H. apply span_ident_app in H. subst. rewrite app_length. lia. Qed.

  Lemma lex_from_indep f : forall f' cs, (length cs < f)%nat -> (length cs < f')%nat ->
    lex_from uletter udigit f cs = lex_from uletter udigit f' cs.
  Proof.
    induction f as [|f IH]; intros f' cs H H'; [lia|]. destruct f' as [|f']; [lia|].
    cbn [lex_from]. destruct cs as [|c r]; [reflexivity|]. cbn [length] in *.
    repeat match goal with
      | |- context [match ?x with _ => _ end] =>
          lazymatch x with
          | context [match _ with _ => _ end] => fail
          | _ => destruct x eqn:?
          end
      end; try reflexivity.
    all: repeat match goal with
      | E : span_ident _ _ _ = _ |- _ => apply span_ident_len in E
      | E : scan_string _ _ = Some _ |- _ => apply scan_string_shorter in E
      | E : skip_block _ = Some _ |- _ => apply skip_block_len in E
      end.
    all: try (f_equal; apply IH; subst; cbn [length] in *; lia).
    all: try match goal with |- context [skip_line ?l] => pose proof (skip_line_len l) end.
    all: apply IH; subst; cbn [length] in *; lia.
  Qed.

  Lemma lex_from_mono f f' cs ts : (f <= f')%nat ->
    lex_from uletter udigit f cs = Some ts -> lex_from uletter udigit f' cs = Some ts.
  Proof.
    revert f' cs ts. induction f as [|f IH]; intros f' cs ts Hf H; [discriminate|].
    destruct f' as [|f']; [lia|]. cbn [lex_from] in *.
    assert (IH' : forall cs ts, lex_from uletter udigit f cs = Some ts ->
                                lex_from uletter udigit f' cs = Some ts)
      by (intros; apply IH; [lia|assumption]).
    assert (IHm : forall cs t ts, option_map (cons t) (lex_from uletter udigit f cs) = Some ts ->
                  option_map (cons t) (lex_from uletter udigit f' cs) = Some ts).
    { intros cs0 t ts0 E. destruct (lex_from uletter udigit f cs0) eqn:D; [|discriminate].
      rewrite (IH' _ _ D). exact E. }
    repeat match goal with
      | |- context [match ?x with _ => _ end] =>
          lazymatch x with
          | context [match _ with _ => _ end] => fail
          | _ => destruct x eqn:?
          end
      end; try discriminate; try assumption; auto.
  Qed.
End L.
