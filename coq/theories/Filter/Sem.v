(* Filter/Sem.v -- reference semantics, written independently of the evaluator, over a
   plain boolean expression tree; read off the documented Pub/Sub filter table:
     attributes:k                 the message has attribute k
     attributes.k = "v"           it has k and its value is v
     attributes.k != "v"          NOT (attributes.k = "v")   -- [Documented] reading
     hasPrefix(attributes.k,"v")  it has k and its value starts with v
     NOT e / -e, e AND e, e OR e, ( e )
   The code returns false for != when k is absent ([AsCoded]); [sem] takes the reading
   as a parameter so both are stated and compared (finding F2). *)
From MB Require Import Base.
From MB.Filter Require Import Ast.

Inductive reading := Documented | AsCoded.

Inductive bexp :=
| BAtom (b : basic)
| BNot (e : bexp)
| BAnd (e1 e2 : bexp)
| BOr (e1 e2 : bexp).

Definition has (k : str) (a : smap) : bool :=
  match lookup k a with Some _ => true | None => false end.
Definition has_val (k v : str) (a : smap) : bool :=
  match lookup k a with Some x => String.eqb x v | None => false end.

Definition sem_atom (r : reading) (b : basic) (a : smap) : bool :=
  match b with
  | BHas k => has k a
  | BVal k false v => has_val k v a
  | BVal k true v =>
      match r with
      | Documented => negb (has_val k v a)
      | AsCoded => has k a && negb (has_val k v a)
      end
  | BPrefix k v => match lookup k a with Some x => str_prefix v x | None => false end
  end.

Fixpoint sem (r : reading) (e : bexp) (a : smap) : bool :=
  match e with
  | BAtom b => sem_atom r b a
  | BNot e => negb (sem r e a)
  | BAnd e1 e2 => sem r e1 a && sem r e2 a
  | BOr e1 e2 => sem r e1 a || sem r e2 a
  end.

(* the boolean expression a parsed filter denotes: NOT binds tightest, a Condition is
   its first term joined with all the terms of its single connective *)
Definition neg_if (n : bool) (e : bexp) : bexp := if n then BNot e else e.

Fixpoint den (c : cond) : bexp :=
  match c with
  | Cond t KNone _ => den_term t
  | Cond t KAnd ts => den_and (den_term t) ts
  | Cond t KOr ts => den_or (den_term t) ts
  end
with den_term (t : term) : bexp :=
  match t with
  | TmBasic n b => neg_if n (BAtom b)
  | TmSub n c => neg_if n (den c)
  end
with den_and (acc : bexp) (ts : terms) : bexp :=
  match ts with TNil => acc | TCons t r => den_and (BAnd acc (den_term t)) r end
with den_or (acc : bexp) (ts : terms) : bexp :=
  match ts with TNil => acc | TCons t r => den_or (BOr acc (den_term t)) r end.
