(* Filter/GrammarProofs.v -- the model parser accepts exactly the relaxed documented
   grammar [G_cond] (soundness and completeness, hence unambiguity), and the relaxed
   grammar is the strict documented grammar [Gs_cond] up to quoting of literal tokens. *)
From MB Require Import Base.
From MB.Filter Require Import Utf8 Ast Lex Parse Utf8Proofs LexProofs ParseProofs Grammar.
Require Import ZifyN ZifyNat ZifyBool.
Open Scope N_scope.

(* ---------- Basic ---------- *)
Lemma basic_at_G ts b r : basic_at ts b r -> exists a, ts = a ++ r /\ G_basic a b.
Proof.
  intros H; inversion H; subst; eexists; (split; [|econstructor; eassumption]); reflexivity.
Qed.

Lemma G_basic_at a b : G_basic a b -> forall r, basic_at (a ++ r) b r.
Proof. intros H r; inversion H; subst; cbn [app]; econstructor; eassumption. Qed.

Lemma G_basic_head a b : G_basic a b ->
  exists k l, a = k :: l /\ (lit "attributes" k = true \/ lit "hasPrefix" k = true).
Proof. intros H; inversion H; subst; eauto. Qed.

(* ---------- optional negation ---------- *)
Lemma neg_split_G n neg l : G_neg n neg ->
  match l with k :: _ => lit "NOT" k = false /\ lit "-" k = false | [] => True end ->
  neg_split (n ++ l) = (neg, l).
Proof.
  intros GN HL. inversion GN; subst; cbn [app].
  - destruct l as [|k l']; [reflexivity|]. unfold neg_split. destruct HL as [A B].
    rewrite A, B. reflexivity.
  - unfold neg_split. rewrite H. reflexivity.
  - unfold neg_split. rewrite H, orb_true_r. reflexivity.
Qed.

Lemma sub_assoc {A} (n : list A) k a k2 r :
  (n ++ k :: a ++ [k2]) ++ r = n ++ k :: a ++ k2 :: r.
Proof. rewrite <- app_assoc. cbn [app]. rewrite <- app_assoc. reflexivity. Qed.

(* ---------- soundness: what the parser accepts is derivable ---------- *)
Lemma P_G :
  (forall ts c r, P_cond ts c r -> exists a, ts = a ++ r /\ G_cond a c) /\
  (forall w ts m r, P_more w ts m r -> exists a, ts = a ++ r /\ G_more w a m) /\
  (forall ts t r, P_term ts t r -> exists a, ts = a ++ r /\ G_term a t).
Proof.
  apply P_mutind.
  - intros ts t r _ (a & -> & G) _. exists a. split; [reflexivity|apply GC_term; exact G].
  - intros ts t r more r2 _ (a & -> & G) _ (m & -> & GM). exists (a ++ m).
    split; [rewrite app_assoc; reflexivity|apply GC_and; assumption].
  - intros ts t r more r2 _ (a & -> & G) _ (m & -> & GM). exists (a ++ m).
    split; [rewrite app_assoc; reflexivity|apply GC_or; assumption].
  - intros w k ts t r L _ (a & -> & G) _. exists (k :: a).
    split; [reflexivity|apply GM_one; assumption].
  - intros w k ts t r more r2 L _ (a & -> & G) _ (m & -> & GM). exists (k :: a ++ m).
    split; [cbn [app]; rewrite app_assoc; reflexivity|apply GM_cons; assumption].
  - intros ts neg ts1 b r N B. destruct (basic_at_G _ _ _ B) as (a & -> & GB).
    apply neg_split_cases in N. destruct N as [(-> & <- & _)|(k & -> & -> & L)].
    + exists ([] ++ a). split; [reflexivity|]. apply GT_basic; [apply GN_none|exact GB].
    + exists ([k] ++ a). split; [reflexivity|]. apply GT_basic; [|exact GB].
      destruct L; [apply GN_not|apply GN_minus]; assumption.
  - intros ts neg k ts1 c k2 r N L _ (a & -> & G) L2.
    apply neg_split_cases in N. destruct N as [(-> & <- & _)|(k0 & -> & -> & L0)].
    + exists ([] ++ k :: a ++ [k2]). split; [rewrite sub_assoc; reflexivity|].
      apply GT_sub; auto. apply GN_none.
    + exists ([k0] ++ k :: a ++ [k2]). split; [rewrite sub_assoc; reflexivity|].
      apply GT_sub; auto. destruct L0; [apply GN_not|apply GN_minus]; assumption.
Qed.

(* ---------- completeness: every derivation is followed by the parser ---------- *)
Lemma G_P :
  (forall a c, G_cond a c -> forall r, stop_andor r -> P_cond (a ++ r) c r) /\
  (forall w a m, G_more w a m -> forall r, head_not w r -> P_more w (a ++ r) m r) /\
  (forall a t, G_term a t -> forall r, P_term (a ++ r) t r).
Proof.
  apply (GG_mutind lit lit).
  - intros a t _ IH r S. apply PC_none; auto.
  - intros a m t more _ IHt _ IHm r [SA SO]. rewrite <- app_assoc.
    eapply PC_and; [apply IHt|apply IHm; exact SA].
  - intros a m t more _ IHt _ IHm r [SA SO]. rewrite <- app_assoc.
    eapply PC_or; [apply IHt|apply IHm; exact SO].
  - intros w k a t L _ IH r HN. cbn [app]. apply PM_last; auto.
  - intros w k a t m more L _ IHt _ IHm r HN. cbn [app]. rewrite <- app_assoc.
    eapply PM_cons; [exact L|apply IHt|apply IHm; exact HN].
  - intros n neg a b GN GB r. rewrite <- app_assoc.
    eapply PT_basic; [|apply G_basic_at; exact GB].
    apply neg_split_G; [exact GN|].
    destruct (G_basic_head _ _ GB) as (k & l & -> & [H|H]); cbn [app]; split; litf.
  - intros n neg k a c k2 GN L _ IH L2 r. rewrite sub_assoc.
    eapply PT_sub with (k2 := k2); [| exact L | | exact L2].
    + apply neg_split_G; [exact GN|]. split; litf.
    + apply IH. split; cbn [head_not]; litf.
Qed.

Theorem parse_sound ts c : parse_tokens ts = Some c -> G_cond ts c.
Proof.
  intros H. apply parse_tokens_P in H. destruct (proj1 P_G _ _ _ H) as (a & E & G).
  rewrite app_nil_r in E. subst. exact G.
Qed.

Theorem parse_complete ts c : G_cond ts c -> parse_tokens ts = Some c.
Proof.
  intros H. apply parse_tokens_P. rewrite <- (app_nil_r ts).
  apply (proj1 G_P); [exact H|split; exact I].
Qed.

Theorem parse_iff_grammar ts c : parse_tokens ts = Some c <-> G_cond ts c.
Proof. split; [apply parse_sound|apply parse_complete]. Qed.

(* acceptance = membership *)
Corollary accepts_iff_member ts : (exists c, parse_tokens ts = Some c) <-> (exists c, G_cond ts c).
Proof. split; intros [c H]; exists c; apply parse_iff_grammar; exact H. Qed.

(* the grammar is unambiguous: a token list has at most one syntax tree ... *)
Corollary G_cond_unambiguous ts c c' : G_cond ts c -> G_cond ts c' -> c = c'.
Proof. intros H H'. apply parse_complete in H, H'. congruence. Qed.

(* ... and a term derivation is determined by any text it is a prefix of *)
Corollary G_term_prefix_determined a t a' t' r r' :
  G_term a t -> G_term a' t' -> a ++ r = a' ++ r' -> a = a' /\ t = t' /\ r = r'.
Proof.
  intros H H' E.
  pose proof (proj2 (proj2 G_P) _ _ H r) as Q. pose proof (proj2 (proj2 G_P) _ _ H' r') as Q'.
  apply P_parse in Q, Q'. destruct Q as [f Q], Q' as [f' Q'].
  specialize (Q (Nat.max f f') (Nat.le_max_l _ _)).
  specialize (Q' (Nat.max f f') (Nat.le_max_r _ _)).
  rewrite E in Q. rewrite Q in Q'. inversion Q'; subst.
  apply app_inv_tail in E. auto.
Qed.

(* ================= relaxed vs strict ================= *)

Lemma wlit_lit s t : wlit s t = true -> lit s t = true.
Proof. destruct t; cbn; auto; discriminate. Qed.
Lemma plit_lit s t : plit s t = true -> lit s t = true.
Proof. destruct t; cbn; auto; discriminate. Qed.

Section Mono.
  Variable WL PL WL' PL' : string -> token -> bool.
  Hypothesis HW : forall s t, WL s t = true -> WL' s t = true.
  Hypothesis HP : forall s t, PL s t = true -> PL' s t = true.

  Lemma GG_basic_mono a b : GG_basic WL PL a b -> GG_basic WL' PL' a b.
  Proof. intros H; inversion H; subst; constructor; auto. Qed.

  Lemma GG_neg_mono n neg : GG_neg WL PL n neg -> GG_neg WL' PL' n neg.
  Proof.
    intros H; inversion H; subst; [apply GN_none|apply GN_not|apply GN_minus]; auto.
  Qed.

  Lemma GG_mono :
    (forall a c, GG_cond WL PL a c -> GG_cond WL' PL' a c) /\
    (forall w a m, GG_more WL PL w a m -> GG_more WL' PL' w a m) /\
    (forall a t, GG_term WL PL a t -> GG_term WL' PL' a t).
  Proof.
    apply GG_mutind; intros.
    - apply GC_term; auto.
    - apply GC_and; auto.
    - apply GC_or; auto.
    - apply GM_one; auto.
    - apply GM_cons; auto.
    - apply GT_basic; auto using GG_basic_mono, GG_neg_mono.
    - apply GT_sub; auto using GG_neg_mono.
  Qed.
End Mono.

(* the strict (documented) language is included in the accepted one *)
Theorem strict_relaxed ts c : Gs_cond ts c -> G_cond ts c.
Proof. apply (GG_mono wlit plit lit lit wlit_lit plit_lit). Qed.

(* conversely an accepted token list is a strict one in which some literal tokens have
   been replaced by string tokens with the same value.

   STATEMENT-ISSUE (2b as literally stated, over arbitrary token lists): false.
   Counterexample: ts = [TId (cps "attributes"); TId [58]; TId (cps "x")]  (an identifier
   token whose text is ":") is in G_cond (literals match by value) but the only strict
   list of the same shape has TPu 58 in the middle, which is neither equal to TId [58]
   nor is TId [58] a string token. Such identifier tokens cannot come out of the scanner
   (an identifier starts with a letter or '_'), so the theorem is stated for [tok_lexable]
   token lists, and [lex_lexable] shows every lexer output is one. A counterexample of
   the same kind is machine-checked below: [relaxed_strict_needs_lexable]. *)

Lemma word_fix s t : (2 <= length (cps s))%nat -> lit s t = true ->
  exists t', wlit s t' = true /\ quoted_of t t'.
Proof.
  intros L H. destruct t as [v|v|c]; unfold lit in H; cbn [tok_value] in H.
  - exists (TId v). split; [exact H|left; reflexivity].
  - exists (TId v). split; [exact H|right; exists v; split; reflexivity].
  - apply cps_eqb_eq in H. rewrite <- H in L. cbn in L. lia.
Qed.

Lemma punct_fix s c t : cps s = [c] -> c < 65 -> tok_lexable t -> lit s t = true ->
  exists t', plit s t' = true /\ quoted_of t t'.
Proof.
  intros E C X H. destruct t as [v|v|c']; unfold lit in H; cbn [tok_value] in H.
  - apply cps_eqb_eq in H. rewrite E in H. subst v. cbn in X. lia.
  - apply cps_eqb_eq in H. rewrite E in H. subst v. exists (TPu c). split.
    + cbn [plit]. rewrite E. apply cps_eqb_eq. reflexivity.
    + right. exists [c]. split; reflexivity.
  - exists (TPu c'). split; [exact H|left; reflexivity].
Qed.

Ltac inv_forall :=
  repeat match goal with
         | H : Forall _ (_ :: _) |- _ => inversion H; clear H; subst
         | H : Forall _ [] |- _ => clear H
         end.

Ltac fix_w H :=
  let t' := fresh "t'" in let A := fresh "A" in let B := fresh "B" in
  match type of H with
  | lit ?s ?t = true =>
      let L := fresh "L" in
      assert (L : (2 <= length (cps s))%nat) by (vm_compute; lia);
      destruct (word_fix s t L H) as (t' & A & B); clear L
  end.
Ltac fix_p H :=
  let t' := fresh "t'" in let A := fresh "A" in let B := fresh "B" in
  match type of H with
  | lit ?s ?t = true =>
      let c := eval vm_compute in (hd 0 (cps s)) in
      let E := fresh "E" in let C := fresh "C" in
      assert (E : cps s = [c]) by reflexivity;
      assert (C : c < 65) by reflexivity;
      destruct (punct_fix s c t E C ltac:(assumption) H) as (t' & A & B); clear E C
  end.

Lemma quoted_of_refl t : quoted_of t t.
Proof. left; reflexivity. Qed.

Ltac f2q :=
  repeat (apply Forall2_cons; [first [assumption|apply quoted_of_refl]|]); apply Forall2_nil.

Lemma basic_strict a b : G_basic a b -> Forall tok_lexable a ->
  exists a', Gs_basic a' b /\ Forall2 quoted_of a a'.
Proof.
  intros H X. inversion H; subst; inv_forall.
  - fix_w H0. fix_p H1.
    eexists [_; _; _]. split; [apply GB_has; eassumption|].
    f2q.
  - fix_w H0. fix_p H1. fix_p H3.
    eexists [_; _; _; _; _]. split; [apply GB_eq; eassumption|].
    f2q.
  - fix_w H0. fix_p H1. fix_p H3. fix_p H4.
    eexists [_; _; _; _; _; _]. split; [apply GB_neq; eassumption|].
    f2q.
  - fix_w H0. fix_p H1. fix_w H2. fix_p H3. fix_p H5. fix_p H7.
    eexists [_; _; _; _; _; _; _; _]. split; [apply GB_prefix; eassumption|].
    f2q.
Qed.

Lemma neg_strict n neg : G_neg n neg -> Forall tok_lexable n ->
  exists n', Gs_neg n' neg /\ Forall2 quoted_of n n'.
Proof.
  intros H X. inversion H; subst; inv_forall.
  - exists []. split; [apply GN_none|constructor].
  - fix_w H0. eexists [_]. split; [apply GN_not; eassumption|f2q].
  - fix_p H0. eexists [_]. split; [apply GN_minus; eassumption|f2q].
Qed.

Lemma G_strict :
  (forall a c, G_cond a c -> Forall tok_lexable a ->
     exists a', Gs_cond a' c /\ Forall2 quoted_of a a') /\
  (forall w a m, G_more w a m -> (2 <= length (cps w))%nat -> Forall tok_lexable a ->
     exists a', Gs_more w a' m /\ Forall2 quoted_of a a') /\
  (forall a t, G_term a t -> Forall tok_lexable a ->
     exists a', Gs_term a' t /\ Forall2 quoted_of a a').
Proof.
  apply (GG_mutind lit lit).
  - intros a t _ IH X. destruct (IH X) as (a' & G & F). exists a'.
    split; [apply GC_term; exact G|exact F].
  - intros a m t more _ IHt _ IHm X. apply Forall_app in X. destruct X as [Xa Xm].
    destruct (IHt Xa) as (a' & G & F).
    destruct (IHm ltac:(vm_compute; lia) Xm) as (m' & GM & FM).
    exists (a' ++ m'). split; [apply GC_and; assumption|apply Forall2_app; assumption].
  - intros a m t more _ IHt _ IHm X. apply Forall_app in X. destruct X as [Xa Xm].
    destruct (IHt Xa) as (a' & G & F).
    destruct (IHm ltac:(vm_compute; lia) Xm) as (m' & GM & FM).
    exists (a' ++ m'). split; [apply GC_or; assumption|apply Forall2_app; assumption].
  - intros w k a t L _ IH Lw X. inversion X; subst.
    destruct (word_fix _ _ Lw L) as (k' & A & B). destruct (IH H2) as (a' & G & F).
    exists (k' :: a'). split; [apply GM_one; assumption|constructor; assumption].
  - intros w k a t m more L _ IHt _ IHm Lw X. inversion X; subst.
    apply Forall_app in H2. destruct H2 as [Xa Xm].
    destruct (word_fix _ _ Lw L) as (k' & A & B). destruct (IHt Xa) as (a' & G & F).
    destruct (IHm Lw Xm) as (m' & GM & FM).
    exists (k' :: a' ++ m'). split; [apply GM_cons; assumption|].
    constructor; [assumption|apply Forall2_app; assumption].
  - intros n neg a b GN GB X. apply Forall_app in X. destruct X as [Xn Xa].
    destruct (neg_strict _ _ GN Xn) as (n' & GN' & FN).
    destruct (basic_strict _ _ GB Xa) as (a' & GB' & FA).
    exists (n' ++ a'). split; [apply GT_basic; assumption|apply Forall2_app; assumption].
  - intros n neg k a c k2 GN L _ IH L2 X. apply Forall_app in X. destruct X as [Xn X].
    inversion X; subst. apply Forall_app in H2. destruct H2 as [Xa Xk2]. inv_forall.
    destruct (neg_strict _ _ GN Xn) as (n' & GN' & FN).
    destruct (IH Xa) as (a' & G & F). fix_p L. fix_p L2.
    exists (n' ++ t' :: a' ++ [t'0]). split; [apply GT_sub; assumption|].
    apply Forall2_app; [assumption|]. constructor; [assumption|].
    apply Forall2_app; [assumption|]. f2q.
Qed.

Lemma Forall2_len {A B} (R : A -> B -> Prop) a b : Forall2 R a b -> length a = length b.
Proof. induction 1; cbn [length]; congruence. Qed.

Theorem relaxed_strict ts c : Forall tok_lexable ts -> G_cond ts c ->
  exists ts', Gs_cond ts' c /\ length ts' = length ts /\
    Forall2 (fun t t' => t' = t \/ (exists v, t = TStr v /\ tok_value t' = v)) ts ts'.
Proof.
  intros X H. destruct (proj1 G_strict _ _ H X) as (ts' & G & F). exists ts'.
  split; [exact G|]. split; [symmetry; exact (Forall2_len _ _ _ F)|exact F].
Qed.

(* the [tok_lexable] hypothesis cannot be dropped: machine-checked counterexample to the
   unrestricted statement, with an identifier token whose text is "-" *)
Definition strict_start (k : token) : Prop :=
  wlit "attributes" k = true \/ wlit "hasPrefix" k = true \/ wlit "NOT" k = true \/
  plit "(" k = true \/ plit "-" k = true.

Lemma Gs_head :
  (forall a c, Gs_cond a c -> exists k l, a = k :: l /\ strict_start k) /\
  (forall w a m, Gs_more w a m -> True) /\
  (forall a t, Gs_term a t -> exists k l, a = k :: l /\ strict_start k).
Proof.
  apply (GG_mutind wlit plit); intros; auto.
  - destruct H0 as (k & l & -> & S). exists k, (l ++ m). split; [reflexivity|exact S].
  - destruct H0 as (k & l & -> & S). exists k, (l ++ m). split; [reflexivity|exact S].
  - inversion H; subst; cbn [app].
    + inversion H0; subst; eexists _, _; (split; [reflexivity|]); unfold strict_start; auto.
    + eexists _, _; (split; [reflexivity|]); unfold strict_start; auto.
    + eexists _, _; (split; [reflexivity|]); unfold strict_start; auto 6.
  - inversion H; subst; cbn [app]; eexists _, _; (split; [reflexivity|]);
      unfold strict_start; auto 6.
Qed.

Theorem relaxed_strict_needs_lexable :
  exists ts c, G_cond ts c /\
    ~ (exists ts', Gs_cond ts' c /\ length ts' = length ts /\
         Forall2 (fun t t' => t' = t \/ (exists v, t = TStr v /\ tok_value t' = v)) ts ts').
Proof.
  exists [TId [45]; TId (cps "attributes"); TPu 58; TId (cps "x")],
         (Cond (TmBasic true (BHas "x"%string)) KNone TNil).
  split.
  - apply parse_sound. vm_compute. reflexivity.
  - intros (ts' & G & _ & F). inversion F as [|t t' l l' Q F']; subst.
    destruct Q as [->|(v & E & _)]; [|discriminate].
    destruct (proj1 Gs_head _ _ G) as (k & l0 & E & S). inversion E; subst.
    destruct S as [S|[S|[S|[S|S]]]]; vm_compute in S; discriminate.
Qed.

(* every token list the scanner produces is lexable *)
Section LexOut.
  Variable uletter udigit : N -> bool.

  Lemma ident_start_ge c : ident_start uletter c = true -> 65 <= c.
  Proof.
    unfold ident_start, is_letter, ascii_letter. destruct (N.ltb_spec c 128); lia.
  Qed.

  Lemma lex_from_lexable f : forall cs ts,
    lex_from uletter udigit f cs = Some ts -> Forall tok_lexable ts.
  Proof.
    induction f as [|f IH]; intros cs ts H; [discriminate|]. cbn [lex_from] in H.
    assert (IHm : forall t cs ts, tok_lexable t ->
              option_map (cons t) (lex_from uletter udigit f cs) = Some ts ->
              Forall tok_lexable ts).
    { intros t cs0 ts0 T E. destruct (lex_from uletter udigit f cs0) eqn:D; [|discriminate].
      inversion E; subst. constructor; [exact T|]. eapply IH; eassumption. }
    repeat (bm H; try discriminate);
      try (inversion H; subst; repeat constructor; fail);
      try (eapply IH; eassumption);
      try (eapply IHm; [|eassumption]; exact I).
    eapply IHm; [|eassumption]. cbn. apply ident_start_ge. assumption.
  Qed.

  Lemma lex_lexable s ts : lex uletter udigit s = Some ts -> Forall tok_lexable ts.
  Proof.
    unfold lex. destruct (dec_str s) as [cs|]; [|discriminate].
    destruct (existsb _ cs); [discriminate|]. apply lex_from_lexable.
  Qed.

  (* the language accepted from SOURCE TEXT is the documented one plus quoted spellings
     of keywords / punctuation in literal positions, nothing else *)
  Theorem parse_string_strict s c : parse_string uletter udigit s = Some c ->
    exists ts ts', lex uletter udigit s = Some ts /\ Gs_cond ts' c /\
      length ts' = length ts /\
      Forall2 (fun t t' => t' = t \/ (exists v, t = TStr v /\ tok_value t' = v)) ts ts'.
  Proof.
    unfold parse_string. destruct (lex uletter udigit s) as [ts|] eqn:L; [|discriminate].
    intros H. apply parse_sound in H.
    destruct (relaxed_strict ts c (lex_lexable _ _ L) H) as (ts' & A & B & C).
    exists ts, ts'. auto.
  Qed.
End LexOut.
