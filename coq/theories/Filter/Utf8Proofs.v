(* Filter/Utf8Proofs.v -- the UTF-8 codec of Utf8.v is a bijection between well-formed
   byte strings and lists of Unicode scalar values. *)
From MB Require Import Base.
From MB.Filter Require Import Utf8.
Require Import ZifyN ZifyNat ZifyBool.
Ltac Zify.zify_post_hook ::= Z.div_mod_to_equations.
Open Scope N_scope.

(* ---- strings <-> bytes ---- *)
Lemma str_of_bytes_of s : str_of (bytes_of s) = s.
Proof.
  induction s as [|a s IH]; cbn [bytes_of str_of]; [reflexivity|].
  rewrite ascii_N_embedding, IH. reflexivity.
Qed.

Lemma bytes_of_str_of bs : Forall (fun b => b < 256) bs -> bytes_of (str_of bs) = bs.
Proof.
  induction 1 as [|b bs Hb _ IH]; cbn [bytes_of str_of]; [reflexivity|].
  rewrite N_ascii_embedding by exact Hb. rewrite IH. reflexivity.
Qed.

Lemma bytes_of_lt s : Forall (fun b => b < 256) (bytes_of s).
Proof.
  induction s as [|a s IH]; cbn [bytes_of]; constructor; [|exact IH].
  apply N_ascii_bounded.
Qed.

Lemma bytes_of_inj s s' : bytes_of s = bytes_of s' -> s = s'.
Proof.
  intros H. rewrite <- (str_of_bytes_of s), <- (str_of_bytes_of s'), H. reflexivity.
Qed.

(* ---- one code point ---- *)
Definition fix_rune (c : N) : N := if valid_rune c then c else 65533.

Lemma fix_rune_valid c : valid_rune (fix_rune c) = true.
Proof. unfold fix_rune. destruct (valid_rune c) eqn:E; [exact E|reflexivity]. Qed.

Lemma fix_rune_id c : valid_rune c = true -> fix_rune c = c.
Proof. unfold fix_rune. intros ->. reflexivity. Qed.

Lemma enc_rune_fix c : enc_rune (fix_rune c) = enc_rune c.
Proof.
  unfold enc_rune at 1. rewrite fix_rune_valid. unfold enc_rune, fix_rune. reflexivity.
Qed.

Lemma enc_rune_valid c : valid_rune c = true ->
  enc_rune c =
    if c <? 128 then [c]
    else if c <? 2048 then [192 + c / 64; 128 + c mod 64]
    else if c <? 65536 then [224 + c / 4096; 128 + (c / 64) mod 64; 128 + c mod 64]
    else [240 + c / 262144; 128 + (c / 4096) mod 64; 128 + (c / 64) mod 64; 128 + c mod 64].
Proof. unfold enc_rune. intros ->. reflexivity. Qed.

Lemma enc1 b0 : b0 < 128 -> valid_rune b0 = true /\ enc_rune b0 = [b0].
Proof.
  intros H. assert (V : valid_rune b0 = true) by (unfold valid_rune; lia).
  split; [exact V|]. rewrite (enc_rune_valid _ V).
  destruct (N.ltb_spec b0 128); [reflexivity|lia].
Qed.

Lemma enc2 b0 b1 : between 194 b0 223 = true -> cont b1 = true ->
  valid_rune ((b0 - 192) * 64 + (b1 - 128)) = true /\
  enc_rune ((b0 - 192) * 64 + (b1 - 128)) = [b0; b1].
Proof.
  unfold between, cont. intros H0 H1.
  set (c := (b0 - 192) * 64 + (b1 - 128)).
  assert (Hc : 128 <= c < 2048) by (subst c; lia).
  assert (V : valid_rune c = true) by (unfold valid_rune; lia).
  split; [exact V|]. rewrite (enc_rune_valid _ V).
  destruct (N.ltb_spec c 128); [lia|].
  destruct (N.ltb_spec c 2048); [|lia].
  subst c. repeat f_equal; lia.
Qed.

Lemma enc3 b0 b1 b2 : between 224 b0 239 = true ->
  between (if b0 =? 224 then 160 else 128) b1 (if b0 =? 237 then 159 else 191) = true ->
  cont b2 = true ->
  valid_rune ((b0 - 224) * 4096 + (b1 - 128) * 64 + (b2 - 128)) = true /\
  enc_rune ((b0 - 224) * 4096 + (b1 - 128) * 64 + (b2 - 128)) = [b0; b1; b2].
Proof.
  unfold between, cont. intros H0 H1 H2.
  set (c := (b0 - 224) * 4096 + (b1 - 128) * 64 + (b2 - 128)).
  destruct (N.eqb_spec b0 224) as [E1|E1]; destruct (N.eqb_spec b0 237) as [E2|E2];
    try (exfalso; lia).
  all: assert (Hc : 2048 <= c < 65536) by (subst c; lia).
  all: assert (V : valid_rune c = true) by (unfold valid_rune; subst c; lia).
  all: split; [exact V|]; rewrite (enc_rune_valid _ V).
  all: destruct (N.ltb_spec c 128); [lia|].
  all: destruct (N.ltb_spec c 2048); [lia|].
  all: destruct (N.ltb_spec c 65536); [|lia].
  all: subst c; repeat f_equal; lia.
Qed.

Lemma enc4 b0 b1 b2 b3 : between 240 b0 244 = true ->
  between (if b0 =? 240 then 144 else 128) b1 (if b0 =? 244 then 143 else 191) = true ->
  cont b2 = true -> cont b3 = true ->
  valid_rune ((b0 - 240) * 262144 + (b1 - 128) * 4096 + (b2 - 128) * 64 + (b3 - 128)) = true /\
  enc_rune ((b0 - 240) * 262144 + (b1 - 128) * 4096 + (b2 - 128) * 64 + (b3 - 128)) = [b0; b1; b2; b3].
Proof.
  unfold between, cont. intros H0 H1 H2 H3.
  set (c := (b0 - 240) * 262144 + (b1 - 128) * 4096 + (b2 - 128) * 64 + (b3 - 128)).
  destruct (N.eqb_spec b0 240) as [E1|E1]; destruct (N.eqb_spec b0 244) as [E2|E2];
    try (exfalso; lia).
  all: assert (Hc : 65536 <= c <= 1114111) by (subst c; lia).
  all: assert (V : valid_rune c = true) by (unfold valid_rune; lia).
  all: split; [exact V|]; rewrite (enc_rune_valid _ V).
  all: destruct (N.ltb_spec c 128); [lia|].
  all: destruct (N.ltb_spec c 2048); [lia|].
  all: destruct (N.ltb_spec c 65536); [lia|].
  all: subst c; repeat f_equal; lia.
Qed.

Lemma enc_rune_nonempty c : enc_rune c <> [].
Proof.
  unfold enc_rune.
  repeat match goal with |- context [if ?b then _ else _] => destruct b end; discriminate.
Qed.

Lemma enc_rune_bytes c : Forall (fun b => b < 256) (enc_rune c).
Proof.
  rewrite <- enc_rune_fix. pose proof (fix_rune_valid c) as V.
  set (d := fix_rune c) in *. rewrite (enc_rune_valid _ V).
  assert (d <= 1114111) by (unfold valid_rune in V; lia).
  destruct (N.ltb_spec d 128); [|destruct (N.ltb_spec d 2048); [|destruct (N.ltb_spec d 65536)]].
  all: repeat constructor; lia.
Qed.

Lemma utf8_enc_bytes cs : Forall (fun b => b < 256) (utf8_enc cs).
Proof.
  induction cs as [|c cs IH]; [constructor|].
  unfold utf8_enc. cbn [flat_map]. apply Forall_app. split; [apply enc_rune_bytes|exact IH].
Qed.

(* ---- decoding one step ---- *)
Lemma utf8_dec_step bs cs : utf8_dec bs = Some cs ->
  (bs = [] /\ cs = []) \/
  exists c r cs', cs = c :: cs' /\ bs = enc_rune c ++ r /\ utf8_dec r = Some cs' /\
                  valid_rune c = true /\ (length r < length bs)%nat.
Proof.
  destruct bs as [|b0 r0]; cbn [utf8_dec]; intros H.
  { left. inversion H. auto. }
  right.
  destruct (b0 <? 128) eqn:E0.
  { destruct (utf8_dec r0) as [l|] eqn:D; [|discriminate]. inversion H; subst.
    destruct (enc1 b0) as [V E]; [lia|].
    exists b0, r0, l. rewrite E. cbn [app length]. repeat split; auto. }
  destruct (between 194 b0 223) eqn:E1.
  { destruct r0 as [|b1 r1]; [discriminate|].
    destruct (cont b1) eqn:C1; [|discriminate].
    destruct (utf8_dec r1) as [l|] eqn:D; [|discriminate]. inversion H; subst.
    destruct (enc2 b0 b1 E1 C1) as [V E].
    eexists _, r1, l. rewrite E. cbn [app length]. repeat split; auto. }
  destruct (between 224 b0 239) eqn:E2.
  { destruct r0 as [|b1 [|b2 r2]]; try discriminate.
    match type of H with (if ?x && ?y then _ else _) = _ =>
      destruct x eqn:C1; [|discriminate]; destruct y eqn:C2; [|discriminate] end.
    cbn [andb] in H.
    destruct (utf8_dec r2) as [l|] eqn:D; [|discriminate]. inversion H; subst.
    destruct (enc3 b0 b1 b2 E2 C1 C2) as [V E].
    eexists _, r2, l. rewrite E. cbn [app length]. repeat split; auto. }
  destruct (between 240 b0 244) eqn:E3; [|discriminate].
  destruct r0 as [|b1 [|b2 [|b3 r3]]]; try discriminate.
  match type of H with (if ?x && ?y && ?z then _ else _) = _ =>
    destruct x eqn:C1; [|discriminate]; destruct y eqn:C2; [|discriminate];
    destruct z eqn:C3; [|discriminate] end.
  cbn [andb] in H.
  destruct (utf8_dec r3) as [l|] eqn:D; [|discriminate]. inversion H; subst.
  destruct (enc4 b0 b1 b2 b3 E3 C1 C2 C3) as [V E].
  eexists _, r3, l. rewrite E. cbn [app length]. repeat split; auto.
Qed.

Lemma utf8_dec_spec n : forall bs cs, (length bs <= n)%nat -> utf8_dec bs = Some cs ->
  utf8_enc cs = bs /\ forallb valid_rune cs = true.
Proof.
  induction n as [|n IH]; intros bs cs Hn H.
  - destruct bs; [|cbn in Hn; lia]. cbn in H. inversion H. split; reflexivity.
  - destruct (utf8_dec_step _ _ H) as [[-> ->]|(c & r & cs' & -> & -> & D & V & L)].
    + split; reflexivity.
    + destruct (IH r cs') as [E F]; [lia|exact D|].
      unfold utf8_enc in *. cbn [flat_map forallb]. rewrite E, V, F. split; reflexivity.
Qed.

Theorem utf8_dec_enc' bs cs : utf8_dec bs = Some cs -> utf8_enc cs = bs.
Proof. intros H. exact (proj1 (utf8_dec_spec (length bs) bs cs (le_n _) H)). Qed.

Theorem utf8_dec_valid' bs cs : utf8_dec bs = Some cs -> forallb valid_rune cs = true.
Proof. intros H. exact (proj2 (utf8_dec_spec (length bs) bs cs (le_n _) H)). Qed.

(* ---- encoding then decoding ---- *)
Lemma utf8_dec_enc_rune c r : valid_rune c = true ->
  utf8_dec (enc_rune c ++ r) = option_map (cons c) (utf8_dec r).
Proof.
  intros V. rewrite (enc_rune_valid _ V).
  assert (HV : c < 55296 \/ 57343 < c <= 1114111) by (unfold valid_rune in V; lia).
  destruct (N.ltb_spec c 128) as [L1|L1].
  { cbn [app utf8_dec]. destruct (N.ltb_spec c 128); [reflexivity|lia]. }
  destruct (N.ltb_spec c 2048) as [L2|L2].
  { cbn [app utf8_dec].
    set (b0 := 192 + c / 64). set (b1 := 128 + c mod 64).
    assert (A0 : b0 <? 128 = false) by (subst b0; lia). rewrite A0.
    assert (A1 : between 194 b0 223 = true) by (unfold between; subst b0; lia). rewrite A1.
    assert (A2 : cont b1 = true) by (unfold cont; subst b1; lia). rewrite A2.
    replace ((b0 - 192) * 64 + (b1 - 128)) with c by (subst b0 b1; lia). reflexivity. }
  destruct (N.ltb_spec c 65536) as [L3|L3].
  { cbn [app utf8_dec].
    set (b0 := 224 + c / 4096). set (b1 := 128 + (c / 64) mod 64). set (b2 := 128 + c mod 64).
    assert (A0 : b0 <? 128 = false) by (subst b0; lia). rewrite A0.
    assert (A1 : between 194 b0 223 = false) by (unfold between; subst b0; lia). rewrite A1.
    assert (A2 : between 224 b0 239 = true) by (unfold between; subst b0; lia). rewrite A2.
    assert (A3 : between (if b0 =? 224 then 160 else 128) b1 (if b0 =? 237 then 159 else 191) = true).
    { unfold between.
      destruct (N.eqb_spec b0 224); destruct (N.eqb_spec b0 237); subst b0 b1; lia. }
    rewrite A3.
    assert (A4 : cont b2 = true) by (unfold cont; subst b2; lia). rewrite A4. cbn [andb].
    replace ((b0 - 224) * 4096 + (b1 - 128) * 64 + (b2 - 128)) with c by (subst b0 b1 b2; lia).
    reflexivity. }
  cbn [app utf8_dec].
  set (b0 := 240 + c / 262144). set (b1 := 128 + (c / 4096) mod 64).
  set (b2 := 128 + (c / 64) mod 64). set (b3 := 128 + c mod 64).
  assert (A0 : b0 <? 128 = false) by (subst b0; lia). rewrite A0.
  assert (A1 : between 194 b0 223 = false) by (unfold between; subst b0; lia). rewrite A1.
  assert (A2 : between 224 b0 239 = false) by (unfold between; subst b0; lia). rewrite A2.
  assert (A2' : between 240 b0 244 = true) by (unfold between; subst b0; lia). rewrite A2'.
  assert (A3 : between (if b0 =? 240 then 144 else 128) b1 (if b0 =? 244 then 143 else 191) = true).
  { unfold between.
    destruct (N.eqb_spec b0 240); destruct (N.eqb_spec b0 244); subst b0 b1; lia. }
  rewrite A3.
  assert (A4 : cont b2 = true) by (unfold cont; subst b2; lia). rewrite A4.
  assert (A5 : cont b3 = true) by (unfold cont; subst b3; lia). rewrite A5. cbn [andb].
  replace ((b0 - 240) * 262144 + (b1 - 128) * 4096 + (b2 - 128) * 64 + (b3 - 128)) with c
    by (subst b0 b1 b2 b3; lia).
  reflexivity.
Qed.

Theorem utf8_enc_dec' cs :
  forallb valid_rune cs = true -> utf8_dec (utf8_enc cs) = Some cs.
Proof.
  induction cs as [|c cs IH]; cbn [forallb]; intros H; [reflexivity|].
  apply andb_prop in H. destruct H as [V F].
  unfold utf8_enc in *. cbn [flat_map]. rewrite (utf8_dec_enc_rune _ _ V), (IH F). reflexivity.
Qed.

Lemma utf8_enc_app a b : utf8_enc (a ++ b) = utf8_enc a ++ utf8_enc b.
Proof. unfold utf8_enc. apply flat_map_app. Qed.

Lemma utf8_enc_fix cs : utf8_enc (map fix_rune cs) = utf8_enc cs.
Proof.
  induction cs as [|c cs IH]; [reflexivity|].
  unfold utf8_enc in *. cbn [map flat_map]. rewrite enc_rune_fix, IH. reflexivity.
Qed.

(* ---- string level ---- *)
Lemma dec_enc_str cs : dec_str (enc_str cs) = Some (map fix_rune cs).
Proof.
  unfold dec_str, enc_str. rewrite bytes_of_str_of by apply utf8_enc_bytes.
  rewrite <- utf8_enc_fix. apply utf8_enc_dec'.
  induction cs as [|c cs IH]; [reflexivity|]. cbn [map forallb]. rewrite fix_rune_valid, IH. reflexivity.
Qed.

Lemma dec_enc_str_valid cs : forallb valid_rune cs = true -> dec_str (enc_str cs) = Some cs.
Proof.
  intros H. rewrite dec_enc_str. f_equal.
  induction cs as [|c cs IH]; [reflexivity|]. cbn [forallb] in H. apply andb_prop in H.
  destruct H as [V F]. cbn [map]. rewrite (fix_rune_id _ V), (IH F). reflexivity.
Qed.

Lemma enc_dec_str s cs : dec_str s = Some cs -> enc_str cs = s.
Proof.
  unfold dec_str, enc_str. intros H. rewrite (utf8_dec_enc' _ _ H). apply str_of_bytes_of.
Qed.
