(* Filter/Eval.v -- mirrors filter/evaluate.go. Result None = the Go error return. *)
From MB Require Import Base.
From MB.Filter Require Import Ast.

(* HasAttribute / HasAttributeValue / HasAttributePredicate .Evaluate *)
Definition eval_basic (b : basic) (a : smap) : bool :=
  match b with
  | BHas n => match lookup n a with Some _ => true | None => false end
  | BVal n neq v =>
      match lookup n a with
      | None => false
      | Some x => if neq then negb (String.eqb x v) else String.eqb x v
      end
  | BPrefix n v =>
      match lookup n a with
      | None => false
      | Some x => str_prefix v x
      end
  end.

(* Condition.Evaluate / Term.Evaluate / andTerms / orTerms, with Go's short-circuit
   order: a later erroneous term is not reached once the result is decided *)
Fixpoint eval (c : cond) (a : smap) {struct c} : option bool :=
  match c with
  | Cond t k ts =>
      match eval_term t a with
      | None => None
      | Some r =>
          match k with
          | KNone => Some r
          | KAnd => if r then and_terms ts a true else Some r
          | KOr => if r then Some r else or_terms ts a true
          end
      end
  end
with eval_term (t : term) (a : smap) {struct t} : option bool :=
  match t with
  | TmBasic neg b => Some (xorb (eval_basic b a) neg)
  | TmSub neg c => match eval c a with Some r => Some (xorb r neg) | None => None end
  end
(* [first]: true on entry (an empty list is the Go error), false afterwards *)
with and_terms (ts : terms) (a : smap) (first : bool) {struct ts} : option bool :=
  match ts with
  | TNil => if first then None else Some true
  | TCons t r =>
      match eval_term t a with
      | None => None
      | Some false => Some false
      | Some true => and_terms r a false
      end
  end
with or_terms (ts : terms) (a : smap) (first : bool) {struct ts} : option bool :=
  match ts with
  | TNil => if first then None else Some false
  | TCons t r =>
      match eval_term t a with
      | None => None
      | Some true => Some true
      | Some false => or_terms r a false
      end
  end.
