(* StreamerProofs.v -- C11 on the model of Streamer.v: the flow control bound is an
   invariant of every run (any interleaving of the sender, the reader, the refresher, the
   client and external acks, at the granularity of the code's atomic sections), and the
   sender is never left blocked while the limits leave headroom. *)
From MB Require Import Base Streamer.
Open Scope list_scope.
Open Scope Z_scope.

Definition nonneg (p : pend) : Prop := Forall (fun x => 0 <= snd x) p.

(* ---- lists ---- *)
Lemma used_bytes_nonneg p : nonneg p -> 0 <= used_bytes p.
Proof. induction 1 as [|x p Hx _ IH]; cbn [used_bytes fold_right]; [lia|]. fold (used_bytes p). lia. Qed.

Lemma used_bytes_app p q : used_bytes (p ++ q) = used_bytes p + used_bytes q.
Proof.
  induction p as [|x p IH]; cbn [app used_bytes fold_right]; [reflexivity|].
  fold (used_bytes (p ++ q)) (used_bytes p). lia.
Qed.

Lemma nonneg_filter f p : nonneg p -> nonneg (filter f p).
Proof.
  unfold nonneg. rewrite !Forall_forall. intros H x Hx. apply filter_In in Hx. apply H. tauto.
Qed.

Lemma filter_len_bytes f p : nonneg p ->
  (length (filter f p) <= length p)%nat /\ used_bytes (filter f p) <= used_bytes p.
Proof.
  induction 1 as [|x p Hx Hp IH]; cbn [filter length used_bytes fold_right]; [split; lia|].
  fold (used_bytes p). destruct IH as [IH1 IH2].
  destruct (f x); cbn [length used_bytes fold_right]; fold (used_bytes (filter f p)); split; lia.
Qed.

Lemma has_app i p q : has i (p ++ q) = has i p || has i q.
Proof. unfold has. apply existsb_app. Qed.

Lemma has_cons i x r : has i (x :: r) = N.eqb (fst x) i || has i r.
Proof. reflexivity. Qed.

Lemma has_add_all r : forall p i, has i (add_all r p) = has i p || has i r.
Proof.
  induction r as [|x r IH]; intros p i; cbn [add_all].
  - cbn. rewrite orb_false_r. reflexivity.
  - rewrite has_cons. destruct (has (fst x) p) eqn:E; rewrite IH.
    + destruct (N.eqb (fst x) i) eqn:Ei; cbn [orb]; [|reflexivity].
      apply N.eqb_eq in Ei. subst i. rewrite E. reflexivity.
    + rewrite has_app. change (has i [x]) with (N.eqb (fst x) i || false).
      rewrite orb_false_r, orb_assoc. reflexivity.
Qed.

Lemma add_all_bounds r : forall p, nonneg r -> nonneg p ->
  nonneg (add_all r p) /\
  (length (add_all r p) <= length p + length r)%nat /\
  used_bytes (add_all r p) <= used_bytes p + used_bytes r.
Proof.
  induction r as [|x r IH]; intros p Hr Hp; cbn [add_all].
  - cbn. repeat split; [exact Hp|lia|lia].
  - inversion Hr as [|y l Hx Hr']; subst. cbn [length used_bytes fold_right]. fold (used_bytes r).
    destruct (has (fst x) p).
    + destruct (IH p Hr' Hp) as (A & B & C). pose proof (used_bytes_nonneg r Hr'). repeat split; [exact A|lia|lia].
    + assert (Hp' : nonneg (p ++ [x])).
      { unfold nonneg. apply Forall_app. split; [exact Hp|constructor; [exact Hx|constructor]]. }
      destruct (IH (p ++ [x]) Hr' Hp') as (A & B & C).
      rewrite app_length in B. cbn [length] in B. rewrite used_bytes_app in C. cbn [used_bytes fold_right] in C.
      repeat split; [exact A|lia|lia].
Qed.

Lemma firstn_in {A} n : forall (l : list A) x, In x (firstn n l) -> In x l.
Proof.
  induction n as [|n IH]; intros l x; cbn [firstn]; [intros []|].
  destruct l as [|y l]; [intros []|]. intros [->|H]; [left; reflexivity|right; apply IH; exact H].
Qed.

(* ---- the byte rule of one fetch ---- *)
Lemma select_sub c : forall first strict b maxb x, In x (select c first strict b maxb) -> In x c.
Proof.
  induction c as [|y c IH]; intros first strict b maxb x; cbn [select]; [tauto|].
  destruct ((strict || negb first) && (maxb <? b + snd y)).
  - intros H. right. eapply IH; exact H.
  - intros [->|H]; [left; reflexivity|right; eapply IH; exact H].
Qed.

Lemma select_nonneg c first strict b maxb : nonneg c -> nonneg (select c first strict b maxb).
Proof.
  unfold nonneg. rewrite !Forall_forall. intros H x Hx. apply H. eapply select_sub; exact Hx.
Qed.

Lemma select_length c : forall first strict b maxb, (length (select c first strict b maxb) <= length c)%nat.
Proof.
  induction c as [|y c IH]; intros first strict b maxb; cbn [select length]; [lia|].
  destruct ((strict || negb first) && (maxb <? b + snd y)); cbn [length]; specialize (IH false strict); [specialize (IH b maxb)|specialize (IH (b + snd y) maxb)]; lia.
Qed.

(* once past the first candidate (or in strict mode) the running total never exceeds the budget *)
Lemma select_fits c : forall strict b maxb, nonneg c -> b <= maxb ->
  b + used_bytes (select c false strict b maxb) <= maxb.
Proof.
  induction c as [|y c IH]; intros strict b maxb Hc Hb; cbn [select used_bytes fold_right]; [lia|].
  inversion Hc as [|z l Hy Hc']; subst. rewrite orb_true_r. cbn [andb].
  destruct (maxb <? b + snd y) eqn:E.
  - apply IH; assumption.
  - cbn [used_bytes fold_right]. fold (used_bytes (select c false strict (b + snd y) maxb)).
    apply Z.ltb_ge in E. specialize (IH strict (b + snd y) maxb Hc' E). lia.
Qed.

Lemma select_strict_fits c : forall first b maxb, nonneg c -> b <= maxb ->
  b + used_bytes (select c first true b maxb) <= maxb.
Proof.
  induction c as [|y c IH]; intros first b maxb Hc Hb; cbn [select used_bytes fold_right]; [lia|].
  inversion Hc as [|z l Hy Hc']; subst. cbn [orb andb].
  destruct (maxb <? b + snd y) eqn:E.
  - apply IH; assumption.
  - cbn [used_bytes fold_right]. fold (used_bytes (select c false true (b + snd y) maxb)).
    apply Z.ltb_ge in E. specialize (IH false (b + snd y) maxb Hc' E). lia.
Qed.

(* after an oversized first message nothing else is taken *)
Lemma select_after_oversize c : forall strict b maxb, nonneg c -> maxb < b -> select c false strict b maxb = [].
Proof.
  induction c as [|y c IH]; intros strict b maxb Hc Hb; cbn [select]; [reflexivity|].
  inversion Hc as [|z l Hy Hc']; subst. rewrite orb_true_r. cbn [andb].
  assert (E : (maxb <? b + snd y) = true) by (apply Z.ltb_lt; lia). rewrite E. apply IH; assumption.
Qed.

Lemma fetch_spec cands n maxb strict : nonneg cands -> 0 < n -> 0 <= maxb ->
  let r := fetch cands n maxb strict in
  nonneg r /\ Z.of_nat (length r) <= n /\
  (used_bytes r <= maxb \/ (strict = false /\ (length r <= 1)%nat)).
Proof.
  intros Hc Hn Hb r. unfold r, fetch.
  set (c := firstn (Z.to_nat (Z.min n 100)) cands).
  assert (Hcc : nonneg c).
  { unfold nonneg, c. rewrite Forall_forall. intros x Hx. unfold nonneg in Hc. rewrite Forall_forall in Hc.
    apply Hc. eapply firstn_in; exact Hx. }
  assert (Hlen : Z.of_nat (length c) <= n).
  { unfold c. pose proof (firstn_le_length (Z.to_nat (Z.min n 100)) cands). rewrite firstn_length. lia. }
  split; [apply select_nonneg; exact Hcc|]. split.
  - pose proof (select_length c true strict 0 maxb). lia.
  - destruct strict.
    + left. pose proof (select_strict_fits c true 0 maxb Hcc Hb). lia.
    + destruct c as [|y c']; cbn [select]; [left; cbn; lia|].
      cbn [orb negb andb]. cbn [used_bytes fold_right]. fold (used_bytes (select c' false false (0 + snd y) maxb)).
      inversion Hcc as [|z l Hy Hc']; subst.
      destruct (Z_le_gt_dec (0 + snd y) maxb) as [Hfit|Hover].
      * left. pose proof (select_fits c' false (0 + snd y) maxb Hc' Hfit). lia.
      * right. split; [reflexivity|]. rewrite select_after_oversize by (assumption || lia). cbn. lia.
Qed.

(* ---- the invariants ---- *)
Definition limits_ok (f : fcl) : Prop := 1 <= fm f /\ 1 <= fb f.

Definition Bound (s : sstate) : Prop :=
  nonneg (pending s) /\
  (forall i, In i (client s) -> has i (pending s) = true) /\
  used_msgs (pending s) <= fm (fc s) /\
  (used_bytes (pending s) <= fb (fc s) \/ (length (pending s) <= 1)%nat) /\
  match pc s with
  | SFetch m b strict =>
      0 < m /\ 0 < b /\ m <= fm (fc s) - used_msgs (pending s) /\ b <= fb (fc s) - used_bytes (pending s) /\
      (strict = false -> pending s = [])
  | _ => True
  end.

Definition label_ok (l : label) : Prop :=
  match l with
  | LFetch c => nonneg c
  | LFc _ => False            (* the bound is about constant limits *)
  | _ => True
  end.

Lemma mem_In i l : mem i l = true <-> In i l.
Proof.
  unfold mem. rewrite existsb_exists. split.
  - intros (x & Hx & E). apply N.eqb_eq in E. subst. exact Hx.
  - intros H. exists i. split; [exact H|apply N.eqb_refl].
Qed.

Lemma has_ids i p : has i p = true <-> In i (ids p).
Proof.
  unfold has, ids. rewrite existsb_exists, in_map_iff. split.
  - intros (x & Hx & E). apply N.eqb_eq in E. exists x. auto.
  - intros (x & E & Hx). exists x. split; [exact Hx|apply N.eqb_eq; exact E].
Qed.

Lemma has_remove_ids i l p : has i (remove_ids l p) = has i p && negb (mem i l).
Proof.
  apply Bool.eq_iff_eq_true. rewrite andb_true_iff, negb_true_iff.
  unfold has, remove_ids, mem. rewrite !existsb_exists. split.
  - intros (x & Hx & E). apply filter_In in Hx. destruct Hx as [Hx Hn].
    split; [exists x; auto|]. apply N.eqb_eq in E. subst i. apply negb_true_iff in Hn. exact Hn.
  - intros [(x & Hx & E) Hn]. exists x. split; [|exact E]. apply filter_In. split; [exact Hx|].
    apply N.eqb_eq in E. subst i. apply negb_true_iff. exact Hn.
Qed.

(* whatever a StreamingPull client sends as its limits, the limits in force are >= 1, and a
   limit the client did set is the one in force *)
Theorem effective_fc_ok m b : limits_ok (effective_fc m b).
Proof.
  unfold limits_ok, effective_fc. cbn [fm fb].
  destruct (m <=? 0) eqn:Em; destruct (b <=? 0) eqn:Eb;
    try apply Z.leb_gt in Em; try apply Z.leb_gt in Eb; lia.
Qed.
Theorem effective_fc_keeps m b :
  (0 < m -> fm (effective_fc m b) = m) /\ (0 < b -> fb (effective_fc m b) = b).
Proof.
  unfold effective_fc. cbn [fm fb]. split; intros H.
  - assert (E : (m <=? 0) = false) by (apply Z.leb_gt; exact H). rewrite E. reflexivity.
  - assert (E : (b <=? 0) = false) by (apply Z.leb_gt; exact H). rewrite E. reflexivity.
Qed.

Theorem bound_init f : limits_ok f -> Bound (init f).
Proof.
  intros [Hm Hb]. unfold Bound, init. cbn. repeat split; try constructor; try tauto; try lia.
Qed.

Theorem bound_step s l s' : Bound s -> label_ok l -> step s l = Some s' -> Bound s'.
Proof.
  intros (N & C & M & B & P) Hl. unfold step.
  destruct l; cbn [label_ok] in Hl.
  - (* LCheck *)
    destruct (pc s); try discriminate. intros E; inversion E; subst; clear E.
    unfold Bound. cbn [pending client fc pc]. repeat split; try assumption.
    destruct ((0 <? fb (fc s) - used_bytes (pending s)) && (0 <? fm (fc s) - used_msgs (pending s))) eqn:E; [|exact I].
    apply andb_true_iff in E. destruct E as [E1 E2]. apply Z.ltb_lt in E1, E2.
    repeat split; try lia. destruct (pending s); [reflexivity|discriminate].
  - (* LWakeTok *)
    destruct (pc s); try discriminate; (destruct (tok s); [|discriminate]);
      intros E; inversion E; subst; unfold Bound; cbn; repeat split; assumption.
  - (* LWakePub *)
    destruct (pc s); try discriminate;
      intros E; inversion E; subst; unfold Bound; cbn; repeat split; assumption.
  - (* LTimer *)
    destruct (pc s); try discriminate;
      intros E; inversion E; subst; unfold Bound; cbn; repeat split; assumption.
  - (* LFetch *)
    destruct (pc s) as [| | |m b strict] eqn:Epc; try discriminate.
    intros E; inversion E; subst; clear E.
    destruct P as (Hm & Hb & Hm2 & Hb2 & Hs).
    destruct (fetch_spec cands m b strict Hl Hm ltac:(lia)) as (Rn & Rl & Rb).
    destruct (add_all_bounds (fetch cands m b strict) (pending s) Rn N) as (A1 & A2 & A3).
    unfold Bound. cbn [pending client fc pc]. split; [exact A1|]. split; [|split; [|split; [|destruct (fetch cands m b strict); exact I]]].
    + intros i Hi. rewrite has_add_all. apply in_app_or in Hi. destruct Hi as [Hi|Hi].
      * rewrite (C i Hi). reflexivity.
      * apply has_ids in Hi. rewrite Hi. apply orb_true_r.
    + unfold used_msgs in *. lia.
    + destruct Rb as [Rb|[-> Rb]].
      * left. lia.
      * rewrite (Hs eq_refl) in *. cbn [length] in A2. right. lia.
  - (* LClientSettle *)
    intros E; inversion E; subst. unfold Bound. cbn [pending client fc pc]. repeat split; try assumption.
    intros i Hi. apply filter_In in Hi. apply C. tauto.
  - (* LServerRemove *)
    destruct (forallb (fun i => negb (mem i (client s))) l) eqn:F; [|discriminate].
    intros E; inversion E; subst; clear E.
    assert (L : (length (remove_ids l (pending s)) <= length (pending s))%nat /\
                used_bytes (remove_ids l (pending s)) <= used_bytes (pending s))
      by (unfold remove_ids; apply filter_len_bytes; exact N).
    destruct L as [L1 L2].
    unfold Bound. cbn [pending client fc pc].
    split; [unfold remove_ids; apply nonneg_filter; exact N|]. split; [|split; [|split]].
    + intros i Hi. rewrite has_remove_ids, (C i Hi). cbn [andb].
      destruct (mem i l) eqn:Ml; [|reflexivity]. exfalso.
      rewrite forallb_forall in F. apply mem_In in Ml. specialize (F i Ml).
      apply negb_true_iff in F. apply mem_In in Hi. congruence.
    + unfold used_msgs in *. lia.
    + destruct B as [B|B]; [left; lia|right; lia].
    + destruct (pc s) as [| | |m b strict]; try exact I.
      destruct P as (Hm & Hb & Hm2 & Hb2 & Hs). unfold used_msgs in *.
      repeat split; try lia. intros Es. rewrite (Hs Es). reflexivity.
  - destruct Hl.
Qed.

Theorem bound_run ls : forall s s', Bound s -> Forall label_ok ls -> run s ls = Some s' -> Bound s'.
Proof.
  induction ls as [|l ls IH]; intros s s' Hb Hl; cbn [run].
  - intros E; inversion E; subst; exact Hb.
  - inversion Hl as [|x y Hl1 Hl2]; subst. destruct (step s l) as [s1|] eqn:E; [|discriminate].
    apply IH; [eapply bound_step; eauto|exact Hl2].
Qed.

(* the statement of C11, first half: what the client holds never exceeds its limits, except
   for a single oversized message held alone -- in every reachable state of every
   interleaving *)
Theorem flow_control_bound f ls s :
  limits_ok f -> Forall label_ok ls -> run (init f) ls = Some s ->
  (forall i, In i (client s) -> In i (ids (pending s))) /\
  used_msgs (client_view s) <= fm f /\
  (used_bytes (client_view s) <= fb f \/ (length (client_view s) <= 1)%nat).
Proof.
  intros Hf Hl Hr.
  assert (Hfc : forall ls s0 s1, Forall label_ok ls -> run s0 ls = Some s1 -> fc s1 = fc s0).
  { clear. induction ls as [|l ls IH]; intros s0 s1 Hl; cbn [run]; [intros E; inversion E; reflexivity|].
    inversion Hl as [|x y Hl1 Hl2]; subst. destruct (step s0 l) as [s2|] eqn:E; [|discriminate].
    intros Hr. rewrite (IH _ _ Hl2 Hr). unfold step in E.
    destruct l; cbn [label_ok] in Hl1; try contradiction;
      repeat match type of E with
             | context [match pc ?s with _ => _ end] => destruct (pc s)
             | context [if ?b then _ else _] => destruct b
             end; try discriminate; inversion E; reflexivity. }
  pose proof (bound_run ls _ _ (bound_init f Hf) Hl Hr) as (N & C & M & B & _).
  rewrite (Hfc _ _ _ Hl Hr) in M, B. cbn [init fc] in M, B.
  destruct (filter_len_bytes (fun x => mem (fst x) (client s)) (pending s) N) as [L1 L2].
  fold (client_view s) in L1, L2. split; [|split].
  - intros i Hi. apply has_ids. apply C. exact Hi.
  - unfold used_msgs in *. lia.
  - destruct B as [B|B]; [left; lia|right; lia].
Qed.

(* ---- no stall: the sender is never left blocked while the limits leave headroom ---- *)
Definition NoStall (s : sstate) : Prop := pc s = SWait -> headroom s = true -> tok s = true.

Theorem nostall_init f : NoStall (init f).
Proof. unfold NoStall, init. cbn. discriminate. Qed.

Theorem nostall_step s l s' : NoStall s -> step s l = Some s' -> NoStall s'.
Proof.
  intros H. unfold step. destruct l.
  - destruct (pc s) eqn:Epc; try discriminate. intros E; inversion E; subst; clear E.
    unfold NoStall, headroom. cbn [pc pending fc tok].
    destruct ((0 <? fb (fc s) - used_bytes (pending s)) && (0 <? fm (fc s) - used_msgs (pending s))) eqn:E; [discriminate|].
    intros _ Hh. rewrite andb_comm in Hh. congruence.
  - destruct (pc s); try discriminate; (destruct (tok s); [|discriminate]);
      intros E; inversion E; subst; unfold NoStall; cbn; discriminate.
  - destruct (pc s); try discriminate; intros E; inversion E; subst; unfold NoStall; cbn; discriminate.
  - destruct (pc s); try discriminate; intros E; inversion E; subst; unfold NoStall; cbn; discriminate.
  - destruct (pc s); try discriminate. intros E; inversion E; subst. unfold NoStall. cbn [pc].
    destruct (fetch cands m b strict); discriminate.
  - intros E; inversion E; subst. unfold NoStall, headroom in *. cbn [pc pending fc tok]. exact H.
  - destruct (forallb _ l); [|discriminate]. intros E; inversion E; subst. unfold NoStall. cbn. reflexivity.
  - intros E; inversion E; subst. unfold NoStall. cbn. reflexivity.
Qed.

(* in every reachable state -- limits may change here -- a blocked sender with headroom
   has its wake-up token: capacity freed by a stream ack / nack, an external ack seen by the
   refresher, or a limit change always leaves the token behind *)
Theorem no_stall f ls s : run (init f) ls = Some s -> NoStall s.
Proof.
  revert s. generalize (nostall_init f). generalize (init f) as s0.
  induction ls as [|l ls IH]; intros s0 H0 s; cbn [run].
  - intros E; inversion E; subst; exact H0.
  - destruct (step s0 l) as [s1|] eqn:E; [|discriminate]. apply IH. eapply nostall_step; eauto.
Qed.

Corollary sender_never_stuck f ls s :
  run (init f) ls = Some s -> headroom s = true -> sender_enabled s = true.
Proof.
  intros Hr Hh. pose proof (no_stall f ls s Hr) as NS. unfold sender_enabled.
  destruct (pc s) eqn:E; [reflexivity| |reflexivity|reflexivity]. apply NS; [exact E|exact Hh].
Qed.

(* freeing capacity hands the blocked sender its token in that very step *)
Theorem freeing_capacity_wakes s l s' ids :
  l = LServerRemove ids -> step s l = Some s' -> tok s' = true.
Proof.
  intros -> . unfold step. destruct (forallb _ ids); [|discriminate]. intros E; inversion E; reflexivity.
Qed.

(* ---- the reading issue recorded in DESIGN: head-of-line blocking under the LIMIT ---- *)
(* with room for one more message and 40 bytes, a 60-byte message at the head of the backlog
   hides the 10-byte message behind it: the fetch returns nothing although capacity and a
   fitting deliverable message both exist, and the sender comes straight back to the same
   fetch (it spins; it is not blocked) *)
Theorem head_of_line_refuted :
  exists cands n maxb, 0 < n /\ 0 < maxb /\ (exists x, In x cands /\ snd x <= maxb) /\ fetch cands n maxb true = [].
Proof.
  exists [(1%N, 60); (2%N, 10)], 1, 40. repeat split; try lia.
  exists (2%N, 10). split; [right; left; reflexivity|cbn; lia].
Qed.

(* without the LIMIT cutting the candidate list short, a fitting candidate is always taken *)
Theorem fetch_takes_first_fit c : forall strict b maxb x,
  nonneg c -> In x c -> b + snd x <= maxb -> b <= maxb -> select c false strict b maxb <> [].
Proof.
  induction c as [|y c IH]; intros strict b maxb x Hc Hx Hfit Hb; [destruct Hx|].
  cbn [select]. rewrite orb_true_r. cbn [andb]. inversion Hc as [|z l Hy Hc']; subst.
  destruct (maxb <? b + snd y) eqn:E; [|discriminate].
  destruct Hx as [->|Hx]; [apply Z.ltb_lt in E; lia|]. eapply IH; eauto.
Qed.

(* ---- non-vacuity: a concrete run that reaches the limit, blocks, is freed and goes on ---- *)
Example run_example :
  let f := mkFc 2 100 in
  let ls := [LCheck; LFetch [(1%N, 60); (2%N, 30); (3%N, 30)]; LCheck;
             LClientSettle [1%N]; LServerRemove [1%N]; LWakeTok; LCheck; LFetch [(3%N, 30)]] in
  exists s, run (init f) ls = Some s /\ ids (pending s) = [2%N; 3%N] /\ client s = [2%N; 3%N] /\
            Forall label_ok ls.
Proof.
  eexists. split; [vm_compute; reflexivity|]. split; [reflexivity|]. split; [reflexivity|].
  repeat constructor; cbn; lia.
Qed.
