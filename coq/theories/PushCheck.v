(* PushCheck.v -- executable correspondence check of the HTTP push connection
   (actions/http-push-streamer.go) against Push.v and Base64.v: evaluated by vm_compute on
   what the harness observed (no proofs here; see PushCheckProofs.v). *)
From MB Require Import Base Push Base64.
Open Scope list_scope.
Open Scope Z_scope.

(* one observed Receive(): the batch it returned came from pushes that all ended the same
   way (transport error? final status, how long the push took), has k members, was
   returned as an Ack (true) or Nack (false) list, left the window at w, and carried this
   FlowControl message (if any) *)
Record pobs := mkPobs {
  po_err : bool; po_status : Z; po_dur : Z; po_k : Z;
  po_ack : bool; po_w : Z; po_fc : option (Z * Z) }.

Definition ofc_eqb (a b : option (Z * Z)) : bool := opt_eqb (pair_eqb Z.eqb Z.eqb) a b.

Definition pobs_ok (w : Z) (o : pobs) : bool :=
  let c := classify (po_err o) (po_status o) (po_dur o) in
  Bool.eqb (acked c) (po_ack o) &&
  (window_step w (c, po_k o) =? po_w o) &&
  ofc_eqb (window_fc w (c, po_k o)) (po_fc o).

(* step-local: every Receive is judged from the window the implementation itself had *)
Fixpoint push_check_from (w : Z) (i : nat) (l : list pobs) : list nat :=
  match l with
  | [] => []
  | o :: r => (if pobs_ok w o then [] else [i]) ++ push_check_from (po_w o) (S i) r
  end.
Definition push_check (l : list pobs) : list nat := push_check_from window_init O l.

(* ack decision alone, for pushes observed end to end (database row completed or not) *)
Definition ack_check (l : list (bool * Z * Z * bool)) : list nat :=
  let fix go (i : nat) (l : list (bool * Z * Z * bool)) : list nat :=
    match l with
    | [] => []
    | (e, s, d, a) :: r => (if Bool.eqb (acked (classify e s d)) a then [] else [i]) ++ go (S i) r
    end in go O l.

(* message.data of the envelope = standard base64 of the payload bytes *)
Definition b64_check (l : list (list N * list N)) : list nat :=
  let fix go (i : nat) (l : list (list N * list N)) : list nat :=
    match l with
    | [] => []
    | (bytes, data) :: r => (if list_eqb N.eqb (encode bytes) data then [] else [i]) ++ go (S i) r
    end in go O l.
