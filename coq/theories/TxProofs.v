(* TxProofs.v -- what the transaction wrapper guarantees (model: Tx.v): it answers nil exactly
   when the closure's writes are durable, and it never hides a failure. *)
From MB Require Import Base Tx.
Open Scope list_scope.

(* C09 / C01: success is reported iff the work is durable *)
Theorem do_tx_ok_iff_durable r : fst (do_tx r) = ROk <-> snd (do_tx r) = true.
Proof.
  unfold do_tx. destruct r as [bf i cf rf]. cbn [begin_fault inner commit_fault rollback_fault].
  destruct bf; [cbn; split; discriminate|].
  destruct i; cbn [run_inner]; destruct cf, rf; cbn; split; intros H; try discriminate; reflexivity.
Qed.

(* every failure of BEGIN, of the closure, of COMMIT, and a cancelled context are reported, each by
   its own class *)
Theorem do_tx_reports r :
  (begin_fault r = true -> fst (do_tx r) = RBegin) /\
  (begin_fault r = false -> inner r = IErr -> fst (do_tx r) = RInner) /\
  (begin_fault r = false -> inner r = IPanic -> fst (do_tx r) = RPanic) /\
  (begin_fault r = false -> inner r = IOk -> commit_fault r = true -> fst (do_tx r) = RCommit) /\
  (begin_fault r = false -> (inner r = ICancelErr \/ inner r = ICancelOk) -> fst (do_tx r) = RCtx).
Proof.
  unfold do_tx. destruct r as [bf i cf rf]. cbn [begin_fault inner commit_fault rollback_fault].
  repeat split; intros; subst; try reflexivity.
  match goal with H : _ \/ _ |- _ => destruct H as [->| ->]; reflexivity end.
Qed.

(* the only way to a durable effect: BEGIN, the closure and COMMIT all succeeded, under a live context *)
Theorem do_tx_durable_only_if r :
  snd (do_tx r) = true -> begin_fault r = false /\ (inner r = IOk \/ inner r = IOkCancelAfter) /\ commit_fault r = false.
Proof.
  unfold do_tx. destruct r as [bf i cf rf]. cbn [begin_fault inner commit_fault rollback_fault].
  destruct bf; [discriminate|]. destruct i; cbn [run_inner]; destruct cf; cbn; intros H; try discriminate; auto.
Qed.

(* a failing ROLLBACK changes neither the class of the answer nor the outcome, unless there is
   nothing else to report... which cannot happen: ROLLBACK only runs after a failure *)
Theorem do_tx_rollback_fault_irrelevant bf i cf :
  do_tx (mkTxRun bf i cf true) = do_tx (mkTxRun bf i cf false).
Proof. unfold do_tx. cbn [begin_fault inner commit_fault rollback_fault]. destruct bf, i, cf; reflexivity. Qed.

(* ---- the retry loop *)

Lemma do_retry_cons budget r rest :
  do_retry budget (r :: rest) =
  let '(res, dur) := do_tx r in
  let ran := if begin_fault r then 0%nat else 1%nat in
  match res, budget, rest with
  | RInner, S b, _ :: _ => let '(res', dur', n') := do_retry b rest in (res', dur || dur', (ran + n')%nat)
  | _, _, _ => (res, dur, ran)
  end.
Proof. reflexivity. Qed.

(* whatever the number of attempts and however each of them fails: nil is returned iff some
   attempt's writes are durable -- and then it is the LAST attempt that ran, no earlier one *)
Theorem do_retry_ok_iff_durable runs : forall budget,
  runs <> [] ->
  let '(res, dur, _) := do_retry budget runs in (res = ROk <-> dur = true).
Proof.
  induction runs as [|r rest IH]; intros budget Hne; [contradiction Hne; reflexivity|].
  rewrite do_retry_cons.
  pose proof (do_tx_ok_iff_durable r) as Hr.
  destruct (do_tx r) as [res dur] eqn:E. cbn [fst snd] in Hr.
  destruct res; try exact Hr.
  (* RInner: not durable; the loop may go on *)
  assert (Hd : dur = false) by (destruct dur; [destruct Hr as [_ Hr]; specialize (Hr eq_refl); discriminate|reflexivity]).
  destruct budget as [|b]; [exact Hr|]. destruct rest as [|r' rest']; [exact Hr|].
  specialize (IH b). destruct (do_retry b (r' :: rest')) as [[res' dur'] n'].
  rewrite Hd. cbn [orb]. apply IH. discriminate.
Qed.

(* the closure never runs more often than there are attempts, and not at all after a success *)
Theorem do_retry_runs_bounded runs : forall budget,
  let '(_, _, n) := do_retry budget runs in (n <= length runs)%nat /\ (n <= S budget)%nat.
Proof.
  induction runs as [|r rest IH]; intros budget; [cbn; split; apply Nat.le_0_l|].
  rewrite do_retry_cons. destruct (do_tx r) as [res dur].
  assert (Hran : ((if begin_fault r then 0 else 1) <= 1)%nat) by (destruct (begin_fault r); [apply Nat.le_0_l|apply Nat.le_refl]).
  assert (Hbase : ((if begin_fault r then 0 else 1) <= length (r :: rest))%nat /\ ((if begin_fault r then 0 else 1) <= S budget)%nat).
  { cbn [length]. split; eapply Nat.le_trans; try exact Hran; apply le_n_S, Nat.le_0_l. }
  destruct res; try exact Hbase.
  destruct budget as [|b]; [exact Hbase|]. destruct rest as [|r' rest']; [exact Hbase|].
  specialize (IH b). destruct (do_retry b (r' :: rest')) as [[res' dur'] n']. destruct IH as [I1 I2].
  cbn [length] in *. split.
  - apply (Nat.le_trans _ (1 + n')%nat); [apply Nat.add_le_mono_r; exact Hran|]. apply le_n_S. exact I1.
  - apply (Nat.le_trans _ (1 + n')%nat); [apply Nat.add_le_mono_r; exact Hran|]. apply le_n_S. exact I2.
Qed.

(* non-vacuity: an attempt that fails and is retried, then one that commits; and one whose COMMIT fails *)
Example retry_then_commit :
  do_retry 2 [mkTxRun false IErr false true; mkTxRun false IOk false false] = (ROk, true, 2%nat) /\
  do_retry 2 [mkTxRun false IErr false false; mkTxRun false IOk true false] = (RCommit, false, 2%nat) /\
  do_tx (mkTxRun false ICancelOk false false) = (RCtx, false).
Proof. vm_compute. repeat split. Qed.
