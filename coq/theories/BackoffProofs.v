(* BackoffProofs.v -- proofs about the Backoff model. *)
From MB Require Import Base Backoff.
Open Scope Z_scope.

Lemma sec_pos : 0 < sec.
Proof. reflexivity. Qed.

Lemma eff_pos : forall d o, 0 < d -> 0 < eff d o.
Proof.
  intros d [v|] Hd; unfold eff; auto.
  destruct (0 <? v) eqn:E; auto. apply Z.ltb_lt in E. exact E.
Qed.

Lemma eff_min_pos : forall o, 0 < eff default_min o.
Proof. intros; apply eff_pos; reflexivity. Qed.

Lemma eff_max_pos : forall o, 0 < eff default_max o.
Proof. intros; apply eff_pos; reflexivity. Qed.

Lemma pow10_pos : forall n, 0 <= n -> 0 < 10 ^ n.
Proof. intros; apply Z.pow_pos_nonneg; lia. Qed.

Lemma pow11_pos : forall n, 0 <= n -> 0 < 11 ^ n.
Proof. intros; apply Z.pow_pos_nonneg; lia. Qed.

Lemma pow10_le_pow11 : forall n, 0 <= n -> 10 ^ n <= 11 ^ n.
Proof. intros; apply Z.pow_le_mono_l; lia. Qed.

(* the uncapped delay floor(m * 1.1^n) *)
Definition raw (m n : Z) : Z := m * 11 ^ n / 10 ^ n.

Lemma raw_ge : forall m n, 0 < m -> 0 <= n -> m <= raw m n.
Proof.
  intros m n Hm Hn. unfold raw.
  apply Z.div_le_lower_bound; [apply pow10_pos; auto|].
  rewrite Z.mul_comm. apply Z.mul_le_mono_nonneg_l; [lia|apply pow10_le_pow11; auto].
Qed.

Lemma raw_mono : forall m n n', 0 < m -> 0 <= n -> n <= n' -> raw m n <= raw m n'.
Proof.
  intros m n n' Hm Hn Hle. unfold raw.
  replace n' with (n + (n' - n)) by lia.
  set (d := n' - n). assert (Hd : 0 <= d) by (unfold d; lia).
  rewrite !Z.pow_add_r by lia.
  pose proof (pow10_pos n Hn) as P10n. pose proof (pow10_pos d Hd) as P10d.
  pose proof (pow11_pos n Hn) as P11n. pose proof (pow10_le_pow11 d Hd) as Pd.
  apply Z.div_le_lower_bound; [apply Z.mul_pos_pos; auto|].
  set (q := m * 11 ^ n / 10 ^ n).
  assert (Hq : 10 ^ n * q <= m * 11 ^ n).
  { unfold q. apply Z.mul_div_le; auto. }
  assert (Hq0 : 0 <= m * 11 ^ n) by (apply Z.mul_nonneg_nonneg; lia).
  transitivity (10 ^ d * (m * 11 ^ n)).
  - replace (10 ^ n * 10 ^ d * q) with (10 ^ d * (10 ^ n * q)) by ring.
    apply Z.mul_le_mono_nonneg_l; lia.
  - replace (m * (11 ^ n * 11 ^ d)) with (11 ^ d * (m * 11 ^ n)) by ring.
    apply Z.mul_le_mono_nonneg_r; lia.
Qed.

(* Bernoulli: 1.1^n >= 1 + n/10 *)
Lemma bernoulli : forall n, 0 <= n -> (10 + n) * 10 ^ n <= 10 * 11 ^ n.
Proof.
  intros n Hn. pattern n. apply natlike_ind; auto.
  - rewrite !Z.pow_0_r. lia.
  - intros x Hx IH. rewrite !Z.pow_succ_r by auto.
    pose proof (pow10_pos x Hx) as P.
    transitivity (11 * ((10 + x) * 10 ^ x)).
    + replace ((10 + Z.succ x) * (10 * 10 ^ x)) with ((110 + 10 * x) * 10 ^ x) by ring.
      replace (11 * ((10 + x) * 10 ^ x)) with ((110 + 11 * x) * 10 ^ x) by ring.
      apply Z.mul_le_mono_nonneg_r; lia.
    + replace (10 * (11 * 11 ^ x)) with (11 * (10 * 11 ^ x)) by ring.
      apply Z.mul_le_mono_nonneg_l; lia.
Qed.

Lemma raw_unbounded : forall m M n, 0 < m -> 0 <= M -> 10 * M <= n -> M <= raw m n.
Proof.
  intros m M n Hm HM Hn. assert (Hn0 : 0 <= n) by lia.
  unfold raw. pose proof (pow10_pos n Hn0) as P. pose proof (pow11_pos n Hn0) as P11.
  apply Z.div_le_lower_bound; auto.
  pose proof (bernoulli n Hn0) as B.
  (* 10 * (10^n * M) <= (10+n) * 10^n <= 10 * 11^n <= 10 * (m * 11^n) *)
  assert (H1 : 10 * (10 ^ n * M) <= (10 + n) * 10 ^ n).
  { replace (10 * (10 ^ n * M)) with ((10 * M) * 10 ^ n) by ring.
    apply Z.mul_le_mono_nonneg_r; lia. }
  assert (H2 : 10 * 11 ^ n <= 10 * (m * 11 ^ n)).
  { apply Z.mul_le_mono_nonneg_l; [lia|].
    rewrite <- (Z.mul_1_l (11 ^ n)) at 1. apply Z.mul_le_mono_nonneg_r; lia. }
  lia.
Qed.

Lemma nominal_raw : forall minb maxb n,
  nominal minb maxb n = Z.min (eff default_max maxb) (raw (eff default_min minb) n).
Proof. reflexivity. Qed.

Theorem nominal_le_max : forall minb maxb n, 0 <= n ->
  nominal minb maxb n <= eff default_max maxb.
Proof. intros. rewrite nominal_raw. apply Z.le_min_l. Qed.

Theorem nominal_ge_min : forall minb maxb n, 0 <= n ->
  Z.min (eff default_min minb) (eff default_max maxb) <= nominal minb maxb n.
Proof.
  intros minb maxb n Hn. rewrite nominal_raw.
  pose proof (raw_ge _ n (eff_min_pos minb) Hn). lia.
Qed.

Theorem nominal_pos : forall minb maxb n, 0 <= n -> 0 < nominal minb maxb n.
Proof.
  intros minb maxb n Hn. pose proof (nominal_ge_min minb maxb n Hn).
  pose proof (eff_min_pos minb). pose proof (eff_max_pos maxb). lia.
Qed.

Theorem nominal_mono : forall minb maxb n n', 0 <= n -> n <= n' ->
  nominal minb maxb n <= nominal minb maxb n'.
Proof.
  intros minb maxb n n' Hn Hle. rewrite !nominal_raw.
  pose proof (raw_mono _ n n' (eff_min_pos minb) Hn Hle). lia.
Qed.

Theorem nominal_exact_until_cap : forall minb maxb n, 0 <= n ->
  eff default_min minb * 11 ^ n / 10 ^ n <= eff default_max maxb ->
  nominal minb maxb n = eff default_min minb * 11 ^ n / 10 ^ n.
Proof. intros minb maxb n Hn H. unfold nominal. apply Z.min_r. exact H. Qed.

Theorem nominal_capped_after_cap : forall minb maxb n, 0 <= n ->
  eff default_max maxb <= eff default_min minb * 11 ^ n / 10 ^ n ->
  nominal minb maxb n = eff default_max maxb.
Proof. intros minb maxb n Hn H. unfold nominal. apply Z.min_l. exact H. Qed.

Theorem nominal_saturates : forall minb maxb,
  exists n0, 0 <= n0 /\ forall n, n0 <= n -> nominal minb maxb n = eff default_max maxb.
Proof.
  intros minb maxb. pose proof (eff_max_pos maxb) as HM.
  exists (10 * eff default_max maxb). split; [lia|].
  intros n Hn. rewrite nominal_raw. apply Z.min_l.
  apply raw_unbounded; auto; [apply eff_min_pos | lia].
Qed.

(* once saturated, always saturated *)
Theorem nominal_saturated_stays : forall minb maxb n n', 0 <= n -> n <= n' ->
  nominal minb maxb n = eff default_max maxb -> nominal minb maxb n' = eff default_max maxb.
Proof.
  intros minb maxb n n' Hn Hle H.
  pose proof (nominal_mono minb maxb n n' Hn Hle).
  pose proof (nominal_le_max minb maxb n'). lia.
Qed.

Theorem nominal_defaults :
  nominal None None 1 = 11 * sec /\ nominal None None 0 = 10 * sec.
Proof. split; vm_compute; reflexivity. Qed.

(* with the defaults the cap of 10 minutes is first reached at attempt 43 *)
Example nominal_defaults_saturation_attempt :
  nominal None None 43 = 600 * sec /\
  forallb (fun n => nominal None None n <? 600 * sec) (map Z.of_nat (seq 0 43)) = true.
Proof. split; vm_compute; reflexivity. Qed.

Theorem nominal_defaults_saturation : forall n, 0 <= n ->
  (nominal None None n = 600 * sec <-> 43 <= n).
Proof.
  intros n Hn. split.
  - intros H. destruct (Z_lt_le_dec n 43) as [Hlt|]; auto. exfalso.
    pose proof (nominal_mono None None n 42 Hn ltac:(lia)) as Hm.
    rewrite H in Hm. vm_compute in Hm. apply Hm. reflexivity.
  - intros H. apply (nominal_saturated_stays None None 43 n); try lia.
    vm_compute. reflexivity.
Qed.

Theorem retry_at_bounds : forall now nom fuzz, fuzz_ok nom fuzz = true ->
  now + nom <= retry_at now nom fuzz < now + nom + sec.
Proof.
  intros now nom fuzz H. unfold fuzz_ok in H.
  apply andb_true_iff in H. destruct H as [H _].
  apply andb_true_iff in H. destruct H as [H1 H2].
  apply Z.leb_le in H1. apply Z.ltb_lt in H2. unfold retry_at. lia.
Qed.

(* no fuzz is added to delays of at most half a second *)
Theorem retry_at_small_exact : forall now nom fuzz, fuzz_ok nom fuzz = true ->
  nom <= sec / 2 -> retry_at now nom fuzz = now + nom.
Proof.
  intros now nom fuzz H Hs. unfold fuzz_ok in H.
  apply andb_true_iff in H. destruct H as [_ H].
  apply orb_true_iff in H. destruct H as [H|H].
  - apply Z.ltb_lt in H. lia.
  - apply Z.eqb_eq in H. unfold retry_at. lia.
Qed.
