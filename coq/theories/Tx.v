(* Tx.v -- model of ent/client-addons.go: Client.DoTx (and DoCtxTx, the same with a context
   argument) and DoCtxTxRetry, the wrapper every gRPC handler, action and background service runs
   its database work in. No proofs here.

   One run of DoTx is described by what its environment does: whether BEGIN fails, how the closure
   ends, whether COMMIT / ROLLBACK fail. The model gives what DoTx returns (by class of error, as
   errors.Is sees it) and whether the closure's writes are durable afterwards. *)
From MB Require Import Base.
Open Scope list_scope.

Inductive inner_out :=
| IOk                 (* returns nil *)
| IErr                (* returns an error *)
| IPanic              (* panics *)
| ICancelErr          (* the caller's context is cancelled; returns the context's error *)
| ICancelOk           (* the caller's context is cancelled; returns nil all the same *)
| IOkCancelAfter.     (* returns nil; the caller's context is cancelled right AFTER the COMMIT took effect *)

Record tx_run := mkTxRun { begin_fault : bool; inner : inner_out; commit_fault : bool; rollback_fault : bool }.

Inductive tx_res := ROk | RBegin | RInner | RCommit | RCtx | RRollback | RPanic | ROther.

Definition tx_res_eqb (a b : tx_res) : bool :=
  match a, b with
  | ROk, ROk | RBegin, RBegin | RInner, RInner | RCommit, RCommit | RCtx, RCtx
  | RRollback, RRollback | RPanic, RPanic | ROther, ROther => true
  | _, _ => false
  end.

(* the closure: (finalErr, success, cancelled); a panic unwinds through the deferred function *)
Definition run_inner (i : inner_out) : option tx_res * bool * bool :=
  match i with
  | IOk => (None, true, false)
  | IErr => (Some RInner, false, false)
  | IPanic => (Some RPanic, false, false)
  | ICancelErr => (Some RCtx, false, true)
  | ICancelOk => (None, true, true)
  | IOkCancelAfter => (None, true, false)      (* what is committed is committed: the answer is nil *)
  end.

(* the deferred function: COMMIT when the closure returned nil, ROLLBACK otherwise.
   - database/sql refuses to commit a transaction whose context is done (it has rolled it back
     itself) and answers the context's error or ErrTxDone;
   - a failing rollback is wrapped AROUND the closure's error ("%s Failed: %s During: %w"), which
     errors.Is still finds; an ErrTxDone from it is dropped when the closure's error is the
     context's; whatever ROLLBACK answers, the writes are gone *)
Definition do_tx (r : tx_run) : tx_res * bool :=
  if begin_fault r then (RBegin, false) else
  let '(final, success, cancelled) := run_inner (inner r) in
  if success then
    let cerr := if cancelled then Some RCtx else if commit_fault r then Some RCommit else None in
    match cerr with
    | None => (ROk, true)
    | Some e => (match final with None => e | Some f => f end, false)
    end
  else
    (match final with Some f => f | None => if rollback_fault r then RRollback else ROk end, false).

(* DoCtxTxRetry: run again while the retry predicate accepts the error. [budget] = how many
   times it does; the predicate of the callers accepts one class of error (here RInner).
   Result: what is returned, whether ANY attempt's writes are durable, how often the closure ran *)
Fixpoint do_retry (budget : nat) (runs : list tx_run) {struct runs} : tx_res * bool * nat :=
  match runs with
  | [] => (ROther, false, 0%nat)
  | r :: rest =>
      let '(res, dur) := do_tx r in
      let ran := if begin_fault r then 0%nat else 1%nat in
      match res, budget, rest with
      | RInner, S b, _ :: _ =>
          let '(res', dur', n') := do_retry b rest in (res', dur || dur', (ran + n')%nat)
      | _, _, _ => (res, dur, ran)
      end
  end.

(* ---- comparison with the observed runs (harness tx-diff): [n] retried attempts whose closure
   fails with the retryable error, then the run under test *)
Definition tcase := (nat * tx_run * (tx_res * bool * nat))%type.
Definition tx_bad (cs : list (nat * tcase)) : list nat :=
  flat_map (fun ic => let '(i, (n, r, (res, dur, runs))) := ic in
     let '(res', dur', runs') := do_retry n (repeat (mkTxRun false IErr (commit_fault r) (rollback_fault r)) n ++ [r]) in
     if tx_res_eqb res res' && Bool.eqb dur dur' && Nat.eqb runs runs' then [] else [i]) cs.
