(* PushProofs.v -- proofs about the Push model. *)
From MB Require Import Base Push.
Open Scope Z_scope.

Ltac zb :=
  repeat match goal with
  | |- context [?a <? ?b] => destruct (Z.ltb_spec a b)
  | |- context [?a =? ?b] => destruct (Z.eqb_spec a b)
  end.

(* ---- adaptive window ---- *)

Lemma window_step_inv : forall w o k, 1 <= w <= 1000 -> 0 <= k ->
  1 <= window_step w (o, k) <= 1000.
Proof.
  intros w o k Hw Hk. destruct o; cbn [window_step]; cbv zeta; zb; lia.
Qed.

Lemma fold_window_inv : forall evs w, 1 <= w <= 1000 ->
  (forall ev, In ev evs -> 0 <= snd ev) ->
  1 <= fold_left window_step evs w <= 1000.
Proof.
  induction evs as [|[o k] evs IH]; intros w Hw Hk; cbn [fold_left]; auto.
  apply IH.
  - apply window_step_inv; auto. apply (Hk (o, k)). left; reflexivity.
  - intros ev Hin. apply Hk. right; exact Hin.
Qed.

(* batches may even be empty (k >= 0) *)
Theorem window_inv_nonneg : forall evs, (forall ev, In ev evs -> 0 <= snd ev) ->
  1 <= window_run evs <= 1000.
Proof. intros evs H. unfold window_run. apply fold_window_inv; auto. lia. Qed.

Theorem window_inv : forall evs, (forall ev, In ev evs -> 1 <= snd ev) ->
  1 <= window_run evs <= 1000.
Proof.
  intros evs H. apply window_inv_nonneg. intros ev Hin. specialize (H ev Hin). lia.
Qed.

(* the invariant holds at every point of every run *)
Theorem window_prefix_inv : forall evs1 evs2,
  (forall ev, In ev (evs1 ++ evs2) -> 1 <= snd ev) ->
  1 <= window_run evs1 <= 1000.
Proof.
  intros evs1 evs2 H. apply window_inv. intros ev Hin. apply H.
  apply in_or_app. left; exact Hin.
Qed.

Theorem window_run_app : forall evs1 evs2,
  window_run (evs1 ++ evs2) = fold_left window_step evs2 (window_run evs1).
Proof. intros. unfold window_run. apply fold_left_app. Qed.

Theorem window_run_snoc : forall evs ev,
  window_run (evs ++ [ev]) = window_step (window_run evs) ev.
Proof. intros. rewrite window_run_app. reflexivity. Qed.

(* every FlowControl message ever sent carries 1 <= MaxMessages <= 1000 and
   the constant MaxBytes *)
Theorem window_fc_inv : forall evs ev mm mb,
  (forall e, In e (evs ++ [ev]) -> 1 <= snd e) ->
  window_fc (window_run evs) ev = Some (mm, mb) ->
  1 <= mm <= 1000 /\ mb = max_bytes /\ mm = window_run (evs ++ [ev]).
Proof.
  intros evs ev mm mb H Hfc. unfold window_fc in Hfc.
  destruct (window_sends_fc (window_run evs) ev); [|discriminate].
  inversion Hfc; subst. rewrite <- window_run_snoc.
  split; [|split; reflexivity]. apply window_inv. exact H.
Qed.

Theorem fast_grows : forall w k, 1 <= w <= 1000 -> 0 <= k ->
  w <= window_step w (FastAck, k).
Proof. intros w k Hw Hk. cbn [window_step]; cbv zeta; zb; lia. Qed.

Theorem slow_shrinks : forall w k, 1 <= w <= 1000 -> 0 <= k ->
  window_step w (SlowAck, k) <= w.
Proof. intros w k Hw Hk. cbn [window_step]; cbv zeta; zb; lia. Qed.

Theorem nack_shrinks : forall w k, 1 <= w <= 1000 -> 0 <= k ->
  window_step w (Nack, k) <= w.
Proof. intros w k Hw Hk. cbn [window_step]; cbv zeta; zb; lia. Qed.

(* exact closed forms inside the invariant *)
Theorem window_step_closed : forall w k, 1 <= w <= 1000 -> 0 <= k ->
  window_step w (FastAck, k) = Z.min 1000 (w + k) /\
  window_step w (SlowAck, k) = Z.max 1 (w - k) /\
  window_step w (Nack, k) = Z.max 1 (w - 10 * k).
Proof.
  intros w k Hw Hk. repeat split; cbn [window_step]; cbv zeta; zb; lia.
Qed.

(* a FlowControl message is sent exactly when the window could change; in
   particular whenever it does change (k >= 1) *)
Theorem window_change_sends_fc : forall w ev,
  window_step w ev <> w -> window_sends_fc w ev = true.
Proof.
  intros w [o k] H. destruct o; cbn [window_step window_sends_fc fst] in *;
    cbv zeta in H; revert H; zb; intros; try reflexivity; congruence.
Qed.

Theorem window_sends_fc_changes : forall w o k, 1 <= w <= 1000 -> 1 <= k ->
  window_sends_fc w (o, k) = true -> window_step w (o, k) <> w.
Proof.
  intros w o k Hw Hk. destruct o; cbn [window_step window_sends_fc fst]; cbv zeta;
    zb; intros; try discriminate; lia.
Qed.

(* ---- status classification ---- *)

Theorem classify_acked_iff : forall e s d,
  acked (classify e s d) = true <-> e = false /\ success_status s = true.
Proof.
  intros e s d. unfold classify. destruct e; cbn [acked].
  - split; [discriminate|intros [H _]; discriminate].
  - destruct (success_status s).
    + destruct (d <? 1000000000); cbn [acked]; tauto.
    + cbn [acked]. split; [discriminate|intros [_ H]; discriminate].
Qed.

Theorem classify_nack_iff : forall e s d,
  classify e s d = Nack <-> e = true \/ success_status s = false.
Proof.
  intros e s d. unfold classify. destruct e.
  - split; auto.
  - destruct (success_status s).
    + destruct (d <? 1000000000); split; try discriminate; intros [H|H]; discriminate.
    + split; auto.
Qed.

Theorem classify_fast_iff : forall e s d,
  classify e s d = FastAck <-> e = false /\ success_status s = true /\ d < 1000000000.
Proof.
  intros e s d. unfold classify. destruct e.
  - split; [discriminate|intros [H _]; discriminate].
  - destruct (success_status s).
    + destruct (Z.ltb_spec d 1000000000); split; auto; try discriminate. intros (_ & _ & H'). lia.
    + split; [discriminate|intros (_ & H & _); discriminate].
Qed.

Theorem classify_slow_iff : forall e s d,
  classify e s d = SlowAck <-> e = false /\ success_status s = true /\ 1000000000 <= d.
Proof.
  intros e s d. unfold classify. destruct e.
  - split; [discriminate|intros [H _]; discriminate].
  - destruct (success_status s).
    + destruct (Z.ltb_spec d 1000000000); split; auto; try discriminate. intros (_ & _ & H'). lia.
    + split; [discriminate|intros (_ & H & _); discriminate].
Qed.

Theorem success_status_iff : forall s,
  success_status s = true <-> s = 102 \/ s = 200 \/ s = 201 \/ s = 202 \/ s = 204.
Proof.
  intros s. unfold success_status. rewrite !orb_true_iff, !Z.eqb_eq. tauto.
Qed.

Theorem classify_status_range : forall s, 100 <= s <= 599 ->
  (success_status s = true <-> s = 102 \/ s = 200 \/ s = 201 \/ s = 202 \/ s = 204).
Proof. intros s _. apply success_status_iff. Qed.

(* finite sweep over every HTTP status code: exactly five are acked *)
Example success_status_sweep :
  filter success_status (map Z.of_nat (seq 100 500)) = [102; 200; 201; 202; 204].
Proof. vm_compute. reflexivity. Qed.
