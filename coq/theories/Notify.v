(* Notify.v -- executable model of actions/notify.go (publish waiters) and of the waiting
   protocol of GetSubscriptionMessages.execute / MessageStreamer.Go. No proofs here.

   Part 1, the data structure: PublishAwaiter / CancelPublishAwaiter / WakePublishListeners
   (after the fix of F4: a subscription without waiters is skipped, not the end of the loop).
   Part 2, the protocol as a labelled transition system at atomic-section granularity
   (mutex sections of notify.go and database transactions are atomic steps):
     waiter:  register ; query(tx) ; if nothing deliverable then block on the channel ; loop
     writer:  commit(tx: makes something deliverable on the subscriptions L) ; wake(L)
   Modelled, not verified: Go channels (close = broadcast), the mutex nmu, the goroutine
   scheduler, timers (a timeout or retry timer can only wake a waiter spuriously, which the
   LTS covers with the [LSpurious] step). *)
From MB Require Import Base.
Open Scope list_scope.

Definition sid := N.
Definition chan := nat.

(* ---------- part 1: the waiter registry ---------- *)
Record reg := mkReg {
  r_waiters : list (sid * chan);    (* pubWaiters: registered channels, by subscription *)
  r_closed : list chan;             (* channels that have been closed *)
  r_next : chan }.                  (* allocation counter (make(chan)) *)

Definition reg0 : reg := mkReg [] [] O.

(* PublishAwaiter *)
Definition register (r : reg) (s : sid) : reg * chan :=
  (mkReg ((s, r_next r) :: r_waiters r) (r_closed r) (S (r_next r)), r_next r).

(* CancelPublishAwaiter: forget the channel, do not close it *)
Definition cancel (r : reg) (s : sid) (c : chan) : reg :=
  mkReg (filter (fun w => negb (N.eqb (fst w) s && Nat.eqb (snd w) c)) (r_waiters r)) (r_closed r) (r_next r).

(* WakePublishListeners(false, subs...) with no external hooks registered: close and
   remove every registered channel of every listed subscription *)
Definition wake1 (r : reg) (s : sid) : reg :=
  mkReg (filter (fun w => negb (N.eqb (fst w) s)) (r_waiters r))
        (map snd (filter (fun w => N.eqb (fst w) s) (r_waiters r)) ++ r_closed r)
        (r_next r).
Definition wake (r : reg) (ss : list sid) : reg := fold_left wake1 ss r.

(* the code BEFORE the fix of F4: stop at the first subscription without waiters *)
Fixpoint wake_buggy (r : reg) (ss : list sid) : reg :=
  match ss with
  | [] => r
  | s :: rest =>
      if existsb (fun w => N.eqb (fst w) s) (r_waiters r) then wake_buggy (wake1 r s) rest else r
  end.

Definition is_closed (r : reg) (c : chan) : bool := existsb (Nat.eqb c) (r_closed r).
Definition is_registered (r : reg) (s : sid) (c : chan) : bool :=
  existsb (fun w => N.eqb (fst w) s && Nat.eqb (snd w) c) (r_waiters r).

(* sequential operations for the differential test *)
Inductive nop := NRegister (s : sid) | NCancel (s : sid) (c : chan) | NWake (ss : list sid).
Definition nstep (r : reg) (o : nop) : reg :=
  match o with
  | NRegister s => fst (register r s)
  | NCancel s c => cancel r s c
  | NWake ss => wake r ss
  end.
(* observable after each step: the set of closed channels (sorted by the harness) *)
Fixpoint nrun (r : reg) (os : list nop) : list (list chan) :=
  match os with
  | [] => []
  | o :: rest => let r' := nstep r o in r_closed r' :: nrun r' rest
  end.

(* ---------- part 2: the waiting protocol ---------- *)
Inductive wstate :=
| WStart                 (* about to (re-)register *)
| WRegistered (c : chan) (* registered, about to run the query transaction *)
| WBlocked (c : chan)    (* query found nothing: selecting on c (and timers) *)
| WDone.                 (* query found a deliverable message: returns it *)

Inductive pstate :=      (* a writer *)
| PStart (l : list sid)      (* about to commit a change making messages deliverable on l *)
| PCommitted (l : list sid)  (* committed; the on-commit hook has not called wake yet *)
| PDone.

Record sys := mkSys {
  y_reg : reg;
  y_db : list sid;                  (* subscriptions with a deliverable message (committed) *)
  y_waiters : list (sid * wstate);
  y_writers : list pstate }.

Definition deliverable (y : sys) (s : sid) : bool := existsb (N.eqb s) (y_db y).

Fixpoint upd {A} (i : nat) (x : A) (l : list A) : list A :=
  match l, i with
  | [], _ => []
  | _ :: r, O => x :: r
  | a :: r, S j => a :: upd j x r
  end.

Inductive lbl :=
| LNewWaiter (s : sid)        (* a pull / streamer starts waiting on s *)
| LNewWriter (l : list sid)   (* a request that will affect the subscriptions l arrives *)
| LWaiter (i : nat)           (* waiter i performs its next atomic action *)
| LSpurious (i : nat)         (* a timer fires for blocked waiter i: it loops and re-queries *)
| LWriter (j : nat)           (* writer j performs its next atomic action *)
| LConsume (s : sid).         (* someone else takes the deliverable message of s away *)

Definition ystep (y : sys) (l : lbl) : sys :=
  match l with
  | LNewWaiter s => mkSys (y_reg y) (y_db y) (y_waiters y ++ [(s, WStart)]) (y_writers y)
  | LNewWriter ss => mkSys (y_reg y) (y_db y) (y_waiters y) (y_writers y ++ [PStart ss])
  | LWaiter i =>
      match nth_error (y_waiters y) i with
      | Some (s, WStart) =>
          let '(r, c) := register (y_reg y) s in
          mkSys r (y_db y) (upd i (s, WRegistered c) (y_waiters y)) (y_writers y)
      | Some (s, WRegistered c) =>
          if deliverable y s
          then mkSys (cancel (y_reg y) s c) (y_db y) (upd i (s, WDone) (y_waiters y)) (y_writers y)
          else mkSys (y_reg y) (y_db y) (upd i (s, WBlocked c) (y_waiters y)) (y_writers y)
      | Some (s, WBlocked c) =>
          (* woken: only possible when the channel is closed; loop: cancel + re-register *)
          if is_closed (y_reg y) c
          then mkSys (cancel (y_reg y) s c) (y_db y) (upd i (s, WStart) (y_waiters y)) (y_writers y)
          else y
      | _ => y
      end
  | LSpurious i =>
      match nth_error (y_waiters y) i with
      | Some (s, WBlocked c) =>
          mkSys (cancel (y_reg y) s c) (y_db y) (upd i (s, WStart) (y_waiters y)) (y_writers y)
      | _ => y
      end
  | LWriter j =>
      match nth_error (y_writers y) j with
      | Some (PStart ss) => mkSys (y_reg y) (ss ++ y_db y) (y_waiters y) (upd j (PCommitted ss) (y_writers y))
      | Some (PCommitted ss) => mkSys (wake (y_reg y) ss) (y_db y) (y_waiters y) (upd j PDone (y_writers y))
      | _ => y
      end
  | LConsume s => mkSys (y_reg y) (filter (fun x => negb (N.eqb x s)) (y_db y)) (y_waiters y) (y_writers y)
  end.

Definition sys0 : sys := mkSys reg0 [] [] [].
Definition yrun (ls : list lbl) : sys := fold_left ystep ls sys0.

(* a wake for s is pending: some writer has committed a change affecting s and not yet
   run its on-commit hook *)
Definition wake_pending (y : sys) (s : sid) : bool :=
  existsb (fun p => match p with PCommitted ss => existsb (N.eqb s) ss | _ => false end) (y_writers y).

(* the same system with the pre-fix wake, for the refutation *)
Definition ystep_buggy (y : sys) (l : lbl) : sys :=
  match l with
  | LWriter j =>
      match nth_error (y_writers y) j with
      | Some (PCommitted ss) => mkSys (wake_buggy (y_reg y) ss) (y_db y) (y_waiters y) (upd j PDone (y_writers y))
      | _ => ystep y l
      end
  | _ => ystep y l
  end.
