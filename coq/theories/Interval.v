(* Interval.v -- executable model of internal/sqltypes.Interval (C17 codec).

   Go side:
     type Interval time.Duration            (int64 nanoseconds)
     Value()  = time.Duration(i).String()
     Scan(s)  = ParsePostgreSQLInterval(s)  (regexp branch, else time.ParseDuration)

   Strings are Go strings, i.e. sequences of BYTES ([ascii] = one byte).
   Durations are [Z]; the int64 range is the explicit predicate [int64] and
   Go's silent two's-complement wrap-around is the explicit function [wrap64].
   Everything here is a total, closed, [vm_compute]-friendly Gallina function.
   All proofs live in IntervalProofs.v. *)
From MB Require Import Base.
Open Scope string_scope.
Open Scope Z_scope.

(* ------------------------------------------------------------------ *)
(* int64                                                               *)
(* ------------------------------------------------------------------ *)

Definition int64 (d : Z) : Prop := - 2 ^ 63 <= d < 2 ^ 63.

(* the unique representative of z modulo 2^64 inside [-2^63, 2^63) *)
Definition wrap64 (z : Z) : Z := (z + 2 ^ 63) mod 2 ^ 64 - 2 ^ 63.

(* ------------------------------------------------------------------ *)
(* bytes and decimal digits                                            *)
(* ------------------------------------------------------------------ *)

Definition is_digit (c : ascii) : bool :=
  let n := N_of_ascii c in ((48 <=? n) && (n <=? 57))%N.

Definition digit_val (c : ascii) : Z := Z.of_N (N_of_ascii c) - 48.

(* meaningful for 0 <= d <= 9 *)
Definition digit_char (d : Z) : ascii := ascii_of_N (48 + Z.to_N d).

Definition is_dot (c : ascii) : bool := Ascii.eqb c "."%char.

Definition str_nonempty (s : str) : bool :=
  match s with EmptyString => false | String _ _ => true end.

Definition starts_digit (s : str) : bool :=
  match s with String c _ => is_digit c | EmptyString => false end.

Fixpoint str_forallb (p : ascii -> bool) (s : str) : bool :=
  match s with
  | EmptyString => true
  | String c s' => p c && str_forallb p s'
  end.

Definition all_digits (s : str) : bool := str_forallb is_digit s.

(* the k-digit, zero padded, big-endian decimal expansion of n (0 <= n < 10^k) *)
Fixpoint pad_digits (k : nat) (n : Z) : str :=
  match k with
  | O => ""
  | S k' =>
      let p := 10 ^ Z.of_nat k' in
      String (digit_char (n / p)) (pad_digits k' (n mod p))
  end.

(* decimal without leading zeros, for 0 <= n < 10^(k+1): find the number of
   digits, then print that many *)
Fixpoint fmt_int_aux (k : nat) (n : Z) : str :=
  match k with
  | O => String (digit_char n) ""
  | S k' => if n <? 10 ^ Z.of_nat k then fmt_int_aux k' n else pad_digits (S k) n
  end.

(* Go fmtInt on a uint64 (2^64 < 10^20, hence at most 20 digits) *)
Definition fmt_int (n : Z) : str := fmt_int_aux 19 n.

(* the k-digit expansion of v (0 <= v < 10^k) with trailing zeros removed *)
Fixpoint frac_digits (k : nat) (v : Z) : str :=
  match k with
  | O => ""
  | S k' =>
      if v =? 0 then ""
      else let p := 10 ^ Z.of_nat k' in
           String (digit_char (v / p)) (frac_digits k' (v mod p))
  end.

(* Go fmtFrac: "." followed by the trimmed prec-digit expansion; "" when v = 0 *)
Definition fmt_frac (v : Z) (prec : nat) : str :=
  if v =? 0 then "" else String "."%char (frac_digits prec v).

(* ------------------------------------------------------------------ *)
(* time.Duration.String()                                              *)
(* ------------------------------------------------------------------ *)

(* "µs" = bytes C2 B5 73 ; "μs" = bytes CE BC 73 *)
Definition micro_s : str := String "194"%char (String "181"%char "s").
Definition mu_s : str := String "206"%char (String "188"%char "s").

(* the text for the magnitude u = |d| (0 <= u <= 2^63) *)
Definition format_magnitude (u : Z) : str :=
  if u <? 1000000000 then
    if u =? 0 then "0s"
    else if u <? 1000 then fmt_int u ++ "ns"
    else if u <? 1000000 then
      fmt_int (u / 1000) ++ fmt_frac (u mod 1000) 3 ++ micro_s
    else
      fmt_int (u / 1000000) ++ fmt_frac (u mod 1000000) 6 ++ "ms"
  else
    let secs := u / 1000000000 in
    let m := secs / 60 in
    let h := m / 60 in
    (if 0 <? h then fmt_int h ++ "h" else "") ++
    (if 0 <? m then fmt_int (m mod 60) ++ "m" else "") ++
    fmt_int (secs mod 60) ++ fmt_frac (u mod 1000000000) 9 ++ "s".

(* Duration.String.  u := uint64(d); if d < 0 then u = -u: for an int64 d this
   is |d| (2^63 for MinInt64). *)
Definition format_duration (d : Z) : str :=
  if d <? 0 then String "-"%char (format_magnitude (Z.abs d))
  else format_magnitude d.

(* ------------------------------------------------------------------ *)
(* time.ParseDuration                                                  *)
(* ------------------------------------------------------------------ *)

(* leadingInt with accumulator x; None = errLeadingInt *)
Fixpoint leading_int (x : Z) (s : str) : option (Z * str) :=
  match s with
  | String c s' =>
      if is_digit c then
        if x >? 2 ^ 63 / 10 then None
        else let x' := x * 10 + digit_val c in
             if x' >? 2 ^ 63 then None else leading_int x' s'
      else Some (x, s)
  | EmptyString => Some (x, s)
  end.

(* leadingFraction with accumulators; consumes ALL digits, but stops
   accumulating (both x and scale) once overflow has been seen.
   [scale] is a float64 in Go; it is an exact power of ten <= 10^19 there, which
   float64 represents exactly, so Z is faithful for it. *)
Fixpoint leading_fraction (x scale : Z) (ovf : bool) (s : str) : Z * Z * str :=
  match s with
  | String c s' =>
      if is_digit c then
        if ovf then leading_fraction x scale true s'
        else if x >? (2 ^ 63 - 1) / 10 then leading_fraction x scale true s'
        else let y := x * 10 + digit_val c in
             if y >? 2 ^ 63 then leading_fraction x scale true s'
             else leading_fraction y (scale * 10) false s'
      else (x, scale, s)
  | EmptyString => (x, scale, s)
  end.

(* the maximal prefix containing neither '.' nor a digit *)
Fixpoint span_unit (s : str) : str * str :=
  match s with
  | String c s' =>
      if is_dot c || is_digit c then ("", s)
      else let (u, r) := span_unit s' in (String c u, r)
  | EmptyString => ("", "")
  end.

(* unitMap *)
Definition unit_val (u : str) : option Z :=
  if String.eqb u "ns" then Some 1
  else if String.eqb u "us" then Some 1000
  else if String.eqb u micro_s then Some 1000
  else if String.eqb u mu_s then Some 1000
  else if String.eqb u "ms" then Some 1000000
  else if String.eqb u "s" then Some 1000000000
  else if String.eqb u "m" then Some 60000000000
  else if String.eqb u "h" then Some 3600000000000
  else None.

(* The main loop "for s != "" { ... }" with d the uint64 accumulator.
   Every iteration consumes at least one byte, so [fuel = length s] is enough
   (IntervalProofs.parse_loop_fuel_mono: more fuel never changes a result).

   FLOAT NOTE.  Go computes  v += uint64(float64(f) * (float64(unit) / scale)).
   The model uses the exact integer floor  f * unit / scale  with [scale] the
   exact power of ten.  The two coincide whenever scale divides unit and
   f*unit/scale < 2^53 -- true for every text Duration.String() produces (at most
   9 fraction digits on "s", 6 on "ms", 3 on "µs").  For other inputs Go's
   float64 evaluation may differ from the floor by rounding; the correspondence
   test only feeds such inputs with a tolerance. *)
Fixpoint parse_loop (fuel : nat) (d : Z) (s : str) : option Z :=
  match s with
  | EmptyString => Some d
  | String c0 _ =>
    match fuel with
    | O => None
    | S fuel' =>
      (* the next character must be [0-9.] *)
      if negb (is_dot c0 || is_digit c0) then None else
      match leading_int 0 s with
      | None => None
      | Some (v, s1) =>
        let pre := starts_digit s in          (* pl != len(s) *)
        let '(f, scale, s2, post) :=
          match s1 with
          | String c1 s1' =>
              if is_dot c1 then
                let '(f, scale, r) := leading_fraction 0 1 false s1' in
                (f, scale, r, starts_digit s1')
              else (0, 1, s1, false)
          | EmptyString => (0, 1, s1, false)
          end in
        if negb pre && negb post then None else
        let (u, s3) := span_unit s2 in
        if negb (str_nonempty u) then None else     (* missing unit *)
        match unit_val u with
        | None => None                               (* unknown unit *)
        | Some unit =>
          if v >? 2 ^ 63 / unit then None else
          let v1 := v * unit in
          match (if f >? 0
                 then let v2 := v1 + f * unit / scale in
                      if v2 >? 2 ^ 63 then None else Some v2
                 else Some v1) with
          | None => None
          | Some v3 =>
            let d' := (d + v3) mod 2 ^ 64 in         (* uint64 addition *)
            if d' >? 2 ^ 63 then None else parse_loop fuel' d' s3
          end
        end
      end
    end
  end.

(* optional leading '-' or '+' *)
Definition sign_split (s : str) : bool * str :=
  match s with
  | String c r =>
      if Ascii.eqb c "-"%char then (true, r)
      else if Ascii.eqb c "+"%char then (false, r)
      else (false, s)
  | EmptyString => (false, s)
  end.

Definition parse_go_duration (s : str) : option Z :=
  let (neg, s1) := sign_split s in
  if String.eqb s1 "0" then Some 0
  else if negb (str_nonempty s1) then None
  else
    match parse_loop (String.length s1) 0 s1 with
    | None => None
    | Some d =>
        if neg then Some (wrap64 (- d))        (* -Duration(d); 2^63 |-> MinInt64 *)
        else if d >? 2 ^ 63 - 1 then None
        else Some d
    end.

(* ------------------------------------------------------------------ *)
(* pgIntervalRegexp                                                    *)
(* ------------------------------------------------------------------ *)

(* The regexp
     ^((?P<years>[+-]?\d+) year[s]? )?((?P<months>[+-]?\d+) mon[s]? )?
      ((?P<days>[+-]?\d+) day[s]? )?
      (?P<hours>[+-]?\d+):(?P<minutes>[+-]?\d+):(?P<seconds>[+-]?\d+)
      (\.(?P<subseconds>\d+))?$
   is modelled by a deterministic hand-written matcher.  This is faithful to
   RE2's leftmost-first semantics because the match, when one exists, is unique:
   every [+-]?\d+ must take the sign if present and the MAXIMAL digit run (any
   shorter run is followed by a digit, which matches neither ' ' nor ':' nor
   '.' nor the end), and after that run the next byte (' ' versus ':') and then
   the literal word ("year"/"mon"/"day") decide which group it belongs to; in
   "year[s]? " the optional 's' must be taken iff the next byte is 's'.  Once a
   " year[s]? " (etc.) literal has been consumed, dropping that optional group
   instead cannot lead to a match (the number would have to be the hours field,
   which must be followed by ':', not ' ').  \d is ASCII 0-9 and `$` is
   end-of-text only (no flags). *)

Record pg_fields := mk_pg_fields {
  pf_years : str; pf_months : str; pf_days : str;
  pf_hours : str; pf_minutes : str; pf_seconds : str; pf_subsecs : str }.

(* consume the literal p *)
Fixpoint eat (p s : str) : option str :=
  match p, s with
  | EmptyString, _ => Some s
  | String a p', String b s' => if Ascii.eqb a b then eat p' s' else None
  | String _ _, EmptyString => None
  end.

(* " <w>[s]? " *)
Definition eat_unit (w : str) (s : str) : option str :=
  match eat (String " "%char w) s with
  | Some r =>
      match eat "s " r with
      | Some r' => Some r'
      | None => eat " " r
      end
  | None => None
  end.

(* \d*  (maximal) *)
Fixpoint span_digits (s : str) : str * str :=
  match s with
  | String c s' =>
      if is_digit c then let (a, b) := span_digits s' in (String c a, b)
      else ("", s)
  | EmptyString => ("", "")
  end.

(* [+-]?\d+ *)
Definition signed_tok (s : str) : option (str * str) :=
  let (sg, r) :=
    match s with
    | String c r =>
        if Ascii.eqb c "+"%char || Ascii.eqb c "-"%char then (String c "", r) else ("", s)
    | EmptyString => ("", s)
    end in
  let (ds, r') := span_digits r in
  if str_nonempty ds then Some (sg ++ ds, r') else None.

(* :(minutes):(seconds)(\.(subseconds))?$   -- r is what follows the hours token *)
Definition pg_time (r : str) : option (str * str * str) :=
  match eat ":" r with None => None | Some r1 =>
  match signed_tok r1 with None => None | Some (mi, r2) =>
  match eat ":" r2 with None => None | Some r3 =>
  match signed_tok r3 with None => None | Some (se, r4) =>
  match r4 with
  | EmptyString => Some (mi, se, "")
  | String c r5 =>
      if is_dot c then
        let (fr, r6) := span_digits r5 in
        if str_nonempty fr && negb (str_nonempty r6) then Some (mi, se, fr) else None
      else None
  end end end end end.

(* t is the pending [+-]?\d+ token, r the text after it *)
Definition pg_stage3 (y mo dd t r : str) : option pg_fields :=
  match pg_time r with
  | Some (mi, se, fr) => Some (mk_pg_fields y mo dd t mi se fr)
  | None => None
  end.

Definition pg_stage2 (y mo t r : str) : option pg_fields :=
  match eat_unit "day" r with
  | Some r' =>
      match signed_tok r' with
      | Some (t', r'') => pg_stage3 y mo t t' r''
      | None => None
      end
  | None => pg_stage3 y mo "" t r
  end.

Definition pg_stage1 (y t r : str) : option pg_fields :=
  match eat_unit "mon" r with
  | Some r' =>
      match signed_tok r' with
      | Some (t', r'') => pg_stage2 y t t' r''
      | None => None
      end
  | None => pg_stage2 y "" t r
  end.

(* FindStringSubmatch: None = no match; unmatched groups are "" as in Go *)
Definition pg_match (s : str) : option pg_fields :=
  match signed_tok s with
  | None => None
  | Some (t, r) =>
      match eat_unit "year" r with
      | Some r' =>
          match signed_tok r' with
          | Some (t', r'') => pg_stage1 t t' r''
          | None => None
          end
      | None => pg_stage1 "" t r
      end
  end.

(* ------------------------------------------------------------------ *)
(* strconv.Atoi, adjustDuration, ParsePostgreSQLInterval               *)
(* ------------------------------------------------------------------ *)

(* left fold of decimal digits, unbounded *)
Fixpoint digits_val (acc : Z) (s : str) : Z :=
  match s with
  | String c s' => digits_val (acc * 10 + digit_val c) s'
  | EmptyString => acc
  end.

(* strconv.Atoi (64-bit int).  None = error: ErrRange outside int64, ErrSyntax
   on anything that is not [+-]?\d+ (unreachable behind the regexp). *)
Definition atoi (s : str) : option Z :=
  let (neg, ds) := sign_split s in
  if str_nonempty ds && all_digits ds then
    let v := digits_val 0 ds in
    let i := if neg then - v else v in
    if (i <? - 2 ^ 63) || (i >? 2 ^ 63 - 1) then None else Some i
  else None.

Definition ns_second : Z := 1000000000.
Definition ns_minute : Z := 60000000000.
Definition ns_hour : Z := 3600000000000.
Definition ns_day : Z := 86400000000000.        (* 24h *)
Definition ns_month : Z := 2592000000000000.    (* 30 * 24h *)
Definition ns_year : Z := 31536000000000000.    (* 365 * 24h *)

(* adjustDuration threaded through an option (None = an earlier or this Atoi
   failed).  In Go both the product and the sum wrap; wrapping is a ring
   homomorphism modulo 2^64, so a single wrap64 of the exact value is the same. *)
Definition adjust (acc : option Z) (value : str) (scale : Z) : option Z :=
  match acc with
  | None => None
  | Some d =>
      if negb (str_nonempty value) then Some d
      else match atoi value with
           | None => None
           | Some i => Some (wrap64 (d + i * scale))
           end
  end.

Inductive pg_result := PgNoMatch | PgErr | PgOk (d : Z).

Definition pg_eval (f : pg_fields) : option Z :=
  let r := Some 0 in
  let r := adjust r (pf_years f) ns_year in
  let r := adjust r (pf_months f) ns_month in
  let r := adjust r (pf_days f) ns_day in
  let r := adjust r (pf_hours f) ns_hour in
  let r := adjust r (pf_minutes f) ns_minute in
  let r := adjust r (pf_seconds f) ns_second in
  match r with
  | None => None
  | Some _ =>
      let n := String.length (pf_subsecs f) in
      if (n =? 0)%nat then r
      else if (9 <? n)%nat then None      (* beyond nanosecond resolution *)
      else adjust r (pf_subsecs f) (ns_second / 10 ^ Z.of_nat n)
  end.

(* the regexp branch of ParsePostgreSQLInterval *)
Definition parse_pg (s : str) : pg_result :=
  match pg_match s with
  | None => PgNoMatch
  | Some f => match pg_eval f with None => PgErr | Some d => PgOk d end
  end.

(* ParsePostgreSQLInterval / Interval.Scan(string) *)
Definition scan_interval (s : str) : option Z :=
  match parse_pg s with
  | PgNoMatch => parse_go_duration s
  | PgErr => None
  | PgOk d => Some d
  end.

(* Interval.Value() *)
Definition value_interval : Z -> str := format_duration.

(* ------------------------------------------------------------------ *)
(* PostgreSQL's own output format (used to state exactness, T4)        *)
(* ------------------------------------------------------------------ *)

(* at least two digits, as PostgreSQL's %02d *)
Definition pad2 (n : Z) : str :=
  if n <? 10 then String "0"%char (fmt_int n) else fmt_int n.

Definition render_group (n : N) (singular plural : str) : str :=
  if (n =? 0)%N then ""
  else fmt_int (Z.of_N n) ++ (if (n =? 1)%N then singular else plural).

Definition render_digits (ds : list N) : str :=
  fold_right (fun d acc => String (digit_char (Z.of_N d)) acc) "" ds.

(* "Y year[s] M mon[s] D day[s] HH:MM:SS[.ffffff]": the years/mons/days groups
   are present iff non-zero, the time part is always present, the fraction is
   present iff [frac] (a list of decimal digits, most significant first) is
   non-empty. *)
Definition render_pg (y mo dd h mi s : N) (frac : list N) : str :=
  render_group y " year " " years " ++
  render_group mo " mon " " mons " ++
  render_group dd " day " " days " ++
  pad2 (Z.of_N h) ++ ":" ++ pad2 (Z.of_N mi) ++ ":" ++ pad2 (Z.of_N s) ++
  (match frac with
   | [] => ""
   | _ => String "."%char (render_digits frac)
   end).

(* the integer denoted by a list of decimal digits *)
Definition digits_num (ds : list N) : Z :=
  fold_left (fun acc d => acc * 10 + Z.of_N d) ds 0.

(* nanoseconds denoted by the fraction digits (length <= 9) *)
Definition frac_ns (frac : list N) : Z :=
  digits_num frac * 10 ^ (9 - Z.of_nat (List.length frac)).

(* the mathematically exact value of a rendered interval *)
Definition pg_exact (y mo dd h mi s : N) (frac : list N) : Z :=
  Z.of_N y * ns_year + Z.of_N mo * ns_month + Z.of_N dd * ns_day +
  Z.of_N h * ns_hour + Z.of_N mi * ns_minute + Z.of_N s * ns_second +
  frac_ns frac.

(* ------------------------------------------------------------------ *)
(* computations                                                        *)
(* ------------------------------------------------------------------ *)

Example micro_s_literal : micro_s = "µs".
Proof. vm_compute. reflexivity. Qed.
Example mu_s_literal : mu_s = "μs".
Proof. vm_compute. reflexivity. Qed.

Example fmt_0 : format_duration 0 = "0s". Proof. vm_compute. reflexivity. Qed.
Example fmt_999 : format_duration 999 = "999ns". Proof. vm_compute. reflexivity. Qed.
Example fmt_1000 : format_duration 1000 = "1µs". Proof. vm_compute. reflexivity. Qed.
Example fmt_1500 : format_duration 1500 = String "1" (String "." (String "5" micro_s)).
Proof. vm_compute. reflexivity. Qed.
Example fmt_1001000 : format_duration 1001000 = "1.001ms". Proof. vm_compute. reflexivity. Qed.
Example fmt_1_5s : format_duration 1500000000 = "1.5s". Proof. vm_compute. reflexivity. Qed.
Example fmt_1m0_5s : format_duration 60500000000 = "1m0.5s". Proof. vm_compute. reflexivity. Qed.
Example fmt_1h : format_duration 3600000000000 = "1h0m0s". Proof. vm_compute. reflexivity. Qed.
Example fmt_max : format_duration (2 ^ 63 - 1) = "2562047h47m16.854775807s".
Proof. vm_compute. reflexivity. Qed.
Example fmt_min : format_duration (- 2 ^ 63) = "-2562047h47m16.854775808s".
Proof. vm_compute. reflexivity. Qed.
Example fmt_neg : format_duration (-3477000000000) = "-57m57s".
Proof. vm_compute. reflexivity. Qed.

Example parse_max : parse_go_duration "2562047h47m16.854775807s" = Some (2 ^ 63 - 1).
Proof. vm_compute. reflexivity. Qed.
Example parse_min : parse_go_duration "-2562047h47m16.854775808s" = Some (- 2 ^ 63).
Proof. vm_compute. reflexivity. Qed.
Example parse_over : parse_go_duration "2562047h47m16.854775808s" = None.
Proof. vm_compute. reflexivity. Qed.
Example parse_1_5h : parse_go_duration "1.5h" = Some 5400000000000.
Proof. vm_compute. reflexivity. Qed.
Example parse_dot5s : parse_go_duration ".5s" = Some 500000000.
Proof. vm_compute. reflexivity. Qed.
Example parse_5dots : parse_go_duration "5.s" = Some 5000000000.
Proof. vm_compute. reflexivity. Qed.
Example parse_zero : parse_go_duration "-0" = Some 0. Proof. vm_compute. reflexivity. Qed.
Example parse_bad1 : parse_go_duration "" = None. Proof. vm_compute. reflexivity. Qed.
Example parse_bad2 : parse_go_duration "1" = None. Proof. vm_compute. reflexivity. Qed.
Example parse_bad3 : parse_go_duration ".s" = None. Proof. vm_compute. reflexivity. Qed.
Example parse_bad4 : parse_go_duration "1d" = None. Proof. vm_compute. reflexivity. Qed.
Example parse_mu : parse_go_duration (String "3" mu_s) = Some 3000.
Proof. vm_compute. reflexivity. Qed.
(* uint64 wrap of d += v:  2^63 + 2^63 = 0 *)
Example parse_wrap :
  parse_go_duration "9223372036854775808ns9223372036854775808ns" = Some 0.
Proof. vm_compute. reflexivity. Qed.

Example pg_full :
  scan_interval "1 year 2 mons 3 days 04:05:06.007008" = Some 36993906007008000.
Proof. vm_compute. reflexivity. Qed.
Example pg_fields_full :
  pg_match "1 year 2 mons 3 days 04:05:06.007008" =
  Some (mk_pg_fields "1" "2" "3" "04" "05" "06" "007008").
Proof. vm_compute. reflexivity. Qed.
Example pg_days_only : pg_match "-3 days +04:05:06" =
  Some (mk_pg_fields "" "" "-3" "+04" "05" "06" "").
Proof. vm_compute. reflexivity. Qed.
Example pg_sign_1 : scan_interval "-00:00:01" = Some 1000000000.
Proof. vm_compute. reflexivity. Qed.
Example pg_sign_2 : scan_interval "-01:02:03" = Some (-3477000000000).
Proof. vm_compute. reflexivity. Qed.
Example pg_nomatch_1 : parse_pg "1 year" = PgNoMatch. Proof. vm_compute. reflexivity. Qed.
Example pg_nomatch_2 : parse_pg "1 year 2 days 3 mons 00:00:00" = PgNoMatch.
Proof. vm_compute. reflexivity. Qed.
Example pg_nomatch_3 : parse_pg "00:00:00." = PgNoMatch. Proof. vm_compute. reflexivity. Qed.
Example pg_nomatch_4 : parse_pg "00:00:00 " = PgNoMatch. Proof. vm_compute. reflexivity. Qed.
Example pg_err_res : parse_pg "00:00:00.0000000001" = PgErr. Proof. vm_compute. reflexivity. Qed.
Example pg_err_range : parse_pg "00:00:9223372036854775808" = PgErr.
Proof. vm_compute. reflexivity. Qed.
Example pg_render_1 :
  render_pg 1 2 3 4 5 6 [0;0;7;0;0;8]%N = "1 year 2 mons 3 days 04:05:06.007008".
Proof. vm_compute. reflexivity. Qed.
Example pg_render_2 : render_pg 0 0 0 0 0 0 [] = "00:00:00".
Proof. vm_compute. reflexivity. Qed.
(* checked against Go 1.24.1 regexp / strconv / time *)
Example pg_plural_mix : pg_match "1 years 1 mon 00:00:00" =
  Some (mk_pg_fields "1" "1" "" "00" "00" "00" "").
Proof. vm_compute. reflexivity. Qed.
Example pg_signed_groups : pg_match "+1 year -2 mons 0:0:0.5" =
  Some (mk_pg_fields "+1" "-2" "" "0" "0" "0" "5").
Proof. vm_compute. reflexivity. Qed.
Example pg_nomatch_5 : parse_pg "1 year  00:00:00" = PgNoMatch. Proof. vm_compute. reflexivity. Qed.
Example pg_nomatch_6 : parse_pg "1 yearss 0:0:0" = PgNoMatch. Proof. vm_compute. reflexivity. Qed.
Example pg_wrap_293 : parse_pg "293 years 00:00:00" = PgOk (-9206696073709551616).
Proof. vm_compute. reflexivity. Qed.
Example pg_wrap_text : format_duration (-9206696073709551616) = "-2557415h34m33.709551616s".
Proof. vm_compute. reflexivity. Qed.
Example scan_go_fallback : scan_interval "1h0m0s" = Some 3600000000000.
Proof. vm_compute. reflexivity. Qed.
Example scan_garbage : scan_interval "1 year" = None. Proof. vm_compute. reflexivity. Qed.
