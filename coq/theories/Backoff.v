(* Backoff.v -- model of actions/get-subscription-messages.go:NextDelayFor.
   Exact rational arithmetic replaces float64 (the float tolerance is an
   assumption checked by the harness).  All durations are Z nanoseconds. *)
From MB Require Import Base.
Open Scope Z_scope.

Definition sec : Z := 1000000000.
Definition default_min : Z := 10 * sec.
Definition default_max : Z := 600 * sec.

(* effective bound: a nil or non-positive setting falls back to the default *)
Definition eff (dflt : Z) (o : option Z) : Z :=
  match o with
  | Some v => if 0 <? v then v else dflt
  | None => dflt
  end.

(* nominal delay after n >= 0 failed attempts: min(max, floor(min * 1.1^n)) *)
Definition nominal (minb maxb : option Z) (n : Z) : Z :=
  Z.min (eff default_max maxb) ((eff default_min minb * 11 ^ n) / 10 ^ n).

(* the fuzz is crc32(..) % 1e9, and is 0 unless the delay exceeds 0.5s *)
Definition fuzz_ok (nominal fuzz : Z) : bool :=
  (0 <=? fuzz) && (fuzz <? sec) && ((sec / 2 <? nominal) || (fuzz =? 0)).

Definition retry_at (now nominal fuzz : Z) : Z := now + nominal + fuzz.

Example nominal_default_0 : nominal None None 0 = 10 * sec.
Proof. vm_compute. reflexivity. Qed.
Example nominal_default_1 : nominal None None 1 = 11 * sec.
Proof. vm_compute. reflexivity. Qed.
Example nominal_default_2 : nominal None None 2 = 12100000000.
Proof. vm_compute. reflexivity. Qed.
Example nominal_default_42 : nominal None None 42 <? 600 * sec = true.
Proof. vm_compute. reflexivity. Qed.
Example nominal_default_43 : nominal None None 43 = 600 * sec.
Proof. vm_compute. reflexivity. Qed.
Example nominal_custom : nominal (Some (2 * sec)) (Some (3 * sec)) 5 = 3 * sec.
Proof. vm_compute. reflexivity. Qed.
Example nominal_nonpositive_falls_back : nominal (Some 0) (Some (-5)) 1 = 11 * sec.
Proof. vm_compute. reflexivity. Qed.
