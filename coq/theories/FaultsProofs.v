(* FaultsProofs.v -- theorems about the fault-injection model (Faults.v). *)
From MB Require Import Base Faults.
From Coq Require Import Lia ZArith.
Open Scope Z_scope.

(* ------------------------------------------------------------------ *)
(* matching                                                            *)
(* ------------------------------------------------------------------ *)

Lemma params_sub_spec dp ps :
  params_sub dp ps = true <-> (forall k v, In (k, v) dp -> lookup k ps = Some v).
Proof.
  unfold params_sub. rewrite forallb_forall. split.
  - intros H k v Hin. specialize (H (k, v) Hin). cbn [fst snd] in H.
    destruct (lookup k ps) as [v'|]; [|discriminate].
    apply String.eqb_eq in H. subst; reflexivity.
  - intros H [k v] Hin. cbn [fst snd]. rewrite (H k v Hin). apply String.eqb_refl.
Qed.

Lemma smatch_spec d op ps :
  smatch d op ps = true <->
  d_op d = op /\ (forall k v, In (k, v) (d_params d) -> lookup k ps = Some v).
Proof.
  unfold smatch. rewrite andb_true_iff, String.eqb_eq, params_sub_spec. reflexivity.
Qed.

Lemma dmatch_spec d op ps :
  dmatch d op ps = true <-> 0 < d_count d /\ smatch d op ps = true.
Proof.
  unfold dmatch. rewrite andb_true_iff, Z.ltb_lt. reflexivity.
Qed.

(* ------------------------------------------------------------------ *)
(* sequential Check                                                    *)
(* ------------------------------------------------------------------ *)

Lemma find_match_none s op ps i :
  (forall d, In d s -> dmatch d op ps = false) -> find_match s op ps i = None.
Proof.
  revert i. induction s as [|d s IH]; intros i H; cbn [find_match]; [reflexivity|].
  rewrite (H d (or_introl eq_refl)). apply IH. intros d' Hd'. apply H. right; exact Hd'.
Qed.

Lemma find_match_none_inv s op ps i :
  find_match s op ps i = None -> forall d, In d s -> dmatch d op ps = false.
Proof.
  revert i. induction s as [|d s IH]; intros i H d' Hin; [destruct Hin|].
  cbn [find_match] in H. destruct (dmatch d op ps) eqn:E; [discriminate|].
  destruct Hin as [<-|Hin]; [exact E|]. eapply IH; eauto.
Qed.

Lemma find_match_some s op ps i0 i :
  find_match s op ps i0 = Some i ->
  (i0 <= i)%nat /\
  exists d, nth_error s (i - i0) = Some d /\ dmatch d op ps = true /\
            (forall k d', (k < i - i0)%nat -> nth_error s k = Some d' -> dmatch d' op ps = false).
Proof.
  revert i0. induction s as [|d s IH]; intros i0 H; cbn [find_match] in H; [discriminate|].
  destruct (dmatch d op ps) eqn:E.
  - injection H as <-. split; [lia|]. rewrite Nat.sub_diag. exists d. cbn [nth_error].
    repeat split; auto. intros k d' Hk; lia.
  - apply IH in H. destruct H as (Hle & d1 & Hnth & Hm & Hbefore).
    split; [lia|]. replace (i - i0)%nat with (S (i - S i0)) by lia.
    exists d1. cbn [nth_error]. repeat split; auto.
    intros [|k] d' Hk Hn; cbn [nth_error] in Hn.
    + injection Hn as <-. exact E.
    + eapply Hbefore; [|exact Hn]. lia.
Qed.

(* a call that matches nothing is never failed and changes nothing *)
Lemma check_nomatch s op ps :
  (forall d, In d s -> dmatch d op ps = false) -> check s op ps = (s, None).
Proof.
  intros H. unfold check. rewrite (find_match_none s op ps O H). reflexivity.
Qed.

(* a fault fires only from a description that matches, it is the first such one, its
   count was positive and drops by exactly one; nothing else changes *)
Lemma check_fires s op ps s' i r :
  check s op ps = (s', Some (i, r)) ->
  exists d, nth_error s i = Some d /\ dmatch d op ps = true /\
            r = d_count d - 1 /\ 0 <= r /\ s' = dec_at i s /\
            (forall k d', (k < i)%nat -> nth_error s k = Some d' -> dmatch d' op ps = false).
Proof.
  unfold check. destruct (find_match s op ps 0) as [i1|] eqn:E; intros H; [|discriminate].
  injection H as <- <- <-.
  apply find_match_some in E. destruct E as (_ & d & Hnth & Hm & Hbefore).
  rewrite Nat.sub_0_r in *. exists d.
  assert (Hc : count_at i1 s = d_count d) by (unfold count_at; rewrite Hnth; reflexivity).
  apply dmatch_spec in Hm as Hm'. destruct Hm' as [Hpos _].
  repeat split; auto; lia.
Qed.

Lemma check_none s op ps s' :
  check s op ps = (s', None) -> s' = s /\ (forall d, In d s -> dmatch d op ps = false).
Proof.
  unfold check. destruct (find_match s op ps 0) as [i1|] eqn:E; intros H; [discriminate|].
  injection H as <-. split; [reflexivity|]. eapply find_match_none_inv; eauto.
Qed.

Lemma current_from_spec s op i0 i n :
  In (i, n) (current_from s op i0) <->
  (i0 <= i)%nat /\
  exists d, nth_error s (i - i0) = Some d /\ d_op d = op /\ 0 < d_count d /\ n = d_count d.
Proof.
  revert i0. induction s as [|a s IH]; intros i0; cbn [current_from].
  - split; [intros []|]. intros (_ & d & H & _). destruct (i - i0)%nat; discriminate.
  - rewrite in_app_iff, IH. split.
    + intros [H|H].
      * destruct ((0 <? d_count a) && String.eqb (d_op a) op)%bool eqn:E; [|destruct H].
        destruct H as [H|[]]. injection H as <- <-.
        apply andb_true_iff in E. destruct E as [E1 E2].
        apply Z.ltb_lt in E1. apply String.eqb_eq in E2.
        split; [lia|]. rewrite Nat.sub_diag. exists a. cbn [nth_error]. auto.
      * destruct H as (Hle & d & Hnth & Hrest). split; [lia|].
        replace (i - i0)%nat with (S (i - S i0)) by lia. exists d. cbn [nth_error]. auto.
    + intros (Hle & d & Hnth & Hop & Hpos & Hn).
      destruct (Nat.eq_dec i i0) as [->|Hne].
      * left. rewrite Nat.sub_diag in Hnth. cbn [nth_error] in Hnth. injection Hnth as ->.
        apply Z.ltb_lt in Hpos. apply String.eqb_eq in Hop. rewrite Hpos, Hop.
        cbn. left. subst n. reflexivity.
      * right. split; [lia|]. exists d.
        replace (i - i0)%nat with (S (i - S i0)) in Hnth by lia. cbn [nth_error] in Hnth. auto.
Qed.

(* an exhausted description disappears from the listing, a live one is listed with
   its remaining count *)
Lemma current_spec s op i n :
  In (i, n) (current s op) <->
  exists d, nth_error s i = Some d /\ d_op d = op /\ 0 < d_count d /\ n = d_count d.
Proof.
  unfold current. rewrite current_from_spec, Nat.sub_0_r. split.
  - intros [_ H]; exact H.
  - intros H; split; [lia|exact H].
Qed.

(* ------------------------------------------------------------------ *)
(* concurrent callers                                                  *)
(* ------------------------------------------------------------------ *)

Definition reachable (c : cfg) : Prop := exists ls, c = lrun ls.

Definition init_at (j : nat) (c : cfg) : Z := nth j (c_init c) 0.
Definition decs_at (j : nat) (c : cfg) : nat := nth j (c_decs c) O.

(* ---- list helpers ---- *)

Lemma length_dec_at j s : length (dec_at j s) = length s.
Proof. revert j; induction s as [|d s IH]; intros [|j]; cbn; auto. Qed.

Lemma length_upd_nth {A} j (f : A -> A) l : length (upd_nth j f l) = length l.
Proof. revert j; induction l as [|x l IH]; intros [|j]; cbn; auto. Qed.

Lemma nth_error_dec_at j s k :
  nth_error (dec_at j s) k =
  if (k =? j)%nat then option_map dec (nth_error s k) else nth_error s k.
Proof.
  revert j k; induction s as [|d s IH]; intros [|j] [|k]; cbn; auto;
    try (destruct (k =? j)%nat; reflexivity).
Qed.

Lemma nth_upd_nth_eq {A} j (f : A -> A) l d :
  (j < length l)%nat -> nth j (upd_nth j f l) d = f (nth j l d).
Proof.
  revert j; induction l as [|x l IH]; intros [|j] H; cbn in *; try lia; auto.
  apply IH; lia.
Qed.

Lemma nth_upd_nth_neq {A} j k (f : A -> A) l d :
  k <> j -> nth k (upd_nth j f l) d = nth k l d.
Proof.
  revert j k; induction l as [|x l IH]; intros [|j] [|k] H; cbn; try congruence; auto.
Qed.

Lemma count_at_dec_at_eq j s :
  (j < length s)%nat -> count_at j (dec_at j s) = count_at j s - 1.
Proof.
  intros H. unfold count_at. rewrite nth_error_dec_at, Nat.eqb_refl.
  destruct (nth_error s j) eqn:E; [reflexivity|]. apply nth_error_None in E. lia.
Qed.

Lemma count_at_dec_at_neq j k s : k <> j -> count_at k (dec_at j s) = count_at k s.
Proof.
  intros H. unfold count_at. rewrite nth_error_dec_at.
  destruct (Nat.eqb_spec k j); [congruence|reflexivity].
Qed.

Lemma nth_snoc {A} (l : list A) x d k :
  nth k (l ++ [x]) d =
  if (k <? length l)%nat then nth k l d else if (k =? length l)%nat then x else d.
Proof.
  destruct (Nat.ltb_spec k (length l)) as [H|H]; [apply app_nth1; auto|].
  rewrite app_nth2 by lia.
  destruct (Nat.eqb_spec k (length l)) as [->|Hne].
  - rewrite Nat.sub_diag. reflexivity.
  - destruct (k - length l)%nat as [|[|m]] eqn:E; try lia; reflexivity.
Qed.

Lemma count_at_snoc s d k :
  count_at k (s ++ [d]) =
  if (k <? length s)%nat then count_at k s else if (k =? length s)%nat then d_count d else 0.
Proof.
  unfold count_at.
  destruct (Nat.ltb_spec k (length s)) as [H|H]; [rewrite nth_error_app1 by auto; reflexivity|].
  rewrite nth_error_app2 by lia.
  destruct (Nat.eqb_spec k (length s)) as [->|Hne].
  - rewrite Nat.sub_diag. reflexivity.
  - destruct (k - length s)%nat as [|[|m]] eqn:E; try lia; reflexivity.
Qed.

Lemma count_at_overflow s k : (length s <= k)%nat -> count_at k s = 0.
Proof.
  intros H. unfold count_at. apply nth_error_None in H. rewrite H. reflexivity.
Qed.

Lemma Forall_upd_nth {A} (P : A -> Prop) t y l :
  Forall P l -> P y -> Forall P (upd_nth t (fun _ => y) l).
Proof.
  intros H Hy. revert t. induction H; intros [|t]; cbn; constructor; auto.
Qed.

Lemma upd_nth_same {A} t (x : A) l :
  nth_error l t = Some x -> upd_nth t (fun _ => x) l = l.
Proof.
  revert t; induction l as [|a l IH]; intros [|t] H; cbn in *; try discriminate.
  - injection H as ->. reflexivity.
  - f_equal. apply IH; exact H.
Qed.

Lemma filter_upd_nth {A} (f : A -> bool) t x y l :
  nth_error l t = Some x ->
  (length (filter f (upd_nth t (fun _ => y) l)) + (if f x then 1 else 0) =
   length (filter f l) + (if f y then 1 else 0))%nat.
Proof.
  revert t; induction l as [|a l IH]; intros [|t] H; cbn in *; try discriminate.
  - injection H as ->. destruct (f x), (f y); cbn; lia.
  - specialize (IH t H). destruct (f a); cbn; lia.
Qed.

Lemma map_upd_nth_same {A B} (g : A -> B) t x y l :
  nth_error l t = Some x -> g y = g x -> map g (upd_nth t (fun _ => y) l) = map g l.
Proof.
  revert t; induction l as [|a l IH]; intros [|t] H Hg; cbn in *; try discriminate.
  - injection H as ->. rewrite Hg. reflexivity.
  - f_equal. apply IH; auto.
Qed.

Lemma filter_map_length {A B} (g : B -> bool) (h : A -> B) l :
  length (filter g (map h l)) = length (filter (fun x => g (h x)) l).
Proof.
  induction l as [|a l IH]; cbn; [reflexivity|]. destruct (g (h a)); cbn; rewrite IH; reflexivity.
Qed.

Lemma filter_length_le {A} (f g : A -> bool) l :
  (forall x, In x l -> f x = true -> g x = true) ->
  (length (filter f l) <= length (filter g l))%nat.
Proof.
  induction l as [|a l IH]; intros H; cbn; [lia|].
  assert (IH' := IH (fun x Hx => H x (or_intror Hx))).
  destruct (f a) eqn:Ef.
  - rewrite (H a (or_introl eq_refl) Ef). cbn. lia.
  - destruct (g a); cbn; lia.
Qed.

(* ---- monotone evolution of the set ---- *)

Definition dle (d d' : desc) : Prop :=
  d_op d' = d_op d /\ d_params d' = d_params d /\ d_count d' <= d_count d.

Definition sle (s s' : fset) : Prop :=
  (length s <= length s')%nat /\
  forall k d, nth_error s k = Some d -> exists d', nth_error s' k = Some d' /\ dle d d'.

Lemma smatch_dle d d' op ps : dle d d' -> smatch d' op ps = smatch d op ps.
Proof. intros (H1 & H2 & _). unfold smatch. rewrite H1, H2. reflexivity. Qed.

Lemma sle_snoc s d : sle s (s ++ [d]).
Proof.
  split; [rewrite app_length; lia|].
  intros k d0 H. exists d0. split.
  - rewrite nth_error_app1; [exact H|]. apply nth_error_Some. congruence.
  - unfold dle. repeat split; lia.
Qed.

Lemma sle_dec_at j s : sle s (dec_at j s).
Proof.
  split; [rewrite length_dec_at; lia|].
  intros k d0 H. rewrite nth_error_dec_at, H.
  destruct (k =? j)%nat; cbn [option_map].
  - exists (dec d0). split; [reflexivity|]. unfold dle, dec; cbn. repeat split; lia.
  - exists d0. split; [reflexivity|]. unfold dle. repeat split; lia.
Qed.

(* ---- the invariant ---- *)

Definition exhausted_below (s : fset) (op : str) (ps : params) (n : nat) : Prop :=
  (n <= length s)%nat /\
  forall k d, (k < n)%nat -> nth_error s k = Some d -> smatch d op ps = true -> d_count d <= 0.

Definition thr_ok (s : fset) (ts : tstate) : Prop :=
  match ts with
  | TScan op ps j => exhausted_below s op ps j
  | TMatched op ps j => exists d, nth_error s j = Some d /\ smatch d op ps = true
  | TDone op ps (Some j) _ => exists d, nth_error s j = Some d /\ smatch d op ps = true
  | TDone op ps None n => exhausted_below s op ps n
  end.

Lemma exhausted_below_mono s s' op ps n :
  sle s s' -> exhausted_below s op ps n -> exhausted_below s' op ps n.
Proof.
  intros [Hlen Hs] [Hn Hex]. split; [lia|].
  intros k d' Hk Hnth Hsm.
  destruct (nth_error s k) as [d|] eqn:E.
  - destruct (Hs k d E) as (d'' & Hnth' & Hdle). rewrite Hnth in Hnth'. injection Hnth' as <-.
    rewrite (smatch_dle _ _ _ _ Hdle) in Hsm. specialize (Hex k d Hk E Hsm).
    destruct Hdle as (_ & _ & Hc). lia.
  - apply nth_error_None in E. lia.
Qed.

Lemma found_mono s s' op ps j :
  sle s s' ->
  (exists d, nth_error s j = Some d /\ smatch d op ps = true) ->
  (exists d, nth_error s' j = Some d /\ smatch d op ps = true).
Proof.
  intros [_ Hs] (d & Hnth & Hsm). destruct (Hs j d Hnth) as (d' & Hnth' & Hdle).
  exists d'. split; [exact Hnth'|]. rewrite (smatch_dle _ _ _ _ Hdle). exact Hsm.
Qed.

Lemma thr_ok_mono s s' ts : sle s s' -> thr_ok s ts -> thr_ok s' ts.
Proof.
  intros Hs. destruct ts as [op ps j|op ps j|op ps [j|] n]; cbn [thr_ok];
    eauto using exhausted_below_mono, found_mono.
Qed.

Record Inv (c : cfg) : Prop := mkInv {
  inv_len_init : length (c_init c) = length (c_set c);
  inv_len_decs : length (c_decs c) = length (c_set c);
  inv_count : forall j, count_at j (c_set c) = init_at j c - Z.of_nat (decs_at j c);
  inv_fired : forall j,
      Z.of_nat (fired c j) = Z.max 0 (Z.min (init_at j c) (Z.of_nat (decs_at j c)));
  inv_thr : Forall (thr_ok (c_set c)) (c_thr c)
}.

Lemma Inv_cfg0 : Inv cfg0.
Proof.
  constructor; cbn; auto.
  - intros [|j]; reflexivity.
  - intros [|j]; reflexivity.
Qed.

Lemma Inv_add c d : Inv c -> Inv (lstep c (LAdd d)).
Proof.
  intros [L1 L2 HC HF HT]. cbn [lstep].
  constructor; cbn [c_set c_init c_decs c_thr].
  - rewrite !app_length. cbn. lia.
  - rewrite !app_length. cbn. lia.
  - intros j. specialize (HC j). unfold init_at, decs_at in *. cbn [c_init c_decs].
    rewrite count_at_snoc, !nth_snoc, L1, L2.
    destruct (Nat.ltb_spec j (length (c_set c))); [exact HC|].
    destruct (Nat.eqb_spec j (length (c_set c))); cbn; lia.
  - intros j. specialize (HF j). unfold fired, init_at, decs_at in *.
    cbn [c_init c_decs c_thr] in *.
    rewrite !nth_snoc, L1, L2.
    destruct (Nat.ltb_spec j (length (c_set c))); [exact HF|].
    rewrite (nth_overflow (c_init c)) in HF by lia.
    rewrite (nth_overflow (c_decs c)) in HF by lia.
    destruct (Nat.eqb_spec j (length (c_set c))); cbn [Z.of_nat] in *; lia.
  - eapply Forall_impl; [|exact HT]. intros ts. apply thr_ok_mono, sle_snoc.
Qed.

Lemma Inv_call c op ps : Inv c -> Inv (lstep c (LCall op ps)).
Proof.
  intros [L1 L2 HC HF HT]. cbn [lstep].
  constructor; cbn [c_set c_init c_decs c_thr]; auto.
  - intros j. specialize (HF j). unfold fired, init_at, decs_at in *.
    cbn [c_init c_decs c_thr] in *.
    rewrite filter_app, app_length. cbn. rewrite Nat.add_0_r. exact HF.
  - apply Forall_app. split; [exact HT|]. constructor; [|constructor].
    cbn [thr_ok]. split; [lia|]. intros k d0 Hk; lia.
Qed.

Lemma Inv_thr_upd c t ts ts' :
  Inv c -> nth_error (c_thr c) t = Some ts ->
  (forall k, fired_by k ts' = fired_by k ts) ->
  thr_ok (c_set c) ts' ->
  Inv (mkCfg (c_set c) (c_init c) (c_decs c) (upd_nth t (fun _ => ts') (c_thr c))).
Proof.
  intros [L1 L2 HC HF HT] Et Hfb Hok.
  constructor; cbn [c_set c_init c_decs c_thr]; auto.
  - intros j. specialize (HF j). unfold fired, init_at, decs_at in *.
    cbn [c_init c_decs c_thr] in *.
    pose proof (filter_upd_nth (fired_by j) t ts ts' _ Et) as Hl.
    rewrite Hfb in Hl. lia.
  - apply Forall_upd_nth; auto.
Qed.

Lemma lstep_LStep c t ts :
  nth_error (c_thr c) t = Some ts ->
  lstep c (LStep t) =
  mkCfg (c_set (fst (thread_step c ts))) (c_init (fst (thread_step c ts)))
        (c_decs (fst (thread_step c ts)))
        (upd_nth t (fun _ => snd (thread_step c ts)) (c_thr (fst (thread_step c ts)))).
Proof. intros H. unfold lstep. rewrite H. destruct (thread_step c ts); reflexivity. Qed.

Lemma thread_step_matched c op ps j :
  thread_step c (TMatched op ps j) =
  (mkCfg (dec_at j (c_set c)) (c_init c) (upd_nth j S (c_decs c)) (c_thr c),
   if count_at j (c_set c) - 1 <? 0 then TScan op ps O else TDone op ps (Some j) j).
Proof. unfold thread_step. destruct (_ <? 0); reflexivity. Qed.

Lemma Inv_scan c t op ps j :
  Inv c -> nth_error (c_thr c) t = Some (TScan op ps j) -> Inv (lstep c (LStep t)).
Proof.
  intros I Et. rewrite (lstep_LStep _ _ _ Et).
  pose proof (inv_thr _ I) as HT. rewrite Forall_forall in HT.
  pose proof (HT _ (nth_error_In _ _ Et)) as Hok. cbn [thr_ok] in Hok.
  destruct Hok as [Hj Hex].
  cbn [thread_step].
  destruct (nth_error (c_set c) j) as [d|] eqn:Ej.
  - destruct (dmatch d op ps) eqn:Em; cbn [fst snd].
    + apply (Inv_thr_upd _ _ _ _ I Et); [reflexivity|].
      cbn [thr_ok]. exists d. split; [exact Ej|]. apply dmatch_spec in Em. tauto.
    + apply (Inv_thr_upd _ _ _ _ I Et); [reflexivity|].
      cbn [thr_ok]. split.
      * apply nth_error_Some. congruence.
      * intros k d0 Hk Hnth Hsm.
        destruct (Nat.eq_dec k j) as [->|Hne].
        -- rewrite Ej in Hnth. injection Hnth as <-.
           unfold dmatch in Em. rewrite Hsm, andb_true_r in Em. apply Z.ltb_ge in Em. exact Em.
        -- apply (Hex k d0); auto. lia.
  - cbn [fst snd]. apply (Inv_thr_upd _ _ _ _ I Et); [reflexivity|].
    cbn [thr_ok]. split; [exact Hj|exact Hex].
Qed.

Lemma Inv_matched c t op ps j :
  Inv c -> nth_error (c_thr c) t = Some (TMatched op ps j) -> Inv (lstep c (LStep t)).
Proof.
  intros I Et. rewrite (lstep_LStep _ _ _ Et).
  pose proof (inv_thr _ I) as HT. pose proof HT as HT'. rewrite Forall_forall in HT'.
  pose proof (HT' _ (nth_error_In _ _ Et)) as Hok. cbn [thr_ok] in Hok.
  destruct Hok as (d0 & Hd0 & Hsm).
  assert (Hj : (j < length (c_set c))%nat) by (apply nth_error_Some; congruence).
  rewrite thread_step_matched. cbn [fst snd c_set c_init c_decs c_thr].
  destruct I as [L1 L2 HC HF _].
  constructor; cbn [c_set c_init c_decs c_thr].
  - rewrite length_dec_at. exact L1.
  - rewrite length_dec_at, length_upd_nth. exact L2.
  - intros k. specialize (HC k). unfold init_at, decs_at in *. cbn [c_init c_decs].
    destruct (Nat.eq_dec k j) as [->|Hne].
    + rewrite count_at_dec_at_eq by exact Hj. rewrite nth_upd_nth_eq by lia. lia.
    + rewrite count_at_dec_at_neq by exact Hne. rewrite nth_upd_nth_neq by exact Hne. exact HC.
  - intros k. specialize (HF k). specialize (HC k).
    unfold fired, init_at, decs_at in *. cbn [c_init c_decs c_thr] in *.
    match goal with |- context [upd_nth t (fun _ => ?y) _] =>
      pose proof (filter_upd_nth (fired_by k) t _ y _ Et) as Hl end.
    cbn [fired_by] in Hl.
    destruct (Nat.eq_dec k j) as [->|Hne].
    + rewrite nth_upd_nth_eq by lia.
      destruct (Z.ltb_spec (count_at j (c_set c) - 1) 0) as [Hlt|Hge]; cbn [fired_by] in Hl.
      * lia.
      * rewrite Nat.eqb_refl in Hl. lia.
    + rewrite nth_upd_nth_neq by exact Hne.
      destruct (Z.ltb_spec (count_at j (c_set c) - 1) 0) as [Hlt|Hge]; cbn [fired_by] in Hl.
      * lia.
      * apply Nat.eqb_neq in Hne. rewrite Hne in Hl. lia.
  - apply Forall_upd_nth.
    + eapply Forall_impl; [|exact HT]. intros ts. apply thr_ok_mono, sle_dec_at.
    + destruct (count_at j (c_set c) - 1 <? 0); cbn [thr_ok].
      * split; [lia|]. intros k d1 Hk; lia.
      * apply (found_mono (c_set c)); [apply sle_dec_at|]. exists d0. auto.
Qed.

Lemma Inv_done c t op ps r n :
  Inv c -> nth_error (c_thr c) t = Some (TDone op ps r n) -> Inv (lstep c (LStep t)).
Proof.
  intros I Et. rewrite (lstep_LStep _ _ _ Et). cbn [thread_step fst snd].
  apply (Inv_thr_upd _ _ _ _ I Et); [reflexivity|].
  pose proof (inv_thr _ I) as HT. rewrite Forall_forall in HT.
  exact (HT _ (nth_error_In _ _ Et)).
Qed.

Lemma Inv_step c l : Inv c -> Inv (lstep c l).
Proof.
  intros I. destruct l as [d|op ps|t].
  - apply Inv_add; exact I.
  - apply Inv_call; exact I.
  - destruct (nth_error (c_thr c) t) as [ts|] eqn:Et.
    + destruct ts as [op ps j|op ps j|op ps r n].
      * eapply Inv_scan; eauto.
      * eapply Inv_matched; eauto.
      * eapply Inv_done; eauto.
    + unfold lstep. rewrite Et. exact I.
Qed.

Lemma Inv_fold ls c : Inv c -> Inv (fold_left lstep ls c).
Proof.
  revert c. induction ls as [|l ls IH]; intros c I; cbn [fold_left]; [exact I|].
  apply IH, Inv_step, I.
Qed.

Lemma reachable_Inv c : reachable c -> Inv c.
Proof. intros [ls ->]. apply Inv_fold, Inv_cfg0. Qed.

(* every decrement is accounted for *)
Theorem lts_count_conservation c j :
  reachable c -> count_at j (c_set c) = init_at j c - Z.of_nat (decs_at j c).
Proof. intros R. apply inv_count, reachable_Inv, R. Qed.

(* exactly the first N decrements of a description fire, under every schedule *)
Theorem lts_exact_fired c j :
  reachable c ->
  Z.of_nat (fired c j) = Z.max 0 (Z.min (init_at j c) (Z.of_nat (decs_at j c))).
Proof. intros R. apply inv_fired, reachable_Inv, R. Qed.

Corollary lts_never_overfires c j :
  reachable c -> Z.of_nat (fired c j) <= Z.max 0 (init_at j c).
Proof. intros R. rewrite (lts_exact_fired c j R). lia. Qed.

(* only calls that match (operation equal, injected parameters a subset) are failed *)
Theorem lts_only_matching_fail c op ps j n :
  reachable c -> In (TDone op ps (Some j) n) (c_thr c) ->
  exists d, nth_error (c_set c) j = Some d /\ smatch d op ps = true.
Proof.
  intros R Hin. pose proof (inv_thr _ (reachable_Inv _ R)) as HT.
  rewrite Forall_forall in HT. exact (HT _ Hin).
Qed.

(* a call that returned without fault saw every description that matches it exhausted *)
Theorem lts_nofault_exhausted c op ps n :
  reachable c -> In (TDone op ps None n) (c_thr c) ->
  (n <= length (c_set c))%nat /\
  forall k d, (k < n)%nat -> nth_error (c_set c) k = Some d -> smatch d op ps = true ->
              d_count d <= 0.
Proof.
  intros R Hin. pose proof (inv_thr _ (reachable_Inv _ R)) as HT.
  rewrite Forall_forall in HT. exact (HT _ Hin).
Qed.

(* ... and it had scanned the whole set when no description was added afterwards *)
Definition is_add (l : label) : bool := match l with LAdd _ => true | _ => false end.
Definition call_of (l : label) : list (str * params) :=
  match l with LCall op ps => [(op, ps)] | _ => [] end.

(* ---- callers correspond one-to-one, in order, to the LCall labels ---- *)

Definition thr_call (ts : tstate) : str * params :=
  match ts with
  | TScan op ps _ => (op, ps)
  | TMatched op ps _ => (op, ps)
  | TDone op ps _ _ => (op, ps)
  end.

Lemma thread_step_thr c ts :
  c_thr (fst (thread_step c ts)) = c_thr c /\
  thr_call (snd (thread_step c ts)) = thr_call ts.
Proof.
  destruct ts as [op ps j|op ps j|op ps r n].
  - cbn [thread_step]. destruct (nth_error (c_set c) j) as [d|]; [destruct (dmatch d op ps)|];
      cbn; auto.
  - rewrite thread_step_matched. cbn [fst snd c_thr].
    destruct (_ <? 0); cbn; auto.
  - cbn; auto.
Qed.

Lemma thr_call_step c l :
  map thr_call (c_thr (lstep c l)) = map thr_call (c_thr c) ++ call_of l.
Proof.
  destruct l as [d|op ps|t]; cbn [call_of].
  - cbn. rewrite app_nil_r. reflexivity.
  - cbn. rewrite map_app. reflexivity.
  - rewrite app_nil_r. destruct (nth_error (c_thr c) t) as [ts|] eqn:Et.
    + rewrite (lstep_LStep _ _ _ Et). cbn [c_thr].
      destruct (thread_step_thr c ts) as [H1 H2]. rewrite H1.
      apply (map_upd_nth_same thr_call t ts); auto.
    + unfold lstep. rewrite Et. reflexivity.
Qed.

Lemma thr_call_fold ls c :
  map thr_call (c_thr (fold_left lstep ls c)) = map thr_call (c_thr c) ++ flat_map call_of ls.
Proof.
  revert c. induction ls as [|l ls IH]; intros c; cbn [fold_left flat_map].
  - rewrite app_nil_r. reflexivity.
  - rewrite IH, thr_call_step, app_assoc. reflexivity.
Qed.

(* ---- invariant of runs over the single description [d] with no further adds ---- *)

Definition thr_one (ts : tstate) : Prop :=
  match ts with
  | TScan _ _ j => (j <= 1)%nat
  | TDone _ _ None n => n = 1%nat
  | _ => True
  end.

Definition Inv1 (d : desc) (c : cfg) : Prop :=
  (exists d', c_set c = [d'] /\ d_op d' = d_op d /\ d_params d' = d_params d) /\
  c_init c = [d_count d] /\
  Forall thr_one (c_thr c).

Lemma Inv1_thr_upd d c t ts' :
  Inv1 d c -> thr_one ts' ->
  Inv1 d (mkCfg (c_set c) (c_init c) (c_decs c) (upd_nth t (fun _ => ts') (c_thr c))).
Proof.
  intros (Hs & Hi & Ht) Hok. repeat split; cbn [c_set c_init c_thr]; auto.
  apply Forall_upd_nth; auto.
Qed.

Lemma Inv1_step d c l : is_add l = false -> Inv1 d c -> Inv1 d (lstep c l).
Proof.
  intros Hl I1. destruct l as [d0|op ps|t]; [discriminate| |].
  - destruct I1 as (Hs & Hi & Ht). repeat split; cbn [lstep c_set c_init c_thr]; auto.
    apply Forall_app. split; [exact Ht|]. constructor; [cbn; lia|constructor].
  - destruct (nth_error (c_thr c) t) as [ts|] eqn:Et.
    2:{ unfold lstep. rewrite Et. exact I1. }
    rewrite (lstep_LStep _ _ _ Et).
    pose proof I1 as (Hs & Hi & Ht).
    rewrite Forall_forall in Ht. pose proof (Ht _ (nth_error_In _ _ Et)) as Hone.
    destruct Hs as (d' & Hset & Hop & Hps).
    destruct ts as [op ps j|op ps j|op ps r n].
    + cbn [thread_step]. cbn [thr_one] in Hone. rewrite Hset.
      destruct j as [|[|j]]; [| |lia]; cbn [nth_error].
      * destruct (dmatch d' op ps); cbn [fst snd]; apply Inv1_thr_upd; auto; cbn; lia.
      * cbn [fst snd]. apply Inv1_thr_upd; auto. reflexivity.
    + rewrite thread_step_matched. cbn [fst snd c_set c_init c_decs c_thr].
      repeat split; cbn [c_set c_init c_thr]; auto.
      * rewrite Hset. destruct j as [|j]; cbn [dec_at].
        -- exists (dec d'). cbn. auto.
        -- exists d'. destruct j; cbn; auto.
      * apply Forall_upd_nth; [apply Forall_forall; exact Ht|].
        destruct (_ <? 0); cbn; auto; lia.
    + cbn [thread_step fst snd]. apply Inv1_thr_upd; auto.
Qed.

Lemma Inv1_fold d ls c :
  forallb (fun l => negb (is_add l)) ls = true -> Inv1 d c -> Inv1 d (fold_left lstep ls c).
Proof.
  revert c. induction ls as [|l ls IH]; intros c Hls I1; cbn [fold_left]; [exact I1|].
  cbn [forallb] in Hls. apply andb_true_iff in Hls. destruct Hls as [Hl Hls].
  apply IH; [exact Hls|]. apply Inv1_step; [|exact I1]. apply negb_true_iff. exact Hl.
Qed.

(* The property as stated: one description with count N; any number of callers, any mix
   of matching and non-matching, arriving at any time, under any schedule: once all
   calls have returned exactly min(N, #matching calls) of them failed. *)
Theorem C18_single_description d ls :
  forallb (fun l => negb (is_add l)) ls = true ->
  let c := lrun (LAdd d :: ls) in
  quiescent c = true ->
  fired c 0 =
  Nat.min (Z.to_nat (Z.max 0 (d_count d)))
          (length (filter (fun c => smatch d (fst c) (snd c)) (flat_map call_of ls))).
Proof.
  intros Hls c Hq.
  assert (R : reachable c) by (exists (LAdd d :: ls); reflexivity).
  pose proof (reachable_Inv _ R) as I.
  assert (I1 : Inv1 d c).
  { unfold c, lrun. cbn [fold_left]. apply Inv1_fold; [exact Hls|].
    repeat split; cbn; auto. exists d. auto. }
  assert (Hcalls : map thr_call (c_thr c) = flat_map call_of ls).
  { unfold c, lrun. cbn [fold_left]. rewrite thr_call_fold. reflexivity. }
  rewrite <- Hcalls, filter_map_length.
  destruct I1 as ((d' & Hset & Hop & Hps) & Hinit & Hone).
  assert (Hsm : forall op ps, smatch d' op ps = smatch d op ps).
  { intros op ps. unfold smatch. rewrite Hop, Hps. reflexivity. }
  pose proof (inv_thr _ I) as HT. rewrite Forall_forall in HT, Hone.
  pose proof (inv_fired _ I O) as HF. pose proof (inv_count _ I O) as HC.
  unfold init_at in HF, HC. rewrite Hinit in HF, HC. cbn [nth] in HF, HC.
  rewrite Hset in HC. unfold count_at in HC. cbn [nth_error] in HC.
  set (g := fun x : tstate => smatch d (fst (thr_call x)) (snd (thr_call x))).
  (* every failed call matches *)
  assert (HA : forall ts, In ts (c_thr c) -> fired_by O ts = true -> g ts = true).
  { intros ts Hin Hfb. specialize (HT ts Hin).
    destruct ts as [op ps j|op ps j|op ps [j|] n]; cbn [fired_by] in Hfb; try discriminate.
    apply Nat.eqb_eq in Hfb. subst j. cbn [thr_ok] in HT. destruct HT as (d0 & Hd0 & Hm).
    rewrite Hset in Hd0. cbn [nth_error] in Hd0. injection Hd0 as <-.
    unfold g. cbn [thr_call fst snd]. rewrite <- Hsm. exact Hm. }
  pose proof (filter_length_le (fired_by O) g (c_thr c) HA) as Hle.
  fold (fired c O) in Hle.
  destruct (Z.ltb_spec 0 (d_count d')) as [Hpos|Hnp].
  - (* description still live: every matching call failed *)
    assert (HB : forall ts, In ts (c_thr c) -> fired_by O ts = g ts).
    { intros ts Hin. destruct (g ts) eqn:Eg.
      2:{ destruct (fired_by O ts) eqn:Ef; [|reflexivity]. rewrite (HA ts Hin Ef) in Eg.
          discriminate. }
      unfold quiescent in Hq. rewrite forallb_forall in Hq.
      pose proof (Hq ts Hin) as Hd. pose proof (HT ts Hin) as Hok.
      pose proof (Hone ts Hin) as H1.
      destruct ts as [op ps j|op ps j|op ps [j|] n]; cbn [is_done] in Hd; try discriminate.
      - cbn [thr_ok] in Hok. destruct Hok as (d0 & Hd0 & _). rewrite Hset in Hd0.
        destruct j as [|j]; [reflexivity|]. cbn [nth_error] in Hd0. destruct j; discriminate.
      - cbn [thr_one] in H1. subst n. cbn [thr_ok] in Hok. destruct Hok as [_ Hex].
        unfold g in Eg. cbn [thr_call fst snd] in Eg. rewrite <- Hsm in Eg.
        assert (d_count d' <= 0).
        { apply (Hex O d'); [lia| |exact Eg]. rewrite Hset. reflexivity. }
        lia. }
    assert (Heq : fired c O = length (filter g (c_thr c))).
    { unfold fired. rewrite (filter_ext_in _ _ _ HB). reflexivity. }
    rewrite <- Heq in *. lia.
  - lia.
Qed.

(* with several (possibly overlapping) descriptions: a call is failed at most once
   (structural: [fired_by] is exclusive) and every description stays within its count *)
Lemma fired_by_functional j k ts : fired_by j ts = true -> fired_by k ts = true -> j = k.
Proof.
  destruct ts as [op ps i|op ps i|op ps [i|] n]; cbn [fired_by]; try discriminate.
  intros H1 H2. apply Nat.eqb_eq in H1, H2. congruence.
Qed.

(* the macro steps used by the forced-schedule harness are runs of atomic steps *)
Lemma reachable_step c l : reachable c -> reachable (lstep c l).
Proof.
  intros [ls ->]. exists (ls ++ [l]). unfold lrun. rewrite fold_left_app. reflexivity.
Qed.

Lemma run_to_yield_reachable fuel c t : reachable c -> reachable (run_to_yield fuel c t).
Proof.
  revert c. induction fuel as [|f IH]; intros c R; cbn [run_to_yield]; [exact R|].
  destruct (nth_error (c_thr c) t) as [[op ps j|op ps j|op ps r n]|]; auto.
  apply IH, reachable_step, R.
Qed.

Lemma macro_reachable c t : reachable c -> reachable (macro c t).
Proof.
  intros R. unfold macro. apply run_to_yield_reachable.
  destruct (nth_error (c_thr c) t) as [[op ps j|op ps j|op ps r n]|]; auto.
  apply reachable_step, R.
Qed.

(* non-vacuity: a concrete race in which the loser has to re-match *)
Example race_example :
  let d := mkDesc "op"%string [] 1 in
  let c := lrun [LAdd d; LCall "op"%string []; LCall "op"%string []; LStep 0; LStep 1; LStep 0; LStep 1; LStep 1; LStep 1] in
  quiescent c = true /\ results c = [Some (Some 0%nat); Some None] /\ fired c 0 = 1%nat.
Proof. vm_compute. repeat split; reflexivity. Qed.
