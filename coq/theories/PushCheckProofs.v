(* PushCheckProofs.v -- what a clean [push_check] says about an observed sequence of
   Receive() calls: it is a run of the model, so the window stayed within [1, 1000] after
   every batch and the ack / nack decision was the documented one. *)
From MB Require Import Base Push PushProofs PushCheck.
Open Scope list_scope.
Open Scope Z_scope.

Definition ev_of (o : pobs) : outcome * Z := (classify (po_err o) (po_status o) (po_dur o), po_k o).

Lemma last_cons {A} (ws : list A) : forall b d, last (b :: ws) d = last ws b.
Proof.
  induction ws as [|c ws IH]; intros b d; [reflexivity|].
  change (last (b :: c :: ws) d) with (last (c :: ws) d).
  rewrite (IH c d), (IH c b). reflexivity.
Qed.

Lemma pobs_ok_spec w o : pobs_ok w o = true ->
  acked (classify (po_err o) (po_status o) (po_dur o)) = po_ack o /\ po_w o = window_step w (ev_of o).
Proof.
  unfold pobs_ok. intros H. apply andb_true_iff in H. destruct H as [H _].
  apply andb_true_iff in H. destruct H as [H1 H2]. apply Bool.eqb_prop in H1. apply Z.eqb_eq in H2.
  split; [exact H1|symmetry; exact H2].
Qed.

(* a clean check: the observed windows are exactly the model's run from w *)
Theorem push_check_run : forall l w i,
  push_check_from w i l = [] ->
  fold_left window_step (map ev_of l) w = last (map po_w l) w /\
  (forall o, In o l -> po_ack o = acked (classify (po_err o) (po_status o) (po_dur o))).
Proof.
  induction l as [|o r IH]; intros w i H; cbn [push_check_from] in H.
  - split; [reflexivity|intros o []].
  - apply app_eq_nil in H. destruct H as [H1 H2].
    destruct (pobs_ok w o) eqn:E; [|discriminate].
    apply pobs_ok_spec in E. destruct E as [Ea Ew].
    destruct (IH (po_w o) (S i) H2) as [IH1 IH2].
    split.
    + cbn [map fold_left]. rewrite <- Ew. rewrite IH1.
      symmetry. apply last_cons.
    + intros o' [<-|Hi]; [symmetry; exact Ea|apply IH2; exact Hi].
Qed.

(* hence the window the implementation reported after every batch is within [1, 1000] *)
Theorem push_check_window_inv : forall l w i,
  1 <= w <= 1000 -> (forall o, In o l -> 0 <= po_k o) ->
  push_check_from w i l = [] ->
  forall o, In o l -> 1 <= po_w o <= 1000.
Proof.
  induction l as [|o r IH]; intros w i Hw Hk H o' Hin; [destruct Hin|].
  cbn [push_check_from] in H. apply app_eq_nil in H. destruct H as [H1 H2].
  destruct (pobs_ok w o) eqn:E; [|discriminate].
  apply pobs_ok_spec in E. destruct E as [_ Ew].
  assert (Hw' : 1 <= po_w o <= 1000).
  { rewrite Ew. unfold ev_of. apply window_step_inv; [exact Hw|apply Hk; left; reflexivity]. }
  destruct Hin as [<-|Hin]; [exact Hw'|].
  eapply IH; [exact Hw'| |exact H2|exact Hin]. intros x Hx. apply Hk. right; exact Hx.
Qed.

Theorem push_check_sound : forall l,
  (forall o, In o l -> 0 <= po_k o) -> push_check l = [] ->
  (forall o, In o l -> 1 <= po_w o <= 1000 /\
                       (po_ack o = true <-> po_err o = false /\ success_status (po_status o) = true)).
Proof.
  intros l Hk H o Hin. split.
  - eapply (push_check_window_inv l window_init O); eauto. unfold window_init; lia.
  - destruct (push_check_run l window_init O H) as [_ Ha]. rewrite (Ha o Hin). apply classify_acked_iff.
Qed.
