(* NotifyProofs.v -- C10: no lost wake-up. *)
From MB Require Import Base Notify.
Open Scope list_scope.

Definition reachable (y : sys) : Prop := exists ls, y = yrun ls.

(* ================= helper lemmas ================= *)

(* ---- boolean predicates as list membership ---- *)
Lemma is_closed_iff r c : is_closed r c = true <-> In c (r_closed r).
Proof.
  unfold is_closed. rewrite existsb_exists. split.
  - intros [x [Hin Heq]]. apply Nat.eqb_eq in Heq. subst. exact Hin.
  - intros H. exists c. split; [exact H | apply Nat.eqb_refl].
Qed.

Lemma is_registered_iff r s c : is_registered r s c = true <-> In (s, c) (r_waiters r).
Proof.
  unfold is_registered. rewrite existsb_exists. split.
  - intros [[s' c'] [Hin Heq]]. simpl in Heq. apply andb_true_iff in Heq.
    destruct Heq as [H1 H2]. apply N.eqb_eq in H1. apply Nat.eqb_eq in H2. subst. exact Hin.
  - intros H. exists (s, c). split; [exact H|]. simpl.
    rewrite N.eqb_refl, Nat.eqb_refl. reflexivity.
Qed.

Lemma deliverable_iff y s : deliverable y s = true <-> In s (y_db y).
Proof.
  unfold deliverable. rewrite existsb_exists. split.
  - intros [x [Hin Heq]]. apply N.eqb_eq in Heq. subst. exact Hin.
  - intros H. exists s. split; [exact H | apply N.eqb_refl].
Qed.

Lemma wake_pending_iff y s :
  wake_pending y s = true <->
  exists j ss, nth_error (y_writers y) j = Some (PCommitted ss) /\ In s ss.
Proof.
  unfold wake_pending. rewrite existsb_exists. split.
  - intros [p [Hin Hp]]. destruct p as [l | l |]; try discriminate.
    apply In_nth_error in Hin. destruct Hin as [j Hj]. exists j, l. split; [exact Hj|].
    apply existsb_exists in Hp. destruct Hp as [x [Hx Heq]].
    apply N.eqb_eq in Heq. subst. exact Hx.
  - intros [j [ss [Hj Hin]]]. exists (PCommitted ss).
    split; [eapply nth_error_In; exact Hj|].
    apply existsb_exists. exists s. split; [exact Hin | apply N.eqb_refl].
Qed.

(* ---- upd / nth_error ---- *)
Lemma upd_length A i (x : A) l : length (upd i x l) = length l.
Proof.
  revert i. induction l as [|a l IH]; intros [|i]; simpl; try reflexivity.
  rewrite IH. reflexivity.
Qed.

Lemma nth_upd_eq A i (x : A) l : i < length l -> nth_error (upd i x l) i = Some x.
Proof.
  revert i. induction l as [|a l IH]; intros [|i] Hlt; simpl in *; try lia.
  - reflexivity.
  - apply IH. lia.
Qed.

Lemma nth_upd_neq A i k (x : A) l : k <> i -> nth_error (upd i x l) k = nth_error l k.
Proof.
  revert i k. induction l as [|a l IH]; intros [|i] [|k] Hne; simpl; try reflexivity;
    try congruence.
  apply IH. congruence.
Qed.

Lemma nth_upd_inv A i k (x z : A) l :
  nth_error (upd i x l) k = Some z ->
  (k = i /\ z = x) \/ (k <> i /\ nth_error l k = Some z).
Proof.
  intros H. destruct (Nat.eq_dec k i) as [->|Hne].
  - left. split; [reflexivity|].
    assert (Hlt : i < length l).
    { rewrite <- (upd_length A i x l). apply nth_error_Some. congruence. }
    rewrite nth_upd_eq in H by exact Hlt. congruence.
  - right. rewrite nth_upd_neq in H by exact Hne. split; assumption.
Qed.

Lemma nth_app_single_inv A (l : list A) x k z :
  nth_error (l ++ [x]) k = Some z -> nth_error l k = Some z \/ z = x.
Proof.
  intros H. destruct (lt_dec k (length l)) as [Hlt|Hge].
  - left. rewrite nth_error_app1 in H by exact Hlt. exact H.
  - right. rewrite nth_error_app2 in H by lia.
    destruct (k - length l) as [|[|n]]; simpl in H; congruence.
Qed.

Lemma nth_some_lt A (l : list A) k z : nth_error l k = Some z -> k < length l.
Proof. intros H. apply nth_error_Some. congruence. Qed.

(* ---- the registry: register / cancel ---- *)
Lemma cancel_registered_other r s c s' c' :
  c' <> c -> is_registered r s' c' = true -> is_registered (cancel r s c) s' c' = true.
Proof.
  rewrite !is_registered_iff. unfold cancel; simpl. intros Hne Hin.
  apply filter_In. split; [exact Hin|]. simpl.
  apply negb_true_iff. apply andb_false_iff. right. apply Nat.eqb_neq. exact Hne.
Qed.

(* ---- the registry: wake1 ---- *)
Lemma wake1_closed r s c :
  is_closed (wake1 r s) c = true <-> is_registered r s c = true \/ is_closed r c = true.
Proof.
  rewrite !is_closed_iff, is_registered_iff. unfold wake1; simpl.
  rewrite in_app_iff, in_map_iff. split.
  - intros [[[s' c'] [Heq Hin]] | H]; [left | right; exact H].
    simpl in Heq. subst c'. apply filter_In in Hin. destruct Hin as [Hin Hs].
    simpl in Hs. apply N.eqb_eq in Hs. subst. exact Hin.
  - intros [H | H]; [left | right; exact H]. exists (s, c). split; [reflexivity|].
    apply filter_In. split; [exact H|]. simpl. apply N.eqb_refl.
Qed.

Lemma wake1_registered r s s' c :
  is_registered (wake1 r s) s' c = true <-> s' <> s /\ is_registered r s' c = true.
Proof.
  rewrite !is_registered_iff. unfold wake1; simpl. rewrite filter_In. simpl.
  rewrite negb_true_iff, N.eqb_neq. tauto.
Qed.

Lemma wake1_next r s : r_next (wake1 r s) = r_next r.
Proof. reflexivity. Qed.

(* ---- the registry: wake ---- *)
Lemma wake_cons r s ss : wake r (s :: ss) = wake (wake1 r s) ss.
Proof. reflexivity. Qed.

Lemma wake_closed_iff r ss c :
  is_closed (wake r ss) c = true <->
  is_closed r c = true \/ exists s, In s ss /\ is_registered r s c = true.
Proof.
  revert r. induction ss as [|s0 ss IH]; intros r.
  - unfold wake; simpl. split; [intros H; left; exact H|].
    intros [H | [s [[] _]]]. exact H.
  - rewrite wake_cons, IH, wake1_closed. split.
    + intros [[Hr | Hc] | [s [Hin Hr]]].
      * right. exists s0. split; [left; reflexivity | exact Hr].
      * left. exact Hc.
      * apply wake1_registered in Hr. destruct Hr as [_ Hr].
        right. exists s. split; [right; exact Hin | exact Hr].
    + intros [Hc | [s [Hin Hr]]].
      * left. right. exact Hc.
      * destruct (N.eq_dec s s0) as [->|Hne].
        -- left. left. exact Hr.
        -- destruct Hin as [Heq | Hin]; [congruence|].
           right. exists s. split; [exact Hin|]. apply wake1_registered. split; assumption.
Qed.

Lemma wake_registered_iff r ss s c :
  is_registered (wake r ss) s c = true <-> ~ In s ss /\ is_registered r s c = true.
Proof.
  revert r. induction ss as [|s0 ss IH]; intros r.
  - unfold wake; simpl. tauto.
  - rewrite wake_cons, IH, wake1_registered. simpl. split.
    + intros [Hn [Hne Hr]]. split; [|exact Hr]. intros [Heq | Hin]; [congruence | tauto].
    + intros [Hn Hr]. repeat split.
      * intros Hin. apply Hn. right. exact Hin.
      * intros Heq. apply Hn. left. congruence.
      * exact Hr.
Qed.

Lemma wake_next r ss : r_next (wake r ss) = r_next r.
Proof.
  revert r. induction ss as [|s0 ss IH]; intros r; [reflexivity|].
  rewrite wake_cons, IH. apply wake1_next.
Qed.

(* ================= the data structure ================= *)
(* waking a list of subscriptions closes every channel registered for any of them, and
   no other registered channel; nothing stays registered for them *)
Theorem wake_closes_all r ss s c :
  In s ss -> is_registered r s c = true -> is_closed (wake r ss) c = true.
Proof.
  intros Hin Hr. apply wake_closed_iff. right. exists s. split; assumption.
Qed.

Theorem wake_closes_only r ss c :
  is_closed (wake r ss) c = true ->
  is_closed r c = true \/ exists s, In s ss /\ is_registered r s c = true.
Proof. intros H. apply wake_closed_iff. exact H. Qed.

Theorem wake_unregisters r ss s c : In s ss -> is_registered (wake r ss) s c = false.
Proof.
  intros Hin. destruct (is_registered (wake r ss) s c) eqn:E; [|reflexivity].
  apply wake_registered_iff in E. tauto.
Qed.

Theorem wake_keeps_others r ss s c :
  ~ In s ss -> is_registered (wake r ss) s c = is_registered r s c.
Proof.
  intros Hn. destruct (is_registered r s c) eqn:E.
  - apply wake_registered_iff. split; assumption.
  - destruct (is_registered (wake r ss) s c) eqn:E'; [|reflexivity].
    apply wake_registered_iff in E'. destruct E' as [_ E']. congruence.
Qed.

(* closing is permanent; cancel never closes *)
Theorem closed_monotone y l c : is_closed (y_reg y) c = true -> is_closed (y_reg (ystep y l)) c = true.
Proof.
  intros H. destruct l as [s0 | ss | i | i | j | s0]; unfold ystep; try exact H.
  - destruct (nth_error (y_waiters y) i) as [[s st]|]; [|exact H].
    destruct st as [| c0 | c0 |]; try exact H.
    + destruct (deliverable y s); exact H.
    + destruct (is_closed (y_reg y) c0); exact H.
  - destruct (nth_error (y_waiters y) i) as [[s st]|]; [|exact H].
    destruct st as [| c0 | c0 |]; exact H.
  - destruct (nth_error (y_writers y) j) as [[ss | ss |]|]; try exact H.
    simpl. apply wake_closed_iff. left. exact H.
Qed.

(* F4: the code before the fix did not have the first property *)
Theorem wake_buggy_refuted :
  exists r ss s c, In s ss /\ is_registered r s c = true /\ is_closed (wake_buggy r ss) c = false.
Proof.
  exists (mkReg [(2%N, O)] [] 1), [1%N; 2%N], 2%N, O.
  split; [right; left; reflexivity|]. split; vm_compute; reflexivity.
Qed.

(* ================= the protocol ================= *)
(* The invariant: a blocked waiter whose subscription has a deliverable message either
   has its channel closed already (it will run) or a wake for its subscription is pending
   (a committed writer whose on-commit hook has not run yet): it is never left asleep with
   work available -- wherever the commit landed relative to its register / query / block
   steps, for any number of waiters and writers and any interleaving. *)
Definition no_lost_wakeup (y : sys) : Prop :=
  forall i s c, nth_error (y_waiters y) i = Some (s, WBlocked c) ->
    deliverable y s = true ->
    is_closed (y_reg y) c = true \/ wake_pending y s = true.

(* ---- auxiliary invariant: channel ownership ---- *)
Definition chan_of (st : wstate) : option chan :=
  match st with
  | WRegistered c => Some c
  | WBlocked c => Some c
  | _ => None
  end.

Record inv1 (y : sys) : Prop := mkInv1 {
  (* (A) a channel held by a waiter is still registered for its subscription, or closed *)
  inv_A : forall i s st c, nth_error (y_waiters y) i = Some (s, st) -> chan_of st = Some c ->
            is_registered (y_reg y) s c = true \/ is_closed (y_reg y) c = true;
  (* (B1) held channels were allocated *)
  inv_B1 : forall i s st c, nth_error (y_waiters y) i = Some (s, st) -> chan_of st = Some c ->
            c < r_next (y_reg y);
  (* (B2) distinct waiters hold distinct channels *)
  inv_B2 : forall i i' s s' st st' c,
            nth_error (y_waiters y) i = Some (s, st) ->
            nth_error (y_waiters y) i' = Some (s', st') ->
            chan_of st = Some c -> chan_of st' = Some c -> i = i' }.

Lemma inv1_sys0 : inv1 sys0.
Proof.
  constructor; simpl.
  - intros [|i] s st c H; discriminate.
  - intros [|i] s st c H; discriminate.
  - intros [|i] i' s s' st st' c H; discriminate.
Qed.

Lemma inv1_same y db' wr' : inv1 y -> inv1 (mkSys (y_reg y) db' (y_waiters y) wr').
Proof. intros [HA HB1 HB2]. constructor; simpl; assumption. Qed.

Lemma inv1_new_waiter y db' wr' s0 :
  inv1 y -> inv1 (mkSys (y_reg y) db' (y_waiters y ++ [(s0, WStart)]) wr').
Proof.
  intros [HA HB1 HB2]. constructor; simpl.
  - intros k s st c Hk Hc. apply nth_app_single_inv in Hk. destruct Hk as [Hk | Heq].
    + eapply HA; eassumption.
    + inversion Heq; subst. discriminate.
  - intros k s st c Hk Hc. apply nth_app_single_inv in Hk. destruct Hk as [Hk | Heq].
    + eapply HB1; eassumption.
    + inversion Heq; subst. discriminate.
  - intros k k' s s' st st' c Hk Hk' Hc Hc'.
    apply nth_app_single_inv in Hk. destruct Hk as [Hk | Heq];
      [|inversion Heq; subst; discriminate].
    apply nth_app_single_inv in Hk'. destruct Hk' as [Hk' | Heq];
      [|inversion Heq; subst; discriminate].
    eapply HB2; eassumption.
Qed.

Lemma inv1_release y db' wr' i s st st' c :
  inv1 y -> nth_error (y_waiters y) i = Some (s, st) -> chan_of st = Some c ->
  chan_of st' = None ->
  inv1 (mkSys (cancel (y_reg y) s c) db' (upd i (s, st') (y_waiters y)) wr').
Proof.
  intros [HA HB1 HB2] Hi Hc Hc'. constructor; simpl.
  - intros k s1 st1 c1 Hk Hc1. apply nth_upd_inv in Hk.
    destruct Hk as [[-> Heq] | [Hne Hk]].
    + inversion Heq; subst. congruence.
    + destruct (HA k s1 st1 c1 Hk Hc1) as [Hr | Hcl]; [left | right; exact Hcl].
      apply cancel_registered_other; [|exact Hr]. intros ->. apply Hne.
      eapply HB2; eassumption.
  - intros k s1 st1 c1 Hk Hc1. apply nth_upd_inv in Hk.
    destruct Hk as [[-> Heq] | [Hne Hk]].
    + inversion Heq; subst. congruence.
    + eapply HB1; eassumption.
  - intros k k' s1 s2 st1 st2 c1 Hk Hk' Hc1 Hc2.
    apply nth_upd_inv in Hk. destruct Hk as [[-> Heq] | [Hne Hk]];
      [inversion Heq; subst; congruence|].
    apply nth_upd_inv in Hk'. destruct Hk' as [[-> Heq] | [Hne' Hk']];
      [inversion Heq; subst; congruence|].
    eapply HB2; eassumption.
Qed.

Lemma inv1_same_chan y db' wr' i s st st' :
  inv1 y -> nth_error (y_waiters y) i = Some (s, st) -> chan_of st' = chan_of st ->
  inv1 (mkSys (y_reg y) db' (upd i (s, st') (y_waiters y)) wr').
Proof.
  intros [HA HB1 HB2] Hi Hc. constructor; simpl.
  - intros k s1 st1 c1 Hk Hc1. apply nth_upd_inv in Hk.
    destruct Hk as [[-> Heq] | [Hne Hk]].
    + inversion Heq; subst. eapply HA; [exact Hi | congruence].
    + eapply HA; eassumption.
  - intros k s1 st1 c1 Hk Hc1. apply nth_upd_inv in Hk.
    destruct Hk as [[-> Heq] | [Hne Hk]].
    + inversion Heq; subst. eapply HB1; [exact Hi | congruence].
    + eapply HB1; eassumption.
  - intros k k' s1 s2 st1 st2 c1 Hk Hk' Hc1 Hc2.
    apply nth_upd_inv in Hk. apply nth_upd_inv in Hk'.
    destruct Hk as [[-> Heq] | [Hne Hk]]; destruct Hk' as [[-> Heq'] | [Hne' Hk']].
    + reflexivity.
    + inversion Heq; subst.
      apply (HB2 i k' s s2 st st2 c1 Hi Hk'); [congruence | exact Hc2].
    + inversion Heq'; subst.
      apply (HB2 k i s1 s st1 st c1 Hk Hi); [exact Hc1 | congruence].
    + eapply HB2; eassumption.
Qed.

Lemma inv1_register y db' wr' i s st :
  inv1 y -> nth_error (y_waiters y) i = Some (s, st) ->
  inv1 (mkSys (fst (register (y_reg y) s)) db'
              (upd i (s, WRegistered (r_next (y_reg y))) (y_waiters y)) wr').
Proof.
  intros [HA HB1 HB2] Hi. constructor; simpl.
  - intros k s1 st1 c1 Hk Hc1. apply nth_upd_inv in Hk.
    destruct Hk as [[-> Heq] | [Hne Hk]].
    + inversion Heq; subst. simpl in Hc1. inversion Hc1; subst.
      left. apply is_registered_iff. simpl. left. reflexivity.
    + destruct (HA k s1 st1 c1 Hk Hc1) as [Hr | Hcl]; [left | right; exact Hcl].
      apply is_registered_iff. simpl. right. apply is_registered_iff. exact Hr.
  - intros k s1 st1 c1 Hk Hc1. apply nth_upd_inv in Hk.
    destruct Hk as [[-> Heq] | [Hne Hk]].
    + inversion Heq; subst. simpl in Hc1. inversion Hc1; subst. lia.
    + specialize (HB1 k s1 st1 c1 Hk Hc1). lia.
  - intros k k' s1 s2 st1 st2 c1 Hk Hk' Hc1 Hc2.
    apply nth_upd_inv in Hk. apply nth_upd_inv in Hk'.
    destruct Hk as [[-> Heq] | [Hne Hk]]; destruct Hk' as [[-> Heq'] | [Hne' Hk']].
    + reflexivity.
    + inversion Heq; subst. simpl in Hc1. inversion Hc1; subst.
      specialize (HB1 k' s2 st2 _ Hk' Hc2). lia.
    + inversion Heq'; subst. simpl in Hc2. inversion Hc2; subst.
      specialize (HB1 k s1 st1 _ Hk Hc1). lia.
    + eapply HB2; eassumption.
Qed.

Lemma inv1_wake y db' wr' ss :
  inv1 y -> inv1 (mkSys (wake (y_reg y) ss) db' (y_waiters y) wr').
Proof.
  intros [HA HB1 HB2]. constructor; simpl.
  - intros k s st c Hk Hc. destruct (HA k s st c Hk Hc) as [Hr | Hcl].
    + destruct (in_dec N.eq_dec s ss) as [Hin | Hn].
      * right. apply wake_closed_iff. right. exists s. split; assumption.
      * left. apply wake_registered_iff. split; assumption.
    + right. apply wake_closed_iff. left. exact Hcl.
  - intros k s st c Hk Hc. rewrite wake_next. eapply HB1; eassumption.
  - exact HB2.
Qed.

Lemma inv1_step y l : inv1 y -> inv1 (ystep y l).
Proof.
  intros H. destruct l as [s0 | ss | i | i | j | s0]; unfold ystep.
  - apply inv1_new_waiter. exact H.
  - apply inv1_same. exact H.
  - destruct (nth_error (y_waiters y) i) as [[s st]|] eqn:Ei; [|exact H].
    destruct st as [| c0 | c0 |]; try exact H.
    + exact (inv1_register y (y_db y) (y_writers y) i s WStart H Ei).
    + destruct (deliverable y s).
      * eapply inv1_release; [exact H | exact Ei | reflexivity | reflexivity].
      * eapply inv1_same_chan; [exact H | exact Ei | reflexivity].
    + destruct (is_closed (y_reg y) c0); [|exact H].
      eapply inv1_release; [exact H | exact Ei | reflexivity | reflexivity].
  - destruct (nth_error (y_waiters y) i) as [[s st]|] eqn:Ei; [|exact H].
    destruct st as [| c0 | c0 |]; try exact H.
    eapply inv1_release; [exact H | exact Ei | reflexivity | reflexivity].
  - destruct (nth_error (y_writers y) j) as [[ss | ss |]|]; try exact H.
    + apply inv1_same. exact H.
    + apply inv1_wake. exact H.
  - apply inv1_same. exact H.
Qed.

(* ---- the target property is inductive relative to inv1 ---- *)

(* a step that rewrites waiter [i] to a non-blocked state, does not close or re-open
   channels, and leaves db and writers alone *)
Lemma nlw_upd_unblocked y r' i s st' :
  no_lost_wakeup y -> (forall c, st' <> WBlocked c) ->
  (forall c, is_closed r' c = is_closed (y_reg y) c) ->
  no_lost_wakeup (mkSys r' (y_db y) (upd i (s, st') (y_waiters y)) (y_writers y)).
Proof.
  intros HC Hst Hcl k s1 c1 Hk Hd. simpl in Hk. apply nth_upd_inv in Hk.
  destruct Hk as [[-> Heq] | [Hne Hk]].
  - inversion Heq; subst. exfalso. eapply Hst. reflexivity.
  - simpl. rewrite Hcl. exact (HC k s1 c1 Hk Hd).
Qed.

Lemma nlw_step y l : inv1 y -> no_lost_wakeup y -> no_lost_wakeup (ystep y l).
Proof.
  intros HI HC. destruct l as [s0 | ss | i | i | j | s0]; unfold ystep.
  - (* LNewWaiter *)
    intros k s c Hk Hd. simpl in Hk. apply nth_app_single_inv in Hk.
    destruct Hk as [Hk | Heq]; [|discriminate]. exact (HC k s c Hk Hd).
  - (* LNewWriter *)
    intros k s c Hk Hd. destruct (HC k s c Hk Hd) as [H | H]; [left; exact H | right].
    apply wake_pending_iff in H. apply wake_pending_iff. simpl.
    destruct H as [j [l [Hj Hin]]]. exists j, l. split; [|exact Hin].
    rewrite nth_error_app1; [exact Hj|]. eapply nth_some_lt; exact Hj.
  - (* LWaiter *)
    destruct (nth_error (y_waiters y) i) as [[s st]|] eqn:Ei; [|exact HC].
    destruct st as [| c0 | c0 |]; try exact HC.
    + apply (nlw_upd_unblocked y (fst (register (y_reg y) s)) i s
               (WRegistered (r_next (y_reg y))) HC); [discriminate | reflexivity].
    + destruct (deliverable y s) eqn:Hdel.
      * apply nlw_upd_unblocked; [exact HC | discriminate | reflexivity].
      * intros k s1 c1 Hk Hd. simpl in Hk. apply nth_upd_inv in Hk.
        destruct Hk as [[-> Heq] | [Hne Hk]].
        -- inversion Heq; subst. change (deliverable y s = true) in Hd. congruence.
        -- exact (HC k s1 c1 Hk Hd).
    + destruct (is_closed (y_reg y) c0); [|exact HC].
      apply nlw_upd_unblocked; [exact HC | discriminate | reflexivity].
  - (* LSpurious *)
    destruct (nth_error (y_waiters y) i) as [[s st]|] eqn:Ei; [|exact HC].
    destruct st as [| c0 | c0 |]; try exact HC.
    apply nlw_upd_unblocked; [exact HC | discriminate | reflexivity].
  - (* LWriter *)
    destruct (nth_error (y_writers y) j) as [[ss | ss |]|] eqn:Ej; try exact HC.
    + (* commit *)
      intros k s c Hk Hd. simpl in Hk. apply deliverable_iff in Hd. simpl in Hd.
      apply in_app_iff in Hd. destruct Hd as [Hin | Hin].
      * right. apply wake_pending_iff. exists j, ss. simpl.
        split; [|exact Hin]. apply nth_upd_eq. eapply nth_some_lt; exact Ej.
      * assert (Hd : deliverable y s = true) by (apply deliverable_iff; exact Hin).
        destruct (HC k s c Hk Hd) as [H | H]; [left; exact H | right].
        apply wake_pending_iff in H. destruct H as [j' [l [Hj' Hl]]].
        apply wake_pending_iff. exists j', l. simpl. split; [|exact Hl].
        rewrite nth_upd_neq; [exact Hj'|]. intros ->. congruence.
    + (* on-commit hook: wake *)
      intros k s c Hk Hd. simpl in Hk.
      change (deliverable y s = true) in Hd.
      destruct (HC k s c Hk Hd) as [H | H].
      * left. simpl. apply wake_closed_iff. left. exact H.
      * apply wake_pending_iff in H. destruct H as [j' [l [Hj' Hl]]].
        destruct (Nat.eq_dec j' j) as [->|Hne].
        -- rewrite Ej in Hj'. inversion Hj'; subst l. left. simpl. apply wake_closed_iff.
           destruct (inv_A y HI k s (WBlocked c) c Hk eq_refl) as [Hr | Hcl].
           ++ right. exists s. split; assumption.
           ++ left. exact Hcl.
        -- right. apply wake_pending_iff. exists j', l. simpl. split; [|exact Hl].
           rewrite nth_upd_neq by exact Hne. exact Hj'.
  - (* LConsume *)
    intros k s c Hk Hd. simpl in Hk. apply (HC k s c Hk).
    apply deliverable_iff in Hd. simpl in Hd. apply filter_In in Hd.
    apply deliverable_iff. tauto.
Qed.

Lemma reach_inv ls : inv1 (yrun ls) /\ no_lost_wakeup (yrun ls).
Proof.
  induction ls as [|l ls IH] using rev_ind.
  - split; [exact inv1_sys0|]. intros [|i] s c H; discriminate.
  - unfold yrun in *. rewrite fold_left_app. simpl. destruct IH as [H1 H2].
    split; [apply inv1_step; exact H1 | apply nlw_step; assumption].
Qed.

Lemma reachable_inv1 y : reachable y -> inv1 y.
Proof. intros [ls ->]. apply reach_inv. Qed.

Theorem C10_no_lost_wakeup y : reachable y -> no_lost_wakeup y.
Proof. intros [ls ->]. apply reach_inv. Qed.

(* progress: once no wake is pending any more (every committed writer has run its hook),
   every blocked waiter with a deliverable message can take a step that leaves the
   blocked state, and it then re-registers BEFORE it queries again *)
Theorem C10_blocked_can_run y i s c :
  reachable y -> nth_error (y_waiters y) i = Some (s, WBlocked c) -> deliverable y s = true ->
  wake_pending y s = false ->
  nth_error (y_waiters (ystep y (LWaiter i))) i = Some (s, WStart).
Proof.
  intros Hr Hi Hd Hp. destruct (C10_no_lost_wakeup y Hr i s c Hi Hd) as [Hc | Hw];
    [|congruence].
  unfold ystep. rewrite Hi, Hc. simpl. apply nth_upd_eq. eapply nth_some_lt; exact Hi.
Qed.

(* one request affecting several subscriptions wakes the waiters of all of them *)
Theorem C10_all_affected_woken y j ss i s c :
  reachable y -> nth_error (y_writers y) j = Some (PCommitted ss) -> In s ss ->
  nth_error (y_waiters y) i = Some (s, WBlocked c) ->
  is_closed (y_reg (ystep y (LWriter j))) c = true.
Proof.
  intros Hr Hj Hin Hi. unfold ystep. rewrite Hj. simpl. apply wake_closed_iff.
  destruct (inv_A y (reachable_inv1 y Hr) i s (WBlocked c) c Hi eq_refl) as [Hreg | Hcl].
  - right. exists s. split; assumption.
  - left. exact Hcl.
Qed.

(* F4 on the protocol level: with the pre-fix wake the invariant is violated by a
   concrete schedule (two subscriptions, the first without waiter) *)
Definition yrun_buggy (ls : list lbl) : sys := fold_left ystep_buggy ls sys0.
Theorem C10_buggy_refuted :
  exists ls, ~ no_lost_wakeup (yrun_buggy ls) /\
             (forall s, wake_pending (yrun_buggy ls) s = false).
Proof.
  exists [LNewWaiter 2%N; LNewWriter [1%N; 2%N]; LWaiter 0; LWaiter 0; LWriter 0; LWriter 0].
  split.
  - intros H. specialize (H O 2%N O). vm_compute in H.
    destruct (H eq_refl eq_refl) as [E | E]; discriminate.
  - intros s. vm_compute. reflexivity.
Qed.

(* non-vacuity: the classic window (commit between query and block) on the fixed code *)
Example classic_window :
  let y := yrun [LNewWaiter 1%N; LNewWriter [1%N]; LWaiter 0; LWaiter 0; LWriter 0; LWriter 0] in
  nth_error (y_waiters y) 0 = Some (1%N, WBlocked 0%nat) /\ deliverable y 1%N = true /\
  is_closed (y_reg y) 0%nat = true.
Proof. vm_compute. repeat split; reflexivity. Qed.

Print Assumptions C10_no_lost_wakeup.
Print Assumptions C10_all_affected_woken.
Print Assumptions wake_closes_all.
Print Assumptions C10_buggy_refuted.
Print Assumptions C10_blocked_can_run.
Print Assumptions closed_monotone.
Print Assumptions wake_buggy_refuted.
