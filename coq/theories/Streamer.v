(* Streamer.v -- model of actions/message-streamer.go (MessageStreamer.Go): the flow
   control bookkeeping shared by the sender, the reader, the refresher and the client, as
   a labelled transition system whose steps are the code's atomic sections (everything done
   under [mu], one fetch transaction, one client message). No proofs here.

   pending  = the streamer's map of ack ids sent on this stream and not yet settled
   client   = the ack ids the client holds: sent and not yet acked / nacked / expired
   tok      = the buffered wake-up token (channel wakeSend, capacity 1)
   pc       = where the sender goroutine is *)
From MB Require Import Base.
Open Scope list_scope.
Open Scope Z_scope.

Definition mid := N.
Definition pend := list (mid * Z).          (* ack id, payload bytes *)

Record fcl := mkFc { fm : Z; fb : Z }.       (* max outstanding messages / bytes *)

(* services/grpc-subscriber.go effectiveFlowControl: a StreamingPull client may leave either
   limit unset (<= 0); it then takes the server's default, independently of the other *)
Definition effective_fc (max_messages max_bytes : Z) : fcl :=
  mkFc (if max_messages <=? 0 then 1000 else max_messages)
       (if max_bytes <=? 0 then 10 * 1024 * 1024 else max_bytes).

Definition ids (p : pend) : list mid := map fst p.
Definition used_msgs (p : pend) : Z := Z.of_nat (length p).
Definition used_bytes (p : pend) : Z := fold_right (fun x a => snd x + a) 0 p.
Definition has (i : mid) (p : pend) : bool := existsb (fun x => N.eqb (fst x) i) p.
Definition remove_ids (l : list mid) (p : pend) : pend :=
  filter (fun x => negb (existsb (N.eqb (fst x)) l)) p.
(* pending[id] = ... : an id that is already there is overwritten, not duplicated *)
Fixpoint add_all (r p : pend) : pend :=
  match r with
  | [] => p
  | x :: r' => if has (fst x) p then add_all r' p else add_all r' (p ++ [x])
  end.

(* ---- the byte budget of one fetch (GetSubscriptionMessages.applyResults, without
   dead-lettering): candidates in attempt order *)
Fixpoint select (cands : pend) (first strict : bool) (bytes maxb : Z) : pend :=
  match cands with
  | [] => []
  | x :: r =>
      if (strict || negb first) && (maxb <? bytes + snd x)
      then select r false strict bytes maxb
      else x :: select r false strict (bytes + snd x) maxb
  end.
(* ORDER BY attempt_at LIMIT min(n, 100), then the byte rule *)
Definition fetch (cands : pend) (n maxb : Z) (strict : bool) : pend :=
  select (firstn (Z.to_nat (Z.min n 100)) cands) true strict 0 maxb.

Inductive spc :=
| SCheck                                  (* about to compute the remaining budget *)
| SWait                                   (* blocked on wakeSend / the publish notifier *)
| SBackoff                                (* after an empty fetch: wakeSend / publish notifier / 1 s timer *)
| SFetch (m b : Z) (strict : bool).       (* inside GetSubscriptionMessages with this budget *)

Record sstate := mkS { fc : fcl; pending : pend; client : list mid; tok : bool; pc : spc }.

Definition mem (i : mid) (l : list mid) : bool := existsb (N.eqb i) l.
(* the messages the client holds, with their sizes *)
Definition client_view (s : sstate) : pend := filter (fun x => mem (fst x) (client s)) (pending s).

Definition init (f : fcl) : sstate := mkS f [] [] false SCheck.

Inductive label :=
| LCheck                       (* sender: lock, subtract every pending message from the limits *)
| LWakeTok                     (* sender: receives the token *)
| LWakePub                     (* sender: the publish notifier fired (any committed change) *)
| LTimer                       (* sender: the one-second timer after an empty fetch fired *)
| LFetch (cands : pend)        (* sender: the fetch transaction returned; results recorded and sent *)
| LClientSettle (l : list mid) (* client: acks / nacks these on the stream, or they were acknowledged
                                  outside the stream, or their retention ended *)
| LServerRemove (l : list mid) (* reader after its ack/nack transaction, or refresher after its query:
                                  only ids the client no longer holds; token *)
| LFc (f : fcl).               (* reader: the client changed its limits; token *)

Definition headroom (s : sstate) : bool :=
  (0 <? fm (fc s) - used_msgs (pending s)) && (0 <? fb (fc s) - used_bytes (pending s)).

Definition step (s : sstate) (l : label) : option sstate :=
  match l, pc s with
  | LCheck, SCheck =>
      let m := fm (fc s) - used_msgs (pending s) in
      let b := fb (fc s) - used_bytes (pending s) in
      Some (mkS (fc s) (pending s) (client s) (tok s)
                (if (0 <? b) && (0 <? m) then SFetch m b (match pending s with [] => false | _ => true end)
                 else SWait))
  | LWakeTok, SWait => if tok s then Some (mkS (fc s) (pending s) (client s) false SCheck) else None
  | LWakePub, SWait => Some (mkS (fc s) (pending s) (client s) (tok s) SCheck)
  | LWakeTok, SBackoff => if tok s then Some (mkS (fc s) (pending s) (client s) false SCheck) else None
  | LWakePub, SBackoff => Some (mkS (fc s) (pending s) (client s) (tok s) SCheck)
  | LTimer, SBackoff => Some (mkS (fc s) (pending s) (client s) (tok s) SCheck)
  | LFetch cands, SFetch m b strict =>
      let r := fetch cands m b strict in
      (* an empty result (nothing fitted the byte budget, or the fetch timed out) is not
         retried at once: the sender waits for the token, the notifier or a timer (fix of F15) *)
      Some (mkS (fc s) (add_all r (pending s)) (client s ++ ids r) (tok s)
                (match r with [] => SBackoff | _ => SCheck end))
  | LClientSettle l, _ =>
      Some (mkS (fc s) (pending s) (filter (fun i => negb (mem i l)) (client s)) (tok s) (pc s))
  | LServerRemove l, _ =>
      if forallb (fun i => negb (mem i (client s))) l
      then Some (mkS (fc s) (remove_ids l (pending s)) (client s) true (pc s)) else None
  | LFc f, _ => Some (mkS f (pending s) (client s) true (pc s))
  | _, _ => None
  end.

Fixpoint run (s : sstate) (ls : list label) : option sstate :=
  match ls with
  | [] => Some s
  | l :: r => match step s l with Some s' => run s' r | None => None end
  end.

(* the sender can take a step (it is not blocked) *)
Definition sender_enabled (s : sstate) : bool :=
  match pc s with
  | SCheck => true
  | SWait => tok s
  | SBackoff => true           (* the timer always fires *)
  | SFetch _ _ _ => true       (* the fetch itself waits for messages: that wait is property C10 *)
  end.

Example fetch_skips_what_does_not_fit :
  fetch [(1%N, 60); (2%N, 10); (3%N, 40)] 5 40 true = [(2%N, 10)].
Proof. vm_compute. reflexivity. Qed.
Example fetch_oversize_alone :
  fetch [(1%N, 600); (2%N, 10)] 5 100 false = [(1%N, 600)].
Proof. vm_compute. reflexivity. Qed.
(* head-of-line blocking under the LIMIT: with room for one more message and 40 bytes, a
   60-byte message at the head hides the 10-byte one behind it *)
Example fetch_head_of_line : fetch [(1%N, 60); (2%N, 10)] 1 40 true = [].
Proof. vm_compute. reflexivity. Qed.
