package main

// timers: the few behaviours that hinge on the implementation's own real-time timers and
// clock readings inside one long call, which the virtual clock (shifting stored timestamps)
// cannot reach: a pull that is already waiting when a deadline passes, and a job object
// that is built once and executed again later. Real time, sub-second backoffs, wide margins.

import (
	"context"
	"flag"
	"fmt"
	"os"
	"path/filepath"
	"sync"
	"time"

	"google.golang.org/grpc/codes"
	"google.golang.org/grpc/status"

	"go.6river.tech/mmmbbb/actions"
	"go.6river.tech/mmmbbb/ent"
	"go.6river.tech/mmmbbb/grpc/pubsubpb"
)

type timerProblem struct {
	Key    string `json:"key"`
	Detail string `json:"detail"`
}

type timerEnv struct {
	e     *Env
	topic string
	sub   string
}

func newTimerEnv(q *SubReq) (*timerEnv, error) {
	e, err := NewEnv(true)
	if err != nil {
		return nil, err
	}
	ctx := context.Background()
	t := &timerEnv{e: e, topic: "projects/p/topics/tm", sub: "projects/p/subscriptions/tm"}
	pre, _ := e.Dump(ctx)
	e.Exec(ctx, &Op{Kind: "CreateTopic", Name: t.topic}, pre)
	q.Name, q.Topic = t.sub, t.topic
	if o, err := e.Exec(ctx, &Op{Kind: "CreateSub", Sub: q}, pre); err != nil || o.Resp.Kind == "err" {
		e.Close()
		return nil, fmt.Errorf("create subscription: %v", err)
	}
	return t, nil
}

func (t *timerEnv) publish(payloads ...string) error {
	ctx := context.Background()
	for _, p := range payloads {
		d, _ := t.e.Dump(ctx)
		if o, err := t.e.Exec(ctx, &Op{Kind: "Publish", Name: t.topic, Msgs: []PubMsg{{Data: []byte(p)}}}, d); err != nil || o.Resp.Kind != "ids" {
			return fmt.Errorf("publish: %v", err)
		}
	}
	return nil
}

// a pull that waits on the server (return_immediately = false) for at most d
func (t *timerEnv) waitingPull(d time.Duration) ([]*pubsubpb.ReceivedMessage, time.Duration, error) {
	ctx, cancel := context.WithTimeout(context.Background(), d)
	defer cancel()
	start := time.Now()
	r, err := t.e.Sub.Pull(ctx, &pubsubpb.PullRequest{Subscription: t.sub, MaxMessages: 10})
	el := time.Since(start)
	if err != nil {
		if status.Code(err) == codes.DeadlineExceeded {
			return nil, el, nil
		}
		return nil, el, err
	}
	return r.ReceivedMessages, el, nil
}

func (t *timerEnv) pullNow() ([]*pubsubpb.ReceivedMessage, error) {
	r, err := t.e.Sub.Pull(context.Background(), &pubsubpb.PullRequest{Subscription: t.sub, MaxMessages: 10, ReturnImmediately: true})
	if err != nil {
		return nil, err
	}
	return r.ReceivedMessages, nil
}

// C04: a pull that is already waiting returns a message when its retry deadline passes, even
// if another outstanding message (whose deadline was pushed far out) expires or is due later
func timerLeaseWake(extendFirst bool) ([]timerProblem, error) {
	mn, mx := 300*time.Millisecond, 400*time.Millisecond
	t, err := newTimerEnv(&SubReq{Retry: &[2]*time.Duration{&mn, &mx}})
	if err != nil {
		return nil, err
	}
	defer t.e.Close()
	if err := t.publish(`{"m":"A"}`, `{"m":"B"}`); err != nil {
		return nil, err
	}
	ms, err := t.pullNow()
	if err != nil || len(ms) != 2 {
		return nil, fmt.Errorf("first pull: %v (%d messages)", err, len(ms))
	}
	// push one message's deadline far out; the other one is left to lapse (330 ms)
	far := ms[0]
	if !extendFirst {
		far = ms[1]
	}
	if _, err := t.e.Sub.ModifyAckDeadline(context.Background(), &pubsubpb.ModifyAckDeadlineRequest{Subscription: t.sub, AckIds: []string{far.AckId}, AckDeadlineSeconds: 600}); err != nil {
		return nil, err
	}
	got, el, err := t.waitingPull(2500 * time.Millisecond)
	if err != nil {
		return nil, err
	}
	var probs []timerProblem
	if len(got) == 0 {
		probs = append(probs, timerProblem{"lease-timer-missed", fmt.Sprintf("a pull that was already waiting did not return the message whose 330 ms retry deadline passed (another message's deadline had been extended to 600 s): nothing within %v", el.Round(time.Millisecond))})
	} else {
		if got[0].AckId == far.AckId {
			probs = append(probs, timerProblem{"lease-violated", "the message whose deadline was extended to 600 s was handed out again"})
		}
		if got[0].DeliveryAttempt != 2 {
			probs = append(probs, timerProblem{"attempt-number", fmt.Sprintf("redelivery reported attempt %d, expected 2", got[0].DeliveryAttempt)})
		}
		if el < 150*time.Millisecond {
			probs = append(probs, timerProblem{"lease-violated", fmt.Sprintf("redelivered %v after the first delivery, the backoff is 330 ms", el.Round(time.Millisecond))})
		}
	}
	return probs, nil
}

// C14: a pull that is waiting when a message's retention ends must not hand it out afterwards
func timerRetentionDuringWait() ([]timerProblem, error) {
	mn, mx := 2*time.Second, 3*time.Second
	ttl := 1500 * time.Millisecond
	t, err := newTimerEnv(&SubReq{Retry: &[2]*time.Duration{&mn, &mx}, MsgTTL: &ttl})
	if err != nil {
		return nil, err
	}
	defer t.e.Close()
	if err := t.publish(`{"m":"R"}`); err != nil {
		return nil, err
	}
	ms, err := t.pullNow()
	if err != nil || len(ms) != 1 {
		return nil, fmt.Errorf("first pull: %v (%d messages)", err, len(ms))
	}
	// lease 2.2 s, retention ends at 1.5 s: the waiting pull started now must come back empty
	got, el, err := t.waitingPull(3800 * time.Millisecond)
	if err != nil {
		return nil, err
	}
	if len(got) > 0 {
		return []timerProblem{{"delivered-after-retention", fmt.Sprintf("a pull that started waiting before the message's retention (1.5 s) ended handed it out %v after it started, i.e. after the retention had ended (the redelivery was due at 2.2 s)", el.Round(time.Millisecond))}}, nil
	}
	return nil, nil
}

// C14: with an injected delivery delay a waiting pull gets the message after the delay, not
// before, and without waiting much longer
func timerDelay() ([]timerProblem, error) {
	t, err := newTimerEnv(&SubReq{})
	if err != nil {
		return nil, err
	}
	defer t.e.Close()
	ctx := context.Background()
	d, _ := t.e.Dump(ctx)
	if o, err := t.e.Exec(ctx, &Op{Kind: "SetDelay", Name: t.sub, Delay: 800 * time.Millisecond}, d); err != nil || o.Resp.Kind == "err" {
		return nil, fmt.Errorf("set delay: %v", err)
	}
	start := time.Now()
	if err := t.publish(`{"m":"D"}`); err != nil {
		return nil, err
	}
	got, _, err := t.waitingPull(3 * time.Second)
	el := time.Since(start)
	if err != nil {
		return nil, err
	}
	var probs []timerProblem
	if len(got) == 0 {
		probs = append(probs, timerProblem{"delay-timer-missed", "with a delivery delay of 0.8 s a waiting pull did not get the message within 3 s"})
	} else if el < 700*time.Millisecond {
		probs = append(probs, timerProblem{"delivered-before-delay", fmt.Sprintf("delivered %v after publish, the injected delay is 0.8 s", el.Round(time.Millisecond))})
	}
	return probs, nil
}

// C15: the background services build each job object once and execute it on every tick: an
// object executed again later must use the age threshold of that later moment
func timerJobReuse() ([]timerProblem, error) {
	t, err := newTimerEnv(&SubReq{})
	if err != nil {
		return nil, err
	}
	defer t.e.Close()
	ctx := context.Background()
	p := actions.PruneCommonParams{MinAge: 300 * time.Millisecond, MaxDelete: 100}
	type job struct {
		name string
		a    actions.Action[actions.PruneCommonParams, actions.PruneCommonResults]
	}
	build := func() []job {
		return []job{
			{"prune-completed-deliveries", actions.NewPruneCompletedDeliveries(p)},
			{"prune-deleted-subscription-deliveries", actions.NewPruneDeletedSubscriptionDeliveries(p)},
			{"prune-completed-messages", actions.NewPruneCompletedMessages(p)},
			{"prune-deleted-subscriptions", actions.NewPruneDeletedSubscriptions(p)},
			{"prune-deleted-topics", actions.NewPruneDeletedTopics(p)},
		}
	}
	exec := func(js []job) (map[string]int, error) {
		n := map[string]int{}
		for round := 0; round < 2; round++ {
			for _, j := range js {
				err := t.e.Client.DoCtxTx(ctx, nil, func(ctx context.Context, tx *ent.Tx) error { return j.a.Execute(ctx, tx) })
				if err != nil {
					continue // the topic job may fail on a foreign key in the first round
				}
				if r, ok := j.a.Results(); ok {
					n[j.name] += r.NumDeleted
				}
			}
		}
		return n, nil
	}
	old := build()
	if _, err := exec(old); err != nil { // first execution: nothing to reclaim yet
		return nil, err
	}
	// things die after the job objects were built
	if err := t.publish(`{"m":1}`, `{"m":2}`); err != nil {
		return nil, err
	}
	ms, err := t.pullNow()
	if err != nil {
		return nil, err
	}
	var ids []string
	for _, m := range ms {
		ids = append(ids, m.AckId)
	}
	if _, err := t.e.Sub.Acknowledge(ctx, &pubsubpb.AcknowledgeRequest{Subscription: t.sub, AckIds: ids}); err != nil {
		return nil, err
	}
	d, _ := t.e.Dump(ctx)
	t.e.Exec(ctx, &Op{Kind: "DeleteSub", Name: t.sub}, d)
	t.e.Exec(ctx, &Op{Kind: "DeleteTopic", Name: t.topic}, d)
	time.Sleep(450 * time.Millisecond) // older than the age threshold of 300 ms now
	nOld, _ := exec(old)
	nFresh, _ := exec(build())
	var probs []timerProblem
	for name, n := range nFresh {
		if n > 0 {
			probs = append(probs, timerProblem{"reused-job-misses-rows", fmt.Sprintf("job object %s, built before the rows died and executed again 450 ms after (age threshold 300 ms), reclaimed %d rows; a freshly built object then reclaimed %d more", name, nOld[name], n)})
		}
	}
	fin, _ := t.e.Dump(ctx)
	if len(probs) == 0 && (len(fin.Dels) != 0 || len(fin.Msgs) != 0 || len(fin.Subs) != 0 || len(fin.Topics) != 0) {
		probs = append(probs, timerProblem{"reused-job-misses-rows", fmt.Sprintf("after two rounds of re-executed and of fresh job objects rows remain: %d deliveries, %d messages, %d subscriptions, %d topics", len(fin.Dels), len(fin.Msgs), len(fin.Subs), len(fin.Topics))})
	}
	return probs, nil
}

// C04: polling pulls in the last milliseconds before a retry deadline get nothing. The stored
// deadline (attempt_at, real time: no clock shift in this scenario) is read from the database;
// only probes that demonstrably RETURNED before it are counted, so a slow machine can only
// make the scenario void, never alarm.
func timerEarlyPoll() ([]timerProblem, error) {
	mn, mx := 400*time.Millisecond, 500*time.Millisecond
	t, err := newTimerEnv(&SubReq{Retry: &[2]*time.Duration{&mn, &mx}})
	if err != nil {
		return nil, err
	}
	defer t.e.Close()
	var probs []timerProblem
	for round := 0; round < 3 && len(probs) == 0; round++ {
		if err := t.publish(fmt.Sprintf(`{"m":%d}`, round)); err != nil {
			return nil, err
		}
		ms, err := t.pullNow()
		if err != nil {
			return nil, err
		}
		if len(ms) != 1 {
			return nil, fmt.Errorf("early-poll: the first pull returned %d messages", len(ms))
		}
		d, err := t.e.Dump(context.Background())
		if err != nil {
			return nil, err
		}
		var deadline time.Time
		for _, x := range d.Dels {
			if x.ID.String() == ms[0].AckId {
				deadline = t.e.ToReal(x.AttemptAt)
			}
		}
		if deadline.IsZero() {
			return nil, fmt.Errorf("early-poll: the leased delivery was not found")
		}
		// probe from 25 ms before the deadline on, back to back
		time.Sleep(time.Until(deadline.Add(-25 * time.Millisecond)))
		for time.Now().Before(deadline.Add(-500 * time.Microsecond)) {
			got, err := t.pullNow()
			done := time.Now()
			if err != nil {
				return nil, err
			}
			if len(got) > 0 && done.Before(deadline) {
				probs = append(probs, timerProblem{"lease-violated", fmt.Sprintf("a pull that returned %v BEFORE the stored retry deadline of attempt 1 (backoff 440 ms) was handed the message as attempt %d",
					deadline.Sub(done).Round(100*time.Microsecond), got[0].DeliveryAttempt)})
				break
			}
			if len(got) > 0 {
				break
			}
		}
		// settle: acknowledge whatever is outstanding
		time.Sleep(60 * time.Millisecond)
		if got, _ := t.pullNow(); len(got) > 0 {
			t.e.Sub.Acknowledge(context.Background(), &pubsubpb.AcknowledgeRequest{Subscription: t.sub, AckIds: []string{got[0].AckId}})
		} else {
			t.e.Sub.Acknowledge(context.Background(), &pubsubpb.AcknowledgeRequest{Subscription: t.sub, AckIds: []string{ms[0].AckId}})
		}
	}
	return probs, nil
}

// C02 / C06: a pull that is already waiting uses the subscription's CURRENT configuration when
// it wakes up: the dead-letter policy is removed while the pull waits for a lease to lapse;
// the message is then redelivered to the waiter, not forwarded to the former dead-letter topic
func timerPolicyRemovedDuringWait() ([]timerProblem, error) {
	mn, mx := 300*time.Millisecond, 400*time.Millisecond
	e, err := NewEnv(true)
	if err != nil {
		return nil, err
	}
	defer e.Close()
	ctx := context.Background()
	t := &timerEnv{e: e, topic: "projects/p/topics/tm", sub: "projects/p/subscriptions/tm"}
	dlt, dls := "projects/p/topics/tmdl", "projects/p/subscriptions/tmdl"
	pre, _ := e.Dump(ctx)
	for _, op := range []*Op{{Kind: "CreateTopic", Name: t.topic}, {Kind: "CreateTopic", Name: dlt},
		{Kind: "CreateSub", Sub: &SubReq{Name: t.sub, Topic: t.topic, Retry: &[2]*time.Duration{&mn, &mx}, DL: dl(dlt, 1)}},
		{Kind: "CreateSub", Sub: &SubReq{Name: dls, Topic: dlt}}} {
		if o, err := e.Exec(ctx, op, pre); err != nil || o.Resp.Kind == "err" {
			return nil, fmt.Errorf("%s: %v", op.Kind, err)
		}
	}
	if err := t.publish(`{"m":"A"}`); err != nil {
		return nil, err
	}
	ms, err := t.pullNow()
	if err != nil || len(ms) != 1 {
		return nil, fmt.Errorf("first pull: %v (%d messages)", err, len(ms))
	}
	type pr struct {
		ms []*pubsubpb.ReceivedMessage
		el time.Duration
		e  error
	}
	ch := make(chan pr, 1)
	go func() { m, el, e := t.waitingPull(2500 * time.Millisecond); ch <- pr{m, el, e} }()
	time.Sleep(80 * time.Millisecond) // the pull is waiting; the lease has ~250 ms to run
	d, _ := e.Dump(ctx)
	if o, err := e.Exec(ctx, &Op{Kind: "UpdateSub", Sub: &SubReq{Name: t.sub, Topic: t.topic}, Paths: []string{"dead_letter_policy"}}, d); err != nil || o.Resp.Kind == "err" {
		return nil, fmt.Errorf("UpdateSubscription: %v", err)
	}
	r := <-ch
	if r.e != nil {
		return nil, r.e
	}
	time.Sleep(50 * time.Millisecond)
	fin, _ := e.Dump(ctx)
	var probs []timerProblem
	ds := fin.subByName(dls)
	forwarded := 0
	for _, x := range fin.Dels {
		if ds != nil && x.Sub == ds.ID {
			forwarded++
		}
	}
	if forwarded > 0 {
		probs = append(probs, timerProblem{"stale-config-in-waiting-pull", fmt.Sprintf("the dead-letter policy was removed while a pull was waiting; when the lease lapsed the waiting pull still forwarded the message to the former dead-letter topic (%d deliveries there) instead of redelivering it", forwarded)})
	} else if len(r.ms) != 1 {
		probs = append(probs, timerProblem{"lease-timer-missed", fmt.Sprintf("the waiting pull returned %d messages after %v (the lease of 330 ms lapsed, no dead-letter policy any more)", len(r.ms), r.el.Round(time.Millisecond))})
	}
	return probs, nil
}

func cmdTimers(args []string) error {
	fs := flag.NewFlagSet("timers", flag.ExitOnError)
	out := fs.String("out", "", "")
	reps := fs.Int("reps", 1, "")
	fs.Parse(args)
	if *out == "" {
		return fmt.Errorf("-out required")
	}
	os.MkdirAll(*out, 0o755)
	type sc struct {
		name string
		fn   func() ([]timerProblem, error)
	}
	base := []sc{
		{"lease-wake/first-extended", func() ([]timerProblem, error) { return timerLeaseWake(true) }},
		{"lease-wake/second-extended", func() ([]timerProblem, error) { return timerLeaseWake(false) }},
		{"retention-during-wait", timerRetentionDuringWait},
		{"delivery-delay", timerDelay},
		{"job-object-reuse", timerJobReuse},
		{"early-poll", timerEarlyPoll},
		{"policy-removed-during-wait", timerPolicyRemovedDuringWait},
		{"lease-after-wait", timerLeaseAfterWait},
		{"wake-after-timer-round", timerWakeAfterTimerRound},
		{"config-updated-during-wait", timerConfigUpdatedDuringWait},
	}
	var scs []sc
	for i := 0; i < *reps; i++ {
		scs = append(scs, base...)
	}
	type res struct {
		Scenario string         `json:"scenario"`
		Problems []timerProblem `json:"problems"`
		WallMS   int64          `json:"wall_ms"`
	}
	results := make([]res, len(scs))
	errs := make([]error, len(scs))
	var wg sync.WaitGroup
	for i, s := range scs {
		wg.Add(1)
		go func(i int, s sc) {
			defer wg.Done()
			st := time.Now()
			p, err := s.fn()
			results[i] = res{s.name, p, time.Since(st).Milliseconds()}
			errs[i] = err
		}(i, s)
	}
	wg.Wait()
	for i, err := range errs {
		if err != nil {
			return fmt.Errorf("%s: %w", scs[i].name, err)
		}
	}
	return writeJSON(filepath.Join(*out, "timers.json"), map[string]interface{}{"results": results})
}

func init() { subcmds["timers"] = cmdTimers }
