package main

// A database/sql driver that wraps mattn/go-sqlite3 and shows every BEGIN / exec / query /
// COMMIT / ROLLBACK to a hook before it runs. The hook can fail the call (storage fault
// injection, C09) or block it (transaction-boundary scheduling, C04/C10/C11). The
// context handed to the hook is the one database/sql received, so the harness can tag
// actors through context values.

import (
	"context"
	"database/sql"
	"database/sql/driver"
	"errors"
	"sync"

	sqlite3 "github.com/mattn/go-sqlite3"
)

type CallKind string

const (
	KBegin    CallKind = "begin"
	KExec     CallKind = "exec"
	KQuery    CallKind = "query"
	KRowsDone CallKind = "rows-done" // the result set of a query has been read and closed (after only)
	KCommit   CallKind = "commit"
	KRollback CallKind = "rollback"
)

// DrvHook is consulted before (after=false) and after (after=true) each driver call.
// Returning an error before a call makes the call fail without being executed (for a
// commit the underlying transaction is rolled back).
type DrvHook func(ctx context.Context, kind CallKind, query string, after bool) error

var (
	hookMu   sync.RWMutex
	drvHook  DrvHook                // process-wide hook (single-Env commands)
	drvHooks = map[string]DrvHook{} // per-database hooks, keyed by DSN
)

func SetDrvHook(h DrvHook) {
	hookMu.Lock()
	drvHook = h
	hookMu.Unlock()
}

// SetDBHook installs a hook for one database only (parallel workers each own a database).
func SetDBHook(dsn string, h DrvHook) {
	hookMu.Lock()
	if h == nil {
		delete(drvHooks, dsn)
	} else {
		drvHooks[dsn] = h
	}
	hookMu.Unlock()
}

func callHookFor(dsn string, ctx context.Context, kind CallKind, q string, after bool) error {
	hookMu.RLock()
	h := drvHooks[dsn]
	g := drvHook
	hookMu.RUnlock()
	if h != nil {
		if err := h(ctx, kind, q, after); err != nil {
			return err
		}
	}
	if g != nil {
		return g(ctx, kind, q, after)
	}
	return nil
}

const WrappedDriverName = "verifsqlite3"

type wDriver struct{ inner *sqlite3.SQLiteDriver }

func init() {
	sql.Register(WrappedDriverName, &wDriver{inner: &sqlite3.SQLiteDriver{}})
}

func (d *wDriver) Open(name string) (driver.Conn, error) {
	c, err := d.inner.Open(name)
	if err != nil {
		return nil, err
	}
	return &wConn{inner: c.(*sqlite3.SQLiteConn), dsn: name}, nil
}

type wConn struct {
	inner *sqlite3.SQLiteConn
	dsn   string
}

var (
	_ driver.ConnBeginTx        = (*wConn)(nil)
	_ driver.ExecerContext      = (*wConn)(nil)
	_ driver.QueryerContext     = (*wConn)(nil)
	_ driver.ConnPrepareContext = (*wConn)(nil)
	_ driver.Pinger             = (*wConn)(nil)
)

func (c *wConn) Prepare(q string) (driver.Stmt, error) {
	return c.PrepareContext(context.Background(), q)
}
func (c *wConn) PrepareContext(ctx context.Context, q string) (driver.Stmt, error) {
	s, err := c.inner.PrepareContext(ctx, q)
	if err != nil {
		return nil, err
	}
	return &wStmt{inner: s.(*sqlite3.SQLiteStmt), q: q, dsn: c.dsn}, nil
}
func (c *wConn) Close() error { return c.inner.Close() }
func (c *wConn) Begin() (driver.Tx, error) {
	return c.BeginTx(context.Background(), driver.TxOptions{})
}
func (c *wConn) Ping(ctx context.Context) error { return c.inner.Ping(ctx) }
func (c *wConn) BeginTx(ctx context.Context, opts driver.TxOptions) (driver.Tx, error) {
	if err := callHookFor(c.dsn, ctx, KBegin, "", false); err != nil {
		return nil, err
	}
	tx, err := c.inner.BeginTx(ctx, opts)
	if err != nil {
		return nil, err
	}
	_ = callHookFor(c.dsn, ctx, KBegin, "", true)
	return &wTx{inner: tx, ctx: ctx, dsn: c.dsn}, nil
}
func (c *wConn) ExecContext(ctx context.Context, q string, args []driver.NamedValue) (driver.Result, error) {
	if err := callHookFor(c.dsn, ctx, KExec, q, false); err != nil {
		return nil, err
	}
	r, err := c.inner.ExecContext(ctx, q, args)
	if err == nil {
		_ = callHookFor(c.dsn, ctx, KExec, q, true)
	}
	return r, err
}
func (c *wConn) QueryContext(ctx context.Context, q string, args []driver.NamedValue) (driver.Rows, error) {
	if err := callHookFor(c.dsn, ctx, KQuery, q, false); err != nil {
		return nil, err
	}
	r, err := c.inner.QueryContext(ctx, q, args)
	if err == nil {
		_ = callHookFor(c.dsn, ctx, KQuery, q, true)
		r = wrapRows(c.dsn, ctx, q, r)
	}
	return r, err
}

// wRows reports the end of a result set (SQLite steps a query lazily: the rows are only
// read while the caller iterates, after QueryContext has returned). Only installed while a
// per-database hook is set.
type wRows struct {
	driver.Rows
	dsn string
	ctx context.Context
	q   string
}

func (r *wRows) Close() error {
	err := r.Rows.Close()
	_ = callHookFor(r.dsn, r.ctx, KRowsDone, r.q, true)
	return err
}

func wrapRows(dsn string, ctx context.Context, q string, r driver.Rows) driver.Rows {
	hookMu.RLock()
	h := drvHooks[dsn]
	hookMu.RUnlock()
	if h == nil || r == nil {
		return r
	}
	return &wRows{Rows: r, dsn: dsn, ctx: ctx, q: q}
}

type wStmt struct {
	inner *sqlite3.SQLiteStmt
	q     string
	dsn   string
}

func (s *wStmt) Close() error  { return s.inner.Close() }
func (s *wStmt) NumInput() int { return s.inner.NumInput() }
func (s *wStmt) Exec(args []driver.Value) (driver.Result, error) {
	return nil, errors.New("wStmt.Exec: use ExecContext")
}
func (s *wStmt) Query(args []driver.Value) (driver.Rows, error) {
	return nil, errors.New("wStmt.Query: use QueryContext")
}
func (s *wStmt) ExecContext(ctx context.Context, args []driver.NamedValue) (driver.Result, error) {
	if err := callHookFor(s.dsn, ctx, KExec, s.q, false); err != nil {
		return nil, err
	}
	r, err := s.inner.ExecContext(ctx, args)
	if err == nil {
		_ = callHookFor(s.dsn, ctx, KExec, s.q, true)
	}
	return r, err
}
func (s *wStmt) QueryContext(ctx context.Context, args []driver.NamedValue) (driver.Rows, error) {
	if err := callHookFor(s.dsn, ctx, KQuery, s.q, false); err != nil {
		return nil, err
	}
	r, err := s.inner.QueryContext(ctx, args)
	if err == nil {
		_ = callHookFor(s.dsn, ctx, KQuery, s.q, true)
		r = wrapRows(s.dsn, ctx, s.q, r)
	}
	return r, err
}

type wTx struct {
	inner driver.Tx
	ctx   context.Context
	dsn   string
}

func (t *wTx) Commit() error {
	if err := callHookFor(t.dsn, t.ctx, KCommit, "", false); err != nil {
		_ = t.inner.Rollback()
		return err
	}
	err := t.inner.Commit()
	if err == nil {
		_ = callHookFor(t.dsn, t.ctx, KCommit, "", true)
	}
	return err
}
func (t *wTx) Rollback() error {
	// (a hook error is reported AFTER the inner transaction was rolled back: the database is as
	// if the rollback had succeeded, the caller sees it fail)
	herr := callHookFor(t.dsn, t.ctx, KRollback, "", false)
	err := t.inner.Rollback()
	if herr != nil {
		return herr
	}
	return err
}
