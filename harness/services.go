package main

// services: the background services of /repo/services (reached through the verif hook
// services.VerifDefaultServices) run against the harness's database, one at a time:
//   - each prune / expire service and the dead-letter service is started on a prepared
//     state, left to do its first run (100 ms after start) and stopped; what it did is
//     logged as one Job step (age 1 h, batch 100: the services' defaults) and checked
//     against the model like every other step, plus the prune monitor (C15, C06, C14);
//   - the HTTP pusher service discovers a push subscription, pushes its backlog to a
//     scripted endpoint, stops when the push configuration is removed and resumes when it
//     is restored (C19).
// This ties the glue around the actions -- timer loop, transaction handling, default
// parameters, pusher discovery -- which no other part executes.

import (
	"context"
	"flag"
	"fmt"
	"os"
	"path/filepath"
	"strings"
	"sync"
	"time"

	"go.6river.tech/mmmbbb/services"
)

var serviceJobs = []struct{ svc, job string }{
	{"dead-letter", "DeadLetterSweep"},
	{"delete-expired-subscriptions", "ExpireSubs"},
	{"prune-expired-deliveries", "PruneExpiredDeliveries"},
	{"prune-completed-deliveries", "PruneCompletedDeliveries"},
	{"prune-deleted-subscription-deliveries", "PruneDeletedSubDeliveries"},
	{"prune-completed-messages", "PruneCompletedMessages"},
	{"prune-deleted-subscriptions", "PruneDeletedSubs"},
	{"prune-deleted-topics", "PruneDeletedTopics"},
}

func serviceByName(name string) services.Service {
	for _, s := range services.VerifDefaultServices() {
		if s.Name() == name {
			return s
		}
	}
	return nil
}

// runServiceOnce starts the service, lets its first run happen, and stops it
func runServiceOnce(e *Env, name string, wait time.Duration) error {
	svc := serviceByName(name)
	if svc == nil {
		return fmt.Errorf("no registered service named %q", name)
	}
	ctx, cancel := context.WithCancel(context.Background())
	defer cancel()
	if err := svc.Initialize(ctx, e.Client); err != nil {
		return err
	}
	ready := make(chan struct{})
	done := make(chan error, 1)
	go func() { done <- svc.Start(ctx, ready) }()
	select {
	case <-ready:
	case err := <-done:
		return fmt.Errorf("service %s ended at once: %v", name, err)
	case <-time.After(5 * time.Second):
		return fmt.Errorf("service %s did not become ready", name)
	}
	time.Sleep(wait)
	cancel()
	select {
	case <-done:
	case <-time.After(5 * time.Second):
		return fmt.Errorf("service %s did not stop", name)
	}
	return svc.Cleanup(context.Background())
}

func cmdServices(args []string) error {
	fs := flag.NewFlagSet("services", flag.ExitOnError)
	out := fs.String("out", "", "")
	fs.Parse(args)
	if *out == "" {
		return fmt.Errorf("-out required")
	}
	os.MkdirAll(*out, 0o755)
	ctx := context.Background()
	e, err := NewEnv(true)
	if err != nil {
		return err
	}
	defer e.Close()
	var hist []*Obs
	pre, err := e.Dump(ctx)
	if err != nil {
		return err
	}
	run := func(op *Op) (*Obs, error) {
		if err := e.guard(pre, []time.Duration{0}); err != nil {
			return nil, err
		}
		o, err := e.Exec(ctx, op, pre)
		if err != nil {
			return nil, err
		}
		if time.Duration(o.Hi-o.Lo) > guardSlow {
			o.Skip = "slow-call"
		}
		hist = append(hist, o)
		pre = o.Post
		return o, nil
	}
	adv := func(d time.Duration) error {
		if err := e.Advance(d); err != nil {
			return err
		}
		pre, err = e.Dump(ctx)
		return err
	}
	t0, t1, t2 := "projects/p/topics/t0", "projects/p/topics/t1", "projects/p/topics/t2"
	sec, tenMin, fortyFive := time.Second, 10*time.Minute, 45*time.Second
	nearTTL := 2*time.Hour + 30*time.Minute // still 23 minutes from expiring when the expiry service runs (its age setting is 1 h)
	setup := []*Op{
		{Kind: "CreateTopic", Name: t0}, {Kind: "CreateTopic", Name: t1}, {Kind: "CreateTopic", Name: t2},
		{Kind: "CreateSub", Sub: &SubReq{Name: "projects/p/subscriptions/s0", Topic: t0, DL: dl(t1, 1), Retry: &[2]*time.Duration{&sec, nil}}},
		{Kind: "CreateSub", Sub: &SubReq{Name: "projects/p/subscriptions/s1", Topic: t0, Ordered: true}},
		{Kind: "CreateSub", Sub: &SubReq{Name: "projects/p/subscriptions/s2", Topic: t2}},
		{Kind: "CreateSub", Sub: &SubReq{Name: "projects/p/subscriptions/s3", Topic: t0, MsgTTL: &tenMin}},
		{Kind: "CreateSub", Sub: &SubReq{Name: "projects/p/subscriptions/sx", Topic: t0, HasExp: true, TTL: &fortyFive}},
		{Kind: "CreateSub", Sub: &SubReq{Name: "projects/p/subscriptions/sy", Topic: t0, HasExp: true, TTL: &nearTTL}},
		{Kind: "CreateSub", Sub: &SubReq{Name: "projects/p/subscriptions/d0", Topic: t1}},
		{Kind: "Publish", Name: t0, Msgs: []PubMsg{{Data: []byte(`{"n":1}`), Key: "k1"}, {Data: []byte(`{"n":2}`), Key: "k1"}, {Data: []byte(`{"n":3}`)}}},
		{Kind: "Publish", Name: t2, Msgs: []PubMsg{{Data: []byte(`{"n":4}`)}, {Data: []byte(`{"n":5}`)}}},
		{Kind: "Pull", Name: "projects/p/subscriptions/s0", Max: 10},
	}
	for _, op := range setup {
		if _, err := run(op); err != nil {
			return err
		}
	}
	o, err := run(&Op{Kind: "Pull", Name: "projects/p/subscriptions/s1", Max: 10})
	if err != nil {
		return err
	}
	var acks []string
	for _, p := range o.Resp.Pulled {
		acks = append(acks, p.Ack.String())
	}
	for _, op := range []*Op{
		{Kind: "Ack", Name: "projects/p/subscriptions/s1", AckIDs: acks},
		{Kind: "DeleteSub", Name: "projects/p/subscriptions/s2"},
		{Kind: "DeleteTopic", Name: t2},
	} {
		if _, err := run(op); err != nil {
			return err
		}
	}
	// older than the services' default minimum age of one hour
	if err := adv(2*time.Hour + 7*time.Minute); err != nil {
		return err
	}
	type svcRes struct {
		Service string `json:"service"`
		Job     string `json:"job"`
		Rows    int    `json:"rows_affected"`
		Round   int    `json:"round"`
	}
	var results []svcRes
	effective := 0
	for round := 0; round < 2; round++ {
		for _, sj := range serviceJobs {
			if err := e.guardFor(pre, []time.Duration{0, time.Hour}, 1200*time.Millisecond); err != nil {
				return err
			}
			op := &Op{Kind: "Job", Job: sj.job, MinAge: time.Hour, MaxN: 100}
			if sj.job == "DeadLetterSweep" {
				op.MinAge = 0
			}
			ob := &Obs{Op: op, Lo: e.VNow()}
			if err := runServiceOnce(e, sj.svc, 450*time.Millisecond); err != nil {
				return err
			}
			ob.Hi = e.VNow()
			post, err := e.Dump(ctx)
			if err != nil {
				return err
			}
			ob.Post = post
			resp := &Resp{Kind: "count"}
			fillOracles(op, resp, pre, post, ob.Lo)
			resp.Count = int64(len(op.Chosen))
			ob.Resp = resp
			if deadlineInside(pre, ob.Lo, ob.Hi, []time.Duration{0, time.Hour}) {
				ob.Skip = "deadline-inside-call"
			}
			hist = append(hist, ob)
			pre = post
			results = append(results, svcRes{sj.svc, sj.job, len(op.Chosen), round})
			if len(op.Chosen) > 0 {
				effective++
			}
		}
	}
	// nothing dead older than an hour may be left after two rounds
	final := pre
	now := e.VNow()
	var left []string
	for _, x := range final.Dels {
		s := final.sub(x.Sub)
		if (x.Completed != nil && *x.Completed <= now-int64(time.Hour)) || x.Expires < now || (s != nil && s.Deleted != nil && *s.Deleted <= now-int64(time.Hour)) {
			left = append(left, "delivery "+x.ID.String())
		}
	}
	for _, s := range final.Subs {
		if s.Deleted != nil && *s.Deleted <= now-int64(time.Hour) {
			left = append(left, "deleted subscription "+s.Name)
		}
	}
	body := "From MB Require Import Base.\nFrom MB.Bus Require Import State Ops Step Check View.\nOpen Scope list_scope.\n\n" +
		EmitHistory("h0", hist) + "Definition r0 := Eval vm_compute in check_history h0.\nPrint r0.\nDefinition v0 := Eval vm_compute in check_prune_steps h0.\nPrint v0.\n"
	if err := os.WriteFile(filepath.Join(*out, "services.v"), []byte(body), 0o644); err != nil {
		return err
	}
	type stepJ struct {
		Kind string `json:"kind"`
		Op   *Op    `json:"op"`
		Resp *Resp  `json:"resp"`
		Skip string `json:"skip,omitempty"`
	}
	var sj []stepJ
	for _, o := range hist {
		sj = append(sj, stepJ{o.Op.Kind, o.Op, o.Resp, o.Skip})
	}
	pushRes, err := runPusherService()
	if err != nil {
		return err
	}
	return writeJSON(filepath.Join(*out, "services.json"), map[string]interface{}{
		"service_runs": results, "effective_runs": effective, "dead_rows_left": left, "steps": sj, "pusher_service": pushRes})
}

// runPusherService: the HTTP pusher service end to end
func runPusherService() (map[string]interface{}, error) {
	ctx := context.Background()
	e, err := NewEnv(true)
	if err != nil {
		return nil, err
	}
	defer e.Close()
	ep := newPushEndpoint()
	defer ep.close()
	topic, subName := "projects/p/topics/push", "projects/p/subscriptions/push"
	pre, _ := e.Dump(ctx)
	e.Exec(ctx, &Op{Kind: "CreateTopic", Name: topic}, pre)
	mn := 300 * time.Millisecond
	if o, err := e.Exec(ctx, &Op{Kind: "CreateSub", Sub: &SubReq{Name: subName, Topic: topic, Retry: &[2]*time.Duration{&mn, nil},
		Push: &PushReq{Endpoint: ep.srv.URL + "/push"}}}, pre); err != nil || o.Resp.Kind == "err" {
		return nil, fmt.Errorf("create push subscription: %v", err)
	}
	publish := func(n int, tag string) error {
		for i := 0; i < n; i++ {
			d, _ := e.Dump(ctx)
			if o, err := e.Exec(ctx, &Op{Kind: "Publish", Name: topic, Msgs: []PubMsg{{Data: []byte(fmt.Sprintf(`{"%s":%d}`, tag, i)), Attrs: map[string]string{"phase": tag}}}}, d); err != nil || o.Resp.Kind != "ids" {
				return fmt.Errorf("publish: %v", err)
			}
		}
		return nil
	}
	if err := publish(5, "a"); err != nil {
		return nil, err
	}
	svc := serviceByName("http-pusher")
	if svc == nil {
		return nil, fmt.Errorf("no http-pusher service registered")
	}
	sctx, cancel := context.WithCancel(ctx)
	defer cancel()
	if err := svc.Initialize(sctx, e.Client); err != nil {
		return nil, err
	}
	ready := make(chan struct{})
	done := make(chan error, 1)
	go func() { done <- svc.Start(sctx, ready) }()
	select {
	case <-ready:
	case <-time.After(5 * time.Second):
		return nil, fmt.Errorf("http-pusher service did not become ready")
	}
	nreq := func() int {
		ep.mu.Lock()
		defer ep.mu.Unlock()
		return len(ep.log)
	}
	waitReq := func(n int, d time.Duration) bool {
		deadline := time.Now().Add(d)
		for time.Now().Before(deadline) {
			if nreq() >= n {
				return true
			}
			time.Sleep(10 * time.Millisecond)
		}
		return false
	}
	var problems []string
	if !waitReq(5, 5*time.Second) {
		problems = append(problems, fmt.Sprintf("backlog-not-pushed: the pusher service pushed %d of the 5 messages of a push subscription within 5 s", nreq()))
	}
	time.Sleep(300 * time.Millisecond)
	d, _ := e.Dump(ctx)
	open := 0
	for _, x := range d.Dels {
		if x.Completed == nil {
			open++
		}
	}
	if open != 0 {
		problems = append(problems, fmt.Sprintf("success-not-acked: %d deliveries still unacknowledged after the endpoint answered 200 to all of them", open))
	}
	// removing the push configuration stops the pusher
	if o, err := e.Exec(ctx, &Op{Kind: "ModifyPush", Name: subName, HasPush: true, Push: &PushReq{Endpoint: ""}}, d); err != nil || o.Resp.Kind == "err" {
		return nil, fmt.Errorf("ModifyPushConfig: %v %+v", err, o.Resp)
	}
	time.Sleep(400 * time.Millisecond)
	before := nreq()
	if err := publish(2, "b"); err != nil {
		return nil, err
	}
	time.Sleep(700 * time.Millisecond)
	if n := nreq(); n != before {
		problems = append(problems, fmt.Sprintf("pushed-without-config: %d requests after the push configuration was removed", n-before))
	}
	// restoring it resumes pushing
	d, _ = e.Dump(ctx)
	if o, err := e.Exec(ctx, &Op{Kind: "ModifyPush", Name: subName, HasPush: true, Push: &PushReq{Endpoint: ep.srv.URL + "/push"}}, d); err != nil || o.Resp.Kind == "err" {
		return nil, fmt.Errorf("ModifyPushConfig: %v", err)
	}
	if !waitReq(before+2, 5*time.Second) {
		problems = append(problems, fmt.Sprintf("not-resumed: %d of 2 messages pushed within 5 s after the push configuration was restored", nreq()-before))
	}
	// a pusher that dies of a transient storage error is replaced by the service: one UPDATE of
	// the deliveries table (the pusher leasing or settling a message) fails once; the message
	// published meanwhile must still be pushed
	before = nreq()
	var fmu sync.Mutex
	failed := false
	SetDBHook(e.DSN, func(_ context.Context, kind CallKind, q string, after bool) error {
		if after || kind != KExec || !strings.HasPrefix(strings.TrimSpace(q), "UPDATE `deliveries`") {
			return nil
		}
		fmu.Lock()
		defer fmu.Unlock()
		if failed {
			return nil
		}
		failed = true
		return errInjected
	})
	if err := publish(1, "c"); err != nil {
		SetDBHook(e.DSN, nil)
		return nil, err
	}
	okc := waitReq(before+1, 10*time.Second)
	SetDBHook(e.DSN, nil)
	fmu.Lock()
	didFail := failed
	fmu.Unlock()
	if didFail && !okc {
		problems = append(problems, "pusher-not-restarted: after one failed UPDATE inside the pusher's transaction the message published meanwhile was not pushed within 10 s (the service did not replace the dead pusher)")
	}
	time.Sleep(300 * time.Millisecond)
	// envelopes
	final, _ := e.Dump(ctx)
	ep.mu.Lock()
	logs := append([]*pushReqLog(nil), ep.log...)
	ep.mu.Unlock()
	seen := map[string]int{}
	for _, l := range logs {
		seen[l.MessageID]++
		var row *MsgRow
		for i := range final.Msgs {
			if final.Msgs[i].ID.String() == l.MessageID {
				row = &final.Msgs[i]
			}
		}
		if row == nil {
			problems = append(problems, "envelope: request for an unknown message id "+l.MessageID)
			continue
		}
		attrs := map[string]string{}
		for _, kv := range row.Attrs {
			attrs[kv.K] = kv.V
		}
		why, _, _ := checkEnvelope(l.Body, wantEnvelope{Payload: []byte(row.Payload), PayloadIsJSONValue: true, Attrs: attrs, MessageID: l.MessageID,
			Published: e.ToReal(row.Published), Sub: subName, Attempt: seen[l.MessageID]})
		if why != "" {
			problems = append(problems, "envelope: "+why)
		}
	}
	cancel()
	select {
	case <-done:
	case <-time.After(5 * time.Second):
		problems = append(problems, "service-does-not-stop: the http-pusher service did not stop within 5 s")
	}
	svc.Cleanup(context.Background())
	return map[string]interface{}{"requests": len(logs), "problems": problems}, nil
}

func init() { subcmds["services"] = cmdServices }
