package main

// dl-service-race: the background dead-letter service against a client that acknowledges in the
// middle of its sweep. The service's work for one delivery - select it as due, forward it, retire
// it - is one transaction (C06: the move is atomic). The harness watches the service's
// transactions: after the FIRST commit of its first run it looks whether anything was forwarded.
// If that commit only selected (nothing forwarded yet), the client acknowledges every delivery
// that is still outstanding - and nothing may be forwarded after that.

import (
	"context"
	"flag"
	"fmt"
	"os"
	"path/filepath"
	"sync"
	"time"
)

type dlRaceResult struct {
	FirstCommitForwarded int      `json:"forwarded_at_first_commit"`
	Acked                int      `json:"acked_by_the_client_after_first_commit"`
	ForwardedAfterAck    int      `json:"forwarded_after_the_ack"`
	Problems             []string `json:"problems"`
}

func runDLServiceRace() (*dlRaceResult, error) {
	ctx := context.Background()
	e, err := NewEnv(true)
	if err != nil {
		return nil, err
	}
	defer e.Close()
	t0, dlt, s0, d0 := "projects/p/topics/t0", "projects/p/topics/dl", "projects/p/subscriptions/s0", "projects/p/subscriptions/d0"
	pre, _ := e.Dump(ctx)
	run := func(op *Op) (*Obs, error) {
		o, err := e.Exec(ctx, op, pre)
		if err != nil {
			return nil, err
		}
		if o.Resp.Kind == "err" {
			return nil, fmt.Errorf("%s: %s %s", op.Kind, o.Resp.Code, o.Resp.Msg)
		}
		pre = o.Post
		return o, nil
	}
	for _, op := range []*Op{{Kind: "CreateTopic", Name: t0}, {Kind: "CreateTopic", Name: dlt},
		{Kind: "CreateSub", Sub: &SubReq{Name: s0, Topic: t0, DL: dl(dlt, 1), Retry: retry(time.Second)}},
		{Kind: "CreateSub", Sub: &SubReq{Name: d0, Topic: dlt}},
		pub(3, "")} {
		if _, err := run(op); err != nil {
			return nil, err
		}
	}
	o, err := run(&Op{Kind: "Pull", Name: s0, Max: 10})
	if err != nil || len(o.Resp.Pulled) != 3 {
		return nil, fmt.Errorf("pull: %v", err)
	}
	ids := mustIDs(o)
	if err := e.Advance(30 * time.Second); err != nil { // leases lapsed: attempts used up, due for the sweep
		return nil, err
	}
	if pre, err = e.Dump(ctx); err != nil {
		return nil, err
	}
	res := &dlRaceResult{}
	forwarded := func() (int, error) {
		d, err := e.Dump(ctx)
		if err != nil {
			return 0, err
		}
		ds := d.subByName(d0)
		n := 0
		for _, x := range d.Dels {
			if ds != nil && x.Sub == ds.ID {
				n++
			}
		}
		return n, nil
	}
	// phase 0: the service's first commit is awaited; 1: the harness works (everything passes)
	var mu sync.Mutex
	phase := 0
	var hookErr error
	SetDBHook(e.DSN, func(_ context.Context, kind CallKind, q string, after bool) error {
		mu.Lock()
		first := phase == 0 && after && kind == KCommit
		if first {
			phase = 1
		}
		mu.Unlock()
		if !first {
			return nil
		}
		// (inside the service's Commit, after it took effect; the service goes on when we return)
		n, err := forwarded()
		if err != nil {
			hookErr = err
			return nil
		}
		res.FirstCommitForwarded = n
		if n == 0 {
			// nothing was forwarded by that transaction: it only looked. The client settles now.
			d, _ := e.Dump(ctx)
			if o, err := e.Exec(ctx, &Op{Kind: "Ack", Name: s0, AckIDs: ids}, d); err != nil || o.Resp.Kind == "err" {
				hookErr = fmt.Errorf("ack: %v", err)
				return nil
			}
			res.Acked = len(ids)
		}
		return nil
	})
	defer SetDBHook(e.DSN, nil)
	// run the service until its first commit has been seen (at most 15 s: a loaded machine), and a
	// little longer for the rest of its round
	svc := serviceByName("dead-letter")
	if svc == nil {
		return nil, fmt.Errorf("no registered service named dead-letter")
	}
	sctx, cancel := context.WithCancel(ctx)
	defer cancel()
	if err := svc.Initialize(sctx, e.Client); err != nil {
		return nil, err
	}
	ready := make(chan struct{})
	done := make(chan error, 1)
	go func() { done <- svc.Start(sctx, ready) }()
	select {
	case <-ready:
	case err := <-done:
		return nil, fmt.Errorf("dead-letter service ended at once: %v", err)
	case <-time.After(5 * time.Second):
		return nil, fmt.Errorf("dead-letter service did not become ready")
	}
	for deadline := time.Now().Add(15 * time.Second); time.Now().Before(deadline); time.Sleep(20 * time.Millisecond) {
		mu.Lock()
		seen := phase == 1
		mu.Unlock()
		if seen {
			break
		}
	}
	time.Sleep(1500 * time.Millisecond)
	cancel()
	select {
	case <-done:
	case <-time.After(5 * time.Second):
		return nil, fmt.Errorf("dead-letter service did not stop")
	}
	if err := svc.Cleanup(ctx); err != nil {
		return nil, err
	}
	SetDBHook(e.DSN, nil)
	if hookErr != nil {
		return nil, hookErr
	}
	n, err := forwarded()
	if err != nil {
		return nil, err
	}
	if res.Acked > 0 {
		res.ForwardedAfterAck = n
		if n > 0 {
			res.Problems = append(res.Problems, fmt.Sprintf("forwarded-after-ack: the dead-letter service's first transaction forwarded nothing; the client then acknowledged all %d outstanding deliveries (answered OK); afterwards %d of them were forwarded to the dead-letter topic all the same: selecting and moving a delivery is not one transaction", res.Acked, n))
		}
	} else if res.FirstCommitForwarded == 0 && n == 0 {
		res.Problems = append(res.Problems, "dead-letter-service-idle: three deliveries were due for dead-lettering and the service's first run forwarded none")
	}
	return res, nil
}

func cmdDLServiceRace(args []string) error {
	fs := flag.NewFlagSet("dl-service-race", flag.ExitOnError)
	out := fs.String("out", "", "")
	fs.Parse(args)
	if *out == "" {
		return fmt.Errorf("-out required")
	}
	os.MkdirAll(*out, 0o755)
	r, err := runDLServiceRace()
	if err != nil {
		return err
	}
	return writeJSON(filepath.Join(*out, "dlrace.json"), r)
}

func init() { subcmds["dl-service-race"] = cmdDLServiceRace }
