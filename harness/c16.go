package main

// C16: boundary-domain requests against the server running in a CHILD PROCESS with its
// production interceptor chain: a handler panic kills the process (there is no recovery
// interceptor), which the parent observes as outcome PANIC and answers by restarting the
// server on the same database. After every error answer the five tables are compared
// with their state before the request.

import (
	"context"
	"flag"
	"fmt"
	"math"
	"os"
	"os/exec"
	"path/filepath"
	"sort"
	"strings"
	"time"

	"github.com/google/uuid"
	"google.golang.org/grpc"
	"google.golang.org/grpc/codes"
	"google.golang.org/grpc/credentials/insecure"
	"google.golang.org/grpc/status"
	"google.golang.org/protobuf/proto"
	"google.golang.org/protobuf/types/known/durationpb"
	"google.golang.org/protobuf/types/known/fieldmaskpb"
	"google.golang.org/protobuf/types/known/timestamppb"

	"go.6river.tech/mmmbbb/grpc/pubsubpb"
)

func cmdServe(args []string) error {
	fs := flag.NewFlagSet("serve", flag.ExitOnError)
	dbPath := fs.String("db", "", "")
	port := fs.Int("port", 0, "")
	pusher := fs.Bool("pusher", false, "also run the http-pusher background service")
	fs.Parse(args)
	quietLogging()
	e := &Env{Dir: filepath.Dir(*dbPath), DBPath: *dbPath, T0: time.Now()}
	e.DSN = DSNFor(e.DBPath)
	var err error
	if e.SQL, e.Client, err = OpenDB(e.DBPath); err != nil {
		return err
	}
	if err := e.startServerOn(*port); err != nil {
		return err
	}
	if *pusher {
		svc := serviceByName("http-pusher")
		if svc == nil {
			return fmt.Errorf("no http-pusher service")
		}
		if err := svc.Initialize(context.Background(), e.Client); err != nil {
			return err
		}
		ready := make(chan struct{})
		go func() {
			// (a panic in the service's goroutines ends the process, which is the point)
			_ = svc.Start(context.Background(), ready)
		}()
		<-ready
	}
	fmt.Println("READY")
	select {}
}

type child struct {
	cmd  *exec.Cmd
	port int
	conn *grpc.ClientConn
	done chan struct{}
}

func startChild(dbPath string, extra ...string) (*child, error) {
	// (the port found free may be taken before the child binds it: try again)
	var c *child
	var err error
	for try := 0; try < 5; try++ {
		if c, err = startChildOnce(dbPath, extra...); err == nil {
			return c, nil
		}
	}
	return nil, err
}

func startChildOnce(dbPath string, extra ...string) (*child, error) {
	port, err := freePort()
	if err != nil {
		return nil, err
	}
	self, _ := os.Executable()
	cmd := exec.Command(self, append([]string{"serve", "-db", dbPath, "-port", fmt.Sprint(port)}, extra...)...)
	cmd.Env = append(os.Environ(), "LOG_LEVEL=fatal")
	stderr, _ := os.Create(dbPath + ".server.log")
	cmd.Stderr = stderr
	out, _ := cmd.StdoutPipe()
	if err := cmd.Start(); err != nil {
		return nil, err
	}
	c := &child{cmd: cmd, port: port, done: make(chan struct{})}
	go func() { cmd.Wait(); close(c.done) }()
	ready := make(chan bool, 1)
	go func() {
		buf := make([]byte, 64)
		n, _ := out.Read(buf)
		ready <- strings.Contains(string(buf[:n]), "READY")
	}()
	select {
	case ok := <-ready:
		if !ok {
			return nil, fmt.Errorf("child did not become ready")
		}
	case <-c.done:
		return nil, fmt.Errorf("child exited during start")
	case <-time.After(20 * time.Second):
		cmd.Process.Kill()
		return nil, fmt.Errorf("child start timeout")
	}
	c.conn, err = grpc.NewClient(fmt.Sprintf("127.0.0.1:%d", port), grpc.WithTransportCredentials(insecure.NewCredentials()))
	return c, err
}

func (c *child) alive() bool {
	select {
	case <-c.done:
		return false
	default:
		return true
	}
}
func (c *child) stop() {
	if c.conn != nil {
		c.conn.Close()
	}
	if c.alive() {
		c.cmd.Process.Kill()
		<-c.done
	}
}

type c16req struct {
	RPC  string
	Desc string
	Call func(ctx context.Context, cc *grpc.ClientConn) error
}

func dur(d time.Duration) *durationpb.Duration { return durationpb.New(d) }

var int32s = []int32{math.MinInt32, -1, 0, 1, 1000, math.MaxInt32}

func buildRequests(live []string, staleAck, foreignAck string) []c16req {
	// (every request that settles a live ack id has its OWN live id: an Acknowledge answered with an
	// error after it has settled one must show as a changed table whatever ran before it)
	liveAck := live[0]
	var rs []c16req
	add := func(rpc, desc string, f func(ctx context.Context, cc *grpc.ClientConn) error) {
		rs = append(rs, c16req{rpc, desc, f})
	}
	topicNames := []string{"projects/p/topics/t0", "projects/p/topics/unknown", "projects/p/subscriptions/s0", "", "projects/p/topics/", "garbage", "projects/p/topics/tdel"}
	subNames := []string{"projects/p/subscriptions/s0", "projects/p/subscriptions/unknown", "projects/p/topics/t0", "", "projects/p/subscriptions/", "garbage"}
	snapNames := []string{"projects/p/snapshots/n0", "projects/p/snapshots/unknown", "projects/p/subscriptions/s0", "", "garbage"}
	ackSets := map[string][]string{"none": nil, "live": {liveAck}, "stale": {staleAck}, "foreign": {foreignAck}, "garbage": {"not-a-uuid"},
		"empty-string": {""}, "unknown": {uuid.New().String()}, "mixed": {live[1], staleAck, uuid.New().String()}, "mixed-garbage": {live[2], "zzz"}, "dup": {live[3], live[3]},
		// garbage of exactly the canonical length of a UUID (36 bytes): not hex, no dashes, a live id with one character damaged
		"garbage-36": {strings.Repeat("z", 36)}, "hex-36": {strings.Repeat("0123456789abcdef", 2) + "0123"}, "damaged-live": {liveAck[:7] + "g" + liveAck[8:]},
		"mixed-garbage-36": {live[4], strings.Repeat(" ", 36)}}
	var ackSetNames []string
	for an := range ackSets {
		ackSetNames = append(ackSetNames, an)
	}
	sort.Strings(ackSetNames)
	P := func(cc *grpc.ClientConn) pubsubpb.PublisherClient { return pubsubpb.NewPublisherClient(cc) }
	S := func(cc *grpc.ClientConn) pubsubpb.SubscriberClient { return pubsubpb.NewSubscriberClient(cc) }
	for _, n := range topicNames {
		n := n
		for _, kms := range []string{"", "k"} {
			kms := kms
			for _, lb := range []map[string]string{nil, {}, {"a": "b"}} {
				lb := lb
				add("CreateTopic", fmt.Sprintf("name=%q kms=%q labels=%v", n, kms, lb), func(ctx context.Context, cc *grpc.ClientConn) error {
					_, err := P(cc).CreateTopic(ctx, &pubsubpb.Topic{Name: n + func() string {
						if n == "projects/p/topics/t0" {
							return ""
						}
						return ""
					}(), KmsKeyName: kms, Labels: lb})
					return err
				})
			}
		}
		add("GetTopic", fmt.Sprintf("topic=%q", n), func(ctx context.Context, cc *grpc.ClientConn) error {
			_, err := P(cc).GetTopic(ctx, &pubsubpb.GetTopicRequest{Topic: n})
			return err
		})
		for _, ps := range []int32{math.MinInt32, -1, 0, 1, math.MaxInt32} {
			ps := ps
			for _, tok := range []string{"", "garbage", uuid.New().String()} {
				tok := tok
				add("ListTopicSubscriptions", fmt.Sprintf("topic=%q size=%d tok=%q", n, ps, tok), func(ctx context.Context, cc *grpc.ClientConn) error {
					_, err := P(cc).ListTopicSubscriptions(ctx, &pubsubpb.ListTopicSubscriptionsRequest{Topic: n, PageSize: ps, PageToken: tok})
					return err
				})
			}
		}
		add("ListTopicSnapshots", fmt.Sprintf("topic=%q", n), func(ctx context.Context, cc *grpc.ClientConn) error {
			_, err := P(cc).ListTopicSnapshots(ctx, &pubsubpb.ListTopicSnapshotsRequest{Topic: n})
			return err
		})
		for _, data := range [][]byte{nil, []byte(`{"a":1}`), []byte("not json"), []byte(`{} {}`), {}} {
			data := data
			for _, cnt := range []int{0, 1, 2} {
				cnt := cnt
				add("Publish", fmt.Sprintf("topic=%q data=%q n=%d", n, data, cnt), func(ctx context.Context, cc *grpc.ClientConn) error {
					req := &pubsubpb.PublishRequest{Topic: n}
					for i := 0; i < cnt; i++ {
						req.Messages = append(req.Messages, &pubsubpb.PubsubMessage{Data: data, OrderingKey: []string{"", "k"}[i%2]})
					}
					_, err := P(cc).Publish(ctx, req)
					return err
				})
			}
		}
		// DeleteTopic of the live topic would destroy the fixture: only non-live names
		if n != "projects/p/topics/t0" {
			add("DeleteTopic", fmt.Sprintf("topic=%q", n), func(ctx context.Context, cc *grpc.ClientConn) error {
				_, err := P(cc).DeleteTopic(ctx, &pubsubpb.DeleteTopicRequest{Topic: n})
				return err
			})
		}
		for _, mask := range [][]string{nil, {}, {"labels"}, {"bogus"}, {"labels", "labels"}, {"name"}, {"kms_key_name"}, {""}} {
			mask := mask
			for _, nilMask := range []bool{false, true} {
				nilMask := nilMask
				add("UpdateTopic", fmt.Sprintf("topic=%q mask=%v nilmask=%v", n, mask, nilMask), func(ctx context.Context, cc *grpc.ClientConn) error {
					req := &pubsubpb.UpdateTopicRequest{Topic: &pubsubpb.Topic{Name: n, Labels: map[string]string{"u": "1"}}}
					if !nilMask {
						req.UpdateMask = &fieldmaskpb.FieldMask{Paths: mask}
					}
					_, err := P(cc).UpdateTopic(ctx, req)
					return err
				})
			}
		}
	}
	for _, mask := range [][]string{nil, {"labels"}} {
		mask := mask
		add("UpdateTopic", fmt.Sprintf("topic=<absent> mask=%v", mask), func(ctx context.Context, cc *grpc.ClientConn) error {
			_, err := P(cc).UpdateTopic(ctx, &pubsubpb.UpdateTopicRequest{UpdateMask: &fieldmaskpb.FieldMask{Paths: mask}})
			return err
		})
	}
	for _, proj := range []string{"", "projects/p", "garbage", "projects/p%"} {
		proj := proj
		for _, ps := range []int32{math.MinInt32, -1, 0, 1, math.MaxInt32} {
			ps := ps
			for _, tok := range []string{"", "garbage", uuid.New().String()} {
				tok := tok
				add("ListTopics", fmt.Sprintf("project=%q size=%d tok=%q", proj, ps, tok), func(ctx context.Context, cc *grpc.ClientConn) error {
					_, err := P(cc).ListTopics(ctx, &pubsubpb.ListTopicsRequest{Project: proj, PageSize: ps, PageToken: tok})
					return err
				})
				add("ListSubscriptions", fmt.Sprintf("project=%q size=%d tok=%q", proj, ps, tok), func(ctx context.Context, cc *grpc.ClientConn) error {
					_, err := S(cc).ListSubscriptions(ctx, &pubsubpb.ListSubscriptionsRequest{Project: proj, PageSize: ps, PageToken: tok})
					return err
				})
				add("ListSnapshots", fmt.Sprintf("project=%q size=%d tok=%q", proj, ps, tok), func(ctx context.Context, cc *grpc.ClientConn) error {
					_, err := S(cc).ListSnapshots(ctx, &pubsubpb.ListSnapshotsRequest{Project: proj, PageSize: ps, PageToken: tok})
					return err
				})
			}
		}
	}
	// ---- CreateSubscription: one factor at a time around a valid baseline, plus pairs of the risky ones
	type sfac struct {
		name string
		vals []func(s *pubsubpb.Subscription)
		desc []string
	}
	durs := []*durationpb.Duration{nil, dur(-time.Second), dur(0), dur(time.Second), dur(10 * time.Minute), {Seconds: math.MaxInt64}, {Seconds: math.MinInt64}, {Seconds: 1, Nanos: -5},
		{Nanos: 1}, {Nanos: 999}, {Nanos: -1}, dur(time.Microsecond)} // (also: positive and negative durations below the microsecond)
	durDesc := []string{"absent", "-1s", "0", "1s", "10m", "maxint64 s", "minint64 s", "invalid(1s,-5ns)", "1ns", "999ns", "-1ns", "1us"}
	var facs []sfac
	{
		f := sfac{name: "name"}
		for _, n := range append(subNames[1:], "projects/p/subscriptions/new") {
			n := n
			f.vals = append(f.vals, func(s *pubsubpb.Subscription) { s.Name = n })
			f.desc = append(f.desc, n)
		}
		facs = append(facs, f)
	}
	{
		f := sfac{name: "topic"}
		for _, n := range topicNames {
			n := n
			f.vals = append(f.vals, func(s *pubsubpb.Subscription) { s.Topic = n })
			f.desc = append(f.desc, n)
		}
		facs = append(facs, f)
	}
	{
		f := sfac{name: "expiration"}
		f.vals = append(f.vals, func(s *pubsubpb.Subscription) { s.ExpirationPolicy = nil })
		f.desc = append(f.desc, "no policy")
		for i, d := range durs {
			d := d
			f.vals = append(f.vals, func(s *pubsubpb.Subscription) { s.ExpirationPolicy = &pubsubpb.ExpirationPolicy{Ttl: d} })
			f.desc = append(f.desc, "ttl "+durDesc[i])
		}
		facs = append(facs, f)
	}
	{
		f := sfac{name: "retention"}
		for i, d := range durs {
			d := d
			f.vals = append(f.vals, func(s *pubsubpb.Subscription) { s.MessageRetentionDuration = d })
			f.desc = append(f.desc, durDesc[i])
		}
		facs = append(facs, f)
	}
	{
		f := sfac{name: "retry"}
		f.vals = append(f.vals, func(s *pubsubpb.Subscription) { s.RetryPolicy = &pubsubpb.RetryPolicy{} })
		f.desc = append(f.desc, "empty")
		for i, d := range durs {
			d := d
			f.vals = append(f.vals, func(s *pubsubpb.Subscription) {
				s.RetryPolicy = &pubsubpb.RetryPolicy{MinimumBackoff: d, MaximumBackoff: d}
			})
			f.desc = append(f.desc, durDesc[i])
		}
		facs = append(facs, f)
	}
	{
		f := sfac{name: "dead-letter"}
		f.vals = append(f.vals, func(s *pubsubpb.Subscription) { s.DeadLetterPolicy = &pubsubpb.DeadLetterPolicy{} })
		f.desc = append(f.desc, "empty")
		for _, t := range []string{"", "projects/p/topics/t0", "projects/p/topics/unknown", "garbage"} {
			for _, m := range int32s {
				t, m := t, m
				f.vals = append(f.vals, func(s *pubsubpb.Subscription) {
					s.DeadLetterPolicy = &pubsubpb.DeadLetterPolicy{DeadLetterTopic: t, MaxDeliveryAttempts: m}
				})
				f.desc = append(f.desc, fmt.Sprintf("topic=%q max=%d", t, m))
			}
		}
		facs = append(facs, f)
	}
	{
		f := sfac{name: "push"}
		pcs := []*pubsubpb.PushConfig{{}, {PushEndpoint: "http://127.0.0.1:1/"}, {Attributes: map[string]string{"x-goog-version": "v1"}}, {Attributes: map[string]string{"a": "b"}},
			{AuthenticationMethod: &pubsubpb.PushConfig_OidcToken_{}}, {Wrapper: &pubsubpb.PushConfig_NoWrapper_{}}, {Wrapper: &pubsubpb.PushConfig_PubsubWrapper_{}}}
		for i, pc := range pcs {
			pc := pc
			f.vals = append(f.vals, func(s *pubsubpb.Subscription) { s.PushConfig = pc })
			f.desc = append(f.desc, fmt.Sprintf("variant %d", i))
		}
		facs = append(facs, f)
	}
	{
		f := sfac{name: "misc"}
		f.vals = append(f.vals, func(s *pubsubpb.Subscription) { s.Filter = "attributes:x" }, func(s *pubsubpb.Subscription) { s.Filter = "attributes:" },
			func(s *pubsubpb.Subscription) { s.Filter = "\xff" }, func(s *pubsubpb.Subscription) { s.Detached = true },
			func(s *pubsubpb.Subscription) { s.EnableMessageOrdering = true }, func(s *pubsubpb.Subscription) { s.AckDeadlineSeconds = -1 },
			func(s *pubsubpb.Subscription) { s.Labels = map[string]string{"": ""} })
		f.desc = append(f.desc, "filter ok", "filter bad", "filter invalid utf8", "detached", "ordered", "ack deadline -1", "empty label")
		facs = append(facs, f)
	}
	seq := 0
	baseline := func() *pubsubpb.Subscription {
		seq++
		return &pubsubpb.Subscription{Name: fmt.Sprintf("projects/p/subscriptions/c16-%d", seq), Topic: "projects/p/topics/t0"}
	}
	for _, f := range facs {
		for i, v := range f.vals {
			v := v
			add("CreateSubscription", fmt.Sprintf("%s: %s", f.name, f.desc[i]), func(ctx context.Context, cc *grpc.ClientConn) error {
				s := baseline()
				v(s)
				_, err := S(cc).CreateSubscription(ctx, s)
				return err
			})
		}
	}
	// all pairs of the numeric / nested factors
	risky := []int{2, 3, 4, 5}
	for a := 0; a < len(risky); a++ {
		for b := a + 1; b < len(risky); b++ {
			fa, fb := facs[risky[a]], facs[risky[b]]
			for i, va := range fa.vals {
				for j, vb := range fb.vals {
					va, vb := va, vb
					add("CreateSubscription", fmt.Sprintf("%s: %s x %s: %s", fa.name, fa.desc[i], fb.name, fb.desc[j]), func(ctx context.Context, cc *grpc.ClientConn) error {
						s := baseline()
						va(s)
						vb(s)
						_, err := S(cc).CreateSubscription(ctx, s)
						return err
					})
				}
			}
		}
	}
	// ---- UpdateSubscription
	paths := []string{"labels", "expiration_policy", "message_retention_duration", "enable_message_ordering", "retry_policy", "push_config", "filter", "dead_letter_policy",
		"name", "topic", "ack_deadline_seconds", "detached", "bogus", ""}
	for _, n := range subNames {
		n := n
		for _, p := range paths {
			p := p
			for vi, variant := range []func(s *pubsubpb.Subscription){
				func(s *pubsubpb.Subscription) {},
				func(s *pubsubpb.Subscription) {
					s.ExpirationPolicy = &pubsubpb.ExpirationPolicy{Ttl: dur(-time.Second)}
					s.MessageRetentionDuration = dur(-time.Second)
					s.RetryPolicy = &pubsubpb.RetryPolicy{MinimumBackoff: dur(-time.Second)}
					s.DeadLetterPolicy = &pubsubpb.DeadLetterPolicy{DeadLetterTopic: "projects/p/topics/t0", MaxDeliveryAttempts: -1}
					s.PushConfig = &pubsubpb.PushConfig{AuthenticationMethod: &pubsubpb.PushConfig_OidcToken_{}}
					s.Filter = "attributes:"
				},
				func(s *pubsubpb.Subscription) {
					s.ExpirationPolicy = &pubsubpb.ExpirationPolicy{}
					s.RetryPolicy = &pubsubpb.RetryPolicy{}
					s.DeadLetterPolicy = &pubsubpb.DeadLetterPolicy{MaxDeliveryAttempts: 3}
					s.PushConfig = &pubsubpb.PushConfig{}
				},
			} {
				variant := variant
				add("UpdateSubscription", fmt.Sprintf("sub=%q path=%q variant=%d", n, p, vi), func(ctx context.Context, cc *grpc.ClientConn) error {
					s := &pubsubpb.Subscription{Name: n}
					variant(s)
					_, err := S(cc).UpdateSubscription(ctx, &pubsubpb.UpdateSubscriptionRequest{Subscription: s, UpdateMask: &fieldmaskpb.FieldMask{Paths: []string{p}}})
					return err
				})
			}
		}
		add("UpdateSubscription", fmt.Sprintf("sub=%q no mask", n), func(ctx context.Context, cc *grpc.ClientConn) error {
			_, err := S(cc).UpdateSubscription(ctx, &pubsubpb.UpdateSubscriptionRequest{Subscription: &pubsubpb.Subscription{Name: n}})
			return err
		})
		add("UpdateSubscription", fmt.Sprintf("sub=%q repeated paths", n), func(ctx context.Context, cc *grpc.ClientConn) error {
			_, err := S(cc).UpdateSubscription(ctx, &pubsubpb.UpdateSubscriptionRequest{Subscription: &pubsubpb.Subscription{Name: n},
				UpdateMask: &fieldmaskpb.FieldMask{Paths: []string{"labels", "labels", "filter", "labels"}}})
			return err
		})
		add("GetSubscription", fmt.Sprintf("sub=%q", n), func(ctx context.Context, cc *grpc.ClientConn) error {
			_, err := S(cc).GetSubscription(ctx, &pubsubpb.GetSubscriptionRequest{Subscription: n})
			return err
		})
		for _, an := range ackSetNames {
			ids, an := ackSets[an], an
			add("Acknowledge", fmt.Sprintf("sub=%q ids=%s", n, an), func(ctx context.Context, cc *grpc.ClientConn) error {
				_, err := S(cc).Acknowledge(ctx, &pubsubpb.AcknowledgeRequest{Subscription: n, AckIds: ids})
				return err
			})
			for _, sec := range int32s {
				sec := sec
				add("ModifyAckDeadline", fmt.Sprintf("sub=%q ids=%s seconds=%d", n, an, sec), func(ctx context.Context, cc *grpc.ClientConn) error {
					_, err := S(cc).ModifyAckDeadline(ctx, &pubsubpb.ModifyAckDeadlineRequest{Subscription: n, AckIds: ids, AckDeadlineSeconds: sec})
					return err
				})
			}
		}
		for _, mx := range int32s {
			mx := mx
			add("Pull", fmt.Sprintf("sub=%q max=%d", n, mx), func(ctx context.Context, cc *grpc.ClientConn) error {
				_, err := S(cc).Pull(ctx, &pubsubpb.PullRequest{Subscription: n, MaxMessages: mx, ReturnImmediately: true})
				return err
			})
		}
		for _, pc := range []*pubsubpb.PushConfig{nil, {}, {PushEndpoint: "http://127.0.0.1:1/"}, {Attributes: map[string]string{"a": "b"}},
			{Attributes: map[string]string{"x-goog-version": "v2"}}, {AuthenticationMethod: &pubsubpb.PushConfig_OidcToken_{}}} {
			pc := pc
			add("ModifyPushConfig", fmt.Sprintf("sub=%q cfg=%v", n, pc), func(ctx context.Context, cc *grpc.ClientConn) error {
				_, err := S(cc).ModifyPushConfig(ctx, &pubsubpb.ModifyPushConfigRequest{Subscription: n, PushConfig: pc})
				return err
			})
		}
		add("Seek", fmt.Sprintf("sub=%q no target", n), func(ctx context.Context, cc *grpc.ClientConn) error {
			_, err := S(cc).Seek(ctx, &pubsubpb.SeekRequest{Subscription: n})
			return err
		})
		for ti, ts := range []*timestamppb.Timestamp{nil, {}, {Seconds: -62135596800}, {Seconds: math.MaxInt64}, {Seconds: math.MinInt64}, timestamppb.New(time.Now().Add(time.Hour)), {Seconds: 1, Nanos: -1}} {
			ts, ti := ts, ti
			add("Seek", fmt.Sprintf("sub=%q time variant %d", n, ti), func(ctx context.Context, cc *grpc.ClientConn) error {
				_, err := S(cc).Seek(ctx, &pubsubpb.SeekRequest{Subscription: n, Target: &pubsubpb.SeekRequest_Time{Time: ts}})
				return err
			})
		}
		for _, sn := range snapNames {
			sn := sn
			add("Seek", fmt.Sprintf("sub=%q snapshot=%q", n, sn), func(ctx context.Context, cc *grpc.ClientConn) error {
				_, err := S(cc).Seek(ctx, &pubsubpb.SeekRequest{Subscription: n, Target: &pubsubpb.SeekRequest_Snapshot{Snapshot: sn}})
				return err
			})
			add("CreateSnapshot", fmt.Sprintf("name=%q sub=%q", sn, n), func(ctx context.Context, cc *grpc.ClientConn) error {
				_, err := S(cc).CreateSnapshot(ctx, &pubsubpb.CreateSnapshotRequest{Name: sn, Subscription: n})
				return err
			})
		}
		for _, mo := range []int64{math.MinInt64, -1, 0, 1, math.MaxInt64} {
			mo := mo
			for an, ids := range map[string][]string{"none": nil, "garbage": {"zzz"}, "live": {liveAck}, "garbage-36": {strings.Repeat("z", 36)}} {
				ids, an := ids, an
				add("StreamingPull", fmt.Sprintf("sub=%q outstanding=%d ids=%s", n, mo, an), func(ctx context.Context, cc *grpc.ClientConn) error {
					ctx, cancel := context.WithTimeout(ctx, 1500*time.Millisecond)
					defer cancel()
					st, err := S(cc).StreamingPull(ctx)
					if err != nil {
						return err
					}
					if err := st.Send(&pubsubpb.StreamingPullRequest{Subscription: n, MaxOutstandingMessages: mo, MaxOutstandingBytes: mo, AckIds: ids,
						ModifyDeadlineAckIds: ids, ModifyDeadlineSeconds: []int32{0}, StreamAckDeadlineSeconds: 10}); err != nil {
						return err
					}
					_, err = st.Recv()
					if status.Code(err) == codes.DeadlineExceeded || status.Code(err) == codes.Canceled {
						return nil // the stream was alive and simply had nothing to say
					}
					return err
				})
			}
		}
		if n != "projects/p/subscriptions/s0" {
			add("DeleteSubscription", fmt.Sprintf("sub=%q", n), func(ctx context.Context, cc *grpc.ClientConn) error {
				_, err := S(cc).DeleteSubscription(ctx, &pubsubpb.DeleteSubscriptionRequest{Subscription: n})
				return err
			})
		}
	}
	for _, mask := range [][]string{nil, {"labels"}} {
		mask := mask
		add("UpdateSubscription", fmt.Sprintf("sub=<absent> mask=%v", mask), func(ctx context.Context, cc *grpc.ClientConn) error {
			_, err := S(cc).UpdateSubscription(ctx, &pubsubpb.UpdateSubscriptionRequest{UpdateMask: &fieldmaskpb.FieldMask{Paths: mask}})
			return err
		})
	}
	for _, sn := range snapNames {
		sn := sn
		add("GetSnapshot", fmt.Sprintf("snapshot=%q", sn), func(ctx context.Context, cc *grpc.ClientConn) error {
			_, err := S(cc).GetSnapshot(ctx, &pubsubpb.GetSnapshotRequest{Snapshot: sn})
			return err
		})
		add("UpdateSnapshot", fmt.Sprintf("snapshot=%q", sn), func(ctx context.Context, cc *grpc.ClientConn) error {
			_, err := S(cc).UpdateSnapshot(ctx, &pubsubpb.UpdateSnapshotRequest{Snapshot: &pubsubpb.Snapshot{Name: sn}})
			return err
		})
		if sn != "projects/p/snapshots/n0" {
			add("DeleteSnapshot", fmt.Sprintf("snapshot=%q", sn), func(ctx context.Context, cc *grpc.ClientConn) error {
				_, err := S(cc).DeleteSnapshot(ctx, &pubsubpb.DeleteSnapshotRequest{Snapshot: sn})
				return err
			})
		}
	}
	add("DetachSubscription", "s0", func(ctx context.Context, cc *grpc.ClientConn) error {
		_, err := P(cc).DetachSubscription(ctx, &pubsubpb.DetachSubscriptionRequest{Subscription: "projects/p/subscriptions/s0"})
		return err
	})
	// the call's deadline is part of the request too: a waiting Pull (and a stream, and an
	// Acknowledge) given only a few milliseconds is answered with DEADLINE_EXCEEDED or its
	// result - and the server lives on
	for _, n := range []string{"projects/p/subscriptions/s1", "projects/p/subscriptions/unknown"} {
		n := n
		for _, dl := range []time.Duration{time.Millisecond, 40 * time.Millisecond, 300 * time.Millisecond, 900 * time.Millisecond} {
			dl := dl
			add("Pull", fmt.Sprintf("sub=%q waiting, call deadline %v", n, dl), func(ctx context.Context, cc *grpc.ClientConn) error {
				ctx, cancel := context.WithTimeout(ctx, dl)
				defer cancel()
				_, err := S(cc).Pull(ctx, &pubsubpb.PullRequest{Subscription: n, MaxMessages: 1})
				if status.Code(err) == codes.DeadlineExceeded {
					return nil // that IS the answer
				}
				return err
			})
			add("Acknowledge", fmt.Sprintf("sub=%q ids=unknown, call deadline %v", n, dl), func(ctx context.Context, cc *grpc.ClientConn) error {
				ctx, cancel := context.WithTimeout(ctx, dl)
				defer cancel()
				_, err := S(cc).Acknowledge(ctx, &pubsubpb.AcknowledgeRequest{Subscription: n, AckIds: []string{uuid.New().String()}})
				if status.Code(err) == codes.DeadlineExceeded {
					return nil
				}
				return err
			})
		}
	}
	_ = proto.Marshal
	return rs
}

type c16result struct {
	RPC     string `json:"rpc"`
	Desc    string `json:"desc"`
	Outcome string `json:"outcome"` // OK, a gRPC code, PANIC, HANG
	Changed string `json:"changed,omitempty"`
}

func cmdC16(args []string) error {
	fs := flag.NewFlagSet("c16", flag.ExitOnError)
	out := fs.String("out", "", "")
	sample := fs.Int("sample", 0, "0 = every request; n = every n-th request (plus all of the small RPCs)")
	fs.Parse(args)
	os.MkdirAll(*out, 0o755)
	// fixture, built through an in-process environment that is then shut down
	e, err := NewEnv(true)
	if err != nil {
		return err
	}
	ctx := context.Background()
	run := func(op *Op) *Obs {
		pre, _ := e.Dump(ctx)
		o, err := e.Exec(ctx, op, pre)
		if err != nil {
			panic(err)
		}
		return o
	}
	run(&Op{Kind: "CreateTopic", Name: "projects/p/topics/t0"})
	run(&Op{Kind: "CreateTopic", Name: "projects/p/topics/tdel"})
	run(&Op{Kind: "DeleteTopic", Name: "projects/p/topics/tdel"})
	run(&Op{Kind: "CreateSub", Sub: &SubReq{Name: "projects/p/subscriptions/s0", Topic: "projects/p/topics/t0"}})
	run(&Op{Kind: "CreateSub", Sub: &SubReq{Name: "projects/p/subscriptions/s1", Topic: "projects/p/topics/t0"}})
	run(pub(10, ""))
	o0 := run(&Op{Kind: "Pull", Name: "projects/p/subscriptions/s0", Max: 6})
	o1 := run(&Op{Kind: "Pull", Name: "projects/p/subscriptions/s1", Max: 1})
	ids0 := mustIDs(o0)
	run(&Op{Kind: "Ack", Name: "projects/p/subscriptions/s0", AckIDs: ids0[1:2]})
	run(&Op{Kind: "CreateSnap", Name: "projects/p/snapshots/n0", Name2: "projects/p/subscriptions/s0"})
	staleAck, foreignAck := ids0[1], mustIDs(o1)[0]
	liveAcks := append([]string{ids0[0]}, ids0[2:]...)
	dir := e.Dir
	dbPath := e.DBPath
	e.Dir = filepath.Join(dir, "nonexistent-so-close-keeps-the-db")
	e.Close()
	defer os.RemoveAll(dir)
	// parent's own read access to the database (dumps)
	pe := &Env{Dir: dir, DBPath: dbPath, T0: time.Now()}
	pe.DSN = DSNFor(dbPath)
	if pe.SQL, pe.Client, err = OpenDB(dbPath); err != nil {
		return err
	}
	defer pe.Client.Close()
	ch, err := startChild(dbPath)
	if err != nil {
		return err
	}
	defer func() { ch.stop() }()
	reqs := buildRequests(liveAcks, staleAck, foreignAck)
	var results []c16result
	outcomes := map[string]int{}
	perRPC := map[string]int{}
	for i, rq := range reqs {
		if *sample > 1 && i%*sample != 0 && (rq.RPC == "CreateSubscription" || rq.RPC == "ModifyAckDeadline" || rq.RPC == "UpdateSubscription" || rq.RPC == "StreamingPull" || rq.RPC == "ListTopicSubscriptions") {
			continue
		}
		pre, err := pe.Dump(ctx)
		if err != nil {
			return err
		}
		cctx, cancel := context.WithTimeout(ctx, 6*time.Second)
		err = rq.Call(cctx, ch.conn)
		cancel()
		r := c16result{RPC: rq.RPC, Desc: rq.Desc}
		switch {
		case err == nil:
			r.Outcome = "OK"
		default:
			r.Outcome = status.Code(err).String()
		}
		// did the server survive?
		time.Sleep(time.Millisecond)
		if !ch.alive() || r.Outcome == "Unavailable" {
			// give a dying process a moment to finish dying
			select {
			case <-ch.done:
			case <-time.After(300 * time.Millisecond):
			}
			if !ch.alive() {
				r.Outcome = "PANIC"
				ch.stop()
				if ch, err = startChild(dbPath); err != nil {
					return fmt.Errorf("restart after panic: %w", err)
				}
			}
		} else if r.Outcome == "DeadlineExceeded" {
			r.Outcome = "HANG"
		}
		// (a call cut short by its own deadline may have got as far as the pull's first transaction, the
		// expiry heartbeat - the known finding pull-heartbeat of C09 - and its answer code depends on
		// where the deadline struck: these requests are about the server staying alive)
		if r.Outcome != "OK" && !strings.Contains(rq.Desc, "call deadline") {
			post, err := pe.Dump(ctx)
			if err != nil {
				return err
			}
			// timestamps are virtual relative to the parent's clock: compare raw rows
			if eq, diff := dumpsEqual(pre, post, false); !eq {
				r.Changed = diff
			}
		}
		outcomes[r.Outcome]++
		perRPC[r.RPC]++
		results = append(results, r)
	}
	// ---- push endpoints, with the http-pusher background service running in the child ----
	// An accepted push configuration is picked up by the pusher service at once (it waits on
	// the subscription-change notifier): whatever the endpoint string, the process must
	// survive. Liveness is checked 300 ms after every request; no table comparison here
	// (the pusher writes on its own).
	ch.stop()
	if ch, err = startChild(dbPath, "-pusher"); err != nil {
		return fmt.Errorf("start with pusher: %w", err)
	}
	endpoints := []string{"http://127.0.0.1:1/push", "http://[::1", "http://push host/x", "%zz", "http://example.com:port/push", "not a url",
		"", "http://", "://", "http://127.0.0.1:1/\x00", "ftp://127.0.0.1:1/x", "http://127.0.0.1:99999/"}
	for i, ep := range endpoints {
		ep := ep
		name := fmt.Sprintf("projects/p/subscriptions/push%02d", i)
		calls := []struct {
			rpc  string
			call func(context.Context, *grpc.ClientConn) error
		}{
			{"CreateSubscription", func(ctx context.Context, cc *grpc.ClientConn) error {
				_, err := pubsubpb.NewSubscriberClient(cc).CreateSubscription(ctx, &pubsubpb.Subscription{Name: name, Topic: "projects/p/topics/t0",
					PushConfig: &pubsubpb.PushConfig{PushEndpoint: ep}})
				return err
			}},
			{"ModifyPushConfig", func(ctx context.Context, cc *grpc.ClientConn) error {
				_, err := pubsubpb.NewSubscriberClient(cc).ModifyPushConfig(ctx, &pubsubpb.ModifyPushConfigRequest{Subscription: "projects/p/subscriptions/s1",
					PushConfig: &pubsubpb.PushConfig{PushEndpoint: ep}})
				return err
			}},
			{"ModifyPushConfig", func(ctx context.Context, cc *grpc.ClientConn) error {
				_, err := pubsubpb.NewSubscriberClient(cc).ModifyPushConfig(ctx, &pubsubpb.ModifyPushConfigRequest{Subscription: "projects/p/subscriptions/s1",
					PushConfig: &pubsubpb.PushConfig{}})
				return err
			}},
		}
		for _, c := range calls {
			cctx, cancel := context.WithTimeout(ctx, 6*time.Second)
			err := c.call(cctx, ch.conn)
			cancel()
			r := c16result{RPC: c.rpc, Desc: fmt.Sprintf("push endpoint %q, http-pusher service running", ep), Outcome: "OK"}
			if err != nil {
				r.Outcome = status.Code(err).String()
			}
			select {
			case <-ch.done:
			case <-time.After(300 * time.Millisecond):
			}
			if !ch.alive() {
				r.Outcome = "PANIC"
				if b, e2 := os.ReadFile(dbPath + ".server.log"); e2 == nil {
					if len(b) > 1500 {
						b = b[len(b)-1500:]
					}
					r.Changed = "server log: " + string(b)
				}
				ch.stop()
				if ch, err = startChild(dbPath, "-pusher"); err != nil {
					// the stored configuration crashes the service on every start: go on without it
					if ch, err = startChild(dbPath); err != nil {
						return fmt.Errorf("restart after panic: %w", err)
					}
				}
			} else if r.Outcome == "DeadlineExceeded" {
				r.Outcome = "HANG"
			}
			outcomes[r.Outcome]++
			perRPC[r.RPC]++
			results = append(results, r)
		}
	}
	// ---- a history of many open calls on one connection: 120 idle StreamingPull streams (a client
	// with many subscribers) stay open while ordinary requests on the same connection are answered
	{
		var cancels []context.CancelFunc
		opened := 0
		for i := 0; i < 120; i++ {
			sctx, cancel := context.WithCancel(ctx)
			cancels = append(cancels, cancel)
			// (opening blocks on the client side when the server limits the streams per connection)
			okc := make(chan bool, 1)
			go func() {
				st, err := pubsubpb.NewSubscriberClient(ch.conn).StreamingPull(sctx)
				if err != nil {
					okc <- false
					return
				}
				okc <- st.Send(&pubsubpb.StreamingPullRequest{Subscription: "projects/p/subscriptions/s1", StreamAckDeadlineSeconds: 10, MaxOutstandingMessages: 1}) == nil
			}()
			good := false
			select {
			case good = <-okc:
			case <-time.After(2 * time.Second):
			}
			if !good {
				r := c16result{RPC: "StreamingPull", Desc: fmt.Sprintf("opening stream %d on a connection with %d idle streams", i+1, opened), Outcome: "HANG"}
				outcomes[r.Outcome]++
				perRPC[r.RPC]++
				results = append(results, r)
				break
			}
			opened++
		}
		time.Sleep(300 * time.Millisecond)
		for _, rq := range []struct {
			rpc  string
			call func(context.Context) error
		}{
			{"GetTopic", func(c context.Context) error {
				_, err := pubsubpb.NewPublisherClient(ch.conn).GetTopic(c, &pubsubpb.GetTopicRequest{Topic: "projects/p/topics/t0"})
				return err
			}},
			{"GetSubscription", func(c context.Context) error {
				_, err := pubsubpb.NewSubscriberClient(ch.conn).GetSubscription(c, &pubsubpb.GetSubscriptionRequest{Subscription: "projects/p/subscriptions/unknown"})
				return err
			}},
		} {
			cctx, cancel := context.WithTimeout(ctx, 5*time.Second)
			err := rq.call(cctx)
			cancel()
			r := c16result{RPC: rq.rpc, Desc: fmt.Sprintf("with %d idle StreamingPull streams open on the same connection", opened), Outcome: "OK"}
			if err != nil {
				r.Outcome = status.Code(err).String()
			}
			if !ch.alive() {
				r.Outcome = "PANIC"
			} else if r.Outcome == "DeadlineExceeded" {
				r.Outcome = "HANG"
			}
			outcomes[r.Outcome]++
			perRPC[r.RPC]++
			results = append(results, r)
		}
		for _, c := range cancels {
			c()
		}
		time.Sleep(100 * time.Millisecond)
	}
	ch.stop()
	return writeJSON(filepath.Join(*out, "c16.json"), map[string]interface{}{"requests": len(results), "total_domain": len(reqs) + 3*len(endpoints) + 2, "outcomes": outcomes,
		"per_rpc": perRPC, "results": results, "exhaustive": *sample <= 1})
}

func init() {
	subcmds["serve"] = cmdServe
	subcmds["c16"] = cmdC16
}
