package main

// Env: the real system under test -- an ent client on a fresh SQLite database (through the
// wrapped driver), the production gRPC server on a loop-back port, gRPC clients, and the
// virtual clock.

import (
	"context"
	"database/sql"
	"fmt"
	"net"
	"os"
	"path/filepath"
	"sort"
	"sync"
	"time"

	"entgo.io/ent/dialect"
	entsql "entgo.io/ent/dialect/sql"
	"github.com/google/uuid"
	"google.golang.org/grpc"
	"google.golang.org/grpc/credentials/insecure"

	"go.6river.tech/mmmbbb/db"
	"go.6river.tech/mmmbbb/ent"
	_ "go.6river.tech/mmmbbb/ent/runtime"
	"go.6river.tech/mmmbbb/faults"
	mbgrpc "go.6river.tech/mmmbbb/grpc"
	"go.6river.tech/mmmbbb/grpc/pubsubpb"
	"go.6river.tech/mmmbbb/logging"
	"go.6river.tech/mmmbbb/services"
)

type Env struct {
	Dir    string
	DBPath string
	DSN    string
	SQL    *sql.DB
	Client *ent.Client
	Faults *faults.Set
	Port   int
	Conn   *grpc.ClientConn
	Pub    pubsubpb.PublisherClient
	Sub    pubsubpb.SubscriberClient

	// virtual time = real time - T0 + Offset  (nanoseconds)
	T0     time.Time
	Offset time.Duration

	cancel  context.CancelFunc
	svcDone chan error
	svc     interface {
		Cleanup(context.Context) error
	}
}

func scratchRoot() string {
	if d := os.Getenv("VERIF_SCRATCH"); d != "" {
		return d
	}
	if st, err := os.Stat("/dev/shm"); err == nil && st.IsDir() {
		return "/dev/shm"
	}
	return os.TempDir()
}

func freePort() (int, error) {
	l, err := net.Listen("tcp", "127.0.0.1:0")
	if err != nil {
		return 0, err
	}
	defer l.Close()
	return l.Addr().(*net.TCPAddr).Port, nil
}

var migrateMu sync.Mutex

var loggingOnce = false

func quietLogging() {
	if !loggingOnce {
		loggingOnce = true
		if os.Getenv("VERIF_LOG") == "" {
			os.Setenv("LOG_LEVEL", "fatal")
		}
		logging.ConfigureDefaultLogging()
	}
}

func DSNFor(path string) string { return db.SQLiteDSN(path, true, false) }

// OpenDB opens (creating and migrating if needed) the SQLite database at path.
func OpenDB(path string) (*sql.DB, *ent.Client, error) {
	dsn := DSNFor(path)
	conn, err := sql.Open(WrappedDriverName, dsn)
	if err != nil {
		return nil, nil, err
	}
	conn.SetMaxOpenConns(10)
	conn.SetMaxIdleConns(10)
	client := ent.NewClient(ent.Driver(entsql.OpenDB(dialect.SQLite, conn)))
	if err := conn.Ping(); err != nil {
		return nil, nil, err
	}
	// ent's schema migration mutates package-level table descriptions
	migrateMu.Lock()
	err = db.MigrateUpEnt(context.Background(), client.Schema)
	migrateMu.Unlock()
	if err != nil {
		return nil, nil, err
	}
	return conn, client, nil
}

func NewEnv(withServer bool) (*Env, error) {
	quietLogging()
	dir, err := os.MkdirTemp(scratchRoot(), "verif-mmmbbb-")
	if err != nil {
		return nil, err
	}
	e := &Env{Dir: dir, DBPath: filepath.Join(dir, "db"), T0: time.Now()}
	e.DSN = DSNFor(e.DBPath)
	e.SQL, e.Client, err = OpenDB(e.DBPath)
	if err != nil {
		os.RemoveAll(dir)
		return nil, err
	}
	if withServer {
		if err := e.startServer(); err != nil {
			e.Close()
			return nil, err
		}
	}
	return e, nil
}

func (e *Env) startServer() error {
	// the port found free can be taken (by another environment of this or of another process)
	// before the server binds it: retry on another one
	var last error
	for try := 0; try < 8; try++ {
		port, err := freePort()
		if err != nil {
			return err
		}
		if last = e.startServerOn(port); last == nil {
			return nil
		}
		if e.cancel != nil {
			e.cancel()
		}
	}
	return last
}

func (e *Env) startServerOn(port int) error {
	var err error
	e.Port = port
	e.Faults = faults.NewSet(fmt.Sprintf("verif%d", port))
	svc := mbgrpc.NewGrpcService(port, 0, nil, e.Faults,
		func(_ context.Context, server *grpc.Server, client *ent.Client) error {
			return services.InitializeGrpcServers(server, client, nil)
		})
	ctx, cancel := context.WithCancel(context.Background())
	e.cancel = cancel
	if err := svc.Initialize(ctx, e.Client); err != nil {
		return err
	}
	e.svc = svc
	ready := make(chan struct{})
	e.svcDone = make(chan error, 1)
	go func() { e.svcDone <- svc.Start(ctx, ready) }()
	select {
	case <-ready:
	case err := <-e.svcDone:
		return fmt.Errorf("grpc service failed to start: %v", err)
	case <-time.After(10 * time.Second):
		return fmt.Errorf("grpc service start timeout")
	}
	// the service closes [ready] also when it could NOT open its port (and then returns the
	// error): without this look a client would be connected to whoever does listen on that
	// port -- another environment's server, i.e. two histories on one database
	select {
	case err := <-e.svcDone:
		return fmt.Errorf("grpc service failed to start: %v", err)
	case <-time.After(40 * time.Millisecond):
	}
	conn, err := grpc.NewClient(fmt.Sprintf("127.0.0.1:%d", port),
		grpc.WithTransportCredentials(insecure.NewCredentials()))
	if err != nil {
		return err
	}
	e.Conn = conn
	e.Pub = pubsubpb.NewPublisherClient(conn)
	e.Sub = pubsubpb.NewSubscriberClient(conn)
	return nil
}

func (e *Env) Close() {
	if e.Conn != nil {
		e.Conn.Close()
	}
	// Cleanup before cancelling: the server's own shutdown goroutine (grpc/server.go Start)
	// re-reads s.server after its nil check, so cancelling first can race with Cleanup
	// setting it to nil and crash the process on the way out
	if e.svc != nil {
		_ = e.svc.Cleanup(context.Background())
	}
	if e.cancel != nil {
		e.cancel()
	}
	if e.Client != nil {
		e.Client.Close()
	}
	SetDBHook(e.DSN, nil)
	os.RemoveAll(e.Dir)
}

// ---- virtual clock ----

// VNow is the current virtual time in nanoseconds.
func (e *Env) VNow() int64 { return int64(time.Since(e.T0) + e.Offset) }

// ToVirtual converts a timestamp stored by (or received from) the implementation.
func (e *Env) ToVirtual(t time.Time) int64 { return int64(t.Sub(e.T0) + e.Offset) }

// ToReal converts a virtual time to what the implementation must be given now.
func (e *Env) ToReal(v int64) time.Time { return e.T0.Add(time.Duration(v) - e.Offset) }

var timeCols = map[string][]string{
	"topics":        {"created_at", "deleted_at"},
	"subscriptions": {"created_at", "expires_at", "deleted_at"},
	"messages":      {"published_at"},
	"deliveries":    {"published_at", "attempt_at", "last_attempted_at", "completed_at", "expires_at"},
	"snapshots":     {"created_at", "expires_at", "acked_messages_before"},
}

// Advance moves the virtual clock forward by d: every stored timestamp is moved back by
// d, which is indistinguishable, to code that only compares time.Now() with stored or
// request-carried times, from d having elapsed.
func (e *Env) Advance(d time.Duration) error {
	if d == 0 {
		return nil
	}
	ctx := context.Background()
	tx, err := e.SQL.BeginTx(ctx, nil)
	if err != nil {
		return err
	}
	defer tx.Rollback()
	tables := make([]string, 0, len(timeCols))
	for t := range timeCols {
		tables = append(tables, t)
	}
	sort.Strings(tables)
	for _, tbl := range tables {
		for _, col := range timeCols[tbl] {
			rows, err := tx.QueryContext(ctx, fmt.Sprintf("SELECT id, %s FROM %s WHERE %s IS NOT NULL", col, tbl, col))
			if err != nil {
				return err
			}
			type upd struct {
				id uuid.UUID
				t  time.Time
			}
			var upds []upd
			for rows.Next() {
				var u upd
				if err := rows.Scan(&u.id, &u.t); err != nil {
					rows.Close()
					return fmt.Errorf("scan %s.%s: %w", tbl, col, err)
				}
				upds = append(upds, u)
			}
			rows.Close()
			for _, u := range upds {
				if _, err := tx.ExecContext(ctx, fmt.Sprintf("UPDATE %s SET %s = ? WHERE id = ?", tbl, col), u.t.Add(-d), u.id); err != nil {
					return err
				}
			}
		}
	}
	if err := tx.Commit(); err != nil {
		return err
	}
	e.Offset += d
	return nil
}
