package main

// services-fault: the transaction handling of the background prune services under storage
// faults (C09). The service object is long-lived and re-uses one action object for every
// tick, so what matters is a LATER run failing after an earlier run succeeded:
//
//   prune-deleted-topics is started on a state with one prunable topic A and one topic B
//   (with a left-over snapshot: the run then has two writes, DELETE snapshots and DELETE
//   topics) that is not yet old enough. Run 1 prunes A (0 < n < batch: the service keeps its
//   100 ms cadence). Before run 2 begins its transaction the harness holds it at the driver,
//   ages B past the threshold, arms a fault on statement k of the run, and lets it go.
//   The run must leave every table as it was (for k = COMMIT too), and the next, unfaulted
//   run must prune B together with its snapshot.
//
// Every statement position of run 2 is tried (BEGIN, SELECT, DELETE, DELETE, COMMIT).

import (
	"context"
	"flag"
	"fmt"
	"os"
	"path/filepath"
	"sync"
	"time"
)

type svcFaultResult struct {
	K         int    `json:"k"`
	Of        int    `json:"of"`
	Call      string `json:"call"`
	Run1Rows  int    `json:"run1_rows"`
	Reached   bool   `json:"fault_reached"`
	Unchanged bool   `json:"unchanged"`
	Diff      string `json:"diff,omitempty"`
	NextOK    bool   `json:"next_run_prunes"`
	Skip      string `json:"skip,omitempty"`
	Blocked   string `json:"writer_blocked,omitempty"`
	Stalled   string `json:"stalled,omitempty"`
}

func svcFaultOnce(k int) (*svcFaultResult, error) {
	ctx := context.Background()
	e, err := NewEnv(true)
	if err != nil {
		return nil, err
	}
	defer e.Close()
	pre, err := e.Dump(ctx)
	if err != nil {
		return nil, err
	}
	run := func(op *Op) error {
		o, err := e.Exec(ctx, op, pre)
		if err != nil {
			return err
		}
		if o.Resp.Kind == "err" {
			return fmt.Errorf("setup step %s failed: %s", op.Kind, o.Resp.Msg)
		}
		pre = o.Post
		return nil
	}
	adv := func(d time.Duration) error {
		if err := e.Advance(d); err != nil {
			return err
		}
		pre, err = e.Dump(ctx)
		return err
	}
	tA, tB, tL := "projects/p/topics/a", "projects/p/topics/b", "projects/p/topics/live"
	sB := "projects/p/subscriptions/sb"
	for _, op := range []*Op{{Kind: "CreateTopic", Name: tA}, {Kind: "CreateTopic", Name: tL}, {Kind: "DeleteTopic", Name: tA}} {
		if err := run(op); err != nil {
			return nil, err
		}
	}
	if err := adv(50 * time.Minute); err != nil {
		return nil, err
	}
	for _, op := range []*Op{
		{Kind: "CreateTopic", Name: tB},
		{Kind: "CreateSub", Sub: &SubReq{Name: sB, Topic: tB}},
		{Kind: "DeleteTopic", Name: tB},
		{Kind: "CreateSnap", Name: "projects/p/snapshots/nb", Name2: sB},
		{Kind: "DeleteSub", Name: sB},
	} {
		if err := run(op); err != nil {
			return nil, err
		}
	}
	if err := adv(3 * time.Second); err != nil {
		return nil, err
	}
	for _, j := range []string{"PruneDeletedSubDeliveries", "PruneDeletedSubs"} {
		if err := run(&Op{Kind: "Job", Job: j, MinAge: time.Second, MaxN: 100}); err != nil {
			return nil, err
		}
	}
	if err := adv(15 * time.Minute); err != nil { // A: 65 min deleted, B: 15 min
		return nil, err
	}
	r := &svcFaultResult{K: k}
	if len(pre.Snaps) != 1 || len(pre.Topics) != 3 {
		r.Skip = fmt.Sprintf("setup did not produce the left-over snapshot (%d snapshots, %d topics)", len(pre.Snaps), len(pre.Topics))
		return r, nil
	}

	// phases: 0 run 1 in progress; 1 run 1 committed, waiting for run 2's BEGIN; 2 held at
	// the gate (harness statements pass); 3 armed; 4 run 2 over
	var mu sync.Mutex
	phase, n := 0, 0
	atGate, gate, over := make(chan struct{}), make(chan struct{}), make(chan struct{})
	late := make(chan struct{}, 1)
	SetDBHook(e.DSN, func(_ context.Context, kind CallKind, q string, after bool) error {
		mu.Lock()
		ph := phase
		mu.Unlock()
		switch ph {
		case 0:
			if after && kind == KCommit {
				mu.Lock()
				phase = 1
				mu.Unlock()
			}
		case 1:
			if !after && kind == KBegin {
				mu.Lock()
				phase = 2
				mu.Unlock()
				close(atGate)
				<-gate
				return svcFaultAt(&mu, &phase, &n, k, r, kind, over)
			}
		case 5:
			// (watching for a late second run; the harness issues no statement in this phase)
			if !after && kind == KBegin {
				select {
				case late <- struct{}{}:
				default:
				}
			}
		case 3:
			if !after && kind != KRollback {
				return svcFaultAt(&mu, &phase, &n, k, r, kind, over)
			}
			if after && (kind == KCommit || kind == KRollback) {
				mu.Lock()
				if phase == 3 {
					phase = 4
					close(over)
				}
				mu.Unlock()
			}
		}
		return nil
	})
	defer SetDBHook(e.DSN, nil)

	svc := serviceByName("prune-deleted-topics")
	if svc == nil {
		return nil, fmt.Errorf("no service prune-deleted-topics")
	}
	sctx, cancel := context.WithCancel(ctx)
	defer cancel()
	if err := svc.Initialize(sctx, e.Client); err != nil {
		return nil, err
	}
	ready, done := make(chan struct{}), make(chan error, 1)
	go func() { done <- svc.Start(sctx, ready) }()
	stop := func() {
		cancel()
		select {
		case <-done:
		case <-time.After(5 * time.Second):
		}
		svc.Cleanup(context.Background())
	}
	select {
	case <-atGate:
	case <-time.After(5 * time.Second):
		// run 1 pruned nothing or a full batch: the service went to its one-minute interval.
		// After a PARTIAL batch the pace is the unchanged 100 ms tick; a service that does not run
		// again even within its full interval (60 s + up to 10 s fuzz) never will: everything that
		// dies later stays behind. (The long wait is only paid when the anomaly shows.)
		partial := 0
		mu.Lock()
		phase = 4 // (the harness's own statements pass)
		mu.Unlock()
		if mid, err := e.Dump(ctx); err == nil {
			partial = len(pre.Topics) - len(mid.Topics)
		}
		if partial > 0 && partial < 100 && k == 1 {
			mu.Lock()
			phase = 5
			mu.Unlock()
			select {
			case <-late:
				// it does run again, only at another pace: not stuck
				mu.Lock()
				phase = 4
				mu.Unlock()
				stop()
				r.Skip = "after a partial batch the service ran again only at its long interval"
				return r, nil
			case <-time.After(75 * time.Second):
			}
			r.Run1Rows = partial
			r.Stalled = fmt.Sprintf("run 1 pruned %d topic(s) (a partial batch: fewer than MaxDelete = 100); the service did not run again within 80 s (interval 60 s + at most 10 s fuzz): it is stuck", partial)
		}
		mu.Lock()
		phase = 4
		mu.Unlock()
		stop()
		if r.Skip == "" {
			r.Skip = "the service did not start a second run within 5 s"
		}
		return r, nil
	}
	mid, err := e.Dump(ctx)
	if err != nil {
		close(gate)
		stop()
		return nil, err
	}
	r.Run1Rows = len(pre.Topics) - len(mid.Topics)
	if err := e.Advance(50 * time.Minute); err != nil { // B: 65 min deleted
		close(gate)
		stop()
		return nil, err
	}
	pre2, err := e.Dump(ctx)
	if err != nil {
		close(gate)
		stop()
		return nil, err
	}
	mu.Lock()
	phase, n = 3, 0
	mu.Unlock()
	close(gate)
	select {
	case <-over:
	case <-time.After(5 * time.Second):
		mu.Lock()
		phase = 4
		mu.Unlock()
	}
	time.Sleep(20 * time.Millisecond)
	mu.Lock()
	phase = 4
	r.Of = n
	mu.Unlock()
	// while the service is STILL RUNNING: another writer must get through (a failed run that
	// leaks its transaction keeps the write lock until the service stops)
	if r.Reached && r.Call != "begin" {
		t0 := time.Now()
		wctx, wcancel := context.WithTimeout(ctx, 4*time.Second)
		o, werr := e.execNoDump(wctx, &Op{Kind: "CreateTopic", Name: "projects/p/topics/probe"}, pre2)
		wcancel()
		if werr != nil || (o != nil && o.Resp.Kind == "err") || time.Since(t0) > 2*time.Second {
			msg := ""
			if werr != nil {
				msg = werr.Error()
			} else if o != nil {
				msg = o.Resp.Msg
			}
			r.Blocked = fmt.Sprintf("a CreateTopic issued right after the failed run took %v: %s", time.Since(t0).Round(time.Millisecond), msg)
		} else {
			// undo the probe so that the table comparison below is about the failed run only
			e.SQL.ExecContext(ctx, "DELETE FROM topics WHERE name = ?", "projects/p/topics/probe")
		}
	}
	stop()
	SetDBHook(e.DSN, nil)
	post2, err := e.Dump(ctx)
	if err != nil {
		return nil, err
	}
	r.Unchanged, r.Diff = dumpsEqual(pre2, post2, false)
	// an unfaulted run afterwards prunes B and its snapshot
	if err := runServiceOnce(e, "prune-deleted-topics", 400*time.Millisecond); err != nil {
		return nil, err
	}
	post3, err := e.Dump(ctx)
	if err != nil {
		return nil, err
	}
	r.NextOK = len(post3.Topics) == 1 && len(post3.Snaps) == 0
	return r, nil
}

// svcFaultAt counts the statements of the armed run and fails the k-th
func svcFaultAt(mu *sync.Mutex, phase, n *int, k int, r *svcFaultResult, kind CallKind, over chan struct{}) error {
	mu.Lock()
	defer mu.Unlock()
	if *phase != 3 {
		return nil
	}
	*n++
	if *n == k {
		r.Reached = true
		r.Call = string(kind)
		if kind == KBegin || kind == KCommit {
			// no commit / rollback will follow a failed BEGIN; a failed COMMIT is followed by
			// the driver's own cleanup only
			*phase = 4
			close(over)
		}
		return errInjected
	}
	return nil
}

func cmdServicesFault(args []string) error {
	fs := flag.NewFlagSet("services-fault", flag.ExitOnError)
	out := fs.String("out", "", "")
	fs.Parse(args)
	if *out == "" {
		return fmt.Errorf("-out required")
	}
	os.MkdirAll(*out, 0o755)
	var results []*svcFaultResult
	for k := 1; k <= 5; k++ {
		r, err := svcFaultOnce(k)
		if err != nil {
			return fmt.Errorf("k=%d: %w", k, err)
		}
		results = append(results, r)
	}
	return writeJSON(filepath.Join(*out, "svcfault.json"), map[string]interface{}{"results": results})
}
func init() { subcmds["services-fault"] = cmdServicesFault }
