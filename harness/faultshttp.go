package main

// faults-http: the fault injection API as a user reaches it -- descriptions added through
// POST /faults/inject of the real controller (built through the application's fx module),
// listed through GET /faults, fired by Set.Check -- against the sequential model Faults.srun.
// What the JSON layer does to the count (omitted = unlimited, 0 = never fires, negative) is
// part of the property: "a fault fires exactly min(count, matching calls) times".

import (
	"bytes"
	"encoding/json"
	"flag"
	"fmt"
	"math/rand"
	"net/http"
	"net/http/httptest"
	"os"
	"path/filepath"
	"strings"

	"github.com/gin-gonic/gin"
	"go.uber.org/fx"
	"google.golang.org/grpc/codes"
	"google.golang.org/grpc/status"

	"go.6river.tech/mmmbbb/controllers"
	"go.6river.tech/mmmbbb/faults"
	"go.6river.tech/mmmbbb/oas"
)

var httpErrTypes = []struct {
	name string
	code codes.Code
}{{"grpc.Aborted", codes.Aborted}, {"grpc.AlreadyExists", codes.AlreadyExists}, {"grpc.DataLoss", codes.DataLoss}, {"grpc.DeadlineExceeded", codes.DeadlineExceeded},
	{"grpc.FailedPrecondition", codes.FailedPrecondition}, {"grpc.Internal", codes.Internal}, {"grpc.InvalidArgument", codes.InvalidArgument}, {"grpc.NotFound", codes.NotFound},
	{"grpc.OutOfRange", codes.OutOfRange}, {"grpc.PermissionDenied", codes.PermissionDenied}, {"grpc.ResourceExhausted", codes.ResourceExhausted},
	{"grpc.Unauthenticated", codes.Unauthenticated}, {"grpc.Unavailable", codes.Unavailable}, {"grpc.Unimplemented", codes.Unimplemented}, {"grpc.Unknown", codes.Unknown}}

func faultServer(set *faults.Set) (*httptest.Server, error) {
	var cs []controllers.Controller
	app := fx.New(fx.NopLogger, controllers.Module, fx.Supply(set),
		fx.Invoke(fx.Annotate(func(l []controllers.Controller) { cs = l }, fx.ParamTags(controllers.ControllersTag))))
	if err := app.Err(); err != nil {
		return nil, err
	}
	gin.SetMode(gin.ReleaseMode)
	r := gin.New()
	found := false
	for _, c := range cs {
		if fc, ok := c.(*controllers.FaultInjectorController); ok {
			if err := fc.Register(r); err != nil {
				return nil, err
			}
			found = true
		}
	}
	if !found {
		return nil, fmt.Errorf("the application's controllers module provides no FaultInjectorController")
	}
	return httptest.NewServer(r), nil
}

func cmdFaultsHTTP(args []string) error {
	fs := flag.NewFlagSet("faults-http", flag.ExitOnError)
	seed := fs.Int64("seed", 1, "")
	n := fs.Int("n", 120, "histories")
	out := fs.String("out", "", "")
	fs.Parse(args)
	os.MkdirAll(*out, 0o755)
	r := rand.New(rand.NewSource(*seed))
	var b strings.Builder
	b.WriteString("From MB Require Import Base Faults.\nOpen Scope list_scope.\n")
	// (the remaining count handed to the fault's error factory is not visible through the API:
	// which description fired is, and every listing shows the exact counts)
	b.WriteString("Definition proj (o : sout) : sout := match o with OCheck (Some (i, _)) => OCheck (Some (i, 0%Z)) | o => o end.\n")
	b.WriteString("Definition sout_eqb (a b : sout) : bool := match a, b with OUnit, OUnit => true | OCheck x, OCheck y => opt_eqb (pair_eqb Nat.eqb Z.eqb) x y | OCurrent x, OCurrent y => list_eqb (pair_eqb Nat.eqb Z.eqb) x y | _, _ => false end.\n")
	b.WriteString("Definition chk (ops : list sop) (obs : list sout) : bool := list_eqb sout_eqb (map proj (srun [] ops)) obs.\n")
	b.WriteString("Definition cases : list (nat * (list sop * list sout)) := [\n")
	stats := map[string]int{}
	var samples []string
	for h := 0; h < *n; h++ {
		set := faults.NewSet(fmt.Sprintf("http%d", h))
		srv, err := faultServer(set)
		if err != nil {
			return err
		}
		var ops, obs []string
		nd := 0
		steps := 6 + r.Intn(24)
		for i := 0; i < steps; i++ {
			switch k := r.Intn(10); {
			case k < 3 && nd < len(httpErrTypes):
				d := fdesc{Op: fOps[r.Intn(len(fOps))], Params: randParams(r, 2)}
				body := map[string]interface{}{"operation": d.Op, "error": httpErrTypes[nd].name}
				if d.Params != nil {
					body["parameters"] = d.Params
				}
				switch c := r.Intn(8); {
				case c == 0: // omitted: unlimited
					d.Count = 9223372036854775807
					stats["add_count_omitted"]++
				default:
					d.Count = []int64{0, 0, 1, 1, 2, 3, -1}[c-1]
					body["count"] = d.Count
					if d.Count == 0 {
						stats["add_count_zero"]++
					}
				}
				js, _ := json.Marshal(body)
				resp, err := srv.Client().Post(srv.URL+"/faults/inject", "application/json", bytes.NewReader(js))
				if err != nil {
					return err
				}
				var cf oas.ConfiguredFault
				derr := json.NewDecoder(resp.Body).Decode(&cf)
				resp.Body.Close()
				if resp.StatusCode != http.StatusCreated || derr != nil {
					return fmt.Errorf("POST /faults/inject %s: status %d %v", js, resp.StatusCode, derr)
				}
				if cf.Count != d.Count {
					// the answer echoes the configured fault: report through the model comparison
					// (the next listing differs too); keep going
					stats["echo_differs"]++
				}
				nd++
				ops = append(ops, "SAdd "+coqDesc(d))
				obs = append(obs, "OUnit")
				stats["add"]++
			case k < 9:
				op := fOps[r.Intn(len(fOps))]
				ps := randParams(r, 3)
				err := set.Check(op, ps)
				ops = append(ops, fmt.Sprintf("SCheck %s %s", coqStr(op), coqMap(ps)))
				if err == nil {
					obs = append(obs, "OCheck None")
					stats["check_pass"]++
					break
				}
				idx := -1
				for j, et := range httpErrTypes {
					if status.Code(err) == et.code {
						idx = j
					}
				}
				obs = append(obs, fmt.Sprintf("OCheck (Some (%d%%nat, 0%%Z))", idx+1000*boolInt(idx < 0)))
				stats["check_fired"]++
			default:
				op := fOps[r.Intn(len(fOps))]
				resp, err := srv.Client().Get(srv.URL + "/faults")
				if err != nil {
					return err
				}
				var l []oas.ConfiguredFault
				derr := json.NewDecoder(resp.Body).Decode(&l)
				resp.Body.Close()
				if derr != nil {
					return derr
				}
				var parts []string
				for _, cf := range l {
					if cf.Operation != op {
						continue
					}
					idx := 999
					for j, et := range httpErrTypes {
						if cf.FaultDescription != nil && *cf.FaultDescription == et.name {
							idx = j
						}
					}
					parts = append(parts, fmt.Sprintf("(%d%%nat, %s)", idx, coqZ(cf.Count)))
				}
				ops = append(ops, "SCurrent "+coqStr(op))
				obs = append(obs, "OCurrent ["+strings.Join(parts, "; ")+"]")
				stats["current"]++
			}
		}
		srv.Close()
		if h > 0 {
			b.WriteString(";\n")
		}
		c := fmt.Sprintf("(%d%%nat, ([%s], [%s]))", h, strings.Join(ops, "; "), strings.Join(obs, "; "))
		b.WriteString(c)
		if len(samples) < 2 {
			samples = append(samples, c)
		}
	}
	b.WriteString("].\nDefinition bad := Eval vm_compute in map fst (filter (fun c => negb (chk (fst (snd c)) (snd (snd c)))) cases).\nPrint bad.\n")
	if err := os.WriteFile(filepath.Join(*out, "faults_http.v"), []byte(b.String()), 0o644); err != nil {
		return err
	}
	return writeJSON(filepath.Join(*out, "faults_http.json"), map[string]interface{}{"histories": *n, "stats": stats, "samples": samples})
}

func boolInt(b bool) int {
	if b {
		return 1
	}
	return 0
}

func init() { subcmds["faults-http"] = cmdFaultsHTTP }
