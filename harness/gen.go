package main

// History generator for the Bus engine. Everything random derives from one PRNG seeded
// from VERIF_SEED and the history index, so a failing history can be regenerated.

import (
	"fmt"
	"math/rand"
	"os"
	"strings"
	"time"

	"github.com/google/uuid"
)

type Gen struct {
	r       *rand.Rand
	profile string
	// bookkeeping
	ackIDs   []string // every ack id ever returned (live and stale)
	snapsN   int
	stepNo   int
	lastTok  map[string]string
	script   []scriptStep // scenario template still to be played (scenarios.go)
	Scenario string
}

func NewGen(seed int64, profile string) *Gen {
	g := &Gen{r: rand.New(rand.NewSource(seed)), profile: profile, lastTok: map[string]string{}}
	if profile == "many" {
		g.Scenario = "many"
		g.script = manyScript()
		g.stepNo = 3
		return g
	}
	if strings.HasPrefix(profile, "fanout") {
		n := 230
		fmt.Sscanf(profile, "fanout%d", &n)
		g.Scenario = "fanout"
		g.script = fanoutScript(n)
		g.stepNo = 3
		return g
	}
	if strings.HasPrefix(profile, "bulk") {
		n := 520
		fmt.Sscanf(profile, "bulk%d", &n)
		g.Scenario = "bulk"
		g.script = bulkScript(n)
		g.stepNo = 3
		return g
	}
	if forced := os.Getenv("VERIF_SCENARIO"); forced != "" && genScenarios[forced] != nil {
		// (debugging aid: every history starts with the named template)
		g.Scenario = forced
		g.script = genScenarios[forced](g)
		g.stepNo = 3
	} else if names := scenariosFor(profile); len(names) > 0 && seed%4 != 0 {
		// three histories out of four start with a template, taken in rotation (history seeds are
		// consecutive): with 48 histories every template of the profile (36 at most) is used at
		// least once, whatever the base seed (a random choice left some templates out of a
		// quick run); the engine reports the templates used as scenario:<name> counters
		g.Scenario = names[int((seed-seed/4-1)%int64(len(names)))]
		g.script = genScenarios[g.Scenario](g)
		g.stepNo = 3
	}
	return g
}

func (g *Gen) pick(ss []string) string { return ss[g.r.Intn(len(ss))] }
func (g *Gen) chance(p float64) bool   { return g.r.Float64() < p }

var projects = []string{"p", "p", "p", "P", "p%", "p_", "pp", "p/x", "pé", "pé", "é"}

func (g *Gen) project() string {
	if g.profile == "names" {
		return g.pick(projects)
	}
	if g.chance(0.9) {
		return "p"
	}
	return g.pick(projects)
}
func (g *Gen) topicName() string {
	if g.chance(0.03) {
		return g.pick([]string{"", "projects/p/topics/", "projects//topics/t0", "projects/p/subscriptions/s0", "topics/t0", "projects/p/topics/t0/x"})
	}
	return fmt.Sprintf("projects/%s/topics/t%d", g.project(), g.r.Intn(4))
}
func (g *Gen) subName() string {
	if g.chance(0.03) {
		return g.pick([]string{"", "projects/p/subscriptions/", "projects/p/topics/t0", "s0", "projects/p/subscriptions/s0/x"})
	}
	return fmt.Sprintf("projects/%s/subscriptions/s%d", g.project(), g.r.Intn(5))
}
func (g *Gen) snapName() string {
	if g.chance(0.03) {
		return g.pick([]string{"", "projects/p/snapshots/", "projects/p/subscriptions/s0"})
	}
	return fmt.Sprintf("projects/%s/snapshots/n%d", g.project(), g.r.Intn(3))
}

// existing live names from the dump, falling back to the pools
func (g *Gen) liveTopic(d *Dump) string {
	var live []string
	for _, t := range d.Topics {
		if t.Deleted == nil {
			live = append(live, t.Name)
		}
	}
	if len(live) > 0 && g.chance(0.9) {
		return g.pick(live)
	}
	return g.topicName()
}
func (g *Gen) liveSub(d *Dump) string {
	var live []string
	for _, s := range d.Subs {
		if s.Deleted == nil {
			live = append(live, s.Name)
		}
	}
	if len(live) > 0 && g.chance(0.92) {
		return g.pick(live)
	}
	return g.subName()
}
func (g *Gen) liveSnap(d *Dump) string {
	if len(d.Snaps) > 0 && g.chance(0.9) {
		return d.Snaps[g.r.Intn(len(d.Snaps))].Name
	}
	return g.snapName()
}

var attrNames = []string{"x", "y", "k", "AND", "a b", "é"}
var attrValues = []string{"", "v", "vw", "w", "日日", "a  b", "a b", "(", "(555", "x\ty", "x y"}

func (g *Gen) attrs() map[string]string {
	n := g.r.Intn(4)
	if n == 0 {
		if g.chance(0.5) {
			return nil
		}
		return map[string]string{}
	}
	m := map[string]string{}
	for i := 0; i < n; i++ {
		m[g.pick(attrNames)] = g.pick(attrValues)
	}
	return m
}

var filters = []string{
	`attributes:x`, `NOT attributes:x`, `attributes.x = "v"`, `attributes.x != "v"`, `hasPrefix(attributes.x, "v")`,
	`attributes:x AND attributes:y`, `attributes:x OR attributes.k = "w"`, `-attributes:y`,
	`NOT (attributes:x AND attributes.y = "")`, `attributes:"a b"`, `attributes:AND`, `attributes.é != "日日"`,
	`attributes:x AND NOT hasPrefix(attributes.k,"v") AND attributes:y`, `(attributes:x OR attributes:y) AND attributes:k`,
	// literals whose content must survive verbatim: runs of blanks, a tab, parentheses, layout outside literals
	`attributes.k = "a  b"`, "hasPrefix(attributes.k, \"x\ty\")", `attributes.x = "("`, `hasPrefix(attributes.y, "(555")`, `attributes:"a b"  AND
	NOT	attributes.k != "a  b"`, `NOT hasPrefix(attributes.x, "v")`, `NOT (attributes:x OR attributes:y)`, `attributes.k = ")" OR attributes.x = "("`,
}
var badFilters = []string{"attributes:x\f", "\vattributes:x", "attributes.x = \"v\"\u00a0", "attributes:x\u0085", "\u2003attributes:x", " ", "\t\n", `attributes.x = "("(`,
	`attributes`, `attributes:x AND`, `attributes:x AND attributes:y OR attributes:k`, `x = "y"`, `attributes.x = y`, `"`, `attributes:5`}

var payloads = []string{
	`{}`, `{"a":1}`, `{"a": 1 , "b" : [1, 2,3] }`, `"str"`, `123`, `1e400`, `12345678901234567890123`, `null`, `true`,
	`{"html":"<a href=\"x\">&</a>","n":12345678901234567890,"f":0.1000000000000000055511151231257827}`, `["<",1e400,9007199254740993,">"]`,
	`{"html":"<b>&amp;</b>"}`, "{\"u\":\" 日本\\u00e9\"}", `[{"deep":[[[{"x":null}]]]}]`, ` [ ] `, `{"b":2,"a":1}`, `0.10`,
}
var badPayloads = []string{`{`, `not json`, `{"a":}`, `{} {}`, `'x'`}

func (g *Gen) payload() []byte {
	if g.chance(0.04) {
		return nil
	}
	if g.chance(0.03) {
		return []byte(g.pick(badPayloads))
	}
	return []byte(g.pick(payloads))
}

func dptr(d time.Duration) *time.Duration { return &d }

func (g *Gen) subReq(d *Dump) *SubReq {
	q := &SubReq{Name: g.subName(), Topic: g.liveTopic(d)}
	if g.chance(0.5) {
		q.HasExp = true
		q.TTL = dptr([]time.Duration{10 * time.Minute, time.Hour, 24 * time.Hour, 45 * time.Second, 0, 40 * 24 * time.Hour, 400 * 24 * time.Hour}[g.r.Intn(7)])
		if g.chance(0.1) {
			q.TTL = nil
		}
	}
	if g.chance(0.6) {
		q.MsgTTL = dptr([]time.Duration{20 * time.Second, 90 * time.Second, 10 * time.Minute, time.Hour, 0, 10 * 24 * time.Hour, 31 * 24 * time.Hour}[g.r.Intn(7)])
	}
	q.Ordered = g.chance(0.4)
	if g.chance(0.3) {
		q.Labels = g.attrs()
	}
	if g.chance(0.3) {
		q.Filter = g.pick(filters)
	} else if g.chance(0.04) {
		q.Filter = g.pick(badFilters)
	}
	q.Detached = g.chance(0.01)
	if g.chance(0.4) {
		var r [2]*time.Duration
		durs := []time.Duration{200 * time.Millisecond, time.Second, 3 * time.Second, 15 * time.Second, 100 * time.Second, 0, -time.Second}
		if g.chance(0.7) {
			r[0] = dptr(durs[g.r.Intn(len(durs))])
		}
		if g.chance(0.7) {
			r[1] = dptr(durs[g.r.Intn(len(durs))])
		}
		q.Retry = &r
	}
	if g.chance(0.35) {
		q.DL = &struct {
			Topic string
			Max   int32
		}{g.liveTopic(d), int32([]int{0, 1, 2, 2, 3, 4}[g.r.Intn(6)])}
	}
	if g.chance(0.05) {
		q.Push = &PushReq{Endpoint: g.pick([]string{"", "http://127.0.0.1:1/x"})}
		if g.chance(0.2) {
			q.Push.Attrs = map[string]string{"x-goog-version": g.pick([]string{"v1", "v2"})}
		}
		if g.chance(0.1) {
			q.Push.Auth = true
		}
		q.Push.Wrapper = g.pick([]string{"", "", "pubsub", "other"})
	}
	return q
}

func (g *Gen) someAckIDs(d *Dump, sub string) []string {
	var out []string
	// ids of deliveries currently outstanding (possibly of this subscription)
	var cand []string
	s := d.subByName(sub)
	for _, x := range d.Dels {
		if x.Attempts > 0 && (s == nil || x.Sub == s.ID || g.chance(0.1)) {
			cand = append(cand, x.ID.String())
		}
	}
	n := 1 + g.r.Intn(3)
	for i := 0; i < n; i++ {
		switch {
		case len(cand) > 0 && g.chance(0.75):
			out = append(out, g.pick(cand))
		case len(g.ackIDs) > 0 && g.chance(0.6):
			out = append(out, g.pick(g.ackIDs))
		case len(d.Dels) > 0 && g.chance(0.5):
			out = append(out, d.Dels[g.r.Intn(len(d.Dels))].ID.String())
		case g.chance(0.8):
			out = append(out, uuid.New().String())
		default:
			out = append(out, g.pick([]string{"garbage", "", "1234"}))
		}
	}
	if g.chance(0.1) {
		out = append(out, out[0])
	}
	return out
}

// Action is either an operation or a clock advance.
type Action struct {
	Op      *Op
	Advance time.Duration
}

func (g *Gen) advance(d *Dump, vnow int64) time.Duration {
	// jump to just after / before an interesting deadline, or a random amount
	var targets []int64
	for _, x := range d.Dels {
		if x.Completed == nil {
			if x.AttemptAt > vnow {
				targets = append(targets, x.AttemptAt)
			}
			if x.Expires > vnow {
				targets = append(targets, x.Expires)
			}
		}
	}
	for _, s := range d.Subs {
		if s.Deleted == nil && s.Expires > vnow {
			targets = append(targets, s.Expires)
		}
	}
	if len(targets) > 0 && g.chance(0.7) {
		t := targets[g.r.Intn(len(targets))]
		margin := int64(1500 * time.Millisecond)
		if g.chance(0.25) {
			if t-margin > vnow {
				return time.Duration(t - margin - vnow)
			}
		}
		return time.Duration(t + margin - vnow)
	}
	return []time.Duration{time.Second, 5 * time.Second, 12 * time.Second, time.Minute, 11 * time.Minute, 2 * time.Hour}[g.r.Intn(6)]
}

type weighted struct {
	w float64
	k string
}

var profiles = map[string][]weighted{
	"general": {
		{6, "CreateTopic"}, {9, "CreateSub"}, {20, "Publish"}, {20, "Pull"}, {9, "Ack"}, {6, "ModAck"}, {4, "Nack"},
		{3, "SeekTime"}, {2.5, "CreateSnap"}, {2.5, "SeekSnap"}, {1, "DeleteSub"}, {0.8, "DeleteTopic"}, {7, "Job"},
		{9, "Advance"}, {1.5, "GetSub"}, {1, "GetTopic"}, {1, "ListSubs"}, {1, "ListTopics"}, {1, "ListTopicSubs"},
		{3, "UpdateSub"}, {0.5, "UpdateTopic"}, {0.5, "ModifyPush"}, {0.5, "DeleteSnap"}, {0.7, "GetSnap"}, {0.7, "ListSnaps"},
		{0.6, "SetDelay"}, {0.2, "SeekNoTarget"},
	},
	"names": {
		{14, "CreateTopic"}, {14, "CreateSub"}, {3, "Publish"}, {3, "Pull"}, {6, "DeleteSub"}, {6, "DeleteTopic"}, {2, "Job"},
		{3, "Advance"}, {6, "GetSub"}, {6, "GetTopic"}, {9, "ListSubs"}, {9, "ListTopics"}, {5, "ListTopicSubs"},
		{6, "CreateSnap"}, {3, "DeleteSnap"}, {4, "GetSnap"}, {8, "ListSnaps"}, {2, "UpdateSub"}, {1, "UpdateTopic"},
	},
	"config": {
		{8, "CreateTopic"}, {16, "CreateSub"}, {4, "Publish"}, {4, "Pull"}, {2, "DeleteSub"}, {1, "DeleteTopic"},
		{2, "Advance"}, {14, "GetSub"}, {4, "GetTopic"}, {6, "ListSubs"}, {24, "UpdateSub"}, {5, "UpdateTopic"}, {4, "ModifyPush"},
		{2, "SetDelay"},
	},
	"delivery": {
		{4, "CreateTopic"}, {7, "CreateSub"}, {24, "Publish"}, {24, "Pull"}, {10, "Ack"}, {8, "ModAck"}, {6, "Nack"},
		{2, "SeekTime"}, {1, "CreateSnap"}, {1, "SeekSnap"}, {0.7, "DeleteSub"}, {0.4, "DeleteTopic"}, {6, "Job"}, {12, "Advance"},
		{1, "UpdateSub"}, {0.6, "SetDelay"},
	},
	"seek": {
		{4, "CreateTopic"}, {6, "CreateSub"}, {20, "Publish"}, {16, "Pull"}, {12, "Ack"}, {2, "ModAck"}, {1, "Nack"},
		{9, "SeekTime"}, {7, "CreateSnap"}, {9, "SeekSnap"}, {0.5, "DeleteSub"}, {0.4, "DeleteTopic"}, {3, "Job"}, {8, "Advance"},
		{1, "DeleteSnap"}, {1, "GetSnap"},
	},
	// client history of the paired (with / without prune jobs) runs of C15: no pagination
	// tokens, pulls take everything eligible, no seek that revives (README: a seek does not
	// resurrect what was permanently deleted), expiry and dead-letter sweeps belong to the
	// client history (they are visible by design)
	"c15": {
		{4, "CreateTopic"}, {8, "CreateSub"}, {20, "Publish"}, {18, "Pull"}, {10, "Ack"}, {4, "ModAck"}, {3, "Nack"},
		{2, "SeekTime"}, {1.5, "CreateSnap"}, {3, "DeleteSub"}, {2, "DeleteTopic"}, {3, "Job"}, {12, "Advance"},
		{1.5, "GetSub"}, {1, "GetTopic"}, {1.5, "ListSubs"}, {1.5, "ListTopics"}, {1, "ListTopicSubs"}, {1, "UpdateSub"},
		{0.7, "GetSnap"}, {0.7, "ListSnaps"}, {0.5, "DeleteSnap"},
	},
	"prune": {
		{5, "CreateTopic"}, {8, "CreateSub"}, {16, "Publish"}, {14, "Pull"}, {10, "Ack"}, {3, "ModAck"}, {2, "Nack"},
		{2, "SeekTime"}, {2, "CreateSnap"}, {1, "SeekSnap"}, {3, "DeleteSub"}, {3, "DeleteTopic"}, {22, "Job"}, {12, "Advance"},
		{1, "UpdateSub"},
	},
}

func (g *Gen) kind() string {
	ws := profiles[g.profile]
	if ws == nil {
		ws = profiles["general"]
	}
	total := 0.0
	for _, w := range ws {
		total += w.w
	}
	x := g.r.Float64() * total
	for _, w := range ws {
		if x < w.w {
			return w.k
		}
		x -= w.w
	}
	return ws[0].k
}

// Next proposes the next action given the current dump and virtual time.
func (g *Gen) Next(d *Dump, vnow int64) Action {
	for len(g.script) > 0 {
		st := g.script[0]
		g.script = g.script[1:]
		a := st(g, d, vnow)
		if g.profile == "c15" && a.Op != nil && a.Op.Kind == "Job" && a.Op.Job != "ExpireSubs" && a.Op.Job != "DeadLetterSweep" {
			continue // the paired client history contains no prune job
		}
		if g.profile == "c15" && a.Op != nil && a.Op.Kind == "Pull" {
			a.Op.Max = 1000
		}
		return a
	}
	g.stepNo++
	// the first steps always build something to work with
	if g.stepNo == 1 {
		return Action{Op: &Op{Kind: "CreateTopic", Name: "projects/p/topics/t0"}}
	}
	if g.stepNo == 2 && g.chance(0.6) {
		return Action{Op: &Op{Kind: "CreateTopic", Name: "projects/p/topics/t1"}}
	}
	if g.stepNo == 3 {
		q := g.subReq(d)
		q.Name = "projects/p/subscriptions/s0"
		q.Topic = "projects/p/topics/t0"
		q.Detached = false
		q.Push = nil
		if q.Filter != "" && g.chance(0.5) {
			q.Filter = ""
		}
		for _, b := range badFilters {
			if q.Filter == b {
				q.Filter = ""
			}
		}
		if q.DL != nil && g.chance(0.7) {
			q.DL.Topic = "projects/p/topics/t1"
		}
		return Action{Op: &Op{Kind: "CreateSub", Sub: q}}
	}
	k := g.kind()
	switch k {
	case "Advance":
		return Action{Advance: g.advance(d, vnow)}
	case "CreateTopic":
		op := &Op{Kind: k, Name: g.topicName()}
		if g.chance(0.3) {
			op.Labels = g.attrs()
		}
		op.Advanced = g.chance(0.02)
		return Action{Op: op}
	case "GetTopic", "DeleteTopic":
		return Action{Op: &Op{Kind: k, Name: g.liveTopic(d)}}
	case "UpdateTopic":
		op := &Op{Kind: k, Name: g.liveTopic(d), Labels: g.attrs()}
		n := g.r.Intn(3)
		for i := 0; i < n; i++ {
			op.Paths = append(op.Paths, g.pick([]string{"labels", "labels", "labels", "name", "kms_key_name", "bogus"}))
		}
		return Action{Op: op}
	case "ListTopics", "ListSubs", "ListSnaps":
		op := &Op{Kind: k, Project: "projects/" + g.project(), Size: int32([]int{0, 1, 1, 2, 3, 100, -1, 1000}[g.r.Intn(8)])}
		key := k + op.Project
		if g.profile == "c15" {
			op.Size = 100
			return Action{Op: op}
		}
		if t := g.lastTok[key]; t != "" && g.chance(0.7) {
			op.Tok = t
		} else if g.chance(0.05) {
			op.Tok = g.pick([]string{"bad-token", uuid.New().String()})
		}
		return Action{Op: op}
	case "ListTopicSubs":
		op := &Op{Kind: k, Name: g.liveTopic(d), Size: int32([]int{0, 1, 2, 100}[g.r.Intn(4)])}
		if g.profile == "c15" {
			op.Size = 100
			return Action{Op: op}
		}
		if t := g.lastTok[k+op.Name]; t != "" && g.chance(0.7) {
			op.Tok = t
		}
		return Action{Op: op}
	case "Publish":
		op := &Op{Kind: k, Name: g.liveTopic(d)}
		n := 1
		if g.chance(0.35) {
			n = 2 + g.r.Intn(3)
		}
		if g.chance(0.02) {
			n = 0
		}
		for i := 0; i < n; i++ {
			m := PubMsg{Data: g.payload(), Attrs: g.attrs()}
			if g.chance(0.5) {
				m.Key = g.pick([]string{"k1", "k1", "k2", "k3"})
			}
			op.Msgs = append(op.Msgs, m)
		}
		return Action{Op: op}
	case "CreateSub":
		return Action{Op: &Op{Kind: k, Sub: g.subReq(d)}}
	case "GetSub", "DeleteSub":
		return Action{Op: &Op{Kind: k, Name: g.liveSub(d)}}
	case "UpdateSub":
		q := g.subReq(d)
		q.Name = g.liveSub(d)
		op := &Op{Kind: k, Sub: q}
		all := []string{"labels", "expiration_policy", "message_retention_duration", "enable_message_ordering", "retry_policy",
			"push_config", "filter", "dead_letter_policy"}
		n := g.r.Intn(4)
		for i := 0; i < n; i++ {
			if g.chance(0.06) {
				op.Paths = append(op.Paths, g.pick([]string{"name", "topic", "ack_deadline_seconds", "detached", "bogus", "retain_acked_messages"}))
			} else {
				op.Paths = append(op.Paths, g.pick(all))
			}
		}
		return Action{Op: op}
	case "ModAck":
		name := g.liveSub(d)
		return Action{Op: &Op{Kind: k, Name: name, AckIDs: g.someAckIDs(d, name), Seconds: int32([]int{0, 0, 5, 30, 600, -1, 1}[g.r.Intn(7)])}}
	case "Ack":
		name := g.liveSub(d)
		return Action{Op: &Op{Kind: k, Name: name, AckIDs: g.someAckIDs(d, name)}}
	case "Nack":
		name := g.liveSub(d)
		op := &Op{Kind: "StreamAckNack"}
		for _, s := range g.someAckIDs(d, name) {
			if _, err := uuid.Parse(s); err == nil {
				op.Nacks = append(op.Nacks, s)
			}
		}
		// The two halves of a stream ack+nack transaction read the clock separately, and no
		// connection ever fills both lists in one request (gRPC never nacks this way, the
		// HTTP push connection returns either an ack batch or a nack batch): generate one or
		// the other so that a single written time describes the step.
		if g.chance(0.3) {
			op.Nacks = nil
			for _, s := range g.someAckIDs(d, name) {
				if _, err := uuid.Parse(s); err == nil {
					op.AckIDs = append(op.AckIDs, s)
				}
			}
		}
		return Action{Op: op}
	case "Pull":
		if g.profile == "c15" {
			return Action{Op: &Op{Kind: k, Name: g.liveSub(d), Max: 1000}}
		}
		if g.profile == "delivery" && g.chance(0.06) {
			// a waiting pull the client abandons (only left waiting when nothing is deliverable)
			return Action{Op: &Op{Kind: k, Name: g.liveSub(d), Max: 10, Wait: true}}
		}
		return Action{Op: &Op{Kind: k, Name: g.liveSub(d), Max: int32([]int{1, 1, 2, 3, 10, 100}[g.r.Intn(6)])}}
	case "SeekTime":
		op := &Op{Kind: k, Name: g.liveSub(d)}
		if g.profile == "c15" {
			// purge only: a target clearly after everything published so far
			op.Target = vnow + int64(g.r.Intn(3600))*1e9 + 5e9
			return Action{Op: op}
		}
		// exact publish instants, instants in between, past and future
		var ts []int64
		for _, m := range d.Msgs {
			ts = append(ts, m.Published)
		}
		switch {
		case len(ts) > 0 && g.chance(0.4):
			op.Target = ts[g.r.Intn(len(ts))]
		case len(ts) > 0 && g.chance(0.5):
			op.Target = ts[g.r.Intn(len(ts))] + int64([]int{-1, 1, -1000000, 1000000}[g.r.Intn(4)])
		case g.chance(0.5):
			op.Target = vnow - int64(g.r.Intn(3600))*1e9 - 1e9
		default:
			op.Target = vnow + int64(g.r.Intn(3600))*1e9 + 1e9
		}
		return Action{Op: op}
	case "SeekSnap":
		return Action{Op: &Op{Kind: k, Name: g.liveSub(d), Name2: g.liveSnap(d)}}
	case "SeekNoTarget":
		return Action{Op: &Op{Kind: k, Name: g.liveSub(d)}}
	case "ModifyPush":
		op := &Op{Kind: k, Name: g.liveSub(d), HasPush: g.chance(0.8)}
		if op.HasPush && g.chance(0.8) {
			op.Push = &PushReq{Endpoint: g.pick([]string{"", "http://127.0.0.1:1/x"})}
			if g.chance(0.3) {
				op.Push.Attrs = map[string]string{g.pick([]string{"x-goog-version", "other"}): g.pick([]string{"v1", "v2"})}
			}
			op.Push.Auth = g.chance(0.1)
		}
		return Action{Op: op}
	case "CreateSnap":
		op := &Op{Kind: k, Name: g.snapName(), Name2: g.liveSub(d)}
		if g.chance(0.3) {
			op.Labels = g.attrs()
		}
		return Action{Op: op}
	case "GetSnap", "DeleteSnap":
		return Action{Op: &Op{Kind: k, Name: g.liveSnap(d)}}
	case "SetDelay":
		return Action{Op: &Op{Kind: k, Name: g.liveSub(d), Delay: []time.Duration{0, 5 * time.Second, 40 * time.Second}[g.r.Intn(3)]}}
	case "Job":
		op := &Op{Kind: k, Job: g.pick(jobKinds)}
		if g.profile == "c15" {
			op.Job = g.pick([]string{"ExpireSubs", "DeadLetterSweep"})
			op.MaxN = 100
			return Action{Op: op}
		}
		op.MinAge = []time.Duration{0, 0, time.Second, 30 * time.Second, time.Hour}[g.r.Intn(5)]
		op.MaxN = []int{1, 2, 3, 100, 100}[g.r.Intn(5)]
		return Action{Op: op}
	}
	panic("gen: unknown kind " + k)
}

// Learn updates the generator's bookkeeping from an executed step.
func (g *Gen) Learn(o *Obs) {
	for _, p := range o.Resp.Pulled {
		g.ackIDs = append(g.ackIDs, p.Ack.String())
	}
	switch o.Op.Kind {
	case "ListTopics", "ListSubs", "ListSnaps":
		g.lastTok[o.Op.Kind+o.Op.Project] = o.Resp.Next
	case "ListTopicSubs":
		g.lastTok[o.Op.Kind+o.Op.Name] = o.Resp.Next
	}
}
