package main

// engine: drive the real system over generated histories, log every step with its
// oracles, and write the log as Coq cases files.

import (
	"context"
	"encoding/json"
	"flag"
	"fmt"
	"github.com/google/uuid"
	"os"
	"path/filepath"
	"strings"
	"sync"
	"time"
)

type HistoryLog struct {
	Index    int
	Seed     int64
	Profile  string
	Scenario string
	Steps    []*Obs
}

type EngineStats struct {
	Histories   int            `json:"histories"`
	Steps       int            `json:"steps"`
	Skipped     int            `json:"skipped"`
	SkipReasons map[string]int `json:"skip_reasons"`
	OpKinds     map[string]int `json:"op_kinds"`
	RespKinds   map[string]int `json:"resp_kinds"`
	Codes       map[string]int `json:"codes"`
	Counters    map[string]int `json:"counters"`
	WallS       float64        `json:"wall_s"`
	Files       []string       `json:"files"`
}

const guardBefore = 250 * time.Millisecond
const guardSlow = 200 * time.Millisecond

// guard makes sure no stored deadline (shifted by any of the ages the next operation
// uses) lies so close to the current virtual time that the implementation's own
// time.Now() readings could land on the other side of it.
func (e *Env) guard(d *Dump, ages []time.Duration) error {
	return e.guardFor(d, ages, guardBefore)
}

func (e *Env) guardFor(d *Dump, ages []time.Duration, guardBefore time.Duration) error {
	for iter := 0; iter < 50; iter++ {
		now := e.VNow()
		bump := int64(0)
		for _, dl := range d.Deadlines() {
			for _, a := range ages {
				t := dl + int64(a)
				if t > now-int64(5*time.Millisecond) && t < now+int64(guardBefore) {
					if nb := t + int64(guardBefore) + int64(50*time.Millisecond) - now; nb > bump {
						bump = nb
					}
				}
			}
		}
		if bump == 0 {
			return nil
		}
		if err := e.Advance(time.Duration(bump)); err != nil {
			return err
		}
		nd, err := e.Dump(context.Background())
		if err != nil {
			return err
		}
		*d = *nd
	}
	return fmt.Errorf("guard: could not find a quiet instant")
}

func deadlineInside(d *Dump, lo, hi int64, ages []time.Duration) bool {
	for _, dl := range d.Deadlines() {
		for _, a := range ages {
			t := dl + int64(a)
			if t >= lo-int64(2*time.Millisecond) && t <= hi+int64(2*time.Millisecond) {
				return true
			}
		}
	}
	return false
}

func RunHistory(e *Env, g *Gen, steps int) ([]*Obs, error) {
	ctx := context.Background()
	pre, err := e.Dump(ctx)
	if err != nil {
		return nil, err
	}
	var h []*Obs
	mon := newOrderMonitor()
	for len(h) < steps {
		a := g.Next(pre, e.VNow())
		if a.Op == nil {
			if err := e.Advance(a.Advance); err != nil {
				return nil, err
			}
			if pre, err = e.Dump(ctx); err != nil {
				return nil, err
			}
			continue
		}
		ages := []time.Duration{0}
		if a.Op.Kind == "Job" && a.Op.MinAge != 0 {
			ages = append(ages, a.Op.MinAge)
		}
		if a.Op.Kind == "Pull" && a.Op.Wait {
			// a waiting pull is only abandoned if nothing becomes deliverable while it waits
			if err := e.guardFor(pre, ages, pullWaitFor+guardBefore+200*time.Millisecond); err != nil {
				return nil, err
			}
			if s := pre.subByName(a.Op.Name); s != nil {
				for _, x := range pre.Dels {
					if x.Sub == s.ID && x.Completed == nil && x.AttemptAt <= e.VNow()+int64(time.Second) && x.Expires > e.VNow() {
						a.Op.Wait = false // something is (about to be) deliverable: an ordinary pull
					}
				}
			}
		} else if err := e.guard(pre, ages); err != nil {
			return nil, err
		}
		o, err := e.Exec(ctx, a.Op, pre)
		if err != nil {
			return nil, err
		}
		if a.Op.Kind == "Pull" && a.Op.Wait {
			if time.Duration(o.Hi-o.Lo) > pullWaitFor+guardSlow {
				o.Skip = "slow-call"
			} else if deadlineInside(pre, o.Lo, o.Hi, ages) {
				o.Skip = "deadline-inside-call"
			}
		} else if time.Duration(o.Hi-o.Lo) > guardSlow && !strings.HasPrefix(g.profile, "bulk") {
			// (the bulk profile's calls touch a thousand rows and are slow by design; the
			// deadline test below is the one that matters for soundness)
			o.Skip = "slow-call"
		} else if deadlineInside(pre, o.Lo, o.Hi, ages) {
			o.Skip = "deadline-inside-call"
		}
		mon.step(pre, o)
		g.Learn(o)
		h = append(h, o)
		pre = o.Post
	}
	return h, nil
}

// orderMonitor evaluates the ordering property (C05) DIRECTLY on the observed states, whatever
// step put them there: a pull on an ordered subscription hands out a keyed message while an
// earlier-published message with the same key is still outstanding on that subscription. It
// applies under the client discipline the theorem Bus/T_C05.v C05_no_overtake needs (and the
// property's quantifier grants): a subscription drops out once an acknowledgement named a
// delivery that was never handed out (H1) or its retention / ordering flag was changed (H2);
// dead-letter forwards (a message of another topic) are not ordered against direct publishes
// (H6). When the overtaken delivery is one a seek REVIVED, the case is the known finding F19
// (H3) and is reported under that key.
type orderMonitor struct {
	undisciplined map[uuid.UUID]bool
	wasCompleted  map[uuid.UUID]bool
	revived       map[uuid.UUID]bool
	soughtSince   map[uuid.UUID]bool // delivery was completed, and a seek on its subscription came later
}

func newOrderMonitor() *orderMonitor {
	return &orderMonitor{map[uuid.UUID]bool{}, map[uuid.UUID]bool{}, map[uuid.UUID]bool{}, map[uuid.UUID]bool{}}
}

// pullMonitors: three more statements of the properties evaluated directly on an observed pull,
// from the observed state before it (whatever earlier step produced that state):
//
//	handed-out-before-due      (C04) the delivery's stored next-attempt time lies after the call
//	handed-out-after-retention (C14) its stored retention deadline lies before the call
//	attempts-exceeded          (C06) its attempt number exceeds the dead-letter limit of the subscription
//	acked-redelivered          (C03) it was acknowledged earlier and no seek on its subscription came since
func (m *orderMonitor) pullMonitors(pre *Dump, o *Obs, s *SubRow) {
	for _, p := range o.Resp.Pulled {
		d := pre.del(p.Ack)
		if d == nil {
			continue
		}
		if d.AttemptAt > o.Hi {
			o.Monitor = append(o.Monitor, fmt.Sprintf("handed-out-before-due: delivery %s (attempt %d) was handed out %v before its stored next-attempt time", d.ID, p.Attempt, time.Duration(d.AttemptAt-o.Hi).Round(time.Millisecond)))
		}
		if d.Expires < o.Lo {
			o.Monitor = append(o.Monitor, fmt.Sprintf("handed-out-after-retention: delivery %s was handed out %v after its stored retention deadline", d.ID, time.Duration(o.Lo-d.Expires).Round(time.Millisecond)))
		}
		if s.MaxAttempts != nil && s.DLTopic != nil && int64(p.Attempt) > *s.MaxAttempts {
			o.Monitor = append(o.Monitor, fmt.Sprintf("attempts-exceeded: delivery %s was handed out as attempt %d, the dead-letter policy allows %d", d.ID, p.Attempt, *s.MaxAttempts))
		}
		if m.wasCompleted[d.ID] && !m.soughtSince[d.ID] {
			o.Monitor = append(o.Monitor, fmt.Sprintf("acked-redelivered: delivery %s was acknowledged earlier, no seek on its subscription came since, and it was handed out again (attempt %d)", d.ID, p.Attempt))
		}
	}
}

func (m *orderMonitor) step(pre *Dump, o *Obs) {
	// bookkeeping from the pre-state
	for _, d := range pre.Dels {
		if d.Completed != nil {
			m.wasCompleted[d.ID] = true
		} else if m.wasCompleted[d.ID] {
			m.revived[d.ID] = true
		}
	}
	op := o.Op
	switch op.Kind {
	case "SeekTime", "SeekSnap":
		if s := pre.subByName(op.Name); s != nil {
			for _, d := range pre.Dels {
				if d.Sub == s.ID && m.wasCompleted[d.ID] {
					m.soughtSince[d.ID] = true
				}
			}
		}
	case "Ack", "StreamAckNack":
		for _, id := range op.AckIDs {
			if u, err := uuid.Parse(id); err == nil {
				if d := pre.del(u); d != nil && d.Attempts == 0 {
					m.undisciplined[d.Sub] = true
				}
			}
		}
	case "UpdateSub":
		for _, p := range op.Paths {
			if (p == "message_retention_duration" || p == "enable_message_ordering") && op.Sub != nil {
				if s := pre.subByName(op.Sub.Name); s != nil {
					m.undisciplined[s.ID] = true
				}
			}
		}
	case "Pull":
		if o.Skip != "" || o.Resp == nil || len(o.Resp.Pulled) == 0 {
			return
		}
		s := pre.subByName(op.Name)
		if s == nil {
			return
		}
		m.pullMonitors(pre, o, s)
		if !s.Ordered || m.undisciplined[s.ID] {
			return
		}
		key := func(d *DelRow) string {
			if msg := pre.msg(d.Msg); msg != nil && msg.Topic == s.Topic && msg.Key != nil {
				return *msg.Key
			}
			return ""
		}
		for _, p := range o.Resp.Pulled {
			d := pre.del(p.Ack)
			if d == nil || key(d) == "" {
				continue
			}
			for i := range pre.Dels {
				d0 := &pre.Dels[i]
				if d0.Sub == s.ID && d0.ID != d.ID && d0.Completed == nil && d0.Expires > o.Hi && d0.Published < d.Published && key(d0) == key(d) {
					k := "overtake"
					if m.revived[d0.ID] {
						k = "seek-revival-overtake"
					}
					o.Monitor = append(o.Monitor, fmt.Sprintf("%s: delivery %s (key %q, published %v after) was handed out while delivery %s of the same key is outstanding (attempts %d, %v of retention left)",
						k, d.ID, key(d), time.Duration(d.Published-d0.Published).Round(time.Millisecond), d0.ID, d0.Attempts, time.Duration(d0.Expires-o.Hi).Round(time.Second)))
					break
				}
			}
		}
	}
}

func cmdEngine(args []string) error {
	fs := flag.NewFlagSet("engine", flag.ExitOnError)
	seed := fs.Int64("seed", 1, "base seed")
	n := fs.Int("n", 16, "number of histories")
	steps := fs.Int("steps", 40, "operations per history")
	profile := fs.String("profile", "general", "generator profile")
	out := fs.String("out", "", "output directory")
	workers := fs.Int("workers", 8, "parallel workers")
	perFile := fs.Int("per-file", 8, "histories per cases file")
	monitor := fs.String("monitor", "", "extra executable monitor to evaluate on the observed steps (prune)")
	fs.Parse(args)
	if *out == "" {
		return fmt.Errorf("-out required")
	}
	if err := os.MkdirAll(*out, 0o755); err != nil {
		return err
	}
	start := time.Now()
	logs := make([]*HistoryLog, *n)
	errs := make([]error, *n)
	var wg sync.WaitGroup
	idx := make(chan int)
	for w := 0; w < *workers; w++ {
		wg.Add(1)
		go func() {
			defer wg.Done()
			for i := range idx {
				e, err := NewEnv(true)
				if err != nil {
					errs[i] = err
					continue
				}
				hs := *seed*1000003 + int64(i)
				g := NewGen(hs, *profile)
				h, err := RunHistory(e, g, *steps)
				e.Close()
				if err != nil {
					errs[i] = err
					continue
				}
				logs[i] = &HistoryLog{Index: i, Seed: hs, Profile: *profile, Scenario: g.Scenario, Steps: h}
			}
		}()
	}
	for i := 0; i < *n; i++ {
		idx <- i
	}
	close(idx)
	wg.Wait()
	for i, err := range errs {
		if err != nil {
			return fmt.Errorf("history %d: %w", i, err)
		}
	}
	st := &EngineStats{SkipReasons: map[string]int{}, OpKinds: map[string]int{}, RespKinds: map[string]int{}, Codes: map[string]int{}, Counters: map[string]int{}}
	for _, l := range logs {
		st.Histories++
		if l.Scenario != "" {
			st.Counters["scenario:"+l.Scenario]++
		}
		for _, o := range l.Steps {
			st.Steps++
			if o.Skip != "" {
				st.Skipped++
				st.SkipReasons[o.Skip]++
			}
			k := o.Op.Kind
			if k == "Job" {
				k = "Job:" + o.Op.Job
			}
			st.OpKinds[k]++
			st.RespKinds[o.Resp.Kind]++
			if o.Resp.Kind == "err" {
				st.Codes[o.Resp.Code.String()]++
			}
			countNonVacuity(st.Counters, o)
		}
	}
	// cases files
	for f := 0; f*(*perFile) < len(logs); f++ {
		name := filepath.Join(*out, fmt.Sprintf("cases_%03d.v", f))
		fh, err := os.Create(name)
		if err != nil {
			return err
		}
		fmt.Fprintln(fh, "From MB Require Import Base.\nFrom MB.Bus Require Import State Ops Step Check View.\nOpen Scope list_scope.\n")
		for i := f * (*perFile); i < (f+1)*(*perFile) && i < len(logs); i++ {
			fmt.Fprintln(fh, EmitHistory(fmt.Sprintf("h%d", i), logs[i].Steps))
			fmt.Fprintf(fh, "Definition r%d := Eval vm_compute in check_history h%d.\nPrint r%d.\n\n", i, i, i)
			if *monitor == "prune" {
				fmt.Fprintf(fh, "Definition v%d := Eval vm_compute in check_prune_steps h%d.\nPrint v%d.\n\n", i, i, i)
			}
		}
		fh.Close()
		st.Files = append(st.Files, name)
	}
	// readable log for evidence / replay
	type stepJ struct {
		Kind string   `json:"kind"`
		Op   *Op      `json:"op"`
		Resp *Resp    `json:"resp"`
		Lo   int64    `json:"lo"`
		Hi   int64    `json:"hi"`
		Skip string   `json:"skip,omitempty"`
		Mon  []string `json:"monitor,omitempty"`
	}
	type histJ struct {
		Index   int     `json:"index"`
		Seed    int64   `json:"seed"`
		Profile string  `json:"profile"`
		Steps   []stepJ `json:"steps"`
	}
	var hj []histJ
	for _, l := range logs {
		x := histJ{Index: l.Index, Seed: l.Seed, Profile: l.Profile}
		for _, o := range l.Steps {
			x.Steps = append(x.Steps, stepJ{o.Op.Kind, o.Op, o.Resp, o.Lo, o.Hi, o.Skip, o.Monitor})
		}
		hj = append(hj, x)
	}
	b, _ := json.Marshal(hj)
	if err := os.WriteFile(filepath.Join(*out, "histories.json"), b, 0o644); err != nil {
		return err
	}
	st.WallS = time.Since(start).Seconds()
	sb, _ := json.MarshalIndent(st, "", " ")
	if err := os.WriteFile(filepath.Join(*out, "stats.json"), sb, 0o644); err != nil {
		return err
	}
	fmt.Println(string(sb))
	return nil
}

// countNonVacuity measures how often the interesting hypotheses actually occurred.
func countNonVacuity(c map[string]int, o *Obs) {
	op := o.Op
	switch op.Kind {
	case "Publish":
		if o.Resp.Kind == "ids" {
			c["publish_ok"]++
			c["deliveries_created"] += len(op.FreshDels)
			if len(op.Msgs) > 1 {
				c["publish_batch"]++
			}
		}
	case "Pull":
		if len(o.Resp.Pulled) > 0 {
			c["pull_nonempty"]++
			for _, p := range o.Resp.Pulled {
				if p.Attempt > 1 {
					c["redelivery"]++
				}
				if p.Key != "" {
					c["pull_keyed"]++
				}
			}
		} else if o.Resp.Kind == "pull" {
			c["pull_empty"]++
			if op.Wait {
				c["pull_abandoned_while_waiting"]++
			}
		}
		if len(op.Others) > 0 {
			c["pull_deadlettered"] += len(op.Others)
		}
	case "Ack":
		if op.WNow != o.Lo {
			c["ack_effective"]++
		} else if o.Resp.Kind == "unit" {
			c["ack_noop"]++
		}
	case "ModAck":
		if op.WNow != o.Lo {
			c["modack_effective"]++
		}
	case "StreamAckNack":
		if len(op.Fuzz) > 0 {
			c["nack_rescheduled"]++
		}
		if len(op.FreshDels) > 0 {
			c["nack_deadlettered"]++
		}
	case "SeekTime", "SeekSnap":
		if op.WNow != o.Lo {
			c["seek_effective"]++
		}
	case "Job":
		if len(op.Chosen) > 0 {
			c["job_effective:"+op.Job]++
		}
	case "CreateSnap":
		if o.Resp.Kind == "snap" {
			c["snapshot_created"]++
		}
	}
}

func init() { subcmds["engine"] = cmdEngine }
