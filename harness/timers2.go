package main

// More real-time scenarios around a pull that WAITS on the server: what it does when it finally
// hands a message out is decided at that moment, not when the call started.

import (
	"context"
	"fmt"
	"time"

	"github.com/google/uuid"

	"go.6river.tech/mmmbbb/grpc/pubsubpb"
)

type timedPull struct {
	ms []*pubsubpb.ReceivedMessage
	el time.Duration
	e  error
}

func (t *timerEnv) startWaitingPull(d time.Duration) chan timedPull {
	ch := make(chan timedPull, 1)
	go func() { m, el, e := t.waitingPull(d); ch <- timedPull{m, el, e} }()
	return ch
}

// C04: the lease of a message handed out by a pull that had been waiting for it runs from the
// hand-out, not from the moment the pull was issued
func timerLeaseAfterWait() ([]timerProblem, error) {
	mn, mx := 1000*time.Millisecond, 1000*time.Millisecond
	t, err := newTimerEnv(&SubReq{Retry: &[2]*time.Duration{&mn, &mx}})
	if err != nil {
		return nil, err
	}
	defer t.e.Close()
	ctx := context.Background()
	ch := t.startWaitingPull(5 * time.Second)
	time.Sleep(1600 * time.Millisecond) // longer than the backoff
	if err := t.publish(`{"m":"A"}`); err != nil {
		return nil, err
	}
	r := <-ch
	if r.e != nil {
		return nil, r.e
	}
	var probs []timerProblem
	if len(r.ms) != 1 {
		return append(probs, timerProblem{"lease-timer-missed", fmt.Sprintf("a pull waiting since 1.6 s did not return the message published then (%d messages after %v)", len(r.ms), r.el.Round(time.Millisecond))}), nil
	}
	back := time.Now()
	again, err := t.pullNow()
	if err != nil {
		return nil, err
	}
	if time.Since(back) > 600*time.Millisecond {
		again = nil // (a loaded machine: the 1 s lease may really have lapsed; the stored times below still decide)
	}
	d, _ := t.e.Dump(ctx)
	x := d.del(uuid.MustParse(r.ms[0].AckId))
	if len(again) > 0 {
		probs = append(probs, timerProblem{"lease-violated", fmt.Sprintf("a message handed out by a pull that had waited 1.6 s for it was handed out again by the next pull, %v after it came back: its 1 s lease was counted from the start of the waiting pull (delivery attempt %d)",
			time.Since(back).Round(time.Millisecond), again[0].DeliveryAttempt)})
	} else if x != nil && x.Last != nil && (*x.Last < x.Published || x.AttemptAt-x.Published < int64(900*time.Millisecond)) {
		probs = append(probs, timerProblem{"lease-violated", fmt.Sprintf("the delivery was handed out after its publish time, but records last_attempted_at %+d ms and the next attempt %+d ms relative to the publish time (backoff 1 s): the lease does not run from the hand-out",
			(*x.Last-x.Published)/1e6, (x.AttemptAt-x.Published)/1e6)})
	}
	return probs, nil
}

// C10: a waiting pull whose next-attempt timer fired in vain (the holder extended its lease in
// the meantime) is still woken by the next publish
func timerWakeAfterTimerRound() ([]timerProblem, error) {
	mn, mx := 300*time.Millisecond, 400*time.Millisecond
	t, err := newTimerEnv(&SubReq{Retry: &[2]*time.Duration{&mn, &mx}})
	if err != nil {
		return nil, err
	}
	defer t.e.Close()
	if err := t.publish(`{"m":"A"}`); err != nil {
		return nil, err
	}
	ms, err := t.pullNow()
	if err != nil || len(ms) != 1 {
		return nil, fmt.Errorf("first pull: %v (%d messages)", err, len(ms))
	}
	ch := t.startWaitingPull(6 * time.Second)
	time.Sleep(80 * time.Millisecond) // the pull waits, with a timer for A's deadline (~330 ms)
	if _, err := t.e.Sub.ModifyAckDeadline(context.Background(), &pubsubpb.ModifyAckDeadlineRequest{Subscription: t.sub, AckIds: []string{ms[0].AckId}, AckDeadlineSeconds: 600}); err != nil {
		return nil, err
	}
	time.Sleep(720 * time.Millisecond) // the timer has fired; the re-query found nothing
	pubAt := time.Now()
	if err := t.publish(`{"m":"B"}`); err != nil {
		return nil, err
	}
	r := <-ch
	if r.e != nil {
		return nil, r.e
	}
	lat := time.Since(pubAt)
	var probs []timerProblem
	if len(r.ms) == 0 || lat > 3*time.Second {
		probs = append(probs, timerProblem{"wake-missed-after-timer-round", fmt.Sprintf("a pull was waiting with a timer for a leased message; the holder extended that lease, the timer fired in vain; a message published afterwards reached the waiting pull %v after the publish committed (%d messages): the wake-up was lost",
			lat.Round(time.Millisecond), len(r.ms))})
	} else if r.ms[0].AckId == ms[0].AckId {
		probs = append(probs, timerProblem{"lease-violated", "the message whose deadline was extended to 600 s was handed out again"})
	}
	return probs, nil
}

// C17 (C04, C14): a configuration change that committed while a pull was waiting is what that
// pull enforces when it hands a message out afterwards: the new retry policy decides the lease,
// the new expiration policy the subscription's expiry
func timerConfigUpdatedDuringWait() ([]timerProblem, error) {
	mn, mx := 300*time.Millisecond, 400*time.Millisecond
	t, err := newTimerEnv(&SubReq{Retry: &[2]*time.Duration{&mn, &mx}, HasExp: true, TTL: dptr(time.Hour)})
	if err != nil {
		return nil, err
	}
	defer t.e.Close()
	ctx := context.Background()
	ch := t.startWaitingPull(4 * time.Second)
	time.Sleep(150 * time.Millisecond)
	d, _ := t.e.Dump(ctx)
	nmn, nmx := 30*time.Second, 40*time.Second
	if o, err := t.e.Exec(ctx, &Op{Kind: "UpdateSub", Sub: &SubReq{Name: t.sub, Topic: t.topic, Retry: &[2]*time.Duration{&nmn, &nmx}, HasExp: true, TTL: dptr(100 * time.Hour)},
		Paths: []string{"retry_policy", "expiration_policy"}}, d); err != nil || o.Resp.Kind == "err" {
		return nil, fmt.Errorf("UpdateSubscription: %v %+v", err, o)
	}
	time.Sleep(150 * time.Millisecond)
	if err := t.publish(`{"m":"A"}`); err != nil {
		return nil, err
	}
	r := <-ch
	if r.e != nil {
		return nil, r.e
	}
	var probs []timerProblem
	if len(r.ms) != 1 {
		return append(probs, timerProblem{"lease-timer-missed", fmt.Sprintf("the waiting pull returned %d messages after %v", len(r.ms), r.el.Round(time.Millisecond))}), nil
	}
	fin, _ := t.e.Dump(ctx)
	x := fin.del(uuid.MustParse(r.ms[0].AckId))
	s := fin.subByName(t.sub)
	now := t.e.VNow()
	if x != nil && x.AttemptAt-now < int64(25*time.Second) {
		probs = append(probs, timerProblem{"stale-config-in-waiting-pull", fmt.Sprintf("the retry policy was changed to 30 s .. 40 s while a pull was waiting; the message that pull then handed out is due again in %v (the policy the call started with was 300 ms .. 400 ms)",
			time.Duration(x.AttemptAt-now).Round(time.Millisecond))})
	}
	if s != nil && s.Expires-now < int64(90*time.Hour) {
		probs = append(probs, timerProblem{"stale-config-in-waiting-pull", fmt.Sprintf("the expiration policy was changed to 100 h while a pull was waiting; when that pull handed a message out it set the subscription to expire in %v (the ttl the call started with was 1 h)",
			time.Duration(s.Expires-now).Round(time.Second))})
	}
	return probs, nil
}
