package main

// c15: metamorphic check of "background pruning is invisible and converges" on the real
// code. The same client history is run twice on fresh databases: once as is (run A) and
// once with the six prune jobs spliced in at random positions with random age thresholds
// and batch sizes (run B). Client-visible responses are compared step by step under the
// identity mapping of messages and deliveries, then both are drained; finally everything
// is made dead and rounds of the jobs in random order must reclaim all of it.
//
// Run B (client steps and job steps) is also written as a Coq cases file: every step is
// checked against the model (step-local simulation) and the executable monitor
// View.check_prune_steps is evaluated on the observed job steps.

import (
	"context"
	"encoding/json"
	"flag"
	"fmt"
	"math/rand"
	"os"
	"path/filepath"
	"reflect"
	"sort"
	"sync"
	"time"

	"github.com/google/uuid"
)

var pruneJobs = []string{"PruneCompletedDeliveries", "PruneExpiredDeliveries", "PruneCompletedMessages",
	"PruneDeletedSubDeliveries", "PruneDeletedSubs", "PruneDeletedTopics"}

const c15Margin = 1200 * time.Millisecond // no deadline within this distance of a client step of run A
const c15Pad = 300 * time.Millisecond     // idle virtual time after every step of run A, so that run B is never late

type C15Div struct {
	Pair   int    `json:"pair"`
	Seed   int64  `json:"seed"`
	Step   int    `json:"step"`
	Kind   string `json:"kind"`  // op kind of the client step (or "drain", "state", "converge")
	Class  string `json:"class"` // response | state | drain | stuck | leftover | job-error
	Detail string `json:"detail"`
	// replay material
	History []c15StepJ `json:"history,omitempty"`
}

type c15StepJ struct {
	Kind  string `json:"kind"`
	Op    *Op    `json:"op"`
	RespA *Resp  `json:"resp_a,omitempty"`
	RespB *Resp  `json:"resp_b,omitempty"`
	Lo    int64  `json:"lo"`
	Jobs  []*Op  `json:"jobs_before_in_b,omitempty"`
}

type C15Stats struct {
	Pairs          int            `json:"pairs"`
	ClientSteps    int            `json:"client_steps"`
	JobsSpliced    int            `json:"jobs_spliced"`
	JobsEffective  int            `json:"jobs_effective"`
	JobsFailed     int            `json:"jobs_failed"`
	JobKinds       map[string]int `json:"job_kinds_effective"`
	OpKinds        map[string]int `json:"op_kinds"`
	PullsCompared  int            `json:"pulls_compared"`
	PulledMessages int            `json:"pulled_messages_compared"`
	DrainPulls     int            `json:"drain_pulls"`
	ConvergeRuns   int            `json:"converge_runs"`
	ConvergeRounds int            `json:"converge_rounds_total"`
	ConvergeRows   int            `json:"converge_rows_reclaimed"`
	ConvergeErrors int            `json:"converge_transient_job_errors"`
	Skipped        int            `json:"skipped_steps"`
	Divergences    []C15Div       `json:"divergences"`
	Files          []string       `json:"files"`
	Samples        []interface{}  `json:"samples"`
	WallS          float64        `json:"wall_s"`
}

// quiet reports whether no stored deadline (plus any of the ages) lies within
// [now-before, now+after]
func quiet(d *Dump, now int64, before, after time.Duration, ages []time.Duration) (bool, int64) {
	worst := int64(0)
	ok := true
	for _, dl := range d.Deadlines() {
		for _, a := range ages {
			t := dl + int64(a)
			if t > now-int64(before) && t < now+int64(after) {
				ok = false
				if t > worst {
					worst = t
				}
			}
		}
	}
	return ok, worst
}

// guardWide moves the clock of run A forward until no deadline is within c15Margin
func (e *Env) guardWide(d *Dump) error {
	for iter := 0; iter < 100; iter++ {
		ok, worst := quiet(d, e.VNow(), c15Margin, c15Margin, []time.Duration{0})
		if ok {
			return nil
		}
		if err := e.Advance(time.Duration(worst-e.VNow()) + c15Margin + 60*time.Millisecond); err != nil {
			return err
		}
		nd, err := e.Dump(context.Background())
		if err != nil {
			return err
		}
		*d = *nd
	}
	return fmt.Errorf("guardWide: could not find a quiet instant")
}

type c15Map struct {
	msg map[uuid.UUID]uuid.UUID // A -> B
	del map[uuid.UUID]uuid.UUID // A -> B
}

func liveSubName(d *Dump, id uuid.UUID) string {
	if s := d.sub(id); s != nil {
		return s.Name
	}
	return "?" + id.String()
}

// matchNewDels extends the delivery mapping with the rows created by one client step
func (m *c15Map) matchNewDels(preA, postA, preB, postB *Dump) string {
	type key struct {
		msg uuid.UUID // B's message id
		sub string
	}
	group := func(pre, post *Dump, mapMsg bool) (map[key][]DelRow, string) {
		g := map[key][]DelRow{}
		for _, t := range newDels(pre, post) {
			mid := t.Msg
			if mapMsg {
				b, ok := m.msg[t.Msg]
				if !ok {
					return nil, fmt.Sprintf("delivery of an unmapped message %s", t.Msg)
				}
				mid = b
			}
			k := key{mid, liveSubName(post, t.Sub)}
			g[k] = append(g[k], *post.del(t.ID))
		}
		for k := range g {
			rows := g[k]
			sort.Slice(rows, func(i, j int) bool { return rows[i].Published < rows[j].Published })
		}
		return g, ""
	}
	ga, e1 := group(preA, postA, true)
	if e1 != "" {
		return e1
	}
	gb, _ := group(preB, postB, false)
	for k, ra := range ga {
		rb := gb[k]
		if len(ra) != len(rb) {
			return fmt.Sprintf("run A created %d deliveries on %s for one message, run B %d", len(ra), k.sub, len(rb))
		}
		for i := range ra {
			m.del[ra[i].ID] = rb[i].ID
		}
	}
	for k, rb := range gb {
		if len(ga[k]) != len(rb) {
			return fmt.Sprintf("run B created %d deliveries on %s for one message, run A %d", len(rb), k.sub, len(ga[k]))
		}
	}
	return ""
}

func (m *c15Map) translate(op *Op) *Op {
	c := *op
	tr := func(ss []string) []string {
		var out []string
		for _, s := range ss {
			if u, err := uuid.Parse(s); err == nil {
				if b, ok := m.del[u]; ok {
					out = append(out, b.String())
					continue
				}
			}
			out = append(out, s)
		}
		return out
	}
	c.AckIDs = tr(op.AckIDs)
	c.Nacks = tr(op.Nacks)
	c.Msgs = append([]PubMsg(nil), op.Msgs...)
	// oracles are re-observed in run B
	c.Fresh, c.WNow, c.FreshDels, c.Returned, c.Others, c.Fuzz, c.Chosen, c.Failed = uuid.Nil, 0, nil, nil, nil, nil, nil, false
	return &c
}

type pulledKey struct {
	Msg     uuid.UUID
	Attempt int64
	Payload string
	Attrs   string
	Key     string
}

func pulledKeys(ps []Pulled, mapMsg map[uuid.UUID]uuid.UUID) []pulledKey {
	var out []pulledKey
	for _, p := range ps {
		m := p.Msg
		if mapMsg != nil {
			if b, ok := mapMsg[m]; ok {
				m = b
			}
		}
		out = append(out, pulledKey{m, p.Attempt, p.Payload, fmt.Sprint(p.Attrs), p.Key})
	}
	sort.Slice(out, func(i, j int) bool { return fmt.Sprint(out[i]) < fmt.Sprint(out[j]) })
	return out
}

func near(a, b int64) bool {
	d := a - b
	if d < 0 {
		d = -d
	}
	return d < int64(time.Second)
}

const deletedTopicName = "_deleted-topic_"

// compareResp compares what the client saw in run A and in run B; "" = same
func (m *c15Map) compareResp(op *Op, a, b *Resp) string {
	if a.Kind != b.Kind {
		// a snapshot of a deleted topic goes away with the topic when it is pruned (the
		// property lists topics, subscriptions, deliveries and messages, not such snapshots)
		if op.Kind == "GetSnap" && a.Kind == "snap" && a.Snap.Topic == deletedTopicName && b.Kind == "err" {
			return ""
		}
		if op.Kind == "SeekSnap" && a.Kind == "unit" && b.Kind == "err" {
			return "seek-to-snapshot-of-deleted-topic"
		}
		return fmt.Sprintf("run A answered %s (%v), run B %s (%v)", a.Kind, a.Code, b.Kind, b.Code)
	}
	switch a.Kind {
	case "err":
		if a.Code != b.Code {
			return fmt.Sprintf("run A answered %v, run B %v", a.Code, b.Code)
		}
	case "ids":
		if len(a.IDs) != len(b.IDs) {
			return "different number of message ids"
		}
	case "pull":
		ka, kb := pulledKeys(a.Pulled, m.msg), pulledKeys(b.Pulled, nil)
		if !reflect.DeepEqual(ka, kb) {
			return fmt.Sprintf("pull returned different messages: run A %d %v, run B %d %v", len(ka), brief(ka), len(kb), brief(kb))
		}
	case "sub":
		if !reflect.DeepEqual(a.Sub, b.Sub) {
			return fmt.Sprintf("subscription rendered differently: %+v vs %+v", *a.Sub, *b.Sub)
		}
	case "subs":
		// List* orders by id (random UUIDs): compare as sets
		sa, sb := append([]SubView(nil), a.Subs...), append([]SubView(nil), b.Subs...)
		sort.Slice(sa, func(i, j int) bool { return sa[i].Name < sa[j].Name })
		sort.Slice(sb, func(i, j int) bool { return sb[i].Name < sb[j].Name })
		if !reflect.DeepEqual(sa, sb) {
			return fmt.Sprintf("subscription list differs: %d vs %d entries", len(a.Subs), len(b.Subs))
		}
	case "topic":
		if a.Name != b.Name || !reflect.DeepEqual(a.Labels, b.Labels) {
			return "topic rendered differently"
		}
	case "topics":
		ta, tb := append(a.Topics[:0:0], a.Topics...), append(b.Topics[:0:0], b.Topics...)
		sort.Slice(ta, func(i, j int) bool { return ta[i].Name < ta[j].Name })
		sort.Slice(tb, func(i, j int) bool { return tb[i].Name < tb[j].Name })
		if !reflect.DeepEqual(ta, tb) {
			return fmt.Sprintf("topic list differs: %d vs %d entries", len(a.Topics), len(b.Topics))
		}
	case "names":
		na, nb := append([]string(nil), a.Names...), append([]string(nil), b.Names...)
		sort.Strings(na)
		sort.Strings(nb)
		if !reflect.DeepEqual(na, nb) {
			return fmt.Sprintf("topic subscription list differs: %v vs %v", a.Names, b.Names)
		}
	case "snap":
		if a.Snap.Name != b.Snap.Name || a.Snap.Topic != b.Snap.Topic || !near(a.Snap.Expires, b.Snap.Expires) || !reflect.DeepEqual(a.Snap.Labels, b.Snap.Labels) {
			return "snapshot rendered differently"
		}
	case "snaps":
		f := func(l []SnapView) []SnapView {
			var out []SnapView
			for _, s := range l {
				if s.Topic != deletedTopicName {
					s.Expires = 0
					out = append(out, s)
				}
			}
			sort.Slice(out, func(i, j int) bool { return out[i].Name < out[j].Name })
			return out
		}
		if !reflect.DeepEqual(f(a.Snaps), f(b.Snaps)) {
			return fmt.Sprintf("snapshot list differs: %v vs %v", f(a.Snaps), f(b.Snaps))
		}
	case "count":
		if a.Count != b.Count {
			return fmt.Sprintf("job count differs: %d vs %d", a.Count, b.Count)
		}
	}
	return ""
}

func brief(k []pulledKey) string {
	s := ""
	for i, x := range k {
		if i >= 4 {
			s += " ..."
			break
		}
		s += fmt.Sprintf(" (%s #%d %s)", x.Msg.String()[:8], x.Attempt, x.Payload)
	}
	return s
}

// outstandingSet: the client-visible backlog as a multiset of (message, subscription, attempts)
func (m *c15Map) outstandingSet(d *Dump, now int64, mapMsg bool) []string {
	var out []string
	for _, x := range d.Dels {
		s := d.sub(x.Sub)
		if x.Completed != nil || x.Expires <= now || s == nil || s.Deleted != nil {
			continue
		}
		mid := x.Msg
		if mapMsg {
			if b, ok := m.msg[mid]; ok {
				mid = b
			}
		}
		out = append(out, fmt.Sprintf("%s|%s|%d", mid, s.Name, x.Attempts))
	}
	sort.Strings(out)
	return out
}

func liveNames(d *Dump) []string {
	var out []string
	for _, t := range d.Topics {
		if t.Deleted == nil {
			out = append(out, "T:"+t.Name)
		}
	}
	for _, s := range d.Subs {
		if s.Deleted == nil {
			out = append(out, "S:"+s.Name)
		}
	}
	sort.Strings(out)
	return out
}

type c15Pair struct {
	Index  int
	Seed   int64
	StepsA []*Obs
	StepsB []*Obs // client and job steps of run B, in execution order
	Divs   []C15Div
	st     *C15Stats
}

func (p *c15Pair) div(step int, kind, class, detail string, hist []c15StepJ) {
	p.Divs = append(p.Divs, C15Div{Pair: p.Index, Seed: p.Seed, Step: step, Kind: kind, Class: class, Detail: detail, History: hist})
}

func runC15Pair(index int, seed int64, steps int, spliceP float64, mu *sync.Mutex, st *C15Stats) (*c15Pair, error) {
	ctx := context.Background()
	p := &c15Pair{Index: index, Seed: seed}
	// ---------- run A: the client history alone ----------
	ea, err := NewEnv(true)
	if err != nil {
		return nil, err
	}
	defer ea.Close()
	g := NewGen(seed, "c15")
	pre, err := ea.Dump(ctx)
	if err != nil {
		return nil, err
	}
	var preAs []*Dump
	for len(p.StepsA) < steps {
		a := g.Next(pre, ea.VNow())
		if a.Op == nil {
			if err := ea.Advance(a.Advance); err != nil {
				return nil, err
			}
			if pre, err = ea.Dump(ctx); err != nil {
				return nil, err
			}
			continue
		}
		if err := ea.guardWide(pre); err != nil {
			return nil, err
		}
		o, err := ea.Exec(ctx, a.Op, pre)
		if err != nil {
			return nil, err
		}
		if time.Duration(o.Hi-o.Lo) > guardSlow {
			o.Skip = "slow-call"
		}
		g.Learn(o)
		preAs = append(preAs, pre)
		p.StepsA = append(p.StepsA, o)
		if err := ea.Advance(c15Pad); err != nil {
			return nil, err
		}
		if pre, err = ea.Dump(ctx); err != nil {
			return nil, err
		}
	}
	// ---------- run B: the same history with prune jobs spliced in ----------
	eb, err := NewEnv(true)
	if err != nil {
		return nil, err
	}
	defer eb.Close()
	r := rand.New(rand.NewSource(seed ^ 0x5eed15))
	m := &c15Map{msg: map[uuid.UUID]uuid.UUID{}, del: map[uuid.UUID]uuid.UUID{}}
	preB, err := eb.Dump(ctx)
	if err != nil {
		return nil, err
	}
	var hist []c15StepJ
	local := C15Stats{JobKinds: map[string]int{}, OpKinds: map[string]int{}}
	splice := func() ([]*Op, error) {
		var jobs []*Op
		for n := 0; n < 3 && r.Float64() < spliceP; n++ {
			op := &Op{Kind: "Job", Job: pruneJobs[r.Intn(len(pruneJobs))]}
			op.MinAge = []time.Duration{0, 0, 0, time.Second, 30 * time.Second, time.Hour}[r.Intn(6)]
			op.MaxN = []int{1, 1, 2, 3, 100, 100}[r.Intn(6)]
			ages := []time.Duration{0, op.MinAge}
			if ok, _ := quiet(preB, eb.VNow(), 5*time.Millisecond, guardBefore, ages); !ok {
				continue // not a quiet instant for this job: do not splice here
			}
			o, err := eb.Exec(ctx, op, preB)
			if err != nil {
				return nil, err
			}
			if time.Duration(o.Hi-o.Lo) > guardSlow {
				o.Skip = "slow-call"
			} else if deadlineInside(preB, o.Lo, o.Hi, ages) {
				o.Skip = "deadline-inside-call"
			}
			p.StepsB = append(p.StepsB, o)
			jobs = append(jobs, op)
			local.JobsSpliced++
			if o.Resp.Kind == "err" {
				local.JobsFailed++
			} else if o.Resp.Count > 0 {
				local.JobsEffective++
				local.JobKinds[op.Job]++
			}
			preB = o.Post
		}
		return jobs, nil
	}
	diverged := false
	for k, oa := range p.StepsA {
		jobs, err := splice()
		if err != nil {
			return nil, err
		}
		// same virtual instant as in run A (run B is never late thanks to the pad)
		if d := oa.Lo - eb.VNow(); d > 0 {
			if err := eb.Advance(time.Duration(d)); err != nil {
				return nil, err
			}
			if preB, err = eb.Dump(ctx); err != nil {
				return nil, err
			}
		}
		late := eb.VNow() - oa.Lo
		opB := m.translate(oa.Op)
		ob, err := eb.Exec(ctx, opB, preB)
		if err != nil {
			return nil, err
		}
		if time.Duration(ob.Hi-ob.Lo) > guardSlow {
			ob.Skip = "slow-call"
		} else if deadlineInside(preB, ob.Lo, ob.Hi, []time.Duration{0}) {
			ob.Skip = "deadline-inside-call"
		}
		p.StepsB = append(p.StepsB, ob)
		hist = append(hist, c15StepJ{Kind: oa.Op.Kind, Op: oa.Op, RespA: oa.Resp, RespB: ob.Resp, Lo: oa.Lo, Jobs: jobs})
		local.ClientSteps++
		kk := oa.Op.Kind
		if kk == "Job" {
			kk = "Job:" + oa.Op.Job
		}
		local.OpKinds[kk]++
		if late > int64(150*time.Millisecond) || oa.Skip != "" {
			// cannot compare this step reliably; later steps still are (state is re-synchronised
			// by construction unless the step itself behaved differently)
			local.Skipped++
		}
		// identity mapping
		if oa.Op.Kind == "Publish" && oa.Resp.Kind == "ids" && ob.Resp.Kind == "ids" && len(oa.Resp.IDs) == len(ob.Resp.IDs) {
			for i := range oa.Resp.IDs {
				m.msg[oa.Resp.IDs[i]] = ob.Resp.IDs[i]
			}
		}
		if !diverged {
			if why := m.compareResp(oa.Op, oa.Resp, ob.Resp); why != "" && why != "seek-to-snapshot-of-deleted-topic" {
				p.div(k, oa.Op.Kind, "response", why, append([]c15StepJ(nil), hist...))
				diverged = true
			}
			if oa.Resp.Kind == "pull" {
				local.PullsCompared++
				local.PulledMessages += len(oa.Resp.Pulled)
			}
		}
		if !diverged {
			if why := m.matchNewDels(preAs[k], oa.Post, preB, ob.Post); why != "" {
				p.div(k, oa.Op.Kind, "state", why, append([]c15StepJ(nil), hist...))
				diverged = true
			}
		}
		if !diverged {
			sa, sb := m.outstandingSet(oa.Post, oa.Hi, true), m.outstandingSet(ob.Post, ob.Hi, false)
			if !reflect.DeepEqual(sa, sb) {
				p.div(k, oa.Op.Kind, "state", fmt.Sprintf("outstanding deliveries differ after the step: run A %d, run B %d: %v", len(sa), len(sb), symdiff(sa, sb)), append([]c15StepJ(nil), hist...))
				diverged = true
			}
			la, lb := liveNames(oa.Post), liveNames(ob.Post)
			if !diverged && !reflect.DeepEqual(la, lb) {
				p.div(k, oa.Op.Kind, "state", fmt.Sprintf("live topics / subscriptions differ: %v", symdiff(la, lb)), append([]c15StepJ(nil), hist...))
				diverged = true
			}
		}
		preB = ob.Post
	}
	// ---------- drain both runs: pull past every backoff, twice ----------
	if !diverged {
		for round := 0; round < 2 && !diverged; round++ {
			if _, err := splice(); err != nil {
				return nil, err
			}
			if err := ea.Advance(11 * time.Minute); err != nil {
				return nil, err
			}
			da, err := ea.Dump(ctx)
			if err != nil {
				return nil, err
			}
			if err := ea.guardWide(da); err != nil {
				return nil, err
			}
			if d := ea.VNow() - eb.VNow(); d > 0 {
				if err := eb.Advance(time.Duration(d)); err != nil {
					return nil, err
				}
			}
			if preB, err = eb.Dump(ctx); err != nil {
				return nil, err
			}
			var names []string
			for _, s := range da.Subs {
				if s.Deleted == nil {
					names = append(names, s.Name)
				}
			}
			sort.Strings(names)
			for _, name := range names {
				op := &Op{Kind: "Pull", Name: name, Max: 1000}
				oa, err := ea.Exec(ctx, op, da)
				if err != nil {
					return nil, err
				}
				opb := m.translate(op)
				ob, err := eb.Exec(ctx, opb, preB)
				if err != nil {
					return nil, err
				}
				local.DrainPulls++
				if time.Duration(ob.Hi-ob.Lo) > guardSlow {
					ob.Skip = "slow-call"
				} else if deadlineInside(preB, ob.Lo, ob.Hi, []time.Duration{0}) {
					ob.Skip = "deadline-inside-call"
				}
				p.StepsB = append(p.StepsB, ob)
				if why := m.compareResp(op, oa.Resp, ob.Resp); why != "" {
					p.div(len(p.StepsA), "drain", "drain", "draining "+name+": "+why, append([]c15StepJ(nil), hist...))
					diverged = true
					break
				}
				da, preB = oa.Post, ob.Post
			}
		}
	}
	// ---------- convergence on run B ----------
	if !diverged {
		if err := p.converge(eb, r, &local); err != nil {
			return nil, err
		}
	}
	mu.Lock()
	st.Pairs++
	st.ClientSteps += local.ClientSteps
	st.JobsSpliced += local.JobsSpliced
	st.JobsEffective += local.JobsEffective
	st.JobsFailed += local.JobsFailed
	st.PullsCompared += local.PullsCompared
	st.PulledMessages += local.PulledMessages
	st.DrainPulls += local.DrainPulls
	st.Skipped += local.Skipped
	st.ConvergeRuns += local.ConvergeRuns
	st.ConvergeRounds += local.ConvergeRounds
	st.ConvergeRows += local.ConvergeRows
	st.ConvergeErrors += local.ConvergeErrors
	for k, v := range local.JobKinds {
		st.JobKinds[k] += v
	}
	for k, v := range local.OpKinds {
		st.OpKinds[k] += v
	}
	mu.Unlock()
	return p, nil
}

func symdiff(a, b []string) []string {
	ma := map[string]int{}
	for _, x := range a {
		ma[x]++
	}
	for _, x := range b {
		ma[x]--
	}
	var out []string
	for k, v := range ma {
		if v > 0 {
			out = append(out, "only-A:"+k)
		} else if v < 0 {
			out = append(out, "only-B:"+k)
		}
	}
	sort.Strings(out)
	if len(out) > 6 {
		out = out[:6]
	}
	return out
}

// converge: make everything dead, then rounds of the six jobs in random order with random
// batch sizes must reclaim every dead row, without getting stuck
func (p *c15Pair) converge(e *Env, r *rand.Rand, st *C15Stats) error {
	ctx := context.Background()
	d, err := e.Dump(ctx)
	if err != nil {
		return err
	}
	variant := r.Intn(3) // 0: delete all subscriptions and topics; 1: delete subscriptions only; 2: keep everything live
	if variant <= 1 {
		for _, s := range d.Subs {
			if s.Deleted == nil {
				if _, err := e.Exec(ctx, &Op{Kind: "DeleteSub", Name: s.Name}, d); err != nil {
					return err
				}
			}
		}
	}
	if variant == 0 {
		for _, t := range d.Topics {
			if t.Deleted == nil {
				if _, err := e.Exec(ctx, &Op{Kind: "DeleteTopic", Name: t.Name}, d); err != nil {
					return err
				}
			}
		}
	}
	// longer than every retention the generator uses (31 days at most) and every age threshold
	if err := e.Advance(32*24*time.Hour + time.Hour); err != nil {
		return err
	}
	age := []time.Duration{0, 30 * time.Second, time.Hour}[r.Intn(3)]
	if d, err = e.Dump(ctx); err != nil {
		return err
	}
	size0 := len(d.Dels) + len(d.Msgs) + len(d.Subs) + len(d.Topics)
	st.ConvergeRuns++
	effective := 0
	var lastErr string
	for round := 0; ; round++ {
		if round > size0+5 {
			p.div(len(p.StepsA), "converge", "stuck",
				fmt.Sprintf("after %d rounds of the six prune jobs (age %v, variant %d) rows are still being found or a job keeps failing (%s): deliveries=%d messages=%d subscriptions=%d topics=%d",
					round, age, variant, lastErr, len(d.Dels), len(d.Msgs), len(d.Subs), len(d.Topics)), nil)
			return nil
		}
		st.ConvergeRounds++
		progress, failed := 0, 0
		for _, ji := range r.Perm(len(pruneJobs)) {
			op := &Op{Kind: "Job", Job: pruneJobs[ji], MinAge: age, MaxN: []int{1, 2, 3, 100}[r.Intn(4)]}
			n, err := e.runJob(ctx, op)
			if os.Getenv("VERIF_DEBUG") != "" {
				fmt.Fprintf(os.Stderr, "converge seed=%d round=%d job=%s max=%d n=%d err=%v\n", p.Seed, round, op.Job, op.MaxN, n, err)
			}
			if err != nil {
				failed++
				lastErr = op.Job + ": " + err.Error()
				st.ConvergeErrors++
				continue
			}
			progress += n
			if n > 0 {
				effective++
			}
		}
		st.ConvergeRows += progress
		if d, err = e.Dump(ctx); err != nil {
			return err
		}
		if progress == 0 && failed == 0 {
			break
		}
		if progress == 0 && failed > 0 {
			// nothing moved and a job failed: one more round in another order may still help
			// only if some other job can make progress; the round bound catches a real wedge
			continue
		}
	}
	if effective > size0 {
		p.div(len(p.StepsA), "converge", "stuck", fmt.Sprintf("%d effective job runs for %d rows", effective, size0), nil)
	}
	// nothing dead may be left behind
	now := e.VNow()
	var left []string
	for _, x := range d.Dels {
		left = append(left, "delivery "+x.ID.String())
		if os.Getenv("VERIF_DEBUG") != "" {
			fmt.Fprintf(os.Stderr, "left seed=%d now=%d del %+v\n", p.Seed, now, x)
		}
	}
	for _, x := range d.Msgs {
		if x.Published <= now-int64(age) {
			left = append(left, "message "+x.ID.String())
		}
	}
	for _, x := range d.Subs {
		if x.Deleted != nil {
			left = append(left, "deleted subscription "+x.Name)
		}
	}
	for _, t := range d.Topics {
		if t.Deleted == nil {
			continue
		}
		referenced := false
		for _, s := range d.Subs {
			if s.Topic == t.ID || (s.Deleted == nil && s.DLTopic != nil && *s.DLTopic == t.ID) {
				referenced = true
			}
		}
		if !referenced {
			left = append(left, "deleted topic "+t.Name)
		}
	}
	if len(left) > 0 {
		if len(left) > 6 {
			left = left[:6]
		}
		p.div(len(p.StepsA), "converge", "leftover", fmt.Sprintf("the jobs reached a fixpoint (age %v, variant %d) but dead rows remain: %v", age, variant, left), nil)
	}
	return nil
}

func cmdC15(args []string) error {
	fs := flag.NewFlagSet("c15", flag.ExitOnError)
	seed := fs.Int64("seed", 1, "base seed")
	n := fs.Int("n", 16, "number of paired histories")
	steps := fs.Int("steps", 40, "client operations per history")
	out := fs.String("out", "", "output directory")
	workers := fs.Int("workers", 8, "parallel workers")
	perFile := fs.Int("per-file", 4, "histories per cases file")
	spliceP := fs.Float64("splice", 0.5, "probability of splicing a job (up to three) before a client step")
	fs.Parse(args)
	if *out == "" {
		return fmt.Errorf("-out required")
	}
	if err := os.MkdirAll(*out, 0o755); err != nil {
		return err
	}
	start := time.Now()
	st := &C15Stats{JobKinds: map[string]int{}, OpKinds: map[string]int{}}
	pairs := make([]*c15Pair, *n)
	errs := make([]error, *n)
	var mu sync.Mutex
	var wg sync.WaitGroup
	idx := make(chan int)
	for w := 0; w < *workers; w++ {
		wg.Add(1)
		go func() {
			defer wg.Done()
			for i := range idx {
				pairs[i], errs[i] = runC15Pair(i, *seed*1000003+int64(i), *steps, *spliceP, &mu, st)
			}
		}()
	}
	for i := 0; i < *n; i++ {
		idx <- i
	}
	close(idx)
	wg.Wait()
	for i, err := range errs {
		if err != nil {
			return fmt.Errorf("pair %d: %w", i, err)
		}
	}
	for _, p := range pairs {
		st.Divergences = append(st.Divergences, p.Divs...)
	}
	// run B as Coq cases: step-local simulation of every step + the prune monitor
	for f := 0; f*(*perFile) < len(pairs); f++ {
		name := filepath.Join(*out, fmt.Sprintf("cases_%03d.v", f))
		fh, err := os.Create(name)
		if err != nil {
			return err
		}
		fmt.Fprintln(fh, "From MB Require Import Base.\nFrom MB.Bus Require Import State Ops Step Check View.\nOpen Scope list_scope.\n")
		for i := f * (*perFile); i < (f+1)*(*perFile) && i < len(pairs); i++ {
			fmt.Fprintln(fh, EmitHistory(fmt.Sprintf("h%d", i), pairs[i].StepsB))
			fmt.Fprintf(fh, "Definition r%d := Eval vm_compute in check_history h%d.\nPrint r%d.\n", i, i, i)
			fmt.Fprintf(fh, "Definition v%d := Eval vm_compute in check_prune_steps h%d.\nPrint v%d.\n\n", i, i, i)
		}
		fh.Close()
		st.Files = append(st.Files, name)
	}
	type stepJ struct {
		Kind string `json:"kind"`
		Op   *Op    `json:"op"`
		Resp *Resp  `json:"resp"`
		Lo   int64  `json:"lo"`
		Skip string `json:"skip,omitempty"`
	}
	type histJ struct {
		Index int     `json:"index"`
		Seed  int64   `json:"seed"`
		Steps []stepJ `json:"steps"`
	}
	var hj []histJ
	for _, p := range pairs {
		x := histJ{Index: p.Index, Seed: p.Seed}
		for _, o := range p.StepsB {
			x.Steps = append(x.Steps, stepJ{o.Op.Kind, o.Op, o.Resp, o.Lo, o.Skip})
		}
		hj = append(hj, x)
	}
	b, _ := json.Marshal(hj)
	if err := os.WriteFile(filepath.Join(*out, "histories.json"), b, 0o644); err != nil {
		return err
	}
	if len(pairs) > 0 {
		var s []string
		for i, o := range pairs[0].StepsB {
			if i > 24 {
				break
			}
			k := o.Op.Kind
			if k == "Job" {
				k = fmt.Sprintf("Job:%s(age %v, max %d)=%d", o.Op.Job, o.Op.MinAge, o.Op.MaxN, o.Resp.Count)
			}
			s = append(s, k)
		}
		st.Samples = append(st.Samples, s)
	}
	st.WallS = time.Since(start).Seconds()
	sb, _ := json.MarshalIndent(st, "", " ")
	if err := os.WriteFile(filepath.Join(*out, "c15.json"), sb, 0o644); err != nil {
		return err
	}
	st.Divergences = nil
	sb, _ = json.MarshalIndent(st, "", " ")
	fmt.Println(string(sb))
	return nil
}

func init() { subcmds["c15"] = cmdC15 }
