package main

// Dump: the abstraction function from the database to the model state (Bus/State.v).

import (
	"bytes"
	"context"
	"encoding/json"
	"sort"
	"time"

	"github.com/google/uuid"

	"go.6river.tech/mmmbbb/ent"
)

type KV struct{ K, V string }

func sortedMap(m map[string]string) []KV {
	out := make([]KV, 0, len(m))
	for k, v := range m {
		out = append(out, KV{k, v})
	}
	sort.Slice(out, func(i, j int) bool { return out[i].K < out[j].K })
	return out
}

type TopicRow struct {
	ID      uuid.UUID
	Name    string
	Deleted *int64
	Live    *bool
	Labels  []KV
}
type SubRow struct {
	ID          uuid.UUID
	Name        string
	Topic       uuid.UUID
	Deleted     *int64
	Live        *bool
	Expires     int64
	TTL         int64
	MsgTTL      int64
	Ordered     bool
	Filter      *string
	MinB, MaxB  *int64
	MaxAttempts *int64
	DLTopic     *uuid.UUID
	Delay       int64
	Push        *string
	Labels      []KV
}
type MsgRow struct {
	ID        uuid.UUID
	Topic     uuid.UUID
	Published int64
	Attrs     []KV
	Key       *string
	Payload   string // canonical JSON
	Size      int64
}
type DelRow struct {
	ID        uuid.UUID
	Msg       uuid.UUID
	Sub       uuid.UUID
	Published int64
	AttemptAt int64
	Attempts  int64
	Completed *int64
	Expires   int64
	NotBefore *uuid.UUID
	Last      *int64
}
type SnapRow struct {
	ID      uuid.UUID
	Name    string
	Topic   uuid.UUID
	Expires int64
	Labels  []KV
	Before  int64
	Acked   []uuid.UUID
}
type Dump struct {
	Topics []TopicRow
	Subs   []SubRow
	Msgs   []MsgRow
	Dels   []DelRow
	Snaps  []SnapRow
}

func uuidLess(a, b uuid.UUID) bool { return bytes.Compare(a[:], b[:]) < 0 }

// canonJSON renders a JSON document canonically (sorted keys, number literals kept);
// empty input is the JSON null the implementation stores for it; invalid input is
// tagged so that it can never equal a valid document.
func canonJSON(b []byte) string {
	if len(b) == 0 {
		return "null"
	}
	dec := json.NewDecoder(bytes.NewReader(b))
	dec.UseNumber()
	var v interface{}
	if err := dec.Decode(&v); err != nil {
		return "!invalid:" + string(b)
	}
	if dec.More() {
		return "!invalid:" + string(b)
	}
	var buf bytes.Buffer
	enc := json.NewEncoder(&buf)
	enc.SetEscapeHTML(false)
	if err := enc.Encode(v); err != nil {
		return "!invalid:" + string(b)
	}
	return string(bytes.TrimRight(buf.Bytes(), "\n"))
}

func (e *Env) vt(t time.Time) int64 { return e.ToVirtual(t) }
func (e *Env) vtp(t *time.Time) *int64 {
	if t == nil {
		return nil
	}
	v := e.ToVirtual(*t)
	return &v
}

func (e *Env) Dump(ctx context.Context) (*Dump, error) {
	d := &Dump{}
	err := e.Client.DoTx(ctx, nil, func(tx *ent.Tx) error {
		ts, err := tx.Topic.Query().All(ctx)
		if err != nil {
			return err
		}
		for _, t := range ts {
			d.Topics = append(d.Topics, TopicRow{t.ID, t.Name, e.vtp(t.DeletedAt), t.Live, sortedMap(t.Labels)})
		}
		ss, err := tx.Subscription.Query().All(ctx)
		if err != nil {
			return err
		}
		for _, s := range ss {
			r := SubRow{ID: s.ID, Name: s.Name, Topic: s.TopicID, Deleted: e.vtp(s.DeletedAt), Live: s.Live,
				Expires: e.vt(s.ExpiresAt), TTL: int64(s.TTL), MsgTTL: int64(s.MessageTTL),
				Ordered: s.OrderedDelivery, Filter: s.MessageFilter, DLTopic: s.DeadLetterTopicID,
				Delay: int64(s.DeliveryDelay), Push: s.PushEndpoint, Labels: sortedMap(s.Labels)}
			if s.MinBackoff != nil {
				v := int64(*s.MinBackoff)
				r.MinB = &v
			}
			if s.MaxBackoff != nil {
				v := int64(*s.MaxBackoff)
				r.MaxB = &v
			}
			if s.MaxDeliveryAttempts != nil {
				v := int64(*s.MaxDeliveryAttempts)
				r.MaxAttempts = &v
			}
			d.Subs = append(d.Subs, r)
		}
		ms, err := tx.Message.Query().All(ctx)
		if err != nil {
			return err
		}
		for _, m := range ms {
			d.Msgs = append(d.Msgs, MsgRow{m.ID, m.TopicID, e.vt(m.PublishedAt), sortedMap(m.Attributes),
				m.OrderKey, canonJSON(m.Payload), int64(len(m.Payload))})
		}
		ds, err := tx.Delivery.Query().All(ctx)
		if err != nil {
			return err
		}
		for _, x := range ds {
			r := DelRow{ID: x.ID, Msg: x.MessageID, Sub: x.SubscriptionID, Published: e.vt(x.PublishedAt),
				AttemptAt: e.vt(x.AttemptAt), Attempts: int64(x.Attempts), Completed: e.vtp(x.CompletedAt),
				Expires: e.vt(x.ExpiresAt), Last: e.vtp(x.LastAttemptedAt)}
			if x.NotBeforeID != uuid.Nil {
				nb := x.NotBeforeID
				r.NotBefore = &nb
			}
			d.Dels = append(d.Dels, r)
		}
		ns, err := tx.Snapshot.Query().All(ctx)
		if err != nil {
			return err
		}
		for _, n := range ns {
			acked := append([]uuid.UUID(nil), n.AckedMessageIDs...)
			sort.Slice(acked, func(i, j int) bool { return uuidLess(acked[i], acked[j]) })
			// the list is used as a SET (message_id IN ...): a message with two completed deliveries on the
			// subscription (a dead-letter topic that is the subscription's own topic) is listed twice by
			// the implementation's join, once by the model - the same snapshot
			uniq := acked[:0]
			for i, id := range acked {
				if i == 0 || id != acked[i-1] {
					uniq = append(uniq, id)
				}
			}
			acked = uniq
			d.Snaps = append(d.Snaps, SnapRow{n.ID, n.Name, n.TopicID, e.vt(n.ExpiresAt), sortedMap(n.Labels),
				e.vt(n.AckedMessagesBefore), acked})
		}
		return nil
	})
	if err != nil {
		return nil, err
	}
	sort.Slice(d.Topics, func(i, j int) bool { return uuidLess(d.Topics[i].ID, d.Topics[j].ID) })
	sort.Slice(d.Subs, func(i, j int) bool { return uuidLess(d.Subs[i].ID, d.Subs[j].ID) })
	sort.Slice(d.Msgs, func(i, j int) bool { return uuidLess(d.Msgs[i].ID, d.Msgs[j].ID) })
	sort.Slice(d.Dels, func(i, j int) bool { return uuidLess(d.Dels[i].ID, d.Dels[j].ID) })
	sort.Slice(d.Snaps, func(i, j int) bool { return uuidLess(d.Snaps[i].ID, d.Snaps[j].ID) })
	return d, nil
}

// Deadlines lists every stored instant a time comparison of the code can hinge on.
func (d *Dump) Deadlines() []int64 {
	var out []int64
	for _, s := range d.Subs {
		out = append(out, s.Expires)
		if s.Deleted != nil {
			out = append(out, *s.Deleted)
		}
	}
	for _, t := range d.Topics {
		if t.Deleted != nil {
			out = append(out, *t.Deleted)
		}
	}
	for _, m := range d.Msgs {
		out = append(out, m.Published)
	}
	for _, x := range d.Dels {
		out = append(out, x.AttemptAt, x.Expires)
		if x.Completed != nil {
			out = append(out, *x.Completed)
		}
	}
	return out
}
