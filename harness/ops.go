package main

// Operations as the engine generates, executes and logs them (mirror of Bus/Ops.v [op]).

import (
	"context"
	"encoding/binary"
	"fmt"
	"hash/crc32"
	"math/big"
	"os"
	"sort"
	"time"

	"github.com/google/uuid"
	"google.golang.org/grpc/codes"
	"google.golang.org/grpc/status"
	"google.golang.org/protobuf/types/known/durationpb"
	"google.golang.org/protobuf/types/known/fieldmaskpb"
	"google.golang.org/protobuf/types/known/timestamppb"

	"go.6river.tech/mmmbbb/actions"
	"go.6river.tech/mmmbbb/ent"
	"go.6river.tech/mmmbbb/grpc/pubsubpb"
	"go.6river.tech/mmmbbb/logging"
)

type PubMsg struct {
	Data  []byte
	Attrs map[string]string
	Key   string
	// oracles
	ID   uuid.UUID
	Now  int64
	Size int64
}

type PushReq struct {
	Endpoint string
	Attrs    map[string]string
	Auth     bool
	Wrapper  string // "", "pubsub", "other"
}

type SubReq struct {
	Name, Topic string
	TTL         *time.Duration // expiration_policy.ttl (nil: no ttl; HasExp says whether the policy message is present)
	HasExp      bool
	MsgTTL      *time.Duration
	Ordered     bool
	Labels      map[string]string
	Filter      string
	Detached    bool
	Retry       *[2]*time.Duration
	DL          *struct {
		Topic string
		Max   int32
	}
	Push *PushReq
}

type sqlResult interface{ RowsAffected() (int64, error) }

// how long a waiting pull is left waiting before the client abandons it
const pullWaitFor = 300 * time.Millisecond

type Triple struct{ Msg, Sub, ID uuid.UUID }
type FuzzV struct {
	ID uuid.UUID
	V  int64
}

type Op struct {
	Kind     string
	Name     string
	Name2    string
	Project  string
	Labels   map[string]string
	Advanced bool
	Paths    []string
	Size     int32
	Tok      string
	Msgs     []PubMsg
	Sub      *SubReq
	AckIDs   []string
	Seconds  int32
	Max      int32
	Target   int64 // virtual
	Push     *PushReq
	HasPush  bool
	Job      string
	MinAge   time.Duration
	MaxN     int
	Delay    time.Duration
	Nacks    []string
	Wait     bool // Pull: a waiting pull (return_immediately = false) that the client abandons after pullWaitFor

	// oracles, filled in after execution
	Fresh     uuid.UUID
	WNow      int64
	FreshDels []Triple
	Returned  []uuid.UUID
	Others    []uuid.UUID
	Fuzz      []FuzzV
	Chosen    []uuid.UUID
	Failed    bool
}

type Pulled struct {
	Ack, Msg  uuid.UUID
	Attempt   int64
	Payload   string
	Attrs     []KV
	Key       string
	Published int64
}
type SubView struct {
	Name, Topic string
	AckDeadline int64
	MsgTTL      int64
	Labels      []KV
	Ordered     bool
	TTL         int64
	Push        *string
	Filter      string
	DL          *struct {
		Topic string
		Max   int64
	}
	Retry *[2]*int64
}
type SnapView struct {
	Name, Topic string
	Expires     int64
	Labels      []KV
}
type Resp struct {
	Kind   string // err unit ids pull sub subempty topic topicempty names topics subs snap snaps count
	Code   codes.Code
	Msg    string
	IDs    []uuid.UUID
	Pulled []Pulled
	Sub    *SubView
	Name   string
	Labels []KV
	Names  []string
	Topics []struct {
		Name   string
		Labels []KV
	}
	Subs  []SubView
	Snap  *SnapView
	Snaps []SnapView
	Next  string
	Count int64
}

type Obs struct {
	Lo, Hi int64
	Op     *Op
	Resp   *Resp
	Post   *Dump
	Skip   string // non-empty: step not checkable (reason)
	// direct property monitors evaluated by the harness on the observed states (not by the model)
	Monitor []string
}

func errResp(err error) *Resp {
	st, _ := status.FromError(err)
	return &Resp{Kind: "err", Code: st.Code(), Msg: st.Message()}
}

func pbDur(d *time.Duration) *durationpb.Duration {
	if d == nil {
		return nil
	}
	return durationpb.New(*d)
}

func (q *SubReq) toPB() *pubsubpb.Subscription {
	s := &pubsubpb.Subscription{
		Name: q.Name, Topic: q.Topic, EnableMessageOrdering: q.Ordered, Labels: q.Labels,
		Filter: q.Filter, Detached: q.Detached, MessageRetentionDuration: pbDur(q.MsgTTL),
	}
	if q.HasExp {
		s.ExpirationPolicy = &pubsubpb.ExpirationPolicy{Ttl: pbDur(q.TTL)}
	}
	if q.Retry != nil {
		s.RetryPolicy = &pubsubpb.RetryPolicy{MinimumBackoff: pbDur(q.Retry[0]), MaximumBackoff: pbDur(q.Retry[1])}
	}
	if q.DL != nil {
		s.DeadLetterPolicy = &pubsubpb.DeadLetterPolicy{DeadLetterTopic: q.DL.Topic, MaxDeliveryAttempts: q.DL.Max}
	}
	s.PushConfig = q.Push.toPB()
	return s
}

func (p *PushReq) toPB() *pubsubpb.PushConfig {
	if p == nil {
		return nil
	}
	c := &pubsubpb.PushConfig{PushEndpoint: p.Endpoint, Attributes: p.Attrs}
	if p.Auth {
		c.AuthenticationMethod = &pubsubpb.PushConfig_OidcToken_{OidcToken: &pubsubpb.PushConfig_OidcToken{ServiceAccountEmail: "x@y"}}
	}
	switch p.Wrapper {
	case "pubsub":
		c.Wrapper = &pubsubpb.PushConfig_PubsubWrapper_{PubsubWrapper: &pubsubpb.PushConfig_PubsubWrapper{}}
	case "other":
		c.Wrapper = &pubsubpb.PushConfig_NoWrapper_{NoWrapper: &pubsubpb.PushConfig_NoWrapper{}}
	}
	return c
}

func durNS(d *durationpb.Duration) int64 {
	if d == nil {
		return 0
	}
	return int64(d.AsDuration())
}

func subViewOf(s *pubsubpb.Subscription) *SubView {
	v := &SubView{Name: s.Name, Topic: s.Topic, AckDeadline: int64(s.AckDeadlineSeconds),
		MsgTTL: durNS(s.MessageRetentionDuration), Labels: sortedMap(s.Labels), Ordered: s.EnableMessageOrdering,
		TTL: durNS(s.GetExpirationPolicy().GetTtl()), Filter: s.Filter}
	if s.PushConfig != nil {
		ep := s.PushConfig.PushEndpoint
		v.Push = &ep
	}
	if s.DeadLetterPolicy != nil {
		v.DL = &struct {
			Topic string
			Max   int64
		}{s.DeadLetterPolicy.DeadLetterTopic, int64(s.DeadLetterPolicy.MaxDeliveryAttempts)}
	}
	if s.RetryPolicy != nil {
		var r [2]*int64
		if s.RetryPolicy.MinimumBackoff != nil {
			x := durNS(s.RetryPolicy.MinimumBackoff)
			r[0] = &x
		}
		if s.RetryPolicy.MaximumBackoff != nil {
			x := durNS(s.RetryPolicy.MaximumBackoff)
			r[1] = &x
		}
		v.Retry = &r
	}
	return v
}

func isEmptySubPB(s *pubsubpb.Subscription) bool {
	return s.Name == "" && s.Topic == "" && s.ExpirationPolicy == nil && s.MessageRetentionDuration == nil
}

func parseIDs(ss []string) ([]uuid.UUID, bool) {
	out := make([]uuid.UUID, len(ss))
	for i, s := range ss {
		u, err := uuid.Parse(s)
		if err != nil {
			return nil, false
		}
		out[i] = u
	}
	return out, true
}

// exactNominal re-computes the model's nominal delay min(max, floor(min*11^n/10^n))
// independently of the implementation's float arithmetic.
func exactNominal(minB, maxB *int64, n int64) int64 {
	mn, mx := int64(10e9), int64(600e9)
	if minB != nil && *minB > 0 {
		mn = *minB
	}
	if maxB != nil && *maxB > 0 {
		mx = *maxB
	}
	num := new(big.Int).Exp(big.NewInt(11), big.NewInt(n), nil)
	num.Mul(num, big.NewInt(mn))
	den := new(big.Int).Exp(big.NewInt(10), big.NewInt(n), nil)
	num.Div(num, den)
	if num.Cmp(big.NewInt(mx)) > 0 {
		return mx
	}
	return num.Int64()
}

// jitter is the environment's draw for the retry fuzz (crc32 of subscription id and
// attempt number), recomputed by the harness; it is zero for delays of at most 0.5 s.
func jitter(sub uuid.UUID, attempts int64, nominal int64) int64 {
	if nominal <= 500_000_000 {
		return 0
	}
	h := crc32.NewIEEE()
	h.Write(sub[:])
	var b [4]byte
	binary.LittleEndian.PutUint32(b[:], uint32(int32(attempts)))
	h.Write(b[:])
	return int64(h.Sum32() % 1_000_000_000)
}

func (d *Dump) sub(id uuid.UUID) *SubRow {
	for i := range d.Subs {
		if d.Subs[i].ID == id {
			return &d.Subs[i]
		}
	}
	return nil
}
func (d *Dump) subByName(name string) *SubRow {
	for i := range d.Subs {
		if d.Subs[i].Name == name && d.Subs[i].Deleted == nil {
			return &d.Subs[i]
		}
	}
	return nil
}
func (d *Dump) del(id uuid.UUID) *DelRow {
	for i := range d.Dels {
		if d.Dels[i].ID == id {
			return &d.Dels[i]
		}
	}
	return nil
}
func (d *Dump) msg(id uuid.UUID) *MsgRow {
	for i := range d.Msgs {
		if d.Msgs[i].ID == id {
			return &d.Msgs[i]
		}
	}
	return nil
}

func newDels(pre, post *Dump) []Triple {
	var out []Triple
	for _, x := range post.Dels {
		if pre.del(x.ID) == nil {
			out = append(out, Triple{x.Msg, x.Sub, x.ID})
		}
	}
	return out
}

// newlyCompleted lists deliveries completed by this step with their completion time
func newlyCompleted(pre, post *Dump) ([]uuid.UUID, int64) {
	var ids []uuid.UUID
	var at int64
	for _, x := range post.Dels {
		p := pre.del(x.ID)
		if p != nil && p.Completed == nil && x.Completed != nil {
			ids = append(ids, x.ID)
			at = *x.Completed
		}
	}
	return ids, at
}

// orderByForwardLinks orders the dead-lettered source deliveries so that a source whose
// forward is the predecessor (not_before) of another source's forward comes first: the
// order in which the code processed them is otherwise unobservable, and it matters only
// through exactly these links.
func orderByForwardLinks(srcs []uuid.UUID, pre, post *Dump) []uuid.UUID {
	fresh := newDels(pre, post)
	srcOfMsg := map[uuid.UUID]uuid.UUID{}
	for _, s := range srcs {
		if d := pre.del(s); d != nil {
			srcOfMsg[d.Msg] = s
		}
	}
	isFresh := map[uuid.UUID]Triple{}
	for _, t := range fresh {
		isFresh[t.ID] = t
	}
	before := map[uuid.UUID]map[uuid.UUID]bool{} // before[x][y]: y must come before x
	for _, t := range fresh {
		row := post.del(t.ID)
		if row == nil || row.NotBefore == nil {
			continue
		}
		if pt, ok := isFresh[*row.NotBefore]; ok {
			x, okx := srcOfMsg[t.Msg]
			y, oky := srcOfMsg[pt.Msg]
			if okx && oky && x != y {
				if before[x] == nil {
					before[x] = map[uuid.UUID]bool{}
				}
				before[x][y] = true
			}
		}
	}
	out := append([]uuid.UUID(nil), srcs...)
	sort.Slice(out, func(i, j int) bool { return uuidLess(out[i], out[j]) })
	// simple repeated insertion (tiny lists)
	var res []uuid.UUID
	placed := map[uuid.UUID]bool{}
	for len(res) < len(out) {
		progress := false
		for _, x := range out {
			if placed[x] {
				continue
			}
			ready := true
			for y := range before[x] {
				if !placed[y] {
					ready = false
				}
			}
			if ready {
				res = append(res, x)
				placed[x] = true
				progress = true
			}
		}
		if !progress { // cycle: give up on ordering
			for _, x := range out {
				if !placed[x] {
					res = append(res, x)
					placed[x] = true
				}
			}
		}
	}
	return res
}

var jobKinds = []string{"PruneCompletedDeliveries", "PruneExpiredDeliveries", "PruneCompletedMessages",
	"PruneDeletedSubDeliveries", "PruneDeletedSubs", "PruneDeletedTopics", "ExpireSubs", "DeadLetterSweep"}

func (e *Env) runJob(ctx context.Context, op *Op) (int, error) {
	p := actions.PruneCommonParams{MinAge: op.MinAge, MaxDelete: op.MaxN}
	var n int
	err := e.Client.DoCtxTx(ctx, nil, func(ctx context.Context, tx *ent.Tx) error {
		switch op.Job {
		case "PruneCompletedDeliveries":
			a := actions.NewPruneCompletedDeliveries(p)
			if err := a.Execute(ctx, tx); err != nil {
				return err
			}
			r, _ := a.Results()
			n = r.NumDeleted
		case "PruneExpiredDeliveries":
			a := actions.NewPruneExpiredDeliveries(p)
			if err := a.Execute(ctx, tx); err != nil {
				return err
			}
			r, _ := a.Results()
			n = r.NumDeleted
		case "PruneCompletedMessages":
			a := actions.NewPruneCompletedMessages(p)
			if err := a.Execute(ctx, tx); err != nil {
				return err
			}
			r, _ := a.Results()
			n = r.NumDeleted
		case "PruneDeletedSubDeliveries":
			a := actions.NewPruneDeletedSubscriptionDeliveries(p)
			if err := a.Execute(ctx, tx); err != nil {
				return err
			}
			r, _ := a.Results()
			n = r.NumDeleted
		case "PruneDeletedSubs":
			a := actions.NewPruneDeletedSubscriptions(p)
			if err := a.Execute(ctx, tx); err != nil {
				return err
			}
			r, _ := a.Results()
			n = r.NumDeleted
		case "PruneDeletedTopics":
			a := actions.NewPruneDeletedTopics(p)
			if err := a.Execute(ctx, tx); err != nil {
				return err
			}
			r, _ := a.Results()
			n = r.NumDeleted
		case "ExpireSubs":
			a := actions.NewDeleteExpiredSubscriptions(p)
			if err := a.Execute(ctx, tx); err != nil {
				return err
			}
			r, _ := a.Results()
			n = r.NumDeleted
		case "DeadLetterSweep":
			a := actions.NewDeadLetterDeliveries(actions.DeadLetterDeliveriesParams{MaxDeliveries: op.MaxN})
			if err := a.Execute(ctx, tx); err != nil {
				return err
			}
			r, _ := a.Results()
			n = r.NumDeadLettered
		}
		return nil
	})
	return n, err
}

// Exec runs one operation against the real system and fills in response and oracles.
func (e *Env) Exec(ctx context.Context, op *Op, pre *Dump) (*Obs, error) {
	o, err := e.execNoDump(ctx, op, pre)
	if err != nil {
		return nil, err
	}
	post, derr := e.Dump(ctx)
	if derr != nil {
		return nil, derr
	}
	o.Post = post
	fillOracles(op, o.Resp, pre, post, o.Lo)
	return o, nil
}

// execNoDump runs the operation and records the response; the caller takes the post-dump
// (with a context of its own: the operation's context may have been cancelled on purpose)
func (e *Env) execNoDump(ctx context.Context, op *Op, pre *Dump) (*Obs, error) {
	o := &Obs{Op: op}
	var resp *Resp
	var err error
	o.Lo = e.VNow()
	switch op.Kind {
	case "CreateTopic":
		req := &pubsubpb.Topic{Name: op.Name, Labels: op.Labels}
		if op.Advanced {
			req.KmsKeyName = "k"
		}
		var r *pubsubpb.Topic
		if r, err = e.Pub.CreateTopic(ctx, req); err == nil {
			resp = &Resp{Kind: "topic", Name: r.Name, Labels: sortedMap(r.Labels)}
		}
	case "GetTopic":
		var r *pubsubpb.Topic
		if r, err = e.Pub.GetTopic(ctx, &pubsubpb.GetTopicRequest{Topic: op.Name}); err == nil {
			resp = &Resp{Kind: "topic", Name: r.Name, Labels: sortedMap(r.Labels)}
		}
	case "UpdateTopic":
		var r *pubsubpb.Topic
		if r, err = e.Pub.UpdateTopic(ctx, &pubsubpb.UpdateTopicRequest{
			Topic: &pubsubpb.Topic{Name: op.Name, Labels: op.Labels}, UpdateMask: &fieldmaskpb.FieldMask{Paths: op.Paths}}); err == nil {
			if r.Name == "" {
				resp = &Resp{Kind: "topicempty"}
			} else {
				resp = &Resp{Kind: "topic", Name: r.Name, Labels: sortedMap(r.Labels)}
			}
		}
	case "DeleteTopic":
		if _, err = e.Pub.DeleteTopic(ctx, &pubsubpb.DeleteTopicRequest{Topic: op.Name}); err == nil {
			resp = &Resp{Kind: "unit"}
		}
	case "ListTopics":
		var r *pubsubpb.ListTopicsResponse
		if r, err = e.Pub.ListTopics(ctx, &pubsubpb.ListTopicsRequest{Project: op.Project, PageSize: op.Size, PageToken: op.Tok}); err == nil {
			resp = &Resp{Kind: "topics", Next: r.NextPageToken}
			for _, t := range r.Topics {
				resp.Topics = append(resp.Topics, struct {
					Name   string
					Labels []KV
				}{t.Name, sortedMap(t.Labels)})
			}
		}
	case "ListTopicSubs":
		var r *pubsubpb.ListTopicSubscriptionsResponse
		if r, err = e.Pub.ListTopicSubscriptions(ctx, &pubsubpb.ListTopicSubscriptionsRequest{Topic: op.Name, PageSize: op.Size, PageToken: op.Tok}); err == nil {
			resp = &Resp{Kind: "names", Names: r.Subscriptions, Next: r.NextPageToken}
		}
	case "Publish":
		req := &pubsubpb.PublishRequest{Topic: op.Name}
		for _, m := range op.Msgs {
			req.Messages = append(req.Messages, &pubsubpb.PubsubMessage{Data: m.Data, Attributes: m.Attrs, OrderingKey: m.Key})
		}
		var r *pubsubpb.PublishResponse
		if r, err = e.Pub.Publish(ctx, req); err == nil {
			resp = &Resp{Kind: "ids"}
			for _, s := range r.MessageIds {
				u, _ := uuid.Parse(s)
				resp.IDs = append(resp.IDs, u)
			}
		}
	case "CreateSub":
		var r *pubsubpb.Subscription
		if r, err = e.Sub.CreateSubscription(ctx, op.Sub.toPB()); err == nil {
			resp = &Resp{Kind: "sub", Sub: subViewOf(r)}
		}
	case "GetSub":
		var r *pubsubpb.Subscription
		if r, err = e.Sub.GetSubscription(ctx, &pubsubpb.GetSubscriptionRequest{Subscription: op.Name}); err == nil {
			resp = &Resp{Kind: "sub", Sub: subViewOf(r)}
		}
	case "UpdateSub":
		var r *pubsubpb.Subscription
		if r, err = e.Sub.UpdateSubscription(ctx, &pubsubpb.UpdateSubscriptionRequest{
			Subscription: op.Sub.toPB(), UpdateMask: &fieldmaskpb.FieldMask{Paths: op.Paths}}); err == nil {
			if isEmptySubPB(r) {
				resp = &Resp{Kind: "subempty"}
			} else {
				resp = &Resp{Kind: "sub", Sub: subViewOf(r)}
			}
		}
	case "ListSubs":
		var r *pubsubpb.ListSubscriptionsResponse
		if r, err = e.Sub.ListSubscriptions(ctx, &pubsubpb.ListSubscriptionsRequest{Project: op.Project, PageSize: op.Size, PageToken: op.Tok}); err == nil {
			resp = &Resp{Kind: "subs", Next: r.NextPageToken}
			for _, s := range r.Subscriptions {
				resp.Subs = append(resp.Subs, *subViewOf(s))
			}
		}
	case "DeleteSub":
		if _, err = e.Sub.DeleteSubscription(ctx, &pubsubpb.DeleteSubscriptionRequest{Subscription: op.Name}); err == nil {
			resp = &Resp{Kind: "unit"}
		}
	case "ModAck":
		if _, err = e.Sub.ModifyAckDeadline(ctx, &pubsubpb.ModifyAckDeadlineRequest{Subscription: op.Name, AckIds: op.AckIDs, AckDeadlineSeconds: op.Seconds}); err == nil {
			resp = &Resp{Kind: "unit"}
		}
	case "Ack":
		if _, err = e.Sub.Acknowledge(ctx, &pubsubpb.AcknowledgeRequest{Subscription: op.Name, AckIds: op.AckIDs}); err == nil {
			resp = &Resp{Kind: "unit"}
		}
	case "Pull":
		var r *pubsubpb.PullResponse
		pctx, pcancel := ctx, context.CancelFunc(func() {})
		if op.Wait {
			pctx, pcancel = context.WithTimeout(ctx, pullWaitFor)
		}
		r, err = e.Sub.Pull(pctx, &pubsubpb.PullRequest{Subscription: op.Name, MaxMessages: op.Max, ReturnImmediately: !op.Wait})
		pcancel()
		if op.Wait && err != nil && status.Code(err) == codes.DeadlineExceeded {
			// the client gave up on a pull that found nothing: compared with the model's empty
			// pull (the subscription's expiry heartbeat must have been written all the same)
			err = nil
			r = &pubsubpb.PullResponse{}
			time.Sleep(30 * time.Millisecond) // let the server side notice the cancellation
		}
		if err == nil {
			resp = &Resp{Kind: "pull"}
			for _, m := range r.ReceivedMessages {
				a, _ := uuid.Parse(m.AckId)
				mi, _ := uuid.Parse(m.Message.MessageId)
				resp.Pulled = append(resp.Pulled, Pulled{Ack: a, Msg: mi, Attempt: int64(m.DeliveryAttempt),
					Payload: canonJSON(m.Message.Data), Attrs: sortedMap(m.Message.Attributes), Key: m.Message.OrderingKey,
					Published: e.ToVirtual(m.Message.PublishTime.AsTime())})
			}
		}
	case "SeekTime":
		if _, err = e.Sub.Seek(ctx, &pubsubpb.SeekRequest{Subscription: op.Name,
			Target: &pubsubpb.SeekRequest_Time{Time: timestamppb.New(e.ToReal(op.Target))}}); err == nil {
			resp = &Resp{Kind: "unit"}
		}
	case "SeekSnap":
		if _, err = e.Sub.Seek(ctx, &pubsubpb.SeekRequest{Subscription: op.Name,
			Target: &pubsubpb.SeekRequest_Snapshot{Snapshot: op.Name2}}); err == nil {
			resp = &Resp{Kind: "unit"}
		}
	case "SeekNoTarget":
		if _, err = e.Sub.Seek(ctx, &pubsubpb.SeekRequest{Subscription: op.Name}); err == nil {
			resp = &Resp{Kind: "unit"}
		}
	case "ModifyPush":
		var pc *pubsubpb.PushConfig
		if op.HasPush {
			pc = op.Push.toPB()
		}
		if _, err = e.Sub.ModifyPushConfig(ctx, &pubsubpb.ModifyPushConfigRequest{Subscription: op.Name, PushConfig: pc}); err == nil {
			resp = &Resp{Kind: "unit"}
		}
	case "CreateSnap":
		var r *pubsubpb.Snapshot
		if r, err = e.Sub.CreateSnapshot(ctx, &pubsubpb.CreateSnapshotRequest{Name: op.Name, Subscription: op.Name2, Labels: op.Labels}); err == nil {
			resp = &Resp{Kind: "snap", Snap: &SnapView{r.Name, r.Topic, e.ToVirtual(r.ExpireTime.AsTime()), sortedMap(r.Labels)}}
		}
	case "GetSnap":
		var r *pubsubpb.Snapshot
		if r, err = e.Sub.GetSnapshot(ctx, &pubsubpb.GetSnapshotRequest{Snapshot: op.Name}); err == nil {
			resp = &Resp{Kind: "snap", Snap: &SnapView{r.Name, r.Topic, e.ToVirtual(r.ExpireTime.AsTime()), sortedMap(r.Labels)}}
		}
	case "ListSnaps":
		var r *pubsubpb.ListSnapshotsResponse
		if r, err = e.Sub.ListSnapshots(ctx, &pubsubpb.ListSnapshotsRequest{Project: op.Project, PageSize: op.Size, PageToken: op.Tok}); err == nil {
			resp = &Resp{Kind: "snaps", Next: r.NextPageToken}
			for _, s := range r.Snapshots {
				resp.Snaps = append(resp.Snaps, SnapView{s.Name, s.Topic, e.ToVirtual(s.ExpireTime.AsTime()), sortedMap(s.Labels)})
			}
		}
	case "DeleteSnap":
		if _, err = e.Sub.DeleteSnapshot(ctx, &pubsubpb.DeleteSnapshotRequest{Snapshot: op.Name}); err == nil {
			resp = &Resp{Kind: "unit"}
		}
	case "StreamAckNack":
		// the stream reader's own settlement of one client message (MessageStreamer.doAcksNacks,
		// reached through the verif hook): acks and nacks in one transaction
		acks, _ := parseIDs(op.AckIDs)
		nacks, _ := parseIDs(op.Nacks)
		ms := &actions.MessageStreamer{Client: e.Client, Logger: logging.GetLogger("verif/stream-settle")}
		err = ms.VerifDoAcksNacks(ctx, acks, nacks)
		if err == nil {
			resp = &Resp{Kind: "unit"}
		}
	case "SetDelay":
		var res sqlResult
		res, err = e.SQL.ExecContext(ctx, "UPDATE subscriptions SET delivery_delay = ? WHERE name = ? AND deleted_at IS NULL",
			op.Delay.String(), op.Name)
		if err == nil {
			if n, _ := res.RowsAffected(); n == 0 {
				err = status.Error(codes.NotFound, "no such subscription")
			} else {
				resp = &Resp{Kind: "unit"}
			}
		}
	case "Job":
		var n int
		if n, err = e.runJob(ctx, op); err == nil {
			resp = &Resp{Kind: "count", Count: int64(n)}
		}
		if os.Getenv("VERIF_DEBUG") != "" {
			fmt.Fprintf(os.Stderr, "job %p %s age=%v max=%d n=%d err=%v\n", e, op.Job, op.MinAge, op.MaxN, n, err)
		}
	default:
		panic("unknown op kind " + op.Kind)
	}
	o.Hi = e.VNow()
	if err != nil {
		resp = errResp(err)
		if op.Kind == "Job" || op.Kind == "StreamAckNack" {
			resp.Code = codes.Unknown
		}
	}
	o.Resp = resp
	return o, nil
}

func fillOracles(op *Op, resp *Resp, pre, post *Dump, lo int64) {
	op.WNow = lo
	op.Fresh = uuid.New()
	ok := resp.Kind != "err"
	switch op.Kind {
	case "CreateTopic":
		for _, t := range post.Topics {
			if t.Name == op.Name && t.Deleted == nil {
				found := false
				for _, p := range pre.Topics {
					if p.ID == t.ID {
						found = true
					}
				}
				if !found {
					op.Fresh = t.ID
				}
			}
		}
	case "Publish":
		for i := range op.Msgs {
			op.Msgs[i].ID = uuid.New()
			op.Msgs[i].Now = lo
			if ok && i < len(resp.IDs) {
				op.Msgs[i].ID = resp.IDs[i]
				if m := post.msg(resp.IDs[i]); m != nil {
					op.Msgs[i].Now = m.Published
					op.Msgs[i].Size = m.Size
				}
			}
		}
		op.FreshDels = newDels(pre, post)
	case "CreateSub":
		if s := post.subByName(op.Sub.Name); s != nil && pre.sub(s.ID) == nil {
			op.Fresh = s.ID
			op.WNow = s.Expires - s.TTL
		}
	case "UpdateSub":
		if ok {
			for _, p := range op.Paths {
				if p == "expiration_policy" {
					if s := post.subByName(op.Sub.Name); s != nil {
						op.WNow = s.Expires - s.TTL
					}
				}
			}
		}
	case "DeleteTopic":
		for _, t := range post.Topics {
			if t.Name == op.Name && t.Deleted != nil {
				for _, p := range pre.Topics {
					if p.ID == t.ID && p.Deleted == nil {
						op.WNow = *t.Deleted
					}
				}
			}
		}
	case "DeleteSub":
		for _, s := range post.Subs {
			if p := pre.sub(s.ID); p != nil && p.Deleted == nil && s.Deleted != nil {
				op.WNow = *s.Deleted
			}
		}
	case "ModAck":
		for _, x := range post.Dels {
			if p := pre.del(x.ID); p != nil && p.AttemptAt != x.AttemptAt {
				op.WNow = x.AttemptAt - int64(op.Seconds)*1e9
			}
		}
	case "Ack":
		if ids, at := newlyCompleted(pre, post); len(ids) > 0 {
			op.WNow = at
		}
	case "Pull":
		if s := pre.subByName(op.Name); s != nil {
			if ps := post.sub(s.ID); ps != nil && ok {
				op.WNow = ps.Expires - ps.TTL
			}
			returned := map[uuid.UUID]bool{}
			for _, p := range resp.Pulled {
				op.Returned = append(op.Returned, p.Ack)
				returned[p.Ack] = true
				if x := post.del(p.Ack); x != nil {
					nom := exactNominal(s.MinB, s.MaxB, x.Attempts)
					op.Fuzz = append(op.Fuzz, FuzzV{p.Ack, x.AttemptAt - op.WNow - nom})
				}
			}
			ids, _ := newlyCompleted(pre, post)
			for _, id := range ids {
				if x := pre.del(id); x != nil && x.Sub == s.ID && !returned[id] {
					op.Others = append(op.Others, id)
				}
			}
			op.Others = orderByForwardLinks(op.Others, pre, post)
		}
		op.FreshDels = newDels(pre, post)
	case "SeekTime", "SeekSnap":
		for _, x := range post.Dels {
			p := pre.del(x.ID)
			if p == nil {
				continue
			}
			if p.Completed == nil && x.Completed != nil {
				op.WNow = *x.Completed
			} else if p.Completed != nil && x.Completed == nil {
				op.WNow = x.AttemptAt
			}
		}
	case "CreateSnap":
		for _, n := range post.Snaps {
			if n.Name == op.Name {
				isNew := true
				for _, p := range pre.Snaps {
					if p.ID == n.ID {
						isNew = false
					}
				}
				if isNew {
					op.Fresh = n.ID
					op.WNow = n.Expires - int64(7*24*time.Hour)
				}
			}
		}
	case "StreamAckNack":
		ids, at := newlyCompleted(pre, post)
		have := len(ids) > 0
		if have {
			op.WNow = at
		}
		type chg struct {
			x   DelRow
			nom int64
		}
		var chgs []chg
		for _, x := range post.Dels {
			p := pre.del(x.ID)
			if p != nil && x.Completed == nil && p.AttemptAt != x.AttemptAt {
				s := pre.sub(x.Sub)
				if s == nil {
					continue
				}
				nom := exactNominal(s.MinB, s.MaxB, x.Attempts)
				chgs = append(chgs, chg{x, nom})
				if !have {
					op.WNow = x.AttemptAt - nom - jitter(x.Sub, x.Attempts, nom)
					have = true
				}
			}
		}
		for _, c := range chgs {
			op.Fuzz = append(op.Fuzz, FuzzV{c.x.ID, c.x.AttemptAt - op.WNow - c.nom})
		}
		op.FreshDels = newDels(pre, post)
	case "Job":
		op.Failed = !ok
		switch op.Job {
		case "PruneCompletedDeliveries", "PruneExpiredDeliveries", "PruneDeletedSubDeliveries":
			for _, x := range pre.Dels {
				if post.del(x.ID) == nil {
					op.Chosen = append(op.Chosen, x.ID)
				}
			}
		case "PruneCompletedMessages":
			for _, x := range pre.Msgs {
				if post.msg(x.ID) == nil {
					op.Chosen = append(op.Chosen, x.ID)
				}
			}
		case "PruneDeletedSubs":
			for _, x := range pre.Subs {
				if post.sub(x.ID) == nil {
					op.Chosen = append(op.Chosen, x.ID)
				}
			}
		case "PruneDeletedTopics":
			for _, x := range pre.Topics {
				found := false
				for _, y := range post.Topics {
					if y.ID == x.ID {
						found = true
					}
				}
				if !found {
					op.Chosen = append(op.Chosen, x.ID)
				}
			}
		case "ExpireSubs":
			for _, s := range post.Subs {
				if p := pre.sub(s.ID); p != nil && p.Deleted == nil && s.Deleted != nil {
					op.Chosen = append(op.Chosen, s.ID)
					op.WNow = *s.Deleted
				}
			}
		case "DeadLetterSweep":
			ids, at := newlyCompleted(pre, post)
			if len(ids) > 0 {
				op.Chosen = orderByForwardLinks(ids, pre, post)
				op.WNow = at
			}
			op.FreshDels = newDels(pre, post)
		}
	}
	sort.Slice(op.FreshDels, func(i, j int) bool { return uuidLess(op.FreshDels[i].ID, op.FreshDels[j].ID) })
}
