package main

// C11: streaming pull flow control.
//   fetch-diff: the byte budget of one fetch (GetSubscriptionMessages with MaxMessages /
//     MaxBytes / MaxBytesStrict) against Streamer.fetch, on generated size mixes.
//   stream: the production MessageStreamer (as the gRPC handler configures it) on a real
//     database with a scripted StreamConnection: a monitor samples "sent and not yet
//     settled" at every Send (the bound), and after every action that frees capacity the
//     stream must send what the model's fetch would return within a wall-clock bound
//     (no stall). One family of runs goes through the real StreamingPull RPC.

import (
	"context"
	"flag"
	"fmt"
	"io"
	"math/rand"
	"os"
	"path/filepath"
	"sort"
	"strings"
	"sync"
	"time"

	"github.com/google/uuid"

	"go.6river.tech/mmmbbb/actions"
	"go.6river.tech/mmmbbb/grpc/pubsubpb"
)

// dumpR: Dump with retries. A streamer that cannot send re-runs its fetch in a tight loop
// (see the head-of-line probe) and can starve other connections of the SQLite lock.
func (e *Env) dumpR(ctx context.Context) (*Dump, error) {
	var d *Dump
	var err error
	for try := 0; try < 12; try++ {
		if d, err = e.Dump(ctx); err == nil {
			return d, nil
		}
		time.Sleep(40 * time.Millisecond)
	}
	return nil, err
}

func sizedPayload(n int) []byte {
	if n < 2 {
		n = 2
	}
	return []byte(`"` + strings.Repeat("x", n-2) + `"`)
}

// eligible deliveries of a subscription in attempt order, with payload sizes
func eligibleOf(d *Dump, sub uuid.UUID, now int64) []DelRow {
	var out []DelRow
	for _, x := range d.Dels {
		if x.Sub == sub && x.Completed == nil && x.AttemptAt <= now && x.Expires > now {
			out = append(out, x)
		}
	}
	sort.SliceStable(out, func(i, j int) bool { return out[i].AttemptAt < out[j].AttemptAt })
	return out
}

func coqPend(rows []DelRow, d *Dump, rank map[uuid.UUID]int) string {
	var parts []string
	for _, x := range rows {
		parts = append(parts, fmt.Sprintf("(%d%%N, %d)", rank[x.ID], d.msg(x.Msg).Size))
	}
	return "[" + strings.Join(parts, "; ") + "]"
}

// ---------------------------------------------------------------- fetch-diff

func cmdFetchDiff(args []string) error {
	fs := flag.NewFlagSet("fetch-diff", flag.ExitOnError)
	seed := fs.Int64("seed", 1, "")
	n := fs.Int("n", 30, "databases")
	out := fs.String("out", "", "")
	fs.Parse(args)
	if *out == "" {
		return fmt.Errorf("-out required")
	}
	os.MkdirAll(*out, 0o755)
	ctx := context.Background()
	var lines, samples, touched []string
	fetches, nonEmpty, skips, oversize := 0, 0, 0, 0
	var mu sync.Mutex
	var wg sync.WaitGroup
	sem := make(chan struct{}, 12)
	errs := make([]error, *n)
	for i := 0; i < *n; i++ {
		wg.Add(1)
		go func(i int) {
			defer wg.Done()
			sem <- struct{}{}
			defer func() { <-sem }()
			r := rand.New(rand.NewSource(*seed*6151 + int64(i)))
			e, err := NewEnv(true)
			if err != nil {
				errs[i] = err
				return
			}
			defer e.Close()
			topic, subName := "projects/p/topics/f", "projects/p/subscriptions/f"
			pre, _ := e.dumpR(ctx)
			e.Exec(ctx, &Op{Kind: "CreateTopic", Name: topic}, pre)
			e.Exec(ctx, &Op{Kind: "CreateSub", Sub: &SubReq{Name: subName, Topic: topic}}, pre)
			sizes := []int{2, 5, 10, 10, 30, 40, 60, 100, 150, 400}
			k := 3 + r.Intn(8)
			for j := 0; j < k; j++ {
				op := &Op{Kind: "Publish", Name: topic, Msgs: []PubMsg{{Data: sizedPayload(sizes[r.Intn(len(sizes))])}}}
				d, _ := e.dumpR(ctx)
				if o, err := e.Exec(ctx, op, d); err != nil || o.Resp.Kind != "ids" {
					errs[i] = fmt.Errorf("publish: %v", err)
					return
				}
			}
			for round := 0; round < 6; round++ {
				d, err := e.dumpR(ctx)
				if err != nil {
					errs[i] = err
					return
				}
				sub := d.subByName(subName)
				cands := eligibleOf(d, sub.ID, e.VNow())
				if len(cands) == 0 {
					break
				}
				rank := map[uuid.UUID]int{}
				for j, c := range cands {
					rank[c.ID] = j + 1
				}
				maxN := []int{1, 1, 2, 3, 5, 100, 150}[r.Intn(7)]
				maxB := []int{1, 9, 10, 11, 40, 41, 70, 100, 160, 1000}[r.Intn(10)]
				strict := r.Intn(2) == 0
				g := actions.NewGetSubscriptionMessages(actions.GetSubscriptionMessagesParams{ID: &sub.ID, Name: subName,
					MaxMessages: maxN, MaxBytes: maxB, MaxBytesStrict: strict, MaxWait: 50 * time.Millisecond})
				if err := g.ExecuteClient(ctx, e.Client); err != nil {
					errs[i] = err
					return
				}
				res, _ := g.Results()
				var got []string
				handed := map[uuid.UUID]bool{}
				for _, dl := range res.Deliveries {
					got = append(got, fmt.Sprintf("%d%%N", rank[dl.ID]))
					handed[dl.ID] = true
				}
				// what was fetched but not handed out (skipped for the byte budget, or beyond the
				// limit) is not an attempt: its row is exactly as before
				if post, err := e.dumpR(ctx); err == nil {
					for _, c := range cands {
						x := post.del(c.ID)
						if handed[c.ID] || x == nil {
							continue
						}
						lastEq := (x.Last == nil) == (c.Last == nil) && (x.Last == nil || *x.Last == *c.Last)
						if x.Attempts != c.Attempts || x.AttemptAt != c.AttemptAt || !lastEq || (x.Completed == nil) != (c.Completed == nil) {
							mu.Lock()
							touched = append(touched, fmt.Sprintf("fetch with MaxMessages %d, MaxBytes %d, strict %v over %d due deliveries handed out %d; delivery %s (%d bytes) was NOT handed out, yet its row changed: attempts %d -> %d, next attempt %+d ms, completed %v",
								maxN, maxB, strict, len(cands), len(res.Deliveries), c.ID, d.msg(c.Msg).Size, c.Attempts, x.Attempts, (x.AttemptAt-c.AttemptAt)/1e6, x.Completed != nil))
							mu.Unlock()
						}
					}
				}
				line := fmt.Sprintf("(%s, %d, %d, %s, [%s])", coqPend(cands, d, rank), maxN, maxB, coqBool(strict), strings.Join(got, "; "))
				mu.Lock()
				lines = append(lines, line)
				fetches++
				if len(got) > 0 {
					nonEmpty++
				}
				if len(got) < len(cands) && len(got) < maxN {
					skips++
				}
				if len(got) == 1 && int(d.msg(cands[0].Msg).Size) > maxB {
					oversize++
				}
				if len(samples) < 3 {
					samples = append(samples, line)
				}
				mu.Unlock()
			}
		}(i)
	}
	wg.Wait()
	for i, err := range errs {
		if err != nil {
			return fmt.Errorf("database %d: %w", i, err)
		}
	}
	body := "From MB Require Import Base Streamer.\nOpen Scope list_scope.\nOpen Scope Z_scope.\n" +
		"(* (eligible deliveries in attempt order with payload sizes, MaxMessages, MaxBytes, strict, ids the action returned) *)\n" +
		"Definition fchk (c : pend * Z * Z * bool * list N) : bool :=\n  let '(cands, n, b, strict, got) := c in list_eqb N.eqb (ids (fetch cands n b strict)) got.\n" +
		"Definition cases : list (pend * Z * Z * bool * list N) := [\n  " + strings.Join(lines, ";\n  ") +
		"\n].\nDefinition bad := Eval vm_compute in map fst (filter (fun c => negb (fchk (snd c))) (combine (seq 0 (length cases)) cases)).\nPrint bad.\n"
	if err := os.WriteFile(filepath.Join(*out, "fetch_diff.v"), []byte(body), 0o644); err != nil {
		return err
	}
	return writeJSON(filepath.Join(*out, "fetch_diff.json"), map[string]interface{}{"fetches": fetches, "non_empty": nonEmpty,
		"with_skipped_candidates": skips, "oversize_alone": oversize, "cases": lines, "samples": samples, "touched": touched})
}

// ---------------------------------------------------------------- stream scenarios

type sendRec struct {
	ID    uuid.UUID
	Msg   uuid.UUID
	Bytes int
	At    time.Time
}

type streamClient struct {
	mu     sync.Mutex
	out    map[uuid.UUID]int // ack id -> payload bytes: sent and not yet settled by this client
	sends  []sendRec
	maxM   int
	maxB   int
	events []string
	viol   []string
}

func (c *streamClient) note(f string, a ...interface{}) {
	c.events = append(c.events, fmt.Sprintf(f, a...))
}

func (c *streamClient) onSend(id, msg uuid.UUID, bytes int) {
	c.mu.Lock()
	defer c.mu.Unlock()
	c.out[id] = bytes
	c.sends = append(c.sends, sendRec{id, msg, bytes, time.Now()})
	n, total := len(c.out), 0
	for _, b := range c.out {
		total += b
	}
	c.note("send %s (%d bytes): outstanding %d messages / %d bytes", id.String()[:8], bytes, n, total)
	if n > c.maxM {
		c.viol = append(c.viol, fmt.Sprintf("bound-messages: %d messages sent and not settled, the client's max outstanding messages is %d", n, c.maxM))
	}
	if total > c.maxB && n > 1 {
		c.viol = append(c.viol, fmt.Sprintf("bound-bytes: %d bytes in %d messages sent and not settled, the client's max outstanding bytes is %d", total, n, c.maxB))
	}
}

func (c *streamClient) settle(ids []uuid.UUID) {
	c.mu.Lock()
	for _, id := range ids {
		delete(c.out, id)
	}
	c.mu.Unlock()
}

func (c *streamClient) outstanding() (ids []uuid.UUID, bytes int) {
	c.mu.Lock()
	defer c.mu.Unlock()
	for id, b := range c.out {
		ids = append(ids, id)
		bytes += b
	}
	sort.Slice(ids, func(i, j int) bool { return uuidLess(ids[i], ids[j]) })
	return
}

func (c *streamClient) nsends() int {
	c.mu.Lock()
	defer c.mu.Unlock()
	return len(c.sends)
}

// the two ways a client talks to the stream
type streamLink interface {
	flow(maxM, maxB int) error
	ack(ids []uuid.UUID) error
	nack(ids []uuid.UUID, asDelayZero bool) error
	close()
}

// direct: a scripted actions.StreamConnection
type scriptConn struct {
	in     chan *actions.MessageStreamRequest
	closed chan struct{}
	once   sync.Once
	cl     *streamClient
}

func (s *scriptConn) Close() error { s.once.Do(func() { close(s.closed) }); return nil }
func (s *scriptConn) Receive(ctx context.Context) (*actions.MessageStreamRequest, error) {
	select {
	case m := <-s.in:
		return m, nil
	case <-ctx.Done():
		return nil, ctx.Err()
	case <-s.closed:
		return nil, io.EOF
	}
}
func (s *scriptConn) Send(ctx context.Context, d *actions.SubscriptionMessageDelivery) error {
	s.cl.onSend(d.ID, d.MessageID, len(d.Payload))
	return nil
}

type directLink struct {
	conn   *scriptConn
	cancel context.CancelFunc
	done   chan error
}

func (l *directLink) push(m *actions.MessageStreamRequest) error {
	select {
	case l.conn.in <- m:
		return nil
	case err := <-l.done:
		return fmt.Errorf("streamer ended: %v", err)
	case <-time.After(5 * time.Second):
		return fmt.Errorf("streamer does not receive")
	}
}
func (l *directLink) flow(m, b int) error {
	return l.push(&actions.MessageStreamRequest{FlowControl: &actions.FlowControl{MaxMessages: m, MaxBytes: b}})
}
func (l *directLink) ack(ids []uuid.UUID) error {
	return l.push(&actions.MessageStreamRequest{Ack: ids})
}
func (l *directLink) nack(ids []uuid.UUID, asDelayZero bool) error {
	if asDelayZero {
		return l.push(&actions.MessageStreamRequest{Delay: ids, DelaySeconds: 0})
	}
	return l.push(&actions.MessageStreamRequest{Nack: ids})
}
func (l *directLink) close() { l.cancel() }

// grpc: the real StreamingPull RPC
type grpcLink struct {
	st     pubsubpb.Subscriber_StreamingPullClient
	cancel context.CancelFunc
}

func (l *grpcLink) flow(m, b int) error { return nil } // fixed at stream open
func (l *grpcLink) ack(ids []uuid.UUID) error {
	req := &pubsubpb.StreamingPullRequest{}
	for _, id := range ids {
		req.AckIds = append(req.AckIds, id.String())
	}
	return l.st.Send(req)
}
func (l *grpcLink) nack(ids []uuid.UUID, _ bool) error {
	req := &pubsubpb.StreamingPullRequest{}
	for _, id := range ids {
		req.ModifyDeadlineAckIds = append(req.ModifyDeadlineAckIds, id.String())
		req.ModifyDeadlineSeconds = append(req.ModifyDeadlineSeconds, 0)
	}
	return l.st.Send(req)
}
func (l *grpcLink) close() { l.cancel() }

type streamResult struct {
	Scenario   string   `json:"scenario"`
	Seed       int64    `json:"seed"`
	MaxM       int      `json:"max_messages"`
	MaxB       int      `json:"max_bytes"`
	Sends      int      `json:"sends"`
	Frees      int      `json:"capacity_freeing_actions"`
	Expected   int      `json:"sends_expected_after_freeing"`
	Checks     int      `json:"flow_checks"`
	SentAfter  int      `json:"flow_checks_with_new_sends"`
	HOL        int      `json:"head_of_line_situations"`
	Violations []string `json:"violations"`
	Events     []string `json:"events"`
	WallMS     int64    `json:"wall_ms"`
}

const stallBound = 3 * time.Second

func runStreamScenario(seed int64, viaGrpc bool) (*streamResult, error) {
	r := rand.New(rand.NewSource(seed))
	ctx := context.Background()
	start := time.Now()
	e, err := NewEnv(true)
	if err != nil {
		return nil, err
	}
	defer e.Close()
	topic, subName := "projects/p/topics/s", "projects/p/subscriptions/s"
	pre, _ := e.dumpR(ctx)
	e.Exec(ctx, &Op{Kind: "CreateTopic", Name: topic}, pre)
	q := &SubReq{Name: subName, Topic: topic, Ordered: r.Intn(4) == 0}
	// leases must not lapse within a scenario: a lapsed lease re-sends a message the client
	// still holds, and a client ack / nack racing with that re-send makes "what the client
	// holds" ambiguous (the re-sent copy is already settled on the server)
	mn, mx := 60*time.Second, 120*time.Second
	q.Retry = &[2]*time.Duration{&mn, &mx}
	if o, err := e.Exec(ctx, &Op{Kind: "CreateSub", Sub: q}, pre); err != nil || o.Resp.Kind == "err" {
		return nil, fmt.Errorf("create subscription: %v", err)
	}
	sizes := [][]int{{10, 10, 10, 10}, {10, 60, 10, 30}, {40, 40, 40}, {5, 100, 5, 150, 20}, {60, 60, 10}}[r.Intn(5)]
	maxM := []int{1, 1, 2, 3, 5}[r.Intn(5)]
	maxB := []int{20, 40, 41, 70, 100, 100000}[r.Intn(6)]
	res := &streamResult{Seed: seed, MaxM: maxM, MaxB: maxB, Scenario: "direct"}
	if viaGrpc {
		res.Scenario = "grpc"
	}
	cl := &streamClient{out: map[uuid.UUID]int{}, maxM: maxM, maxB: maxB}
	publish := func(n int) error {
		for i := 0; i < n; i++ {
			op := &Op{Kind: "Publish", Name: topic, Msgs: []PubMsg{{Data: sizedPayload(sizes[r.Intn(len(sizes))])}}}
			if q.Ordered {
				op.Msgs[0].Key = []string{"k1", "k2"}[r.Intn(2)]
			}
			d, _ := e.dumpR(ctx)
			var o *Obs
			var err error
			for try := 0; try < 8; try++ {
				// a streamer that cannot send (nothing fits its byte budget) re-runs its fetch
				// in a tight loop and can starve other writers of the SQLite lock: retry
				if o, err = e.Exec(ctx, op, d); err == nil && o.Resp.Kind == "ids" {
					break
				}
				time.Sleep(50 * time.Millisecond)
			}
			if err != nil || o.Resp.Kind != "ids" {
				return fmt.Errorf("publish: %v %+v", err, o.Resp)
			}
		}
		return nil
	}
	if err := publish(3 + r.Intn(4)); err != nil {
		return nil, err
	}
	d0, _ := e.dumpR(ctx)
	sub := d0.subByName(subName)
	var link streamLink
	if viaGrpc {
		sctx, cancel := context.WithCancel(ctx)
		st, err := e.Sub.StreamingPull(sctx)
		if err != nil {
			cancel()
			return nil, err
		}
		// a client may set only one of the two limits; the other then takes the server's
		// default (Streamer.effective_fc: 1000 messages / 10 MiB)
		reqM, reqB := int64(maxM), int64(maxB)
		switch r.Intn(3) {
		case 1:
			reqB = 0
			maxB = 10 * 1024 * 1024
		case 2:
			reqM = 0
			maxM = 1000
		}
		cl.maxM, cl.maxB = maxM, maxB
		res.MaxM, res.MaxB = maxM, maxB
		if err := st.Send(&pubsubpb.StreamingPullRequest{Subscription: subName, StreamAckDeadlineSeconds: 10,
			MaxOutstandingMessages: reqM, MaxOutstandingBytes: reqB}); err != nil {
			cancel()
			return nil, err
		}
		go func() {
			for {
				resp, err := st.Recv()
				if err != nil {
					return
				}
				for _, m := range resp.ReceivedMessages {
					id, _ := uuid.Parse(m.AckId)
					mi, _ := uuid.Parse(m.Message.MessageId)
					cl.onSend(id, mi, len(m.Message.Data))
				}
			}
		}()
		link = &grpcLink{st, cancel}
	} else {
		conn := &scriptConn{in: make(chan *actions.MessageStreamRequest), closed: make(chan struct{}), cl: cl}
		sctx, cancel := context.WithCancel(ctx)
		ms := &actions.MessageStreamer{Client: e.Client, SubscriptionID: &sub.ID, SubscriptionName: subName, AutomaticNack: true}
		done := make(chan error, 1)
		go func() { done <- ms.Go(sctx, conn) }()
		dl := &directLink{conn, cancel, done}
		link = dl
		if err := dl.flow(maxM, maxB); err != nil {
			return nil, err
		}
	}
	defer link.close()

	// what the model's fetch would hand out now, given what the client still holds
	var lastCands string
	expect := func() (want int, anyFits bool, err error) {
		d, err := e.dumpR(ctx)
		if err != nil {
			return 0, false, err
		}
		held, heldBytes := cl.outstanding()
		heldSet := map[uuid.UUID]bool{}
		for _, id := range held {
			heldSet[id] = true
		}
		var cands []DelRow
		for _, x := range eligibleOf(d, sub.ID, e.VNow()) {
			if heldSet[x.ID] {
				continue
			}
			if q.Ordered && x.NotBefore != nil {
				if p := d.del(*x.NotBefore); p != nil && p.Completed == nil && p.Expires > e.VNow() {
					continue // held back by ordering
				}
			}
			cands = append(cands, x)
		}
		m, b := maxM-len(held), maxB-heldBytes
		// ORDER BY attempt_at LIMIT n leaves ties to the database (two deliveries nacked in one
		// transaction share their attempt_at): order ties pessimistically, largest first, so
		// that a send is only expected when every tie-break would produce one
		sort.SliceStable(cands, func(i, j int) bool {
			if cands[i].AttemptAt != cands[j].AttemptAt {
				return cands[i].AttemptAt < cands[j].AttemptAt
			}
			return d.msg(cands[i].Msg).Size > d.msg(cands[j].Msg).Size
		})
		lastCands = ""
		for _, x := range cands {
			lastCands += fmt.Sprintf(" %s:%dB@%+dms(att %d)", x.ID.String()[:6], d.msg(x.Msg).Size, (x.AttemptAt-e.VNow())/1e6, x.Attempts)
		}
		if m <= 0 || b <= 0 {
			return 0, false, nil
		}
		for _, x := range cands {
			if int(d.msg(x.Msg).Size) <= b || len(held) == 0 {
				anyFits = true
			}
		}
		// Streamer.fetch: LIMIT min(m, 100), then the byte rule
		lim := m
		if lim > 100 {
			lim = 100
		}
		if len(cands) > lim {
			cands = cands[:lim]
		}
		bytes, first := 0, true
		strict := len(held) > 0
		for _, x := range cands {
			sz := int(d.msg(x.Msg).Size)
			if (strict || !first) && bytes+sz > b {
				first = false
				continue
			}
			first = false
			bytes += sz
			want++
		}
		return want, anyFits, nil
	}
	// wait until the stream is quiet: no new send for 200 ms (at most 2 s)
	quiesce := func() {
		last, lastChange := cl.nsends(), time.Now()
		deadline := time.Now().Add(2 * time.Second)
		for time.Now().Before(deadline) {
			time.Sleep(20 * time.Millisecond)
			if n := cl.nsends(); n != last {
				last, lastChange = n, time.Now()
			} else if time.Since(lastChange) > 200*time.Millisecond {
				return
			}
		}
	}
	// after capacity was freed (or messages arrived): the stream must send at least one of
	// what the model's fetch would return
	lastSends := 0
	checkFlow := func(what string) error {
		time.Sleep(60 * time.Millisecond) // let the server process the client's message
		res.Checks++
		if n := cl.nsends(); n > lastSends {
			res.SentAfter++
			lastSends = n
		}
		want, anyFits, err := expect()
		if err != nil {
			return err
		}
		if want == 0 {
			if anyFits {
				res.HOL++
				cl.note("head-of-line after %s: capacity and a fitting deliverable message exist, the model's fetch returns nothing", what)
			}
			return nil
		}
		res.Expected++
		before := cl.nsends()
		deadline := time.Now().Add(stallBound)
		for time.Now().Before(deadline) {
			if cl.nsends() > before {
				return nil
			}
			// re-evaluate: something else may have consumed the capacity meanwhile
			time.Sleep(25 * time.Millisecond)
		}
		if w2, _, _ := expect(); w2 > 0 && cl.nsends() == before {
			held, hb := cl.outstanding()
			cl.viol = append(cl.viol, fmt.Sprintf("stall: after %s the client holds %d messages / %d bytes of %d / %d, the fetch of the model would hand out %d deliverable messages, nothing was sent for %v (eligible, in attempt order:%s)",
				what, len(held), hb, maxM, maxB, w2, stallBound, lastCands))
		}
		return nil
	}
	// what became of the ids the client settled on the stream / outside it
	var ackedIDs, nackedIDs []uuid.UUID
	zeroNacked := map[uuid.UUID]int64{} // ack id -> attempts when it was nacked with a zero deadline
	// a nacked message that is sent again and then acked is legitimately completed
	forgetNacks := func(ids []uuid.UUID) {
		drop := map[uuid.UUID]bool{}
		for _, id := range ids {
			drop[id] = true
			delete(zeroNacked, id)
		}
		var keep []uuid.UUID
		for _, id := range nackedIDs {
			if !drop[id] {
				keep = append(keep, id)
			}
		}
		nackedIDs = keep
	}
	checkSettled := func() error {
		d, err := e.dumpR(ctx)
		if err != nil {
			return err
		}
		for _, id := range ackedIDs {
			if x := d.del(id); x != nil && x.Completed == nil {
				cl.viol = append(cl.viol, fmt.Sprintf("ack-not-completed: ack id %s was acknowledged by the client and its delivery is still unacknowledged in the database", id))
				break
			}
		}
		for id, att := range zeroNacked {
			// a zero deadline makes the message immediately redeliverable: it has been sent again
			// by now, or is due now
			if x := d.del(id); x != nil && x.Completed == nil && x.Attempts <= att && x.AttemptAt > e.VNow()+int64(200*time.Millisecond) {
				cl.viol = append(cl.viol, fmt.Sprintf("zero-deadline-not-immediate: ack id %s was nacked with a zero deadline on the stream; it was not sent again and its next attempt is %v away",
					id, time.Duration(x.AttemptAt-e.VNow()).Round(time.Millisecond)))
				break
			}
			delete(zeroNacked, id)
		}
		for _, id := range nackedIDs {
			if x := d.del(id); x != nil && x.Completed != nil {
				cl.viol = append(cl.viol, fmt.Sprintf("nack-completed: ack id %s was nacked on the stream and its delivery is now marked acknowledged (it will never be offered again)", id))
				break
			}
		}
		return nil
	}
	quiesce()
	if err := checkFlow("stream start"); err != nil {
		return nil, err
	}
	steps := 8 + r.Intn(6)
	for i := 0; i < steps; i++ {
		quiesce()
		if err := checkSettled(); err != nil {
			return nil, err
		}
		held, _ := cl.outstanding()
		pick := func() []uuid.UUID {
			if len(held) == 0 {
				return nil
			}
			k := 1 + r.Intn(len(held))
			r.Shuffle(len(held), func(a, b int) { held[a], held[b] = held[b], held[a] })
			return append([]uuid.UUID(nil), held[:k]...)
		}
		switch x := r.Intn(10); {
		case x < 3 && len(held) > 0: // ack on the stream
			ids := pick()
			cl.note("stream ack %d", len(ids))
			ackedIDs = append(ackedIDs, ids...)
			forgetNacks(ids)
			cl.settle(ids)
			if err := link.ack(ids); err != nil {
				return nil, err
			}
			res.Frees++
			if err := checkFlow("a stream ack"); err != nil {
				return nil, err
			}
		case x < 5 && len(held) > 0: // nack on the stream
			ids := pick()
			asDelay := r.Intn(2) == 0
			cl.note("stream nack %d (as zero deadline: %v)", len(ids), asDelay || viaGrpc)
			nackedIDs = append(nackedIDs, ids...)
			if asDelay || viaGrpc {
				if d, err := e.dumpR(ctx); err == nil {
					for _, id := range ids {
						if x := d.del(id); x != nil {
							zeroNacked[id] = x.Attempts
						}
					}
				}
			}
			cl.settle(ids)
			if err := link.nack(ids, asDelay); err != nil {
				return nil, err
			}
			res.Frees++
			if err := checkFlow("a stream nack"); err != nil {
				return nil, err
			}
		case x < 7 && len(held) > 0: // Acknowledge outside the stream
			ids := pick()
			cl.note("external ack %d", len(ids))
			ackedIDs = append(ackedIDs, ids...)
			forgetNacks(ids)
			var ss []string
			for _, id := range ids {
				ss = append(ss, id.String())
			}
			cl.settle(ids)
			d, _ := e.dumpR(ctx)
			var ao *Obs
			var aerr error
			for try := 0; try < 8; try++ {
				if ao, aerr = e.Exec(ctx, &Op{Kind: "Ack", Name: subName, AckIDs: ss}, d); aerr == nil && ao.Resp.Kind != "err" {
					break
				}
				time.Sleep(50 * time.Millisecond)
			}
			if aerr != nil || ao.Resp.Kind == "err" {
				return nil, fmt.Errorf("external ack: %v %+v", aerr, ao.Resp)
			}
			res.Frees++
			if err := checkFlow("an external Acknowledge"); err != nil {
				return nil, err
			}
		case x < 9:
			n := 1 + r.Intn(3)
			cl.note("publish %d", n)
			if err := publish(n); err != nil {
				return nil, err
			}
			if err := checkFlow("a publish"); err != nil {
				return nil, err
			}
		default:
			cl.note("wait")
			time.Sleep(time.Duration(100+r.Intn(400)) * time.Millisecond)
		}
	}
	quiesce()
	// a nacked message that was sent again and then acked is legitimately completed: only ids
	// never acked afterwards count
	acked := map[uuid.UUID]bool{}
	for _, id := range ackedIDs {
		acked[id] = true
	}
	var onlyNacked []uuid.UUID
	for _, id := range nackedIDs {
		if !acked[id] {
			onlyNacked = append(onlyNacked, id)
		}
	}
	nackedIDs = onlyNacked
	if err := checkSettled(); err != nil {
		return nil, err
	}
	cl.mu.Lock()
	res.Sends = len(cl.sends)
	res.Violations = append(res.Violations, cl.viol...)
	res.Events = cl.events
	cl.mu.Unlock()
	res.WallMS = time.Since(start).Milliseconds()
	return res, nil
}

// holdConn: a StreamConnection whose Send hands the message to the client at once but returns
// only when released (a client can acknowledge a message before the server's send call for
// it has returned)
type holdConn struct {
	scriptConn
	gate chan struct{}
	sent chan uuid.UUID
}

func (h *holdConn) Send(ctx context.Context, d *actions.SubscriptionMessageDelivery) error {
	h.cl.onSend(d.ID, d.MessageID, len(d.Payload))
	select {
	case h.sent <- d.ID:
	default:
	}
	select {
	case <-h.gate:
	case <-ctx.Done():
	}
	return nil
}

// runAckDuringSend: limit 1 message; the client acknowledges each message while the server's
// Send for it has not yet returned; the next message must follow
func runAckDuringSend() (*streamResult, error) {
	ctx := context.Background()
	e, err := NewEnv(true)
	if err != nil {
		return nil, err
	}
	defer e.Close()
	res := &streamResult{Scenario: "forced:ack-during-send", MaxM: 1, MaxB: 100000}
	topic, subName := "projects/p/topics/g", "projects/p/subscriptions/g"
	pre, _ := e.dumpR(ctx)
	e.Exec(ctx, &Op{Kind: "CreateTopic", Name: topic}, pre)
	mn, mx := 60*time.Second, 120*time.Second
	e.Exec(ctx, &Op{Kind: "CreateSub", Sub: &SubReq{Name: subName, Topic: topic, Retry: &[2]*time.Duration{&mn, &mx}}}, pre)
	for i := 0; i < 3; i++ {
		d, _ := e.dumpR(ctx)
		if o, err := e.Exec(ctx, &Op{Kind: "Publish", Name: topic, Msgs: []PubMsg{{Data: sizedPayload(10)}}}, d); err != nil || o.Resp.Kind != "ids" {
			return nil, fmt.Errorf("publish: %v", err)
		}
	}
	d0, _ := e.dumpR(ctx)
	sub := d0.subByName(subName)
	cl := &streamClient{out: map[uuid.UUID]int{}, maxM: 1, maxB: 100000}
	conn := &holdConn{scriptConn: scriptConn{in: make(chan *actions.MessageStreamRequest), closed: make(chan struct{}), cl: cl},
		gate: make(chan struct{}), sent: make(chan uuid.UUID, 8)}
	sctx, cancel := context.WithCancel(ctx)
	defer cancel()
	ms := &actions.MessageStreamer{Client: e.Client, SubscriptionID: &sub.ID, SubscriptionName: subName, AutomaticNack: true}
	done := make(chan error, 1)
	go func() { done <- ms.Go(sctx, conn) }()
	push := func(m *actions.MessageStreamRequest) error {
		select {
		case conn.in <- m:
			return nil
		case <-time.After(5 * time.Second):
			return fmt.Errorf("streamer does not receive")
		}
	}
	if err := push(&actions.MessageStreamRequest{FlowControl: &actions.FlowControl{MaxMessages: 1, MaxBytes: 100000}}); err != nil {
		return nil, err
	}
	for i := 0; i < 3; i++ {
		select {
		case id := <-conn.sent:
			cl.note("message %s handed over; the client acknowledges it before Send returns", id.String()[:8])
			cl.settle([]uuid.UUID{id})
			if err := push(&actions.MessageStreamRequest{Ack: []uuid.UUID{id}}); err != nil {
				return nil, err
			}
			time.Sleep(80 * time.Millisecond) // the reader settles the ack
			conn.gate <- struct{}{}           // now Send returns
		case <-time.After(stallBound):
			cl.viol = append(cl.viol, fmt.Sprintf("stall: limit 1 message, %d messages acknowledged (each before the server's Send call for it had returned), %d deliverable messages remain, nothing was sent for %v", i, 3-i, stallBound))
			i = 3
		}
	}
	cl.mu.Lock()
	res.Sends = len(cl.sends)
	res.Violations = append(res.Violations, cl.viol...)
	res.Events = cl.events
	cl.mu.Unlock()
	return res, nil
}

// runCrossStreamAck: a message delivered on one stream, that stream torn down, and the ack
// sent on a second stream of the same subscription (a reconnecting client): the ack must
// take effect like any other
func runCrossStreamAck() (*streamResult, error) {
	ctx := context.Background()
	e, err := NewEnv(true)
	if err != nil {
		return nil, err
	}
	defer e.Close()
	res := &streamResult{Scenario: "cross-stream-ack", MaxM: 10, MaxB: 100000}
	topic, subName := "projects/p/topics/x", "projects/p/subscriptions/x"
	pre, _ := e.dumpR(ctx)
	e.Exec(ctx, &Op{Kind: "CreateTopic", Name: topic}, pre)
	mn, mx := 60*time.Second, 120*time.Second
	e.Exec(ctx, &Op{Kind: "CreateSub", Sub: &SubReq{Name: subName, Topic: topic, Retry: &[2]*time.Duration{&mn, &mx}}}, pre)
	for i := 0; i < 3; i++ {
		d, _ := e.dumpR(ctx)
		if o, err := e.Exec(ctx, &Op{Kind: "Publish", Name: topic, Msgs: []PubMsg{{Data: sizedPayload(10)}}}, d); err != nil || o.Resp.Kind != "ids" {
			return nil, fmt.Errorf("publish: %v", err)
		}
	}
	d0, _ := e.dumpR(ctx)
	sub := d0.subByName(subName)
	open := func(cl *streamClient) (*directLink, error) {
		conn := &scriptConn{in: make(chan *actions.MessageStreamRequest), closed: make(chan struct{}), cl: cl}
		sctx, cancel := context.WithCancel(ctx)
		ms := &actions.MessageStreamer{Client: e.Client, SubscriptionID: &sub.ID, SubscriptionName: subName, AutomaticNack: true}
		done := make(chan error, 1)
		go func() { done <- ms.Go(sctx, conn) }()
		dl := &directLink{conn, cancel, done}
		return dl, dl.flow(10, 100000)
	}
	clA := &streamClient{out: map[uuid.UUID]int{}, maxM: 10, maxB: 100000}
	a, err := open(clA)
	if err != nil {
		return nil, err
	}
	deadline := time.Now().Add(3 * time.Second)
	for clA.nsends() < 3 && time.Now().Before(deadline) {
		time.Sleep(10 * time.Millisecond)
	}
	held, _ := clA.outstanding()
	a.close()
	time.Sleep(100 * time.Millisecond)
	if len(held) == 0 {
		return nil, fmt.Errorf("cross-stream-ack: nothing was delivered on the first stream")
	}
	clB := &streamClient{out: map[uuid.UUID]int{}, maxM: 10, maxB: 100000}
	b, err := open(clB)
	if err != nil {
		return nil, err
	}
	defer b.close()
	clB.note("ack on the second stream %d ids delivered on the first", len(held))
	if err := b.ack(held[:len(held)-1]); err != nil {
		return nil, err
	}
	if err := b.nack(held[len(held)-1:], true); err != nil {
		return nil, err
	}
	time.Sleep(300 * time.Millisecond)
	d, _ := e.dumpR(ctx)
	for _, id := range held[:len(held)-1] {
		if x := d.del(id); x == nil || x.Completed == nil {
			res.Violations = append(res.Violations, fmt.Sprintf("ack-not-completed: ack id %s, delivered on one stream and acknowledged on another stream of the same subscription, is still unacknowledged", id))
			break
		}
	}
	if x := d.del(held[len(held)-1]); x != nil && x.Completed != nil {
		res.Violations = append(res.Violations, fmt.Sprintf("nack-completed: ack id %s, nacked on a second stream, is marked acknowledged", held[len(held)-1]))
	}
	res.Events = append(clA.events, clB.events...)
	res.Sends = clA.nsends() + clB.nsends()
	return res, nil
}

// runStreamEndAfterExtension: a stream holds a message whose lease the client then extends
// OUTSIDE the stream (unary ModifyAckDeadline, as the NodeJS client does); the original
// deadline passes; the stream ends. Ending a stream settles nothing: the message must stay
// leased until the extended deadline (C04) -- the stream's own, stale view of the lease is
// not a reason to hand it out again.
func runStreamEndAfterExtension() (*streamResult, error) {
	ctx := context.Background()
	e, err := NewEnv(true)
	if err != nil {
		return nil, err
	}
	defer e.Close()
	res := &streamResult{Scenario: "stream-end-after-extension", MaxM: 10, MaxB: 100000}
	topic, subName := "projects/p/topics/y", "projects/p/subscriptions/y"
	pre, _ := e.dumpR(ctx)
	e.Exec(ctx, &Op{Kind: "CreateTopic", Name: topic}, pre)
	mn := 400 * time.Millisecond
	e.Exec(ctx, &Op{Kind: "CreateSub", Sub: &SubReq{Name: subName, Topic: topic, Retry: &[2]*time.Duration{&mn, nil}}}, pre)
	d, _ := e.dumpR(ctx)
	if o, err := e.Exec(ctx, &Op{Kind: "Publish", Name: topic, Msgs: []PubMsg{{Data: sizedPayload(10)}}}, d); err != nil || o.Resp.Kind != "ids" {
		return nil, fmt.Errorf("publish: %v", err)
	}
	d0, _ := e.dumpR(ctx)
	sub := d0.subByName(subName)
	cl := &streamClient{out: map[uuid.UUID]int{}, maxM: 10, maxB: 100000}
	conn := &scriptConn{in: make(chan *actions.MessageStreamRequest), closed: make(chan struct{}), cl: cl}
	sctx, cancel := context.WithCancel(ctx)
	ms := &actions.MessageStreamer{Client: e.Client, SubscriptionID: &sub.ID, SubscriptionName: subName, AutomaticNack: true}
	done := make(chan error, 1)
	go func() { done <- ms.Go(sctx, conn) }()
	link := &directLink{conn, cancel, done}
	if err := link.flow(10, 100000); err != nil {
		return nil, err
	}
	deadline := time.Now().Add(3 * time.Second)
	for cl.nsends() < 1 && time.Now().Before(deadline) {
		time.Sleep(5 * time.Millisecond)
	}
	held, _ := cl.outstanding()
	if len(held) != 1 {
		link.close()
		return nil, fmt.Errorf("stream-end-after-extension: nothing was delivered on the stream")
	}
	// extend the lease to 60 s outside the stream, then let the original deadline (440 ms) pass
	dd, _ := e.dumpR(ctx)
	if o, err := e.Exec(ctx, &Op{Kind: "ModAck", Name: subName, AckIDs: []string{held[0].String()}, Seconds: 60}, dd); err != nil || o.Resp.Kind == "err" {
		link.close()
		return nil, fmt.Errorf("ModifyAckDeadline outside the stream: %v %v", err, o)
	}
	cl.note("deadline of %s extended to 60 s by a unary ModifyAckDeadline", held[0])
	time.Sleep(700 * time.Millisecond)
	before, _ := e.dumpR(ctx)
	link.close()
	select {
	case <-done:
	case <-time.After(3 * time.Second):
	}
	time.Sleep(150 * time.Millisecond)
	after, _ := e.dumpR(ctx)
	xb, xa := before.del(held[0]), after.del(held[0])
	switch {
	case xb == nil || xa == nil:
		res.Violations = append(res.Violations, fmt.Sprintf("lease-lost-at-stream-end: the delivery %s disappeared", held[0]))
	case xb.AttemptAt < e.VNow()+int64(30*time.Second):
		// (the extension itself did not take: not what this scenario is about)
		cl.note("extension not in effect before the stream ended (attempt_at %v from now): scenario void", time.Duration(xb.AttemptAt-e.VNow()))
	case xa.AttemptAt != xb.AttemptAt || xa.Attempts != xb.Attempts || (xa.Completed == nil) != (xb.Completed == nil):
		res.Violations = append(res.Violations, fmt.Sprintf("lease-lost-at-stream-end: the client extended the deadline of %s to 60 s outside the stream; when the stream ended the delivery's next attempt moved from %v to %v from now (attempts %d -> %d): ending a stream settles nothing",
			held[0], time.Duration(xb.AttemptAt-e.VNow()).Round(time.Millisecond), time.Duration(xa.AttemptAt-e.VNow()).Round(time.Millisecond), xb.Attempts, xa.Attempts))
	}
	res.Events = cl.events
	res.Sends = cl.nsends()
	return res, nil
}

// runHOL: the head-of-line situation, deterministically: limits 2 messages / 100 bytes, a
// 60-byte message held by the client, then a 60-byte and a 10-byte message in the backlog.
// Reports whether the 10-byte message is sent and how many transactions per second the
// streamer issues while nothing can be sent.
func runHOL() (map[string]interface{}, error) {
	ctx := context.Background()
	e, err := NewEnv(true)
	if err != nil {
		return nil, err
	}
	defer e.Close()
	topic, subName := "projects/p/topics/h", "projects/p/subscriptions/h"
	pre, _ := e.dumpR(ctx)
	e.Exec(ctx, &Op{Kind: "CreateTopic", Name: topic}, pre)
	e.Exec(ctx, &Op{Kind: "CreateSub", Sub: &SubReq{Name: subName, Topic: topic}}, pre)
	for _, n := range []int{60, 60, 10} {
		d, _ := e.dumpR(ctx)
		if o, err := e.Exec(ctx, &Op{Kind: "Publish", Name: topic, Msgs: []PubMsg{{Data: sizedPayload(n)}}}, d); err != nil || o.Resp.Kind != "ids" {
			return nil, fmt.Errorf("publish: %v", err)
		}
		time.Sleep(2 * time.Millisecond)
	}
	d0, _ := e.dumpR(ctx)
	sub := d0.subByName(subName)
	var begins int64
	var bmu sync.Mutex
	SetDBHook(e.DSN, func(ctx context.Context, kind CallKind, q string, after bool) error {
		if os.Getenv("VERIF_SQLLOG") != "" && !after && (kind == KExec || kind == KQuery) && strings.Contains(q, "deliveries") {
			fmt.Fprintln(os.Stderr, "SQL:", kind, q)
		}
		if kind == KBegin && !after {
			bmu.Lock()
			begins++
			bmu.Unlock()
		}
		return nil
	})
	defer SetDBHook(e.DSN, nil)
	cl := &streamClient{out: map[uuid.UUID]int{}, maxM: 2, maxB: 100}
	conn := &scriptConn{in: make(chan *actions.MessageStreamRequest), closed: make(chan struct{}), cl: cl}
	sctx, cancel := context.WithCancel(ctx)
	defer cancel()
	ms := &actions.MessageStreamer{Client: e.Client, SubscriptionID: &sub.ID, SubscriptionName: subName, AutomaticNack: true}
	done := make(chan error, 1)
	go func() { done <- ms.Go(sctx, conn) }()
	dl := &directLink{conn, cancel, done}
	if err := dl.flow(2, 100); err != nil {
		return nil, err
	}
	time.Sleep(300 * time.Millisecond)
	bmu.Lock()
	b0 := begins
	bmu.Unlock()
	t0 := time.Now()
	time.Sleep(2 * time.Second)
	bmu.Lock()
	rate := float64(begins-b0) / time.Since(t0).Seconds()
	bmu.Unlock()
	var sizesSent []int
	cl.mu.Lock()
	for _, s := range cl.sends {
		sizesSent = append(sizesSent, s.Bytes)
	}
	cl.mu.Unlock()
	return map[string]interface{}{"sent_sizes": sizesSent, "transactions_per_second_while_blocked": rate, "events": cl.events}, nil
}

// runForced: two transaction-boundary interleavings that timing alone almost never
// produces, forced through the SQL driver wrapper.
//
//	nack-refetch: the reader's zero-deadline nack transaction has committed (the message is
//	  deliverable again) but the reader has not yet updated its bookkeeping when the sender
//	  is woken, fetches the message again and sends it.
//	refresh-race: the refresher has taken its snapshot of the pending ids and is held at its
//	  query while the sender fetches and sends a new message.
//
// In both, further publishes must not take the client past its limit of 3 messages.
func runForced(kind string) (*streamResult, error) {
	ctx := context.Background()
	e, err := NewEnv(true)
	if err != nil {
		return nil, err
	}
	defer e.Close()
	maxM := 3
	if kind == "two-external-acks" {
		maxM = 2
	}
	res := &streamResult{Scenario: "forced:" + kind, MaxM: maxM, MaxB: 100000}
	topic, subName := "projects/p/topics/r", "projects/p/subscriptions/r"
	pre, _ := e.dumpR(ctx)
	e.Exec(ctx, &Op{Kind: "CreateTopic", Name: topic}, pre)
	mn, mx := 60*time.Second, 120*time.Second
	e.Exec(ctx, &Op{Kind: "CreateSub", Sub: &SubReq{Name: subName, Topic: topic, Retry: &[2]*time.Duration{&mn, &mx}}}, pre)
	publish := func(n int) error {
		for i := 0; i < n; i++ {
			d, _ := e.dumpR(ctx)
			if o, err := e.Exec(ctx, &Op{Kind: "Publish", Name: topic, Msgs: []PubMsg{{Data: sizedPayload(10)}}}, d); err != nil || o.Resp.Kind != "ids" {
				return fmt.Errorf("publish: %v", err)
			}
		}
		return nil
	}
	first := 2
	if kind == "two-external-acks" {
		first = 4 // two are sent, two wait for capacity
	}
	if err := publish(first); err != nil {
		return nil, err
	}
	d0, _ := e.dumpR(ctx)
	sub := d0.subByName(subName)
	cl := &streamClient{out: map[uuid.UUID]int{}, maxM: maxM, maxB: 100000}
	conn := &scriptConn{in: make(chan *actions.MessageStreamRequest), closed: make(chan struct{}), cl: cl}
	sctx, cancel := context.WithCancel(context.WithValue(ctx, actorKey{}, "stream"))
	defer cancel()
	ms := &actions.MessageStreamer{Client: e.Client, SubscriptionID: &sub.ID, SubscriptionName: subName, AutomaticNack: true}
	done := make(chan error, 1)
	go func() { done <- ms.Go(sctx, conn) }()
	dl := &directLink{conn, cancel, done}
	if err := dl.flow(maxM, 100000); err != nil {
		return nil, err
	}
	waitSends := func(n int, d time.Duration) bool {
		deadline := time.Now().Add(d)
		for time.Now().Before(deadline) {
			if cl.nsends() >= n {
				return true
			}
			time.Sleep(5 * time.Millisecond)
		}
		return false
	}
	if !waitSends(2, 3*time.Second) {
		return nil, fmt.Errorf("forced %s: the first two messages were not sent", kind)
	}
	held, _ := cl.outstanding()
	a := held[0]
	var hmu sync.Mutex
	armed, sawDelay := true, false
	blocked := make(chan struct{})
	release := make(chan struct{})
	var once sync.Once
	hold := func() {
		once.Do(func() { close(blocked) })
		select {
		case <-release:
		case <-time.After(2 * time.Second):
		}
	}
	SetDBHook(e.DSN, func(ctx context.Context, k CallKind, q string, after bool) error {
		hmu.Lock()
		isArmed := armed
		hmu.Unlock()
		if !isArmed {
			return nil
		}
		switch kind {
		case "nack-refetch":
			if k == KExec && !after && strings.HasPrefix(q, "UPDATE `deliveries` SET `attempt_at` = ? WHERE") {
				hmu.Lock()
				sawDelay = true
				hmu.Unlock()
			}
			if k == KCommit && after {
				hmu.Lock()
				s := sawDelay
				if s {
					armed = false
				}
				hmu.Unlock()
				if s {
					hold()
				}
			}
		case "refresh-race", "two-external-acks":
			// (two-external-acks holds the refresher AFTER its read: it has seen the first
			// acknowledgement only, the second commits before it goes on)
			// (only the STREAM's own read: the Acknowledge action issues a query of the same shape)
			if a, _ := ctx.Value(actorKey{}).(string); a != "stream" {
				return nil
			}
			want := KQuery
			if kind == "two-external-acks" {
				want = KRowsDone // (the rows have been read: SQLite steps lazily)
			}
			if k == want && after == (kind == "two-external-acks") && strings.Contains(q, "`deliveries`.`id` IN") && strings.Contains(q, "`completed_at` IS NULL") {
				hmu.Lock()
				armed = false
				hmu.Unlock()
				if os.Getenv("VERIF_DEBUG") != "" {
					fmt.Fprintf(os.Stderr, "HOLD %s after=%v: %.300s\n", kind, after, q)
				}
				hold()
			}
		}
		return nil
	})
	defer SetDBHook(e.DSN, nil)
	switch kind {
	case "nack-refetch":
		cl.note("nack %s as a zero deadline; the reader is held right after its transaction commits", a.String()[:8])
		cl.settle([]uuid.UUID{a})
		go dl.nack([]uuid.UUID{a}, true)
		select {
		case <-blocked:
		case <-time.After(3 * time.Second):
			// the zero-deadline nack did not run the deadline transaction this schedule hooks
			// into: the schedule cannot be forced; what became of the nack is judged below
			cl.note("the nack's deadline transaction was not seen (schedule not reached)")
			close(release)
			time.Sleep(200 * time.Millisecond)
			d, _ := e.dumpR(ctx)
			if x := d.del(a); x != nil && x.Completed != nil {
				cl.viol = append(cl.viol, fmt.Sprintf("nack-completed: ack id %s was nacked on the stream with a zero deadline and its delivery is now marked acknowledged", a))
			}
			cl.mu.Lock()
			res.Violations = append(res.Violations, cl.viol...)
			res.Events = cl.events
			cl.mu.Unlock()
			return res, nil
		}
		// any committed change on the subscription wakes the waiting fetch
		actions.WakePublishListeners(false, sub.ID)
		if !waitSends(3, 1500*time.Millisecond) {
			cl.note("the nacked message was not fetched again while the reader was held (schedule not reached)")
		}
		close(release)
	case "two-external-acks":
		// both messages the client holds are acknowledged OUTSIDE the stream, the second while
		// the stream's refresh of its pending set (triggered by the first) is reading: the
		// second acknowledgement's wake-up must not be lost -- both slots are free afterwards
		b := held[1]
		cl.note("Acknowledge %s outside the stream; the refresher is held right after its read", a.String()[:8])
		cl.settle([]uuid.UUID{a})
		d, _ := e.dumpR(ctx)
		go e.Exec(ctx, &Op{Kind: "Ack", Name: subName, AckIDs: []string{a.String()}}, d)
		select {
		case <-blocked:
		case <-time.After(3 * time.Second):
			cl.note("the refresher's query was not seen (schedule not reached)")
			close(release)
			cl.mu.Lock()
			res.Violations = append(res.Violations, cl.viol...)
			res.Events = cl.events
			cl.mu.Unlock()
			return res, nil
		}
		cl.note("Acknowledge %s outside the stream while the refresher is held", b.String()[:8])
		cl.settle([]uuid.UUID{b})
		d, _ = e.dumpR(ctx)
		if o, err := e.Exec(ctx, &Op{Kind: "Ack", Name: subName, AckIDs: []string{b.String()}}, d); err != nil || o.Resp.Kind == "err" {
			close(release)
			return nil, fmt.Errorf("second external ack: %v", err)
		}
		close(release)
		if !waitSends(4, stallBound) {
			cl.mu.Lock()
			cl.viol = append(cl.viol, fmt.Sprintf("stall: limit 2 messages, both messages the client held were acknowledged outside the stream (the second while the stream was refreshing its pending set), 2 deliverable messages remain, but only %d of them was sent within %v",
				len(cl.sends)-2, stallBound))
			cl.mu.Unlock()
		}
		cl.mu.Lock()
		res.Sends = len(cl.sends)
		res.Violations = append(res.Violations, cl.viol...)
		res.Events = cl.events
		cl.mu.Unlock()
		return res, nil
	case "refresh-race":
		cl.note("Acknowledge %s outside the stream; the refresher is held at its query", a.String()[:8])
		cl.settle([]uuid.UUID{a})
		d, _ := e.dumpR(ctx)
		go e.Exec(ctx, &Op{Kind: "Ack", Name: subName, AckIDs: []string{a.String()}}, d)
		select {
		case <-blocked:
		case <-time.After(3 * time.Second):
			cl.note("the refresher's query was not seen (schedule not reached)")
			close(release)
			cl.mu.Lock()
			res.Violations = append(res.Violations, cl.viol...)
			res.Events = cl.events
			cl.mu.Unlock()
			return res, nil
		}
		if err := publish(1); err != nil {
			return nil, err
		}
		if !waitSends(3, 1500*time.Millisecond) {
			cl.note("the new message was not sent while the refresher was held (schedule not reached)")
		}
		close(release)
	}
	time.Sleep(150 * time.Millisecond)
	if err := publish(3); err != nil {
		return nil, err
	}
	time.Sleep(600 * time.Millisecond)
	cl.mu.Lock()
	res.Sends = len(cl.sends)
	res.Violations = append(res.Violations, cl.viol...)
	res.Events = cl.events
	cl.mu.Unlock()
	return res, nil
}

func cmdStream(args []string) error {
	fs := flag.NewFlagSet("stream", flag.ExitOnError)
	seed := fs.Int64("seed", 1, "")
	n := fs.Int("n", 24, "scenarios (every fourth through the StreamingPull RPC)")
	only := fs.Int("only", -1, "run only this scenario index")
	out := fs.String("out", "", "")
	hol := fs.Bool("hol", false, "only run the head-of-line probe")
	fs.Parse(args)
	if *out == "" {
		return fmt.Errorf("-out required")
	}
	os.MkdirAll(*out, 0o755)
	if *hol {
		r, err := runHOL()
		if err != nil {
			return err
		}
		return writeJSON(filepath.Join(*out, "hol.json"), r)
	}
	results := make([]*streamResult, *n)
	errs := make([]error, *n)
	var wg sync.WaitGroup
	sem := make(chan struct{}, 8)
	for i := 0; i < *n; i++ {
		if *only >= 0 && i != *only {
			results[i] = &streamResult{Scenario: "skipped"}
			continue
		}
		wg.Add(1)
		go func(i int) {
			defer wg.Done()
			sem <- struct{}{}
			defer func() { <-sem }()
			results[i], errs[i] = runStreamScenario(*seed*7561+int64(i), i%4 == 3)
		}(i)
	}
	wg.Wait()
	tot := map[string]int{}
	for i, r := range results {
		if errs[i] != nil {
			return fmt.Errorf("scenario %d: %w", i, errs[i])
		}
		tot["sends"] += r.Sends
		tot["capacity_freeing_actions"] += r.Frees
		tot["sends_expected_after_freeing"] += r.Expected
		tot["head_of_line_situations"] += r.HOL
		tot["flow_checks"] += r.Checks
		tot["flow_checks_with_new_sends"] += r.SentAfter
		tot["scenarios_"+r.Scenario]++
		tot["violations"] += len(r.Violations)
	}
	holRes, err := runHOL()
	if err != nil {
		return fmt.Errorf("head-of-line probe: %w", err)
	}
	if xr, err := runCrossStreamAck(); err != nil {
		return err
	} else {
		results = append(results, xr)
		tot["sends"] += xr.Sends
		tot["violations"] += len(xr.Violations)
	}
	if er, err := runStreamEndAfterExtension(); err != nil {
		return err
	} else {
		results = append(results, er)
		tot["scenarios_forced"]++
		tot["sends"] += er.Sends
		tot["violations"] += len(er.Violations)
	}
	if ar, err := runAckDuringSend(); err != nil {
		return err
	} else {
		results = append(results, ar)
		tot["scenarios_forced"]++
		tot["sends"] += ar.Sends
		tot["violations"] += len(ar.Violations)
	}
	for _, f := range []func() (*streamResult, error){runFirstRequestAcks, runMixedModAck, runBigMessage} {
		xr, err := f()
		if err != nil {
			return err
		}
		results = append(results, xr)
		tot["scenarios_forced"]++
		tot["sends"] += xr.Sends
		tot["violations"] += len(xr.Violations)
	}
	for _, k := range []string{"nack-refetch", "refresh-race", "two-external-acks"} {
		fr, err := runForced(k)
		if err != nil {
			return err
		}
		results = append(results, fr)
		tot["scenarios_forced"]++
		tot["sends"] += fr.Sends
		tot["violations"] += len(fr.Violations)
	}
	return writeJSON(filepath.Join(*out, "stream.json"), map[string]interface{}{"totals": tot, "results": results, "head_of_line_probe": holRes})
}

func init() {
	subcmds["fetch-diff"] = cmdFetchDiff
	subcmds["stream"] = cmdStream
}
