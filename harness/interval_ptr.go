package main

import (
	"reflect"
	"time"

	"go.6river.tech/mmmbbb/ent"
)

// newInterval builds a *sqltypes.Interval (an internal type this module cannot name)
// holding d, typed after the MinBackoff field, and returns it as that field's type.
func newIntervalValue(sub *ent.Subscription, d time.Duration) reflect.Value {
	ft := reflect.TypeOf(sub.MinBackoff) // *sqltypes.Interval
	p := reflect.New(ft.Elem())
	p.Elem().SetInt(int64(d))
	return p
}

func setIntervalField(sub *ent.Subscription, field string, d time.Duration) {
	reflect.ValueOf(sub).Elem().FieldByName(field).Set(newIntervalValue(sub, d))
}
