//go:build verif

package main

import "go.6river.tech/mmmbbb/faults"

const yieldAvailable = true

func setYield(f func(point, op string, params faults.Parameters)) { faults.VerifYield = f }
