package main

// C18 through the deployed interceptor chain: faults are matched against parameters that
// grpc/faults.go derives from the request message (string fields under their text, JSON,
// short and full names, plus service -> method).

import (
	"context"
	"flag"
	"fmt"
	"math/rand"
	"os"
	"path/filepath"
	"strings"
	"time"

	"google.golang.org/grpc/codes"
	"google.golang.org/grpc/status"
	"google.golang.org/protobuf/proto"
	"google.golang.org/protobuf/reflect/protoreflect"

	"go.6river.tech/mmmbbb/faults"
	"go.6river.tech/mmmbbb/grpc/pubsubpb"
)

// expectedParams re-derives, independently of grpc/faults.go, the parameters of a call
func expectedParams(service, method string, req proto.Message) map[string]string {
	ps := map[string]string{service: method}
	req.ProtoReflect().Range(func(fd protoreflect.FieldDescriptor, v protoreflect.Value) bool {
		if fd.Kind() == protoreflect.StringKind && fd.Cardinality() != protoreflect.Repeated {
			ps[fd.TextName()] = v.String()
			ps[fd.JSONName()] = v.String()
			ps[string(fd.Name())] = v.String()
			ps[string(fd.FullName())] = v.String()
		}
		return true
	})
	return ps
}

func cmdFaultsGrpc(args []string) error {
	fs := flag.NewFlagSet("faults-grpc", flag.ExitOnError)
	seed := fs.Int64("seed", 1, "")
	n := fs.Int("n", 40, "scenarios")
	out := fs.String("out", "", "")
	fs.Parse(args)
	os.MkdirAll(*out, 0o755)
	r := rand.New(rand.NewSource(*seed))
	e, err := NewEnv(true)
	if err != nil {
		return err
	}
	defer e.Close()
	ctx := context.Background()
	names := []string{"projects/p/topics/t0", "projects/p/topics/t1", "projects/q/topics/t0"}
	subs := []string{"projects/p/subscriptions/s0", "projects/p/subscriptions/s1"}
	pubSvc, subSvc := "google.pubsub.v1.Publisher", "google.pubsub.v1.Subscriber"
	var b strings.Builder
	b.WriteString("From MB Require Import Base Faults.\nOpen Scope list_scope.\n")
	b.WriteString("Definition sout_eqb (a b : sout) : bool := match a, b with OUnit, OUnit => true | OCheck x, OCheck y => opt_eqb (pair_eqb Nat.eqb Z.eqb) x y | OCurrent x, OCurrent y => list_eqb (pair_eqb Nat.eqb Z.eqb) x y | _, _ => false end.\n")
	b.WriteString("Definition chk (s0 : fset) (ops : list sop) (obs : list sout) : bool := list_eqb sout_eqb (srun s0 ops) obs.\n")
	b.WriteString("Definition cases : list (nat * (list sop * list sout)) := [\n")
	calls, failed := 0, 0
	var samples []string
	nd := 0
	var allOps, allObs []string // the Set is shared by the whole run: one long history
	var descs []fdesc
	streams, maxStreams := 0, *n/2
	// a stream opened while no fault is configured: faults injected later must still apply to
	// the messages it receives afterwards. Opening it runs the stream-open check, the general
	// receive check, the check on the first message, and the general receive check for the
	// next message -- all against the empty set.
	earlySub := subs[0]
	// (the subscription must exist for the stream to stay open; these two calls run against
	// the empty fault set, where every check passes and nothing changes)
	if _, err := e.Pub.CreateTopic(ctx, &pubsubpb.Topic{Name: names[0]}); err != nil {
		return err
	}
	if _, err := e.Sub.CreateSubscription(ctx, &pubsubpb.Subscription{Name: earlySub, Topic: names[0]}); err != nil {
		return err
	}
	ectx, ecancel := context.WithCancel(ctx)
	defer ecancel()
	early, eerr := e.Sub.StreamingPull(ectx)
	if eerr == nil {
		eerr = early.Send(&pubsubpb.StreamingPullRequest{Subscription: earlySub, StreamAckDeadlineSeconds: 10})
	}
	if eerr != nil {
		return fmt.Errorf("early stream: %w", eerr)
	}
	time.Sleep(150 * time.Millisecond)
	first := &pubsubpb.StreamingPullRequest{Subscription: earlySub, StreamAckDeadlineSeconds: 10}
	for _, c := range []string{
		fmt.Sprintf("SCheck %s %s", coqStr("StreamingPull"), coqMap(map[string]string{subSvc: "StreamingPull"})),
		fmt.Sprintf("SCheck %s %s", coqStr("StreamingPull:RecvMsg"), coqMap(nil)),
		fmt.Sprintf("SCheck %s %s", coqStr("StreamingPull:RecvMsg"), coqMap(expectedParams(subSvc, "StreamingPull", first))),
	} {
		allOps = append(allOps, c)
		allObs = append(allObs, "OCheck None")
		calls++
	}
	for _, c := range []string{
		fmt.Sprintf("SCheck %s %s", coqStr("StreamingPull"), coqMap(map[string]string{subSvc: "StreamingPull"})),
		fmt.Sprintf("SCheck %s %s", coqStr("StreamingPull:RecvMsg"), coqMap(nil)),
		fmt.Sprintf("SCheck %s %s", coqStr("StreamingPull:RecvMsg"), coqMap(expectedParams(subSvc, "StreamingPull", first))),
	} {
		allOps = append(allOps, c)
		allObs = append(allObs, "OCheck None")
		calls++
	}
	for sc := 0; sc < *n; sc++ {
		// add 1-2 descriptions
		for k := 0; k < 1+r.Intn(2); k++ {
			d := fdesc{Count: []int64{1, 2, 3}[r.Intn(3)]}
			switch r.Intn(9) {
			case 6:
				// names a request field: the stream-open check only carries service -> method, so
				// this can never fire when the stream is opened
				d.Op, d.Params = "StreamingPull", map[string]string{"subscription": subs[r.Intn(len(subs))]}
			case 7:
				d.Op, d.Params = "StreamingPull", nil
				if r.Intn(2) == 0 {
					d.Params = map[string]string{subSvc: "StreamingPull"}
				}
			case 8:
				d.Op, d.Params = "StreamingPull:RecvMsg", nil
				if r.Intn(3) > 0 {
					d.Params = map[string]string{"subscription": subs[r.Intn(len(subs))]}
				}
			case 0:
				d.Op, d.Params = "GetTopic", map[string]string{"topic": names[r.Intn(len(names))]}
			case 1:
				d.Op, d.Params = "GetTopic", nil
			case 2:
				d.Op, d.Params = "Publish", map[string]string{"google.pubsub.v1.PublishRequest.topic": names[r.Intn(len(names))]}
			case 3:
				d.Op, d.Params = "GetSubscription", map[string]string{"subscription": subs[r.Intn(len(subs))], subSvc: "GetSubscription"}
			case 4:
				d.Op, d.Params = "GetTopic", map[string]string{pubSvc: "Publish"} // service/method mismatch: never matches
			default:
				d.Op, d.Params = "Pull", map[string]string{"subscription": subs[r.Intn(len(subs))], "returnImmediately": "true"} // non-string field: never present
			}
			idx := nd
			nd++
			descs = append(descs, d)
			e.Faults.Add(faults.Description{Operation: d.Op, Parameters: d.Params, Count: d.Count, FaultDescription: fmt.Sprint(idx),
				OnFault: func(dd faults.Description, _ faults.Parameters) error {
					return status.Errorf(codes.DataLoss, "F:%d:%d", idx, dd.Count)
				}})
			allOps = append(allOps, "SAdd "+coqDesc(d))
			allObs = append(allObs, "OUnit")
		}
		for k := 0; k < 4+r.Intn(6); k++ {
			var req proto.Message
			var svc, method string
			var err error
			if streams < maxStreams && r.Intn(5) == 0 {
				// a streaming pull: the interceptor checks at stream open (service -> method only),
				// then before and after receiving the first request message
				streams++
				sub := subs[r.Intn(len(subs))]
				sctx, cancel := context.WithTimeout(ctx, 250*time.Millisecond)
				var serr error
				if st, err := e.Sub.StreamingPull(sctx); err != nil {
					serr = err
				} else if err := st.Send(&pubsubpb.StreamingPullRequest{Subscription: sub, StreamAckDeadlineSeconds: 10}); err != nil {
					serr = err
				} else {
					_, serr = st.Recv()
				}
				cancel()
				firedIdx, firedRem, fired := int64(-1), int64(0), false
				if st, ok := status.FromError(serr); ok && st.Code() == codes.DataLoss {
					// the handler wraps receive errors ("Error receiving StreamingPull message: F:i:n")
					msg := st.Message()
					if i := strings.LastIndex(msg, "F:"); i >= 0 {
						msg = msg[i:]
					}
					if n, _ := fmt.Sscanf(msg, "F:%d:%d", &firedIdx, &firedRem); n != 2 {
						return fmt.Errorf("unexpected DataLoss status on a streaming pull: %q", st.Message())
					}
					fired = true
					failed++
				}
				stage := 0 // which of the three checks failed: decided by the kind of description that fired
				if fired {
					dd := descs[firedIdx]
					switch {
					case dd.Op == "StreamingPull":
						stage = 1
					case len(dd.Params) == 0:
						stage = 2
					default:
						stage = 3
					}
				}
				msg := &pubsubpb.StreamingPullRequest{Subscription: sub, StreamAckDeadlineSeconds: 10}
				checks := []string{
					fmt.Sprintf("SCheck %s %s", coqStr("StreamingPull"), coqMap(map[string]string{subSvc: "StreamingPull"})),
					fmt.Sprintf("SCheck %s %s", coqStr("StreamingPull:RecvMsg"), coqMap(nil)),
					fmt.Sprintf("SCheck %s %s", coqStr("StreamingPull:RecvMsg"), coqMap(expectedParams(subSvc, "StreamingPull", msg))),
				}
				for i, c := range checks {
					calls++
					allOps = append(allOps, c)
					if fired && stage == i+1 {
						allObs = append(allObs, fmt.Sprintf("OCheck (Some (%d%%nat, %s))", firedIdx, coqZ(firedRem)))
						break
					}
					allObs = append(allObs, "OCheck None")
				}
				continue
			}
			switch r.Intn(4) {
			case 0, 1:
				q := &pubsubpb.GetTopicRequest{Topic: names[r.Intn(len(names))]}
				req, svc, method = q, pubSvc, "GetTopic"
				_, err = e.Pub.GetTopic(ctx, q)
			case 2:
				q := &pubsubpb.PublishRequest{Topic: names[r.Intn(len(names))]}
				req, svc, method = q, pubSvc, "Publish"
				_, err = e.Pub.Publish(ctx, q)
			default:
				q := &pubsubpb.GetSubscriptionRequest{Subscription: subs[r.Intn(len(subs))]}
				req, svc, method = q, subSvc, "GetSubscription"
				_, err = e.Sub.GetSubscription(ctx, q)
			}
			calls++
			allOps = append(allOps, fmt.Sprintf("SCheck %s %s", coqStr(method), coqMap(expectedParams(svc, method, req))))
			o := "OCheck None"
			if st, ok := status.FromError(err); ok && st.Code() == codes.DataLoss {
				var idx, rem int64
				fmt.Sscanf(st.Message(), "F:%d:%d", &idx, &rem)
				o = fmt.Sprintf("OCheck (Some (%d%%nat, %s))", idx, coqZ(rem))
				failed++
			}
			allObs = append(allObs, o)
		}
	}
	// now a fault for received messages, and a second message on the early stream
	{
		d := fdesc{Op: "StreamingPull:RecvMsg", Params: map[string]string{"clientId": "late"}, Count: 1}
		idx := nd
		nd++
		descs = append(descs, d)
		e.Faults.Add(faults.Description{Operation: d.Op, Parameters: d.Params, Count: d.Count, FaultDescription: fmt.Sprint(idx),
			OnFault: func(dd faults.Description, _ faults.Parameters) error {
				return status.Errorf(codes.DataLoss, "F:%d:%d", idx, dd.Count)
			}})
		allOps = append(allOps, "SAdd "+coqDesc(d))
		allObs = append(allObs, "OUnit")
		second := &pubsubpb.StreamingPullRequest{ClientId: "late"}
		rerr := early.Send(second)
		done := make(chan error, 1)
		go func() {
			for {
				if _, err := early.Recv(); err != nil {
					done <- err
					return
				}
			}
		}()
		select {
		case rerr = <-done:
		case <-time.After(1500 * time.Millisecond):
			rerr = nil
		}
		if os.Getenv("VERIF_DEBUG") != "" {
			fmt.Fprintln(os.Stderr, "early stream second message ->", rerr)
		}
		calls++
		allOps = append(allOps, fmt.Sprintf("SCheck %s %s", coqStr("StreamingPull:RecvMsg"), coqMap(expectedParams(subSvc, "StreamingPull", second))))
		o := "OCheck None"
		if st, ok := status.FromError(rerr); ok && rerr != nil && st.Code() == codes.DataLoss {
			msg := st.Message()
			if i := strings.LastIndex(msg, "F:"); i >= 0 {
				msg = msg[i:]
			}
			var fi, rem int64
			if n, _ := fmt.Sscanf(msg, "F:%d:%d", &fi, &rem); n == 2 {
				o = fmt.Sprintf("OCheck (Some (%d%%nat, %s))", fi, coqZ(rem))
				failed++
			}
		}
		allObs = append(allObs, o)
	}
	c := fmt.Sprintf("(0%%nat, ([%s], [%s]))", strings.Join(allOps, "; "), strings.Join(allObs, "; "))
	samples = append(samples, c[:600])
	b.WriteString(c)
	c2, f2, err := fieldlessMessageCase()
	if err != nil {
		return err
	}
	calls += 4
	failed += f2
	b.WriteString(";\n" + c2)
	b.WriteString("].\nDefinition bad := Eval vm_compute in map fst (filter (fun c => negb (chk [] (fst (snd c)) (snd (snd c)))) cases).\nPrint bad.\n")
	if err := os.WriteFile(filepath.Join(*out, "faults_grpc.v"), []byte(b.String()), 0o644); err != nil {
		return err
	}
	return writeJSON(filepath.Join(*out, "faults_grpc.json"), map[string]interface{}{"scenarios": *n, "calls": calls, "failed_calls": failed, "samples": samples})
}

// fieldlessMessageCase: a fresh server; a stream is opened against the empty fault set; then a fault
// naming only service -> method (a documented, matchable parameter of every call) is added for
// received stream messages, and a message WITHOUT any string field arrives (what an ack-only or
// deadline-only request looks like): its parameters are exactly service -> method, it matches, it
// is failed - exactly once
func fieldlessMessageCase() (string, int, error) {
	e, err := NewEnv(true)
	if err != nil {
		return "", 0, err
	}
	defer e.Close()
	ctx := context.Background()
	subSvc := "google.pubsub.v1.Subscriber"
	topic, sub := "projects/p/topics/fl", "projects/p/subscriptions/fl"
	if _, err := e.Pub.CreateTopic(ctx, &pubsubpb.Topic{Name: topic}); err != nil {
		return "", 0, err
	}
	if _, err := e.Sub.CreateSubscription(ctx, &pubsubpb.Subscription{Name: sub, Topic: topic}); err != nil {
		return "", 0, err
	}
	sctx, cancel := context.WithCancel(ctx)
	defer cancel()
	st, err := e.Sub.StreamingPull(sctx)
	if err != nil {
		return "", 0, err
	}
	first := &pubsubpb.StreamingPullRequest{Subscription: sub, StreamAckDeadlineSeconds: 10}
	if err := st.Send(first); err != nil {
		return "", 0, err
	}
	time.Sleep(200 * time.Millisecond)
	ops := []string{
		fmt.Sprintf("SCheck %s %s", coqStr("StreamingPull"), coqMap(map[string]string{subSvc: "StreamingPull"})),
		fmt.Sprintf("SCheck %s %s", coqStr("StreamingPull:RecvMsg"), coqMap(nil)),
		fmt.Sprintf("SCheck %s %s", coqStr("StreamingPull:RecvMsg"), coqMap(expectedParams(subSvc, "StreamingPull", first))),
	}
	obs := []string{"OCheck None", "OCheck None", "OCheck None"}
	d := fdesc{Op: "StreamingPull:RecvMsg", Params: map[string]string{subSvc: "StreamingPull"}, Count: 1}
	e.Faults.Add(faults.Description{Operation: d.Op, Parameters: d.Params, Count: d.Count, FaultDescription: "0",
		OnFault: func(dd faults.Description, _ faults.Parameters) error {
			return status.Errorf(codes.DataLoss, "F:%d:%d", 0, dd.Count)
		}})
	ops = append(ops, "SAdd "+coqDesc(d))
	obs = append(obs, "OUnit")
	plain := &pubsubpb.StreamingPullRequest{StreamAckDeadlineSeconds: 10}
	if err := st.Send(plain); err != nil {
		return "", 0, err
	}
	done := make(chan error, 1)
	go func() {
		for {
			if _, err := st.Recv(); err != nil {
				done <- err
				return
			}
		}
	}()
	var rerr error
	select {
	case rerr = <-done:
	case <-time.After(1500 * time.Millisecond):
	}
	ops = append(ops, fmt.Sprintf("SCheck %s %s", coqStr("StreamingPull:RecvMsg"), coqMap(expectedParams(subSvc, "StreamingPull", plain))))
	o, failed := "OCheck None", 0
	if s, ok := status.FromError(rerr); ok && rerr != nil && s.Code() == codes.DataLoss {
		msg := s.Message()
		if i := strings.LastIndex(msg, "F:"); i >= 0 {
			msg = msg[i:]
		}
		var fi, rem int64
		if n, _ := fmt.Sscanf(msg, "F:%d:%d", &fi, &rem); n == 2 {
			o = fmt.Sprintf("OCheck (Some (%d%%nat, %s))", fi, coqZ(rem))
			failed = 1
		}
	}
	obs = append(obs, o)
	return fmt.Sprintf("(1%%nat, ([%s], [%s]))", strings.Join(ops, "; "), strings.Join(obs, "; ")), failed, nil
}

func init() { subcmds["faults-grpc"] = cmdFaultsGrpc }
