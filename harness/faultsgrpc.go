package main

// C18 through the deployed interceptor chain: faults are matched against parameters that
// grpc/faults.go derives from the request message (string fields under their text, JSON,
// short and full names, plus service -> method).

import (
	"context"
	"flag"
	"fmt"
	"math/rand"
	"os"
	"path/filepath"
	"strings"

	"google.golang.org/grpc/codes"
	"google.golang.org/grpc/status"
	"google.golang.org/protobuf/proto"
	"google.golang.org/protobuf/reflect/protoreflect"

	"go.6river.tech/mmmbbb/faults"
	"go.6river.tech/mmmbbb/grpc/pubsubpb"
)

// expectedParams re-derives, independently of grpc/faults.go, the parameters of a call
func expectedParams(service, method string, req proto.Message) map[string]string {
	ps := map[string]string{service: method}
	req.ProtoReflect().Range(func(fd protoreflect.FieldDescriptor, v protoreflect.Value) bool {
		if fd.Kind() == protoreflect.StringKind && fd.Cardinality() != protoreflect.Repeated {
			ps[fd.TextName()] = v.String()
			ps[fd.JSONName()] = v.String()
			ps[string(fd.Name())] = v.String()
			ps[string(fd.FullName())] = v.String()
		}
		return true
	})
	return ps
}

func cmdFaultsGrpc(args []string) error {
	fs := flag.NewFlagSet("faults-grpc", flag.ExitOnError)
	seed := fs.Int64("seed", 1, "")
	n := fs.Int("n", 40, "scenarios")
	out := fs.String("out", "", "")
	fs.Parse(args)
	os.MkdirAll(*out, 0o755)
	r := rand.New(rand.NewSource(*seed))
	e, err := NewEnv(true)
	if err != nil {
		return err
	}
	defer e.Close()
	ctx := context.Background()
	names := []string{"projects/p/topics/t0", "projects/p/topics/t1", "projects/q/topics/t0"}
	subs := []string{"projects/p/subscriptions/s0", "projects/p/subscriptions/s1"}
	pubSvc, subSvc := "google.pubsub.v1.Publisher", "google.pubsub.v1.Subscriber"
	var b strings.Builder
	b.WriteString("From MB Require Import Base Faults.\nOpen Scope list_scope.\n")
	b.WriteString("Definition sout_eqb (a b : sout) : bool := match a, b with OUnit, OUnit => true | OCheck x, OCheck y => opt_eqb (pair_eqb Nat.eqb Z.eqb) x y | OCurrent x, OCurrent y => list_eqb (pair_eqb Nat.eqb Z.eqb) x y | _, _ => false end.\n")
	b.WriteString("Definition chk (s0 : fset) (ops : list sop) (obs : list sout) : bool := list_eqb sout_eqb (srun s0 ops) obs.\n")
	b.WriteString("Definition cases : list (nat * (list sop * list sout)) := [\n")
	calls, failed := 0, 0
	var samples []string
	nd := 0
	var allOps, allObs []string // the Set is shared by the whole run: one long history
	for sc := 0; sc < *n; sc++ {
		// add 1-2 descriptions
		for k := 0; k < 1+r.Intn(2); k++ {
			d := fdesc{Count: []int64{1, 2, 3}[r.Intn(3)]}
			switch r.Intn(6) {
			case 0:
				d.Op, d.Params = "GetTopic", map[string]string{"topic": names[r.Intn(len(names))]}
			case 1:
				d.Op, d.Params = "GetTopic", nil
			case 2:
				d.Op, d.Params = "Publish", map[string]string{"google.pubsub.v1.PublishRequest.topic": names[r.Intn(len(names))]}
			case 3:
				d.Op, d.Params = "GetSubscription", map[string]string{"subscription": subs[r.Intn(len(subs))], subSvc: "GetSubscription"}
			case 4:
				d.Op, d.Params = "GetTopic", map[string]string{pubSvc: "Publish"} // service/method mismatch: never matches
			default:
				d.Op, d.Params = "Pull", map[string]string{"subscription": subs[r.Intn(len(subs))], "returnImmediately": "true"} // non-string field: never present
			}
			idx := nd
			nd++
			e.Faults.Add(faults.Description{Operation: d.Op, Parameters: d.Params, Count: d.Count, FaultDescription: fmt.Sprint(idx),
				OnFault: func(dd faults.Description, _ faults.Parameters) error {
					return status.Errorf(codes.DataLoss, "F:%d:%d", idx, dd.Count)
				}})
			allOps = append(allOps, "SAdd "+coqDesc(d))
			allObs = append(allObs, "OUnit")
		}
		for k := 0; k < 4+r.Intn(6); k++ {
			var req proto.Message
			var svc, method string
			var err error
			switch r.Intn(4) {
			case 0, 1:
				q := &pubsubpb.GetTopicRequest{Topic: names[r.Intn(len(names))]}
				req, svc, method = q, pubSvc, "GetTopic"
				_, err = e.Pub.GetTopic(ctx, q)
			case 2:
				q := &pubsubpb.PublishRequest{Topic: names[r.Intn(len(names))]}
				req, svc, method = q, pubSvc, "Publish"
				_, err = e.Pub.Publish(ctx, q)
			default:
				q := &pubsubpb.GetSubscriptionRequest{Subscription: subs[r.Intn(len(subs))]}
				req, svc, method = q, subSvc, "GetSubscription"
				_, err = e.Sub.GetSubscription(ctx, q)
			}
			calls++
			allOps = append(allOps, fmt.Sprintf("SCheck %s %s", coqStr(method), coqMap(expectedParams(svc, method, req))))
			o := "OCheck None"
			if st, ok := status.FromError(err); ok && st.Code() == codes.DataLoss {
				var idx, rem int64
				fmt.Sscanf(st.Message(), "F:%d:%d", &idx, &rem)
				o = fmt.Sprintf("OCheck (Some (%d%%nat, %s))", idx, coqZ(rem))
				failed++
			}
			allObs = append(allObs, o)
		}
	}
	c := fmt.Sprintf("(0%%nat, ([%s], [%s]))", strings.Join(allOps, "; "), strings.Join(allObs, "; "))
	samples = append(samples, c[:600])
	b.WriteString(c)
	b.WriteString("].\nDefinition bad := Eval vm_compute in map fst (filter (fun c => negb (chk [] (fst (snd c)) (snd (snd c)))) cases).\nPrint bad.\n")
	if err := os.WriteFile(filepath.Join(*out, "faults_grpc.v"), []byte(b.String()), 0o644); err != nil {
		return err
	}
	return writeJSON(filepath.Join(*out, "faults_grpc.json"), map[string]interface{}{"scenarios": *n, "calls": calls, "failed_calls": failed, "samples": samples})
}

func init() { subcmds["faults-grpc"] = cmdFaultsGrpc }
