package main

// C18, the one concurrent path of faults.Set that the Check LTS treats as invisible: the
// asynchronous prune started when a description is exhausted. A fault added for the same
// operation while that prune runs must not be lost (it must fire exactly its count and be
// listed). Stress test: the prune is slowed by many unrelated live descriptions.

import (
	"errors"
	"flag"
	"fmt"
	"os"
	"path/filepath"
	"runtime"
	"sync"
	"time"

	"go.6river.tech/mmmbbb/faults"
)

func cmdFaultsPrune(args []string) error {
	fs := flag.NewFlagSet("faults-prune", flag.ExitOnError)
	rounds := fs.Int("rounds", 300, "")
	unrelated := fs.Int("unrelated", 3000, "unrelated live descriptions (they make a prune take long enough to race with)")
	out := fs.String("out", "", "")
	fs.Parse(args)
	if *out == "" {
		return fmt.Errorf("-out required")
	}
	os.MkdirAll(*out, 0o755)
	errF := func(name string) func(faults.Description, faults.Parameters) error {
		return func(faults.Description, faults.Parameters) error { return errors.New(name) }
	}
	lost, notListed, overfired := 0, 0, 0
	var mu sync.Mutex
	var wg sync.WaitGroup
	sem := make(chan struct{}, runtime.NumCPU())
	for r := 0; r < *rounds; r++ {
		wg.Add(1)
		go func(r int) {
			defer wg.Done()
			sem <- struct{}{}
			defer func() { <-sem }()
			s := faults.NewSet(fmt.Sprintf("prune%d", r))
			for i := 0; i < *unrelated; i++ {
				s.Add(faults.Description{Operation: fmt.Sprintf("U%d", i), Count: 1000, OnFault: errF("u")})
			}
			s.Add(faults.Description{Operation: "X", Count: 1, OnFault: errF("F1")})
			if err := s.Check("X", nil); err == nil || err.Error() != "F1" {
				mu.Lock()
				lost++
				mu.Unlock()
				return
			}
			// F1 is exhausted: its prune is running (or about to); inject F2 for the same operation
			for k := 0; k < r%7; k++ {
				runtime.Gosched()
			}
			s.Add(faults.Description{Operation: "X", Count: 2, OnFault: errF("F2")})
			time.Sleep(time.Duration(1+r%5) * time.Millisecond) // let the prune finish
			listed := false
			for _, d := range s.Current()["X"] {
				if d.Count == 2 {
					listed = true
				}
			}
			fired := 0
			for k := 0; k < 3; k++ {
				if err := s.Check("X", nil); err != nil && err.Error() == "F2" {
					fired++
				}
			}
			mu.Lock()
			if !listed {
				notListed++
			}
			if fired < 2 {
				lost++
			} else if fired > 2 {
				overfired++
			}
			mu.Unlock()
		}(r)
	}
	wg.Wait()
	return writeJSON(filepath.Join(*out, "faults_prune.json"), map[string]interface{}{
		"rounds": *rounds, "unrelated": *unrelated, "lost": lost, "not_listed": notListed, "overfired": overfired})
}

func init() { subcmds["faults-prune"] = cmdFaultsPrune }
