package main

import (
	"fmt"
	"os"
)

type subcmd func(args []string) error

var subcmds = map[string]subcmd{}

func main() {
	if len(os.Args) < 2 {
		fmt.Fprintln(os.Stderr, "usage: harness <subcommand> [args]")
		os.Exit(2)
	}
	f, ok := subcmds[os.Args[1]]
	if !ok {
		fmt.Fprintln(os.Stderr, "unknown subcommand", os.Args[1])
		os.Exit(2)
	}
	if err := f(os.Args[2:]); err != nil {
		fmt.Fprintln(os.Stderr, "harness error:", err)
		os.Exit(3)
	}
}
