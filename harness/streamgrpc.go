package main

// Scenarios through the real StreamingPull RPC that exercise the request adapter
// (services/grpc-subscriber.go streamWrapper.adaptIn), and one with a message far larger than
// the random scenarios use.

import (
	"context"
	"fmt"
	"time"

	"github.com/google/uuid"

	"go.6river.tech/mmmbbb/actions"
	"go.6river.tech/mmmbbb/grpc/pubsubpb"
)

func streamSetup(e *Env, topic, subName string, payloads [][]byte) error {
	ctx := context.Background()
	pre, _ := e.dumpR(ctx)
	e.Exec(ctx, &Op{Kind: "CreateTopic", Name: topic}, pre)
	mn, mx := 60*time.Second, 120*time.Second
	if o, err := e.Exec(ctx, &Op{Kind: "CreateSub", Sub: &SubReq{Name: subName, Topic: topic, Retry: &[2]*time.Duration{&mn, &mx}}}, pre); err != nil || o.Resp.Kind == "err" {
		return fmt.Errorf("create subscription: %v", err)
	}
	for _, p := range payloads {
		d, _ := e.dumpR(ctx)
		if o, err := e.Exec(ctx, &Op{Kind: "Publish", Name: topic, Msgs: []PubMsg{{Data: p}}}, d); err != nil || o.Resp.Kind != "ids" {
			return fmt.Errorf("publish: %v", err)
		}
	}
	return nil
}

// runFirstRequestAcks: the FIRST request of a stream (subscription + flow control) also carries
// ack ids and a deadline modification, for deliveries leased earlier by a unary Pull - a client
// re-opening a broken stream flushes what it has pending. They are honoured like those of any
// later request (C03: an accepted acknowledgement is final).
func runFirstRequestAcks() (*streamResult, error) {
	ctx := context.Background()
	e, err := NewEnv(true)
	if err != nil {
		return nil, err
	}
	defer e.Close()
	res := &streamResult{Scenario: "first-request-acks", MaxM: 10, MaxB: 100000}
	topic, subName := "projects/p/topics/fa", "projects/p/subscriptions/fa"
	if err := streamSetup(e, topic, subName, [][]byte{sizedPayload(10), sizedPayload(10), sizedPayload(10)}); err != nil {
		return nil, err
	}
	pr, err := e.Sub.Pull(ctx, &pubsubpb.PullRequest{Subscription: subName, MaxMessages: 10, ReturnImmediately: true})
	if err != nil || len(pr.ReceivedMessages) != 3 {
		return nil, fmt.Errorf("first-request-acks: pull: %v (%d messages)", err, len(pr.GetReceivedMessages()))
	}
	ids := []string{pr.ReceivedMessages[0].AckId, pr.ReceivedMessages[1].AckId, pr.ReceivedMessages[2].AckId}
	sctx, cancel := context.WithCancel(ctx)
	defer cancel()
	st, err := e.Sub.StreamingPull(sctx)
	if err != nil {
		return nil, err
	}
	if err := st.Send(&pubsubpb.StreamingPullRequest{Subscription: subName, StreamAckDeadlineSeconds: 10, MaxOutstandingMessages: 10,
		AckIds: ids[:2]}); err != nil {
		return nil, err
	}
	go func() {
		for {
			if _, err := st.Recv(); err != nil {
				return
			}
		}
	}()
	deadline := time.Now().Add(3 * time.Second)
	done := false
	for !done && time.Now().Before(deadline) {
		time.Sleep(50 * time.Millisecond)
		d, _ := e.dumpR(ctx)
		done = true
		for _, s := range ids[:2] {
			if x := d.del(uuid.MustParse(s)); x == nil || x.Completed == nil {
				done = false
			}
		}
	}
	d, _ := e.dumpR(ctx)
	for _, s := range ids[:2] {
		if x := d.del(uuid.MustParse(s)); x == nil || x.Completed == nil {
			res.Violations = append(res.Violations, fmt.Sprintf("ack-not-completed: ack id %s, sent in the ack_ids of the first request of a StreamingPull stream (which stayed up), is still unacknowledged 3 s later", s))
			break
		}
	}
	if x := d.del(uuid.MustParse(ids[2])); x != nil && x.Completed != nil {
		res.Violations = append(res.Violations, fmt.Sprintf("nack-completed: delivery %s was never acknowledged but is marked acknowledged", ids[2]))
	}
	res.Events = []string{fmt.Sprintf("unary pull leased %d, first stream request acknowledged 2", len(ids))}
	return res, nil
}

// runMixedModAck: one StreamingPull request that nacks one message (deadline 0) and extends
// another (deadline 60 s) while the flow-control window is full and more messages wait. Whatever
// the adapter makes of the mixture, the message the client EXTENDED is still held by the client:
// it must keep counting against max outstanding messages (C11), and must not be handed out again
// inside its lease (C04).
func runMixedModAck() (*streamResult, error) {
	ctx := context.Background()
	e, err := NewEnv(true)
	if err != nil {
		return nil, err
	}
	defer e.Close()
	res := &streamResult{Scenario: "mixed-modack", MaxM: 2, MaxB: 100000}
	topic, subName := "projects/p/topics/mm", "projects/p/subscriptions/mm"
	var ps [][]byte
	for i := 0; i < 5; i++ {
		ps = append(ps, sizedPayload(10))
	}
	if err := streamSetup(e, topic, subName, ps); err != nil {
		return nil, err
	}
	cl := &streamClient{out: map[uuid.UUID]int{}, maxM: 2, maxB: 100000}
	sctx, cancel := context.WithCancel(ctx)
	defer cancel()
	st, err := e.Sub.StreamingPull(sctx)
	if err != nil {
		return nil, err
	}
	if err := st.Send(&pubsubpb.StreamingPullRequest{Subscription: subName, StreamAckDeadlineSeconds: 10, MaxOutstandingMessages: 2}); err != nil {
		return nil, err
	}
	resent := make(chan uuid.UUID, 16)
	var extended uuid.UUID
	go func() {
		for {
			resp, err := st.Recv()
			if err != nil {
				return
			}
			for _, m := range resp.ReceivedMessages {
				id, _ := uuid.Parse(m.AckId)
				mi, _ := uuid.Parse(m.Message.MessageId)
				cl.mu.Lock()
				ext := extended
				cl.mu.Unlock()
				if id == ext && ext != uuid.Nil {
					resent <- id
				}
				cl.onSend(id, mi, len(m.Message.Data))
			}
		}
	}()
	deadline := time.Now().Add(3 * time.Second)
	for cl.nsends() < 2 && time.Now().Before(deadline) {
		time.Sleep(10 * time.Millisecond)
	}
	held, _ := cl.outstanding()
	if len(held) != 2 {
		return nil, fmt.Errorf("mixed-modack: %d messages delivered, expected 2", len(held))
	}
	time.Sleep(200 * time.Millisecond)
	cl.mu.Lock()
	extended = held[1]
	cl.mu.Unlock()
	cl.note("one request: nack %s (deadline 0), extend %s (deadline 60)", held[0].String()[:8], held[1].String()[:8])
	cl.settle(held[:1]) // the client gives up the nacked one only
	if err := st.Send(&pubsubpb.StreamingPullRequest{ModifyDeadlineAckIds: []string{held[0].String(), held[1].String()}, ModifyDeadlineSeconds: []int32{0, 60}}); err != nil {
		return nil, err
	}
	time.Sleep(1500 * time.Millisecond)
	select {
	case id := <-resent:
		res.Violations = append(res.Violations, fmt.Sprintf("lease-violated: delivery %s, whose deadline the client had just extended by 60 s, was sent again within 1.5 s", id))
	default:
	}
	cl.mu.Lock()
	res.Violations = append(res.Violations, cl.viol...)
	res.Events = cl.events
	cl.mu.Unlock()
	res.Sends = cl.nsends()
	return res, nil
}

// runBigMessage: a message of 3 MiB becomes deliverable while the client (limits 10 messages /
// 10 MiB) holds one small message: it fits the client's remaining budget and must be sent (C11:
// no stall with capacity and a deliverable message).
func runBigMessage() (*streamResult, error) {
	ctx := context.Background()
	e, err := NewEnv(true)
	if err != nil {
		return nil, err
	}
	defer e.Close()
	maxB := 10 * 1024 * 1024
	res := &streamResult{Scenario: "big-message", MaxM: 10, MaxB: maxB}
	topic, subName := "projects/p/topics/bm", "projects/p/subscriptions/bm"
	if err := streamSetup(e, topic, subName, [][]byte{sizedPayload(10)}); err != nil {
		return nil, err
	}
	d0, _ := e.dumpR(ctx)
	sub := d0.subByName(subName)
	cl := &streamClient{out: map[uuid.UUID]int{}, maxM: 10, maxB: maxB}
	conn := &scriptConn{in: make(chan *actions.MessageStreamRequest), closed: make(chan struct{}), cl: cl}
	sctx, cancel := context.WithCancel(ctx)
	ms := &actions.MessageStreamer{Client: e.Client, SubscriptionID: &sub.ID, SubscriptionName: subName, AutomaticNack: true}
	done := make(chan error, 1)
	go func() { done <- ms.Go(sctx, conn) }()
	dl := &directLink{conn, cancel, done}
	defer dl.close()
	if err := dl.flow(10, maxB); err != nil {
		return nil, err
	}
	deadline := time.Now().Add(3 * time.Second)
	for cl.nsends() < 1 && time.Now().Before(deadline) {
		time.Sleep(10 * time.Millisecond)
	}
	if cl.nsends() != 1 {
		return nil, fmt.Errorf("big-message: the small message was not delivered")
	}
	d, _ := e.dumpR(ctx)
	if o, err := e.Exec(ctx, &Op{Kind: "Publish", Name: topic, Msgs: []PubMsg{{Data: sizedPayload(3 * 1024 * 1024)}}}, d); err != nil || o.Resp.Kind != "ids" {
		return nil, fmt.Errorf("big-message: publish: %v", err)
	}
	cl.note("published 3 MiB while holding 1 small message (limits 10 messages / 10 MiB)")
	deadline = time.Now().Add(4 * time.Second)
	for cl.nsends() < 2 && time.Now().Before(deadline) {
		time.Sleep(20 * time.Millisecond)
	}
	if cl.nsends() < 2 {
		res.Violations = append(res.Violations, "stall: a 3 MiB message became deliverable while the client held one 10-byte message of its 10 messages / 10 MiB budget, and was not sent within 4 s")
	}
	cl.mu.Lock()
	res.Violations = append(res.Violations, cl.viol...)
	res.Events = cl.events
	cl.mu.Unlock()
	res.Sends = cl.nsends()
	return res, nil
}
