package main

// C19: HTTP push.
//   push-conn: the push connection (actions.httpPushStreamConn, reached through the verif
//     hook actions.VerifNewPushConn) driven one batch at a time against a scripted HTTP
//     endpoint: every Receive() is compared with Push.v (classification of the final
//     status / transport error, adaptive window, FlowControl message) and every request
//     body with the envelope the message calls for (base64 by Base64.v).
//   push-e2e: the production push streamer (actions.NewHttpPusher + MessageStreamer) on a
//     real database against the scripted endpoint: envelope fidelity of every request,
//     success => completed and never pushed again, anything else => not completed and
//     pushed again after the backoff as the next attempt, window and concurrency bounds.

import (
	"bytes"
	"context"
	"encoding/base64"
	"encoding/json"
	"flag"
	"fmt"
	"io"
	"math/rand"
	"net"
	"net/http"
	"net/http/httptest"
	"os"
	"path/filepath"
	"sort"
	"strings"
	"sync"
	"time"

	"github.com/google/uuid"

	"go.6river.tech/mmmbbb/actions"
)

type pushPlan struct {
	Status int           // final status to answer with
	Delay  time.Duration // before answering
	Drop   bool          // close the connection instead of answering (transport error)
	Hang   bool          // answer only after the client's timeout has passed (transport error of the timeout kind)
	Trunc  bool          // a complete status line and headers, then a body shorter than its Content-Length: the
	// status decides (a success status is a success whatever happens to the body)
}

type pushReqLog struct {
	Query     string
	User      string
	At        time.Time
	Done      time.Time
	Body      []byte
	MessageID string
	Plan      pushPlan
	InFlight  int
	Window    int
}

type pushEndpoint struct {
	mu       sync.Mutex
	srv      *httptest.Server
	plans    map[string][]pushPlan // message id -> plan per attempt (last one repeats)
	seen     map[string]int
	log      []*pushReqLog
	inFlight int
	maxIn    int
	window   func() int
	dflt     pushPlan
}

func newPushEndpoint() *pushEndpoint {
	ep := &pushEndpoint{plans: map[string][]pushPlan{}, seen: map[string]int{}, dflt: pushPlan{Status: 200}}
	ep.srv = httptest.NewServer(http.HandlerFunc(ep.handle))
	return ep
}

func (ep *pushEndpoint) handle(w http.ResponseWriter, r *http.Request) {
	body, _ := io.ReadAll(r.Body)
	var env struct {
		Message struct {
			MessageId string `json:"messageId"`
		} `json:"message"`
	}
	_ = json.Unmarshal(body, &env)
	ep.mu.Lock()
	id := env.Message.MessageId
	n := ep.seen[id]
	ep.seen[id] = n + 1
	plan := ep.dflt
	if ps := ep.plans[id]; len(ps) > 0 {
		if n < len(ps) {
			plan = ps[n]
		} else {
			plan = ps[len(ps)-1]
		}
	}
	ep.inFlight++
	if ep.inFlight > ep.maxIn {
		ep.maxIn = ep.inFlight
	}
	l := &pushReqLog{At: time.Now(), Body: body, MessageID: id, Plan: plan, InFlight: ep.inFlight, Query: r.URL.RawQuery}
	if u, _, ok := r.BasicAuth(); ok {
		l.User = u
	}
	if ep.window != nil {
		l.Window = ep.window()
	}
	ep.log = append(ep.log, l)
	ep.mu.Unlock()
	if plan.Delay > 0 {
		time.Sleep(plan.Delay)
	}
	if plan.Hang {
		select {
		case <-r.Context().Done(): // the client gave up
		case <-time.After(3 * time.Second):
		}
	}
	ep.mu.Lock()
	ep.inFlight--
	l.Done = time.Now()
	ep.mu.Unlock()
	if plan.Drop {
		if hj, ok := w.(http.Hijacker); ok {
			if c, _, err := hj.Hijack(); err == nil {
				if tc, ok := c.(*net.TCPConn); ok {
					tc.SetLinger(0)
				}
				c.Close()
				return
			}
		}
	}
	if plan.Trunc && plan.Status != 204 {
		if hj, ok := w.(http.Hijacker); ok {
			if c, buf, err := hj.Hijack(); err == nil {
				fmt.Fprintf(buf, "HTTP/1.1 %d %s\r\nContent-Type: text/plain\r\nContent-Length: 64\r\nConnection: close\r\n\r\npartial", plan.Status, http.StatusText(plan.Status))
				buf.Flush()
				c.Close()
				return
			}
		}
	}
	w.WriteHeader(plan.Status)
}

func (ep *pushEndpoint) close() { ep.srv.Close() }

// ---------------------------------------------------------------- envelope

type pushEnvelope struct {
	Message struct {
		Attributes  map[string]string `json:"attributes"`
		Data        string            `json:"data"`
		MessageId   string            `json:"messageId"`
		OrderingKey string            `json:"orderingKey"`
		PublishTime string            `json:"publishTime"`
	} `json:"message"`
	Subscription    string `json:"subscription"`
	DeliveryAttempt *int   `json:"deliveryAttempt"`
}

type wantEnvelope struct {
	Payload            []byte // bytes the message's data must decode to
	PayloadIsJSONValue bool   // compare as JSON value (stored form is compacted) instead of bytes
	Attrs              map[string]string
	MessageID          string
	Key                string
	Published          time.Time
	Sub                string
	Attempt            int
}

// checkEnvelope returns "" when the request body is the documented wrapped envelope of the message
func checkEnvelope(body []byte, w wantEnvelope) (string, []byte, string) {
	var env pushEnvelope
	dec := json.NewDecoder(bytes.NewReader(body))
	dec.DisallowUnknownFields()
	if err := dec.Decode(&env); err != nil {
		return "body is not the wrapped envelope: " + err.Error(), nil, ""
	}
	data, err := base64.StdEncoding.DecodeString(env.Message.Data)
	if err != nil {
		return "message.data is not standard base64: " + err.Error(), nil, env.Message.Data
	}
	if w.PayloadIsJSONValue {
		if canonJSON(data) != canonJSON(w.Payload) {
			return fmt.Sprintf("message.data decodes to %q, the payload is %q", data, w.Payload), data, env.Message.Data
		}
	} else if !bytes.Equal(data, w.Payload) {
		return fmt.Sprintf("message.data decodes to %q, the payload is %q", data, w.Payload), data, env.Message.Data
	}
	wa := w.Attrs
	if wa == nil {
		wa = map[string]string{}
	}
	ga := env.Message.Attributes
	if ga == nil {
		ga = map[string]string{}
	}
	if fmt.Sprint(sortedMap(ga)) != fmt.Sprint(sortedMap(wa)) {
		return fmt.Sprintf("attributes %v, published %v", ga, wa), data, env.Message.Data
	}
	if env.Message.MessageId != w.MessageID {
		return fmt.Sprintf("messageId %s, expected %s", env.Message.MessageId, w.MessageID), data, env.Message.Data
	}
	if env.Message.OrderingKey != w.Key {
		return fmt.Sprintf("orderingKey %q, expected %q", env.Message.OrderingKey, w.Key), data, env.Message.Data
	}
	pt, err := time.Parse(time.RFC3339Nano, env.Message.PublishTime)
	if err != nil || !pt.Equal(w.Published) {
		return fmt.Sprintf("publishTime %q, expected %s", env.Message.PublishTime, w.Published.Format(time.RFC3339Nano)), data, env.Message.Data
	}
	if env.Subscription != w.Sub {
		return fmt.Sprintf("subscription %q, expected %q", env.Subscription, w.Sub), data, env.Message.Data
	}
	if env.DeliveryAttempt == nil || *env.DeliveryAttempt != w.Attempt {
		got := -1
		if env.DeliveryAttempt != nil {
			got = *env.DeliveryAttempt
		}
		return fmt.Sprintf("deliveryAttempt %d, expected %d", got, w.Attempt), data, env.Message.Data
	}
	return "", data, env.Message.Data
}

func coqBytes(b []byte) string {
	var sb strings.Builder
	sb.WriteString("[")
	for i, x := range b {
		if i > 0 {
			sb.WriteString("; ")
		}
		fmt.Fprintf(&sb, "%d", x)
	}
	sb.WriteString("]%N")
	return sb.String()
}

var pushPayloads = [][]byte{
	[]byte(`{}`), []byte(`{"a":1}`), []byte(`"???>>>~~~"`), []byte(`{"k":"~~~?>"}`), []byte(`"日本語 é ü"`), []byte(`[1,2,3]`),
	[]byte(`{"html":"<b>&amp;</b>"}`), []byte(`12345678901234567890`), []byte(`"a"`), []byte(`"ab"`), []byte(`"abc"`), []byte(`null`),
	[]byte(`{"deep":[[[{"x":null}]]],"s":"ÿþ>?"}`), []byte(`"` + strings.Repeat("x?", 40) + `"`),
}

// ---------------------------------------------------------------- push-conn

type connBatch struct {
	Err    bool    `json:"transport_error"`
	Status int     `json:"status"`
	DurNS  int64   `json:"dur_ns"`
	K      int     `json:"k"`
	Ack    bool    `json:"returned_as_ack"`
	W      int     `json:"window_after"`
	FC     *[2]int `json:"flow_control,omitempty"`
}

type pushProblem struct {
	Key    string      `json:"key"`
	Detail string      `json:"detail"`
	Seq    int         `json:"sequence"`
	Replay interface{} `json:"replay"`
}

func runPushConnSeq(seed int64, nBatches, nSlow int, statuses []int, ramp int) ([]connBatch, [][2][]byte, []pushProblem, error) {
	r := rand.New(rand.NewSource(seed))
	ep := newPushEndpoint()
	defer ep.close()
	subName := "projects/p/subscriptions/push"
	vc := actions.VerifNewPushConn(subName, uuid.New(), ep.srv.URL+"/push", nil)
	conn := vc.Conn()
	ep.window = func() int { return vc.Window().MaxMessages }
	ctx, cancel := context.WithCancel(context.Background())
	defer cancel()
	var batches []connBatch
	var b64 [][2][]byte
	var probs []pushProblem
	slowLeft := nSlow
	si := 0
	for b := 0; b < nBatches; b++ {
		k := 1
		if r.Float64() < 0.4 {
			k = 2 + r.Intn(9) // up to the queue capacity of 10
		}
		plan := pushPlan{Status: 200}
		switch x := r.Float64(); {
		case b < ramp:
			// fast successes in full batches: drives the window to its cap of 1000
			k = 10
		case si < len(statuses):
			plan.Status = statuses[si]
			si++
			k = 1
		case x < 0.45:
			plan.Status = []int{200, 201, 202, 204}[r.Intn(4)]
		case x < 0.55 && slowLeft > 0:
			plan.Status = []int{200, 204}[r.Intn(2)]
			plan.Delay = 1150 * time.Millisecond
			slowLeft--
		case x < 0.85:
			plan.Status = []int{203, 205, 206, 300, 301, 304, 400, 401, 403, 404, 408, 409, 410, 429, 499, 500, 501, 502, 503, 504, 599}[r.Intn(21)]
		default:
			plan.Drop = true
		}
		before := len(ep.log)
		wants := map[string]wantEnvelope{}
		var ids []uuid.UUID
		planOf := map[uuid.UUID]pushPlan{}
		// a mixed batch: slow successes and failures (and fast successes) finish together, so that
		// several queues are non-empty when Receive runs
		plans := make([]pushPlan, k)
		for i := range plans {
			plans[i] = plan
		}
		if b >= ramp && si > len(statuses)-1 && k >= 3 && slowLeft > 0 && r.Float64() < 0.5 {
			slowLeft--
			for i := range plans {
				switch i % 3 {
				case 0:
					plans[i] = pushPlan{Status: 200, Delay: 1150 * time.Millisecond}
				case 1:
					plans[i] = pushPlan{Status: 503, Delay: 1150 * time.Millisecond}
				default:
					plans[i] = pushPlan{Status: 204, Delay: 1150 * time.Millisecond}
				}
			}
		}
		for i := 0; i < k; i++ {
			d := &actions.SubscriptionMessageDelivery{ID: uuid.New(), MessageID: uuid.New(),
				PublishedAt: time.Unix(1700000000+r.Int63n(1e6), r.Int63n(1e9)).UTC(), NumAttempts: 1 + r.Intn(5),
				Payload: json.RawMessage(pushPayloads[r.Intn(len(pushPayloads))])}
			if r.Float64() < 0.6 {
				d.Attributes = map[string]string{}
				for j := r.Intn(3); j >= 0; j-- {
					d.Attributes[attrNames[r.Intn(len(attrNames))]] = attrValues[r.Intn(len(attrValues))]
				}
			}
			key := ""
			if r.Float64() < 0.5 {
				key = []string{"k1", "k 2", "ключ"}[r.Intn(3)]
				d.OrderKey = &key
			}
			ep.mu.Lock()
			ep.plans[d.MessageID.String()] = []pushPlan{plans[i]}
			ep.mu.Unlock()
			planOf[d.ID] = plans[i]
			wants[d.MessageID.String()] = wantEnvelope{Payload: d.Payload, Attrs: d.Attributes, MessageID: d.MessageID.String(), Key: key,
				Published: d.PublishedAt, Sub: subName, Attempt: d.NumAttempts}
			ids = append(ids, d.ID)
			if err := conn.Send(ctx, d); err != nil {
				return nil, nil, nil, err
			}
		}
		// wait until all k pushes have finished and sit in a queue
		deadline := time.Now().Add(10 * time.Second)
		for {
			f, s, n := vc.Queued()
			if f+s+n >= k {
				break
			}
			if time.Now().After(deadline) {
				return nil, nil, nil, fmt.Errorf("pushes did not finish: %d of %d queued", f+s+n, k)
			}
			time.Sleep(2 * time.Millisecond)
		}
		// Receive until every push of the batch came back; each Receive returns one kind
		var got []uuid.UUID
		for len(got) < k {
			rctx, rcancel := context.WithTimeout(ctx, 5*time.Second)
			req, err := conn.Receive(rctx)
			rcancel()
			if err != nil {
				return nil, nil, nil, fmt.Errorf("Receive with %d of %d pushes returned: %w", len(got), k, err)
			}
			members := append(append([]uuid.UUID(nil), req.Ack...), req.Nack...)
			if len(members) == 0 {
				return nil, nil, nil, fmt.Errorf("Receive returned neither acks nor nacks")
			}
			p0 := planOf[members[0]]
			cb := connBatch{Err: p0.Drop, Status: p0.Status, DurNS: int64(p0.Delay), K: len(members), Ack: len(req.Ack) > 0, W: vc.Window().MaxMessages}
			if req.FlowControl != nil {
				cb.FC = &[2]int{req.FlowControl.MaxMessages, req.FlowControl.MaxBytes}
			}
			batches = append(batches, cb)
			for _, id := range members {
				pi, known := planOf[id]
				succ := func(p pushPlan) bool {
					return !p.Drop && (p.Status == 200 || p.Status == 201 || p.Status == 202 || p.Status == 204)
				}
				if !known || succ(pi) != succ(p0) || (pi.Delay >= time.Second) != (p0.Delay >= time.Second) || (len(req.Ack) > 0 && len(req.Nack) > 0) {
					probs = append(probs, pushProblem{Key: "receive-mixes-kinds", Detail: fmt.Sprintf("batch %d: one Receive returned ack %d / nack %d ids whose pushes ended differently (%s vs %s)",
						b, len(req.Ack), len(req.Nack), planStr(pi), planStr(p0)), Replay: cb})
					break
				}
			}
			got = append(got, members...)
		}
		sort.Slice(got, func(i, j int) bool { return uuidLess(got[i], got[j]) })
		sort.Slice(ids, func(i, j int) bool { return uuidLess(ids[i], ids[j]) })
		if fmt.Sprint(got) != fmt.Sprint(ids) {
			probs = append(probs, pushProblem{Key: "receive-ids", Detail: fmt.Sprintf("batch %d: Receive returned %v for pushes %v", b, got, ids)})
		}
		cb := batches[len(batches)-1]
		// the envelopes of this batch
		ep.mu.Lock()
		logs := append([]*pushReqLog(nil), ep.log[before:]...)
		ep.mu.Unlock()
		if len(logs) != k {
			probs = append(probs, pushProblem{Key: "request-count", Detail: fmt.Sprintf("batch %d: %d requests for %d pushes", b, len(logs), k), Replay: cb})
		}
		for _, l := range logs {
			w, ok := wants[l.MessageID]
			if !ok {
				probs = append(probs, pushProblem{Key: "envelope", Detail: "request for an unknown message id " + l.MessageID, Replay: string(l.Body)})
				continue
			}
			why, data, enc := checkEnvelope(l.Body, w)
			if why != "" {
				probs = append(probs, pushProblem{Key: "envelope", Detail: why, Replay: map[string]interface{}{"body": string(l.Body), "payload": string(w.Payload)}})
			}
			if data != nil || enc != "" {
				b64 = append(b64, [2][]byte{[]byte(w.Payload), []byte(enc)})
			}
		}
	}
	return batches, b64, probs, nil
}

func cmdPushConn(args []string) error {
	fs := flag.NewFlagSet("push-conn", flag.ExitOnError)
	seed := fs.Int64("seed", 1, "")
	n := fs.Int("n", 8, "sequences")
	batches := fs.Int("batches", 60, "Receive calls per sequence")
	slow := fs.Int("slow", 2, "slow (>= 1 s) batches per sequence")
	allStatus := fs.Bool("all-status", false, "first sequence walks every final status 200..599")
	out := fs.String("out", "", "")
	fs.Parse(args)
	if *out == "" {
		return fmt.Errorf("-out required")
	}
	os.MkdirAll(*out, 0o755)
	quietLogging()
	type seqRes struct {
		b     []connBatch
		b64   [][2][]byte
		probs []pushProblem
		err   error
	}
	res := make([]seqRes, *n)
	var wg sync.WaitGroup
	for i := 0; i < *n; i++ {
		wg.Add(1)
		go func(i int) {
			defer wg.Done()
			var st []int
			nb := *batches
			if i == 0 {
				// the status sweep
				if *allStatus {
					for s := 200; s <= 599; s++ {
						st = append(st, s)
					}
				} else {
					st = []int{200, 201, 202, 203, 204, 205, 206, 207, 226, 299, 300, 301, 302, 303, 304, 307, 308, 400, 401, 403, 404, 408, 409, 410, 418, 429, 451, 499, 500, 501, 502, 503, 504, 511, 599}
				}
				nb += len(st)
			}
			ramp := 0
			if i == 1 {
				ramp = 104 // 1 + 104*10 > 1000: the cap is reached, then random traffic brings it down again
				nb += ramp
			}
			r := &res[i]
			r.b, r.b64, r.probs, r.err = runPushConnSeq(*seed*7919+int64(i), nb, *slow, st, ramp)
			for j := range r.probs {
				r.probs[j].Seq = i
			}
		}(i)
	}
	wg.Wait()
	var sb strings.Builder
	sb.WriteString("From MB Require Import Base Push Base64 PushCheck.\nOpen Scope list_scope.\nOpen Scope Z_scope.\n\n")
	total, acks, nacks, b64n := 0, 0, 0, 0
	var probs []pushProblem
	statusSeen := map[int]bool{}
	kinds := map[string]int{}
	for i, r := range res {
		if r.err != nil {
			return fmt.Errorf("sequence %d: %w", i, r.err)
		}
		probs = append(probs, r.probs...)
		fmt.Fprintf(&sb, "Definition s%d : list pobs := [\n", i)
		for j, b := range r.b {
			if j > 0 {
				sb.WriteString(";\n")
			}
			fc := "None"
			if b.FC != nil {
				fc = fmt.Sprintf("(Some (%d, %d))", b.FC[0], b.FC[1])
			}
			fmt.Fprintf(&sb, "  mkPobs %s %d %d %d %s %d %s", coqBool(b.Err), b.Status, b.DurNS, b.K, coqBool(b.Ack), b.W, fc)
			total++
			if b.Ack {
				acks++
			} else {
				nacks++
			}
			if !b.Err {
				statusSeen[b.Status] = true
			}
			switch {
			case b.Err:
				kinds["transport-error"]++
			case b.DurNS > 0:
				kinds["slow"]++
			case b.Ack:
				kinds["fast-success"]++
			default:
				kinds["failure-status"]++
			}
		}
		fmt.Fprintf(&sb, "\n].\nDefinition bad%d := Eval vm_compute in push_check s%d.\nPrint bad%d.\n", i, i, i)
		fmt.Fprintf(&sb, "Definition e%d : list (list N * list N) := [\n", i)
		for j, x := range r.b64 {
			if j > 0 {
				sb.WriteString(";\n")
			}
			fmt.Fprintf(&sb, "  (%s, %s)", coqBytes(x[0]), coqBytes(x[1]))
			b64n++
		}
		fmt.Fprintf(&sb, "\n].\nDefinition badenc%d := Eval vm_compute in b64_check e%d.\nPrint badenc%d.\n\n", i, i, i)
	}
	if err := os.WriteFile(filepath.Join(*out, "push_conn.v"), []byte(sb.String()), 0o644); err != nil {
		return err
	}
	var sample []connBatch
	if len(res) > 0 && len(res[0].b) > 0 {
		sample = res[0].b[:min(6, len(res[0].b))]
	}
	all := map[string]interface{}{}
	for i, r := range res {
		all[fmt.Sprint(i)] = r.b
	}
	writeJSON(filepath.Join(*out, "push_conn_batches.json"), all)
	return writeJSON(filepath.Join(*out, "push_conn.json"), map[string]interface{}{
		"sequences": len(res), "receives": total, "ack_batches": acks, "nack_batches": nacks, "envelopes": b64n,
		"distinct_final_statuses": len(statusSeen), "kinds": kinds, "problems": probs, "samples": sample})
}

// ---------------------------------------------------------------- push-e2e

type e2eMsg struct {
	Payload []byte
	Attrs   map[string]string
	Key     string
	Plan    []pushPlan
	ID      uuid.UUID
}

type e2eResult struct {
	Overlapping int           `json:"overlapping_attempts"`
	Scenario    string        `json:"scenario"`
	Messages    int           `json:"messages"`
	Requests    int           `json:"requests"`
	Acked       int           `json:"success_responses"`
	Nacked      int           `json:"failure_responses"`
	MaxInFlight int           `json:"max_in_flight"`
	MaxWindow   int           `json:"max_window"`
	MinGapMS    int64         `json:"min_redelivery_gap_ms"`
	Problems    []pushProblem `json:"problems"`
	AckCases    []string      `json:"-"`
	B64         [][2][]byte   `json:"-"`
	WallMS      int64         `json:"wall_ms"`
}

func runPushE2E(seed int64, scenario string) (*e2eResult, error) {
	r := rand.New(rand.NewSource(seed))
	ctx := context.Background()
	e, err := NewEnv(true)
	if err != nil {
		return nil, err
	}
	defer e.Close()
	ep := newPushEndpoint()
	defer ep.close()
	start := time.Now()
	res := &e2eResult{Scenario: scenario, MinGapMS: -1}
	topic, subName := "projects/p/topics/push", "projects/p/subscriptions/push"
	minB := 300 * time.Millisecond
	maxB := 2 * time.Second
	pre, _ := e.Dump(ctx)
	if _, err := e.Exec(ctx, &Op{Kind: "CreateTopic", Name: topic}, pre); err != nil {
		return nil, err
	}
	ordered := scenario == "ordered"
	q := &SubReq{Name: subName, Topic: topic, Retry: &[2]*time.Duration{&minB, &maxB}, Ordered: ordered,
		Push: &PushReq{Endpoint: ep.srv.URL + "/push"}}
	if o, err := e.Exec(ctx, &Op{Kind: "CreateSub", Sub: q}, pre); err != nil || o.Resp.Kind == "err" {
		return nil, fmt.Errorf("create push subscription: %v %v", err, o.Resp)
	}
	// scenario dead-lettered: the messages reach the push subscription as dead-letter forwards
	// of a pull subscription on another topic (published there, leased once, lease lapsed,
	// dead-lettered by the next pull): the envelope still carries the ORIGINAL message -- id,
	// data, attributes, publish time
	pubTopic := topic
	srcSub := "projects/p/subscriptions/src"
	if scenario == "dead-lettered" {
		pubTopic = "projects/p/topics/src"
		if _, err := e.Exec(ctx, &Op{Kind: "CreateTopic", Name: pubTopic}, pre); err != nil {
			return nil, err
		}
		short := 200 * time.Millisecond
		sq := &SubReq{Name: srcSub, Topic: pubTopic, Retry: &[2]*time.Duration{&short, nil}, DL: dl(topic, 1)}
		if o, err := e.Exec(ctx, &Op{Kind: "CreateSub", Sub: sq}, pre); err != nil || o.Resp.Kind == "err" {
			return nil, fmt.Errorf("create source subscription: %v %v", err, o.Resp)
		}
	}
	// the messages and what the endpoint answers, per attempt
	fail := func() pushPlan {
		if r.Float64() < 0.25 {
			return pushPlan{Drop: true}
		}
		return pushPlan{Status: []int{203, 205, 206, 301, 304, 400, 404, 408, 429, 500, 502, 503, 599}[r.Intn(13)], Delay: time.Duration(r.Intn(40)) * time.Millisecond}
	}
	ok := func() pushPlan {
		return pushPlan{Status: []int{200, 201, 202, 204}[r.Intn(4)], Delay: time.Duration(r.Intn(60)) * time.Millisecond, Trunc: r.Intn(5) == 0}
	}
	var msgs []*e2eMsg
	n := 14
	switch scenario {
	case "all-success":
		n = 40
	case "slow":
		n = 8
	case "timeout":
		n = 6
	}
	for i := 0; i < n; i++ {
		m := &e2eMsg{Payload: pushPayloads[r.Intn(len(pushPayloads))]}
		if r.Float64() < 0.6 {
			m.Attrs = map[string]string{attrNames[r.Intn(len(attrNames))]: attrValues[r.Intn(len(attrValues))], "i": fmt.Sprint(i)}
		}
		if ordered || r.Float64() < 0.3 {
			m.Key = []string{"k1", "k2"}[r.Intn(2)]
		}
		switch scenario {
		case "all-success":
			m.Plan = []pushPlan{ok()}
		case "slow":
			p := ok()
			if i%2 == 0 {
				p.Delay = 1100 * time.Millisecond
			}
			m.Plan = []pushPlan{p}
		case "timeout":
			// the endpoint accepts the request and does not answer within the client's timeout
			// (400 ms): a transport error like any other -- the message is pushed again
			if i%2 == 0 {
				m.Plan = []pushPlan{{Hang: true, Drop: true}, ok()}
			} else {
				m.Plan = []pushPlan{ok()}
			}
		default:
			for k := r.Intn(3); k > 0; k-- {
				m.Plan = append(m.Plan, fail())
			}
			m.Plan = append(m.Plan, ok())
		}
		msgs = append(msgs, m)
	}
	// publish (batches of up to 3) and tell the endpoint the plans
	for i := 0; i < len(msgs); {
		k := 1 + r.Intn(3)
		if i+k > len(msgs) {
			k = len(msgs) - i
		}
		op := &Op{Kind: "Publish", Name: pubTopic}
		for _, m := range msgs[i : i+k] {
			op.Msgs = append(op.Msgs, PubMsg{Data: m.Payload, Attrs: m.Attrs, Key: m.Key})
		}
		d, _ := e.Dump(ctx)
		o, err := e.Exec(ctx, op, d)
		if err != nil || o.Resp.Kind != "ids" {
			return nil, fmt.Errorf("publish: %v %+v", err, o.Resp)
		}
		ep.mu.Lock()
		for j, m := range msgs[i : i+k] {
			m.ID = o.Resp.IDs[j]
			ep.plans[m.ID.String()] = m.Plan
		}
		ep.mu.Unlock()
		i += k
	}
	if scenario == "dead-lettered" {
		time.Sleep(300 * time.Millisecond) // publish times and dead-letter times must differ visibly
		d, _ := e.Dump(ctx)
		if o, err := e.Exec(ctx, &Op{Kind: "Pull", Name: srcSub, Max: 1000}, d); err != nil || len(o.Resp.Pulled) != len(msgs) {
			return nil, fmt.Errorf("dead-lettered: first pull of the source subscription: %v %+v", err, o.Resp)
		}
		if err := e.Advance(2 * time.Second); err != nil {
			return nil, err
		}
		d, _ = e.Dump(ctx)
		if o, err := e.Exec(ctx, &Op{Kind: "Pull", Name: srcSub, Max: 1000}, d); err != nil || o.Resp.Kind == "err" {
			return nil, fmt.Errorf("dead-lettered: second pull of the source subscription: %v %+v", err, o.Resp)
		}
	}
	d0, err := e.Dump(ctx)
	if err != nil {
		return nil, err
	}
	sub := d0.subByName(subName)
	var hc *http.Client
	if scenario == "timeout" {
		hc = &http.Client{Timeout: 400 * time.Millisecond}
	}
	// (the configured endpoint carries credentials the way push endpoints do: a query token and userinfo)
	pushURL := strings.Replace(ep.srv.URL, "http://", "http://pusher:s3cret@", 1) + "/push?token=abc123&x=1"
	pusher := actions.NewHttpPusher(subName, sub.ID, pushURL, hc, e.Client)
	ep.window = func() int { return pusher.CurrentFlowControl().MaxMessages }
	pctx, pcancel := context.WithCancel(ctx)
	done := make(chan error, 1)
	go func() { done <- pusher.Go(pctx) }()
	// window sampler
	minW, maxW := 1<<30, 0
	stopSample := make(chan struct{})
	var swg sync.WaitGroup
	swg.Add(1)
	go func() {
		defer swg.Done()
		for {
			select {
			case <-stopSample:
				return
			default:
			}
			w := pusher.CurrentFlowControl().MaxMessages
			if w < minW {
				minW = w
			}
			if w > maxW {
				maxW = w
			}
			time.Sleep(500 * time.Microsecond)
		}
	}()
	// wait until every message got its success answer and the rows are completed
	deadline := time.Now().Add(25 * time.Second)
	for {
		time.Sleep(50 * time.Millisecond)
		d, err := e.Dump(ctx)
		if err != nil {
			return nil, err
		}
		open := 0
		for _, x := range d.Dels {
			if x.Completed == nil {
				open++
			}
		}
		if open == 0 || time.Now().After(deadline) {
			break
		}
	}
	// stay a little longer: nothing may be pushed again after its success
	time.Sleep(700 * time.Millisecond)
	pcancel()
	select {
	case <-done:
	case <-time.After(5 * time.Second):
	}
	close(stopSample)
	swg.Wait()
	final, err := e.Dump(ctx)
	if err != nil {
		return nil, err
	}
	// ---- judge ----
	prob := func(key, detail string, replay interface{}) {
		res.Problems = append(res.Problems, pushProblem{Key: key, Detail: detail, Replay: replay})
	}
	byID := map[string]*e2eMsg{}
	for _, m := range msgs {
		byID[m.ID.String()] = m
	}
	ep.mu.Lock()
	logs := append([]*pushReqLog(nil), ep.log...)
	res.MaxInFlight = ep.maxIn
	ep.mu.Unlock()
	res.Messages, res.Requests, res.MaxWindow = len(msgs), len(logs), maxW
	perMsg := map[string][]*pushReqLog{}
	for _, l := range logs {
		perMsg[l.MessageID] = append(perMsg[l.MessageID], l)
	}
	for _, m := range msgs {
		ls := perMsg[m.ID.String()]
		row := final.msg(m.ID)
		var del *DelRow
		for i := range final.Dels {
			if final.Dels[i].Msg == m.ID && final.Dels[i].Sub == sub.ID {
				del = &final.Dels[i]
			}
		}
		if row == nil || del == nil {
			prob("rows-missing", "message or delivery row missing for "+m.ID.String(), nil)
			continue
		}
		if len(ls) == 0 {
			prob("never-pushed", fmt.Sprintf("deliverable message %s (%s) was never POSTed", m.ID, m.Payload), nil)
			continue
		}
		for a, l := range ls {
			want := wantEnvelope{Payload: m.Payload, PayloadIsJSONValue: true, Attrs: m.Attrs, MessageID: m.ID.String(), Key: m.Key,
				Published: e.ToReal(row.Published), Sub: subName, Attempt: a + 1}
			if l.Query != "token=abc123&x=1" || l.User != "pusher" {
				prob("wrong-endpoint", fmt.Sprintf("attempt %d of message %s was POSTed with query %q and user %q: the subscription's push endpoint is .../push?token=abc123&x=1 with userinfo pusher:...", a+1, m.ID, l.Query, l.User), nil)
			}
			why, data, enc := checkEnvelope(l.Body, want)
			if why != "" {
				prob("envelope", fmt.Sprintf("attempt %d of message %s: %s", a+1, m.ID, why), map[string]interface{}{"body": string(l.Body), "published_payload": string(m.Payload), "attrs": m.Attrs, "key": m.Key})
			}
			if data != nil {
				res.B64 = append(res.B64, [2][]byte{data, []byte(enc)})
			}
			success := !l.Plan.Drop && (l.Plan.Status == 200 || l.Plan.Status == 201 || l.Plan.Status == 202 || l.Plan.Status == 204)
			last := a == len(ls)-1
			if !last && ls[a+1].At.Before(l.Done) {
				// the next attempt started while this request was still unanswered: the lease lapsed
				// during a slow request (the pusher's lease renewal is best effort under load) and
				// the message was delivered twice -- allowed by at-least-once delivery; what became
				// of THIS answer cannot be told apart from the other attempt's: not judged
				res.Overlapping++
				continue
			}
			// what happened after this answer: pushed again? completed?
			ackedObserved := last && del.Completed != nil
			res.AckCases = append(res.AckCases, fmt.Sprintf("(%s, %d, %d, %s)", coqBool(l.Plan.Drop), l.Plan.Status, int64(l.Plan.Delay), coqBool(ackedObserved)))
			if success {
				res.Acked++
				if !last {
					prob("pushed-after-success", fmt.Sprintf("message %s was answered %d on attempt %d and pushed again %v later", m.ID, l.Plan.Status, a+1, ls[a+1].At.Sub(l.Done)),
						map[string]interface{}{"message": m.ID, "status": l.Plan.Status, "attempt": a + 1})
				} else if del.Completed == nil {
					prob("success-not-acked", fmt.Sprintf("message %s was answered %d on attempt %d but its delivery is not acknowledged", m.ID, l.Plan.Status, a+1), nil)
				}
			} else {
				res.Nacked++
				if last {
					if del.Completed != nil {
						prob("failure-acked", fmt.Sprintf("message %s was answered %s on attempt %d and yet acknowledged", m.ID, planStr(l.Plan), a+1), nil)
					} else {
						prob("not-pushed-again", fmt.Sprintf("message %s was answered %s on attempt %d and not pushed again within the run", m.ID, planStr(l.Plan), a+1), nil)
					}
				} else {
					gap := ls[a+1].At.Sub(l.Done)
					// backoff of attempt a+1 with min 300 ms: 300 ms * 1.1^(a+1), at most 2 s, no jitter below 0.5 s
					nom := exactNominal(i64p(int64(minB)), i64p(int64(maxB)), int64(a+1))
					if res.MinGapMS < 0 || gap.Milliseconds() < res.MinGapMS {
						res.MinGapMS = gap.Milliseconds()
					}
					if int64(gap) < nom-int64(60*time.Millisecond) {
						prob("pushed-before-backoff", fmt.Sprintf("message %s: attempt %d came %v after the failure answer of attempt %d, the backoff is %v", m.ID, a+2, gap, a+1, time.Duration(nom)), nil)
					}
				}
			}
		}
	}
	for id := range perMsg {
		if byID[id] == nil {
			prob("unknown-message", "a request for an unknown message id "+id, nil)
		}
	}
	if minW < 1 || maxW > 1000 {
		prob("window-out-of-range", fmt.Sprintf("flow control window observed between %d and %d", minW, maxW), nil)
	}
	for _, l := range logs {
		if l.InFlight > 1000 || (l.Window >= 1 && l.InFlight > maxW) {
			prob("too-many-concurrent", fmt.Sprintf("%d pushes in flight, the window never exceeded %d", l.InFlight, maxW), nil)
			break
		}
	}
	res.WallMS = time.Since(start).Milliseconds()
	return res, nil
}

func i64p(v int64) *int64 { return &v }

func planStr(p pushPlan) string {
	if p.Drop {
		return "with a transport error"
	}
	return fmt.Sprint(p.Status)
}

func cmdPushE2E(args []string) error {
	fs := flag.NewFlagSet("push-e2e", flag.ExitOnError)
	seed := fs.Int64("seed", 1, "")
	reps := fs.Int("reps", 1, "repetitions of each scenario")
	out := fs.String("out", "", "")
	fs.Parse(args)
	if *out == "" {
		return fmt.Errorf("-out required")
	}
	os.MkdirAll(*out, 0o755)
	scen := []string{"mixed", "mixed", "ordered", "all-success", "slow", "dead-lettered", "timeout"}
	var jobs []string
	for i := 0; i < *reps; i++ {
		jobs = append(jobs, scen...)
	}
	results := make([]*e2eResult, len(jobs))
	errs := make([]error, len(jobs))
	var wg sync.WaitGroup
	sem := make(chan struct{}, 8)
	for i, s := range jobs {
		wg.Add(1)
		go func(i int, s string) {
			defer wg.Done()
			sem <- struct{}{}
			defer func() { <-sem }()
			results[i], errs[i] = runPushE2E(*seed*104729+int64(i), s)
		}(i, s)
	}
	wg.Wait()
	var sb strings.Builder
	sb.WriteString("From MB Require Import Base Push Base64 PushCheck.\nOpen Scope list_scope.\nOpen Scope Z_scope.\n\n")
	tot := map[string]int{}
	var probs []pushProblem
	minGap := int64(-1)
	for i, r := range results {
		if errs[i] != nil {
			return fmt.Errorf("scenario %d (%s): %w", i, jobs[i], errs[i])
		}
		for j := range r.Problems {
			r.Problems[j].Seq = i
		}
		probs = append(probs, r.Problems...)
		tot["messages"] += r.Messages
		tot["requests"] += r.Requests
		tot["success_responses"] += r.Acked
		tot["failure_responses"] += r.Nacked
		if r.MaxInFlight > tot["max_in_flight"] {
			tot["max_in_flight"] = r.MaxInFlight
		}
		if r.MaxWindow > tot["max_window"] {
			tot["max_window"] = r.MaxWindow
		}
		if r.MinGapMS >= 0 && (minGap < 0 || r.MinGapMS < minGap) {
			minGap = r.MinGapMS
		}
		fmt.Fprintf(&sb, "Definition a%d : list (bool * Z * Z * bool) := [\n  %s\n].\nDefinition badack%d := Eval vm_compute in ack_check a%d.\nPrint badack%d.\n", i, strings.Join(r.AckCases, ";\n  "), i, i, i)
		fmt.Fprintf(&sb, "Definition e%d : list (list N * list N) := [\n", i)
		for j, x := range r.B64 {
			if j > 0 {
				sb.WriteString(";\n")
			}
			fmt.Fprintf(&sb, "  (%s, %s)", coqBytes(x[0]), coqBytes(x[1]))
		}
		fmt.Fprintf(&sb, "\n].\nDefinition badenc%d := Eval vm_compute in b64_check e%d.\nPrint badenc%d.\n\n", i, i, i)
	}
	if err := os.WriteFile(filepath.Join(*out, "push_e2e.v"), []byte(sb.String()), 0o644); err != nil {
		return err
	}
	return writeJSON(filepath.Join(*out, "push_e2e.json"), map[string]interface{}{
		"scenarios": jobs, "totals": tot, "min_redelivery_gap_ms": minGap, "problems": probs, "results": results})
}

func init() {
	subcmds["push-conn"] = cmdPushConn
	subcmds["push-e2e"] = cmdPushE2E
}
