package main

// C09: statement-level fault enumeration. For every mutating operation, in a prepared
// non-trivial state, the k-th driver call (BEGIN / exec / query / COMMIT) the operation
// issues is made to fail, for every k. Afterwards: the operation must have reported an
// error, the five tables must be exactly as before, no publish-waiter channel may have
// been closed, and a retry without fault must succeed with the effect the model predicts.

import (
	"context"
	"errors"
	"flag"
	"fmt"
	"os"
	"path/filepath"
	"reflect"
	"strings"
	"sync"
	"time"

	"github.com/google/uuid"

	"go.6river.tech/mmmbbb/actions"
)

type scenario struct {
	Name  string
	Setup func(e *Env, run func(*Op) *Obs) *Op
}

func mustIDs(o *Obs) []string {
	var out []string
	for _, p := range o.Resp.Pulled {
		out = append(out, p.Ack.String())
	}
	return out
}

func baseSetup(run func(*Op) *Obs, ordered bool, dl bool) {
	run(&Op{Kind: "CreateTopic", Name: "projects/p/topics/t0"})
	run(&Op{Kind: "CreateTopic", Name: "projects/p/topics/dl"})
	q := &SubReq{Name: "projects/p/subscriptions/s0", Topic: "projects/p/topics/t0", Ordered: ordered}
	if dl {
		q.DL = &struct {
			Topic string
			Max   int32
		}{"projects/p/topics/dl", 1}
	}
	run(&Op{Kind: "CreateSub", Sub: q})
	run(&Op{Kind: "CreateSub", Sub: &SubReq{Name: "projects/p/subscriptions/s1", Topic: "projects/p/topics/t0", Filter: "attributes:x"}})
	run(&Op{Kind: "CreateSub", Sub: &SubReq{Name: "projects/p/subscriptions/d0", Topic: "projects/p/topics/dl"}})
	run(&Op{Kind: "CreateSub", Sub: &SubReq{Name: "projects/p/subscriptions/d1", Topic: "projects/p/topics/dl", Ordered: true}})
}

func pub(n int, key string) *Op {
	op := &Op{Kind: "Publish", Name: "projects/p/topics/t0"}
	for i := 0; i < n; i++ {
		op.Msgs = append(op.Msgs, PubMsg{Data: []byte(fmt.Sprintf(`{"i":%d}`, i)), Attrs: map[string]string{"x": "v"}, Key: key})
	}
	return op
}

var scenarios = []scenario{
	{"publish-single", func(e *Env, run func(*Op) *Obs) *Op { baseSetup(run, false, false); return pub(1, "") }},
	{"publish-batch-ordered", func(e *Env, run func(*Op) *Obs) *Op {
		baseSetup(run, true, false)
		run(pub(1, "k"))
		return pub(3, "k")
	}},
	// a batch far larger than any internal chunk size: still one all-or-nothing request (the
	// statement positions are sampled: first, last, commit, and spread over the batch)
	{"publish-large", func(e *Env, run func(*Op) *Obs) *Op { baseSetup(run, false, false); return pub(150, "") }},
	{"create-topic", func(e *Env, run func(*Op) *Obs) *Op {
		baseSetup(run, false, false)
		return &Op{Kind: "CreateTopic", Name: "projects/p/topics/new"}
	}},
	{"create-subscription", func(e *Env, run func(*Op) *Obs) *Op {
		baseSetup(run, false, false)
		q := &SubReq{Name: "projects/p/subscriptions/new", Topic: "projects/p/topics/t0", Filter: "attributes:x"}
		q.DL = &struct {
			Topic string
			Max   int32
		}{"projects/p/topics/dl", 3}
		return &Op{Kind: "CreateSub", Sub: q}
	}},
	{"delete-topic-with-snapshot", func(e *Env, run func(*Op) *Obs) *Op {
		baseSetup(run, false, false)
		run(pub(2, ""))
		run(&Op{Kind: "CreateSnap", Name: "projects/p/snapshots/n0", Name2: "projects/p/subscriptions/s0"})
		return &Op{Kind: "DeleteTopic", Name: "projects/p/topics/t0"}
	}},
	{"delete-subscription", func(e *Env, run func(*Op) *Obs) *Op {
		baseSetup(run, false, false)
		run(pub(2, ""))
		return &Op{Kind: "DeleteSub", Name: "projects/p/subscriptions/s0"}
	}},
	{"ack", func(e *Env, run func(*Op) *Obs) *Op {
		baseSetup(run, true, false)
		run(pub(3, "k"))
		o := run(&Op{Kind: "Pull", Name: "projects/p/subscriptions/s0", Max: 10})
		o2 := run(&Op{Kind: "Pull", Name: "projects/p/subscriptions/s1", Max: 10})
		return &Op{Kind: "Ack", Name: "projects/p/subscriptions/s0", AckIDs: append(mustIDs(o), mustIDs(o2)...)}
	}},
	{"modack-zero-two-subscriptions", func(e *Env, run func(*Op) *Obs) *Op {
		baseSetup(run, false, false)
		run(pub(2, ""))
		o := run(&Op{Kind: "Pull", Name: "projects/p/subscriptions/s0", Max: 10})
		o2 := run(&Op{Kind: "Pull", Name: "projects/p/subscriptions/s1", Max: 10})
		return &Op{Kind: "ModAck", Name: "projects/p/subscriptions/s0", AckIDs: append(mustIDs(o), mustIDs(o2)...), Seconds: 0}
	}},
	{"modack-positive", func(e *Env, run func(*Op) *Obs) *Op {
		baseSetup(run, false, false)
		run(pub(2, ""))
		o := run(&Op{Kind: "Pull", Name: "projects/p/subscriptions/s0", Max: 10})
		return &Op{Kind: "ModAck", Name: "projects/p/subscriptions/s0", AckIDs: mustIDs(o), Seconds: 600}
	}},
	{"nack-with-dead-letter", func(e *Env, run func(*Op) *Obs) *Op {
		baseSetup(run, false, true)
		run(pub(2, "k"))
		o := run(&Op{Kind: "Pull", Name: "projects/p/subscriptions/s0", Max: 10})
		return &Op{Kind: "StreamAckNack", Nacks: mustIDs(o)}
	}},
	{"stream-ack", func(e *Env, run func(*Op) *Obs) *Op {
		baseSetup(run, false, false)
		run(pub(2, ""))
		o := run(&Op{Kind: "Pull", Name: "projects/p/subscriptions/s0", Max: 10})
		return &Op{Kind: "StreamAckNack", AckIDs: mustIDs(o)}
	}},
	{"stream-ack-and-nack", func(e *Env, run func(*Op) *Obs) *Op {
		// one client message on a stream carrying both acks and nacks: one transaction
		baseSetup(run, false, false)
		run(pub(3, ""))
		o := run(&Op{Kind: "Pull", Name: "projects/p/subscriptions/s0", Max: 10})
		ids := mustIDs(o)
		return &Op{Kind: "StreamAckNack", AckIDs: ids[:1], Nacks: ids[1:]}
	}},
	{"pull-nonempty", func(e *Env, run func(*Op) *Obs) *Op {
		baseSetup(run, false, false)
		run(pub(3, ""))
		return &Op{Kind: "Pull", Name: "projects/p/subscriptions/s0", Max: 2}
	}},
	{"pull-dead-lettering", func(e *Env, run func(*Op) *Obs) *Op {
		baseSetup(run, false, true)
		run(pub(2, "k"))
		run(&Op{Kind: "Pull", Name: "projects/p/subscriptions/s0", Max: 1})
		e.Advance(30 * time.Minute)
		return &Op{Kind: "Pull", Name: "projects/p/subscriptions/s0", Max: 5}
	}},
	{"pull-empty", func(e *Env, run func(*Op) *Obs) *Op {
		baseSetup(run, false, false)
		return &Op{Kind: "Pull", Name: "projects/p/subscriptions/s0", Max: 2}
	}},
	{"seek-time", func(e *Env, run func(*Op) *Obs) *Op {
		baseSetup(run, false, false)
		run(pub(2, ""))
		o := run(&Op{Kind: "Pull", Name: "projects/p/subscriptions/s0", Max: 1})
		run(&Op{Kind: "Ack", Name: "projects/p/subscriptions/s0", AckIDs: mustIDs(o)})
		run(pub(1, ""))
		return &Op{Kind: "SeekTime", Name: "projects/p/subscriptions/s0", Target: o.Lo - 1e9}
	}},
	{"create-snapshot-and-seek", func(e *Env, run func(*Op) *Obs) *Op {
		baseSetup(run, false, false)
		run(pub(3, ""))
		o := run(&Op{Kind: "Pull", Name: "projects/p/subscriptions/s0", Max: 1})
		run(&Op{Kind: "Ack", Name: "projects/p/subscriptions/s0", AckIDs: mustIDs(o)})
		run(&Op{Kind: "CreateSnap", Name: "projects/p/snapshots/n0", Name2: "projects/p/subscriptions/s0"})
		o2 := run(&Op{Kind: "Pull", Name: "projects/p/subscriptions/s0", Max: 5})
		run(&Op{Kind: "Ack", Name: "projects/p/subscriptions/s0", AckIDs: mustIDs(o2)})
		return &Op{Kind: "SeekSnap", Name: "projects/p/subscriptions/s0", Name2: "projects/p/snapshots/n0"}
	}},
	{"create-snapshot", func(e *Env, run func(*Op) *Obs) *Op {
		baseSetup(run, false, false)
		run(pub(3, ""))
		o := run(&Op{Kind: "Pull", Name: "projects/p/subscriptions/s0", Max: 1})
		run(&Op{Kind: "Ack", Name: "projects/p/subscriptions/s0", AckIDs: mustIDs(o)})
		return &Op{Kind: "CreateSnap", Name: "projects/p/snapshots/n0", Name2: "projects/p/subscriptions/s0", Labels: map[string]string{"a": "b"}}
	}},
	{"update-subscription", func(e *Env, run func(*Op) *Obs) *Op {
		baseSetup(run, false, false)
		q := &SubReq{Name: "projects/p/subscriptions/s0", Labels: map[string]string{"a": "b"}, Filter: "attributes:y", HasExp: true, TTL: dptr(time.Hour)}
		q.DL = &struct {
			Topic string
			Max   int32
		}{"projects/p/topics/dl", 2}
		return &Op{Kind: "UpdateSub", Sub: q, Paths: []string{"labels", "filter", "expiration_policy", "dead_letter_policy"}}
	}},
	{"dead-letter-sweep", func(e *Env, run func(*Op) *Obs) *Op {
		baseSetup(run, false, true)
		run(pub(2, "k"))
		run(&Op{Kind: "Pull", Name: "projects/p/subscriptions/s0", Max: 5})
		e.Advance(30 * time.Minute)
		return &Op{Kind: "Job", Job: "DeadLetterSweep", MaxN: 10}
	}},
	{"prune-completed-deliveries", func(e *Env, run func(*Op) *Obs) *Op {
		baseSetup(run, true, false)
		run(pub(3, "k"))
		o := run(&Op{Kind: "Pull", Name: "projects/p/subscriptions/s0", Max: 1})
		run(&Op{Kind: "Ack", Name: "projects/p/subscriptions/s0", AckIDs: mustIDs(o)})
		e.Advance(time.Minute)
		return &Op{Kind: "Job", Job: "PruneCompletedDeliveries", MaxN: 10, MinAge: time.Second}
	}},
	{"prune-expired-deliveries", func(e *Env, run func(*Op) *Obs) *Op {
		baseSetup(run, true, false)
		run(pub(2, "k"))
		e.Advance(8 * 24 * time.Hour)
		return &Op{Kind: "Job", Job: "PruneExpiredDeliveries", MaxN: 10}
	}},
	{"prune-completed-messages", func(e *Env, run func(*Op) *Obs) *Op {
		run(&Op{Kind: "CreateTopic", Name: "projects/p/topics/t0"})
		run(pub(2, ""))
		e.Advance(time.Minute)
		return &Op{Kind: "Job", Job: "PruneCompletedMessages", MaxN: 10, MinAge: time.Second}
	}},
	{"prune-deleted-subscription-chain", func(e *Env, run func(*Op) *Obs) *Op {
		baseSetup(run, false, false)
		run(pub(2, ""))
		run(&Op{Kind: "DeleteSub", Name: "projects/p/subscriptions/s0"})
		e.Advance(time.Minute)
		return &Op{Kind: "Job", Job: "PruneDeletedSubDeliveries", MaxN: 10, MinAge: time.Second}
	}},
	{"prune-deleted-subscriptions", func(e *Env, run func(*Op) *Obs) *Op {
		baseSetup(run, false, false)
		run(&Op{Kind: "DeleteSub", Name: "projects/p/subscriptions/s0"})
		e.Advance(time.Minute)
		return &Op{Kind: "Job", Job: "PruneDeletedSubs", MaxN: 10, MinAge: time.Second}
	}},
	{"prune-deleted-topics", func(e *Env, run func(*Op) *Obs) *Op {
		run(&Op{Kind: "CreateTopic", Name: "projects/p/topics/t0"})
		run(&Op{Kind: "CreateTopic", Name: "projects/p/topics/t1"})
		run(&Op{Kind: "DeleteTopic", Name: "projects/p/topics/t0"})
		run(&Op{Kind: "DeleteTopic", Name: "projects/p/topics/t1"})
		e.Advance(time.Minute)
		return &Op{Kind: "Job", Job: "PruneDeletedTopics", MaxN: 10, MinAge: time.Second}
	}},
	{"expire-subscriptions", func(e *Env, run func(*Op) *Obs) *Op {
		baseSetup(run, false, false)
		e.Advance(40 * 24 * time.Hour)
		return &Op{Kind: "Job", Job: "ExpireSubs", MaxN: 10}
	}},
}

var errInjected = errors.New("verif: injected storage fault")

type faultResult struct {
	Scenario   string `json:"scenario"`
	K          int    `json:"k"`
	Of         int    `json:"of"`
	Call       string `json:"call"`
	Swallowed  bool   `json:"swallowed,omitempty"`
	Mode       string `json:"mode"`
	Errored    bool   `json:"errored"`
	Unchanged  bool   `json:"unchanged"`
	OnlyHeart  bool   `json:"only_heartbeat"`
	Woken      int    `json:"woken"`
	RetryOK    bool   `json:"retry_ok"`
	Diff       string `json:"diff,omitempty"`
	RetryLabel string `json:"retry_label,omitempty"`
}

func cloneOp(op *Op) *Op {
	c := *op
	c.Msgs = append([]PubMsg(nil), op.Msgs...)
	return &c
}

// dumpsEqual compares two dumps; ignoreHeartbeat leaves subscriptions.expires_at out.
func dumpsEqual(a, b *Dump, ignoreHeartbeat bool) (bool, string) {
	aa, bb := *a, *b
	if ignoreHeartbeat {
		aa.Subs = append([]SubRow(nil), a.Subs...)
		bb.Subs = append([]SubRow(nil), b.Subs...)
		for i := range aa.Subs {
			aa.Subs[i].Expires = 0
		}
		for i := range bb.Subs {
			bb.Subs[i].Expires = 0
		}
	}
	switch {
	case !reflect.DeepEqual(aa.Topics, bb.Topics):
		return false, "topics differ"
	case !reflect.DeepEqual(aa.Subs, bb.Subs):
		return false, "subscriptions differ"
	case !reflect.DeepEqual(aa.Msgs, bb.Msgs):
		return false, "messages differ"
	case !reflect.DeepEqual(aa.Dels, bb.Dels):
		return false, "deliveries differ"
	case !reflect.DeepEqual(aa.Snaps, bb.Snaps):
		return false, "snapshots differ"
	}
	return true, ""
}

type prepared struct {
	e    *Env
	hist []*Obs
	op   *Op
	pre  *Dump
}

func prepare(sc scenario) (*prepared, error) {
	e, err := NewEnv(true)
	if err != nil {
		return nil, err
	}
	p := &prepared{e: e}
	ctx := context.Background()
	run := func(op *Op) *Obs {
		pre, err := e.Dump(ctx)
		if err != nil {
			panic(err)
		}
		if err := e.guard(pre, []time.Duration{0, op.MinAge}); err != nil {
			panic(err)
		}
		o, err := e.Exec(ctx, op, pre)
		if err != nil {
			panic(err)
		}
		p.hist = append(p.hist, o)
		return o
	}
	p.op = sc.Setup(e, run)
	if p.pre, err = e.Dump(ctx); err != nil {
		e.Close()
		return nil, err
	}
	if err := e.guard(p.pre, []time.Duration{0, p.op.MinAge}); err != nil {
		e.Close()
		return nil, err
	}
	if p.pre, err = e.Dump(ctx); err != nil {
		e.Close()
		return nil, err
	}
	return p, nil
}

func cmdFaultEnum(args []string) error {
	fs := flag.NewFlagSet("fault-enum", flag.ExitOnError)
	out := fs.String("out", "", "")
	maxK := fs.Int("max-k", 0, "0: every statement; n: at most n positions per operation (first, last, commit, spread)")
	workers := fs.Int("workers", 12, "")
	only := fs.String("only", "", "comma-separated scenario names (default: all)")
	fs.Parse(args)
	os.MkdirAll(*out, 0o755)
	type job struct {
		sc   scenario
		k    int
		of   int
		mode string
	}
	var results []faultResult
	var retryHists [][]*Obs
	var retryLabels []string
	var mu sync.Mutex
	// learn K per scenario with a counting run
	type counted struct {
		sc    scenario
		calls []string
	}
	var cs []counted
	for _, sc := range scenarios {
		if *only != "" && !strings.Contains(","+*only+",", ","+sc.Name+",") {
			continue
		}
		p, err := prepare(sc)
		if err != nil {
			return fmt.Errorf("%s: %w", sc.Name, err)
		}
		var calls []string
		var cmu sync.Mutex
		SetDBHook(p.e.DSN, func(ctx context.Context, kind CallKind, q string, after bool) error {
			if !after && kind != KRollback {
				cmu.Lock()
				calls = append(calls, string(kind))
				cmu.Unlock()
			}
			return nil
		})
		o, err := p.e.Exec(context.Background(), cloneOp(p.op), p.pre)
		SetDBHook(p.e.DSN, nil)
		if err != nil {
			p.e.Close()
			return err
		}
		// the Exec's own post-dump runs through the driver too: it is one BEGIN..COMMIT at the
		// end; cut it off (dump = begin + 5 queries + commit)
		if len(calls) >= 7 {
			calls = calls[:len(calls)-7]
		}
		if o.Resp.Kind == "err" {
			p.e.Close()
			return fmt.Errorf("scenario %s: the operation fails without fault: %s %s", sc.Name, o.Resp.Code, o.Resp.Msg)
		}
		cs = append(cs, counted{sc, calls})
		p.e.Close()
	}
	var jobs []job
	for _, c := range cs {
		K := len(c.calls)
		ks := []int{}
		maxK := maxK
		if c.sc.Name == "publish-large" {
			mk := 14
			maxK = &mk
		}
		if *maxK == 0 || K <= *maxK {
			for k := 1; k <= K; k++ {
				ks = append(ks, k)
			}
		} else {
			seen := map[int]bool{}
			add := func(k int) {
				if k >= 1 && k <= K && !seen[k] {
					seen[k] = true
					ks = append(ks, k)
				}
			}
			add(1)
			add(2)
			add(K)
			add(K - 1)
			for i := 1; len(ks) < *maxK && i < *maxK; i++ {
				add(1 + i*K / *maxK)
			}
		}
		for _, k := range ks {
			mode := "error"
			if k%3 == 0 {
				mode = "canceled"
			}
			jobs = append(jobs, job{c.sc, k, K, mode})
		}
		// a real cancellation of the caller's context after the last statement returned and
		// before the commit: database/sql rolls the transaction back on its own and COMMIT then
		// reports "transaction has already been committed or rolled back"
		if K >= 2 {
			jobs = append(jobs, job{c.sc, K - 1, K, "cancel-before-commit"})
		}
	}
	ch := make(chan job)
	var wg sync.WaitGroup
	var firstErr error
	for w := 0; w < *workers; w++ {
		wg.Add(1)
		go func() {
			defer wg.Done()
			for j := range ch {
				r, hist, err := runFault(j.sc, j.k, j.of, j.mode)
				mu.Lock()
				if err != nil && firstErr == nil {
					firstErr = fmt.Errorf("%s k=%d: %w", j.sc.Name, j.k, err)
				}
				if err == nil {
					results = append(results, *r)
					if hist != nil {
						r.RetryLabel = fmt.Sprintf("%s@%d", j.sc.Name, j.k)
						if r.Swallowed {
							r.RetryLabel += "!swallowed"
						}
						retryHists = append(retryHists, hist)
						retryLabels = append(retryLabels, r.RetryLabel)
					}
				}
				mu.Unlock()
			}
		}()
	}
	for _, j := range jobs {
		ch <- j
	}
	close(ch)
	wg.Wait()
	if firstErr != nil {
		return firstErr
	}
	// the retried histories (setup + retry step) go to the model as ordinary histories
	perFile := 6
	for f := 0; f*perFile < len(retryHists); f++ {
		fh, err := os.Create(filepath.Join(*out, fmt.Sprintf("cases_%03d.v", f)))
		if err != nil {
			return err
		}
		fmt.Fprintln(fh, "From MB Require Import Base.\nFrom MB.Bus Require Import State Ops Step Check.\nOpen Scope list_scope.\n")
		for i := f * perFile; i < (f+1)*perFile && i < len(retryHists); i++ {
			fmt.Fprintf(fh, "(* %s *)\n", retryLabels[i])
			fmt.Fprintln(fh, EmitHistory(fmt.Sprintf("h%d", i), retryHists[i]))
			fmt.Fprintf(fh, "Definition r%d := Eval vm_compute in check_history h%d.\nPrint r%d.\n\n", i, i, i)
		}
		fh.Close()
	}
	perOp := map[string]int{}
	for _, c := range cs {
		perOp[c.sc.Name] = len(c.calls)
	}
	return writeJSON(filepath.Join(*out, "faultenum.json"), map[string]interface{}{"results": results, "statements_per_operation": perOp,
		"retry_labels": retryLabels, "exhaustive": *maxK == 0})
}

func runFault(sc scenario, k, of int, mode string) (*faultResult, []*Obs, error) {
	p, err := prepare(sc)
	if err != nil {
		return nil, nil, err
	}
	defer p.e.Close()
	ctx, cancelCtx := context.WithCancel(context.Background())
	defer cancelCtx()
	r := &faultResult{Scenario: sc.Name, K: k, Of: of, Mode: mode}
	// a waiter on every subscription: none may be woken by a transaction that did not commit
	var chans []actions.PublishNotifier
	var ids []uuid.UUID
	for _, s := range p.pre.Subs {
		chans = append(chans, actions.PublishAwaiter(s.ID))
		ids = append(ids, s.ID)
	}
	defer func() {
		for i, c := range chans {
			actions.CancelPublishAwaiter(ids[i], c)
		}
	}()
	n := 0
	var cmu sync.Mutex
	armed := true
	SetDBHook(p.e.DSN, func(callCtx context.Context, kind CallKind, q string, after bool) error {
		if kind == KRollback {
			return nil
		}
		if after {
			if mode == "cancel-before-commit" {
				cmu.Lock()
				hit := armed && n == k
				if hit {
					armed = false
					r.Call = string(kind) + " (returned)"
				}
				cmu.Unlock()
				if hit {
					cancelCtx()
					// the cancellation has to REACH the transaction before the handler goes on to
					// COMMIT (through gRPC it travels as a stream reset): wait until the context
					// the statement ran under is done -- from then on database/sql refuses the
					// commit and its watcher rolls back. A fixed sleep here was a false alarm
					// under load (the server committed, the client saw Canceled).
					select {
					case <-callCtx.Done():
						time.Sleep(5 * time.Millisecond)
					case <-time.After(3 * time.Second):
						cmu.Lock()
						r.Call += " (cancellation not delivered)"
						cmu.Unlock()
					}
				}
			}
			return nil
		}
		cmu.Lock()
		defer cmu.Unlock()
		if !armed {
			return nil
		}
		n++
		if mode == "cancel-before-commit" {
			return nil
		}
		if n == k {
			armed = false
			r.Call = string(kind)
			if mode == "canceled" {
				return context.Canceled
			}
			return errInjected
		}
		return nil
	})
	o, err := p.e.execNoDump(ctx, cloneOp(p.op), p.pre)
	cmu.Lock()
	armed = false
	cmu.Unlock()
	SetDBHook(p.e.DSN, nil)
	if err != nil {
		return nil, nil, err
	}
	ctx = context.Background()
	if o.Post, err = p.e.Dump(ctx); err != nil {
		return nil, nil, err
	}
	r.Errored = o.Resp.Kind == "err"
	eq, diff := dumpsEqual(p.pre, o.Post, false)
	r.Unchanged = eq
	if !eq {
		r.Diff = diff
		if heq, _ := dumpsEqual(p.pre, o.Post, true); heq {
			r.OnlyHeart = true
		}
	}
	time.Sleep(2 * time.Millisecond)
	for _, c := range chans {
		select {
		case <-c:
			r.Woken++
		default:
		}
	}
	// retry without fault: must succeed and have the effect the model predicts
	pre2 := o.Post
	if err := p.e.guard(pre2, []time.Duration{0, p.op.MinAge}); err != nil {
		return nil, nil, err
	}
	if pre2, err = p.e.Dump(ctx); err != nil {
		return nil, nil, err
	}
	o2, err := p.e.Exec(ctx, cloneOp(p.op), pre2)
	if err != nil {
		return nil, nil, err
	}
	r.RetryOK = o2.Resp.Kind != "err"
	// history for the model: the setup, then (only when the faulted run left the state
	// unchanged, so that the chain of pre/post states is intact) the retry
	var hist []*Obs
	if r.Unchanged {
		hist = append(append([]*Obs(nil), p.hist...), o2)
	} else if !r.Errored {
		// the operation reported SUCCESS although one of its statements failed: what it left
		// behind goes to the model as an ordinary successful step (a swallowed failure of,
		// say, the predecessor lookup shows there as a wrong d.not_before)
		fillOracles(o.Op, o.Resp, p.pre, o.Post, o.Lo)
		hist = append(append([]*Obs(nil), p.hist...), o)
		r.Swallowed = true
	}
	return r, hist, nil
}

func init() { subcmds["fault-enum"] = cmdFaultEnum }
