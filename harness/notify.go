package main

// C10: (1) differential test of the publish-waiter registry (actions/notify.go) against
// Notify.v; (2) schedule replay: a real waiting pull (GetSubscriptionMessages.ExecuteClient)
// is held at its transaction boundaries by the SQL driver wrapper while a writer commits,
// for every placement of the commit relative to the waiter's register / query / block
// steps; the waiter must come back with the message promptly (all its own timers are far
// longer than the bound).

import (
	"context"
	"flag"
	"fmt"
	"math/rand"
	"os"
	"path/filepath"
	"sort"
	"strings"
	"sync"
	"time"

	"github.com/google/uuid"

	"go.6river.tech/mmmbbb/actions"
)

func cmdNotifySeq(args []string) error {
	fs := flag.NewFlagSet("notify-seq", flag.ExitOnError)
	seed := fs.Int64("seed", 1, "")
	n := fs.Int("n", 200, "")
	out := fs.String("out", "", "")
	fs.Parse(args)
	os.MkdirAll(*out, 0o755)
	r := rand.New(rand.NewSource(*seed))
	var b strings.Builder
	b.WriteString("From MB Require Import Base Notify.\nOpen Scope list_scope.\n")
	b.WriteString("Fixpoint ins_nat (x : nat) (l : list nat) : list nat := match l with [] => [x] | y :: r => if Nat.ltb x y then x :: l else if Nat.eqb x y then l else y :: ins_nat x r end.\n")
	b.WriteString("Definition canon (l : list nat) : list nat := fold_right ins_nat [] l.\n")
	b.WriteString("Definition chk (ops : list nop) (obs : list (list nat)) : bool := list_eqb (list_eqb Nat.eqb) (map canon (nrun reg0 ops)) obs.\n")
	b.WriteString("Definition cases : list (nat * bool) := [\n")
	multi := 0
	var samples []string
	for h := 0; h < *n; h++ {
		subs := []uuid.UUID{uuid.New(), uuid.New(), uuid.New(), uuid.New()}
		type reg struct {
			sub int
			c   actions.PublishNotifier
		}
		var regs []reg
		var ops, obs []string
		steps := 4 + r.Intn(16)
		sawSkip := false
		for i := 0; i < steps; i++ {
			switch k := r.Intn(10); {
			case k < 5:
				s := r.Intn(len(subs))
				regs = append(regs, reg{s, actions.PublishAwaiter(subs[s])})
				ops = append(ops, fmt.Sprintf("NRegister %d%%N", s+1))
			case k < 6 && len(regs) > 0:
				j := r.Intn(len(regs))
				s := regs[j].sub
				if r.Intn(4) == 0 {
					s = r.Intn(len(subs)) // cancel under the wrong subscription: no effect
				}
				actions.CancelPublishAwaiter(subs[s], regs[j].c)
				ops = append(ops, fmt.Sprintf("NCancel %d%%N %d%%nat", s+1, j))
			default:
				// wake a random list; waiters exist only for a random subset, so the list often
				// starts with a subscription nobody waits on (the shape that exposed F4)
				k := 1 + r.Intn(3)
				var ss []uuid.UUID
				var ssn []string
				for x := 0; x < k; x++ {
					s := r.Intn(len(subs))
					ss = append(ss, subs[s])
					ssn = append(ssn, fmt.Sprintf("%d%%N", s+1))
				}
				if k > 1 {
					sawSkip = true
				}
				actions.WakePublishListeners(false, ss...)
				ops = append(ops, "NWake ["+strings.Join(ssn, "; ")+"]")
			}
			var closed []int
			for j, rg := range regs {
				select {
				case <-rg.c:
					closed = append(closed, j)
				default:
				}
			}
			sort.Ints(closed)
			cs := make([]string, len(closed))
			for x, c := range closed {
				cs[x] = fmt.Sprintf("%d%%nat", c)
			}
			obs = append(obs, "["+strings.Join(cs, "; ")+"]")
		}
		for _, rg := range regs {
			actions.CancelPublishAwaiter(subs[rg.sub], rg.c)
		}
		if sawSkip {
			multi++
		}
		if h > 0 {
			b.WriteString(";\n")
		}
		line := fmt.Sprintf("(%d%%nat, chk [%s] [%s])", h, strings.Join(ops, "; "), strings.Join(obs, "; "))
		b.WriteString(line)
		if len(samples) < 2 {
			samples = append(samples, line)
		}
	}
	b.WriteString("].\nDefinition bad := Eval vm_compute in map fst (filter (fun c => negb (snd c)) cases).\nPrint bad.\n")
	if err := os.WriteFile(filepath.Join(*out, "notify_seq.v"), []byte(b.String()), 0o644); err != nil {
		return err
	}
	return writeJSON(filepath.Join(*out, "notify_seq.json"), map[string]interface{}{"histories": *n, "with_multi_wake": multi, "samples": samples})
}

// ---- schedule replay ----

type actorKey struct{}

// gate holds a tagged actor at a chosen driver event until released
type gate struct {
	mu      sync.Mutex
	holdAt  map[string]int // actor -> index of the event (counted per actor) to hold BEFORE/AFTER
	holdOn  map[string]string
	count   map[string]int
	reached map[string]chan struct{}
	release map[string]chan struct{}
}

func newGate() *gate {
	return &gate{holdAt: map[string]int{}, holdOn: map[string]string{}, count: map[string]int{}, reached: map[string]chan struct{}{}, release: map[string]chan struct{}{}}
}

// hold: the n-th event of the given kind ("begin" before it runs / "commit-after" after it
// returned) issued by actor blocks until Release.
func (g *gate) hold(actor, on string, n int) {
	g.mu.Lock()
	g.holdAt[actor] = n
	g.holdOn[actor] = on
	g.reached[actor] = make(chan struct{})
	g.release[actor] = make(chan struct{})
	g.mu.Unlock()
}

// actorCallbacks: actor name -> what to do right after that actor's COMMIT has taken effect
// (still inside the driver's Commit: before any of the transaction's commit hooks run)
var actorCallbacks sync.Map

func (g *gate) hook(ctx context.Context, kind CallKind, q string, after bool) error {
	actor, _ := ctx.Value(actorKey{}).(string)
	if actor == "" {
		return nil
	}
	ev := string(kind)
	if after {
		ev += "-after"
	}
	if ev == "commit-after" {
		if cb, ok := actorCallbacks.LoadAndDelete(actor); ok {
			cb.(func())()
		}
	}
	g.mu.Lock()
	on, ok := g.holdOn[actor]
	if !ok || on != ev {
		g.mu.Unlock()
		return nil
	}
	g.count[actor]++
	hit := g.count[actor] == g.holdAt[actor]
	reached, release := g.reached[actor], g.release[actor]
	g.mu.Unlock()
	if hit {
		close(reached)
		<-release
	}
	return nil
}

type wakeResult struct {
	Writer    string  `json:"writer"`
	Placement string  `json:"placement"`
	Got       int     `json:"got"`
	LatencyMS float64 `json:"latency_ms"`
	Err       string  `json:"err,omitempty"`
	OK        bool    `json:"ok"`
}

const wakeBound = 2 * time.Second

type wakeScenario struct {
	name string
	// prepare the state; returns the subscription the waiter pulls and the writer action
	prep func(e *Env, run func(*Op) *Obs) (waitSub string, writer func())
}

func wakeScenarios() []wakeScenario {
	ctx := context.Background()
	return []wakeScenario{
		{"publish", func(e *Env, run func(*Op) *Obs) (string, func()) {
			baseSetup(run, false, false)
			return "projects/p/subscriptions/s0", func() { e.Exec(ctx, pub(1, ""), &Dump{}) }
		}},
		{"publish-to-topic-with-several-subscriptions", func(e *Env, run func(*Op) *Obs) (string, func()) {
			baseSetup(run, false, false)
			return "projects/p/subscriptions/s1", func() { e.Exec(ctx, pub(1, ""), &Dump{}) }
		}},
		{"ack-of-ordered-predecessor", func(e *Env, run func(*Op) *Obs) (string, func()) {
			baseSetup(run, true, false)
			run(pub(2, "k"))
			o := run(&Op{Kind: "Pull", Name: "projects/p/subscriptions/s0", Max: 1})
			ids := mustIDs(o)
			return "projects/p/subscriptions/s0", func() {
				e.Exec(ctx, &Op{Kind: "Ack", Name: "projects/p/subscriptions/s0", AckIDs: ids}, &Dump{})
			}
		}},
		{"zero-deadline-nack", func(e *Env, run func(*Op) *Obs) (string, func()) {
			baseSetup(run, false, false)
			run(pub(1, ""))
			o := run(&Op{Kind: "Pull", Name: "projects/p/subscriptions/s0", Max: 1})
			ids := mustIDs(o)
			return "projects/p/subscriptions/s0", func() {
				e.Exec(ctx, &Op{Kind: "ModAck", Name: "projects/p/subscriptions/s0", AckIDs: ids, Seconds: 0}, &Dump{})
			}
		}},
		{"zero-deadline-nack-spanning-subscriptions", func(e *Env, run func(*Op) *Obs) (string, func()) {
			// One request nacks ids of two subscriptions; only the second one has a waiter, and
			// the first one's waiter set must be ABSENT from the registry (not merely empty) for
			// the early return of F4 to bite: an un-filtered publish after the pulls makes the
			// wake-up of s0 drop its (empty) set. Which subscription the code visits first is
			// the database's DISTINCT order over random ids, hence the repetitions.
			baseSetup(run, false, false)
			run(pub(1, ""))
			o0 := run(&Op{Kind: "Pull", Name: "projects/p/subscriptions/s0", Max: 1})
			o1 := run(&Op{Kind: "Pull", Name: "projects/p/subscriptions/s1", Max: 1})
			run(&Op{Kind: "Publish", Name: "projects/p/topics/t0", Msgs: []PubMsg{{Data: []byte("1")}}}) // s1's filter rejects it
			run(&Op{Kind: "Pull", Name: "projects/p/subscriptions/s0", Max: 5})                          // s0 takes it: nothing is left to find
			run(&Op{Kind: "Publish", Name: "projects/p/topics/t0", Msgs: []PubMsg{{Data: []byte("2")}}})
			run(&Op{Kind: "ModAck", Name: "projects/p/subscriptions/s0", AckIDs: []string{uuid.New().String()}, Seconds: 600})
			ids := append(mustIDs(o0), mustIDs(o1)...)
			return "projects/p/subscriptions/s1", func() {
				e.Exec(ctx, &Op{Kind: "ModAck", Name: "projects/p/subscriptions/s0", AckIDs: ids, Seconds: 0}, &Dump{})
			}
		}},
		{"seek-to-the-past", func(e *Env, run func(*Op) *Obs) (string, func()) {
			baseSetup(run, false, false)
			run(pub(1, ""))
			o := run(&Op{Kind: "Pull", Name: "projects/p/subscriptions/s0", Max: 1})
			run(&Op{Kind: "Ack", Name: "projects/p/subscriptions/s0", AckIDs: mustIDs(o)})
			t := o.Lo - int64(time.Hour)
			return "projects/p/subscriptions/s0", func() {
				e.Exec(ctx, &Op{Kind: "SeekTime", Name: "projects/p/subscriptions/s0", Target: t}, &Dump{})
			}
		}},
		{"seek-to-snapshot-acking-ordered-predecessor", func(e *Env, run func(*Op) *Obs) (string, func()) {
			// a sibling subscription has acknowledged m1; its snapshot therefore acknowledges m1
			// on whoever seeks to it. On the ordered subscription s0, m1 is leased and m2 (same
			// key) waits behind it: the seek de-acknowledges nothing, it only retires m1 -- and
			// that makes m2 deliverable
			baseSetup(run, true, false)
			run(&Op{Kind: "CreateSub", Sub: &SubReq{Name: "projects/p/subscriptions/sib", Topic: "projects/p/topics/t0"}})
			run(pub(1, "k"))
			run(pub(1, "k"))
			o := run(&Op{Kind: "Pull", Name: "projects/p/subscriptions/sib", Max: 1})
			run(&Op{Kind: "Ack", Name: "projects/p/subscriptions/sib", AckIDs: mustIDs(o)})
			run(&Op{Kind: "CreateSnap", Name: "projects/p/snapshots/n0", Name2: "projects/p/subscriptions/sib"})
			run(&Op{Kind: "Pull", Name: "projects/p/subscriptions/s0", Max: 1})
			return "projects/p/subscriptions/s0", func() {
				e.Exec(ctx, &Op{Kind: "SeekSnap", Name: "projects/p/subscriptions/s0", Name2: "projects/p/snapshots/n0"}, &Dump{})
			}
		}},
		{"ack-of-ordered-predecessors-on-two-subscriptions-first", func(e *Env, run func(*Op) *Obs) (string, func()) {
			return twoSubAck(e, run, "projects/p/subscriptions/s0")
		}},
		{"ack-of-ordered-predecessors-on-two-subscriptions-second", func(e *Env, run func(*Op) *Obs) (string, func()) {
			return twoSubAck(e, run, "projects/p/subscriptions/o1")
		}},
		{"publish-to-subscription-with-delivery-delay", func(e *Env, run func(*Op) *Obs) (string, func()) {
			// an injected delivery delay of 300 ms: the message is not deliverable when it is
			// committed, but the waiter has no timer for it unless it is woken to look
			baseSetup(run, false, false)
			run(&Op{Kind: "SetDelay", Name: "projects/p/subscriptions/s0", Delay: 300 * time.Millisecond})
			return "projects/p/subscriptions/s0", func() { e.Exec(ctx, pub(1, ""), &Dump{}) }
		}},
		{"publish-by-a-caller-that-goes-away-right-after-its-commit", func(e *Env, run func(*Op) *Obs) (string, func()) {
			// the publisher's context ends (client disconnect, deadline) after its COMMIT took effect
			// and before the transaction's commit hooks run: the message is durable, so the waiter
			// must hear of it all the same
			baseSetup(run, false, false)
			return "projects/p/subscriptions/s0", func() {
				actor := "writer-" + uuid.New().String()
				wctx, cancel := context.WithCancel(context.WithValue(ctx, actorKey{}, actor))
				defer cancel()
				actorCallbacks.Store(actor, func() { cancel() })
				a := actions.NewPublishMessage(actions.PublishMessageParams{TopicName: "projects/p/topics/t0", Payload: []byte(`{"late":1}`), Attributes: map[string]string{"x": "v"}})
				_ = e.Client.DoCtxTx(wctx, nil, a.Execute)
			}
		}},
		{"zero-deadline-nack-of-522-ids-spanning-subscriptions", func(e *Env, run func(*Op) *Obs) (string, func()) {
			// one ModifyAckDeadline(0) far larger than any internal batch size, over three
			// subscriptions: the ids of s0 all sort into the first 500, those of d all into the rest,
			// those of c are everywhere - every subscription named by the request is woken, whatever
			// the order the request is processed in
			baseSetup(run, false, false)
			run(&Op{Kind: "CreateSub", Sub: &SubReq{Name: "projects/p/subscriptions/c", Topic: "projects/p/topics/t0"}})
			run(&Op{Kind: "CreateSub", Sub: &SubReq{Name: "projects/p/subscriptions/d", Topic: "projects/p/topics/t0"}})
			for i := 0; i < 520; i += 100 {
				k := 100
				if 520-i < k {
					k = 520 - i
				}
				run(pub(k, ""))
			}
			cIDs := mustIDs(run(&Op{Kind: "Pull", Name: "projects/p/subscriptions/c", Max: 1000}))
			aIDs := mustIDs(run(&Op{Kind: "Pull", Name: "projects/p/subscriptions/s0", Max: 1000}))
			dIDs := mustIDs(run(&Op{Kind: "Pull", Name: "projects/p/subscriptions/d", Max: 1000}))
			if len(aIDs) > 12 {
				aIDs = aIDs[:12]
			}
			for {
				all := append(append(append([]string{}, cIDs...), aIDs...), dIDs...)
				sort.Strings(all) // canonical UUID strings sort like the ids
				pos := map[string]int{}
				for i, id := range all {
					pos[id] = i
				}
				var keepA, keepD []string
				for _, id := range aIDs {
					if pos[id] < 500 {
						keepA = append(keepA, id)
					}
				}
				for _, id := range dIDs {
					if pos[id] >= 500 {
						keepD = append(keepD, id)
					}
				}
				if len(keepA) == len(aIDs) && len(keepD) == len(dIDs) {
					break
				}
				aIDs, dIDs = keepA, keepD
			}
			ids := append(append(append([]string{}, cIDs...), aIDs...), dIDs...)
			return "projects/p/subscriptions/s0", func() {
				e.Exec(ctx, &Op{Kind: "ModAck", Name: "projects/p/subscriptions/c", AckIDs: ids, Seconds: 0}, &Dump{})
			}
		}},
		{"dead-letter-forward-into-the-topic", func(e *Env, run func(*Op) *Obs) (string, func()) {
			baseSetup(run, false, true)
			run(pub(1, ""))
			run(&Op{Kind: "Pull", Name: "projects/p/subscriptions/s0", Max: 1})
			e.Advance(30 * time.Minute)
			return "projects/p/subscriptions/d0", func() {
				e.Exec(ctx, &Op{Kind: "Pull", Name: "projects/p/subscriptions/s0", Max: 1}, &Dump{})
			}
		}},
		{"dead-lettering-of-ordered-predecessor-by-nack", func(e *Env, run func(*Op) *Obs) (string, func()) {
			baseSetup(run, true, true)
			run(pub(2, "k"))
			o := run(&Op{Kind: "Pull", Name: "projects/p/subscriptions/s0", Max: 1})
			ids := mustIDs(o)
			return "projects/p/subscriptions/s0", func() {
				e.Exec(ctx, &Op{Kind: "StreamAckNack", Nacks: ids}, &Dump{})
			}
		}},
		{"dead-lettering-of-ordered-predecessor-nothing-to-forward-to", func(e *Env, run func(*Op) *Obs) (string, func()) {
			// the dead-letter topic has no subscription left: nothing is forwarded, the
			// predecessor is just retired -- its successor becomes deliverable all the same
			baseSetup(run, true, true)
			run(&Op{Kind: "DeleteSub", Name: "projects/p/subscriptions/d0"})
			run(&Op{Kind: "DeleteSub", Name: "projects/p/subscriptions/d1"})
			run(pub(2, "k"))
			o := run(&Op{Kind: "Pull", Name: "projects/p/subscriptions/s0", Max: 1})
			ids := mustIDs(o)
			return "projects/p/subscriptions/s0", func() {
				e.Exec(ctx, &Op{Kind: "StreamAckNack", Nacks: ids}, &Dump{})
			}
		}},
		{"dead-lettering-of-ordered-predecessor-deleted-dead-letter-topic", func(e *Env, run func(*Op) *Obs) (string, func()) {
			baseSetup(run, true, true)
			run(&Op{Kind: "DeleteTopic", Name: "projects/p/topics/dl"})
			run(pub(2, "k"))
			o := run(&Op{Kind: "Pull", Name: "projects/p/subscriptions/s0", Max: 1})
			ids := mustIDs(o)
			return "projects/p/subscriptions/s0", func() {
				e.Exec(ctx, &Op{Kind: "StreamAckNack", Nacks: ids}, &Dump{})
			}
		}},
	}
}

// twoSubAck: one Acknowledge request carrying the ids of the leased same-key predecessors of
// TWO ordered subscriptions (the handler ignores the subscription named in the request, so
// such a request is legal): both successors become deliverable, a waiter on either
// subscription must be woken
func twoSubAck(e *Env, run func(*Op) *Obs, waitOn string) (string, func()) {
	ctx := context.Background()
	baseSetup(run, true, false)
	run(&Op{Kind: "CreateSub", Sub: &SubReq{Name: "projects/p/subscriptions/o1", Topic: "projects/p/topics/t0", Ordered: true}})
	run(pub(2, "k"))
	o0 := run(&Op{Kind: "Pull", Name: "projects/p/subscriptions/s0", Max: 1})
	o1 := run(&Op{Kind: "Pull", Name: "projects/p/subscriptions/o1", Max: 1})
	ids := append(mustIDs(o0), mustIDs(o1)...)
	return waitOn, func() {
		e.Exec(ctx, &Op{Kind: "Ack", Name: "projects/p/subscriptions/s0", AckIDs: ids}, &Dump{})
	}
}

var placements = []string{"before-waiter-starts", "between-heartbeat-and-query", "after-query-before-block", "after-blocked"}

func runWake(sc wakeScenario, placement string) (*wakeResult, error) {
	e, err := NewEnv(true)
	if err != nil {
		return nil, err
	}
	defer e.Close()
	ctx := context.Background()
	run := func(op *Op) *Obs {
		pre, _ := e.Dump(ctx)
		o, err := e.Exec(ctx, op, pre)
		if err != nil {
			panic(err)
		}
		return o
	}
	waitSub, writer := sc.prep(e, run)
	g := newGate()
	SetDBHook(e.DSN, g.hook)
	defer SetDBHook(e.DSN, nil)
	res := &wakeResult{Writer: sc.name, Placement: placement}
	wctx, cancel := context.WithTimeout(context.WithValue(ctx, actorKey{}, "waiter"), 20*time.Second)
	defer cancel()
	waiting := make(chan struct{})
	getter := actions.NewGetSubscriptionMessages(actions.GetSubscriptionMessagesParams{Name: waitSub, MaxMessages: 5, MaxBytes: 1 << 20,
		MaxWait: 30 * time.Second, Waiting: waiting})
	done := make(chan error, 1)
	start := func() { go func() { done <- getter.ExecuteClient(wctx, e.Client) }() }
	var committed time.Time
	switch placement {
	case "before-waiter-starts":
		writer()
		committed = time.Now()
		start()
	case "between-heartbeat-and-query":
		g.hold("waiter", "begin", 2) // the waiter's second transaction is the query
		start()
		<-g.reached["waiter"]
		writer()
		committed = time.Now()
		close(g.release["waiter"])
	case "after-query-before-block":
		g.hold("waiter", "commit-after", 2) // the query committed (empty), the waiter has not reached its select
		start()
		select {
		case <-g.reached["waiter"]:
		case <-time.After(5 * time.Second):
			return nil, fmt.Errorf("waiter never reached the gate")
		}
		writer()
		committed = time.Now()
		close(g.release["waiter"])
	case "after-blocked":
		start()
		select {
		case <-waiting:
		case err := <-done:
			return nil, fmt.Errorf("waiter returned before blocking: %v", err)
		case <-time.After(5 * time.Second):
			return nil, fmt.Errorf("waiter never blocked")
		}
		writer()
		committed = time.Now()
	}
	select {
	case err := <-done:
		res.LatencyMS = float64(time.Since(committed).Microseconds()) / 1000
		if err != nil {
			res.Err = err.Error()
		} else if r, ok := getter.Results(); ok {
			res.Got = len(r.Deliveries)
		}
	case <-time.After(wakeBound):
		res.LatencyMS = float64(wakeBound.Milliseconds())
		res.Err = "waiter still asleep after the bound"
		cancel()
		<-done
	}
	res.OK = res.Err == "" && res.Got > 0
	return res, nil
}

func cmdWakeSched(args []string) error {
	fs := flag.NewFlagSet("wake-sched", flag.ExitOnError)
	out := fs.String("out", "", "")
	reps := fs.Int("reps", 1, "repetitions (subscription ids are random: the multi-subscription order varies)")
	fs.Parse(args)
	os.MkdirAll(*out, 0o755)
	var results []wakeResult
	var mu sync.Mutex
	var wg sync.WaitGroup
	sem := make(chan struct{}, 12)
	var firstErr error
	for rep := 0; rep < *reps; rep++ {
		for _, sc := range wakeScenarios() {
			for _, pl := range placements {
				if rep%3 != 0 && !strings.Contains(sc.name, "spanning") {
					continue // the other scenarios are deterministic: every third repetition
				}
				sc, pl := sc, pl
				wg.Add(1)
				sem <- struct{}{}
				go func() {
					defer wg.Done()
					defer func() { <-sem }()
					r, err := runWake(sc, pl)
					mu.Lock()
					if err != nil {
						if firstErr == nil {
							firstErr = fmt.Errorf("%s/%s: %w", sc.name, pl, err)
						}
					} else {
						results = append(results, *r)
					}
					mu.Unlock()
				}()
			}
		}
	}
	wg.Wait()
	if firstErr != nil {
		return firstErr
	}
	return writeJSON(filepath.Join(*out, "wake_sched.json"), map[string]interface{}{"results": results, "bound_ms": wakeBound.Milliseconds()})
}

func init() {
	subcmds["notify-seq"] = cmdNotifySeq
	subcmds["wake-sched"] = cmdWakeSched
}
