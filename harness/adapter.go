package main

// adapter-diff: the StreamingPull request adapter (services.VerifAdaptIn, build tag verif)
// against Adapter.adapt_in on generated requests: well-formed ones with mixed deadlines, ack
// ids in the first request, unset limits; malformed ones (ids that do not parse, lists of
// different lengths).

import (
	"flag"
	"fmt"
	"math/rand"
	"os"
	"path/filepath"
	"strings"

	"github.com/google/uuid"

	"go.6river.tech/mmmbbb/grpc/pubsubpb"
	"go.6river.tech/mmmbbb/services"
)

func cmdAdapterDiff(args []string) error {
	fs := flag.NewFlagSet("adapter-diff", flag.ExitOnError)
	seed := fs.Int64("seed", 1, "")
	n := fs.Int("n", 400, "")
	out := fs.String("out", "", "")
	fs.Parse(args)
	if *out == "" {
		return fmt.Errorf("-out required")
	}
	os.MkdirAll(*out, 0o755)
	r := rand.New(rand.NewSource(*seed))
	pool := make([]uuid.UUID, 8)
	index := map[uuid.UUID]int{}
	for i := range pool {
		pool[i] = uuid.New()
		index[pool[i]] = i
	}
	badIDs := []string{"", "zz", "not-a-uuid", pool[0].String() + "x", pool[1].String()[:35], "12345678-1234-1234-1234-12345678901g"}
	secsPool := []int32{0, 0, 0, 1, 5, 10, 60, 600, -1, -5, 2147483647, -2147483648}
	limits := []int64{0, 0, -1, 1, 2, 100, 1000, 5000, 1 << 20, 1 << 40}
	genIDs := func(k int, pBad float64) (ss []string, coq []string) {
		for i := 0; i < k; i++ {
			if r.Float64() < pBad {
				ss = append(ss, badIDs[r.Intn(len(badIDs))])
				coq = append(coq, "None")
			} else {
				j := r.Intn(len(pool))
				ss = append(ss, pool[j].String())
				coq = append(coq, fmt.Sprintf("Some %d%%N", j))
			}
		}
		return
	}
	z := func(v int64) string { return fmt.Sprintf("(%d)%%Z", v) }
	var lines []string
	var cases []map[string]interface{}
	stats := map[string]int{}
	for i := 0; i < *n; i++ {
		initial := r.Intn(3) == 0
		pBad := 0.0
		if r.Intn(6) == 0 {
			pBad = 0.3
		}
		req := &pubsubpb.StreamingPullRequest{MaxOutstandingMessages: limits[r.Intn(len(limits))], MaxOutstandingBytes: limits[r.Intn(len(limits))]}
		var acksC, modC []string
		req.AckIds, acksC = genIDs(r.Intn(4), pBad)
		req.ModifyDeadlineAckIds, modC = genIDs(r.Intn(5), pBad)
		k := len(req.ModifyDeadlineAckIds)
		if r.Intn(8) == 0 {
			k += 1 - 2*r.Intn(2)
			if k < 0 {
				k = 1
			}
		}
		var secsC []string
		uniform := r.Intn(3) == 0
		first := secsPool[r.Intn(len(secsPool))]
		for j := 0; j < k; j++ {
			s := secsPool[r.Intn(len(secsPool))]
			if uniform {
				s = first
			}
			req.ModifyDeadlineSeconds = append(req.ModifyDeadlineSeconds, s)
			secsC = append(secsC, z(int64(s)))
		}
		got, err := services.VerifAdaptIn(initial, req)
		obs := "None"
		if err == nil {
			fc := "None"
			if got.FlowControl != nil {
				fc = fmt.Sprintf("(Some (mkFc %s %s))", z(int64(got.FlowControl.MaxMessages)), z(int64(got.FlowControl.MaxBytes)))
			}
			ids := func(l []uuid.UUID) string {
				var o []string
				for _, u := range l {
					j, ok := index[u]
					if !ok {
						j = 999
					}
					o = append(o, fmt.Sprintf("%d%%N", j))
				}
				return "[" + strings.Join(o, "; ") + "]"
			}
			ds := got.DelaySeconds
			if ds != float64(int64(ds)) {
				return fmt.Errorf("DelaySeconds %v is not integral", ds)
			}
			obs = fmt.Sprintf("(Some (mkMs %s %s %s %s))", fc, ids(got.Ack), ids(got.Delay), z(int64(ds)))
			stats["accepted"]++
			if len(got.Delay) > 0 && ds <= 0 {
				stats["nack_requests"]++
			}
			if len(got.Delay) > 0 && ds > 0 {
				stats["extension_requests"]++
			}
			mixed := false
			for _, s := range req.ModifyDeadlineSeconds {
				if (s <= 0) != (req.ModifyDeadlineSeconds[0] <= 0) {
					mixed = true
				}
			}
			if mixed {
				stats["mixed_nack_and_extension"]++
			}
			if initial && len(got.Ack) > 0 {
				stats["initial_with_acks"]++
			}
		} else {
			stats["refused"]++
		}
		ini := "false"
		if initial {
			ini = "true"
		}
		lines = append(lines, fmt.Sprintf("(%d%%N, (%s, mkSp %s %s [%s] [%s] [%s], %s))", i, ini, z(req.MaxOutstandingMessages), z(req.MaxOutstandingBytes),
			strings.Join(acksC, "; "), strings.Join(modC, "; "), strings.Join(secsC, "; "), obs))
		cases = append(cases, map[string]interface{}{"initial": initial, "max_messages": req.MaxOutstandingMessages, "max_bytes": req.MaxOutstandingBytes,
			"ack_ids": req.AckIds, "modify_deadline_ack_ids": req.ModifyDeadlineAckIds, "modify_deadline_seconds": req.ModifyDeadlineSeconds,
			"error": fmt.Sprint(err), "result": got})
	}
	body := "From MB Require Import Base Streamer Adapter.\nOpen Scope list_scope.\nDefinition cases : list (N * acase) := [\n" +
		strings.Join(lines, ";\n") + "].\nDefinition bad := Eval vm_compute in adapter_bad cases.\nPrint bad.\n"
	if err := os.WriteFile(filepath.Join(*out, "adapter.v"), []byte(body), 0o644); err != nil {
		return err
	}
	return writeJSON(filepath.Join(*out, "adapter.json"), map[string]interface{}{"cases": cases, "stats": stats, "n": *n})
}

func init() { subcmds["adapter-diff"] = cmdAdapterDiff }
