package main

// c05-seek-revival: the witness of Bus/T_C05.v C05_seek_revival_refuted, replayed on the
// implementation (finding F19). Retention 600 s. A (key k) is published, delivered and
// acknowledged; B and C (key k) follow. A seek to the past revives A with a fresh retention,
// later than B's and C's. A is delivered again and left unacknowledged. Once B's retention has
// ended (B was never deliverable: it waited behind A), the predecessor test, which looks one
// link back only, releases C -- while A, published earlier with the same key, is outstanding.

import (
	"context"
	"flag"
	"fmt"
	"os"
	"path/filepath"
	"time"
)

func cmdC05Seek(args []string) error {
	fs := flag.NewFlagSet("c05-seek-revival", flag.ExitOnError)
	out := fs.String("out", "", "")
	fs.Parse(args)
	if *out == "" {
		return fmt.Errorf("-out required")
	}
	os.MkdirAll(*out, 0o755)
	ctx := context.Background()
	e, err := NewEnv(true)
	if err != nil {
		return err
	}
	defer e.Close()
	var events []string
	note := func(f string, a ...interface{}) { events = append(events, fmt.Sprintf(f, a...)) }
	topic, sub := "projects/p/topics/t", "projects/p/subscriptions/s"
	run := func(op *Op) (*Obs, error) {
		d, err := e.Dump(ctx)
		if err != nil {
			return nil, err
		}
		o, err := e.Exec(ctx, op, d)
		if err != nil {
			return nil, err
		}
		if o.Resp.Kind == "err" {
			return nil, fmt.Errorf("%s failed: %s", op.Kind, o.Resp.Msg)
		}
		return o, nil
	}
	ttl := 600 * time.Second
	if _, err := run(&Op{Kind: "CreateTopic", Name: topic}); err != nil {
		return err
	}
	if _, err := run(&Op{Kind: "CreateSub", Sub: &SubReq{Name: sub, Topic: topic, Ordered: true, MsgTTL: &ttl}}); err != nil {
		return err
	}
	pub := func(tag string) error {
		_, err := run(&Op{Kind: "Publish", Name: topic, Msgs: []PubMsg{{Data: []byte(fmt.Sprintf(`{"m":%q}`, tag)), Key: "k"}}})
		return err
	}
	if err := pub("A"); err != nil {
		return err
	}
	o, err := run(&Op{Kind: "Pull", Name: sub, Max: 10})
	if err != nil {
		return err
	}
	if len(o.Resp.Pulled) != 1 {
		return fmt.Errorf("first pull returned %d messages", len(o.Resp.Pulled))
	}
	idA := o.Resp.Pulled[0].Ack
	if _, err := run(&Op{Kind: "Ack", Name: sub, AckIDs: []string{idA.String()}}); err != nil {
		return err
	}
	note("A published, delivered, acknowledged")
	e.Advance(8 * time.Second)
	if err := pub("B"); err != nil {
		return err
	}
	e.Advance(2 * time.Second)
	if err := pub("C"); err != nil {
		return err
	}
	e.Advance(40 * time.Second)
	if _, err := run(&Op{Kind: "SeekTime", Name: sub, Target: e.VNow() - int64(time.Hour)}); err != nil {
		return err
	}
	note("B, C published (same key); seek to the past: A is outstanding again")
	o, err = run(&Op{Kind: "Pull", Name: sub, Max: 1})
	if err != nil {
		return err
	}
	if len(o.Resp.Pulled) != 1 || o.Resp.Pulled[0].Ack != idA {
		return fmt.Errorf("after the seek the pull did not return A: %+v", o.Resp.Pulled)
	}
	note("A delivered again (attempt %d), not acknowledged", o.Resp.Pulled[0].Attempt)
	d, err := e.Dump(ctx)
	if err != nil {
		return err
	}
	var a, b, c *DelRow
	for i := range d.Dels {
		x := &d.Dels[i]
		switch {
		case x.ID == idA:
			a = x
		case b == nil || x.Published < b.Published:
			if b != nil {
				c = b
			}
			b = x
		default:
			c = x
		}
	}
	if a == nil || b == nil || c == nil {
		return fmt.Errorf("expected three deliveries, have %d", len(d.Dels))
	}
	if !(b.Expires < c.Expires && c.Expires < a.Expires) {
		return fmt.Errorf("unexpected retention deadlines: A %d B %d C %d", a.Expires, b.Expires, c.Expires)
	}
	// just past B's retention deadline, before C's
	e.Advance(time.Duration(b.Expires-e.VNow()) + time.Duration(c.Expires-b.Expires)/2)
	o, err = run(&Op{Kind: "Pull", Name: sub, Max: 1})
	if err != nil {
		return err
	}
	d2, _ := e.Dump(ctx)
	a2 := d2.del(idA)
	var violations []string
	if len(o.Resp.Pulled) == 1 && o.Resp.Pulled[0].Ack == c.ID && a2 != nil && a2.Completed == nil && a2.Expires > e.VNow() {
		violations = append(violations, fmt.Sprintf("seek-revival-overtake: ordered subscription, retention 600 s: C (published %v after A, same key) was delivered while A is outstanding (revived by a seek, delivered again, unacknowledged, %v of retention left); B, between them, expired without ever being deliverable and the predecessor test looks one link back only",
			time.Duration(c.Published-a.Published).Round(time.Second), time.Duration(a2.Expires-e.VNow()).Round(time.Second)))
		note("C delivered while A is outstanding")
	} else {
		note("the last pull returned %d message(s); C was not released", len(o.Resp.Pulled))
	}
	return writeJSON(filepath.Join(*out, "c05seek.json"), map[string]interface{}{"violations": violations, "events": events})
}

func init() { subcmds["c05-seek-revival"] = cmdC05Seek }
