package main

// Scenario templates: scripted prefixes that guarantee that an interesting condition
// actually occurs in a history (Cedar's lesson: random generation alone rarely builds the
// multi-step situations the properties are about). A history starts either with the
// plain random prefix or with one of these templates (chosen from the history's PRNG);
// random generation continues after the script, so the situation is then perturbed by
// arbitrary further traffic.

import (
	"fmt"
	"sort"
	"time"

	"github.com/google/uuid"
)

type scriptStep func(g *Gen, d *Dump, vnow int64) Action

const (
	sT0 = "projects/p/topics/t0"
	sT1 = "projects/p/topics/t1"
	sS0 = "projects/p/subscriptions/s0"
	sS1 = "projects/p/subscriptions/s1"
	sS2 = "projects/p/subscriptions/s2"
)

func opStep(op *Op) scriptStep {
	return func(*Gen, *Dump, int64) Action { return Action{Op: op} }
}
func advStep(d time.Duration) scriptStep {
	return func(*Gen, *Dump, int64) Action { return Action{Advance: d} }
}

// advance to just after the latest pending lease / delay deadline of a subscription
func pastLeases(sub string) scriptStep {
	return func(g *Gen, d *Dump, vnow int64) Action {
		s := d.subByName(sub)
		var latest int64
		for _, x := range d.Dels {
			if s != nil && x.Sub == s.ID && x.Completed == nil && x.AttemptAt > latest {
				latest = x.AttemptAt
			}
		}
		if latest <= vnow {
			return Action{Advance: time.Second}
		}
		return Action{Advance: time.Duration(latest-vnow) + 1500*time.Millisecond}
	}
}

func pubStep(topic string, keys ...string) scriptStep {
	return func(g *Gen, d *Dump, vnow int64) Action {
		op := &Op{Kind: "Publish", Name: topic}
		for _, k := range keys {
			op.Msgs = append(op.Msgs, PubMsg{Data: g.payload(), Attrs: g.attrs(), Key: k})
		}
		for i := range op.Msgs {
			if op.Msgs[i].Data == nil || !jsonValid(op.Msgs[i].Data) {
				op.Msgs[i].Data = []byte(`{"a":1}`)
			}
		}
		return Action{Op: op}
	}
}

func jsonValid(b []byte) bool {
	for _, bad := range badPayloads {
		if string(b) == bad {
			return false
		}
	}
	return true
}

func pullStep(sub string, max int32) scriptStep {
	return opStep(&Op{Kind: "Pull", Name: sub, Max: max})
}

// ack / nack / modack everything currently leased on a subscription
func ackLeased(sub string, kind string, seconds int32, onlyFirst bool) scriptStep {
	return func(g *Gen, d *Dump, vnow int64) Action {
		s := d.subByName(sub)
		var ids []string
		for _, x := range d.Dels {
			if s != nil && x.Sub == s.ID && x.Completed == nil && x.Attempts > 0 {
				ids = append(ids, x.ID.String())
				if onlyFirst {
					break
				}
			}
		}
		switch kind {
		case "Ack":
			return Action{Op: &Op{Kind: "Ack", Name: sub, AckIDs: ids}}
		case "Nack":
			return Action{Op: &Op{Kind: "StreamAckNack", Nacks: ids}}
		default:
			return Action{Op: &Op{Kind: "ModAck", Name: sub, AckIDs: ids, Seconds: seconds}}
		}
	}
}

func subStep(q *SubReq) scriptStep { return opStep(&Op{Kind: "CreateSub", Sub: q}) }

// acknowledge exactly n of the leased deliveries of a subscription (skipping the first
// [skip] oldest) in one request
func ackLeasedN(sub string, skip, n int) scriptStep {
	return func(g *Gen, d *Dump, vnow int64) Action {
		s := d.subByName(sub)
		var leased []DelRow
		for _, x := range d.Dels {
			if s != nil && x.Sub == s.ID && x.Completed == nil && x.Attempts > 0 {
				leased = append(leased, x)
			}
		}
		// oldest first: skipping one leaves the OLDEST message outstanding, so that a snapshot
		// taken afterwards records every later acknowledged message in its list
		sort.SliceStable(leased, func(i, j int) bool { return leased[i].Published < leased[j].Published })
		var ids []string
		for i, x := range leased {
			if i < skip {
				continue
			}
			ids = append(ids, x.ID.String())
			if len(ids) == n {
				break
			}
		}
		return Action{Op: &Op{Kind: "Ack", Name: sub, AckIDs: ids}}
	}
}

// bulkScript: requests and tables far larger than the random histories produce -- batches of
// 100 messages, pulls of up to 1000, Acknowledge calls with exactly 500 / 499 / the rest of
// the ids, a snapshot whose acknowledged-message list exceeds 1000 entries (when n allows),
// a seek to it
func bulkScript(n int) []scriptStep {
	s := []scriptStep{
		opStep(&Op{Kind: "CreateTopic", Name: sT0}),
		// (long leases: no deadline falls inside the slow thousand-row calls)
		subStep(&SubReq{Name: sS0, Topic: sT0, Retry: retry(100 * time.Second)}),
	}
	// one message on its own first: it stays unacknowledged, everything after it is acknowledged
	s = append(s, pubStep(sT0, ""))
	for i := 1; i < n; i += 100 {
		k := 100
		if n-i < k {
			k = n - i
		}
		keys := make([]string, k)
		s = append(s, pubStep(sT0, keys...))
	}
	s = append(s, pullStep(sS0, 1000), pullStep(sS0, 1000))
	// leave the first delivery unacknowledged; acknowledge the rest in odd-sized requests
	s = append(s, ackLeasedN(sS0, 1, 500), ackLeasedN(sS0, 1, 499), ackLeasedN(sS0, 1, 100000))
	s = append(s,
		opStep(&Op{Kind: "CreateSnap", Name: "projects/p/snapshots/n0", Name2: sS0}),
		pubStep(sT0, "", "", ""), pullStep(sS0, 1000), ackLeasedN(sS0, 0, 100000),
		opStep(&Op{Kind: "SeekSnap", Name: sS0, Name2: "projects/p/snapshots/n0"}),
		pullStep(sS0, 1000),
		ackLeased(sS0, "ModAck", 0, false), pullStep(sS0, 1000))
	return s
}

// manyScript: more resources than the largest page (the server caps a page at 100): 103
// topics, 102 subscriptions of one topic, 103 snapshots, then every List walked with page
// sizes above the cap (101, 1000), at it (100) and below it, following the page tokens
// fanoutScript: one topic with n subscriptions (far more than any internal batch size), some of
// them filtered; every publish creates one delivery per matching subscription, whatever n (C01)
func fanoutScript(n int) []scriptStep {
	s := []scriptStep{opStep(&Op{Kind: "CreateTopic", Name: sT0})}
	name := func(i int) string { return fmt.Sprintf("projects/p/subscriptions/f%03d", i) }
	for i := 0; i < n; i++ {
		q := &SubReq{Name: name(i), Topic: sT0}
		if i%50 == 7 {
			q.Filter = "attributes:x"
		}
		s = append(s, subStep(q))
	}
	s = append(s, pubStep(sT0, ""), pubStep(sT0, "", ""))
	for _, i := range []int{0, 199, 200, 201, 202, n / 2, n - 2, n - 1} {
		if i >= 0 && i < n {
			s = append(s, pullStep(name(i), 10))
		}
	}
	return s
}

func manyScript() []scriptStep {
	s := []scriptStep{opStep(&Op{Kind: "CreateTopic", Name: sT0})}
	for i := 0; i < 102; i++ {
		s = append(s, opStep(&Op{Kind: "CreateTopic", Name: fmt.Sprintf("projects/p/topics/m%03d", i)}))
	}
	for i := 0; i < 102; i++ {
		s = append(s, subStep(&SubReq{Name: fmt.Sprintf("projects/p/subscriptions/m%03d", i), Topic: sT0}))
	}
	for i := 0; i < 103; i++ {
		s = append(s, opStep(&Op{Kind: "CreateSnap", Name: fmt.Sprintf("projects/p/snapshots/m%03d", i), Name2: "projects/p/subscriptions/m000"}))
	}
	walk := func(kind string, size int32, pages int) {
		for i := 0; i < pages; i++ {
			first := i == 0
			s = append(s, func(g *Gen, d *Dump, vnow int64) Action {
				op := &Op{Kind: kind, Project: "projects/p", Size: size}
				if kind == "ListTopicSubs" {
					op = &Op{Kind: kind, Name: sT0, Size: size}
				}
				if !first {
					key := kind + op.Project
					if kind == "ListTopicSubs" {
						key = kind + op.Name
					}
					op.Tok = g.lastTok[key]
				}
				return Action{Op: op}
			})
		}
	}
	for _, kind := range []string{"ListSnaps", "ListTopics", "ListSubs", "ListTopicSubs"} {
		walk(kind, 101, 3)
		walk(kind, 1000, 2)
		walk(kind, 100, 2)
		walk(kind, 60, 3)
	}
	return s
}

func dl(topic string, max int32) *struct {
	Topic string
	Max   int32
} {
	return &struct {
		Topic string
		Max   int32
	}{topic, max}
}

func retry(min time.Duration) *[2]*time.Duration {
	return &[2]*time.Duration{dptr(min), nil}
}

// the templates; each returns its script
var genScenarios = map[string]func(g *Gen) []scriptStep{
	// a dead-letter topic that is deleted before the attempts run out (C06, C01, C15)
	"dl-deleted-topic": func(g *Gen) []scriptStep {
		max := int32(1 + g.r.Intn(2))
		s := []scriptStep{
			opStep(&Op{Kind: "CreateTopic", Name: sT0}), opStep(&Op{Kind: "CreateTopic", Name: sT1}),
			subStep(&SubReq{Name: sS0, Topic: sT0, DL: dl(sT1, max), Retry: retry(time.Second), Ordered: g.chance(0.3)}),
		}
		if g.chance(0.5) {
			s = append(s, subStep(&SubReq{Name: sS1, Topic: sT1}))
		}
		s = append(s, pubStep(sT0, "", "k1"), opStep(&Op{Kind: "DeleteTopic", Name: sT1}))
		for i := int32(0); i < max; i++ {
			s = append(s, pullStep(sS0, 10), pastLeases(sS0))
		}
		switch g.r.Intn(3) {
		case 0:
			s = append(s, pullStep(sS0, 10))
		case 1:
			s = append(s, ackLeased(sS0, "Nack", 0, false))
		default:
			s = append(s, opStep(&Op{Kind: "Job", Job: "DeadLetterSweep", MaxN: 100}))
		}
		return append(s, pullStep(sS0, 10), opStep(&Op{Kind: "Job", Job: "DeadLetterSweep", MaxN: 100}))
	},
	// an ordered subscription on the dead-letter topic receiving same-key forwards (C05, C06)
	"dl-ordered-target": func(g *Gen) []scriptStep { return dlOrderedTarget(g, true, false) },
	"dl-ordered-sweep":  func(g *Gen) []scriptStep { return dlOrderedTarget(g, false, true) },
	// filtered subscriptions on the dead-letter topic, messages with attributes (C06, C07, C02):
	// the forward must route by the message's own attributes, with the target's own retention
	"dl-filtered-target": func(g *Gen) []scriptStep {
		shortTTL := 2 * time.Minute
		return []scriptStep{
			opStep(&Op{Kind: "CreateTopic", Name: sT0}), opStep(&Op{Kind: "CreateTopic", Name: sT1}),
			subStep(&SubReq{Name: sS0, Topic: sT0, DL: dl(sT1, 1), Retry: retry(time.Second), MsgTTL: dptr(time.Hour)}),
			subStep(&SubReq{Name: sS1, Topic: sT1, Filter: `attributes.x = "v"`, MsgTTL: &shortTTL}),
			subStep(&SubReq{Name: sS2, Topic: sT1, Filter: `NOT attributes:x`}),
			opStep(&Op{Kind: "Publish", Name: sT0, Msgs: []PubMsg{{Data: []byte(`{"n":1}`), Attrs: map[string]string{"x": "v"}}, {Data: []byte(`{"n":2}`), Attrs: map[string]string{"y": "w"}}, {Data: []byte(`{"n":3}`)}}}),
			pullStep(sS0, 10),
			advStep(5 * time.Minute), // longer than the dead-letter subscription's retention
			func(g *Gen, d *Dump, vnow int64) Action {
				switch g.r.Intn(3) {
				case 0:
					return Action{Op: &Op{Kind: "Pull", Name: sS0, Max: 10}}
				case 1:
					return ackLeased(sS0, "Nack", 0, false)(g, d, vnow)
				}
				return Action{Op: &Op{Kind: "Job", Job: "DeadLetterSweep", MaxN: 100}}
			},
			pullStep(sS1, 10), pullStep(sS2, 10),
		}
	},
	// a snapshot taken after out-of-order acks (non-empty acknowledged-message list), a sibling
	// subscription of the same topic still holding those messages, seeks of either to it (C13, C02)
	"snapshot-bystander":     func(g *Gen) []scriptStep { return snapshotBystander(g, sS0) },
	"snapshot-bystander-rev": func(g *Gen) []scriptStep { return snapshotBystander(g, sS1) },
	// same-key replay (C05): the successor has been delivered once when a seek brings its
	// acknowledged predecessor back; the successor's lease lapses while the predecessor is
	// outstanding again
	// an ordering chain whose head is acknowledged and physically pruned while the rest of the
	// chain is still outstanding: the successors must stay (their predecessor link is cleared,
	// they are not removed with the row they pointed at), and so on down the chain (C01/C05/C15)
	"ordered-prune": func(g *Gen) []scriptStep {
		job := func(name string) scriptStep {
			return opStep(&Op{Kind: "Job", Job: name, MaxN: 100, MinAge: time.Second})
		}
		return []scriptStep{
			opStep(&Op{Kind: "CreateTopic", Name: sT0}),
			subStep(&SubReq{Name: sS0, Topic: sT0, Ordered: true, Retry: retry(time.Second)}),
			pubStep(sT0, "k1", "k1", "k2"), pubStep(sT0, "k1", "k2"),
			pullStep(sS0, 10), ackLeased(sS0, "Ack", 0, false),
			advStep(3 * time.Second), job("PruneCompletedDeliveries"),
			pullStep(sS0, 10), ackLeased(sS0, "Ack", 0, true),
			advStep(3 * time.Second), job("PruneCompletedDeliveries"), job("PruneCompletedMessages"),
			pullStep(sS0, 10), pastLeases(sS0), pullStep(sS0, 10),
		}
	},
	// one nack request naming deliveries of ONE subscription at DIFFERENT attempt counts, with a
	// backoff small enough to carry no jitter (below 0.5 s): each is rescheduled by its own
	// min*1.1^attempts, not by a delay shared across the request (C04)
	"nack-mixed-attempts": func(g *Gen) []scriptStep {
		s := []scriptStep{
			opStep(&Op{Kind: "CreateTopic", Name: sT0}),
			subStep(&SubReq{Name: sS0, Topic: sT0, Retry: retry(200 * time.Millisecond)}),
			pubStep(sT0, ""),
		}
		for i := 0; i < 2+g.r.Intn(2); i++ {
			s = append(s, pullStep(sS0, 10), ackLeased(sS0, "Nack", 0, false))
		}
		s = append(s, pullStep(sS0, 10), pubStep(sT0, "", ""), pullStep(sS0, 10),
			ackLeased(sS0, "Nack", 0, false), pastLeases(sS0), pullStep(sS0, 10))
		return s
	},
	// one dead-letter topic shared by two source subscriptions (the same message is forwarded
	// twice into the dead-letter subscription, the second time while the first copy is still
	// outstanding), or a subscription whose dead-letter topic is its own topic (the forward
	// lands on the subscription that is dead-lettering): every forward creates its delivery (C06)
	// one Acknowledge / ModifyAckDeadline naming live, already acknowledged, foreign and unknown
	// ack ids together: the live ones are settled, the others ignored, the answer is OK - and an
	// error answer would have to leave everything as it was (C03, C09, C16)
	"ack-mixed-stale": func(g *Gen) []scriptStep {
		mixed := func(kind string) scriptStep {
			return func(g *Gen, d *Dump, vnow int64) Action {
				s0 := d.subByName(sS0)
				ids := []string{uuid.New().String()}
				for _, x := range d.Dels {
					if x.Attempts > 0 && (s0 != nil && x.Sub == s0.ID || x.Completed == nil) {
						ids = append(ids, x.ID.String())
					}
				}
				g.r.Shuffle(len(ids), func(i, j int) { ids[i], ids[j] = ids[j], ids[i] })
				if kind == "ModAck" {
					return Action{Op: &Op{Kind: "ModAck", Name: sS0, AckIDs: ids, Seconds: 30}}
				}
				return Action{Op: &Op{Kind: "Ack", Name: sS0, AckIDs: ids}}
			}
		}
		return []scriptStep{
			opStep(&Op{Kind: "CreateTopic", Name: sT0}),
			subStep(&SubReq{Name: sS0, Topic: sT0, Retry: retry(20 * time.Second)}), subStep(&SubReq{Name: sS1, Topic: sT0, Retry: retry(20 * time.Second)}),
			pubStep(sT0, "", "", ""), pullStep(sS0, 10), pullStep(sS1, 1), ackLeased(sS0, "Ack", 0, true),
			mixed("ModAck"), mixed("Ack"), pullStep(sS0, 10), pullStep(sS1, 10), pastLeases(sS1), pullStep(sS1, 10),
		}
	},
	// one nack request naming deliveries of two subscriptions with different dead-letter policies:
	// each delivery follows its OWN subscription's policy and backoff (C01, C04, C06)
	"nack-cross-subs": func(g *Gen) []scriptStep {
		return []scriptStep{
			opStep(&Op{Kind: "CreateTopic", Name: sT0}), opStep(&Op{Kind: "CreateTopic", Name: sT1}),
			subStep(&SubReq{Name: sS0, Topic: sT0, DL: dl(sT1, 1), Retry: retry(time.Second)}),
			subStep(&SubReq{Name: sS1, Topic: sT0, Retry: retry(20 * time.Second)}),
			subStep(&SubReq{Name: sS2, Topic: sT1}),
			pubStep(sT0, "", "", ""), pullStep(sS0, 10), pullStep(sS1, 10),
			func(g *Gen, d *Dump, vnow int64) Action {
				var ids []string
				for _, x := range d.Dels {
					if x.Completed == nil && x.Attempts > 0 {
						ids = append(ids, x.ID.String())
					}
				}
				g.r.Shuffle(len(ids), func(i, j int) { ids[i], ids[j] = ids[j], ids[i] })
				return Action{Op: &Op{Kind: "StreamAckNack", Nacks: ids}}
			},
			pullStep(sS2, 10), pastLeases(sS1), pullStep(sS1, 10), pullStep(sS0, 10),
		}
	},
	// a name used by a second and a third generation: delete, re-create, delete AGAIN while the
	// first deleted row is still there, re-create (subscription and topic) (C12)
	"recreated-twice": func(g *Gen) []scriptStep {
		return []scriptStep{
			opStep(&Op{Kind: "CreateTopic", Name: sT0}), opStep(&Op{Kind: "CreateTopic", Name: sT1}),
			subStep(&SubReq{Name: sS0, Topic: sT0}), pubStep(sT0, ""), pullStep(sS0, 10),
			opStep(&Op{Kind: "DeleteSub", Name: sS0}), subStep(&SubReq{Name: sS0, Topic: sT0}),
			opStep(&Op{Kind: "DeleteSub", Name: sS0}), subStep(&SubReq{Name: sS0, Topic: sT1, Ordered: true}),
			opStep(&Op{Kind: "GetSub", Name: sS0}),
			opStep(&Op{Kind: "DeleteTopic", Name: sT1}), opStep(&Op{Kind: "CreateTopic", Name: sT1}),
			opStep(&Op{Kind: "DeleteTopic", Name: sT1}), opStep(&Op{Kind: "CreateTopic", Name: sT1}),
			opStep(&Op{Kind: "DeleteSub", Name: sS0}), subStep(&SubReq{Name: sS0, Topic: sT1}),
			pubStep(sT1, "", ""), pullStep(sS0, 10), opStep(&Op{Kind: "GetSub", Name: sS0}),
		}
	},
	// a seek on a subscription with an injected delivery delay: messages never delivered keep their
	// due time (the seek does not touch what is neither acknowledged nor completed) (C13, C14)
	"seek-delayed": func(g *Gen) []scriptStep {
		return []scriptStep{
			opStep(&Op{Kind: "CreateTopic", Name: sT0}),
			subStep(&SubReq{Name: sS0, Topic: sT0}), subStep(&SubReq{Name: sS1, Topic: sT0}),
			opStep(&Op{Kind: "SetDelay", Name: sS0, Delay: 40 * time.Second}),
			pubStep(sT0, "", ""),
			opStep(&Op{Kind: "CreateSnap", Name: "projects/p/snapshots/n0", Name2: sS0}),
			pubStep(sT0, ""), advStep(2 * time.Second),
			func(g *Gen, d *Dump, vnow int64) Action {
				if g.chance(0.5) {
					return Action{Op: &Op{Kind: "SeekSnap", Name: sS0, Name2: "projects/p/snapshots/n0"}}
				}
				return Action{Op: &Op{Kind: "SeekTime", Name: sS0, Target: vnow - int64(time.Minute)}}
			},
			pullStep(sS0, 10), advStep(45 * time.Second), pullStep(sS0, 10),
		}
	},
	// a nack naming the same delivery twice: one reschedule / one forward, not two (C06)
	"nack-duplicate-id": func(g *Gen) []scriptStep {
		twice := func(g *Gen, d *Dump, vnow int64) Action {
			var ids []string
			for _, x := range d.Dels {
				if x.Completed == nil && x.Attempts > 0 {
					ids = append(ids, x.ID.String(), x.ID.String())
				}
			}
			return Action{Op: &Op{Kind: "StreamAckNack", Nacks: ids}}
		}
		return []scriptStep{
			opStep(&Op{Kind: "CreateTopic", Name: sT0}), opStep(&Op{Kind: "CreateTopic", Name: sT1}),
			subStep(&SubReq{Name: sS0, Topic: sT0, DL: dl(sT1, 2), Retry: retry(time.Second)}),
			subStep(&SubReq{Name: sS1, Topic: sT1}), subStep(&SubReq{Name: sS2, Topic: sT1}),
			pubStep(sT0, "", ""), pullStep(sS0, 10), twice, pastLeases(sS0), pullStep(sS0, 10), twice,
			pullStep(sS1, 10), pullStep(sS2, 10), pullStep(sS0, 10),
		}
	},
	// an ordered subscription with a dead-letter policy: A acknowledged, B dead-lettered, C
	// acknowledged (one key), then a seek back: the whole chain comes back, in order (C05, C13)
	"ordered-dl-seek": func(g *Gen) []scriptStep {
		return []scriptStep{
			opStep(&Op{Kind: "CreateTopic", Name: sT0}), opStep(&Op{Kind: "CreateTopic", Name: sT1}),
			subStep(&SubReq{Name: sS0, Topic: sT0, DL: dl(sT1, 1), Retry: retry(time.Second), Ordered: true}),
			subStep(&SubReq{Name: sS1, Topic: sT1}),
			opStep(&Op{Kind: "CreateSnap", Name: "projects/p/snapshots/n0", Name2: sS0}),
			pubStep(sT0, "k1", "k1", "k1"),
			pullStep(sS0, 10), ackLeased(sS0, "Ack", 0, false), // A
			pullStep(sS0, 10), pastLeases(sS0), pullStep(sS0, 10), // B: attempt 1, lapses, dead-lettered
			pullStep(sS0, 10), ackLeased(sS0, "Ack", 0, false), // C
			func(g *Gen, d *Dump, vnow int64) Action {
				if g.chance(0.5) {
					return Action{Op: &Op{Kind: "SeekSnap", Name: sS0, Name2: "projects/p/snapshots/n0"}}
				}
				return Action{Op: &Op{Kind: "SeekTime", Name: sS0, Target: vnow - int64(time.Hour)}}
			},
			pullStep(sS0, 10), ackLeased(sS0, "Ack", 0, false), pullStep(sS0, 10), ackLeased(sS0, "Ack", 0, false), pullStep(sS0, 10),
		}
	},
	// routing by filters whose reading is easy to get wrong in a shortcut: chains of three OR / AND
	// terms matched by a later term only, escapes in literals, deep parentheses, an attribute
	// named like a keyword in lower case (C01, C02, C07)
	"filter-routing": func(g *Gen) []scriptStep {
		fl := []string{`attributes.kind = "order" OR attributes.kind = "refund" OR attributes:urgent`,
			`attributes:a AND attributes:b AND attributes:c`, `attributes.path = "C:\\tmp"`, "attributes.k = \"\\u00e9\"",
			`(((((((((attributes.kind = "wanted")))))))))`, `attributes:or`, `NOT attributes:a OR attributes:b OR attributes:c`}
		s := []scriptStep{opStep(&Op{Kind: "CreateTopic", Name: sT0})}
		for i, f := range fl {
			s = append(s, subStep(&SubReq{Name: fmt.Sprintf("projects/p/subscriptions/f%d", i), Topic: sT0, Filter: f}))
		}
		msg := func(attrs map[string]string) scriptStep {
			return func(g *Gen, d *Dump, vnow int64) Action {
				return Action{Op: &Op{Kind: "Publish", Name: sT0, Msgs: []PubMsg{{Data: []byte(`{"a":1}`), Attrs: attrs}}}}
			}
		}
		s = append(s, msg(map[string]string{"kind": "refund"}), msg(map[string]string{"urgent": "1"}), msg(map[string]string{"kind": "order"}),
			msg(map[string]string{"a": "1", "b": "1"}), msg(map[string]string{"a": "1", "b": "1", "c": "1"}), msg(map[string]string{"c": "1"}),
			msg(map[string]string{"path": `C:\tmp`}), msg(map[string]string{"path": `C:\\tmp`}), msg(map[string]string{"k": "é"}), msg(map[string]string{"k": `\u00e9`}),
			msg(map[string]string{"kind": "wanted"}), msg(map[string]string{"or": "1"}), msg(map[string]string{"OR": "1"}), msg(nil))
		for i := range fl {
			s = append(s, pullStep(fmt.Sprintf("projects/p/subscriptions/f%d", i), 20))
		}
		return s
	},
	// snapshot names are global: a name taken through a subscription of one topic is taken for a
	// subscription of another topic too (C12)
	"snapshot-name-cross-topic": func(g *Gen) []scriptStep {
		return []scriptStep{
			opStep(&Op{Kind: "CreateTopic", Name: sT0}), opStep(&Op{Kind: "CreateTopic", Name: sT1}),
			subStep(&SubReq{Name: sS0, Topic: sT0}), subStep(&SubReq{Name: sS1, Topic: sT1}),
			opStep(&Op{Kind: "CreateSnap", Name: "projects/p/snapshots/n0", Name2: sS0}),
			opStep(&Op{Kind: "CreateSnap", Name: "projects/p/snapshots/n0", Name2: sS1}),
			opStep(&Op{Kind: "CreateSnap", Name: "projects/p/snapshots/n0", Name2: sS0}),
			opStep(&Op{Kind: "GetSnap", Name: "projects/p/snapshots/n0"}),
			opStep(&Op{Kind: "DeleteSnap", Name: "projects/p/snapshots/n0"}),
			opStep(&Op{Kind: "CreateSnap", Name: "projects/p/snapshots/n0", Name2: sS1}),
			opStep(&Op{Kind: "GetSnap", Name: "projects/p/snapshots/n0"}),
			opStep(&Op{Kind: "ListSnaps", Project: "projects/p", Size: 100}),
		}
	},
	// creating a name that is taken answers ALREADY_EXISTS whatever else is wrong with the request
	// (unknown topic, unknown or deleted dead-letter topic, bad filter) (C12)
	"existing-name-bad-refs": func(g *Gen) []scriptStep {
		none := "projects/p/topics/none"
		return []scriptStep{
			opStep(&Op{Kind: "CreateTopic", Name: sT0}), opStep(&Op{Kind: "CreateTopic", Name: sT1}),
			subStep(&SubReq{Name: sS0, Topic: sT0}),
			subStep(&SubReq{Name: sS0, Topic: none}),
			subStep(&SubReq{Name: sS0, Topic: sT0, DL: dl(none, 3)}),
			subStep(&SubReq{Name: sS0, Topic: sT0, Filter: "attributes:"}),
			opStep(&Op{Kind: "DeleteTopic", Name: sT1}),
			subStep(&SubReq{Name: sS0, Topic: sT1}),
			subStep(&SubReq{Name: sS0, Topic: sT0, DL: dl(sT1, 3)}),
			opStep(&Op{Kind: "CreateTopic", Name: sT0}),
			opStep(&Op{Kind: "GetSub", Name: sS0}),
			subStep(&SubReq{Name: sS1, Topic: none}),
			subStep(&SubReq{Name: sS1, Topic: sT1}),
			opStep(&Op{Kind: "ListSubs", Project: "projects/p", Size: 100}),
		}
	},
	"dl-self-loop": func(g *Gen) []scriptStep {
		return []scriptStep{
			opStep(&Op{Kind: "CreateTopic", Name: sT0}),
			subStep(&SubReq{Name: sS0, Topic: sT0, DL: dl(sT0, 1), Retry: retry(time.Second)}),
			subStep(&SubReq{Name: sS1, Topic: sT0}),
			pubStep(sT0, "", "k1"), pullStep(sS0, 10), pastLeases(sS0), pullStep(sS0, 10), pullStep(sS1, 10), pullStep(sS0, 10),
			pastLeases(sS0), pullStep(sS0, 10),
		}
	},
	"dl-shared-target": func(g *Gen) []scriptStep {
		return []scriptStep{
			opStep(&Op{Kind: "CreateTopic", Name: sT0}), opStep(&Op{Kind: "CreateTopic", Name: sT1}),
			subStep(&SubReq{Name: sS0, Topic: sT0, DL: dl(sT1, 1), Retry: retry(time.Second)}),
			subStep(&SubReq{Name: sS1, Topic: sT0, DL: dl(sT1, 1), Retry: retry(time.Second), Ordered: g.chance(0.3)}),
			subStep(&SubReq{Name: sS2, Topic: sT1}),
			opStep(&Op{Kind: "SetDelay", Name: sS2, Delay: 1500 * time.Millisecond}), // forwards honour it like publishes do (C14)
			pubStep(sT0, "", "k1"), pullStep(sS0, 10), pullStep(sS1, 10), pastLeases(sS0),
			pullStep(sS0, 10), // dead-letters both messages: first copies arrive on s2
			func(g *Gen, d *Dump, vnow int64) Action {
				if g.chance(0.5) {
					return Action{Op: &Op{Kind: "Pull", Name: sS2, Max: 1}} // one copy leased, one untouched
				}
				return Action{Op: &Op{Kind: "Job", Job: "DeadLetterSweep", MaxN: 10}} // s1's turn, by the sweep
			},
			pullStep(sS1, 10), // second copies of the same messages, while the first are outstanding
			pullStep(sS2, 10), ackLeased(sS2, "Ack", 0, false), pullStep(sS2, 10),
		}
	},
	// filters whose literals must survive verbatim (runs of blanks, a tab, parentheses), negated
	// filters against attribute-less messages: one subscription per filter, then messages whose
	// attributes tell the original literal from a mangled one (C07, C08, C17)
	"filter-literals": func(g *Gen) []scriptStep {
		fl := []string{`attributes.k = "a  b"`, "hasPrefix(attributes.k, \"x\ty\")", `attributes.x = "("`, `hasPrefix(attributes.y, "(555")`,
			`NOT attributes:x`, `NOT hasPrefix(attributes.x, "v")`, `NOT (attributes:x OR attributes:y)`, `attributes.k != "a  b"`, `-attributes:k`, `attributes:"a b"`}
		g.r.Shuffle(len(fl), func(i, j int) { fl[i], fl[j] = fl[j], fl[i] })
		s := []scriptStep{opStep(&Op{Kind: "CreateTopic", Name: sT0})}
		for i, f := range fl[:5] {
			s = append(s, subStep(&SubReq{Name: fmt.Sprintf("projects/p/subscriptions/f%d", i), Topic: sT0, Filter: f}))
		}
		msg := func(attrs map[string]string) scriptStep {
			return func(g *Gen, d *Dump, vnow int64) Action {
				return Action{Op: &Op{Kind: "Publish", Name: sT0, Msgs: []PubMsg{{Data: []byte(`{"a":1}`), Attrs: attrs}}}}
			}
		}
		s = append(s, msg(nil), msg(map[string]string{}), msg(map[string]string{"k": "a  b"}), msg(map[string]string{"k": "a b"}),
			msg(map[string]string{"k": "x\ty1"}), msg(map[string]string{"k": "x y"}), msg(map[string]string{"x": "(", "y": "(5551234"}),
			msg(map[string]string{"x": "v1", "a b": "1"}),
			// filters that are not sentences (exotic white space the lexer does not skip, blank): rejected, nothing stored
			opStep(&Op{Kind: "UpdateSub", Sub: &SubReq{Name: "projects/p/subscriptions/f0", Topic: sT0, Filter: "attributes:x\f"}, Paths: []string{"filter"}}),
			opStep(&Op{Kind: "UpdateSub", Sub: &SubReq{Name: "projects/p/subscriptions/f1", Topic: sT0, Filter: "\u00a0attributes:x"}, Paths: []string{"filter"}}),
			opStep(&Op{Kind: "UpdateSub", Sub: &SubReq{Name: "projects/p/subscriptions/f2", Topic: sT0, Filter: " \t"}, Paths: []string{"filter"}}),
			subStep(&SubReq{Name: "projects/p/subscriptions/f9", Topic: sT0, Filter: "attributes:x\u2003"}),
			// ... and filters that fail in the LEXER: unterminated literal, bad escape, NUL, unterminated comment
			opStep(&Op{Kind: "UpdateSub", Sub: &SubReq{Name: "projects/p/subscriptions/f0", Topic: sT0, Filter: `attributes.x = "abc`}, Paths: []string{"filter"}}),
			opStep(&Op{Kind: "UpdateSub", Sub: &SubReq{Name: "projects/p/subscriptions/f1", Topic: sT0, Filter: `attributes.x = "\q"`}, Paths: []string{"filter"}}),
			opStep(&Op{Kind: "UpdateSub", Sub: &SubReq{Name: "projects/p/subscriptions/f2", Topic: sT0, Filter: "attributes:x\x00"}, Paths: []string{"filter"}}),
			opStep(&Op{Kind: "UpdateSub", Sub: &SubReq{Name: "projects/p/subscriptions/f3", Topic: sT0, Filter: `attributes:x /* c`}, Paths: []string{"filter"}}),
			subStep(&SubReq{Name: "projects/p/subscriptions/f8", Topic: sT0, Filter: `attributes.x = "abc`}),
			// ... and literals the lexer lets through but that denote no character (refused when unquoting)
			opStep(&Op{Kind: "UpdateSub", Sub: &SubReq{Name: "projects/p/subscriptions/f0", Topic: sT0, Filter: `attributes.x = "\400"`}, Paths: []string{"filter"}}),
			opStep(&Op{Kind: "UpdateSub", Sub: &SubReq{Name: "projects/p/subscriptions/f1", Topic: sT0, Filter: `attributes.x = "\ud800"`}, Paths: []string{"filter"}}),
			subStep(&SubReq{Name: "projects/p/subscriptions/f7", Topic: sT0, Filter: `hasPrefix(attributes.x, "\U00110000")`}),
			subStep(&SubReq{Name: "projects/p/subscriptions/f6", Topic: sT0, Filter: `attributes:"\400"`}),
			opStep(&Op{Kind: "GetSub", Name: "projects/p/subscriptions/f2"}), opStep(&Op{Kind: "GetSub", Name: "projects/p/subscriptions/f0"}),
			opStep(&Op{Kind: "GetSub", Name: "projects/p/subscriptions/f1"}), pullStep("projects/p/subscriptions/f0", 20), pullStep("projects/p/subscriptions/f2", 20))
		return s
	},
	// a topic re-created under the name of a deleted one whose subscription still exists: the new
	// generation starts without subscriptions; the old subscription shows a deleted topic (C12)
	"topic-recreated": func(g *Gen) []scriptStep {
		return []scriptStep{
			opStep(&Op{Kind: "CreateTopic", Name: sT0}),
			subStep(&SubReq{Name: sS0, Topic: sT0}), subStep(&SubReq{Name: sS1, Topic: sT0, Ordered: true}),
			opStep(&Op{Kind: "CreateSnap", Name: "projects/p/snapshots/n0", Name2: sS0}),
			opStep(&Op{Kind: "ListTopicSubs", Name: sT0, Size: 10}),
			opStep(&Op{Kind: "DeleteTopic", Name: sT0}),
			opStep(&Op{Kind: "CreateTopic", Name: sT0}),
			opStep(&Op{Kind: "ListTopicSubs", Name: sT0, Size: 10}), opStep(&Op{Kind: "ListTopicSubs", Name: sT0, Size: 1}),
			opStep(&Op{Kind: "GetSub", Name: sS0}), opStep(&Op{Kind: "ListSubs", Project: "projects/p", Size: 10}),
			opStep(&Op{Kind: "ListSnaps", Project: "projects/p", Size: 10}),
			subStep(&SubReq{Name: sS2, Topic: sT0}),
			opStep(&Op{Kind: "ListTopicSubs", Name: sT0, Size: 10}),
			pubStep(sT0, ""), pullStep(sS0, 10), pullStep(sS2, 10),
		}
	},
	// the expiration policy raised, then idle for longer than the old TTL but less than the new
	// one: the expiry sweep must leave the subscription alone; lowered again, it must go (C14, C17)
	"ttl-raised": func(g *Gen) []scriptStep {
		return []scriptStep{
			opStep(&Op{Kind: "CreateTopic", Name: sT0}),
			subStep(&SubReq{Name: sS0, Topic: sT0, HasExp: true, TTL: dptr(10 * time.Minute)}),
			subStep(&SubReq{Name: sS1, Topic: sT0, HasExp: true, TTL: dptr(10 * time.Minute)}),
			opStep(&Op{Kind: "UpdateSub", Sub: &SubReq{Name: sS0, Topic: sT0, HasExp: true, TTL: dptr(time.Hour)}, Paths: []string{"expiration_policy"}}),
			opStep(&Op{Kind: "GetSub", Name: sS0}),
			advStep(20 * time.Minute),
			opStep(&Op{Kind: "Job", Job: "ExpireSubs", MaxN: 100}),
			opStep(&Op{Kind: "GetSub", Name: sS0}), opStep(&Op{Kind: "GetSub", Name: sS1}),
			opStep(&Op{Kind: "UpdateSub", Sub: &SubReq{Name: sS0, Topic: sT0, HasExp: true, TTL: dptr(45 * time.Second)}, Paths: []string{"expiration_policy"}}),
			advStep(2 * time.Minute),
			opStep(&Op{Kind: "Job", Job: "ExpireSubs", MaxN: 100}),
			opStep(&Op{Kind: "GetSub", Name: sS0}),
		}
	},
	// two deleted topics, one still named by a live subscription's dead-letter policy (kept), one
	// not: pruned with batch size ONE the job must still get to the one it may remove (C15)
	"prune-topics-batch-one": func(g *Gen) []scriptStep {
		job := func() scriptStep {
			return opStep(&Op{Kind: "Job", Job: "PruneDeletedTopics", MaxN: 1, MinAge: time.Second})
		}
		return []scriptStep{
			opStep(&Op{Kind: "CreateTopic", Name: sT0}), opStep(&Op{Kind: "CreateTopic", Name: sT1}),
			opStep(&Op{Kind: "CreateTopic", Name: "projects/p/topics/t2"}), opStep(&Op{Kind: "CreateTopic", Name: "projects/p/topics/t3"}),
			subStep(&SubReq{Name: sS0, Topic: sT0, DL: dl(sT1, 2)}),
			subStep(&SubReq{Name: sS1, Topic: sT0, DL: dl("projects/p/topics/t3", 2)}),
			opStep(&Op{Kind: "DeleteTopic", Name: sT1}), opStep(&Op{Kind: "DeleteTopic", Name: "projects/p/topics/t3"}),
			opStep(&Op{Kind: "DeleteTopic", Name: "projects/p/topics/t2"}),
			advStep(5 * time.Second), job(), job(), job(),
			opStep(&Op{Kind: "ListTopics", Project: "projects/p", Size: 10}), opStep(&Op{Kind: "GetSub", Name: sS0}),
		}
	},
	// a late nack / zero deadline for a delivery that was ACKNOWLEDGED on its last permitted attempt
	// (attempts >= max_delivery_attempts, full dead-letter policy): nothing happens -- in particular
	// nothing is forwarded to the dead-letter topic (C03)
	"nack-after-ack-dl": func(g *Gen) []scriptStep {
		var acked []string
		return []scriptStep{
			opStep(&Op{Kind: "CreateTopic", Name: sT0}), opStep(&Op{Kind: "CreateTopic", Name: sT1}),
			subStep(&SubReq{Name: sS0, Topic: sT0, DL: dl(sT1, 1), Retry: retry(time.Second)}),
			subStep(&SubReq{Name: sS1, Topic: sT1}),
			pubStep(sT0, "", "k1"), pullStep(sS0, 10),
			func(g *Gen, d *Dump, vnow int64) Action {
				s := d.subByName(sS0)
				acked = acked[:0]
				for _, x := range d.Dels {
					if s != nil && x.Sub == s.ID && x.Completed == nil && x.Attempts > 0 {
						acked = append(acked, x.ID.String())
					}
				}
				return Action{Op: &Op{Kind: "Ack", Name: sS0, AckIDs: append([]string(nil), acked...)}}
			},
			func(g *Gen, d *Dump, vnow int64) Action {
				return Action{Op: &Op{Kind: "StreamAckNack", Nacks: append([]string(nil), acked...)}}
			},
			pullStep(sS1, 10),
			func(g *Gen, d *Dump, vnow int64) Action {
				return Action{Op: &Op{Kind: "ModAck", Name: sS0, AckIDs: append([]string(nil), acked...), Seconds: 0}}
			},
			func(g *Gen, d *Dump, vnow int64) Action {
				return Action{Op: &Op{Kind: "Ack", Name: sS0, AckIDs: append([]string(nil), acked...)}}
			},
			pullStep(sS0, 10), pullStep(sS1, 10),
		}
	},
	// dead-lettering x message pruning: the forwarded delivery is published at dead-letter time, the
	// message long before; the message pruner must count it (a message with ANY delivery stays) (C15)
	"dl-then-prune-messages": func(g *Gen) []scriptStep {
		job := func(name string, age time.Duration) scriptStep {
			return opStep(&Op{Kind: "Job", Job: name, MaxN: 100, MinAge: age})
		}
		return []scriptStep{
			opStep(&Op{Kind: "CreateTopic", Name: sT0}), opStep(&Op{Kind: "CreateTopic", Name: sT1}),
			subStep(&SubReq{Name: sS0, Topic: sT0, DL: dl(sT1, 1), Retry: retry(time.Second)}),
			subStep(&SubReq{Name: sS1, Topic: sT1}),
			pubStep(sT0, "", ""), pullStep(sS0, 10), advStep(20 * time.Second),
			pullStep(sS0, 10), // dead-letters: the copies on s1 are published NOW, the messages 20 s ago
			advStep(3 * time.Second),
			job("PruneCompletedDeliveries", time.Second),  // the retired source deliveries go
			job("PruneCompletedMessages", 10*time.Second), // older than 10 s: the messages are, their live copies are not
			pullStep(sS1, 10), ackLeased(sS1, "Ack", 0, true),
			advStep(15 * time.Second), job("PruneCompletedDeliveries", time.Second), job("PruneCompletedMessages", 10*time.Second),
			pullStep(sS1, 10),
		}
	},
	// the expired-deliveries pruner takes no age margin: a delivery that expires SOON is not expired
	// (and removing it would also release its same-key successor) (C01, C05, C15)
	"prune-expired-minage": func(g *Gen) []scriptStep {
		return []scriptStep{
			opStep(&Op{Kind: "CreateTopic", Name: sT0}),
			subStep(&SubReq{Name: sS0, Topic: sT0, Ordered: true, MsgTTL: dptr(90 * time.Second)}),
			pubStep(sT0, "k1"), advStep(70 * time.Second), pubStep(sT0, "k1", "k2"),
			opStep(&Op{Kind: "Job", Job: "PruneExpiredDeliveries", MaxN: 100, MinAge: 40 * time.Second}),
			pullStep(sS0, 10),
			advStep(25 * time.Second), // now the first one HAS expired
			opStep(&Op{Kind: "Job", Job: "PruneExpiredDeliveries", MaxN: 100, MinAge: 40 * time.Second}),
			pullStep(sS0, 10),
		}
	},
	// expiration TTL and message retention DIFFER: what a seek gives back to a revived delivery is
	// the message retention (C17: what is configured is what is enforced; C13, C14)
	"seek-retention": func(g *Gen) []scriptStep {
		return []scriptStep{
			opStep(&Op{Kind: "CreateTopic", Name: sT0}),
			subStep(&SubReq{Name: sS0, Topic: sT0, HasExp: true, TTL: dptr(3 * time.Hour), MsgTTL: dptr(10 * time.Minute)}),
			subStep(&SubReq{Name: sS1, Topic: sT0}), // the defaults: 30 d and 7 d
			pubStep(sT0, "", ""), pullStep(sS0, 10), ackLeased(sS0, "Ack", 0, false), pullStep(sS1, 10), ackLeased(sS1, "Ack", 0, false),
			advStep(30 * time.Second),
			func(g *Gen, d *Dump, vnow int64) Action {
				return Action{Op: &Op{Kind: "SeekTime", Name: sS0, Target: vnow - int64(time.Hour)}}
			},
			func(g *Gen, d *Dump, vnow int64) Action {
				return Action{Op: &Op{Kind: "SeekTime", Name: sS1, Target: vnow - int64(time.Hour)}}
			},
			opStep(&Op{Kind: "GetSub", Name: sS0}), pullStep(sS0, 10), pullStep(sS1, 10),
			// the retention is then SHORTENED below the age of the revived messages: what the seek gave
			// back stays until the deadline the seek gave it (a configuration change rewrites no deadline)
			advStep(5 * time.Minute),
			opStep(&Op{Kind: "UpdateSub", Sub: &SubReq{Name: sS0, Topic: sT0, MsgTTL: dptr(2 * time.Minute)}, Paths: []string{"message_retention_duration"}}),
			opStep(&Op{Kind: "GetSub", Name: sS0}), pullStep(sS0, 10), pubStep(sT0, ""), advStep(3 * time.Minute), pullStep(sS0, 10),
		}
	},
	// durations below one second (a protobuf Duration with seconds = 0 and nanos > 0) are durations,
	// not "unset": stored and reported as given, and enforced (C14, C17)
	"subsecond-durations": func(g *Gen) []scriptStep {
		return []scriptStep{
			opStep(&Op{Kind: "CreateTopic", Name: sT0}),
			subStep(&SubReq{Name: sS0, Topic: sT0, HasExp: true, TTL: dptr(500 * time.Millisecond), MsgTTL: dptr(250 * time.Microsecond)}),
			subStep(&SubReq{Name: sS1, Topic: sT0, HasExp: true, TTL: dptr(time.Nanosecond), MsgTTL: dptr(999999999 * time.Nanosecond)}),
			opStep(&Op{Kind: "GetSub", Name: sS0}), opStep(&Op{Kind: "GetSub", Name: sS1}),
			subStep(&SubReq{Name: sS2, Topic: sT0}),
			opStep(&Op{Kind: "UpdateSub", Sub: &SubReq{Name: sS2, Topic: sT0, HasExp: true, TTL: dptr(999999999 * time.Nanosecond)}, Paths: []string{"expiration_policy"}}),
			opStep(&Op{Kind: "UpdateSub", Sub: &SubReq{Name: sS2, Topic: sT0, MsgTTL: dptr(500 * time.Millisecond)}, Paths: []string{"message_retention_duration"}}),
			opStep(&Op{Kind: "GetSub", Name: sS2}), pubStep(sT0, ""), advStep(2 * time.Second), pullStep(sS2, 10),
			opStep(&Op{Kind: "Job", Job: "ExpireSubs", MaxN: 10}), opStep(&Op{Kind: "GetSub", Name: sS0}), opStep(&Op{Kind: "GetSub", Name: sS2}),
		}
	},
	// a retry policy REPLACED by one that names only one bound: the other bound is gone (not kept
	// from the old policy), and the next lease follows the new policy (C04, C17)
	"retry-replaced": func(g *Gen) []scriptStep {
		return []scriptStep{
			opStep(&Op{Kind: "CreateTopic", Name: sT0}),
			subStep(&SubReq{Name: sS0, Topic: sT0, Retry: &[2]*time.Duration{dptr(300 * time.Millisecond), dptr(400 * time.Millisecond)}}),
			subStep(&SubReq{Name: sS1, Topic: sT0, Retry: &[2]*time.Duration{dptr(2 * time.Second), dptr(3 * time.Second)}}),
			opStep(&Op{Kind: "UpdateSub", Sub: &SubReq{Name: sS0, Topic: sT0, Retry: &[2]*time.Duration{dptr(30 * time.Second), nil}}, Paths: []string{"retry_policy"}}),
			opStep(&Op{Kind: "UpdateSub", Sub: &SubReq{Name: sS1, Topic: sT0, Retry: &[2]*time.Duration{nil, dptr(1 * time.Second)}}, Paths: []string{"retry_policy"}}),
			opStep(&Op{Kind: "GetSub", Name: sS0}), opStep(&Op{Kind: "GetSub", Name: sS1}),
			pubStep(sT0, "", ""), pullStep(sS0, 10), pullStep(sS1, 10),
			advStep(5 * time.Second), pullStep(sS0, 10), pullStep(sS1, 10),
			opStep(&Op{Kind: "UpdateSub", Sub: &SubReq{Name: sS0, Topic: sT0}, Paths: []string{"retry_policy"}}),
			advStep(40 * time.Second), pullStep(sS0, 10), advStep(11 * time.Second), pullStep(sS0, 10),
		}
	},
	// a sibling subscription has acknowledged what the ordered one still holds; a snapshot of the
	// ordered one records ITS OWN acknowledgement state only; after a seek to it the chain is
	// intact: one same-key message at a time (C05, C13)
	"snapshot-sibling-acks": func(g *Gen) []scriptStep {
		return []scriptStep{
			opStep(&Op{Kind: "CreateTopic", Name: sT0}),
			subStep(&SubReq{Name: sS0, Topic: sT0, Ordered: true}), subStep(&SubReq{Name: sS1, Topic: sT0}),
			pubStep(sT0, "k1"), pubStep(sT0, "k1", "k2"),
			pullStep(sS1, 10), ackLeasedN(sS1, 1, 100000), // the sibling acknowledges all but the oldest
			opStep(&Op{Kind: "CreateSnap", Name: "projects/p/snapshots/n0", Name2: sS0}),
			pubStep(sT0, "k1"),
			opStep(&Op{Kind: "SeekSnap", Name: sS0, Name2: "projects/p/snapshots/n0"}),
			pullStep(sS0, 10), ackLeased(sS0, "Ack", 0, true), pullStep(sS0, 10), ackLeased(sS0, "Ack", 0, true), pullStep(sS0, 10),
		}
	},
	"ordered-replay": func(g *Gen) []scriptStep {
		return []scriptStep{
			opStep(&Op{Kind: "CreateTopic", Name: sT0}),
			subStep(&SubReq{Name: sS0, Topic: sT0, Ordered: true, Retry: retry(time.Second)}),
			pubStep(sT0, "k1"), pullStep(sS0, 10), ackLeased(sS0, "Ack", 0, false),
			pubStep(sT0, "k1", "k2", "k1"),
			pullStep(sS0, 10), // the second k1 message (and the k2 one) get their first delivery
			func(g *Gen, d *Dump, vnow int64) Action {
				return Action{Op: &Op{Kind: "SeekTime", Name: sS0, Target: vnow - int64(time.Hour)}}
			},
			pastLeases(sS0),
			pullStep(sS0, int32(1+g.r.Intn(3))), pullStep(sS0, 10),
			ackLeased(sS0, "Ack", 0, true), pastLeases(sS0), pullStep(sS0, 10),
		}
	},
	// every optional block set to a non-default value, then replaced one field at a time by a
	// request that leaves it unset: the documented defaults must be re-applied (C17)
	"config-reset-each-field": func(g *Gen) []scriptStep {
		full := &SubReq{Name: sS0, Topic: sT0, HasExp: true, TTL: dptr(3 * time.Hour), MsgTTL: dptr(25 * time.Minute), Ordered: true,
			Labels: map[string]string{"a": "b"}, Filter: `attributes:x`, Retry: &[2]*time.Duration{dptr(3 * time.Second), dptr(100 * time.Second)},
			DL: dl(sT1, 3), Push: &PushReq{Endpoint: "http://127.0.0.1:1/x"}}
		s := []scriptStep{
			opStep(&Op{Kind: "CreateTopic", Name: sT0}), opStep(&Op{Kind: "CreateTopic", Name: sT1}),
			subStep(full), opStep(&Op{Kind: "GetSub", Name: sS0}),
		}
		paths := []string{"dead_letter_policy", "retry_policy", "expiration_policy", "message_retention_duration", "labels", "filter", "push_config", "enable_message_ordering"}
		g.r.Shuffle(len(paths), func(i, j int) { paths[i], paths[j] = paths[j], paths[i] })
		for _, p := range paths {
			q := &SubReq{Name: sS0, Topic: sT0}
			switch p {
			case "dead_letter_policy":
				q.DL = dl(sT1, 0) // a topic but no attempt count: the default of 5
			case "retry_policy":
				q.Retry = &[2]*time.Duration{nil, dptr(50 * time.Second)}
			case "expiration_policy":
				q.HasExp = true // present but empty: the default ttl
			}
			s = append(s, opStep(&Op{Kind: "UpdateSub", Sub: q, Paths: []string{p}}), opStep(&Op{Kind: "GetSub", Name: sS0}))
		}
		return s
	},
	// a seek that revives acknowledged messages late in their retention (C13, C14)
	"seek-revive-late": func(g *Gen) []scriptStep {
		return []scriptStep{
			opStep(&Op{Kind: "CreateTopic", Name: sT0}),
			subStep(&SubReq{Name: sS0, Topic: sT0, MsgTTL: dptr(90 * time.Second), Ordered: true}),
			pubStep(sT0, "", "k1"), pullStep(sS0, 10), ackLeased(sS0, "Ack", 0, false),
			advStep(60 * time.Second),
			func(g *Gen, d *Dump, vnow int64) Action {
				return Action{Op: &Op{Kind: "SeekTime", Name: sS0, Target: vnow - int64(80*time.Second)}}
			},
			pullStep(sS0, 1),
			advStep(40 * time.Second), // past publish + retention, before seek + retention
			pullStep(sS0, 10),
			// a same-key publish now: its predecessor is the revived delivery (outstanding, retention
			// restarted by the seek), although that one was published more than one retention ago
			pubStep(sT0, "k1"), pullStep(sS0, 10),
			advStep(45 * time.Second), pullStep(sS0, 10),
			advStep(20 * time.Second), pullStep(sS0, 10),
		}
	},
	// a subscription idle past its expiration that no sweep has flagged yet (C01, C14, C15)
	"idle-expired-live": func(g *Gen) []scriptStep {
		return []scriptStep{
			opStep(&Op{Kind: "CreateTopic", Name: sT0}),
			subStep(&SubReq{Name: sS0, Topic: sT0, HasExp: true, TTL: dptr(45 * time.Second)}),
			pubStep(sT0, ""),
			advStep(50 * time.Second),
			pubStep(sT0, "", ""),
			opStep(&Op{Kind: "GetSub", Name: sS0}),
			opStep(&Op{Kind: "ListSubs", Project: "projects/p", Size: 100}),
			opStep(&Op{Kind: "ListTopicSubs", Name: sT0, Size: 100}),
			opStep(&Op{Kind: "Job", Job: "PruneDeletedSubDeliveries", MinAge: time.Second, MaxN: 100}),
			pullStep(sS0, 10),
			advStep(50 * time.Second),
			opStep(&Op{Kind: "Job", Job: "ExpireSubs", MaxN: 100}),
			pullStep(sS0, 10), pubStep(sT0, ""),
		}
	},
	// a filter replaced after it was first used, and a subscription re-created under the
	// same name with another filter (C01, C02, C07, C12)
	"filter-replaced": func(g *Gen) []scriptStep {
		pub := func(n int) scriptStep {
			return opStep(&Op{Kind: "Publish", Name: sT0, Msgs: []PubMsg{
				{Data: []byte(fmt.Sprintf(`{"n":%d}`, n)), Attrs: map[string]string{"x": "v"}},
				{Data: []byte(fmt.Sprintf(`{"n":%d}`, n+1)), Attrs: map[string]string{"y": ""}},
				{Data: []byte(fmt.Sprintf(`{"n":%d}`, n+2))}}})
		}
		// both ways of replacing a filter, one after the other: an update of the filter field, and a
		// re-creation of the subscription under the same name -- each followed by messages on which
		// the old and the new filter disagree
		return []scriptStep{
			opStep(&Op{Kind: "CreateTopic", Name: sT0}),
			subStep(&SubReq{Name: sS0, Topic: sT0, Filter: `attributes.x = "v"`}),
			pub(1), pullStep(sS0, 10),
			opStep(&Op{Kind: "UpdateSub", Sub: &SubReq{Name: sS0, Topic: sT0, Filter: g.pick([]string{`attributes:y`, `NOT attributes:x`})}, Paths: []string{"filter"}}),
			pub(4), pullStep(sS0, 10),
			opStep(&Op{Kind: "UpdateSub", Sub: &SubReq{Name: sS0, Topic: sT0, Filter: ``}, Paths: []string{"filter"}}),
			pub(7), pullStep(sS0, 10),
			opStep(&Op{Kind: "DeleteSub", Name: sS0}), subStep(&SubReq{Name: sS0, Topic: sT0, Filter: `attributes:y`}),
			pub(10), pullStep(sS0, 10),
		}
	},
	// same-key chain: ack, prune of the completed predecessor, seek back (C05, C15)
	"ordered-chain": func(g *Gen) []scriptStep {
		return []scriptStep{
			opStep(&Op{Kind: "CreateTopic", Name: sT0}),
			subStep(&SubReq{Name: sS0, Topic: sT0, Ordered: true}),
			pubStep(sT0, "k1"), pullStep(sS0, 10), ackLeased(sS0, "Ack", 0, false),
			pubStep(sT0, "k1", "", "k1"),
			func(g *Gen, d *Dump, vnow int64) Action {
				if g.chance(0.5) {
					// the successor is delivered once before its (acknowledged) predecessor comes back
					return Action{Op: &Op{Kind: "Pull", Name: sS0, Max: 10}}
				}
				return Action{Op: &Op{Kind: "Job", Job: g.pick([]string{"PruneCompletedDeliveries", "PruneCompletedMessages", "PruneExpiredDeliveries"}), MinAge: 0, MaxN: 1}}
			},
			// the acknowledged predecessor is pruned while its same-key successors are outstanding
			opStep(&Op{Kind: "Job", Job: "PruneCompletedDeliveries", MinAge: 0, MaxN: 100}),
			func(g *Gen, d *Dump, vnow int64) Action {
				if g.chance(0.3) {
					// purge forward first: the links of what it completes must survive a later replay
					return Action{Op: &Op{Kind: "SeekTime", Name: sS0, Target: vnow + int64(time.Minute)}}
				}
				return Action{Op: &Op{Kind: "GetSub", Name: sS0}}
			},
			func(g *Gen, d *Dump, vnow int64) Action {
				if g.chance(0.5) {
					return Action{Op: &Op{Kind: "SeekTime", Name: sS0, Target: vnow - int64(time.Hour)}}
				}
				return Action{Op: &Op{Kind: "Pull", Name: sS0, Max: 1}}
			},
			pastLeases(sS0), pullStep(sS0, 10), ackLeased(sS0, "Ack", 0, true), pullStep(sS0, 10),
		}
	},
	// a positive deadline change shorter than the running lease, and a nack (C04)
	"lease-changes": func(g *Gen) []scriptStep {
		return []scriptStep{
			opStep(&Op{Kind: "CreateTopic", Name: sT0}),
			subStep(&SubReq{Name: sS0, Topic: sT0, Retry: retry(30 * time.Second)}),
			pubStep(sT0, "", ""), pullStep(sS0, 10),
			ackLeased(sS0, "ModAck", int32(1+g.r.Intn(5)), true),
			advStep(8 * time.Second), pullStep(sS0, 10),
			ackLeased(sS0, "ModAck", 600, true), ackLeased(sS0, "ModAck", 0, false), pullStep(sS0, 10),
			// a lease extended far out and then NACKED (stream / push path): the nack decides, the message
			// is due after the retry backoff, not at the extended deadline
			ackLeased(sS0, "ModAck", 300, false), ackLeased(sS0, "Nack", 0, false), advStep(45 * time.Second), pullStep(sS0, 10),
		}
	},
}

var scenarioNames = []string{"ordered-replay", "ordered-prune", "snapshot-sibling-acks", "retry-replaced", "dl-then-prune-messages", "prune-expired-minage", "nack-mixed-attempts", "nack-after-ack-dl", "dl-shared-target", "dl-self-loop", "filter-literals", "ttl-raised", "prune-topics-batch-one", "dl-deleted-topic", "dl-ordered-target", "dl-ordered-sweep", "dl-filtered-target", "snapshot-bystander", "snapshot-bystander-rev", "seek-revive-late", "idle-expired-live", "filter-replaced", "ordered-chain", "lease-changes", "ack-mixed-stale", "nack-cross-subs", "recreated-twice", "seek-delayed", "nack-duplicate-id", "ordered-dl-seek", "filter-routing", "seek-retention", "subsecond-durations"}

// scenariosFor lists the templates a generator profile may start with
func scenariosFor(profile string) []string {
	switch profile {
	case "delivery", "general", "prune":
		return scenarioNames
	case "seek":
		return []string{"seek-revive-late", "ordered-chain", "snapshot-bystander", "snapshot-bystander-rev", "ordered-replay", "seek-retention", "snapshot-sibling-acks", "seek-delayed", "ordered-dl-seek"}
	case "names":
		return []string{"idle-expired-live", "topic-recreated", "recreated-twice", "snapshot-name-cross-topic", "existing-name-bad-refs"}
	case "config":
		return []string{"filter-replaced", "idle-expired-live", "config-reset-each-field", "filter-literals", "ttl-raised", "seek-retention", "retry-replaced", "subsecond-durations"}
	case "c15":
		// no reviving seeks in the paired histories
		return []string{"ordered-prune", "dl-then-prune-messages", "prune-expired-minage", "prune-topics-batch-one", "dl-shared-target", "dl-self-loop", "dl-deleted-topic", "dl-ordered-target", "dl-ordered-sweep", "dl-filtered-target", "idle-expired-live", "filter-replaced"}
	}
	return nil
}

// a snapshot of s0 with a non-empty acknowledged list, then both subscriptions of the topic seek to
// it, [seekWho] first: each is once the seeker and once the bystander (C01, C02, C03, C13)
func snapshotBystander(g *Gen, seekWho string) []scriptStep {
	return []scriptStep{
		opStep(&Op{Kind: "CreateTopic", Name: sT0}),
		subStep(&SubReq{Name: sS0, Topic: sT0}), subStep(&SubReq{Name: sS1, Topic: sT0, Ordered: g.chance(0.3)}),
		pubStep(sT0, "", "k1", ""), pubStep(sT0, "k1"),
		pullStep(sS0, 10),
		func(g *Gen, d *Dump, vnow int64) Action {
			// acknowledge everything but the oldest message on s0
			s := d.subByName(sS0)
			var rows []DelRow
			for _, x := range d.Dels {
				if s != nil && x.Sub == s.ID && x.Completed == nil && x.Attempts > 0 {
					rows = append(rows, x)
				}
			}
			var ids []string
			for _, x := range rows {
				oldest := true
				for _, y := range rows {
					if y.Published < x.Published {
						oldest = false
					}
				}
				if !oldest {
					ids = append(ids, x.ID.String())
				}
			}
			return Action{Op: &Op{Kind: "Ack", Name: sS0, AckIDs: ids}}
		},
		// one more message, never pulled: the OLDEST unacknowledged one is leased (its next attempt
		// lies in the future), a newer one is not -- the snapshot's watermark is still the oldest
		pubStep(sT0, ""),
		opStep(&Op{Kind: "CreateSnap", Name: "projects/p/snapshots/n0", Name2: sS0}),
		pubStep(sT0, ""), pullStep(sS0, 10), ackLeased(sS0, "Ack", 0, false),
		opStep(&Op{Kind: "SeekSnap", Name: seekWho, Name2: "projects/p/snapshots/n0"}),
		pullStep(sS1, 10), pullStep(sS0, 10),
		// ... and the other way round: each subscription is once the seeker, once the bystander
		func(g *Gen, d *Dump, vnow int64) Action {
			other := sS0
			if seekWho == sS0 {
				other = sS1
			}
			return Action{Op: &Op{Kind: "SeekSnap", Name: other, Name2: "projects/p/snapshots/n0"}}
		},
		pullStep(sS0, 10), pullStep(sS1, 10),
	}
}

// same-key messages dead-lettered into an ORDERED subscription of the dead-letter topic: one at a
// time by pulls on an ordered source, or in batches by the sweep on an unordered source (C05, C06)
func dlOrderedTarget(g *Gen, srcOrdered, bySweep bool) []scriptStep {
	s := []scriptStep{
		opStep(&Op{Kind: "CreateTopic", Name: sT0}), opStep(&Op{Kind: "CreateTopic", Name: sT1}),
		subStep(&SubReq{Name: sS0, Topic: sT0, DL: dl(sT1, 1), Retry: retry(time.Second), Ordered: srcOrdered}),
		subStep(&SubReq{Name: sS1, Topic: sT1, Ordered: true}),
		pubStep(sT0, "k1", "k1", "k2"), pubStep(sT0, "k1"),
		pullStep(sS0, 10), pastLeases(sS0),
	}
	if !bySweep {
		s = append(s, pullStep(sS0, 10), pastLeases(sS0), pullStep(sS0, 10), pastLeases(sS0), pullStep(sS0, 10))
	} else {
		s = append(s, opStep(&Op{Kind: "Job", Job: "DeadLetterSweep", MaxN: 1}), opStep(&Op{Kind: "Job", Job: "DeadLetterSweep", MaxN: 100}), pullStep(sS0, 10), pastLeases(sS0),
			opStep(&Op{Kind: "Job", Job: "DeadLetterSweep", MaxN: 100}))
	}
	return append(s, pullStep(sS1, int32(1+g.r.Intn(3))), ackLeased(sS1, "Ack", 0, true), pullStep(sS1, 10))
}
