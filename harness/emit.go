package main

// Emission of observed histories as Coq terms (cases files evaluated with vm_compute).

import (
	"bytes"
	"fmt"
	"reflect"
	"sort"
	"strings"
	"time"

	"github.com/google/uuid"
	"google.golang.org/grpc/codes"
)

type Emitter struct {
	rank map[uuid.UUID]int
}

// NewEmitter ranks every UUID occurring in the history in byte order: an
// order-preserving injection into N.
func NewEmitter(h []*Obs) *Emitter {
	set := map[uuid.UUID]bool{}
	add := func(u uuid.UUID) { set[u] = true }
	addS := func(ss []string) {
		for _, s := range ss {
			if u, err := uuid.Parse(s); err == nil {
				add(u)
			}
		}
	}
	for _, o := range h {
		op := o.Op
		add(op.Fresh)
		addS(op.AckIDs)
		addS(op.Nacks)
		if u, err := uuid.Parse(op.Tok); err == nil {
			add(u)
		}
		for _, m := range op.Msgs {
			add(m.ID)
		}
		for _, t := range op.FreshDels {
			add(t.Msg)
			add(t.Sub)
			add(t.ID)
		}
		for _, u := range op.Returned {
			add(u)
		}
		for _, u := range op.Others {
			add(u)
		}
		for _, u := range op.Chosen {
			add(u)
		}
		for _, f := range op.Fuzz {
			add(f.ID)
		}
		r := o.Resp
		for _, u := range r.IDs {
			add(u)
		}
		for _, p := range r.Pulled {
			add(p.Ack)
			add(p.Msg)
		}
		if u, err := uuid.Parse(r.Next); err == nil {
			add(u)
		}
		d := o.Post
		for _, x := range d.Topics {
			add(x.ID)
		}
		for _, x := range d.Subs {
			add(x.ID)
			add(x.Topic)
			if x.DLTopic != nil {
				add(*x.DLTopic)
			}
		}
		for _, x := range d.Msgs {
			add(x.ID)
			add(x.Topic)
		}
		for _, x := range d.Dels {
			add(x.ID)
			add(x.Msg)
			add(x.Sub)
			if x.NotBefore != nil {
				add(*x.NotBefore)
			}
		}
		for _, x := range d.Snaps {
			add(x.ID)
			add(x.Topic)
			for _, a := range x.Acked {
				add(a)
			}
		}
	}
	all := make([]uuid.UUID, 0, len(set))
	for u := range set {
		all = append(all, u)
	}
	sort.Slice(all, func(i, j int) bool { return uuidLess(all[i], all[j]) })
	em := &Emitter{rank: map[uuid.UUID]int{}}
	for i, u := range all {
		em.rank[u] = i + 1
	}
	return em
}

func (em *Emitter) id(u uuid.UUID) string { return fmt.Sprintf("%d%%N", em.rank[u]) }
func (em *Emitter) ids(us []uuid.UUID) string {
	parts := make([]string, len(us))
	for i, u := range us {
		parts[i] = em.id(u)
	}
	return "[" + strings.Join(parts, "; ") + "]"
}
func (em *Emitter) oid(u *uuid.UUID) string {
	if u == nil {
		return "None"
	}
	return "(Some " + em.id(*u) + ")"
}

func coqStr(s string) string {
	plain := true
	for i := 0; i < len(s); i++ {
		if s[i] < 0x20 || s[i] > 0x7e {
			plain = false
			break
		}
	}
	if plain {
		return "\"" + strings.ReplaceAll(s, "\"", "\"\"") + "\"%string"
	}
	return fmt.Sprintf("(hx \"%x\"%%string)", s)
}
func coqOStr(s *string) string {
	if s == nil {
		return "None"
	}
	return "(Some " + coqStr(*s) + ")"
}
func coqZ(v int64) string {
	if v < 0 {
		return fmt.Sprintf("(%d)%%Z", v)
	}
	return fmt.Sprintf("%d%%Z", v)
}
func coqOZ(v *int64) string {
	if v == nil {
		return "None"
	}
	return "(Some " + coqZ(*v) + ")"
}
func coqBool(b bool) string {
	if b {
		return "true"
	}
	return "false"
}
func coqKVs(m []KV) string {
	parts := make([]string, len(m))
	for i, kv := range m {
		parts[i] = "(" + coqStr(kv.K) + ", " + coqStr(kv.V) + ")"
	}
	return "[" + strings.Join(parts, "; ") + "]"
}
func coqMap(m map[string]string) string { return coqKVs(sortedMap(m)) }
func coqStrs(ss []string) string {
	parts := make([]string, len(ss))
	for i, s := range ss {
		parts[i] = coqStr(s)
	}
	return "[" + strings.Join(parts, "; ") + "]"
}
func durZ(d *time.Duration) string {
	if d == nil {
		return coqZ(0)
	}
	return coqZ(int64(*d))
}
func durOZ(d *time.Duration) string {
	if d == nil {
		return "None"
	}
	return "(Some " + coqZ(int64(*d)) + ")"
}

func (em *Emitter) state(d *Dump) string {
	var b bytes.Buffer
	b.WriteString("(mkState [")
	for i, t := range d.Topics {
		if i > 0 {
			b.WriteString("; ")
		}
		fmt.Fprintf(&b, "mkTopic %s %s %s %s", em.id(t.ID), coqStr(t.Name), coqOZ(t.Deleted), coqKVs(t.Labels))
	}
	b.WriteString("] [")
	for i, s := range d.Subs {
		if i > 0 {
			b.WriteString("; ")
		}
		fmt.Fprintf(&b, "mkSub %s %s %s %s %s %s %s %s %s %s %s %s %s %s %s %s", em.id(s.ID), coqStr(s.Name), em.id(s.Topic),
			coqOZ(s.Deleted), coqZ(s.Expires), coqZ(s.TTL), coqZ(s.MsgTTL), coqBool(s.Ordered), coqOStr(s.Filter),
			coqOZ(s.MinB), coqOZ(s.MaxB), coqOZ(s.MaxAttempts), em.oid(s.DLTopic), coqZ(s.Delay), coqOStr(s.Push), coqKVs(s.Labels))
	}
	b.WriteString("] [")
	for i, m := range d.Msgs {
		if i > 0 {
			b.WriteString("; ")
		}
		fmt.Fprintf(&b, "mkMsg %s %s %s %s %s %s %s", em.id(m.ID), em.id(m.Topic), coqZ(m.Published), coqKVs(m.Attrs),
			coqOStr(m.Key), coqStr(m.Payload), coqZ(m.Size))
	}
	b.WriteString("] [")
	for i, x := range d.Dels {
		if i > 0 {
			b.WriteString("; ")
		}
		fmt.Fprintf(&b, "mkDel %s %s %s %s %s %s %s %s %s %s", em.id(x.ID), em.id(x.Msg), em.id(x.Sub), coqZ(x.Published),
			coqZ(x.AttemptAt), coqZ(x.Attempts), coqOZ(x.Completed), coqZ(x.Expires), em.oid(x.NotBefore), coqOZ(x.Last))
	}
	b.WriteString("] [")
	for i, n := range d.Snaps {
		if i > 0 {
			b.WriteString("; ")
		}
		fmt.Fprintf(&b, "mkSnap %s %s %s %s %s %s %s", em.id(n.ID), coqStr(n.Name), em.id(n.Topic), coqZ(n.Expires),
			coqKVs(n.Labels), coqZ(n.Before), em.ids(n.Acked))
	}
	b.WriteString("])")
	return b.String()
}

// patch renders post as a patch over pre (nil pre = the empty database)
func (em *Emitter) patch(pre, post *Dump) string {
	if pre == nil {
		pre = &Dump{}
	}
	up := &Dump{}
	var xt, xs, xm, xd, xn []uuid.UUID
	{
		old := map[uuid.UUID]TopicRow{}
		for _, r := range pre.Topics {
			old[r.ID] = r
		}
		for _, r := range post.Topics {
			if o, ok := old[r.ID]; !ok || !reflect.DeepEqual(o, r) {
				up.Topics = append(up.Topics, r)
			}
			delete(old, r.ID)
		}
		for id := range old {
			xt = append(xt, id)
		}
	}
	{
		old := map[uuid.UUID]SubRow{}
		for _, r := range pre.Subs {
			old[r.ID] = r
		}
		for _, r := range post.Subs {
			if o, ok := old[r.ID]; !ok || !reflect.DeepEqual(o, r) {
				up.Subs = append(up.Subs, r)
			}
			delete(old, r.ID)
		}
		for id := range old {
			xs = append(xs, id)
		}
	}
	{
		old := map[uuid.UUID]MsgRow{}
		for _, r := range pre.Msgs {
			old[r.ID] = r
		}
		for _, r := range post.Msgs {
			if o, ok := old[r.ID]; !ok || !reflect.DeepEqual(o, r) {
				up.Msgs = append(up.Msgs, r)
			}
			delete(old, r.ID)
		}
		for id := range old {
			xm = append(xm, id)
		}
	}
	{
		old := map[uuid.UUID]DelRow{}
		for _, r := range pre.Dels {
			old[r.ID] = r
		}
		for _, r := range post.Dels {
			if o, ok := old[r.ID]; !ok || !reflect.DeepEqual(o, r) {
				up.Dels = append(up.Dels, r)
			}
			delete(old, r.ID)
		}
		for id := range old {
			xd = append(xd, id)
		}
	}
	{
		old := map[uuid.UUID]SnapRow{}
		for _, r := range pre.Snaps {
			old[r.ID] = r
		}
		for _, r := range post.Snaps {
			if o, ok := old[r.ID]; !ok || !reflect.DeepEqual(o, r) {
				up.Snaps = append(up.Snaps, r)
			}
			delete(old, r.ID)
		}
		for id := range old {
			xn = append(xn, id)
		}
	}
	st := em.state(up) // "(mkState [..] [..] [..] [..] [..])"
	st = strings.TrimSuffix(strings.TrimPrefix(st, "(mkState "), ")")
	return "(mkPatch " + st + " " + em.ids(xt) + " " + em.ids(xs) + " " + em.ids(xm) + " " + em.ids(xd) + " " + em.ids(xn) + ")"
}

func (em *Emitter) tok(s string) string {
	if s == "" {
		return "TokNone"
	}
	if u, err := uuid.Parse(s); err == nil {
		return "(TokId " + em.id(u) + ")"
	}
	return "TokBad"
}

func (em *Emitter) oids(ss []string) string {
	us, ok := parseIDs(ss)
	if !ok {
		return "None"
	}
	return "(Some " + em.ids(us) + ")"
}

func (em *Emitter) fresh(ts []Triple) string {
	parts := make([]string, len(ts))
	for i, t := range ts {
		parts[i] = fmt.Sprintf("(%s, %s, %s)", em.id(t.Msg), em.id(t.Sub), em.id(t.ID))
	}
	return "[" + strings.Join(parts, "; ") + "]"
}
func (em *Emitter) fuzz(fs []FuzzV) string {
	parts := make([]string, len(fs))
	for i, f := range fs {
		parts[i] = fmt.Sprintf("(%s, %s)", em.id(f.ID), coqZ(f.V))
	}
	return "[" + strings.Join(parts, "; ") + "]"
}

func pushStr(p *PushReq) string {
	w := "WNone"
	switch p.Wrapper {
	case "pubsub":
		w = "WPubsub"
	case "other":
		w = "WOther"
	}
	return fmt.Sprintf("(mkPushreq %s %s %s %s)", coqStr(p.Endpoint), coqMap(p.Attrs), coqBool(p.Auth), w)
}
func opushStr(p *PushReq) string {
	if p == nil {
		return "None"
	}
	return "(Some " + pushStr(p) + ")"
}

func subreqStr(q *SubReq) string {
	retry := "None"
	if q.Retry != nil {
		retry = fmt.Sprintf("(Some (%s, %s))", durOZ(q.Retry[0]), durOZ(q.Retry[1]))
	}
	dl := "None"
	if q.DL != nil {
		dl = fmt.Sprintf("(Some (%s, %s))", coqStr(q.DL.Topic), coqZ(int64(q.DL.Max)))
	}
	ttl := coqZ(0)
	if q.HasExp {
		ttl = durZ(q.TTL)
	}
	return fmt.Sprintf("(mkSubreq %s %s %s %s %s %s %s %s %s %s %s)", coqStr(q.Name), coqStr(q.Topic), ttl, durZ(q.MsgTTL),
		coqBool(q.Ordered), coqMap(q.Labels), coqStr(q.Filter), coqBool(q.Detached), retry, dl, opushStr(q.Push))
}

var jobCoq = map[string]string{"PruneCompletedDeliveries": "JPruneCompletedDeliveries", "PruneExpiredDeliveries": "JPruneExpiredDeliveries",
	"PruneCompletedMessages": "JPruneCompletedMessages", "PruneDeletedSubDeliveries": "JPruneDeletedSubDeliveries",
	"PruneDeletedSubs": "JPruneDeletedSubs", "PruneDeletedTopics": "JPruneDeletedTopics", "ExpireSubs": "JExpireSubs",
	"DeadLetterSweep": "JDeadLetterSweep"}

func (em *Emitter) op(op *Op) string {
	w := coqZ(op.WNow)
	switch op.Kind {
	case "CreateTopic":
		return fmt.Sprintf("(CreateTopic %s %s %s %s)", coqStr(op.Name), coqMap(op.Labels), coqBool(op.Advanced), em.id(op.Fresh))
	case "GetTopic":
		return fmt.Sprintf("(GetTopic %s)", coqStr(op.Name))
	case "UpdateTopic":
		return fmt.Sprintf("(UpdateTopic %s %s %s)", coqStr(op.Name), coqStrs(op.Paths), coqMap(op.Labels))
	case "DeleteTopic":
		return fmt.Sprintf("(DeleteTopic %s %s)", coqStr(op.Name), w)
	case "ListTopics":
		return fmt.Sprintf("(ListTopics %s %s %s)", coqStr(op.Project), coqZ(int64(op.Size)), em.tok(op.Tok))
	case "ListTopicSubs":
		return fmt.Sprintf("(ListTopicSubs %s %s %s)", coqStr(op.Name), coqZ(int64(op.Size)), em.tok(op.Tok))
	case "Publish":
		parts := make([]string, len(op.Msgs))
		for i, m := range op.Msgs {
			valid := len(m.Data) == 0 || !strings.HasPrefix(canonJSON(m.Data), "!invalid:")
			parts[i] = fmt.Sprintf("mkPubmsg %s %s %s %s %s %s %s", coqStr(canonJSON(m.Data)), coqBool(valid), coqMap(m.Attrs),
				coqStr(m.Key), coqZ(m.Size), em.id(m.ID), coqZ(m.Now))
		}
		return fmt.Sprintf("(Publish %s [%s] %s)", coqStr(op.Name), strings.Join(parts, "; "), em.fresh(op.FreshDels))
	case "CreateSub":
		return fmt.Sprintf("(CreateSub %s %s %s)", subreqStr(op.Sub), em.id(op.Fresh), w)
	case "GetSub":
		return fmt.Sprintf("(GetSub %s)", coqStr(op.Name))
	case "UpdateSub":
		return fmt.Sprintf("(UpdateSub %s %s %s)", subreqStr(op.Sub), coqStrs(op.Paths), w)
	case "ListSubs":
		return fmt.Sprintf("(ListSubs %s %s %s)", coqStr(op.Project), coqZ(int64(op.Size)), em.tok(op.Tok))
	case "DeleteSub":
		return fmt.Sprintf("(DeleteSub %s %s)", coqStr(op.Name), w)
	case "ModAck":
		return fmt.Sprintf("(ModAck %s %s %s %s)", coqStr(op.Name), em.oids(op.AckIDs), coqZ(int64(op.Seconds)), w)
	case "Ack":
		return fmt.Sprintf("(Ack %s %s %s)", coqStr(op.Name), em.oids(op.AckIDs), w)
	case "Pull":
		return fmt.Sprintf("(Pull %s %s %s %s %s %s %s)", coqStr(op.Name), coqZ(int64(op.Max)), em.ids(op.Returned), em.ids(op.Others),
			w, em.fuzz(op.Fuzz), em.fresh(op.FreshDels))
	case "SeekTime":
		return fmt.Sprintf("(SeekTime %s %s %s)", coqStr(op.Name), coqZ(op.Target), w)
	case "SeekSnap":
		return fmt.Sprintf("(SeekSnap %s %s %s)", coqStr(op.Name), coqStr(op.Name2), w)
	case "SeekNoTarget":
		return fmt.Sprintf("(SeekNoTarget %s)", coqStr(op.Name))
	case "ModifyPush":
		p := "None"
		if op.HasPush {
			p = opushStr(op.Push)
		}
		return fmt.Sprintf("(ModifyPush %s %s)", coqStr(op.Name), p)
	case "CreateSnap":
		return fmt.Sprintf("(CreateSnap %s %s %s %s %s)", coqStr(op.Name), coqStr(op.Name2), coqMap(op.Labels), em.id(op.Fresh), w)
	case "GetSnap":
		return fmt.Sprintf("(GetSnap %s)", coqStr(op.Name))
	case "ListSnaps":
		return fmt.Sprintf("(ListSnaps %s %s %s)", coqStr(op.Project), coqZ(int64(op.Size)), em.tok(op.Tok))
	case "DeleteSnap":
		return fmt.Sprintf("(DeleteSnap %s)", coqStr(op.Name))
	case "StreamAckNack":
		a, _ := parseIDs(op.AckIDs)
		n, _ := parseIDs(op.Nacks)
		return fmt.Sprintf("(StreamAckNack %s %s %s %s %s)", em.ids(a), em.ids(n), w, em.fuzz(op.Fuzz), em.fresh(op.FreshDels))
	case "SetDelay":
		return fmt.Sprintf("(SetDelay %s %s)", coqStr(op.Name), coqZ(int64(op.Delay)))
	case "Job":
		return fmt.Sprintf("(Job %s %s %s %s %s %s %s)", jobCoq[op.Job], coqZ(int64(op.MinAge)), coqZ(int64(op.MaxN)), em.ids(op.Chosen), coqBool(op.Failed), w, em.fresh(op.FreshDels))
	}
	panic("emit: unknown op " + op.Kind)
}

func codeStr(c codes.Code) string {
	switch c {
	case codes.InvalidArgument:
		return "InvalidArgument"
	case codes.NotFound:
		return "NotFound"
	case codes.AlreadyExists:
		return "AlreadyExists"
	case codes.Unknown:
		return "Unknown"
	case codes.Unimplemented:
		return "Unimplemented"
	}
	return "Unknown (* " + c.String() + " *)"
}

func subviewStr(v *SubView) string {
	dl := "None"
	if v.DL != nil {
		dl = fmt.Sprintf("(Some (%s, %s))", coqStr(v.DL.Topic), coqZ(v.DL.Max))
	}
	retry := "None"
	if v.Retry != nil {
		retry = fmt.Sprintf("(Some (%s, %s))", coqOZ(v.Retry[0]), coqOZ(v.Retry[1]))
	}
	return fmt.Sprintf("(mkSubview %s %s %s %s %s %s %s %s %s %s %s)", coqStr(v.Name), coqStr(v.Topic), coqZ(v.AckDeadline),
		coqZ(v.MsgTTL), coqKVs(v.Labels), coqBool(v.Ordered), coqZ(v.TTL), coqOStr(v.Push), coqStr(v.Filter), dl, retry)
}

func (em *Emitter) next(s string) string {
	if u, err := uuid.Parse(s); err == nil {
		return "(Some " + em.id(u) + ")"
	}
	return "None"
}

func (em *Emitter) resp(r *Resp) string {
	switch r.Kind {
	case "err":
		return "(RErr " + codeStr(r.Code) + ")"
	case "unit":
		return "RUnit"
	case "ids":
		return "(RIds " + em.ids(r.IDs) + ")"
	case "pull":
		parts := make([]string, len(r.Pulled))
		for i, p := range r.Pulled {
			parts[i] = fmt.Sprintf("mkPulled %s %s %s %s %s %s %s", em.id(p.Ack), em.id(p.Msg), coqZ(p.Attempt), coqStr(p.Payload),
				coqKVs(p.Attrs), coqStr(p.Key), coqZ(p.Published))
		}
		return "(RPull [" + strings.Join(parts, "; ") + "])"
	case "sub":
		return "(RSub " + subviewStr(r.Sub) + ")"
	case "subempty":
		return "RSubEmpty"
	case "topic":
		return fmt.Sprintf("(RTopic %s %s)", coqStr(r.Name), coqKVs(r.Labels))
	case "topicempty":
		return "RTopicEmpty"
	case "names":
		return fmt.Sprintf("(RNames %s %s)", coqStrs(r.Names), em.next(r.Next))
	case "topics":
		parts := make([]string, len(r.Topics))
		for i, t := range r.Topics {
			parts[i] = fmt.Sprintf("(%s, %s)", coqStr(t.Name), coqKVs(t.Labels))
		}
		return fmt.Sprintf("(RTopics [%s] %s)", strings.Join(parts, "; "), em.next(r.Next))
	case "subs":
		parts := make([]string, len(r.Subs))
		for i := range r.Subs {
			parts[i] = subviewStr(&r.Subs[i])
		}
		return fmt.Sprintf("(RSubs [%s] %s)", strings.Join(parts, "; "), em.next(r.Next))
	case "snap":
		return fmt.Sprintf("(RSnap %s %s %s %s)", coqStr(r.Snap.Name), coqStr(r.Snap.Topic), coqZ(r.Snap.Expires), coqKVs(r.Snap.Labels))
	case "snaps":
		parts := make([]string, len(r.Snaps))
		for i, s := range r.Snaps {
			parts[i] = fmt.Sprintf("(%s, %s, %s, %s)", coqStr(s.Name), coqStr(s.Topic), coqZ(s.Expires), coqKVs(s.Labels))
		}
		return fmt.Sprintf("(RSnaps [%s] %s)", strings.Join(parts, "; "), em.next(r.Next))
	case "count":
		return "(RCount " + coqZ(r.Count) + ")"
	}
	panic("emit: unknown resp " + r.Kind)
}

// History renders one history as a Coq definition of type list obs.
func EmitHistory(name string, h []*Obs) string {
	em := NewEmitter(h)
	var b bytes.Buffer
	fmt.Fprintf(&b, "Definition %s : list obs := build [\n", name)
	first := true
	var prev *Dump
	for _, o := range h {
		if !first {
			b.WriteString(";\n")
		}
		first = false
		fmt.Fprintf(&b, "  mkRaw %s %s\n    %s\n    %s\n    %s %s", coqZ(o.Lo), coqZ(o.Hi), em.op(o.Op), em.resp(o.Resp), em.patch(prev, o.Post), coqBool(o.Skip != ""))
		prev = o.Post
	}
	b.WriteString("\n].\n")
	return b.String()
}
