package main

// C17 (duration codec) and C04 (backoff arithmetic): differential tests of
// sqltypes.Interval (reached through the exported ent field type) and
// actions.NextDelayFor against Interval.v / Backoff.v.

import (
	"flag"
	"fmt"
	"math"
	"math/rand"
	"os"
	"path/filepath"
	"strings"
	"time"

	"github.com/google/uuid"

	"go.6river.tech/mmmbbb/actions"
	"go.6river.tech/mmmbbb/ent"
)

func intervalValue(d int64) (string, error) {
	s := &ent.Subscription{}
	if err := s.TTL.Scan(d); err != nil {
		return "", err
	}
	v, err := s.TTL.Value()
	if err != nil {
		return "", err
	}
	return v.(string), nil
}

func intervalScan(x string) (int64, bool) {
	s := &ent.Subscription{}
	if err := s.TTL.Scan(x); err != nil {
		return 0, false
	}
	return int64(s.TTL), true
}

func cmdCodecDiff(args []string) error {
	fs := flag.NewFlagSet("codec-diff", flag.ExitOnError)
	seed := fs.Int64("seed", 1, "")
	n := fs.Int("n", 1500, "random cases per class")
	shards := fs.Int("shards", 16, "")
	out := fs.String("out", "", "")
	fs.Parse(args)
	os.MkdirAll(*out, 0o755)
	r := rand.New(rand.NewSource(*seed))
	// ---- durations ----
	durs := []int64{0, 1, -1, 999, 1000, 1001, 1500, 999999, 1000000, 1000001, 999999999, 1000000000, 1000000001,
		59999999999, 60000000000, 3599999999999, 3600000000000, 3600000000001, 86400000000000, math.MaxInt64, math.MinInt64,
		math.MaxInt64 - 1, math.MinInt64 + 1, 1e9 + 5e8, 100, 1e15, 7 * 24 * 3600 * 1e9, 30 * 24 * 3600 * 1e9}
	for i := 0; i < *n; i++ {
		var d int64
		switch r.Intn(5) {
		case 0:
			d = r.Int63()
		case 1:
			d = -r.Int63()
		case 2:
			d = r.Int63n(2e9)
		case 3:
			d = int64(math.Pow(10, float64(r.Intn(19)))) * int64(1+r.Intn(9))
		default:
			d = r.Int63n(4e12) * []int64{1, 1000, 1000000}[r.Intn(3)]
		}
		durs = append(durs, d)
	}
	var vcases []string
	for _, d := range durs {
		s, err := intervalValue(d)
		if err != nil {
			return err
		}
		back, ok := intervalScan(s)
		bs := "None"
		if ok {
			bs = "(Some " + coqZ(back) + ")"
		}
		vcases = append(vcases, fmt.Sprintf("(%s, %s, %s)", coqZ(d), coqStr(s), bs))
	}
	// ---- strings ----
	var strs []string
	strs = append(strs, "1 year 2 mons 3 days 04:05:06.007008", "-00:00:01", "-01:02:03", "00:00:00", "1 day 00:00:00", "1 days 00:00:00",
		"2 years 00:00:00", "1 mon 00:00:00", "3 mons 1 day 12:00:00.5", "00:00:00.123456789", "00:00:00.1234567890", "1 year 2 mons 3 days",
		"+1 year -2 mons 0:0:0.5", "1 years  00:00:00", "1 yearss 00:00:00", "00:00:00.", "00:00:00 ", " 00:00:00", "293 years 00:00:00",
		"9999999 years 00:00:00", "99999999999999999999 years 00:00:00", "00:00:99999999999999999999", "1h", "1.5h", "", "0", "-0", "+0", "1", "1s1",
		".s", "-.s", "1.s", ".5s", "1µs", "1μs", "1us", "1ns", "1ms", "1m", "1d", "1h2m3s", "9223372036854775807ns", "9223372036854775808ns",
		"-9223372036854775808ns", "9223372036854775808ns9223372036854775808ns", "2562047h47m16.854775807s", "2562047h47m16.854775808s",
		"0.000000001s", "0.0000000001s", "1e3s", "1 s", "--1s", "+-1s", "100000000000000000000s", "12:34", "1:2:3:4",
		"-1 days +02:03:04", "1 day -02:03:04")
	digits := func(max int) string {
		k := 1 + r.Intn(max)
		var b strings.Builder
		for i := 0; i < k; i++ {
			b.WriteByte(byte('0' + r.Intn(10)))
		}
		return b.String()
	}
	sign := func() string { return []string{"", "", "", "+", "-"}[r.Intn(5)] }
	for i := 0; i < *n; i++ {
		var b strings.Builder
		if r.Intn(3) == 0 {
			b.WriteString(sign() + digits(4) + " year" + []string{"", "s"}[r.Intn(2)] + " ")
		}
		if r.Intn(3) == 0 {
			b.WriteString(sign() + digits(3) + " mon" + []string{"", "s"}[r.Intn(2)] + " ")
		}
		if r.Intn(3) == 0 {
			b.WriteString(sign() + digits(5) + " day" + []string{"", "s"}[r.Intn(2)] + " ")
		}
		b.WriteString(sign() + digits(3) + ":" + sign() + digits(2) + ":" + sign() + digits(2))
		if r.Intn(2) == 0 {
			b.WriteString("." + digits(10))
		}
		s := b.String()
		if r.Intn(10) == 0 { // corrupt
			p := r.Intn(len(s))
			s = s[:p] + string("x :.-"[r.Intn(5)]) + s[p:]
		}
		strs = append(strs, s)
	}
	// Go-format strings with fraction lengths for which the float evaluation is exact
	units := []string{"ns", "us", "µs", "ms", "s", "m", "h"}
	for i := 0; i < *n; i++ {
		var b strings.Builder
		b.WriteString(sign())
		k := 1 + r.Intn(3)
		for j := 0; j < k; j++ {
			u := units[r.Intn(len(units))]
			b.WriteString(digits(6))
			if (u == "s" || u == "ms" || u == "us" || u == "µs") && r.Intn(2) == 0 {
				maxf := map[string]int{"s": 9, "ms": 6, "us": 3, "µs": 3}[u]
				b.WriteString("." + digits(maxf))
			}
			b.WriteString(u)
		}
		strs = append(strs, b.String())
	}
	var scases []string
	for _, s := range strs {
		v, ok := intervalScan(s)
		o := "None"
		if ok {
			o = "(Some " + coqZ(v) + ")"
		}
		scases = append(scases, fmt.Sprintf("(%s, %s)", coqStr(s), o))
	}
	hdr := `From MB Require Import Base Interval.
Open Scope list_scope.
Definition ozeqb := opt_eqb Z.eqb.
(* value cases: (d, Go Value() text, Go Scan of that text) *)
Definition vchk (c : Z * str * option Z) : bool :=
  let '(d, s, back) := c in String.eqb (value_interval d) s && ozeqb (scan_interval s) back && ozeqb back (Some d).
Definition schk (c : str * option Z) : bool := ozeqb (scan_interval (fst c)) (snd c).
`
	vl := make([][]string, *shards)
	sl := make([][]string, *shards)
	for i, c := range vcases {
		vl[i%*shards] = append(vl[i%*shards], fmt.Sprintf("(%d%%N, %s)", i, c))
	}
	for i, c := range scases {
		sl[i%*shards] = append(sl[i%*shards], fmt.Sprintf("(%d%%N, %s)", i, c))
	}
	for k := 0; k < *shards; k++ {
		body := hdr + "Definition vcases : list (N * (Z * str * option Z)) := [\n" + strings.Join(vl[k], ";\n") + "].\n" +
			"Definition scases : list (N * (str * option Z)) := [\n" + strings.Join(sl[k], ";\n") + "].\n" +
			"Definition vbad := Eval vm_compute in map fst (filter (fun c => negb (vchk (snd c))) vcases).\nPrint vbad.\n" +
			"Definition sbad := Eval vm_compute in map fst (filter (fun c => negb (schk (snd c))) scases).\nPrint sbad.\n"
		if err := os.WriteFile(filepath.Join(*out, fmt.Sprintf("codec_%02d.v", k)), []byte(body), 0o644); err != nil {
			return err
		}
	}
	nok := 0
	for _, c := range scases {
		if strings.Contains(c, "Some") {
			nok++
		}
	}
	return writeJSON(filepath.Join(*out, "codec.json"), map[string]interface{}{"durations": len(vcases), "strings": len(scases),
		"strings_accepted": nok, "string_list": strs, "duration_list": durs,
		"samples": []string{vcases[5], vcases[len(vcases)-1], scases[0], scases[1], scases[len(scases)-1]}})
}

func cmdBackoffGrid(args []string) error {
	fs := flag.NewFlagSet("backoff-grid", flag.ExitOnError)
	out := fs.String("out", "", "")
	maxN := fs.Int("max-n", 120, "")
	fs.Parse(args)
	os.MkdirAll(*out, 0o755)
	durs := []time.Duration{time.Millisecond, 100 * time.Millisecond, 499 * time.Millisecond, 500 * time.Millisecond, 501 * time.Millisecond,
		time.Second, 3 * time.Second, 10 * time.Second, 77 * time.Second, 10 * time.Minute, time.Hour, 10 * time.Hour, 0, -time.Second, 1}
	type pol struct{ min, max *time.Duration }
	var pols []pol
	pols = append(pols, pol{})
	for i := range durs {
		pols = append(pols, pol{min: &durs[i]}, pol{max: &durs[i]})
		for j := range durs {
			if (i+j)%3 == 0 {
				pols = append(pols, pol{&durs[i], &durs[j]})
			}
		}
	}
	id := uuid.MustParse("6ba7b810-9dad-11d1-80b4-00c04fd430c8")
	var lines, sat []string
	for _, p := range pols {
		sub := &ent.Subscription{ID: id}
		// MinBackoff / MaxBackoff are *sqltypes.Interval (an internal type): set through reflection
		if p.min != nil {
			setIntervalField(sub, "MinBackoff", *p.min)
		}
		if p.max != nil {
			setIntervalField(sub, "MaxBackoff", *p.max)
		}
		// every attempt number up to max-n is compared with the exact model value
		for n := 0; n <= *maxN; n++ {
			nom, fz := actions.NextDelayFor(sub, n)
			lines = append(lines, fmt.Sprintf("(%s, %s, %s, %s, %s)", durOZ(p.min), durOZ(p.max), coqZ(int64(n)), coqZ(int64(nom)), coqZ(int64(fz-nom))))
		}
		// attempt numbers far beyond saturation: the float computation must saturate at the
		// maximum, not overflow. n0 = first saturated attempt (found here with exact integer
		// arithmetic, re-checked by the model at n0); the model value at n >= n0 is then the
		// maximum by theorem Backoff.nominal_saturated_stays
		var pmin, pmax *int64
		if p.min != nil {
			v := int64(*p.min)
			pmin = &v
		}
		if p.max != nil {
			v := int64(*p.max)
			pmax = &v
		}
		n0 := int64(0)
		for exactNominal(pmin, pmax, n0) != exactNominal(pmin, pmax, 100000) && n0 < 2000 {
			n0++
		}
		for _, n := range []int64{150, 200, 216, 217, 218, 250, 300, 400, 500, 1000, 7450, 7451, 10000, 1000000, 2147483647} {
			if n > int64(*maxN) && n >= n0 {
				nom, fz := actions.NextDelayFor(sub, int(n))
				sat = append(sat, fmt.Sprintf("(%s, %s, %s, %s, %s, %s)", durOZ(p.min), durOZ(p.max), coqZ(n0), coqZ(n), coqZ(int64(nom)), coqZ(int64(fz-nom))))
			}
		}
	}
	hdr := `From MB Require Import Base Backoff.
From MB.Bus Require Import State Ops.
Open Scope list_scope.
Open Scope Z_scope.
(* (min, max, attempts, Go nominal delay, Go jitter): the Go float result must be within
   float_tol of the exact model value, the jitter legal *)
Definition gchk (c : option Z * option Z * Z * Z * Z) : bool :=
  let '(mn, mx, n, nom, fz) := c in
  (Z.abs (nom - nominal mn mx n) <=? float_tol) && fuzz_legal (nominal mn mx n) (nom - nominal mn mx n + fz) &&
  (nominal mn mx n =? nominal_delay mn mx n).
(* (min, max, n0, attempts >= n0, Go nominal delay, Go jitter): the model saturates at n0
   (evaluated), hence at every later attempt (BackoffProofs.nominal_saturated_stays); the
   Go result must be the maximum *)
Definition schk (c : option Z * option Z * Z * Z * Z * Z) : bool :=
  let '(mn, mx, n0, n, nom, fz) := c in
  (0 <=? n0) && (n0 <=? n) && (nominal mn mx n0 =? eff default_max mx) &&
  (Z.abs (nom - eff default_max mx) <=? float_tol) &&
  fuzz_legal (eff default_max mx) (nom - eff default_max mx + fz).
Definition cases : list (option Z * option Z * Z * Z * Z) := [
`
	const shards = 16
	sh := make([][]string, shards)
	for i, l := range lines {
		sh[i%shards] = append(sh[i%shards], l)
	}
	ss := make([][]string, shards)
	for i, l := range sat {
		ss[i%shards] = append(ss[i%shards], l)
	}
	for k := 0; k < shards; k++ {
		body := hdr + strings.Join(sh[k], ";\n") + "].\nDefinition bad := Eval vm_compute in filter (fun c => negb (gchk c)) cases.\nPrint bad.\n" +
			"Definition satcases : list (option Z * option Z * Z * Z * Z * Z) := [\n" + strings.Join(ss[k], ";\n") +
			"].\nDefinition satbad := Eval vm_compute in filter (fun c => negb (schk c)) satcases.\nPrint satbad.\n"
		if err := os.WriteFile(filepath.Join(*out, fmt.Sprintf("backoff_%02d.v", k)), []byte(body), 0o644); err != nil {
			return err
		}
	}
	return writeJSON(filepath.Join(*out, "backoff.json"), map[string]interface{}{"policies": len(pols), "cases": len(lines) + len(sat), "saturated_cases": len(sat), "samples": append(lines[:2], sat[len(sat)-1])})
}

func init() {
	subcmds["codec-diff"] = cmdCodecDiff
	subcmds["backoff-grid"] = cmdBackoffGrid
}
