module verifharness

go 1.24.0

toolchain go1.24.1

require (
	entgo.io/ent v0.14.4
	github.com/gin-gonic/gin v1.10.0
	github.com/google/uuid v1.6.0
	github.com/mattn/go-sqlite3 v1.14.24
	go.6river.tech/mmmbbb v0.0.0
	go.uber.org/fx v1.23.0
	google.golang.org/grpc v1.71.0
	google.golang.org/protobuf v1.36.6
)

require (
	ariga.io/atlas v0.32.0 // indirect
	cloud.google.com/go v0.119.0 // indirect
	cloud.google.com/go/auth v0.15.0 // indirect
	cloud.google.com/go/auth/oauth2adapt v0.2.8 // indirect
	cloud.google.com/go/compute/metadata v0.6.0 // indirect
	cloud.google.com/go/iam v1.4.2 // indirect
	cloud.google.com/go/pubsub v1.48.0 // indirect
	github.com/agext/levenshtein v1.2.3 // indirect
	github.com/alecthomas/participle/v2 v2.1.4 // indirect
	github.com/apparentlymart/go-textseg/v15 v15.0.0 // indirect
	github.com/beorn7/perks v1.0.1 // indirect
	github.com/bmatcuk/doublestar v1.3.4 // indirect
	github.com/cespare/xxhash/v2 v2.3.0 // indirect
	github.com/felixge/httpsnoop v1.0.4 // indirect
	github.com/gabriel-vasile/mimetype v1.4.8 // indirect
	github.com/getkin/kin-openapi v0.131.0 // indirect
	github.com/gin-contrib/location v1.0.2 // indirect
	github.com/gin-contrib/sse v1.0.0 // indirect
	github.com/go-logr/logr v1.4.2 // indirect
	github.com/go-logr/stdr v1.2.2 // indirect
	github.com/go-openapi/inflect v0.21.0 // indirect
	github.com/go-openapi/jsonpointer v0.21.0 // indirect
	github.com/go-openapi/swag v0.23.0 // indirect
	github.com/go-playground/locales v0.14.1 // indirect
	github.com/go-playground/universal-translator v0.18.1 // indirect
	github.com/go-playground/validator/v10 v10.25.0 // indirect
	github.com/golang/protobuf v1.5.4 // indirect
	github.com/google/go-cmp v0.7.0 // indirect
	github.com/google/s2a-go v0.1.9 // indirect
	github.com/googleapis/enterprise-certificate-proxy v0.3.6 // indirect
	github.com/googleapis/gax-go/v2 v2.14.1 // indirect
	github.com/grpc-ecosystem/go-grpc-prometheus v1.2.0 // indirect
	github.com/grpc-ecosystem/grpc-gateway/v2 v2.26.3 // indirect
	github.com/hashicorp/hcl/v2 v2.23.0 // indirect
	github.com/iancoleman/strcase v0.3.0 // indirect
	github.com/jackc/pgpassfile v1.0.0 // indirect
	github.com/jackc/pgservicefile v0.0.0-20240606120523-5a60cdf6a761 // indirect
	github.com/jackc/pgx/v5 v5.7.4 // indirect
	github.com/jackc/puddle/v2 v2.2.2 // indirect
	github.com/jmoiron/sqlx v1.4.0 // indirect
	github.com/josharian/intern v1.0.0 // indirect
	github.com/leodido/go-urn v1.4.0 // indirect
	github.com/mailru/easyjson v0.9.0 // indirect
	github.com/mattn/go-colorable v0.1.14 // indirect
	github.com/mattn/go-isatty v0.0.20 // indirect
	github.com/mitchellh/go-wordwrap v1.0.1 // indirect
	github.com/mohae/deepcopy v0.0.0-20170929034955-c48cc78d4826 // indirect
	github.com/munnerz/goautoneg v0.0.0-20191010083416-a7dc8b61c822 // indirect
	github.com/oasdiff/yaml v0.0.0-20250309154309-f31be36b4037 // indirect
	github.com/oasdiff/yaml3 v0.0.0-20250309153720-d2182401db90 // indirect
	github.com/pelletier/go-toml/v2 v2.2.3 // indirect
	github.com/perimeterx/marshmallow v1.1.5 // indirect
	github.com/prometheus/client_golang v1.21.1 // indirect
	github.com/prometheus/client_model v0.6.1 // indirect
	github.com/prometheus/common v0.63.0 // indirect
	github.com/prometheus/procfs v0.15.1 // indirect
	github.com/rs/zerolog v1.34.0 // indirect
	github.com/ugorji/go/codec v1.2.12 // indirect
	github.com/zclconf/go-cty v1.15.1 // indirect
	github.com/zclconf/go-cty-yaml v1.1.0 // indirect
	go.opencensus.io v0.24.0 // indirect
	go.opentelemetry.io/auto/sdk v1.1.0 // indirect
	go.opentelemetry.io/contrib/instrumentation/google.golang.org/grpc/otelgrpc v0.60.0 // indirect
	go.opentelemetry.io/contrib/instrumentation/net/http/otelhttp v0.60.0 // indirect
	go.opentelemetry.io/otel v1.35.0 // indirect
	go.opentelemetry.io/otel/metric v1.35.0 // indirect
	go.opentelemetry.io/otel/trace v1.35.0 // indirect
	go.uber.org/dig v1.18.1 // indirect
	go.uber.org/multierr v1.11.0 // indirect
	go.uber.org/zap v1.27.0 // indirect
	golang.org/x/crypto v0.36.0 // indirect
	golang.org/x/mod v0.24.0 // indirect
	golang.org/x/net v0.38.0 // indirect
	golang.org/x/oauth2 v0.28.0 // indirect
	golang.org/x/sync v0.12.0 // indirect
	golang.org/x/sys v0.31.0 // indirect
	golang.org/x/text v0.23.0 // indirect
	golang.org/x/time v0.11.0 // indirect
	google.golang.org/api v0.228.0 // indirect
	google.golang.org/genproto v0.0.0-20250313205543-e70fdf4c4cb4 // indirect
	google.golang.org/genproto/googleapis/api v0.0.0-20250313205543-e70fdf4c4cb4 // indirect
	google.golang.org/genproto/googleapis/rpc v0.0.0-20250313205543-e70fdf4c4cb4 // indirect
	gopkg.in/yaml.v3 v3.0.1 // indirect
)

replace go.6river.tech/mmmbbb => /repo
