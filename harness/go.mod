module verifharness

go 1.24.0

toolchain go1.24.1

require go.6river.tech/mmmbbb v0.0.0

require (
	github.com/beorn7/perks v1.0.1 // indirect
	github.com/cespare/xxhash/v2 v2.3.0 // indirect
	github.com/munnerz/goautoneg v0.0.0-20191010083416-a7dc8b61c822 // indirect
	github.com/prometheus/client_golang v1.21.1 // indirect
	github.com/prometheus/client_model v0.6.1 // indirect
	github.com/prometheus/common v0.63.0 // indirect
	github.com/prometheus/procfs v0.15.1 // indirect
	golang.org/x/sys v0.31.0 // indirect
	google.golang.org/protobuf v1.36.6 // indirect
)

replace go.6river.tech/mmmbbb => /repo
