package main

// tx-diff: the transaction wrapper every handler and action runs in (ent/client-addons.go
// Client.DoTx, DoCtxTx, DoCtxTxRetry) against Tx.do_tx / Tx.do_retry: what it returns and whether
// the work of the closure became durable, for every combination of a fault at BEGIN, an outcome
// of the closure (ok / error / panic / context cancelled and error / context cancelled and ok),
// a fault at COMMIT and a fault at ROLLBACK.

import (
	"context"
	"database/sql"
	"errors"
	"flag"
	"fmt"
	"os"
	"path/filepath"
	"strings"

	"go.6river.tech/mmmbbb/ent"
)

var (
	errTxBegin    = errors.New("injected: begin failed")
	errTxCommit   = errors.New("injected: commit failed")
	errTxRollback = errors.New("injected: rollback failed")
	errTxInner    = errors.New("inner failed")
)

type txCase struct {
	BeginFault, CommitFault, RollbackFault bool
	Inner                                  string // ok | err | panic | cancel-err | cancel-ok
}

// classes of the returned error, as the model names them
func txClass(err error, panicked bool) string {
	switch {
	case panicked:
		return "RPanic"
	case err == nil:
		return "ROk"
	case errors.Is(err, errTxBegin):
		return "RBegin"
	case errors.Is(err, errTxInner):
		return "RInner"
	case errors.Is(err, errTxCommit):
		return "RCommit"
	case errors.Is(err, context.Canceled), errors.Is(err, sql.ErrTxDone):
		// (database/sql answers a COMMIT under a cancelled context with the context's error, or
		// with ErrTxDone when its watcher has already rolled the transaction back: one class)
		return "RCtx"
	case errors.Is(err, errTxRollback):
		return "RRollback"
	}
	return "ROther"
}

func runTxCase(c txCase, retry int) (class string, durable bool, attempts int, err error) {
	e, err := NewEnv(true)
	if err != nil {
		return "", false, 0, err
	}
	defer e.Close()
	bg := context.Background()
	ctx, cancel := context.WithCancel(context.WithValue(bg, actorKey{}, "tx"))
	defer cancel()
	SetDBHook(e.DSN, func(hctx context.Context, kind CallKind, q string, after bool) error {
		if a, _ := hctx.Value(actorKey{}).(string); a == "tx" && after && kind == KCommit && c.Inner == "ok-cancel-after" && attempts > retry {
			cancel() // the caller goes away right after its COMMIT took effect
		}
		if a, _ := hctx.Value(actorKey{}).(string); a != "tx" || after {
			return nil
		}
		switch {
		case kind == KBegin && c.BeginFault && attempts >= retry:
			return errTxBegin
		case kind == KCommit && c.CommitFault:
			return errTxCommit
		case kind == KRollback && c.RollbackFault:
			return errTxRollback
		}
		return nil
	})
	defer SetDBHook(e.DSN, nil)
	name := "projects/p/topics/txprobe"
	inner := func(ictx context.Context, tx *ent.Tx) error {
		attempts++
		if _, err := tx.Topic.Create().SetName(fmt.Sprintf("%s%d", name, attempts)).Save(ictx); err != nil {
			return fmt.Errorf("probe insert: %w", err)
		}
		if attempts <= retry {
			return fmt.Errorf("retry me: %w", errTxInner)
		}
		switch c.Inner {
		case "err":
			return fmt.Errorf("wrapped: %w", errTxInner)
		case "panic":
			panic("inner panics")
		case "cancel-err":
			cancel()
			return ictx.Err()
		case "cancel-ok":
			cancel()
		}
		return nil
	}
	var rerr error
	panicked := false
	func() {
		defer func() {
			if r := recover(); r != nil {
				panicked = true
			}
		}()
		if retry > 0 {
			n := 0
			rerr = e.Client.DoCtxTxRetry(ctx, nil, inner, func(_ context.Context, err error) bool {
				n++
				return n <= retry && errors.Is(err, errTxInner)
			})
		} else {
			rerr = e.Client.DoCtxTx(ctx, nil, inner)
		}
	}()
	SetDBHook(e.DSN, nil)
	d, derr := e.Dump(bg)
	if derr != nil {
		return "", false, 0, derr
	}
	for _, t := range d.Topics {
		if strings.HasPrefix(t.Name, name) {
			durable = true
		}
	}
	return txClass(rerr, panicked), durable, attempts, nil
}

func cmdTxDiff(args []string) error {
	fs := flag.NewFlagSet("tx-diff", flag.ExitOnError)
	out := fs.String("out", "", "")
	fs.Parse(args)
	if *out == "" {
		return fmt.Errorf("-out required")
	}
	os.MkdirAll(*out, 0o755)
	b2 := func(b bool) string {
		if b {
			return "true"
		}
		return "false"
	}
	innerC := map[string]string{"ok": "IOk", "err": "IErr", "panic": "IPanic", "cancel-err": "ICancelErr", "cancel-ok": "ICancelOk", "ok-cancel-after": "IOkCancelAfter"}
	var lines []string
	var cases []map[string]interface{}
	i := 0
	for _, retry := range []int{0, 2} {
		for _, bf := range []bool{false, true} {
			for _, in := range []string{"ok", "err", "panic", "cancel-err", "cancel-ok", "ok-cancel-after"} {
				for _, cf := range []bool{false, true} {
					for _, rf := range []bool{false, true} {
						c := txCase{bf, cf, rf, in}
						class, durable, attempts, err := runTxCase(c, retry)
						if err != nil {
							return fmt.Errorf("case %+v: %w", c, err)
						}
						lines = append(lines, fmt.Sprintf("(%d%%nat, (%d%%nat, mkTxRun %s %s %s %s, (%s, %s, %d%%nat)))", i, retry, b2(bf), innerC[in], b2(cf), b2(rf), class, b2(durable), attempts))
						cases = append(cases, map[string]interface{}{"retries_before": retry, "begin_fault": bf, "inner": in, "commit_fault": cf, "rollback_fault": rf,
							"returned": class, "durable": durable, "closure_runs": attempts})
						i++
					}
				}
			}
		}
	}
	body := "From MB Require Import Base Tx.\nOpen Scope list_scope.\nDefinition cases : list (nat * tcase) := [\n" + strings.Join(lines, ";\n") +
		"].\nDefinition bad := Eval vm_compute in tx_bad cases.\nPrint bad.\n"
	if err := os.WriteFile(filepath.Join(*out, "tx.v"), []byte(body), 0o644); err != nil {
		return err
	}
	return writeJSON(filepath.Join(*out, "tx.json"), map[string]interface{}{"cases": cases, "n": len(cases)})
}

func init() { subcmds["tx-diff"] = cmdTxDiff }
