package main

// C07 / C08: differential test of package filter (parser, evaluator, printer) against
// the Coq model. Non-ASCII code points are restricted to the table in
// coq/theories/Filter/Tables.v (uniLetters / uniDigits / uniOther below).

import (
	"flag"
	"fmt"
	"math/rand"
	"os"
	"path/filepath"
	"reflect"
	"strings"
	"time"

	"go.6river.tech/mmmbbb/filter"
)

var uniLetters = []rune{0xaa, 0xb5, 0xdf, 0xe9, 0x3a9, 0x436, 0x65e5, 0x1d49c}
var uniDigits = []rune{0x663, 0x96b}
var uniOther = []rune{0x20ac, 0x2603, 0x1f600, 0xfffd, 0xa0, 0x2028, 0xfeff, 0x85, 0x200b}

type fOutcome struct {
	Src     string
	Status  string // ok, err, panic, hang
	AST     *filter.Filter
	Evals   []fEval
	Printed string
	PrintOK bool
	Reparse bool
	Class   string
}
type fEval struct {
	Attrs map[string]string
	Res   string // "Some true", "Some false", "None"
}

func runFilter(src string, maps []map[string]string) (o fOutcome) {
	o.Src = src
	done := make(chan struct{})
	go func() {
		defer close(done)
		defer func() {
			if r := recover(); r != nil {
				o.Status = "panic"
			}
		}()
		f, err := filter.Parser.ParseString("", src)
		if err != nil {
			o.Status = "err"
			return
		}
		o.Status = "ok"
		o.AST = f
		for _, m := range maps {
			b, err := f.Evaluate(m)
			r := "None"
			if err == nil {
				r = fmt.Sprintf("Some %v", b)
			}
			o.Evals = append(o.Evals, fEval{m, r})
		}
		var sb strings.Builder
		if err := f.AsFilter(&sb); err == nil {
			o.PrintOK = true
			o.Printed = sb.String()
			if f2, err := filter.Parser.ParseString("", o.Printed); err == nil {
				o.Reparse = reflect.DeepEqual(f, f2)
			}
		}
	}()
	select {
	case <-done:
	case <-time.After(3 * time.Second):
		o.Status = "hang"
	}
	return
}

func coqBasic(b *filter.BasicExpression) string {
	switch {
	case b.Has != nil:
		return "BHas " + coqStr(b.Has.Name)
	case b.Value != nil:
		neq := "false"
		if b.Value.Op == filter.OpNotEqual {
			neq = "true"
		} else if b.Value.Op != filter.OpEqual {
			return "BHas " + coqStr("!!bad-op:"+string(b.Value.Op))
		}
		return fmt.Sprintf("BVal %s %s %s", coqStr(b.Value.Name), neq, coqStr(b.Value.Value))
	case b.Predicate != nil:
		return fmt.Sprintf("BPrefix %s %s", coqStr(b.Predicate.Name), coqStr(b.Predicate.Value))
	}
	return "BHas " + coqStr("!!unpopulated")
}
func coqTerm(t *filter.Term) string {
	if t.Basic != nil {
		return fmt.Sprintf("(TmBasic %s (%s))", coqBool(t.Not), coqBasic(t.Basic))
	}
	if t.Sub != nil {
		return fmt.Sprintf("(TmSub %s %s)", coqBool(t.Not), coqCond(t.Sub))
	}
	return fmt.Sprintf("(TmBasic %s (BHas %s))", coqBool(t.Not), coqStr("!!unpopulated"))
}
func coqTerms(ts []*filter.Term) string {
	s := "TNil"
	for i := len(ts) - 1; i >= 0; i-- {
		s = fmt.Sprintf("(TCons %s %s)", coqTerm(ts[i]), s)
	}
	return s
}
func coqCond(c *filter.Condition) string {
	k, ts := "KNone", "TNil"
	if c.And != nil {
		k, ts = "KAnd", coqTerms(c.And)
	} else if c.Or != nil {
		k, ts = "KOr", coqTerms(c.Or)
	}
	return fmt.Sprintf("(Cond %s %s %s)", coqTerm(c.Term), k, ts)
}

func (o *fOutcome) coq() string {
	ast := "None"
	if o.Status == "ok" {
		ast = "(Some " + coqCond(o.AST) + ")"
	}
	ev := make([]string, len(o.Evals))
	for i, e := range o.Evals {
		ev[i] = fmt.Sprintf("(%s, %s)", coqMap(e.Attrs), e.Res)
	}
	pr := "None"
	if o.PrintOK {
		pr = "(Some " + coqStr(o.Printed) + ")"
	}
	return fmt.Sprintf("mkFcase %s %s [%s] %s %s", coqStr(o.Src), ast, strings.Join(ev, "; "), pr, coqBool(o.Reparse))
}

// ---- generators ----

type fgen struct{ r *rand.Rand }

func (g *fgen) pick(ss []string) string { return ss[g.r.Intn(len(ss))] }
func (g *fgen) chance(p float64) bool   { return g.r.Float64() < p }

var fNames = []string{"x", "y", "k", "AND", "NOT", "attributes", "hasPrefix", "a b", "", "é", "_u1", "x9", "日", "a\"q", "a\\b", "٣x", "ж٣", "OR", "-", "x.y",
	// names that are a keyword in another letter case: plain identifiers, never the keyword
	"or", "and", "not", "Not", "aNd", "Or", "Attributes", "hasprefix", "ATTRIBUTES"}
var fValues = []string{"", "v", "vw", "w", "日日", "q\"uote", "back\\slash", "new\nline", "tab\t", "€", "é", "\x01", " ", "AND", ")", " ", "😀"}

func (g *fgen) ws() string {
	switch g.r.Intn(12) {
	case 0:
		return ""
	case 1:
		return "  "
	case 2:
		return "\t"
	case 3:
		return "\n"
	case 4:
		return " /* c */ "
	case 5:
		return " // c\n"
	case 6:
		return "\r\n"
	}
	return " "
}

// optional whitespace between tokens that do not need a separator
func (g *fgen) ows() string {
	if g.chance(0.7) {
		return ""
	}
	return g.ws()
}

func isIdentName(s string) bool {
	if s == "" {
		return false
	}
	for i, ch := range s {
		isL := ch == '_' || (ch < 128 && (ch >= 'a' && ch <= 'z' || ch >= 'A' && ch <= 'Z'))
		isD := ch < 128 && ch >= '0' && ch <= '9'
		for _, l := range uniLetters {
			if ch == l {
				isL = true
			}
		}
		for _, d := range uniDigits {
			if ch == d {
				isD = true
			}
		}
		if !(isL || isD && i > 0) {
			return false
		}
	}
	return true
}

// quote renders a string literal using a random mix of escape forms
func (g *fgen) quote(s string) string {
	var b strings.Builder
	b.WriteByte('"')
	for _, ch := range s {
		switch {
		case ch == '"':
			b.WriteString(`\"`)
		case ch == '\\':
			b.WriteString(`\\`)
		case ch == '\n':
			b.WriteString(g.pick([]string{`\n`, `\x0a`, `\012`, `\u000a`}))
		case ch == '\t':
			b.WriteString(g.pick([]string{`\t`, "\t", `\x09`}))
		case ch < 0x20:
			b.WriteString(fmt.Sprintf(`\x%02x`, ch))
		case ch < 0x80 && g.chance(0.15):
			b.WriteString(g.pick([]string{fmt.Sprintf(`\x%02x`, ch), fmt.Sprintf(`\%03o`, ch), fmt.Sprintf(`\u%04x`, ch), fmt.Sprintf(`\U%08x`, ch)}))
		case ch >= 0x80 && ch <= 0xff && g.chance(0.3):
			b.WriteString(g.pick([]string{fmt.Sprintf(`\x%02x`, ch), fmt.Sprintf(`\%03o`, ch)}))
		case ch >= 0x80 && g.chance(0.3):
			if ch < 0x10000 {
				b.WriteString(fmt.Sprintf(`\u%04x`, ch))
			} else {
				b.WriteString(fmt.Sprintf(`\U%08x`, ch))
			}
		default:
			b.WriteRune(ch)
		}
	}
	b.WriteByte('"')
	return b.String()
}

func (g *fgen) name(s string) string {
	if isIdentName(s) && g.chance(0.7) {
		return s
	}
	return g.quote(s)
}

// kw renders a keyword or punctuation mark, occasionally as a quoted string (F14)
func (g *fgen) kw(s string, allowQuoted bool) string {
	if allowQuoted && g.chance(0.04) {
		return `"` + s + `"`
	}
	return s
}

func (g *fgen) basic(q bool) string {
	n := g.name(g.pick(fNames))
	switch g.r.Intn(4) {
	case 0:
		return g.kw("attributes", q) + g.ows() + g.kw(":", q) + g.ows() + n
	case 1:
		return g.kw("attributes", q) + g.ows() + g.kw(".", q) + g.ows() + n + g.ows() + g.kw("=", q) + g.ows() + g.quote(g.pick(fValues))
	case 2:
		ne := "!="
		if g.chance(0.2) {
			ne = "!" + g.ws() + "="
		}
		return g.kw("attributes", q) + g.ows() + "." + g.ows() + n + g.ows() + ne + g.ows() + g.quote(g.pick(fValues))
	}
	return g.kw("hasPrefix", q) + g.ows() + g.kw("(", q) + g.ows() + "attributes" + g.ows() + "." + g.ows() + n + g.ows() + g.kw(",", q) + g.ows() + g.quote(g.pick(fValues)) + g.ows() + g.kw(")", q)
}

func (g *fgen) term(depth int, q bool) string {
	neg := ""
	if g.chance(0.3) {
		if g.chance(0.5) {
			neg = g.kw("NOT", q) + g.ws()
		} else {
			neg = "-" + g.ows()
		}
	}
	if depth > 0 && g.chance(0.3) {
		return neg + "(" + g.ows() + g.cond(depth-1, q) + g.ows() + ")"
	}
	return neg + g.basic(q)
}

func (g *fgen) cond(depth int, q bool) string {
	s := g.term(depth, q)
	n := 0
	if g.chance(0.5) {
		n = 1 + g.r.Intn(3)
	}
	op := g.pick([]string{"AND", "OR"})
	for i := 0; i < n; i++ {
		sep1, sep2 := g.ws(), g.ws()
		if sep1 == "" {
			sep1 = " "
		}
		if sep2 == "" {
			sep2 = " "
		}
		s += sep1 + g.kw(op, q) + sep2 + g.term(depth, q)
	}
	return s
}

var mutTokens = []string{"AND", "OR", "NOT", "-", "(", ")", "attributes", "hasPrefix", ":", ".", ",", "=", "!", "!=", `"v"`, "x", "5", "1.5", "'c'", "`raw`", "/*", "//", "\"", "\\", "+", "€", "é",
	"and", "or", "not", "And", "Not", "Attributes", "hasprefix", "HASPREFIX", "nOT"}

// recase gives a keyword in another letter case (the grammar's keywords are case-sensitive)
func (g *fgen) recase(t string) string {
	switch g.r.Intn(3) {
	case 0:
		return strings.ToLower(t)
	case 1:
		return strings.ToUpper(t)
	}
	if len(t) > 1 {
		return strings.ToUpper(t[:1]) + strings.ToLower(t[1:])
	}
	return t
}

// deep nests a sentence in k pairs of parentheses, some of them negated
func (g *fgen) deep(k int) string {
	s := g.basic(false)
	for i := 0; i < k; i++ {
		neg := ""
		if g.chance(0.2) {
			neg = g.pick([]string{"NOT ", "-", "NOT"})
		}
		s = neg + "(" + g.ows() + s + g.ows() + ")"
		if g.chance(0.1) {
			s += " " + g.pick([]string{"AND", "OR"}) + " " + g.basic(false)
		}
	}
	return s
}

// mutate applies one token-level mutation to a sentence (tokens approximated by
// splitting at spaces and around punctuation)
func (g *fgen) mutate(s string) string {
	toks := roughTokens(s)
	if len(toks) == 0 {
		return g.pick(mutTokens)
	}
	i := g.r.Intn(len(toks))
	switch g.r.Intn(6) {
	case 5: // a keyword in another letter case
		for j := 0; j < len(toks); j++ {
			k := (i + j) % len(toks)
			switch toks[k] {
			case "AND", "OR", "NOT", "attributes", "hasPrefix":
				toks[k] = g.recase(toks[k])
				return strings.Join(toks, " ")
			}
		}
		toks[i] = g.recase(toks[i])
	case 0: // delete
		toks = append(toks[:i], toks[i+1:]...)
	case 1: // duplicate
		toks = append(toks[:i+1], toks[i:]...)
	case 2: // swap with neighbour
		if i+1 < len(toks) {
			toks[i], toks[i+1] = toks[i+1], toks[i]
		}
	case 3: // replace
		toks[i] = g.pick(mutTokens)
	case 4: // insert
		toks = append(toks[:i], append([]string{g.pick(mutTokens)}, toks[i:]...)...)
	}
	return strings.Join(toks, " ")
}

func roughTokens(s string) []string {
	var out []string
	var cur strings.Builder
	inStr := false
	flush := func() {
		if cur.Len() > 0 {
			out = append(out, cur.String())
			cur.Reset()
		}
	}
	rs := []rune(s)
	for i := 0; i < len(rs); i++ {
		ch := rs[i]
		if inStr {
			cur.WriteRune(ch)
			if ch == '\\' && i+1 < len(rs) {
				i++
				cur.WriteRune(rs[i])
			} else if ch == '"' {
				inStr = false
				flush()
			}
			continue
		}
		switch {
		case ch == '"':
			flush()
			inStr = true
			cur.WriteRune(ch)
		case ch == ' ' || ch == '\t' || ch == '\n' || ch == '\r':
			flush()
		case strings.ContainsRune("():.,=!-", ch):
			flush()
			out = append(out, string(ch))
		default:
			cur.WriteRune(ch)
		}
	}
	flush()
	return out
}

var fuzzAlphabet = []string{"a", "x", "_", "1", "0", " ", "\t", "\n", "\"", "\\", "'", "`", "(", ")", ":", ".", ",", "=", "!", "-", "/", "*", "+",
	"AND", "OR", "NOT", "attributes", "hasPrefix", "attributes:x", "\x00", "\xff", "\xc3", "\xe2\x82", "é", "€", "日", "٣", "\ufeff", " ", "\\x4", "\\u00e9", "\\777", "\\q", "\\ud800", "/*", "*/", "//"}

func (g *fgen) fuzz() string {
	n := 1 + g.r.Intn(12)
	var b strings.Builder
	for i := 0; i < n; i++ {
		b.WriteString(g.pick(fuzzAlphabet))
	}
	return b.String()
}

func (g *fgen) attrMaps(n int) []map[string]string {
	out := []map[string]string{nil, {}}
	for len(out) < n {
		m := map[string]string{}
		k := 1 + g.r.Intn(3)
		for i := 0; i < k; i++ {
			m[g.pick(fNames)] = g.pick(fValues)
		}
		out = append(out, m)
	}
	return out
}

// exhaustive: every filter of a bounded shape over a small vocabulary, evaluated on every
// attribute map over that vocabulary
func exhaustiveFilters() (srcs []string, maps []map[string]string) {
	vals := []string{"", "v", "vw"}
	var atoms []string
	for _, k := range []string{"x", "y"} {
		atoms = append(atoms, "attributes:"+k)
		for _, v := range vals[:2] {
			atoms = append(atoms, fmt.Sprintf("attributes.%s = %q", k, v), fmt.Sprintf("attributes.%s != %q", k, v), fmt.Sprintf("hasPrefix(attributes.%s, %q)", k, v))
		}
	}
	var lits []string
	for _, a := range atoms {
		lits = append(lits, a, "NOT "+a)
	}
	srcs = append(srcs, lits...)
	for _, a := range lits {
		for _, b := range lits {
			srcs = append(srcs, a+" AND "+b, a+" OR "+b, "NOT ("+a+" AND "+b+")", "-("+a+" OR "+b+")")
		}
	}
	// three-term lists and nesting on a sub-vocabulary
	small := []string{"attributes:x", "NOT attributes:y", `attributes.x = "v"`, `attributes.y != "v"`, `hasPrefix(attributes.x, "v")`}
	for _, a := range small {
		for _, b := range small {
			for _, c := range small {
				srcs = append(srcs, a+" AND "+b+" AND "+c, a+" OR "+b+" OR "+c, "("+a+" OR "+b+") AND "+c, a+" OR ("+b+" AND NOT ("+c+"))")
			}
		}
	}
	opts := []*string{nil}
	for i := range vals {
		opts = append(opts, &vals[i])
	}
	for _, vx := range opts {
		for _, vy := range opts {
			m := map[string]string{}
			if vx != nil {
				m["x"] = *vx
			}
			if vy != nil {
				m["y"] = *vy
			}
			maps = append(maps, m)
		}
	}
	return
}

func cmdFilterDiff(args []string) error {
	fs := flag.NewFlagSet("filter-diff", flag.ExitOnError)
	seed := fs.Int64("seed", 1, "")
	n := fs.Int("n", 600, "generated sentences")
	mut := fs.Int("mut", 600, "mutated sentences")
	fuzz := fs.Int("fuzz", 600, "fuzzed strings")
	exh := fs.Float64("exhaustive", 0.05, "fraction of the bounded-exhaustive space (1 = all)")
	shards := fs.Int("shards", 16, "")
	out := fs.String("out", "", "")
	fs.Parse(args)
	os.MkdirAll(*out, 0o755)
	g := &fgen{r: rand.New(rand.NewSource(*seed))}
	var outs []fOutcome
	add := func(class, src string, maps []map[string]string) {
		// ... and maps holding the names the text mentions, in every letter case the pool has
		// (a random map rarely contains the one key that tells two readings of the text apart)
		low := strings.ToLower(src)
		extra := 0
		for _, n := range fNames {
			if n != "" && extra < 6 && strings.Contains(low, strings.ToLower(n)) && len(n) > 1 {
				maps = append(maps, map[string]string{n: g.pick(fValues)})
				extra++
			}
		}
		o := runFilter(src, maps)
		o.Class = class
		outs = append(outs, o)
	}
	// corpus first
	for _, c := range filterCorpus {
		add("corpus", c, g.attrMaps(6))
	}
	for i := 0; i < *n; i++ {
		add("grammar", g.cond(2, g.chance(0.3)), g.attrMaps(5))
	}
	for i := 0; i < *mut; i++ {
		add("mutation", g.mutate(g.cond(1, false)), g.attrMaps(3))
	}
	for i := 0; i < *fuzz; i++ {
		add("fuzz", g.fuzz(), g.attrMaps(2))
	}
	// nesting far deeper than the grammar generator produces (every depth 1..12, then up to 60)
	for k := 1; k <= 12+*n/50; k++ {
		d := k
		if k > 12 {
			d = 12 + g.r.Intn(48)
		}
		add("deep", g.deep(d), g.attrMaps(5))
	}
	srcs, maps := exhaustiveFilters()
	nexh := 0
	for i, s := range srcs {
		if *exh >= 1 || g.r.Float64() < *exh || i < 30 {
			add("exhaustive", s, maps)
			nexh++
		}
	}
	stats := map[string]int{}
	lines := make([][]string, *shards)
	var samples []string
	for i, o := range outs {
		stats[o.Class+":"+o.Status]++
		if o.Status == "ok" && !o.Reparse {
			stats["roundtrip_failed"]++
		}
		lines[i%*shards] = append(lines[i%*shards], fmt.Sprintf("(%d%%nat, %s)", i, o.coq()))
		if len(samples) < 4 && i%97 == 0 {
			samples = append(samples, o.Src)
		}
	}
	for k := range lines {
		body := "From MB Require Import Base.\nFrom MB.Filter Require Import Ast Check.\nOpen Scope list_scope.\nDefinition cases : list (nat * fcase) := [\n" +
			strings.Join(lines[k], ";\n") + "].\nDefinition bad := Eval vm_compute in fbad cases.\nPrint bad.\n"
		if err := os.WriteFile(filepath.Join(*out, fmt.Sprintf("filter_%02d.v", k)), []byte(body), 0o644); err != nil {
			return err
		}
	}
	type idx struct {
		Src    string `json:"src"`
		Class  string `json:"class"`
		Status string `json:"status"`
		Print  string `json:"printed,omitempty"`
	}
	index := make([]idx, len(outs))
	for i, o := range outs {
		index[i] = idx{o.Src, o.Class, o.Status, o.Printed}
	}
	if err := writeJSON(filepath.Join(*out, "filter_index.json"), index); err != nil {
		return err
	}
	return writeJSON(filepath.Join(*out, "filter.json"), map[string]interface{}{"cases": len(outs), "stats": stats, "samples": samples,
		"exhaustive_total": len(srcs), "exhaustive_run": nexh, "exhaustive_maps": len(maps), "ebnf": filter.Parser.String()})
}

// minimised inputs of earlier findings: they always run first
var filterCorpus = []string{
	`attributes:""`,                   // F3: printed as "attributes:" before the fix
	`attributes."" = "v"`,             // F3
	`hasPrefix(attributes."", "")`,    // F3
	`attributes.k != "v"`,             // F2: absent key
	`"attributes":x`,                  // F14
	`attributes:x "AND" attributes:y`, // F14
	`"NOT" attributes:x`,              // F14
	`attributes.x "=" "v"`,            // F14
	`"hasPrefix"(attributes.x,"v")`,   // F14
	`attributes":"x`,                  // F14
	`attributes:x AND attributes:y OR attributes:z`,
	`NOT NOT attributes:x`,
	``,
	`attributes:x AND`,
	`attributes.x = "\xe9"`,
	`attributes.x = "\400"`,
	`attributes.x = "\ud800"`,
	"attributes:x // trailing comment",
	"attributes:x /* unterminated",
	"\ufeffattributes:x",
	"attributes:x\x00",
	"attributes:\xff",
	`attributes.x=.5`,
	`attributes:x5 AND attributes:_`,
	`- - attributes:x`,
	`(((attributes:x)))`,
	`attributes:é AND attributes:日`,
	"attributes:x ",
	`attributes . x ! = "v"`,
	`attributes:or`, `attributes.not = "v"`, `hasPrefix(attributes.And, "v")`, // keyword-like names keep their spelling
	`attributes:x and attributes:y`, `not attributes:x`, `Attributes:x`, `hasprefix(attributes.x,"v")`, `attributes:x Or attributes:y`,
	`(((((((((attributes.k = "v")))))))))`, `NOT(NOT(NOT(NOT(NOT(NOT(NOT(NOT(NOT(NOT(attributes:x))))))))))`,
}

func init() { subcmds["filter-diff"] = cmdFilterDiff }
