package main

import (
	"encoding/json"
	"os"
)

func writeJSON(path string, v interface{}) error {
	b, err := json.MarshalIndent(v, "", " ")
	if err != nil {
		return err
	}
	return os.WriteFile(path, b, 0o644)
}
