package main

import (
	"fmt"

	"go.6river.tech/mmmbbb/faults"
)

func init() {
	subcmds["faults-probe"] = func(args []string) error {
		s := faults.NewSet("x")
		s.Add(faults.Description{Operation: "a", Count: 1, OnFault: func(d faults.Description, p faults.Parameters) error { return fmt.Errorf("boom") }})
		fmt.Println(s.Check("a", nil), s.Check("a", nil))
		return nil
	}
}
