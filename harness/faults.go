package main

// C18: differential tests of faults.Set against Faults.v.
//  faults-seq   : random sequential Add / Check / Current histories  -> srun
//  faults-sched : forced interleavings of concurrent Check callers through the verif
//                 yield hook (between match and decrement)            -> macro steps of the LTS

import (
	"errors"
	"flag"
	"fmt"
	"math/rand"
	"os"
	"path/filepath"
	"sort"
	"strings"
	"sync"

	"go.6river.tech/mmmbbb/faults"
)

type fdesc struct {
	Op     string
	Params map[string]string
	Count  int64
}

type firedErr struct {
	idx       int
	remaining int64
}

func (e *firedErr) Error() string { return fmt.Sprintf("fired %d remaining %d", e.idx, e.remaining) }

func mkDesc(i int, d fdesc) faults.Description {
	return faults.Description{Operation: d.Op, Parameters: d.Params, Count: d.Count, FaultDescription: fmt.Sprint(i),
		OnFault: func(dd faults.Description, _ faults.Parameters) error {
			return &firedErr{idx: i, remaining: dd.Count}
		}}
}

func coqDesc(d fdesc) string {
	return fmt.Sprintf("(mkDesc %s %s %s)", coqStr(d.Op), coqMap(d.Params), coqZ(d.Count))
}

var fOps = []string{"Publish", "Pull", "pull", ""}
var fKeys = []string{"topic", "subscription", "x", ""}
var fVals = []string{"a", "b", "", "projects/p/topics/t"}

func randParams(r *rand.Rand, max int) map[string]string {
	n := r.Intn(max + 1)
	if n == 0 && r.Intn(2) == 0 {
		return nil
	}
	m := map[string]string{}
	for i := 0; i < n; i++ {
		m[fKeys[r.Intn(len(fKeys))]] = fVals[r.Intn(len(fVals))]
	}
	return m
}

func currentFor(s *faults.Set, op string) string {
	cur := s.Current()[op]
	parts := make([]string, len(cur))
	for i, d := range cur {
		parts[i] = fmt.Sprintf("(%s%%nat, %s)", d.FaultDescription, coqZ(d.Count))
	}
	return "[" + strings.Join(parts, "; ") + "]"
}

func cmdFaultsSeq(args []string) error {
	fs := flag.NewFlagSet("faults-seq", flag.ExitOnError)
	seed := fs.Int64("seed", 1, "")
	n := fs.Int("n", 200, "histories")
	out := fs.String("out", "", "")
	fs.Parse(args)
	os.MkdirAll(*out, 0o755)
	r := rand.New(rand.NewSource(*seed))
	var b strings.Builder
	b.WriteString("From MB Require Import Base Faults.\nOpen Scope list_scope.\n")
	b.WriteString("Definition sout_eqb (a b : sout) : bool := match a, b with OUnit, OUnit => true | OCheck x, OCheck y => opt_eqb (pair_eqb Nat.eqb Z.eqb) x y | OCurrent x, OCurrent y => list_eqb (pair_eqb Nat.eqb Z.eqb) x y | _, _ => false end.\n")
	b.WriteString("Definition chk (ops : list sop) (obs : list sout) : bool := list_eqb sout_eqb (srun [] ops) obs.\n")
	b.WriteString("Definition cases : list (nat * (list sop * list sout)) := [\n")
	stats := map[string]int{}
	var samples []string
	for h := 0; h < *n; h++ {
		s := faults.NewSet(fmt.Sprintf("seq%d", h))
		var ops, obs []string
		nd := 0
		steps := 5 + r.Intn(25)
		fired := 0
		for i := 0; i < steps; i++ {
			switch k := r.Intn(10); {
			case k < 3:
				d := fdesc{Op: fOps[r.Intn(len(fOps))], Params: randParams(r, 2), Count: []int64{0, 1, 1, 2, 3, 100, -1}[r.Intn(7)]}
				s.Add(mkDesc(nd, d))
				nd++
				ops = append(ops, "SAdd "+coqDesc(d))
				obs = append(obs, "OUnit")
				stats["add"]++
			case k < 9:
				op := fOps[r.Intn(len(fOps))]
				ps := randParams(r, 3)
				err := s.Check(op, ps)
				ops = append(ops, fmt.Sprintf("SCheck %s %s", coqStr(op), coqMap(ps)))
				var fe *firedErr
				if errors.As(err, &fe) {
					obs = append(obs, fmt.Sprintf("OCheck (Some (%d%%nat, %s))", fe.idx, coqZ(fe.remaining)))
					fired++
					stats["check_fired"]++
				} else {
					obs = append(obs, "OCheck None")
					stats["check_pass"]++
				}
			default:
				op := fOps[r.Intn(len(fOps))]
				ops = append(ops, "SCurrent "+coqStr(op))
				obs = append(obs, "OCurrent "+currentFor(s, op))
				stats["current"]++
			}
		}
		if fired > 0 {
			stats["histories_with_fault"]++
		}
		if h > 0 {
			b.WriteString(";\n")
		}
		c := fmt.Sprintf("(%d%%nat, ([%s], [%s]))", h, strings.Join(ops, "; "), strings.Join(obs, "; "))
		b.WriteString(c)
		if len(samples) < 2 {
			samples = append(samples, c)
		}
	}
	b.WriteString("].\nDefinition bad := Eval vm_compute in map fst (filter (fun c => negb (chk (fst (snd c)) (snd (snd c)))) cases).\nPrint bad.\n")
	if err := os.WriteFile(filepath.Join(*out, "faults_seq.v"), []byte(b.String()), 0o644); err != nil {
		return err
	}
	return writeJSON(filepath.Join(*out, "faults_seq.json"), map[string]interface{}{"histories": *n, "stats": stats, "samples": samples})
}

// ---- forced schedules ----

type schedCase struct {
	Descs   []fdesc
	Callers []struct {
		Op     string
		Params map[string]string
	}
	Sched []int
}

type callerState struct {
	resume chan struct{}
	event  chan string // "yield" or "done"
	result string
	yields int
}

var schedMu sync.Mutex

func runSched(c schedCase) (results []string, current string, rematches int) {
	schedMu.Lock()
	defer schedMu.Unlock()
	s := faults.NewSet("sched")
	for i, d := range c.Descs {
		s.Add(mkDesc(i, d))
	}
	cs := make([]*callerState, len(c.Callers))
	for i := range cs {
		cs[i] = &callerState{resume: make(chan struct{}), event: make(chan string, 1)}
	}
	setYield(func(point, op string, params faults.Parameters) {
		idx := -1
		fmt.Sscan(params["__caller"], &idx)
		if idx < 0 || idx >= len(cs) {
			return
		}
		cs[idx].yields++
		cs[idx].event <- "yield"
		<-cs[idx].resume
	})
	defer setYield(nil)
	for i, cl := range c.Callers {
		i, cl := i, cl
		go func() {
			<-cs[i].resume
			ps := faults.Parameters{"__caller": fmt.Sprint(i)}
			for k, v := range cl.Params {
				ps[k] = v
			}
			err := s.Check(cl.Op, ps)
			var fe *firedErr
			if errors.As(err, &fe) {
				cs[i].result = fmt.Sprintf("Some (Some %d%%nat)", fe.idx)
			} else {
				cs[i].result = "Some None"
			}
			cs[i].event <- "done"
		}()
	}
	done := make([]bool, len(cs))
	stepc := func(t int) {
		if done[t] {
			return
		}
		cs[t].resume <- struct{}{}
		if ev := <-cs[t].event; ev == "done" {
			done[t] = true
		}
	}
	for _, t := range c.Sched {
		stepc(t)
	}
	for t := range cs {
		for !done[t] {
			stepc(t)
		}
	}
	for _, x := range cs {
		results = append(results, x.result)
		if x.yields > 1 {
			rematches++
		}
	}
	// listing for every operation in play
	opset := map[string]bool{}
	for _, d := range c.Descs {
		opset[d.Op] = true
	}
	var ops []string
	for o := range opset {
		ops = append(ops, o)
	}
	sort.Strings(ops)
	var cur []string
	for _, o := range ops {
		cur = append(cur, fmt.Sprintf("(%s, %s)", coqStr(o), currentFor(s, o)))
	}
	return results, "[" + strings.Join(cur, "; ") + "]", rematches
}

func cmdFaultsSched(args []string) error {
	fs := flag.NewFlagSet("faults-sched", flag.ExitOnError)
	seed := fs.Int64("seed", 1, "")
	exhaustiveLen := fs.Int("len", 5, "schedule length enumerated exhaustively")
	random := fs.Int("random", 200, "additional random cases")
	out := fs.String("out", "", "")
	shards := fs.Int("shards", 16, "")
	fs.Parse(args)
	os.MkdirAll(*out, 0o755)
	if !yieldAvailable {
		return writeJSON(filepath.Join(*out, "faults_sched.json"), map[string]interface{}{"hook": false})
	}
	r := rand.New(rand.NewSource(*seed))
	var cases []schedCase
	type caller = struct {
		Op     string
		Params map[string]string
	}
	// exhaustive: 1 or 2 descriptions on one op, counts 1..2, 2..3 matching callers, every schedule
	base := []struct {
		descs   []fdesc
		callers []caller
	}{
		{[]fdesc{{"op", nil, 1}}, []caller{{"op", nil}, {"op", nil}}},
		{[]fdesc{{"op", nil, 1}}, []caller{{"op", nil}, {"op", nil}, {"op", nil}}},
		{[]fdesc{{"op", nil, 2}}, []caller{{"op", nil}, {"op", nil}, {"op", nil}}},
		{[]fdesc{{"op", map[string]string{"k": "v"}, 1}, {"op", nil, 1}}, []caller{{"op", map[string]string{"k": "v"}}, {"op", nil}, {"op", map[string]string{"k": "v"}}}},
		{[]fdesc{{"op", nil, 1}, {"op", nil, 1}}, []caller{{"op", nil}, {"op", nil}, {"op", nil}}},
		{[]fdesc{{"op", map[string]string{"k": "v"}, 1}}, []caller{{"op", map[string]string{"k": "w"}}, {"op", map[string]string{"k": "v", "z": "1"}}, {"other", map[string]string{"k": "v"}}}},
	}
	for _, b := range base {
		nc := len(b.callers)
		var rec func(pre []int)
		rec = func(pre []int) {
			if len(pre) == *exhaustiveLen {
				cases = append(cases, schedCase{Descs: b.descs, Callers: b.callers, Sched: append([]int(nil), pre...)})
				return
			}
			for t := 0; t < nc; t++ {
				rec(append(pre, t))
			}
		}
		rec(nil)
	}
	nExh := len(cases)
	for i := 0; i < *random; i++ {
		var c schedCase
		nd := 1 + r.Intn(3)
		for j := 0; j < nd; j++ {
			c.Descs = append(c.Descs, fdesc{Op: []string{"op", "op", "other"}[r.Intn(3)], Params: randParams(r, 1), Count: []int64{1, 1, 2, 3, 0}[r.Intn(5)]})
		}
		ncl := 2 + r.Intn(4)
		for j := 0; j < ncl; j++ {
			c.Callers = append(c.Callers, caller{[]string{"op", "op", "op", "other"}[r.Intn(4)], randParams(r, 2)})
		}
		l := r.Intn(12)
		for j := 0; j < l; j++ {
			c.Sched = append(c.Sched, r.Intn(ncl))
		}
		cases = append(cases, c)
	}
	var hdr strings.Builder
	hdr.WriteString("From MB Require Import Base Faults.\nOpen Scope list_scope.\n")
	hdr.WriteString(`Definition res_eqb := list_eqb (opt_eqb (opt_eqb Nat.eqb)).
Definition model (ds : list desc) (cl : list (str * params)) (sched : list nat) : cfg :=
  let c0 := fold_left lstep (map LAdd ds ++ map (fun x => LCall (fst x) (snd x)) cl) cfg0 in
  let c1 := fold_left macro sched c0 in
  fold_left (fun c t => fold_left (fun c _ => macro c t) (seq 0 (length (c_set c) + 3)) c) (seq 0 (length cl)) c1.
Definition chk (ds : list desc) (cl : list (str * params)) (sched : list nat) (res : list (option (option nat)))
  (cur : list (str * list (nat * Z))) : bool :=
  let c := model ds cl sched in
  res_eqb (results c) res && forallb (fun oc => list_eqb (pair_eqb Nat.eqb Z.eqb) (current (c_set c) (fst oc)) (snd oc)) cur.
`)
	lines := make([][]string, *shards)
	raceLost := 0
	var samples []string
	for i, c := range cases {
		res, cur, rem := runSched(c)
		if rem > 0 {
			raceLost++
		}
		ds := make([]string, len(c.Descs))
		for j, d := range c.Descs {
			ds[j] = coqDesc(d)
		}
		cl := make([]string, len(c.Callers))
		for j, x := range c.Callers {
			ps := map[string]string{"__caller": fmt.Sprint(j)}
			for k, v := range x.Params {
				ps[k] = v
			}
			cl[j] = fmt.Sprintf("(%s, %s)", coqStr(x.Op), coqMap(ps))
		}
		sc := make([]string, len(c.Sched))
		for j, t := range c.Sched {
			sc[j] = fmt.Sprintf("%d%%nat", t)
		}
		line := fmt.Sprintf("(%d%%nat, chk [%s] [%s] [%s] [%s] %s)", i, strings.Join(ds, "; "), strings.Join(cl, "; "), strings.Join(sc, "; "), strings.Join(res, "; "), cur)
		lines[i%*shards] = append(lines[i%*shards], line)
		if len(samples) < 2 && len(c.Sched) > 2 {
			samples = append(samples, line)
		}
	}
	for k := range lines {
		body := hdr.String() + "Definition cases : list (nat * bool) := [\n" + strings.Join(lines[k], ";\n") +
			"].\nDefinition bad := Eval vm_compute in map fst (filter (fun c => negb (snd c)) cases).\nPrint bad.\n"
		if err := os.WriteFile(filepath.Join(*out, fmt.Sprintf("faults_sched_%02d.v", k)), []byte(body), 0o644); err != nil {
			return err
		}
	}
	return writeJSON(filepath.Join(*out, "faults_sched.json"), map[string]interface{}{"hook": true, "cases": len(cases),
		"exhaustive_cases": nExh, "schedules_with_rematch": raceLost, "samples": samples})
}

func init() {
	subcmds["faults-seq"] = cmdFaultsSeq
	subcmds["faults-sched"] = cmdFaultsSched
}
