package main

// pull-race: two pullers of one subscription with a forced interleaving at the transaction
// boundaries of the first one. After the k-th COMMIT of puller A's call (k = 1, 2, 3: after
// its expiry heartbeat, after its select-and-lease, ...) puller B runs a complete pull; then A
// goes on. Whatever the interleaving, a message is leased to one of them only (C04: not handed
// out again inside its lease), the attempt numbers they report are distinct per delivery, and
// the stored attempt count is the number of hand-outs.

import (
	"context"
	"flag"
	"fmt"
	"os"
	"path/filepath"
	"sync"
	"time"

	"github.com/google/uuid"

	"go.6river.tech/mmmbbb/actions"
)

type pullRaceResult struct {
	K        int      `json:"after_commit"`
	Commits  int      `json:"commits_of_a"`
	BRan     bool     `json:"b_ran"`
	A        []string `json:"a_got"`
	B        []string `json:"b_got"`
	Problems []string `json:"problems"`
}

func runPullRace(k int) (*pullRaceResult, error) {
	ctx := context.Background()
	e, err := NewEnv(true)
	if err != nil {
		return nil, err
	}
	defer e.Close()
	topic, subName := "projects/p/topics/pr", "projects/p/subscriptions/pr"
	if err := streamSetup(e, topic, subName, [][]byte{sizedPayload(10), sizedPayload(10), sizedPayload(10)}); err != nil {
		return nil, err
	}
	d0, _ := e.dumpR(ctx)
	sub := d0.subByName(subName)
	res := &pullRaceResult{K: k}
	pull := func(ctx context.Context) ([]*actions.SubscriptionMessageDelivery, error) {
		g := actions.NewGetSubscriptionMessages(actions.GetSubscriptionMessagesParams{ID: &sub.ID, Name: subName,
			MaxMessages: 10, MaxBytes: 1 << 20, MaxWait: 30 * time.Millisecond})
		if err := g.ExecuteClient(ctx, e.Client); err != nil {
			return nil, err
		}
		r, _ := g.Results()
		return r.Deliveries, nil
	}
	var mu sync.Mutex
	var bGot []*actions.SubscriptionMessageDelivery
	var bErr error
	SetDBHook(e.DSN, func(hctx context.Context, kind CallKind, q string, after bool) error {
		if a, _ := hctx.Value(actorKey{}).(string); a != "A" || kind != KCommit || !after {
			return nil
		}
		mu.Lock()
		res.Commits++
		hit := res.Commits == k && !res.BRan
		if hit {
			res.BRan = true
		}
		mu.Unlock()
		if hit {
			bGot, bErr = pull(context.WithValue(ctx, actorKey{}, "B"))
		}
		return nil
	})
	aGot, aErr := pull(context.WithValue(ctx, actorKey{}, "A"))
	SetDBHook(e.DSN, nil)
	if aErr != nil {
		return nil, fmt.Errorf("puller A: %w", aErr)
	}
	if bErr != nil {
		return nil, fmt.Errorf("puller B: %w", bErr)
	}
	handouts := map[uuid.UUID]int{}
	attempts := map[uuid.UUID]map[int]bool{}
	note := func(who string, l []*actions.SubscriptionMessageDelivery, out *[]string) {
		for _, x := range l {
			*out = append(*out, x.ID.String())
			handouts[x.ID]++
			if attempts[x.ID] == nil {
				attempts[x.ID] = map[int]bool{}
			}
			if attempts[x.ID][x.NumAttempts] {
				res.Problems = append(res.Problems, fmt.Sprintf("attempt-number: delivery %s was handed to both pullers as delivery attempt %d", x.ID, x.NumAttempts))
			}
			attempts[x.ID][x.NumAttempts] = true
		}
	}
	note("A", aGot, &res.A)
	note("B", bGot, &res.B)
	fin, _ := e.dumpR(ctx)
	for id, n := range handouts {
		if n > 1 {
			res.Problems = append(res.Problems, fmt.Sprintf("lease-violated: delivery %s was handed to puller A and to puller B (B's pull ran after the %d. commit of A's call), inside its 60 s lease", id, k))
		}
		if x := fin.del(id); x != nil && int(x.Attempts) != n {
			res.Problems = append(res.Problems, fmt.Sprintf("attempt-number: delivery %s was handed out %d time(s), its row counts %d attempts", id, n, x.Attempts))
		}
	}
	if len(handouts) != 3 {
		res.Problems = append(res.Problems, fmt.Sprintf("lease-timer-missed: 3 messages were due, the two pullers together got %d", len(handouts)))
	}
	return res, nil
}

func cmdPullRace(args []string) error {
	fs := flag.NewFlagSet("pull-race", flag.ExitOnError)
	out := fs.String("out", "", "")
	fs.Parse(args)
	if *out == "" {
		return fmt.Errorf("-out required")
	}
	os.MkdirAll(*out, 0o755)
	var results []*pullRaceResult
	for k := 1; k <= 4; k++ {
		r, err := runPullRace(k)
		if err != nil {
			return fmt.Errorf("k=%d: %w", k, err)
		}
		results = append(results, r)
	}
	return writeJSON(filepath.Join(*out, "pullrace.json"), map[string]interface{}{"results": results})
}

func init() { subcmds["pull-race"] = cmdPullRace }
